/-
  Property C01 — the forged waveform is the in-order concatenation of per-segment samples.

  `forgeBP` is the model of `_subelementBuilder`; a block `Blk.call fn args SR n` *is* "the
  segment's pulse function evaluated on n points" (the harness evaluates it by calling the
  implementation's pulse function separately).  `Gen.segTooShort` is regenerated from the source.
-/
import BB.Proofs.Forge
import BB.Proofs.G1Flat
import BB.Proofs.G13Forge
import BB.Proofs.G13Body
import BB.Properties.C06
import Mathlib.Tactic.FieldSimp
import Mathlib.Tactic.Ring

namespace BB.C01
open BB

/-- the generated guard is "fewer than two samples" -/
theorem guard_is_two (n : Int) : Gen.segTooShort n = true ↔ n < 2 := by
  simp [Gen.segTooShort]

/-- Structure of a successful forge: there are resolved durations `durs` (one per segment) and
    counts `ns` with `ns[i] = round(durs[i]·SR) ≥ 2`; the waveform consists of exactly one block
    per segment, in segment order; waveform, both markers (and hence the time axis `k/SR`, `k < N`)
    have the same length `N = Σ ns[i]`. -/
theorem forge_structure (b : BP) (f : Forged) (h : forgeBP b = .ok f) :
    ∃ sr durs, b.SR = .num sr ∧ b.resolveWaits = .ok durs ∧ durs.length = b.segs.length ∧
      (∀ d ∈ durs, 2 ≤ rhe (d * sr)) ∧
      f.blocks.length = b.segs.length ∧
      f.blocks.map Blk.len = durs.map (fun d => (rhe (d * sr)).toNat) ∧
      f.N = sumN (durs.map (fun d => (rhe (d * sr)).toNat)) ∧
      f.m1.length = f.N ∧ f.m2.length = f.N ∧ sumN (f.blocks.map Blk.len) = f.N ∧
      f.SR = sr := by
  obtain ⟨sr, durs, ns, hsr, hd, hn, _, rfl⟩ := (forge_ok_iff b f).mp h
  have hlen := resolveGo_length _ _ _ hd
  obtain ⟨h2, hns⟩ := countsGo_ok sr durs ns hn
  have hnl : ns.length = b.segs.length := by rw [countsGo_length sr durs ns hn, hlen]
  have hl := assemble_lengths b sr ns hnl
  simp only at hl
  refine ⟨sr, durs, hsr, hd, hlen, h2, hl.2.2.2.2.1, ?_, ?_, hl.2.1, hl.2.2.1, hl.2.2.2.1, rfl⟩
  · have := mkBlocks_lens sr b.segs ns hnl
    simp only [assemble]; rw [this, hns]; rfl
  · rw [hl.1, hns]; rfl

/-- Block `i` is segment `i`'s own pulse function (`PulseAtoms.waituntil` for a 'waituntil'
    segment) applied to segment `i`'s stored arguments, the blueprint's sample rate and that
    segment's own sample count — the function is evaluated from its own local time zero. -/
theorem block_is_own_pulse (b : BP) (f : Forged) (h : forgeBP b = .ok f) (i : Nat)
    (hi : i < b.segs.length) :
    ∃ sr durs, b.SR = .num sr ∧ b.resolveWaits = .ok durs ∧ ∃ (hd : i < durs.length) (hb : i < f.blocks.length),
      f.blocks[i] = Blk.call (forgeFn b.segs[i].fn) b.segs[i].args sr (rhe (durs[i] * sr)).toNat := by
  obtain ⟨sr, durs, ns, hsr, hd, hn, _, rfl⟩ := (forge_ok_iff b f).mp h
  have hlen := resolveGo_length _ _ _ hd
  obtain ⟨_, hns⟩ := countsGo_ok sr durs ns hn
  have hnl : ns.length = b.segs.length := by rw [countsGo_length sr durs ns hn, hlen]
  have hbl : (mkBlocks sr b.segs ns).length = b.segs.length := mkBlocks_length sr b.segs ns hnl
  refine ⟨sr, durs, hsr, hd, by omega, by simp only [assemble]; omega, ?_⟩
  simp only [assemble]
  rw [mkBlocks_getElem sr b.segs ns i hi (by omega) (by omega)]
  congr 1
  subst hns
  simp [segCount]

/-- A segment that would receive fewer than two samples makes forging fail (never dropped,
    padded or merged): forging succeeds iff the sample rate is a number, the waituntil segments
    can be resolved, and *every* segment gets at least two samples. -/
theorem forge_ok_iff_all_two (b : BP) :
    (∃ f, forgeBP b = .ok f) ↔
      ∃ sr durs, b.SR = .num sr ∧ b.resolveWaits = .ok durs ∧ (∀ d ∈ durs, 2 ≤ rhe (d * sr)) ∧
        badSpecial b = false := by
  constructor
  · rintro ⟨f, h⟩
    obtain ⟨sr, durs, ns, hsr, hd, hn, hb, _⟩ := (forge_ok_iff b f).mp h
    exact ⟨sr, durs, hsr, hd, (countsGo_ok sr durs ns hn).1, hb⟩
  · rintro ⟨sr, durs, hsr, hd, h2, hb⟩
    obtain ⟨ns, hn⟩ := (countsGo_isOk_iff sr durs).mpr h2
    exact ⟨assemble b sr ns, (forge_ok_iff b _).mpr ⟨sr, durs, ns, hsr, hd, hn, hb, rfl⟩⟩

/-- ... and the error raised for a too-short segment is SegmentDurationError. -/
theorem too_short_is_segdur (b : BP) (sr : Rat) (durs : List Rat) (hsr : b.SR = .num sr)
    (hd : b.resolveWaits = .ok durs) (d : Rat) (hmem : d ∈ durs) (hshort : rhe (d * sr) < 2) :
    forgeBP b = .error .segdur := by
  unfold forgeBP
  simp only [hsr, hd]
  cases hc : countsGo sr durs with
  | ok ns =>
    have := (countsGo_ok sr durs ns hc).1 d hmem
    simp only [segCount] at this; omega
  | error e =>
    obtain ⟨he, _⟩ := countsGo_error sr durs e hc
    simp [he]

/-- Rounding on the property's domain: a duration `(n + f)/SR` with `|f| ≤ 0.4` gets exactly `n`
    samples, and so does any value within a tenth of a sample of it (float noise). -/
theorem count_on_domain (n : Int) (f sr : Rat) (hsr : sr ≠ 0) (hf : |f| ≤ 2/5) :
    rhe (((n : Rat) + f) / sr * sr) = n := by
  have : ((n : Rat) + f) / sr * sr = (n : Rat) + f := by field_simp
  rw [this]
  apply rhe_near
  have : (n : Rat) + f - n = f := by ring
  rw [this]; exact hf

theorem count_robust (n : Int) (x δ : Rat) (h : |x - n| ≤ 2/5) (hδ : |δ| < 1/10) :
    rhe (x + δ) = n := rhe_stable x δ n h hδ

theorem sumR_newdur (ns : List Nat) (sr : Rat) :
    sumR (ns.map (fun (n : Nat) => ((n : Int) : Rat) / sr)) = ((sumN ns : Nat) : Rat) / sr := by
  induction ns with
  | nil => simp [sumR, sumN]
  | cons n ns ih =>
    simp only [List.map_cons, sumR, sumN, ih]
    push_cast
    ring

/-- The time axis: `linspace(0, Σ newdurations, N, endpoint=False)[k] = k/SR`. -/
theorem time_axis (b : BP) (f : Forged) (h : forgeBP b = .ok f) (hsr : f.SR ≠ 0) (hN : f.N ≠ 0) (k : Nat) :
    (0 : Rat) + (k : Rat) * ((sumR f.newdurations - 0) / (f.N : Rat)) = (k : Rat) / f.SR := by
  obtain ⟨sr, durs, ns, _, _, _, _, rfl⟩ := (forge_ok_iff b f).mp h
  simp only [assemble] at *
  rw [sumR_newdur]
  have : ((sumN ns : Nat) : Rat) ≠ 0 := by exact_mod_cast hN
  field_simp
  ring

/-- Forging does not look at segment names (the only history-dependent field): two blueprints
    with the same per-segment records up to names, the same absolute markers and sample rate
    forge identically — "whatever the edit history". -/
theorem mkBlocks_body (sr : Rat) (a b : List Seg) (ns : List Nat) (h : a.map BP.Seg.body = b.map BP.Seg.body) :
    mkBlocks sr a ns = mkBlocks sr b ns := by
  induction a generalizing b ns with
  | nil => cases b with
    | nil => rfl
    | cons y ys => simp at h
  | cons x xs ih =>
    cases b with
    | nil => simp at h
    | cons y ys =>
      simp only [List.map_cons, List.cons.injEq] at h
      cases ns with
      | nil => rfl
      | cons n ns =>
        simp only [mkBlocks]
        have hx : x.fn = y.fn ∧ x.args = y.args := by
          have := h.1; simp [BP.Seg.body] at this; exact ⟨this.1, this.2.1⟩
        rw [hx.1, hx.2, ih ys ns h.2]

/-! ### non-vacuity -/

def exampleBP : BP :=
  { segs := [ { name := "ramp", fn := Fn.rampFn, args := [.num 0, .num 1], dur := .num (12/5) },
              { name := "waituntil", fn := Fn.waitSpecial, args := [.num 5], dur := .none },
              { name := "ramp2", fn := Fn.rampFn, args := [.num 1, .num 0], dur := .num (3/2) } ],
    SR := .num 10 }

example : (forgeBP exampleBP).toOption.map (fun f => (f.N, f.blocks.map Blk.len)) = some (65, [24, 26, 15]) := by
  decide +kernel

example : forgeBP { exampleBP with SR := .num (1/2) } = .error .segdur := by decide +kernel

/-! ### newdurations, Element.getArrays, evaluated blocks and the flat sample list (audit round) -/

/-- internal: the shape of a successful forge with the counts spelled out -/
theorem forge_counts (b : BP) (f : Forged) (h : forgeBP b = .ok f) :
    ∃ sr durs, b.SR = .num sr ∧ b.resolveWaits = .ok durs ∧ durs.length = b.segs.length ∧
      (∀ d ∈ durs, 2 ≤ rhe (d * sr)) ∧
      f = assemble b sr (durs.map (fun d => (rhe (d * sr)).toNat)) := by
  obtain ⟨sr, durs, ns, hsr, hd, hn, _, rfl⟩ := (forge_ok_iff b f).mp h
  obtain ⟨h2, hns⟩ := countsGo_ok sr durs ns hn
  exact ⟨sr, durs, hsr, hd, resolveGo_length _ _ _ hd, h2, by rw [hns]; rfl⟩

/-- The `newdurations` output: entry `i` is the *rounded* duration `round(d_i·SR)/SR` of segment `i`
    (`d_i` the resolved duration: the stored one, or `t - elapsed` for a waituntil), which is also
    block `i`'s sample count over the sample rate; there is one entry per segment, and the entries
    add up to `N/SR` - the end point handed to `linspace` for the time axis. -/
theorem newdurations_spec (b : BP) (f : Forged) (h : forgeBP b = .ok f) :
    ∃ sr durs, b.SR = .num sr ∧ b.resolveWaits = .ok durs ∧ f.SR = sr ∧
      f.newdurations = durs.map (fun d => ((rhe (d * sr) : ℤ) : ℚ) / sr) ∧
      f.newdurations.length = b.segs.length ∧
      f.newdurations = f.blocks.map (fun blk => ((blk.len : ℤ) : ℚ) / f.SR) ∧
      sumR f.newdurations = ((f.N : ℕ) : ℚ) / f.SR := by
  obtain ⟨sr, durs, hsr, hd, hlen, h2, rfl⟩ := forge_counts b f h
  have hnl : (durs.map (fun d => (rhe (d * sr)).toNat)).length = b.segs.length := by simp [hlen]
  refine ⟨sr, durs, hsr, hd, rfl, ?_, by simp [assemble, hlen], ?_, ?_⟩
  · simp only [assemble, List.map_map]
    apply List.map_congr_left
    intro d hd'
    have := h2 d hd'
    simp only [Function.comp]
    rw [Int.toNat_of_nonneg (by omega)]
  · simp only [assemble]
    have hl := mkBlocks_lens sr b.segs _ hnl
    conv_lhs => rw [← hl]
    simp only [List.map_map, Function.comp_def]
  · simp only [assemble]
    exact sumR_counts_div _ sr

/-- entry-wise form of `newdurations_spec`: `newdurations[i] = n_i / SR` with `n_i` the length of
    block `i` -/
theorem newdurations_getElem (b : BP) (f : Forged) (h : forgeBP b = .ok f) (i : Nat)
    (hi : i < f.newdurations.length) :
    ∃ hb : i < f.blocks.length, f.newdurations[i] = ((f.blocks[i].len : ℤ) : ℚ) / f.SR := by
  obtain ⟨_, _, _, _, _, _, _, hmap, _⟩ := newdurations_spec b f h
  have hb : i < f.blocks.length := by rw [hmap] at hi; simpa using hi
  refine ⟨hb, ?_⟩
  have : f.newdurations[i] = (f.blocks.map (fun blk => ((blk.len : ℤ) : ℚ) / f.SR))[i]'(by simpa using hb) := by
    congr 1
  rw [this, List.getElem_map]

example : (forgeBP exampleBP).toOption.map (fun f => f.newdurations) = some [12/5, 13/5, 3/2] := by
  decide +kernel

/-- `Element.getArrays` hands out, for every blueprint channel, exactly `forgeBP` of the stored
    blueprint (with the channel's flags), channel by channel in the element's channel order. -/
theorem getArrays_delivers_forge (e : Element) (t : Bool) (out : Dict Chan Element.ChOut)
    (h : e.getArrays t = .ok out) :
    out.length = e.chans.length ∧
    ∀ i (hi : i < e.chans.length) (ho : i < out.length) (b : BP), e.chans[i].2.data = .bp b →
      ∃ f, forgeBP b = .ok f ∧ out[i] = (e.chans[i].1, Element.ChOut.forged f e.chans[i].2.flags t) := by
  unfold Element.getArrays at h
  refine ⟨mapM_ok_length _ _ _ h, ?_⟩
  intro i hi ho b hb
  have := mapM_ok_getElem _ _ _ h i hi ho
  simp only [Element.chanOut, hb] at this
  cases hf : forgeBP b with
  | error er => simp [hf, Except.map] at this
  | ok f =>
    refine ⟨f, rfl, ?_⟩
    simp only [hf, Except.map, Except.ok.injEq] at this
    exact this.symm

/-- helper for the next theorem: one failing element makes `mapM` fail -/
theorem mapM_error_of_mem {α β : Type} (f : α → Except Err β) (l : List α) (x : α) (hx : x ∈ l) (er : Err)
    (h : f x = .error er) : ∃ er', l.mapM f = .error er' := by
  induction l with
  | nil => simp at hx
  | cons a t ih =>
    rw [mapM_cons_eq]
    cases hfa : f a with
    | error e => exact ⟨e, rfl⟩
    | ok y =>
      simp only [List.mem_cons] at hx
      rcases hx with rfl | hx
      · rw [h] at hfa; cases hfa
      · obtain ⟨er', h'⟩ := ih hx
        exact ⟨er', by simp [h']⟩

/-- ... and when a blueprint channel does not forge, `getArrays` raises: no channel is dropped. -/
theorem getArrays_fails_if_forge_fails (e : Element) (t : Bool) (ch : Chan) (ent : ChEntry) (b : BP)
    (hmem : (ch, ent) ∈ e.chans) (hb : ent.data = .bp b) (er : Err) (hf : forgeBP b = .error er) :
    ∃ er', e.getArrays t = .error er' := by
  unfold Element.getArrays
  apply mapM_error_of_mem _ _ (ch, ent) hmem er
  simp [Element.chanOut, hb, hf, Except.map]

/-- the element used below: one blueprint channel -/
def exampleEl : Element := (({} : Element).addBluePrint (.int 1) exampleBP).st

example : (exampleEl.getArrays true).toOption.map (fun out => out.map (fun p => (p.1, match p.2 with
      | .forged f _ t => (f.N, t) | _ => (0, false)))) = some [(.int 1, (65, true))] := by
  decide +kernel

/-- A block evaluates to as many samples as it is long (`Blk.eval?` is the model's exact evaluator
    for ramps, zeros and raw arrays). -/
theorem eval_length (b : BP) (f : Forged) (_h : forgeBP b = .ok f) (blk : Blk) (_hm : blk ∈ f.blocks)
    (xs : List ℚ) (he : blk.eval? = some xs) : xs.length = blk.len :=
  Blk.evalLength blk xs he

/-- A waituntil segment's block evaluates to zeros only (as many as the block is long). -/
theorem wait_block_evaluates_to_zeros (b : BP) (f : Forged) (h : forgeBP b = .ok f) (i : Nat)
    (hi : i < b.segs.length) (hw : b.segs[i].fn.isWait = true) :
    ∃ hb : i < f.blocks.length, f.blocks[i].eval? = some (List.replicate f.blocks[i].len 0) := by
  obtain ⟨sr, durs, _, _, hd, hb, hblk⟩ := block_is_own_pulse b f h i hi
  refine ⟨hb, ?_⟩
  rw [hblk, forgeFn_wait _ hw]
  exact Blk.evalZeros _ _ _ _ rfl

/-- A ramp segment's block (shape `ramp`, two numeric arguments) evaluates to the generated
    `PulseAtoms.ramp` kernel on its own `n_i` points `k = 0..n_i-1`, at the blueprint's sample rate:
    the pulse function is evaluated from its own local time zero. -/
theorem ramp_block_evaluates_to_ramp (b : BP) (f : Forged) (h : forgeBP b = .ok f) (i : Nat)
    (hi : i < b.segs.length) (hw : b.segs[i].fn.isWait = false) (hs : b.segs[i].fn.shape = .ramp)
    (a c : ℚ) (ha : b.segs[i].args = [.num a, .num c]) :
    ∃ hb : i < f.blocks.length, f.blocks[i].eval? =
      some ((List.range f.blocks[i].len).map
        (fun k => Gen.ramp a c f.SR ((f.blocks[i].len : ℤ) : ℚ) k)) := by
  obtain ⟨sr, durs, hsr, _, hd, hb, hblk⟩ := block_is_own_pulse b f h i hi
  obtain ⟨sr', _, hsr', _, _, _, _, _, _, _, _, _, hfs⟩ := forge_structure b f h
  have : sr' = sr := by rw [hsr] at hsr'; cases hsr'; rfl
  subst this
  refine ⟨hb, ?_⟩
  rw [hblk, forgeFn_nonwait _ hw, ha, hfs]
  exact Blk.evalRamp _ _ _ _ _ hs

/-- the generated ramp kernel in closed form: sample `k` of `n` is `a + (c - a)·k/n`; in particular
    the first sample is the start value -/
theorem ramp_closed_form (a c sr n : ℚ) (k : Nat) (hsr : sr ≠ 0) (hn : n ≠ 0) :
    Gen.ramp a c sr n k = a + (c - a) * (k : ℚ) / n := by
  unfold Gen.ramp
  simp only [sub_zero, zero_add]
  push_cast
  field_simp
  ring

/-- **The flat waveform.**  When all blocks can be evaluated, the waveform `f.flat?` is the
    in-order concatenation of the evaluated blocks: it has `N` samples, there is one evaluated block
    per segment, and sample `j` of block `i` sits at index `start_i + j`, where `start_i` is the sum
    of the sample counts of the earlier blocks (`starts`, the same cumulative sums the marker code
    uses). -/
theorem flat_spec (b : BP) (f : Forged) (h : forgeBP b = .ok f) (w : List ℚ) (hw : f.flat? = some w) :
    w.length = f.N ∧
    ∃ xss, evalBlocks f.blocks = some xss ∧ w = xss.flatten ∧ xss.length = b.segs.length ∧
      ∀ i (hi : i < xss.length), ∃ (hb : i < f.blocks.length),
        f.blocks[i].eval? = some xss[i] ∧ xss[i].length = f.blocks[i].len ∧
        ∀ j (hj : j < xss[i].length),
          ∃ (hs : i < (starts (f.blocks.map Blk.len) 0).length)
            (hk : (starts (f.blocks.map Blk.len) 0)[i] + j < w.length),
            w[(starts (f.blocks.map Blk.len) 0)[i] + j] = xss[i][j] := by
  obtain ⟨_, _, _, _, _, _, hbl, _, _, _, _, hsum, _⟩ := forge_structure b f h
  unfold Forged.flat? at hw
  cases hx : evalBlocks f.blocks with
  | none => simp [hx] at hw
  | some xss =>
    simp only [hx, Option.map_some, Option.some.injEq] at hw
    subst hw
    obtain ⟨hl, hget⟩ := evalBlocks_some _ _ hx
    have hlens := evalBlocks_lengths _ _ hx
    refine ⟨by rw [sumN_map_length_flatten, hlens, hsum], xss, rfl, rfl, by rw [hl, hbl], ?_⟩
    intro i hi
    have hb : i < f.blocks.length := by omega
    refine ⟨hb, hget i hb hi, Blk.evalLength _ _ (hget i hb hi), ?_⟩
    intro j hj
    have hs : i < (starts (f.blocks.map Blk.len) 0).length := by rw [starts_length]; simpa using hb
    obtain ⟨hk, he⟩ := flatten_getElem_offset xss i hi j hj
    have hst : (starts (f.blocks.map Blk.len) 0)[i] = sumN ((xss.map List.length).take i) := by
      rw [starts_getElem, hlens]; simp
    refine ⟨hs, by rw [hst]; exact hk, ?_⟩
    simp only [hst]
    exact he

/-- The flat waveform exists whenever every segment is one the model can evaluate: a waituntil, or
    a ramp with two numeric arguments (any mix, any number, any order). -/
theorem flat_exists (b : BP) (f : Forged) (h : forgeBP b = .ok f)
    (hev : ∀ s ∈ b.segs, s.fn.isWait = true ∨
      (s.fn.isWait = false ∧ s.fn.shape = .ramp ∧ ∃ a c, s.args = [.num a, .num c])) :
    ∃ w, f.flat? = some w := by
  have : (evalBlocks f.blocks).isSome = true := by
    apply evalBlocks_isSome
    intro blk hblk
    obtain ⟨i, hi, rfl⟩ := List.getElem_of_mem hblk
    obtain ⟨_, _, _, _, _, _, hbl, _⟩ := forge_structure b f h
    have hi' : i < b.segs.length := by omega
    rcases hev b.segs[i] (List.getElem_mem _) with hw | ⟨hw, hs, a, c, ha⟩
    · obtain ⟨_, he⟩ := wait_block_evaluates_to_zeros b f h i hi' hw
      simp [he]
    · obtain ⟨_, he⟩ := ramp_block_evaluates_to_ramp b f h i hi' hw hs a c ha
      simp [he]
  unfold Forged.flat?
  cases hx : evalBlocks f.blocks with
  | none => simp [hx] at this
  | some xss => exact ⟨_, rfl⟩

example : ∀ s ∈ exampleBP.segs, s.fn.isWait = true ∨
    (s.fn.isWait = false ∧ s.fn.shape = .ramp ∧ ∃ a c, s.args = [.num a, .num c]) := by
  intro s hs
  simp only [exampleBP, List.mem_cons, List.not_mem_nil, or_false] at hs
  rcases hs with rfl | rfl | rfl
  · right; exact ⟨by decide, rfl, 0, 1, rfl⟩
  · left; decide
  · right; exact ⟨by decide, rfl, 1, 0, rfl⟩

example : ((forgeBP exampleBP).toOption.bind Forged.flat?).map
      (fun w => (w.length, w[23]?, w[24]?, w[49]?, w[50]?)) =
    some (65, some (23/24), some 0, some 0, some 1) := by
  decide +kernel

/-- helper for `nonempty_two_per_segment`: counts of at least two add up to at least `2·len` -/
theorem two_per_count (sr : ℚ) (durs : List ℚ) (h2 : ∀ d ∈ durs, 2 ≤ rhe (d * sr)) :
    2 * durs.length ≤ sumN (durs.map (fun d => (rhe (d * sr)).toNat)) := by
  induction durs with
  | nil => simp [sumN]
  | cons d ds ih =>
    have hd := h2 d (by simp)
    have := ih (fun x hx => h2 x (by simp [hx]))
    simp only [List.map_cons, sumN, List.length_cons]
    have : 2 ≤ (rhe (d * sr)).toNat := by omega
    omega

/-- A non-empty blueprint forges to at least two samples per segment, so the marker code's
    `argmin` over the time axis is never taken over an empty array.  (For the *empty* blueprint
    with an absolute marker the model's `nearestIdx 0 _ = 0` returns `ok` where numpy's `argmin`
    raises; `Element.addBluePrint` refuses empty blueprints, so `Element.getArrays` never gets
    there - see the examples below.) -/
theorem nonempty_two_per_segment (b : BP) (f : Forged) (h : forgeBP b = .ok f) :
    2 * b.segs.length ≤ f.N := by
  obtain ⟨sr, durs, _, _, hlen, h2, rfl⟩ := forge_counts b f h
  simp only [assemble]
  rw [← hlen]
  exact two_per_count sr durs h2

/-- model deviation (documented, not reachable through `Element`): the empty blueprint with an
    absolute marker forges in the model -/
example : (forgeBP { segs := [], marker1 := [(0, 1)], SR := .num 10 }).toOption.map (·.N) = some 0 := by
  decide +kernel

example (e : Element) (ch : Chan) (b : BP) (h : b.segs = []) : (e.addBluePrint ch b).err = some .value := by
  simp [Element.addBluePrint, h]

/-! ## G13: C01 at its second observation point, `Sequence.forge()[pos]['content'][1]['data'][ch]`

  All theorems of this section hold for *every* sequence on which `forge` succeeds - in particular
  for every sequence built through the public API (`Sequence.ApiBuilt`); none needs a
  well-formedness hypothesis on the channel stores. -/

/-- **C01 for one forged channel, as one statement** (`f` the forged channel of blueprint `b`):
    the sample rate is a number `sr`, the waituntil segments resolve to the durations `durs` (one
    per segment), every segment gets `round(d_i·SR) ≥ 2` samples; there is exactly one block per
    segment, in segment order, and block `i` is segment `i`'s own pulse function applied to its own
    arguments, `sr` and its own sample count; waveform (all blocks together), marker 1, marker 2
    and the time axis (`k/SR`, `k < N`) have one common length `N = Σ_i round(d_i·SR)`. -/
def SegmentwiseForged (b : BP) (f : Forged) : Prop :=
  ∃ sr durs, b.SR = .num sr ∧ b.resolveWaits = .ok durs ∧ durs.length = b.segs.length ∧
    (∀ d ∈ durs, 2 ≤ rhe (d * sr)) ∧ f.SR = sr ∧ f.blocks.length = b.segs.length ∧
    (∀ i (hi : i < b.segs.length) (hd : i < durs.length) (hb : i < f.blocks.length),
      f.blocks[i] = Blk.call (forgeFn b.segs[i].fn) b.segs[i].args sr (rhe (durs[i] * sr)).toNat) ∧
    f.blocks.map Blk.len = durs.map (fun d => (rhe (d * sr)).toNat) ∧
    f.N = sumN (durs.map (fun d => (rhe (d * sr)).toNat)) ∧
    sumN (f.blocks.map Blk.len) = f.N ∧ f.m1.length = f.N ∧ f.m2.length = f.N

/-- every successful `forgeBP` is segment-wise in the sense of C01 (`forge_structure` and
    `block_is_own_pulse` about the same `sr`, `durs`) -/
theorem forge_is_segmentwise (b : BP) (f : Forged) (h : forgeBP b = .ok f) : SegmentwiseForged b f := by
  obtain ⟨sr, durs, hsr, hd, hlen, h2, hbl, hlens, hN, hm1, hm2, hsum, hfs⟩ := forge_structure b f h
  refine ⟨sr, durs, hsr, hd, hlen, h2, hfs, hbl, ?_, hlens, hN, hsum, hm1, hm2⟩
  intro i hi hdi hb
  obtain ⟨sr', durs', hsr', hd', _, _, hblk⟩ := block_is_own_pulse b f h i hi
  have e1 : sr' = sr := by rw [hsr] at hsr'; cases hsr'; rfl
  have e2 : durs' = durs := by rw [hd] at hd'; cases hd'; rfl
  subst e1 e2
  exact hblk

/-- helper: channel `k` of the filter-annotated dictionary is channel `k` of `getArrays` -/
theorem withFilters_channel (s : Sequence) (fl : Bool) (arr : Dict Chan Element.ChOut) (c : Dict Chan ChOutF)
    (h : s.withFilters fl arr = .ok c) (k : ℕ) (ka : k < arr.length) :
    ∃ (hc : k < c.length), (c[k]).1 = (arr[k]).1 ∧ (c[k]).2.out = (arr[k]).2 := by
  obtain ⟨hl, hw⟩ := Sequence.g4_withFilters_getElem s fl arr c h
  have hc : k < c.length := by omega
  exact ⟨hc, (hw k ka hc).1, (hw k ka hc).2.1⟩

/-- the lengths of everything delivered for a forged blueprint channel (waveform blocks together,
    marker 1, marker 2, time axis) are all `N` -/
theorem outLens_forged (f : Forged) (flg : Option (List ℕ)) (t : Bool)
    (h1 : f.m1.length = f.N) (h2 : f.m2.length = f.N) (h3 : sumN (f.blocks.map Blk.len) = f.N) :
    ∀ n ∈ C06.outLens (Element.ChOut.forged f flg t), n = f.N := by
  intro n hn
  simp only [C06.outLens, List.mem_cons, List.not_mem_nil, or_false] at hn
  rcases hn with rfl | rfl | rfl | rfl
  · exact h3
  · exact h1
  · exact h2
  · rfl

/-- **C01 at `forge()[pos]['content'][1]['data'][ch]`, delays off, element position**: for every
    position `i+1` holding an element and every blueprint channel `k` of it, the forged output
    holds under the same channel id - with the stored flags, the time axis iff requested, whatever
    the filter option - the forged channel `f = forgeBP b` of the stored blueprint, which is
    segment-wise (`SegmentwiseForged`: one block per segment in order, each the segment's own
    pulse function on `round(d_i·SR)` points), and everything delivered for the channel - waveform,
    m1, m2, time axis - has the one length `N = Σ_i round(d_i·SR)`. -/
theorem seqforge_undelayed_bp_channel (s : Sequence) (fl t : Bool) (out : List (ℕ × ForgedPos))
    (h : s.forge false fl t = .ok out) (i : ℕ) (hi : i < out.length) (e : Element)
    (he : Dict.get? s.data ((i + 1 : ℕ) : ℤ) = some (.el e))
    (k : ℕ) (hk : k < e.chans.length) (b : BP) (hb : (e.chans[k]).2.data = .bp b) :
    ∃ c sq f, out[i] = (i + 1, { sequencing := sq, isSub := false, content := [(1, c, none)] }) ∧
      forgeBP b = .ok f ∧ SegmentwiseForged b f ∧
      ∃ (hc : k < c.length), (c[k]).1 = (e.chans[k]).1 ∧
        (c[k]).2.out = Element.ChOut.forged f (e.chans[k]).2.flags t ∧
        ∀ n ∈ C06.outLens (c[k]).2.out, n = f.N := by
  obtain ⟨en, hen, hpos⟩ := (Sequence.forge_pos s false fl t out h).2 i hi
  rw [he] at hen
  cases hen
  obtain ⟨e', arr, c, sq, h1, h2, h3, _, h5⟩ := Sequence.forgePos_element s false fl t (i + 1) e _ hpos
  have hee : e' = e := by
    simp only [Sequence.delayedEl, Bool.false_eq_true, if_false, Except.ok.injEq] at h1
    exact h1.symm
  subst hee
  obtain ⟨hla, hall⟩ := getArrays_delivers_forge e' t arr h2
  have ka : k < arr.length := by omega
  obtain ⟨f, hf, harr⟩ := hall k hk ka b hb
  obtain ⟨hc, w1, w2⟩ := withFilters_channel s fl arr c h3 k ka
  have hsw := forge_is_segmentwise b f hf
  have ho : (c[k]).2.out = Element.ChOut.forged f (e'.chans[k]).2.flags t := by rw [w2, harr]
  refine ⟨c, sq, f, h5, hf, hsw, hc, by rw [w1, harr], ho, ?_⟩
  rw [ho]
  obtain ⟨_, _, _, _, _, _, _, _, _, _, _, hs, hm1, hm2⟩ := hsw
  exact outLens_forged f _ t hm1 hm2 hs

/-- **... delays off, inside a subsequence**: content entry `j` of a subsequence position holds,
    for every blueprint channel `k` of the subsequence's element `j+1`, that blueprint's own
    segment-wise forge, all delivered arrays of the one length `N`. -/
theorem seqforge_undelayed_subsequence_bp_channel (s : Sequence) (fl t : Bool) (out : List (ℕ × ForgedPos))
    (h : s.forge false fl t = .ok out) (i : ℕ) (hi : i < out.length) (sub : SubSeq)
    (he : Dict.get? s.data ((i + 1 : ℕ) : ℤ) = some (.sub sub)) (j : ℕ) (hj : j < (out[i]).2.content.length)
    (e : Element) (hge : Dict.get? sub.data ((j + 1 : ℕ) : ℤ) = some e)
    (k : ℕ) (hk : k < e.chans.length) (b : BP) (hb : (e.chans[k]).2.data = .bp b) :
    ∃ c q2 f, (out[i]).2.content[j] = (j + 1, c, some q2) ∧ forgeBP b = .ok f ∧ SegmentwiseForged b f ∧
      ∃ (hc : k < c.length), (c[k]).1 = (e.chans[k]).1 ∧
        (c[k]).2.out = Element.ChOut.forged f (e.chans[k]).2.flags t ∧
        ∀ n ∈ C06.outLens (c[k]).2.out, n = f.N := by
  obtain ⟨en, hen, hpos⟩ := (Sequence.forge_pos s false fl t out h).2 i hi
  rw [he] at hen
  cases hen
  obtain ⟨_, _, _, _, _, _, hall⟩ := Sequence.forgePos_sub s false fl t (i + 1) sub _ hpos
  obtain ⟨e0, e', arr, c, q2, hge0, h1, h2, h3, _, hcj⟩ := hall j hj
  rw [hge] at hge0
  cases hge0
  have hee : e' = e := by
    simp only [Sequence.delayedEl, Bool.false_eq_true, if_false, Except.ok.injEq] at h1
    exact h1.symm
  subst hee
  obtain ⟨hla, hallc⟩ := getArrays_delivers_forge e' t arr h2
  have ka : k < arr.length := by omega
  obtain ⟨f, hf, harr⟩ := hallc k hk ka b hb
  obtain ⟨hc, w1, w2⟩ := withFilters_channel s fl arr c h3 k ka
  have hsw := forge_is_segmentwise b f hf
  have ho : (c[k]).2.out = Element.ChOut.forged f (e'.chans[k]).2.flags t := by rw [w2, harr]
  refine ⟨c, q2, f, hcj, hf, hsw, hc, by rw [w1, harr], ho, ?_⟩
  rw [ho]
  obtain ⟨_, _, _, _, _, _, _, _, _, _, _, hs, hm1, hm2⟩ := hsw
  exact outLens_forged f _ t hm1 hm2 hs

/-- **C01 at `forge()[pos]['content'][1]['data'][ch]`, delays on, element position** - no
    hypothesis beyond the success of `forge`: for every position `i+1` holding an element `e` and
    every blueprint channel `k` of it, the delays `ds` looked up by `e`'s own channel ids exist, `e`
    has a numeric sample rate `sr` (the blueprint's), the *stored* blueprint forges segment-wise to
    `f`, and the forged output holds under the same channel id (stored flags, time axis iff
    requested, whatever the filter option) a forged channel `f'` related to `f` by
    `G13.DelayedForged`: the blocks are the leading `waituntil` of `round(delay·SR)` samples (if
    `delay > 0`), one block per stored segment in order with the stored sample counts, the trailing
    zero ramp of `round((maxdelay − delay)·SR)` samples (if `maxdelay > delay`); each padding
    present has ≥ 2 samples; and everything delivered - waveform, m1, m2, time axis - has the one
    length `N' = front + N + back`. -/
theorem seqforge_delayed_bp_channel (s : Sequence) (fl t : Bool) (out : List (ℕ × ForgedPos))
    (h : s.forge true fl t = .ok out) (i : ℕ) (hi : i < out.length) (e : Element)
    (he : Dict.get? s.data ((i + 1 : ℕ) : ℤ) = some (.el e))
    (k : ℕ) (hk : k < e.chans.length) (b : BP) (hb : (e.chans[k]).2.data = .bp b) :
    ∃ ds sr, e.channels.mapM s.delayOf = .ok ds ∧ e.getSR = .ok (.num sr) ∧ b.SR = .num sr ∧
      ∃ (hkd : k < ds.length) (c : Dict Chan ChOutF) (sq : SeqSet) (f f' : Forged),
        s.delayOf (e.chans[k]).1 = .ok ds[k] ∧ 0 ≤ ds[k] ∧ ds[k] ≤ maxR ds ∧
        out[i] = (i + 1, { sequencing := sq, isSub := false, content := [(1, c, none)] }) ∧
        forgeBP b = .ok f ∧ SegmentwiseForged b f ∧ G13.DelayedForged b sr ds[k] (maxR ds) f f' ∧
        ∃ (hc : k < c.length), (c[k]).1 = (e.chans[k]).1 ∧
          (c[k]).2.out = Element.ChOut.forged f' (e.chans[k]).2.flags t ∧
          ∀ n ∈ C06.outLens (c[k]).2.out, n = f'.N := by
  obtain ⟨en, hen, hpos⟩ := (Sequence.forge_pos s true fl t out h).2 i hi
  rw [he] at hen
  cases hen
  obtain ⟨e', arr, c, sq, h1, h2, h3, _, h5⟩ := Sequence.forgePos_element s true fl t (i + 1) e _ hpos
  have hde : s.delayElement e = .ok e' := by simpa [Sequence.delayedEl] using h1
  obtain ⟨ds, sr, hds, hsr, hbsr, hkd, ka, f, f', hdk, h0, hle, hf, harr, hdf⟩ :=
    G13.delayed_element_bp_structure s e e' hde t arr h2 k hk b hb
  obtain ⟨hc, w1, w2⟩ := withFilters_channel s fl arr c h3 k ka
  have ho : (c[k]).2.out = Element.ChOut.forged f' (e.chans[k]).2.flags t := by rw [w2, harr]
  refine ⟨ds, sr, hds, hsr, hbsr, hkd, c, sq, f, f', hdk, h0, hle, h5, hf, forge_is_segmentwise b f hf, hdf, hc,
    by rw [w1, harr], ho, ?_⟩
  rw [ho]
  obtain ⟨_, _, _, _, _, _, hm1, hm2, hs⟩ := hdf
  exact outLens_forged f' _ t hm1 hm2 hs

/-- **... delays on, inside a subsequence**: the same for content entry `j` of a subsequence
    position and blueprint channel `k` of the subsequence's element `j+1`; the delays are looked up
    in the *parent's* settings by that element's own channel ids. -/
theorem seqforge_delayed_subsequence_bp_channel (s : Sequence) (fl t : Bool) (out : List (ℕ × ForgedPos))
    (h : s.forge true fl t = .ok out) (i : ℕ) (hi : i < out.length) (sub : SubSeq)
    (he : Dict.get? s.data ((i + 1 : ℕ) : ℤ) = some (.sub sub)) (j : ℕ) (hj : j < (out[i]).2.content.length)
    (e : Element) (hge : Dict.get? sub.data ((j + 1 : ℕ) : ℤ) = some e)
    (k : ℕ) (hk : k < e.chans.length) (b : BP) (hb : (e.chans[k]).2.data = .bp b) :
    ∃ ds sr, e.channels.mapM s.delayOf = .ok ds ∧ e.getSR = .ok (.num sr) ∧ b.SR = .num sr ∧
      ∃ (hkd : k < ds.length) (c : Dict Chan ChOutF) (q2 : SeqSet) (f f' : Forged),
        s.delayOf (e.chans[k]).1 = .ok ds[k] ∧ 0 ≤ ds[k] ∧ ds[k] ≤ maxR ds ∧
        (out[i]).2.content[j] = (j + 1, c, some q2) ∧
        forgeBP b = .ok f ∧ SegmentwiseForged b f ∧ G13.DelayedForged b sr ds[k] (maxR ds) f f' ∧
        ∃ (hc : k < c.length), (c[k]).1 = (e.chans[k]).1 ∧
          (c[k]).2.out = Element.ChOut.forged f' (e.chans[k]).2.flags t ∧
          ∀ n ∈ C06.outLens (c[k]).2.out, n = f'.N := by
  obtain ⟨en, hen, hpos⟩ := (Sequence.forge_pos s true fl t out h).2 i hi
  rw [he] at hen
  cases hen
  obtain ⟨_, _, _, _, _, _, hall⟩ := Sequence.forgePos_sub s true fl t (i + 1) sub _ hpos
  obtain ⟨e0, e', arr, c, q2, hge0, h1, h2, h3, _, hcj⟩ := hall j hj
  rw [hge] at hge0
  cases hge0
  have hde : s.delayElement e = .ok e' := by simpa [Sequence.delayedEl] using h1
  obtain ⟨ds, sr, hds, hsr, hbsr, hkd, ka, f, f', hdk, h0, hle, hf, harr, hdf⟩ :=
    G13.delayed_element_bp_structure s e e' hde t arr h2 k hk b hb
  obtain ⟨hc, w1, w2⟩ := withFilters_channel s fl arr c h3 k ka
  have ho : (c[k]).2.out = Element.ChOut.forged f' (e.chans[k]).2.flags t := by rw [w2, harr]
  refine ⟨ds, sr, hds, hsr, hbsr, hkd, c, q2, f, f', hdk, h0, hle, hcj, hf, forge_is_segmentwise b f hf, hdf, hc,
    by rw [w1, harr], ho, ?_⟩
  rw [ho]
  obtain ⟨_, _, _, _, _, _, hm1, hm2, hs⟩ := hdf
  exact outLens_forged f' _ t hm1 hm2 hs

/-- **the middle blocks of a delayed channel are the stored segments' blocks, one per segment in
    order** (the list `mkBlocks sr (segs.map (shiftWait delay)) …` that `G13.DelayedForged` names):
    block `i` is segment `i`'s own pulse function on the same number of points as block `i` of the
    stored blueprint's forge; its arguments are the stored ones, except that a `waituntil`
    segment's (unused) target is moved by the delay. -/
theorem delayed_middle_blocks (b : BP) (f : Forged) (hsw : SegmentwiseForged b f) (sr' delay : ℚ) (i : ℕ)
    (hi : i < b.segs.length) :
    ∃ (h1 : i < (mkBlocks sr' (b.segs.map (Element.shiftWait delay)) (f.blocks.map Blk.len)).length)
      (h2 : i < f.blocks.length),
      (mkBlocks sr' (b.segs.map (Element.shiftWait delay)) (f.blocks.map Blk.len))[i] =
        Blk.call (forgeFn b.segs[i].fn) (Element.shiftWait delay b.segs[i]).args sr' (f.blocks[i]).len ∧
      (¬ b.segs[i].fn.isWait = true → (Element.shiftWait delay b.segs[i]).args = b.segs[i].args) := by
  obtain ⟨_, _, _, _, _, _, _, hbl, _⟩ := hsw
  have hl : (mkBlocks sr' (b.segs.map (Element.shiftWait delay)) (f.blocks.map Blk.len)).length = b.segs.length := by
    rw [mkBlocks_length _ _ _ (by simp [hbl])]; simp
  have h1 : i < (mkBlocks sr' (b.segs.map (Element.shiftWait delay)) (f.blocks.map Blk.len)).length := by omega
  have h2 : i < f.blocks.length := by omega
  refine ⟨h1, h2, ?_, fun hw => by rw [shiftWait_nonwait delay _ hw]⟩
  rw [mkBlocks_getElem sr' _ _ i (by simpa using hi) (by simpa using h2) h1]
  simp only [List.getElem_map, shiftWait_isWait]

/-- **whole-sample delays: the common length is `Σ_i round(d_i·SR) + M`** (element position): if
    the delay of channel `k` and the largest delay are the whole sample counts `D = ds[k]·SR` and
    `M = max(ds)·SR` (positive sample rate), then `D ≤ M`, each padding is absent or at least two
    samples long, and waveform, m1, m2 and time axis of the forged channel all have exactly
    `N + M` samples, `N = Σ_i round(d_i·SR)` the stored blueprint's own length; the block lengths
    are `[D] ++ (round(d_i·SR))_i ++ [M − D]` (a padding of 0 samples is absent). -/
theorem seqforge_delayed_bp_channel_whole (s : Sequence) (fl t : Bool) (out : List (ℕ × ForgedPos))
    (h : s.forge true fl t = .ok out) (i : ℕ) (hi : i < out.length) (e : Element)
    (he : Dict.get? s.data ((i + 1 : ℕ) : ℤ) = some (.el e))
    (k : ℕ) (hk : k < e.chans.length) (b : BP) (hb : (e.chans[k]).2.data = .bp b)
    (ds : List ℚ) (hds : e.channels.mapM s.delayOf = .ok ds) (sr : ℚ) (hsr : e.getSR = .ok (.num sr)) (hsr0 : 0 < sr)
    (hkd : k < ds.length) (D M : ℕ) (hD : ds[k] * sr = D) (hM : maxR ds * sr = M) :
    ∃ c sq f f', out[i] = (i + 1, { sequencing := sq, isSub := false, content := [(1, c, none)] }) ∧
      forgeBP b = .ok f ∧ SegmentwiseForged b f ∧ D ≤ M ∧ (D = 0 ∨ 2 ≤ D) ∧ (M - D = 0 ∨ 2 ≤ M - D) ∧
      f'.blocks.map Blk.len = (if 0 < D then [D] else []) ++ f.blocks.map Blk.len ++ (if 0 < M - D then [M - D] else []) ∧
      ∃ (hc : k < c.length), (c[k]).1 = (e.chans[k]).1 ∧
        (c[k]).2.out = Element.ChOut.forged f' (e.chans[k]).2.flags t ∧
        ∀ n ∈ C06.outLens (c[k]).2.out, n = f.N + M := by
  obtain ⟨ds', sr', hds', hsr', _, hkd', c, sq, f, f', _, _, _, h5, hf, hsw, hdf, hc, w1, ho, hlen⟩ :=
    seqforge_delayed_bp_channel s fl t out h i hi e he k hk b hb
  have e1 : ds' = ds := by rw [hds] at hds'; cases hds'; rfl
  have e2 : sr' = sr := by rw [hsr] at hsr'; cases hsr'; rfl
  subst e1 e2
  have hle := C10.whole_delay_le ds' sr' hsr0 k hkd D M hD hM
  obtain ⟨hN, _, _, _, hbl, hfr, hbk⟩ := G13.delayedForged_whole b sr' ds'[k] (maxR ds') f f' hdf D M hsr0 hD hM hle
  refine ⟨c, sq, f, f', h5, hf, hsw, hle, hfr, hbk, hbl, hc, w1, ho, fun n hn => ?_⟩
  rw [hlen n hn, hN]

/-- **... whole-sample delays, inside a subsequence**: the same for content entry `j` of a
    subsequence position - all arrays of the channel have `N + M` samples, `M = max(ds)·SR` the
    largest delay among the channels of *that* inner element. -/
theorem seqforge_delayed_subsequence_bp_channel_whole (s : Sequence) (fl t : Bool) (out : List (ℕ × ForgedPos))
    (h : s.forge true fl t = .ok out) (i : ℕ) (hi : i < out.length) (sub : SubSeq)
    (he : Dict.get? s.data ((i + 1 : ℕ) : ℤ) = some (.sub sub)) (j : ℕ) (hj : j < (out[i]).2.content.length)
    (e : Element) (hge : Dict.get? sub.data ((j + 1 : ℕ) : ℤ) = some e)
    (k : ℕ) (hk : k < e.chans.length) (b : BP) (hb : (e.chans[k]).2.data = .bp b)
    (ds : List ℚ) (hds : e.channels.mapM s.delayOf = .ok ds) (sr : ℚ) (hsr : e.getSR = .ok (.num sr)) (hsr0 : 0 < sr)
    (hkd : k < ds.length) (D M : ℕ) (hD : ds[k] * sr = D) (hM : maxR ds * sr = M) :
    ∃ c q2 f f', (out[i]).2.content[j] = (j + 1, c, some q2) ∧
      forgeBP b = .ok f ∧ SegmentwiseForged b f ∧ D ≤ M ∧ (D = 0 ∨ 2 ≤ D) ∧ (M - D = 0 ∨ 2 ≤ M - D) ∧
      f'.blocks.map Blk.len = (if 0 < D then [D] else []) ++ f.blocks.map Blk.len ++ (if 0 < M - D then [M - D] else []) ∧
      ∃ (hc : k < c.length), (c[k]).1 = (e.chans[k]).1 ∧
        (c[k]).2.out = Element.ChOut.forged f' (e.chans[k]).2.flags t ∧
        ∀ n ∈ C06.outLens (c[k]).2.out, n = f.N + M := by
  obtain ⟨ds', sr', hds', hsr', _, hkd', c, q2, f, f', _, _, _, h5, hf, hsw, hdf, hc, w1, ho, hlen⟩ :=
    seqforge_delayed_subsequence_bp_channel s fl t out h i hi sub he j hj e hge k hk b hb
  have e1 : ds' = ds := by rw [hds] at hds'; cases hds'; rfl
  have e2 : sr' = sr := by rw [hsr] at hsr'; cases hsr'; rfl
  subst e1 e2
  have hle := C10.whole_delay_le ds' sr' hsr0 k hkd D M hD hM
  obtain ⟨hN, _, _, _, hbl, hfr, hbk⟩ := G13.delayedForged_whole b sr' ds'[k] (maxR ds') f f' hdf D M hsr0 hD hM hle
  refine ⟨c, q2, f, f', h5, hf, hsw, hle, hfr, hbk, hbl, hc, w1, ho, fun n hn => ?_⟩
  rw [hlen n hn, hN]

/-- `maxR` of a list of zeros is zero -/
theorem maxR_zeros (ds : List ℚ) (h : ∀ d ∈ ds, d = 0) : maxR ds = 0 := by
  cases ds with
  | nil => rfl
  | cons d t => exact h _ (Paths.maxR_mem (d :: t) (by simp))

/-- **delays on but all zero: the common length is `Σ_i round(d_i·SR)` again** (element position):
    when every channel's declared delay is 0 (or absent), nothing is inserted - the forged channel
    has exactly the stored blueprint's block lengths, and waveform, m1, m2 and time axis all have
    `N = Σ_i round(d_i·SR)` samples - as with delays off. -/
theorem seqforge_zero_delays_bp_channel (s : Sequence) (hz : ∀ ch, s.delayOf ch = .ok 0) (fl t : Bool)
    (out : List (ℕ × ForgedPos)) (h : s.forge true fl t = .ok out) (i : ℕ) (hi : i < out.length) (e : Element)
    (he : Dict.get? s.data ((i + 1 : ℕ) : ℤ) = some (.el e))
    (k : ℕ) (hk : k < e.chans.length) (b : BP) (hb : (e.chans[k]).2.data = .bp b) :
    ∃ c sq f f', out[i] = (i + 1, { sequencing := sq, isSub := false, content := [(1, c, none)] }) ∧
      forgeBP b = .ok f ∧ SegmentwiseForged b f ∧ f'.blocks.map Blk.len = f.blocks.map Blk.len ∧
      ∃ (hc : k < c.length), (c[k]).1 = (e.chans[k]).1 ∧
        (c[k]).2.out = Element.ChOut.forged f' (e.chans[k]).2.flags t ∧
        ∀ n ∈ C06.outLens (c[k]).2.out, n = f.N := by
  obtain ⟨ds, sr, hds, hsr, _, hkd, c, sq, f, f', hdk, _, _, h5, hf, hsw, hdf, hc, w1, ho, hlen⟩ :=
    seqforge_delayed_bp_channel s fl t out h i hi e he k hk b hb
  have hall : ∀ d ∈ ds, d = 0 := by
    intro d hd
    obtain ⟨j, hj, rfl⟩ := List.getElem_of_mem hd
    have hl := mapM_ok_length _ _ _ hds
    have := mapM_ok_getElem _ _ _ hds j (by omega) hj
    rw [hz] at this
    exact (Except.ok.inj this).symm
  have hk0 : ds[k] = 0 := hall _ (List.getElem_mem hkd)
  have hm0 : maxR ds = 0 := maxR_zeros ds hall
  obtain ⟨_, hbl, hlm, _, _, hN, _, _, _⟩ := hdf
  rw [hk0, hm0] at hbl hN
  rw [hk0] at hlm
  simp only [lt_self_iff_false, if_false, sub_self, List.nil_append, List.append_nil, Nat.zero_add, Nat.add_zero] at hbl hN
  refine ⟨c, sq, f, f', h5, hf, hsw, by rw [hbl, hlm], hc, w1, ho, fun n hn => ?_⟩
  rw [hlen n hn, hN]

/-! ### "whatever the edit history", at `Element.getArrays` and `Sequence.forge` -/

/-- **`Element.getArrays`, `validateDurations`, `points` and `duration` do not look at segment
    names**: two elements that list the same channels in the same order, channel by channel with
    the same flags and - for blueprint channels - blueprints with equal bodies (same per-segment
    function, arguments, duration, markers; same absolute markers and sample rate; the segment
    *names*, the only history-dependent part, may differ) deliver the same arrays (or raise the
    same exception), validate alike, and have the same points and duration.  Lifts
    `Proofs/Body.forgeBP_body`. -/
theorem getArrays_ignores_names (e e' : Element) (h : ElBody e e') (t : Bool) :
    e.getArrays t = e'.getArrays t ∧ e.validate = e'.validate ∧ e.points = e'.points ∧
      e.duration = e'.duration ∧ e.channels = e'.channels :=
  ⟨h.getArrays t, h.validate, h.points, h.duration, h.channels⟩

/-- **`Sequence.forge` does not look at segment names**: two sequences whose stores hold, position
    by position in the same order, elements (or subsequences of elements) equal up to the segment
    names of their blueprints, with the same AWG settings and sequencing, forge identically - the
    same arrays for every position and channel or the same exception - for every combination of
    `apply_delays`, `apply_filters`, `includetime`. -/
theorem seqforge_ignores_names (a b : Sequence) (hd : Dict.Rel EntBody a.data b.data)
    (hs : a.awgspecs = b.awgspecs) (hq : a.sequencing = b.sequencing) (d f t : Bool) :
    a.forge d f t = b.forge d f t :=
  Sequence.forge_body a b hd (fun k => by rw [hs]) (fun k => by rw [hq]) d f t

/-- how such pairs arise, one public call at a time: `addBluePrint` with blueprints of equal bodies
    (e.g. the same segments inserted under different names, or renamed by another edit history)
    and `addElement` keep "equal up to names", and are accepted or refused alike. -/
theorem same_calls_equal_up_to_names (e e' : Element) (h : ElBody e e') (ch : Chan) (p q : BP) (hpq : BP.BodyEq p q)
    (s s' : Sequence) (hd : Dict.Rel EntBody s.data s'.data) (hq : s.sequencing = s'.sequencing) (pos : ℤ) :
    (e.addBluePrint ch p).err = (e'.addBluePrint ch q).err ∧
    ElBody (e.addBluePrint ch p).st (e'.addBluePrint ch q).st ∧
    (s.addElement pos e).err = (s'.addElement pos e').err ∧
    Dict.Rel EntBody (s.addElement pos e).st.data (s'.addElement pos e').st.data ∧
    (s.addElement pos e).st.sequencing = (s'.addElement pos e').st.sequencing :=
  ⟨(addBluePrint_body h ch hpq).1, (addBluePrint_body h ch hpq).2, (addElement_body hd hq pos h).1,
    (addElement_body hd hq pos h).2.1, (addElement_body hd hq pos h).2.2.1⟩

/-! ### non-vacuity of the G13 theorems -/

/-- `exampleBP` with every segment renamed (another edit history of the same blueprint) -/
def exampleBPRenamed : BP :=
  { exampleBP with segs := exampleBP.segs.map (fun sg => { sg with name := "x" ++ sg.name }) }

example : BP.BodyEq exampleBP exampleBPRenamed ∧ exampleBP ≠ exampleBPRenamed := by
  constructor
  · exact ⟨by decide +kernel, rfl, rfl, rfl⟩
  · decide +kernel

/-- a sequence at 10 Sa/s holding a one-channel element at position 1 and, inside a subsequence at
    position 2, once more -/
def seqWith (specs : Dict String Spec) (bp : BP) : Sequence :=
  { data := [(1, .el (({} : Element).addBluePrint (.int 1) bp).st),
             (2, .sub { data := [(1, (({} : Element).addBluePrint (.int 1) bp).st)], sequencing := [(1, ⟨0, 2, 0, 0, 0⟩)],
                        awgspecs := [("SR", .val (.num 10))] })],
    sequencing := [(1, ⟨0, 1, 0, 0, 0⟩), (2, ⟨0, 3, 0, 0, 1⟩)],
    awgspecs := specs }

/-- channel 1 delayed by 2 samples -/
def wholeSeq : Sequence := seqWith [("SR", .val (.num 10)), ("channel1_delay", .val (.num (1/5)))] exampleBP
/-- no delay settings at all -/
def zeroSeq : Sequence := seqWith [("SR", .val (.num 10))] exampleBP

/-- the hypotheses of the `seqforge_*` theorems hold: forging succeeds with delays off and on,
    position 1 holds the example element, channel index 0 is (the stored copy of) the example
    blueprint; the delays are `[1/5]` = 2 samples at 10 Sa/s -/
example : (wholeSeq.forge false false true).toOption.isSome = true ∧
    (wholeSeq.forge true true true).toOption.isSome = true ∧
    Dict.get? wholeSeq.data ((0 + 1 : ℕ) : ℤ) = some (.el exampleEl) ∧
    (exampleEl.chans[0]'(by decide)).2.data = .bp exampleBP.copy ∧
    exampleEl.channels.mapM wholeSeq.delayOf = .ok [1/5] ∧ exampleEl.getSR = .ok (.num 10) ∧
    ((1 : ℚ) / 5) * 10 = (2 : ℕ) ∧ maxR [1/5] * 10 = (2 : ℕ) := by
  refine ⟨by decide +kernel, by decide +kernel, rfl, by decide +kernel, by decide +kernel,
    by decide +kernel, by norm_num, by norm_num [maxR]⟩

/-- ... and for the subsequence theorems: position 2 holds a subsequence whose position 1 holds the
    example element -/
example : ∃ sub : SubSeq, Dict.get? wholeSeq.data ((1 + 1 : ℕ) : ℤ) = some (.sub sub) ∧
    Dict.get? sub.data ((0 + 1 : ℕ) : ℤ) = some exampleEl :=
  ⟨_, rfl, by decide +kernel⟩

/-- what comes out: block lengths and the four lengths (waveform, m1, m2, time axis) of channel 1 at
    the element position and inside the subsequence - `24 + 26 + 15 = 65` with delays off, and
    `[2] ++ [24, 26, 15]` = `65 + 2` with the 2-sample delay (no trailing ramp: the only channel has
    the largest delay) -/
example :
    (wholeSeq.forge false false true).toOption.map (fun out => out.map (fun p => p.2.content.map (fun c =>
      c.2.1.map (fun x => (match x.2.out with | .forged f _ _ => f.blocks.map Blk.len | _ => [], C06.outLens x.2.out))))) =
      some [[[([24, 26, 15], [65, 65, 65, 65])]], [[([24, 26, 15], [65, 65, 65, 65])]]] ∧
    (wholeSeq.forge true false true).toOption.map (fun out => out.map (fun p => p.2.content.map (fun c =>
      c.2.1.map (fun x => (match x.2.out with | .forged f _ _ => f.blocks.map Blk.len | _ => [], C06.outLens x.2.out))))) =
      some [[[([2, 24, 26, 15], [67, 67, 67, 67])]], [[([2, 24, 26, 15], [67, 67, 67, 67])]]] := by
  constructor <;> decide +kernel

/-- `seqforge_zero_delays_bp_channel`: a sequence without delay settings satisfies the hypothesis,
    and forging with delays on succeeds -/
example : (∀ ch, zeroSeq.delayOf ch = .ok 0) ∧ (zeroSeq.forge true false false).toOption.isSome = true := by
  constructor
  · apply C10.delays_zero_of_specs
    intro ch
    left
    have h1 : keyOf ch "delay" ≠ "SR" := Sequence.g4_keyOf_ne_SR ch _
    simp [zeroSeq, seqWith, Dict.get?, List.find?, h1.symm]
  · decide +kernel

/-- `seqforge_ignores_names` applied: the same sequence built from the renamed blueprint is related
    position by position, differs as a value, and forges identically -/
example : Dict.Rel EntBody wholeSeq.data (seqWith wholeSeq.awgspecs exampleBPRenamed).data := by
  have hb : BP.BodyEq exampleBP exampleBPRenamed := ⟨by decide +kernel, rfl, rfl, rfl⟩
  have hel : ElBody (({} : Element).addBluePrint (.int 1) exampleBP).st
      (({} : Element).addBluePrint (.int 1) exampleBPRenamed).st :=
    (addBluePrint_body (ElBody.refl {}) (.int 1) hb).2
  refine List.Forall₂.cons ⟨rfl, hel⟩ (List.Forall₂.cons ⟨rfl, ?_⟩ List.Forall₂.nil)
  exact ⟨List.Forall₂.cons ⟨rfl, hel⟩ List.Forall₂.nil, fun _ => rfl, fun _ => rfl⟩

example : wholeSeq.data.map (fun p => match p.2 with | .el e => some e | .sub _ => none) ≠
    (seqWith wholeSeq.awgspecs exampleBPRenamed).data.map (fun p => match p.2 with | .el e => some e | .sub _ => none) := by
  decide +kernel

end BB.C01
