/-
  Property C01 — the forged waveform is the in-order concatenation of per-segment samples.

  `forgeBP` is the model of `_subelementBuilder`; a block `Blk.call fn args SR n` *is* "the
  segment's pulse function evaluated on n points" (the harness evaluates it by calling the
  implementation's pulse function separately).  `Gen.segTooShort` is regenerated from the source.
-/
import BB.Proofs.Forge
import BB.Proofs.G1Flat
import Mathlib.Tactic.FieldSimp
import Mathlib.Tactic.Ring

namespace BB.C01
open BB

/-- the generated guard is "fewer than two samples" -/
theorem guard_is_two (n : Int) : Gen.segTooShort n = true ↔ n < 2 := by
  simp [Gen.segTooShort]

/-- Structure of a successful forge: there are resolved durations `durs` (one per segment) and
    counts `ns` with `ns[i] = round(durs[i]·SR) ≥ 2`; the waveform consists of exactly one block
    per segment, in segment order; waveform, both markers (and hence the time axis `k/SR`, `k < N`)
    have the same length `N = Σ ns[i]`. -/
theorem forge_structure (b : BP) (f : Forged) (h : forgeBP b = .ok f) :
    ∃ sr durs, b.SR = .num sr ∧ b.resolveWaits = .ok durs ∧ durs.length = b.segs.length ∧
      (∀ d ∈ durs, 2 ≤ rhe (d * sr)) ∧
      f.blocks.length = b.segs.length ∧
      f.blocks.map Blk.len = durs.map (fun d => (rhe (d * sr)).toNat) ∧
      f.N = sumN (durs.map (fun d => (rhe (d * sr)).toNat)) ∧
      f.m1.length = f.N ∧ f.m2.length = f.N ∧ sumN (f.blocks.map Blk.len) = f.N ∧
      f.SR = sr := by
  obtain ⟨sr, durs, ns, hsr, hd, hn, _, rfl⟩ := (forge_ok_iff b f).mp h
  have hlen := resolveGo_length _ _ _ hd
  obtain ⟨h2, hns⟩ := countsGo_ok sr durs ns hn
  have hnl : ns.length = b.segs.length := by rw [countsGo_length sr durs ns hn, hlen]
  have hl := assemble_lengths b sr ns hnl
  simp only at hl
  refine ⟨sr, durs, hsr, hd, hlen, h2, hl.2.2.2.2.1, ?_, ?_, hl.2.1, hl.2.2.1, hl.2.2.2.1, rfl⟩
  · have := mkBlocks_lens sr b.segs ns hnl
    simp only [assemble]; rw [this, hns]; rfl
  · rw [hl.1, hns]; rfl

/-- Block `i` is segment `i`'s own pulse function (`PulseAtoms.waituntil` for a 'waituntil'
    segment) applied to segment `i`'s stored arguments, the blueprint's sample rate and that
    segment's own sample count — the function is evaluated from its own local time zero. -/
theorem block_is_own_pulse (b : BP) (f : Forged) (h : forgeBP b = .ok f) (i : Nat)
    (hi : i < b.segs.length) :
    ∃ sr durs, b.SR = .num sr ∧ b.resolveWaits = .ok durs ∧ ∃ (hd : i < durs.length) (hb : i < f.blocks.length),
      f.blocks[i] = Blk.call (forgeFn b.segs[i].fn) b.segs[i].args sr (rhe (durs[i] * sr)).toNat := by
  obtain ⟨sr, durs, ns, hsr, hd, hn, _, rfl⟩ := (forge_ok_iff b f).mp h
  have hlen := resolveGo_length _ _ _ hd
  obtain ⟨_, hns⟩ := countsGo_ok sr durs ns hn
  have hnl : ns.length = b.segs.length := by rw [countsGo_length sr durs ns hn, hlen]
  have hbl : (mkBlocks sr b.segs ns).length = b.segs.length := mkBlocks_length sr b.segs ns hnl
  refine ⟨sr, durs, hsr, hd, by omega, by simp only [assemble]; omega, ?_⟩
  simp only [assemble]
  rw [mkBlocks_getElem sr b.segs ns i hi (by omega) (by omega)]
  congr 1
  subst hns
  simp [segCount]

/-- A segment that would receive fewer than two samples makes forging fail (never dropped,
    padded or merged): forging succeeds iff the sample rate is a number, the waituntil segments
    can be resolved, and *every* segment gets at least two samples. -/
theorem forge_ok_iff_all_two (b : BP) :
    (∃ f, forgeBP b = .ok f) ↔
      ∃ sr durs, b.SR = .num sr ∧ b.resolveWaits = .ok durs ∧ (∀ d ∈ durs, 2 ≤ rhe (d * sr)) ∧
        badSpecial b = false := by
  constructor
  · rintro ⟨f, h⟩
    obtain ⟨sr, durs, ns, hsr, hd, hn, hb, _⟩ := (forge_ok_iff b f).mp h
    exact ⟨sr, durs, hsr, hd, (countsGo_ok sr durs ns hn).1, hb⟩
  · rintro ⟨sr, durs, hsr, hd, h2, hb⟩
    obtain ⟨ns, hn⟩ := (countsGo_isOk_iff sr durs).mpr h2
    exact ⟨assemble b sr ns, (forge_ok_iff b _).mpr ⟨sr, durs, ns, hsr, hd, hn, hb, rfl⟩⟩

/-- ... and the error raised for a too-short segment is SegmentDurationError. -/
theorem too_short_is_segdur (b : BP) (sr : Rat) (durs : List Rat) (hsr : b.SR = .num sr)
    (hd : b.resolveWaits = .ok durs) (d : Rat) (hmem : d ∈ durs) (hshort : rhe (d * sr) < 2) :
    forgeBP b = .error .segdur := by
  unfold forgeBP
  simp only [hsr, hd]
  cases hc : countsGo sr durs with
  | ok ns =>
    have := (countsGo_ok sr durs ns hc).1 d hmem
    simp only [segCount] at this; omega
  | error e =>
    obtain ⟨he, _⟩ := countsGo_error sr durs e hc
    simp [he]

/-- Rounding on the property's domain: a duration `(n + f)/SR` with `|f| ≤ 0.4` gets exactly `n`
    samples, and so does any value within a tenth of a sample of it (float noise). -/
theorem count_on_domain (n : Int) (f sr : Rat) (hsr : sr ≠ 0) (hf : |f| ≤ 2/5) :
    rhe (((n : Rat) + f) / sr * sr) = n := by
  have : ((n : Rat) + f) / sr * sr = (n : Rat) + f := by field_simp
  rw [this]
  apply rhe_near
  have : (n : Rat) + f - n = f := by ring
  rw [this]; exact hf

theorem count_robust (n : Int) (x δ : Rat) (h : |x - n| ≤ 2/5) (hδ : |δ| < 1/10) :
    rhe (x + δ) = n := rhe_stable x δ n h hδ

theorem sumR_newdur (ns : List Nat) (sr : Rat) :
    sumR (ns.map (fun (n : Nat) => ((n : Int) : Rat) / sr)) = ((sumN ns : Nat) : Rat) / sr := by
  induction ns with
  | nil => simp [sumR, sumN]
  | cons n ns ih =>
    simp only [List.map_cons, sumR, sumN, ih]
    push_cast
    ring

/-- The time axis: `linspace(0, Σ newdurations, N, endpoint=False)[k] = k/SR`. -/
theorem time_axis (b : BP) (f : Forged) (h : forgeBP b = .ok f) (hsr : f.SR ≠ 0) (hN : f.N ≠ 0) (k : Nat) :
    (0 : Rat) + (k : Rat) * ((sumR f.newdurations - 0) / (f.N : Rat)) = (k : Rat) / f.SR := by
  obtain ⟨sr, durs, ns, _, _, _, _, rfl⟩ := (forge_ok_iff b f).mp h
  simp only [assemble] at *
  rw [sumR_newdur]
  have : ((sumN ns : Nat) : Rat) ≠ 0 := by exact_mod_cast hN
  field_simp
  ring

/-- Forging does not look at segment names (the only history-dependent field): two blueprints
    with the same per-segment records up to names, the same absolute markers and sample rate
    forge identically — "whatever the edit history". -/
theorem mkBlocks_body (sr : Rat) (a b : List Seg) (ns : List Nat) (h : a.map BP.Seg.body = b.map BP.Seg.body) :
    mkBlocks sr a ns = mkBlocks sr b ns := by
  induction a generalizing b ns with
  | nil => cases b with
    | nil => rfl
    | cons y ys => simp at h
  | cons x xs ih =>
    cases b with
    | nil => simp at h
    | cons y ys =>
      simp only [List.map_cons, List.cons.injEq] at h
      cases ns with
      | nil => rfl
      | cons n ns =>
        simp only [mkBlocks]
        have hx : x.fn = y.fn ∧ x.args = y.args := by
          have := h.1; simp [BP.Seg.body] at this; exact ⟨this.1, this.2.1⟩
        rw [hx.1, hx.2, ih ys ns h.2]

/-! ### non-vacuity -/

def exampleBP : BP :=
  { segs := [ { name := "ramp", fn := Fn.rampFn, args := [.num 0, .num 1], dur := .num (12/5) },
              { name := "waituntil", fn := Fn.waitSpecial, args := [.num 5], dur := .none },
              { name := "ramp2", fn := Fn.rampFn, args := [.num 1, .num 0], dur := .num (3/2) } ],
    SR := .num 10 }

example : (forgeBP exampleBP).toOption.map (fun f => (f.N, f.blocks.map Blk.len)) = some (65, [24, 26, 15]) := by
  decide +kernel

example : forgeBP { exampleBP with SR := .num (1/2) } = .error .segdur := by decide +kernel

/-! ### newdurations, Element.getArrays, evaluated blocks and the flat sample list (audit round) -/

/-- internal: the shape of a successful forge with the counts spelled out -/
theorem forge_counts (b : BP) (f : Forged) (h : forgeBP b = .ok f) :
    ∃ sr durs, b.SR = .num sr ∧ b.resolveWaits = .ok durs ∧ durs.length = b.segs.length ∧
      (∀ d ∈ durs, 2 ≤ rhe (d * sr)) ∧
      f = assemble b sr (durs.map (fun d => (rhe (d * sr)).toNat)) := by
  obtain ⟨sr, durs, ns, hsr, hd, hn, _, rfl⟩ := (forge_ok_iff b f).mp h
  obtain ⟨h2, hns⟩ := countsGo_ok sr durs ns hn
  exact ⟨sr, durs, hsr, hd, resolveGo_length _ _ _ hd, h2, by rw [hns]; rfl⟩

/-- The `newdurations` output: entry `i` is the *rounded* duration `round(d_i·SR)/SR` of segment `i`
    (`d_i` the resolved duration: the stored one, or `t - elapsed` for a waituntil), which is also
    block `i`'s sample count over the sample rate; there is one entry per segment, and the entries
    add up to `N/SR` - the end point handed to `linspace` for the time axis. -/
theorem newdurations_spec (b : BP) (f : Forged) (h : forgeBP b = .ok f) :
    ∃ sr durs, b.SR = .num sr ∧ b.resolveWaits = .ok durs ∧ f.SR = sr ∧
      f.newdurations = durs.map (fun d => ((rhe (d * sr) : ℤ) : ℚ) / sr) ∧
      f.newdurations.length = b.segs.length ∧
      f.newdurations = f.blocks.map (fun blk => ((blk.len : ℤ) : ℚ) / f.SR) ∧
      sumR f.newdurations = ((f.N : ℕ) : ℚ) / f.SR := by
  obtain ⟨sr, durs, hsr, hd, hlen, h2, rfl⟩ := forge_counts b f h
  have hnl : (durs.map (fun d => (rhe (d * sr)).toNat)).length = b.segs.length := by simp [hlen]
  refine ⟨sr, durs, hsr, hd, rfl, ?_, by simp [assemble, hlen], ?_, ?_⟩
  · simp only [assemble, List.map_map]
    apply List.map_congr_left
    intro d hd'
    have := h2 d hd'
    simp only [Function.comp]
    rw [Int.toNat_of_nonneg (by omega)]
  · simp only [assemble]
    have hl := mkBlocks_lens sr b.segs _ hnl
    conv_lhs => rw [← hl]
    simp only [List.map_map, Function.comp_def]
  · simp only [assemble]
    exact sumR_counts_div _ sr

/-- entry-wise form of `newdurations_spec`: `newdurations[i] = n_i / SR` with `n_i` the length of
    block `i` -/
theorem newdurations_getElem (b : BP) (f : Forged) (h : forgeBP b = .ok f) (i : Nat)
    (hi : i < f.newdurations.length) :
    ∃ hb : i < f.blocks.length, f.newdurations[i] = ((f.blocks[i].len : ℤ) : ℚ) / f.SR := by
  obtain ⟨_, _, _, _, _, _, _, hmap, _⟩ := newdurations_spec b f h
  have hb : i < f.blocks.length := by rw [hmap] at hi; simpa using hi
  refine ⟨hb, ?_⟩
  have : f.newdurations[i] = (f.blocks.map (fun blk => ((blk.len : ℤ) : ℚ) / f.SR))[i]'(by simpa using hb) := by
    congr 1
  rw [this, List.getElem_map]

example : (forgeBP exampleBP).toOption.map (fun f => f.newdurations) = some [12/5, 13/5, 3/2] := by
  decide +kernel

/-- `Element.getArrays` hands out, for every blueprint channel, exactly `forgeBP` of the stored
    blueprint (with the channel's flags), channel by channel in the element's channel order. -/
theorem getArrays_delivers_forge (e : Element) (t : Bool) (out : Dict Chan Element.ChOut)
    (h : e.getArrays t = .ok out) :
    out.length = e.chans.length ∧
    ∀ i (hi : i < e.chans.length) (ho : i < out.length) (b : BP), e.chans[i].2.data = .bp b →
      ∃ f, forgeBP b = .ok f ∧ out[i] = (e.chans[i].1, Element.ChOut.forged f e.chans[i].2.flags t) := by
  unfold Element.getArrays at h
  refine ⟨mapM_ok_length _ _ _ h, ?_⟩
  intro i hi ho b hb
  have := mapM_ok_getElem _ _ _ h i hi ho
  simp only [Element.chanOut, hb] at this
  cases hf : forgeBP b with
  | error er => simp [hf, Except.map] at this
  | ok f =>
    refine ⟨f, rfl, ?_⟩
    simp only [hf, Except.map, Except.ok.injEq] at this
    exact this.symm

/-- helper for the next theorem: one failing element makes `mapM` fail -/
theorem mapM_error_of_mem {α β : Type} (f : α → Except Err β) (l : List α) (x : α) (hx : x ∈ l) (er : Err)
    (h : f x = .error er) : ∃ er', l.mapM f = .error er' := by
  induction l with
  | nil => simp at hx
  | cons a t ih =>
    rw [mapM_cons_eq]
    cases hfa : f a with
    | error e => exact ⟨e, rfl⟩
    | ok y =>
      simp only [List.mem_cons] at hx
      rcases hx with rfl | hx
      · rw [h] at hfa; cases hfa
      · obtain ⟨er', h'⟩ := ih hx
        exact ⟨er', by simp [h']⟩

/-- ... and when a blueprint channel does not forge, `getArrays` raises: no channel is dropped. -/
theorem getArrays_fails_if_forge_fails (e : Element) (t : Bool) (ch : Chan) (ent : ChEntry) (b : BP)
    (hmem : (ch, ent) ∈ e.chans) (hb : ent.data = .bp b) (er : Err) (hf : forgeBP b = .error er) :
    ∃ er', e.getArrays t = .error er' := by
  unfold Element.getArrays
  apply mapM_error_of_mem _ _ (ch, ent) hmem er
  simp [Element.chanOut, hb, hf, Except.map]

/-- the element used below: one blueprint channel -/
def exampleEl : Element := (({} : Element).addBluePrint (.int 1) exampleBP).st

example : (exampleEl.getArrays true).toOption.map (fun out => out.map (fun p => (p.1, match p.2 with
      | .forged f _ t => (f.N, t) | _ => (0, false)))) = some [(.int 1, (65, true))] := by
  decide +kernel

/-- A block evaluates to as many samples as it is long (`Blk.eval?` is the model's exact evaluator
    for ramps, zeros and raw arrays). -/
theorem eval_length (b : BP) (f : Forged) (_h : forgeBP b = .ok f) (blk : Blk) (_hm : blk ∈ f.blocks)
    (xs : List ℚ) (he : blk.eval? = some xs) : xs.length = blk.len :=
  Blk.evalLength blk xs he

/-- A waituntil segment's block evaluates to zeros only (as many as the block is long). -/
theorem wait_block_evaluates_to_zeros (b : BP) (f : Forged) (h : forgeBP b = .ok f) (i : Nat)
    (hi : i < b.segs.length) (hw : b.segs[i].fn.isWait = true) :
    ∃ hb : i < f.blocks.length, f.blocks[i].eval? = some (List.replicate f.blocks[i].len 0) := by
  obtain ⟨sr, durs, _, _, hd, hb, hblk⟩ := block_is_own_pulse b f h i hi
  refine ⟨hb, ?_⟩
  rw [hblk, forgeFn_wait _ hw]
  exact Blk.evalZeros _ _ _ _ rfl

/-- A ramp segment's block (shape `ramp`, two numeric arguments) evaluates to the generated
    `PulseAtoms.ramp` kernel on its own `n_i` points `k = 0..n_i-1`, at the blueprint's sample rate:
    the pulse function is evaluated from its own local time zero. -/
theorem ramp_block_evaluates_to_ramp (b : BP) (f : Forged) (h : forgeBP b = .ok f) (i : Nat)
    (hi : i < b.segs.length) (hw : b.segs[i].fn.isWait = false) (hs : b.segs[i].fn.shape = .ramp)
    (a c : ℚ) (ha : b.segs[i].args = [.num a, .num c]) :
    ∃ hb : i < f.blocks.length, f.blocks[i].eval? =
      some ((List.range f.blocks[i].len).map
        (fun k => Gen.ramp a c f.SR ((f.blocks[i].len : ℤ) : ℚ) k)) := by
  obtain ⟨sr, durs, hsr, _, hd, hb, hblk⟩ := block_is_own_pulse b f h i hi
  obtain ⟨sr', _, hsr', _, _, _, _, _, _, _, _, _, hfs⟩ := forge_structure b f h
  have : sr' = sr := by rw [hsr] at hsr'; cases hsr'; rfl
  subst this
  refine ⟨hb, ?_⟩
  rw [hblk, forgeFn_nonwait _ hw, ha, hfs]
  exact Blk.evalRamp _ _ _ _ _ hs

/-- the generated ramp kernel in closed form: sample `k` of `n` is `a + (c - a)·k/n`; in particular
    the first sample is the start value -/
theorem ramp_closed_form (a c sr n : ℚ) (k : Nat) (hsr : sr ≠ 0) (hn : n ≠ 0) :
    Gen.ramp a c sr n k = a + (c - a) * (k : ℚ) / n := by
  unfold Gen.ramp
  simp only [sub_zero, zero_add]
  push_cast
  field_simp
  ring

/-- **The flat waveform.**  When all blocks can be evaluated, the waveform `f.flat?` is the
    in-order concatenation of the evaluated blocks: it has `N` samples, there is one evaluated block
    per segment, and sample `j` of block `i` sits at index `start_i + j`, where `start_i` is the sum
    of the sample counts of the earlier blocks (`starts`, the same cumulative sums the marker code
    uses). -/
theorem flat_spec (b : BP) (f : Forged) (h : forgeBP b = .ok f) (w : List ℚ) (hw : f.flat? = some w) :
    w.length = f.N ∧
    ∃ xss, evalBlocks f.blocks = some xss ∧ w = xss.flatten ∧ xss.length = b.segs.length ∧
      ∀ i (hi : i < xss.length), ∃ (hb : i < f.blocks.length),
        f.blocks[i].eval? = some xss[i] ∧ xss[i].length = f.blocks[i].len ∧
        ∀ j (hj : j < xss[i].length),
          ∃ (hs : i < (starts (f.blocks.map Blk.len) 0).length)
            (hk : (starts (f.blocks.map Blk.len) 0)[i] + j < w.length),
            w[(starts (f.blocks.map Blk.len) 0)[i] + j] = xss[i][j] := by
  obtain ⟨_, _, _, _, _, _, hbl, _, _, _, _, hsum, _⟩ := forge_structure b f h
  unfold Forged.flat? at hw
  cases hx : evalBlocks f.blocks with
  | none => simp [hx] at hw
  | some xss =>
    simp only [hx, Option.map_some, Option.some.injEq] at hw
    subst hw
    obtain ⟨hl, hget⟩ := evalBlocks_some _ _ hx
    have hlens := evalBlocks_lengths _ _ hx
    refine ⟨by rw [sumN_map_length_flatten, hlens, hsum], xss, rfl, rfl, by rw [hl, hbl], ?_⟩
    intro i hi
    have hb : i < f.blocks.length := by omega
    refine ⟨hb, hget i hb hi, Blk.evalLength _ _ (hget i hb hi), ?_⟩
    intro j hj
    have hs : i < (starts (f.blocks.map Blk.len) 0).length := by rw [starts_length]; simpa using hb
    obtain ⟨hk, he⟩ := flatten_getElem_offset xss i hi j hj
    have hst : (starts (f.blocks.map Blk.len) 0)[i] = sumN ((xss.map List.length).take i) := by
      rw [starts_getElem, hlens]; simp
    refine ⟨hs, by rw [hst]; exact hk, ?_⟩
    simp only [hst]
    exact he

/-- The flat waveform exists whenever every segment is one the model can evaluate: a waituntil, or
    a ramp with two numeric arguments (any mix, any number, any order). -/
theorem flat_exists (b : BP) (f : Forged) (h : forgeBP b = .ok f)
    (hev : ∀ s ∈ b.segs, s.fn.isWait = true ∨
      (s.fn.isWait = false ∧ s.fn.shape = .ramp ∧ ∃ a c, s.args = [.num a, .num c])) :
    ∃ w, f.flat? = some w := by
  have : (evalBlocks f.blocks).isSome = true := by
    apply evalBlocks_isSome
    intro blk hblk
    obtain ⟨i, hi, rfl⟩ := List.getElem_of_mem hblk
    obtain ⟨_, _, _, _, _, _, hbl, _⟩ := forge_structure b f h
    have hi' : i < b.segs.length := by omega
    rcases hev b.segs[i] (List.getElem_mem _) with hw | ⟨hw, hs, a, c, ha⟩
    · obtain ⟨_, he⟩ := wait_block_evaluates_to_zeros b f h i hi' hw
      simp [he]
    · obtain ⟨_, he⟩ := ramp_block_evaluates_to_ramp b f h i hi' hw hs a c ha
      simp [he]
  unfold Forged.flat?
  cases hx : evalBlocks f.blocks with
  | none => simp [hx] at this
  | some xss => exact ⟨_, rfl⟩

example : ∀ s ∈ exampleBP.segs, s.fn.isWait = true ∨
    (s.fn.isWait = false ∧ s.fn.shape = .ramp ∧ ∃ a c, s.args = [.num a, .num c]) := by
  intro s hs
  simp only [exampleBP, List.mem_cons, List.not_mem_nil, or_false] at hs
  rcases hs with rfl | rfl | rfl
  · right; exact ⟨by decide, rfl, 0, 1, rfl⟩
  · left; decide
  · right; exact ⟨by decide, rfl, 1, 0, rfl⟩

example : ((forgeBP exampleBP).toOption.bind Forged.flat?).map
      (fun w => (w.length, w[23]?, w[24]?, w[49]?, w[50]?)) =
    some (65, some (23/24), some 0, some 0, some 1) := by
  decide +kernel

/-- helper for `nonempty_two_per_segment`: counts of at least two add up to at least `2·len` -/
theorem two_per_count (sr : ℚ) (durs : List ℚ) (h2 : ∀ d ∈ durs, 2 ≤ rhe (d * sr)) :
    2 * durs.length ≤ sumN (durs.map (fun d => (rhe (d * sr)).toNat)) := by
  induction durs with
  | nil => simp [sumN]
  | cons d ds ih =>
    have hd := h2 d (by simp)
    have := ih (fun x hx => h2 x (by simp [hx]))
    simp only [List.map_cons, sumN, List.length_cons]
    have : 2 ≤ (rhe (d * sr)).toNat := by omega
    omega

/-- A non-empty blueprint forges to at least two samples per segment, so the marker code's
    `argmin` over the time axis is never taken over an empty array.  (For the *empty* blueprint
    with an absolute marker the model's `nearestIdx 0 _ = 0` returns `ok` where numpy's `argmin`
    raises; `Element.addBluePrint` refuses empty blueprints, so `Element.getArrays` never gets
    there - see the examples below.) -/
theorem nonempty_two_per_segment (b : BP) (f : Forged) (h : forgeBP b = .ok f) :
    2 * b.segs.length ≤ f.N := by
  obtain ⟨sr, durs, _, _, hlen, h2, rfl⟩ := forge_counts b f h
  simp only [assemble]
  rw [← hlen]
  exact two_per_count sr durs h2

/-- model deviation (documented, not reachable through `Element`): the empty blueprint with an
    absolute marker forges in the model -/
example : (forgeBP { segs := [], marker1 := [(0, 1)], SR := .num 10 }).toOption.map (·.N) = some 0 := by
  decide +kernel

example (e : Element) (ch : Chan) (b : BP) (h : b.segs = []) : (e.addBluePrint ch b).err = some .value := by
  simp [Element.addBluePrint, h]

end BB.C01
