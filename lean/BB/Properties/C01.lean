/-
  Property C01 — the forged waveform is the in-order concatenation of per-segment samples.

  `forgeBP` is the model of `_subelementBuilder`; a block `Blk.call fn args SR n` *is* "the
  segment's pulse function evaluated on n points" (the harness evaluates it by calling the
  implementation's pulse function separately).  `Gen.segTooShort` is regenerated from the source.
-/
import BB.Proofs.Forge
import Mathlib.Tactic.FieldSimp
import Mathlib.Tactic.Ring

namespace BB.C01
open BB

/-- the generated guard is "fewer than two samples" -/
theorem guard_is_two (n : Int) : Gen.segTooShort n = true ↔ n < 2 := by
  simp [Gen.segTooShort]

/-- Structure of a successful forge: there are resolved durations `durs` (one per segment) and
    counts `ns` with `ns[i] = round(durs[i]·SR) ≥ 2`; the waveform consists of exactly one block
    per segment, in segment order; waveform, both markers (and hence the time axis `k/SR`, `k < N`)
    have the same length `N = Σ ns[i]`. -/
theorem forge_structure (b : BP) (f : Forged) (h : forgeBP b = .ok f) :
    ∃ sr durs, b.SR = .num sr ∧ b.resolveWaits = .ok durs ∧ durs.length = b.segs.length ∧
      (∀ d ∈ durs, 2 ≤ rhe (d * sr)) ∧
      f.blocks.length = b.segs.length ∧
      f.blocks.map Blk.len = durs.map (fun d => (rhe (d * sr)).toNat) ∧
      f.N = sumN (durs.map (fun d => (rhe (d * sr)).toNat)) ∧
      f.m1.length = f.N ∧ f.m2.length = f.N ∧ sumN (f.blocks.map Blk.len) = f.N ∧
      f.SR = sr := by
  obtain ⟨sr, durs, ns, hsr, hd, hn, _, rfl⟩ := (forge_ok_iff b f).mp h
  have hlen := resolveGo_length _ _ _ hd
  obtain ⟨h2, hns⟩ := countsGo_ok sr durs ns hn
  have hnl : ns.length = b.segs.length := by rw [countsGo_length sr durs ns hn, hlen]
  have hl := assemble_lengths b sr ns hnl
  simp only at hl
  refine ⟨sr, durs, hsr, hd, hlen, h2, hl.2.2.2.2.1, ?_, ?_, hl.2.1, hl.2.2.1, hl.2.2.2.1, rfl⟩
  · have := mkBlocks_lens sr b.segs ns hnl
    simp only [assemble]; rw [this, hns]; rfl
  · rw [hl.1, hns]; rfl

/-- Block `i` is segment `i`'s own pulse function (`PulseAtoms.waituntil` for a 'waituntil'
    segment) applied to segment `i`'s stored arguments, the blueprint's sample rate and that
    segment's own sample count — the function is evaluated from its own local time zero. -/
theorem block_is_own_pulse (b : BP) (f : Forged) (h : forgeBP b = .ok f) (i : Nat)
    (hi : i < b.segs.length) :
    ∃ sr durs, b.SR = .num sr ∧ b.resolveWaits = .ok durs ∧ ∃ (hd : i < durs.length) (hb : i < f.blocks.length),
      f.blocks[i] = Blk.call (forgeFn b.segs[i].fn) b.segs[i].args sr (rhe (durs[i] * sr)).toNat := by
  obtain ⟨sr, durs, ns, hsr, hd, hn, _, rfl⟩ := (forge_ok_iff b f).mp h
  have hlen := resolveGo_length _ _ _ hd
  obtain ⟨_, hns⟩ := countsGo_ok sr durs ns hn
  have hnl : ns.length = b.segs.length := by rw [countsGo_length sr durs ns hn, hlen]
  have hbl : (mkBlocks sr b.segs ns).length = b.segs.length := mkBlocks_length sr b.segs ns hnl
  refine ⟨sr, durs, hsr, hd, by omega, by simp only [assemble]; omega, ?_⟩
  simp only [assemble]
  rw [mkBlocks_getElem sr b.segs ns i hi (by omega) (by omega)]
  congr 1
  subst hns
  simp [segCount]

/-- A segment that would receive fewer than two samples makes forging fail (never dropped,
    padded or merged): forging succeeds iff the sample rate is a number, the waituntil segments
    can be resolved, and *every* segment gets at least two samples. -/
theorem forge_ok_iff_all_two (b : BP) :
    (∃ f, forgeBP b = .ok f) ↔
      ∃ sr durs, b.SR = .num sr ∧ b.resolveWaits = .ok durs ∧ (∀ d ∈ durs, 2 ≤ rhe (d * sr)) ∧
        badSpecial b = false := by
  constructor
  · rintro ⟨f, h⟩
    obtain ⟨sr, durs, ns, hsr, hd, hn, hb, _⟩ := (forge_ok_iff b f).mp h
    exact ⟨sr, durs, hsr, hd, (countsGo_ok sr durs ns hn).1, hb⟩
  · rintro ⟨sr, durs, hsr, hd, h2, hb⟩
    obtain ⟨ns, hn⟩ := (countsGo_isOk_iff sr durs).mpr h2
    exact ⟨assemble b sr ns, (forge_ok_iff b _).mpr ⟨sr, durs, ns, hsr, hd, hn, hb, rfl⟩⟩

/-- ... and the error raised for a too-short segment is SegmentDurationError. -/
theorem too_short_is_segdur (b : BP) (sr : Rat) (durs : List Rat) (hsr : b.SR = .num sr)
    (hd : b.resolveWaits = .ok durs) (d : Rat) (hmem : d ∈ durs) (hshort : rhe (d * sr) < 2) :
    forgeBP b = .error .segdur := by
  unfold forgeBP
  simp only [hsr, hd]
  cases hc : countsGo sr durs with
  | ok ns =>
    have := (countsGo_ok sr durs ns hc).1 d hmem
    simp only [segCount] at this; omega
  | error e =>
    obtain ⟨he, _⟩ := countsGo_error sr durs e hc
    simp [he]

/-- Rounding on the property's domain: a duration `(n + f)/SR` with `|f| ≤ 0.4` gets exactly `n`
    samples, and so does any value within a tenth of a sample of it (float noise). -/
theorem count_on_domain (n : Int) (f sr : Rat) (hsr : sr ≠ 0) (hf : |f| ≤ 2/5) :
    rhe (((n : Rat) + f) / sr * sr) = n := by
  have : ((n : Rat) + f) / sr * sr = (n : Rat) + f := by field_simp
  rw [this]
  apply rhe_near
  have : (n : Rat) + f - n = f := by ring
  rw [this]; exact hf

theorem count_robust (n : Int) (x δ : Rat) (h : |x - n| ≤ 2/5) (hδ : |δ| < 1/10) :
    rhe (x + δ) = n := rhe_stable x δ n h hδ

theorem sumR_newdur (ns : List Nat) (sr : Rat) :
    sumR (ns.map (fun (n : Nat) => ((n : Int) : Rat) / sr)) = ((sumN ns : Nat) : Rat) / sr := by
  induction ns with
  | nil => simp [sumR, sumN]
  | cons n ns ih =>
    simp only [List.map_cons, sumR, sumN, ih]
    push_cast
    ring

/-- The time axis: `linspace(0, Σ newdurations, N, endpoint=False)[k] = k/SR`. -/
theorem time_axis (b : BP) (f : Forged) (h : forgeBP b = .ok f) (hsr : f.SR ≠ 0) (hN : f.N ≠ 0) (k : Nat) :
    (0 : Rat) + (k : Rat) * ((sumR f.newdurations - 0) / (f.N : Rat)) = (k : Rat) / f.SR := by
  obtain ⟨sr, durs, ns, _, _, _, _, rfl⟩ := (forge_ok_iff b f).mp h
  simp only [assemble] at *
  rw [sumR_newdur]
  have : ((sumN ns : Nat) : Rat) ≠ 0 := by exact_mod_cast hN
  field_simp
  ring

/-- Forging does not look at segment names (the only history-dependent field): two blueprints
    with the same per-segment records up to names, the same absolute markers and sample rate
    forge identically — "whatever the edit history". -/
theorem mkBlocks_body (sr : Rat) (a b : List Seg) (ns : List Nat) (h : a.map BP.Seg.body = b.map BP.Seg.body) :
    mkBlocks sr a ns = mkBlocks sr b ns := by
  induction a generalizing b ns with
  | nil => cases b with
    | nil => rfl
    | cons y ys => simp at h
  | cons x xs ih =>
    cases b with
    | nil => simp at h
    | cons y ys =>
      simp only [List.map_cons, List.cons.injEq] at h
      cases ns with
      | nil => rfl
      | cons n ns =>
        simp only [mkBlocks]
        have hx : x.fn = y.fn ∧ x.args = y.args := by
          have := h.1; simp [BP.Seg.body] at this; exact ⟨this.1, this.2.1⟩
        rw [hx.1, hx.2, ih ys ns h.2]

/-! ### non-vacuity -/

def exampleBP : BP :=
  { segs := [ { name := "ramp", fn := Fn.rampFn, args := [.num 0, .num 1], dur := .num (12/5) },
              { name := "waituntil", fn := Fn.waitSpecial, args := [.num 5], dur := .none },
              { name := "ramp2", fn := Fn.rampFn, args := [.num 1, .num 0], dur := .num (3/2) } ],
    SR := .num 10 }

example : (forgeBP exampleBP).toOption.map (fun f => (f.N, f.blocks.map Blk.len)) = some (65, [24, 26, 15]) := by
  decide +kernel

example : forgeBP { exampleBP with SR := .num (1/2) } = .error .segdur := by decide +kernel

end BB.C01
