/-
  Property C17 — parameter sweeps change exactly the addressed values, step by step.

  `Tools.makeVaryingSequence`, `Tools.repeatAndVarySequence`, `Tools.makeLinearlyVaryingSequence`
  are the model's `broadbean.tools` functions as coded; `Gen.linCount` is regenerated from
  `round(abs(stop - start) / step) + 1`.
-/
import Mathlib.Tactic.Ring
import Mathlib.Tactic.FieldSimp
import Mathlib.Tactic.Linarith
import BB.Proofs.Round
import BB.Proofs.Element
import BB.Proofs.DictEq
import BB.Model.Tools
import BB.Proofs.Sweep
import BB.Properties.C09
import BB.Properties.C05
import BB.Proofs.G5Sweep
import BB.Proofs.G5Repeat
import BB.Proofs.G5Values
import BB.Proofs.G10Repeat

namespace BB.C17
open BB BB.Tools

/-! ### the linear sweep: number of steps and values -/

/-- the number of steps is `round(|stop - start| / step) + 1` (round half to even) -/
theorem linCount_spec (start stop step : ℚ) :
    linCount start stop step = rhe (|stop - start| / step) + 1 := by
  simp only [linCount, Gen.linCount, Element.absR_eq_abs]

/-- when `|stop - start|` is (within 0.4 of) a whole number `k` of steps, there are `k + 1` values -/
theorem linCount_whole (start stop step : ℚ) (k : ℕ) (h : |(|stop - start| / step) - k| ≤ 2 / 5) :
    linCount start stop step = k + 1 := by
  rw [linCount_spec, rhe_near _ (k : ℤ) (by simpa using h)]

theorem linspace_length (start stop : ℚ) (n : ℕ) : (linspace start stop n).length = n := by
  unfold linspace; split <;> simp_all

/-- the i-th value is `start + i·(stop − start)/(n − 1)`: equidistant steps -/
theorem linspace_getElem (start stop : ℚ) (n i : ℕ) (hn : 2 ≤ n) (hi : i < n) :
    (linspace start stop n)[i]'(by rw [linspace_length]; exact hi) =
      start + (i : ℚ) * ((stop - start) / ((n : ℚ) - 1)) := by
  unfold linspace
  have : n ≠ 1 := by omega
  simp only [this, if_false, List.getElem_map, List.getElem_range]
  have h1 : (((n - 1 : ℕ) : ℤ) : ℚ) = (n : ℚ) - 1 := by
    have : 1 ≤ n := by omega
    push_cast [Nat.cast_sub this]; ring
  rw [h1]; push_cast; ring

/-- the first value is `start` and the last is `stop`: both ends are included -/
theorem linspace_ends (start stop : ℚ) (n : ℕ) (hn : 2 ≤ n) :
    (linspace start stop n)[0]'(by rw [linspace_length]; omega) = start ∧
    (linspace start stop n)[n - 1]'(by rw [linspace_length]; omega) = stop := by
  constructor
  · rw [linspace_getElem _ _ _ _ hn (by omega)]; simp
  · rw [linspace_getElem _ _ _ _ hn (by omega)]
    have h1 : ((n - 1 : ℕ) : ℚ) = (n : ℚ) - 1 := by
      have : 1 ≤ n := by omega
      push_cast [Nat.cast_sub this]; ring
    rw [h1]
    have : (n : ℚ) - 1 ≠ 0 := by
      have : (2 : ℚ) ≤ n := by exact_mod_cast hn
      linarith
    field_simp
    ring

/-- a single step (start = stop): one value, `start` -/
theorem linspace_one (start stop : ℚ) : linspace start stop 1 = [start] := by
  simp [linspace]

/-! ### one change: exactly the addressed argument or duration -/

/-- a sweep step is `changeDuration` for `'duration'` and `changeArg` otherwise, on the addressed
    channel only, without `replaceeverywhere` (so the frame theorems of C05 apply) -/
theorem applyChange_spec (e : Element) (ch : Chan) (name : String) (arg val : Val) :
    applyChange e ch name arg val =
      if arg = .str "duration" then e.changeDuration ch name val false else e.changeArg ch name arg val false := rfl

/-- a change on one channel leaves every other channel entry as it was, keeps the channel order,
    and on the addressed channel touches only the blueprint (flags stay) -/
theorem withBP_frame (e : Element) (ch : Chan) (f : BP → Res BP) (ch2 : Chan) (h : ch2 ≠ ch) :
    Dict.get? (e.withBP ch f).st.chans ch2 = Dict.get? e.chans ch2 ∧
    Dict.keys (e.withBP ch f).st.chans = Dict.keys e.chans := by
  unfold Element.withBP
  split
  · exact ⟨rfl, rfl⟩
  · rename_i ent hent
    split
    · simp only
      refine ⟨Dict.get?_upsert_other _ _ _ _ h, Dict.keys_upsert_of_mem _ _ _ ?_⟩
      exact (Dict.get?_isSome_iff e.chans ch).mp (by simp [hent])
    · exact ⟨rfl, rfl⟩

theorem applyChange_frame (e : Element) (ch : Chan) (name : String) (arg val : Val) (ch2 : Chan) (h : ch2 ≠ ch) :
    Dict.get? (applyChange e ch name arg val).st.chans ch2 = Dict.get? e.chans ch2 ∧
    Dict.keys (applyChange e ch name arg val).st.chans = Dict.keys e.chans := by
  rw [applyChange_spec]
  split
  · exact withBP_frame e ch _ ch2 h
  · exact withBP_frame e ch _ ch2 h

/-! ### mismatched inputs are rejected with ValueError -/

/-- the shared input validation accepts exactly: all list arguments of one length, at least one
    variation, every variation with the same number of values (= the number of steps) -/
theorem sweepSteps_ok_iff (lens : List Nat) (vars : List Variation) (n : Nat) :
    sweepSteps lens vars = .ok n ↔
      allSameLen lens = true ∧ ∃ v rest, vars = v :: rest ∧ (∀ w ∈ rest, w.vals.length = v.vals.length) ∧
        n = v.vals.length := by
  unfold sweepSteps
  constructor
  · intro h
    split at h
    · cases h
    · rename_i hl
      split at h
      · cases h
      · rename_i v rest
        split at h
        · cases h
        · rename_i hany
          cases h
          refine ⟨by simpa using hl, v, rest, rfl, ?_, rfl⟩
          intro w hw
          by_contra hne
          exact hany (List.any_eq_true.mpr ⟨w, hw, by simpa using hne⟩)
  · rintro ⟨hl, v, rest, rfl, hall, rfl⟩
    have : rest.any (fun w => decide (w.vals.length ≠ v.vals.length)) = false := by
      rw [List.any_eq_false]
      intro w hw
      simpa using hall w hw
    simp [hl]
    exact hall

/-- list arguments of different lengths, or variations with different numbers of values, are a
    ValueError -/
theorem sweepSteps_mismatch (lens : List Nat) (vars : List Variation)
    (h : allSameLen lens = false ∨ ∃ v rest, vars = v :: rest ∧ ∃ w ∈ rest, w.vals.length ≠ v.vals.length) :
    sweepSteps lens vars = .error .value := by
  unfold sweepSteps
  rcases h with h | ⟨v, rest, rfl, w, hw, hne⟩
  · simp [h]
  · split
    · rfl
    · have : rest.any (fun w => decide (w.vals.length ≠ v.vals.length)) = true :=
        List.any_eq_true.mpr ⟨w, hw, by simpa using hne⟩
      simp
      exact ⟨w, hw, hne⟩

/-- `makeVaryingSequence` raises what the input validation raises (after validating the base) -/
theorem makeVarying_rejects (base : Element) (lens : List Nat) (vars : List Variation) (m : Val × ℚ) (er : Err)
    (hv : base.validate = .ok m) (h : sweepSteps lens vars = .error er) :
    makeVaryingSequence base lens vars = .error er := by
  unfold makeVaryingSequence
  simp [hv, h]

/-- `repeatAndVarySequence`: an inconsistent input sequence is a SequenceConsistencyError, mismatched
    inputs what the input validation raises -/
theorem repeatAndVary_rejects (seq : Sequence) (lens : List Nat) (poss : List ℤ) (vars : List Variation) :
    (seq.checkConsistency = .ok false → repeatAndVarySequence seq lens poss vars = .error .consistency) ∧
    (∀ er, seq.checkConsistency = .ok true → sweepSteps lens vars = .error er →
      repeatAndVarySequence seq lens poss vars = .error er) := by
  unfold repeatAndVarySequence
  exact ⟨fun h => by simp [h], fun er h1 h2 => by simp [h1, h2]⟩

/-! ### makeVaryingSequence: position by position -/

/-- **what `makeVaryingSequence` returns**: a sequence at the base element's sample rate that is
    consistent and whose element at position `j+1` (for every step `j < M`) is the base element
    with every variation's `j`-th value applied, in order — and nothing else changed, by the frame
    theorems of `applyChange` -/
theorem makeVarying_spec (base : Element) (lens : List Nat) (vars : List Variation) (s : Sequence)
    (h : makeVaryingSequence base lens vars = .ok s) :
    ∃ m M, base.validate = .ok m ∧ sweepSteps lens vars = .ok M ∧
      (∀ j, j < M → Dict.get? s.data ((j + 1 : Nat) : Int) =
          some (.el (varied { base with cache := some m } vars j))) ∧
      s.awgspecs = [("SR", .val m.1)] ∧ s.checkConsistency = .ok true := by
  unfold makeVaryingSequence at h
  cases hv : base.validate with
  | error er => simp [hv] at h
  | ok m =>
    simp only [hv] at h
    cases hs : sweepSteps lens vars with
    | error er => simp [hs] at h
    | ok M =>
      simp only [hs] at h
      cases hc : addCopies base M 0 (({} : Sequence).setSR m.1) with
      | error er => simp [hc] at h
      | ok s0 =>
        simp only [hc] at h
        cases ha : applyVars vars s0 with
        | error er => simp [ha] at h
        | ok s1 =>
          simp only [ha] at h
          cases hk : s1.checkConsistency with
          | error er => simp [hk] at h
          | ok b =>
            cases b with
            | false => simp [hk] at h
            | true =>
              simp only [hk, Except.ok.injEq] at h
              subst h
              obtain ⟨_, v, rest, hvars, hall, hM⟩ := (sweepSteps_ok_iff lens vars M).mp hs
              have hlen : ∀ w ∈ vars, w.vals.length = M := by
                intro w hw
                rw [hvars] at hw
                rcases List.mem_cons.mp hw with rfl | hw
                · exact hM.symm
                · rw [hall w hw, hM]
              -- settings of s0: addCopies leaves awgspecs alone
              have hspec : ∀ (n k : Nat) (a b : Sequence), addCopies base n k a = .ok b → b.awgspecs = a.awgspecs := by
                intro n
                induction n with
                | zero => intro k a b hab; simp [addCopies] at hab; subst hab; rfl
                | succ n ih =>
                  intro k a b hab
                  unfold addCopies at hab
                  have hadd : (a.addElement ((k + 1 : Nat) : Int) base).toExcept = .ok (a.addElement ((k + 1 : Nat) : Int) base).st := by
                    unfold Res.toExcept Sequence.addElement; simp [hv]
                  rw [hadd] at hab
                  simp only at hab
                  rw [ih (k + 1) _ b hab]
                  exact (C09.addElement_stores a _ base m hv).2.2.2
              refine ⟨m, M, rfl, rfl, ?_, ?_, hk⟩
              · intro j hj
                have h0 := C09.addCopies_get base m hv M 0 _ s0 hc j hj
                simp only [Nat.zero_add] at h0
                exact (applyVars_spec vars M hlen s0 s1 ha j hj _ h0).1
              · have h1 := hspec M 0 _ s0 hc
                have h0 := C09.addCopies_get base m hv M 0 _ s0 hc
                by_cases hM0 : 0 < M
                · have := (applyVars_spec vars M hlen s0 s1 ha 0 hM0 _ (by simpa using h0 0 hM0)).2.1
                  rw [this, h1]; rfl
                · -- M = 0: no variation ever ran a step; applyVars still leaves the settings alone
                  have hM' : M = 0 := by omega
                  have key : ∀ (vs : List Variation) (a b : Sequence), (∀ w ∈ vs, w.vals.length = 0) →
                      applyVars vs a = .ok b → b.awgspecs = a.awgspecs := by
                    intro vs
                    induction vs with
                    | nil => intro a b _ hab; simp [applyVars] at hab; subst hab; rfl
                    | cons w ws ih =>
                      intro a b hl hab
                      unfold applyVars at hab
                      have hw : w.vals = [] := List.eq_nil_of_length_eq_zero (hl w (by simp))
                      rw [hw] at hab
                      simp only [applyVals] at hab
                      exact ih a b (fun x hx => hl x (by simp [hx])) hab
                  rw [key vars s0 s1 (by intro w hw; rw [hlen w hw, hM']) ha, h1]; rfl

/-- the element at every position differs from the base element only on the addressed channels:
    a channel no variation addresses holds exactly the base element's entry -/
theorem varied_frame (e : Element) (vars : List Variation) (j : Nat) (ch : Chan)
    (hch : ∀ v ∈ vars, v.chan ≠ ch) :
    Dict.get? (varied e vars j).chans ch = Dict.get? e.chans ch ∧
    Dict.keys (varied e vars j).chans = Dict.keys e.chans := by
  induction vars generalizing e with
  | nil => exact ⟨rfl, rfl⟩
  | cons v vs ih =>
    simp only [varied, List.foldl_cons]
    have h1 := applyChange_frame e v.chan v.name v.arg (v.vals.getD j .none) ch (fun e' => hch v (by simp) e'.symm)
    have h2 := ih (changed e v (v.vals.getD j .none)) (fun w hw => hch w (by simp [hw]))
    unfold varied at h2
    exact ⟨by rw [h2.1]; exact h1.1, by rw [h2.2]; exact h1.2⟩

/-! ### the repeat tool is a fold of `+` over varied copies, starting from the bare settings -/

/-- `repeatAndVarySequence` = for each step: copy the sequence, apply that step's values at the
    addressed positions, append with `+` (so C16 applies to every step); the result carries the
    input's AWG settings from the start -/
theorem repeatAndVary_unfold (seq : Sequence) (lens : List Nat) (poss : List ℤ) (vars : List Variation) (n0 : Nat)
    (hc : seq.checkConsistency = .ok true) (hs : sweepSteps lens vars = .ok n0) :
    repeatAndVarySequence seq lens poss vars =
      repeatLoop seq (poss.zip vars) (List.range n0) { awgspecs := seq.awgspecs } := by
  unfold repeatAndVarySequence
  simp [hc, hs]

theorem repeatLoop_step (seq : Sequence) (pv : List (ℤ × Variation)) (step : Nat) (rest : List Nat)
    (acc temp acc' : Sequence) (h1 : applyStep step pv seq.copy = .ok temp) (h2 : acc.add temp = .ok acc') :
    repeatLoop seq pv (step :: rest) acc = repeatLoop seq pv rest acc' := by
  simp [repeatLoop, h1, h2]

/-- zero steps: the result is the empty sequence with the input's settings -/
theorem repeatLoop_nil (seq : Sequence) (pv : List (ℤ × Variation)) (acc : Sequence) :
    repeatLoop seq pv [] acc = .ok acc := rfl

/-! ### makeLinearlyVaryingSequence: position by position -/

/-- the `j`-th value of the linear sweep with `n` steps: `start + j·(stop − start)/(n − 1)`
    (`start` alone when there is a single step) -/
def linValue (start stop : ℚ) (n j : ℕ) : ℚ :=
  if n = 1 then start else start + (j : ℚ) * ((stop - start) / ((n : ℚ) - 1))

/-- clause "steps the value from start to stop inclusive in equidistant steps": every value of the
    sweep, the single-step case included -/
theorem linspace_getElem_all (start stop : ℚ) (n j : ℕ) (hj : j < n) :
    (linspace start stop n)[j]'(by rw [linspace_length]; exact hj) = linValue start stop n j := by
  unfold linValue
  by_cases h1 : n = 1
  · subst h1
    have : j = 0 := by omega
    subst this
    simp [linspace]
  · simp only [h1, if_false]
    exact linspace_getElem start stop n j (by omega) hj

/-- **what `makeLinearlyVaryingSequence` returns**: with `n = round(|stop − start|/step) + 1` steps
    (`step ≠ 0`, `n ≥ 0`, else it raises), a sequence whose only AWG setting is the base element's
    sample rate, with exactly the positions `1..n` (default sequencing each), position `j + 1`
    holding the base element with the addressed argument (or duration) changed to
    `start + j·(stop − start)/(n − 1)` — every change accepted, every changed element valid -/
theorem makeLinearly_spec (base : Element) (ch : Chan) (name : String) (arg : Val) (start stop step : ℚ)
    (s : Sequence) (h : makeLinearlyVaryingSequence base ch name arg start stop step = .ok s) :
    ∃ sr, base.getSR = .ok sr ∧ step ≠ 0 ∧ 0 ≤ linCount start stop step ∧
      Dict.keys s.data = oneTo (linCount start stop step).toNat ∧
      s.sequencing = (oneTo (linCount start stop step).toNat).map (fun p => (p, Sequence.defaultSeqEl)) ∧
      s.awgspecs = [("SR", .val sr)] ∧
      ∀ j, j < (linCount start stop step).toNat → ∃ m,
        (applyChange base ch name arg (.num (linValue start stop (linCount start stop step).toNat j))).err = none ∧
        (applyChange base ch name arg (.num (linValue start stop (linCount start stop step).toNat j))).st.validate = .ok m ∧
        Dict.get? s.data ((j + 1 : ℕ) : ℤ) = some (.el
          { (applyChange base ch name arg (.num (linValue start stop (linCount start stop step).toNat j))).st with
            cache := some m }) := by
  unfold makeLinearlyVaryingSequence at h
  cases hsr : base.getSR with
  | error er => rw [hsr] at h; cases h
  | ok sr =>
    rw [hsr] at h
    simp only at h
    by_cases hstep : step = 0
    · simp [hstep] at h
    · simp only [hstep, if_false] at h
      by_cases hneg : linCount start stop step < 0
      · simp [hneg] at h
      · simp only [hneg, if_false] at h
        have hfill : G5.Filled (({} : Sequence).setSR sr) 0 := ⟨rfl, rfl⟩
        obtain ⟨hf, hspec, _, hall⟩ := G5.linLoop_spec base ch name arg _ 0 _ s hfill h
        rw [Nat.zero_add, linspace_length] at hf
        refine ⟨sr, rfl, hstep, not_lt.mp hneg, hf.1, hf.2, by rw [hspec]; rfl, fun j hj => ?_⟩
        obtain ⟨m, h1, h2, h3⟩ := hall j (by rw [linspace_length]; exact hj)
        rw [linspace_getElem_all start stop _ j hj] at h1 h2 h3
        rw [Nat.zero_add] at h3
        exact ⟨m, h1, h2, h3⟩

/-! ### makeVaryingSequence: the exact key set -/

/-- **`makeVaryingSequence` returns exactly the positions `1..M`** (in this order), each with the
    default sequencing entry — nothing else is stored -/
theorem makeVarying_keys (base : Element) (lens : List Nat) (vars : List Variation) (s : Sequence)
    (h : makeVaryingSequence base lens vars = .ok s) :
    ∃ M, sweepSteps lens vars = .ok M ∧ Dict.keys s.data = oneTo M ∧ s.data.length = M ∧
      s.sequencing = (oneTo M).map (fun p => (p, Sequence.defaultSeqEl)) := by
  unfold makeVaryingSequence at h
  cases hv : base.validate with
  | error er => simp [hv] at h
  | ok m =>
    simp only [hv] at h
    cases hs : sweepSteps lens vars with
    | error er => simp [hs] at h
    | ok M =>
      simp only [hs] at h
      cases hc : addCopies base M 0 (({} : Sequence).setSR m.1) with
      | error er => simp [hc] at h
      | ok s0 =>
        simp only [hc] at h
        cases ha : applyVars vars s0 with
        | error er => simp [ha] at h
        | ok s1 =>
          simp only [ha] at h
          cases hk : s1.checkConsistency with
          | error er => simp [hk] at h
          | ok b =>
            cases b with
            | false => simp [hk] at h
            | true =>
              simp only [hk, Except.ok.injEq] at h
              subst h
              have hfill : G5.Filled (({} : Sequence).setSR m.1) 0 := ⟨rfl, rfl⟩
              obtain ⟨hf, _⟩ := G5.addCopies_filled base M 0 _ s0 hfill hc
              rw [Nat.zero_add] at hf
              obtain ⟨k1, k2, _⟩ := G5.applyVars_shape vars s0 s1 ha
              refine ⟨M, rfl, by rw [k1, hf.1], ?_, by rw [k2, hf.2]⟩
              have := congrArg List.length (k1.trans hf.1)
              simpa [Dict.keys, oneTo_length] using this

/-! ### repeatAndVarySequence: the fold of `+` over the varied copies -/

/-- **what `repeatAndVarySequence` returns**: with `M` steps, there are `M` varied copies of `seq`
    (`temps[i]` = the copy with the `i`-th values applied at the addressed positions:
    `G5.applyStep_spec` / `G5.stepEntry`), every `+` of the loop returned, and the result is the
    fold of `+` over them starting from the bare settings: it has `M · len(seq)` positions, carries
    exactly `seq`'s AWG settings, and position `i·len(seq) + p` holds (a copy of) what the `i`-th
    varied copy holds at `p` — i.e. `seq`'s entry at `p` with the `i`-th values applied -/
theorem repeatAndVary_spec (seq : Sequence) (lens : List Nat) (poss : List ℤ) (vars : List Variation) (r : Sequence)
    (h : repeatAndVarySequence seq lens poss vars = .ok r) :
    ∃ (M : ℕ) (temps : List Sequence), seq.checkConsistency = .ok true ∧ sweepSteps lens vars = .ok M ∧ temps.length = M ∧
      (∀ i (hi : i < temps.length), applyStep i (poss.zip vars) seq.copy = .ok temps[i]) ∧
      temps.foldlM Sequence.add { awgspecs := seq.awgspecs } = .ok r ∧
      r = temps.foldl Sequence.addCore { awgspecs := seq.awgspecs } ∧
      r.data.length = M * seq.data.length ∧ r.awgspecs = seq.awgspecs ∧
      ∀ i, i < temps.length → ∀ (p : ℤ) (en : Entry), Dict.get? seq.data p = some en →
        Dict.get? r.data (p + ((i * seq.data.length : ℕ) : ℤ)) =
          some (Sequence.copyEntry (G5.stepEntry i (poss.zip vars) p en)) := by
  unfold repeatAndVarySequence at h
  cases hc : seq.checkConsistency with
  | error er => rw [hc] at h; cases h
  | ok b =>
    cases b with
    | false => rw [hc] at h; cases h
    | true =>
      rw [hc] at h
      simp only at h
      cases hs : sweepSteps lens vars with
      | error er => rw [hs] at h; cases h
      | ok M =>
        rw [hs] at h
        simp only at h
        obtain ⟨temps, hl, hall, hfold⟩ := G5.repeatLoop_spec seq _ _ _ r h
        rw [List.length_range] at hl
        have hstep : ∀ i (hi : i < temps.length), applyStep i (poss.zip vars) seq.copy = .ok temps[i] := by
          intro i hi
          have := hall i (by simpa [hl] using hi) hi
          simpa using this
        have hshape : ∀ t ∈ temps, t.data.length = seq.data.length ∧ t.awgspecs = seq.awgspecs := by
          intro t ht
          obtain ⟨i, hi, rfl⟩ := List.getElem_of_mem ht
          obtain ⟨k1, _, k3, _⟩ := G5.applyStep_spec i _ _ _ (hstep i hi)
          refine ⟨?_, k3⟩
          have := congrArg List.length k1
          simp only [Dict.keys, List.length_map] at this
          exact this
        obtain ⟨e1, e2, e3, e4⟩ := G5.foldAdd_spec temps _ r seq.data.length hfold
          (fun t ht => (hshape t ht).1) (fun t ht => (hshape t ht).2)
        refine ⟨M, temps, rfl, rfl, hl, hstep, hfold, e1, ?_, e3, ?_⟩
        · rw [e2, hl]; simp
        · intro i hi p en hp
          obtain ⟨k1, _, _, k4⟩ := G5.applyStep_spec i _ _ _ (hstep i hi)
          have hget := k4 p en hp
          have hk : p ∈ Dict.keys temps[i].data := (Dict.get?_isSome_iff _ _).mp (by rw [hget]; rfl)
          have := e4 i hi p hk
          simp only [List.length_nil, Nat.zero_add] at this
          rw [this, hget]
          rfl

/-! ### the value theorem -/

/-- **`makeVaryingSequence` changes exactly the addressed values**: let the base element's
    blueprints have distinct segment names (`G5.NamesOk`; true of every stored blueprint) and let
    the variations address pairwise different slots (channel, segment, argument or `'duration'`;
    `G5.addrOf` resolves names and positions of arguments to the same slot).  Then at every step
    `j < M` the element at position `j + 1`
    * holds, in the slot addressed by each variation `v`, the value `v.vals[j]` (= `iters[k][j]`),
    * reads in every other slot of every segment on every channel exactly as the base element, and
    * has the base element's skeleton: channels and their order, flags, sample rates, absolute and
      segment-bound markers, segment names, functions, numbers of arguments, raw arrays. -/
theorem makeVarying_values (base : Element) (lens : List Nat) (vars : List Variation) (s : Sequence)
    (h : makeVaryingSequence base lens vars = .ok s) (hn : G5.NamesOk base)
    (hd : (vars.map (G5.addrOf base)).Pairwise (· ≠ ·)) :
    ∃ M, sweepSteps lens vars = .ok M ∧ ∀ j, j < M → ∃ ej, Dict.get? s.data ((j + 1 : ℕ) : ℤ) = some (.el ej) ∧
      (∀ v ∈ vars, ∃ a val, v.vals[j]? = some val ∧ G5.addrOf base v = some a ∧ G5.readAt ej a = some val) ∧
      (∀ a, (∀ v ∈ vars, G5.addrOf base v ≠ some a) → G5.readAt ej a = G5.readAt base a) ∧
      G5.skeleton ej = G5.skeleton base := by
  unfold makeVaryingSequence at h
  cases hv : base.validate with
  | error er => simp [hv] at h
  | ok m =>
    simp only [hv] at h
    cases hs : sweepSteps lens vars with
    | error er => simp [hs] at h
    | ok M =>
      simp only [hs] at h
      cases hc : addCopies base M 0 (({} : Sequence).setSR m.1) with
      | error er => simp [hc] at h
      | ok s0 =>
        simp only [hc] at h
        cases ha : applyVars vars s0 with
        | error er => simp [ha] at h
        | ok s1 =>
          simp only [ha] at h
          cases hk : s1.checkConsistency with
          | error er => simp [hk] at h
          | ok b =>
            cases b with
            | false => simp [hk] at h
            | true =>
              simp only [hk, Except.ok.injEq] at h
              subst h
              obtain ⟨_, v0, rest, hvars, hall, hM⟩ := (sweepSteps_ok_iff lens vars M).mp hs
              have hlen : ∀ w ∈ vars, w.vals.length = M := by
                intro w hw
                rw [hvars] at hw
                rcases List.mem_cons.mp hw with rfl | hw
                · exact hM.symm
                · rw [hall w hw, hM]
              refine ⟨M, rfl, fun j hj => ?_⟩
              have h0 := C09.addCopies_get base m hv M 0 _ s0 hc j hj
              simp only [Nat.zero_add] at h0
              have hget := (applyVars_spec vars M hlen s0 s1 ha j hj _ h0).1
              have hok := G5.applyVars_ok vars M hlen s0 s1 ha j hj _ h0
              -- the stored base element differs from `base` in the validation cache only
              have hn' : G5.NamesOk ({ base with cache := some m } : Element) := hn
              have hd' : (vars.map (G5.addrOf ({ base with cache := some m } : Element))).Pairwise (· ≠ ·) := hd
              obtain ⟨v1, v2, _, _⟩ := G5.varied_values _ vars j hn' hok hd'
              refine ⟨_, hget, ?_, ?_, ?_⟩
              · intro v hv'
                obtain ⟨a, ha1, ha2⟩ := v1 v hv'
                have hl := hlen v hv'
                refine ⟨a, v.vals.getD j .none, ?_, ha1, ha2⟩
                simp [List.getD, List.getElem?_eq_getElem (show j < v.vals.length by omega)]
              · intro a hna
                exact v2 a hna
              · exact G5.varied_skeleton _ vars j hn' hok

/-- **the linear sweep changes exactly the addressed value**: at every step `j` the element at
    position `j + 1` reads `start + j·(stop − start)/(n − 1)` in the addressed slot, reads as the base
    element in every other slot, and has the base element's skeleton -/
theorem makeLinearly_values (base : Element) (ch : Chan) (name : String) (arg : Val) (start stop step : ℚ)
    (s : Sequence) (h : makeLinearlyVaryingSequence base ch name arg start stop step = .ok s) (hn : G5.NamesOk base) :
    ∀ j, j < (linCount start stop step).toNat → ∃ ej sl, Dict.get? s.data ((j + 1 : ℕ) : ℤ) = some (.el ej) ∧
      G5.addrOf base ⟨ch, name, arg, []⟩ = some (ch, name, sl) ∧
      G5.readAt ej (ch, name, sl) = some (.num (linValue start stop (linCount start stop step).toNat j)) ∧
      (∀ a, a ≠ (ch, name, sl) → G5.readAt ej a = G5.readAt base a) ∧ G5.skeleton ej = G5.skeleton base := by
  obtain ⟨sr, _, _, _, _, _, _, hall⟩ := makeLinearly_spec base ch name arg start stop step s h
  intro j hj
  obtain ⟨m, h1, _, h3⟩ := hall j hj
  obtain ⟨sl, ha, hr, _, _⟩ := G5.applyChange_reads base ch name arg _ hn h1
  refine ⟨_, sl, h3, ha, ?_, ?_, ?_⟩
  · rw [G5.readAt_cache, hr (ch, name, sl)]
    simp
  · intro a hne
    rw [G5.readAt_cache, hr a]
    simp [hne]
  · rw [G5.skeleton_cache]
    exact G5.applyChange_skeleton base ch name arg _ hn h1

/-- **`repeatAndVarySequence` changes exactly the addressed values**: in repetition `i`, the
    element that `seq` holds at position `p` appears at position `i·len(seq) + p` with, for every
    variation addressed to position `p`, the addressed slot holding that variation's `i`-th value,
    every other slot as in `seq`'s element, and the same skeleton (the variations addressed to one
    position must address pairwise different slots; an unaddressed position is simply copied) -/
theorem repeatAndVary_values (seq : Sequence) (lens : List Nat) (poss : List ℤ) (vars : List Variation) (r : Sequence)
    (h : repeatAndVarySequence seq lens poss vars = .ok r) (p : ℤ) (e : Element)
    (hp : Dict.get? seq.data p = some (.el e)) (hn : G5.NamesOk e)
    (hd : ((G5.varsAt (poss.zip vars) p).map (G5.addrOf e)).Pairwise (· ≠ ·)) :
    ∃ M, sweepSteps lens vars = .ok M ∧ ∀ i, i < M → ∃ ei,
      Dict.get? r.data (p + ((i * seq.data.length : ℕ) : ℤ)) = some (.el ei) ∧
      (∀ v ∈ G5.varsAt (poss.zip vars) p, ∃ a, G5.addrOf e v = some a ∧ G5.readAt ei a = some (v.vals.getD i .none)) ∧
      (∀ a, (∀ v ∈ G5.varsAt (poss.zip vars) p, G5.addrOf e v ≠ some a) → G5.readAt ei a = G5.readAt e a) ∧
      G5.skeleton ei = G5.skeleton e := by
  obtain ⟨M, temps, _, hs, hl, hstep, _, _, _, _, hget⟩ := repeatAndVary_spec seq lens poss vars r h
  refine ⟨M, hs, fun i hi => ?_⟩
  have hi' : i < temps.length := by omega
  have hok := G5.applyStep_ok i _ _ _ (hstep i hi') p e hp
  obtain ⟨v1, v2, _, _⟩ := G5.varied_values e _ i hn hok hd
  refine ⟨G5.stepVaried i (poss.zip vars) p e, ?_, ?_, ?_, ?_⟩
  · rw [hget i hi' p _ hp]; rfl
  · rw [G5.stepVaried_eq_varied]; exact v1
  · rw [G5.stepVaried_eq_varied]; exact v2
  · rw [G5.stepVaried_eq_varied]; exact G5.varied_skeleton e _ i hn hok

/-! ### non-vacuity: each tool returns a sequence, and the hypotheses above are satisfiable -/

def exBP : BP :=
  { segs := [{ name := "ramp", fn := Fn.rampFn, args := [.num 0, .num 1], dur := .num 1 },
             { name := "ramp2", fn := Fn.rampFn, args := [.num 1, .num 0], dur := .num 1 }], SR := .num 10 }

/-- a two-channel base element -/
def exBase : Element := ⟨[(.int 1, { data := .bp exBP }), (.int 2, { data := .bp exBP })], none⟩

/-- three simultaneous variations in two steps: an argument by name, another argument of the same
    segment by position, an argument of another segment on another channel -/
def exVars : List Variation :=
  [⟨.int 1, "ramp", .str "stop", [.num 2, .num 3]⟩, ⟨.int 1, "ramp", .num 0, [.num (1/2), .num (1/4)]⟩,
   ⟨.int 2, "ramp2", .str "start", [.num 5, .num 6]⟩]

/-- a one-channel element (a duration can be swept on it without invalidating it) -/
def exBase1 : Element := ⟨[(.int 1, { data := .bp exBP })], none⟩

def exSeq : Sequence :=
  (Sequence.addElement (Sequence.addElement (SeqCore.setSR ({} : Sequence) (.num 10)) 1 exBase).st 2 exBase).st

/-- the hypotheses of the value theorems hold of the example: distinct segment names, pairwise
    different addressed slots (resolved: argument 1, argument 0, argument 0 on another channel) -/
example : G5.NamesOk exBase ∧ (exVars.map (G5.addrOf exBase)).Pairwise (· ≠ ·) ∧
    exVars.map (G5.addrOf exBase) =
      [some (.int 1, "ramp", .arg 1), some (.int 1, "ramp", .arg 0), some (.int 2, "ramp2", .arg 0)] :=
  ⟨G5.namesOk_of_check _ (by decide +kernel), by decide +kernel, by decide +kernel⟩

/-- **each of the three tools returns a sequence** on the example: 3 linear steps from 0 to 1 in
    steps of 1/2; 2 steps of 3 simultaneous variations; the 2-position sequence repeated twice -/
example :
    (makeLinearlyVaryingSequence exBase (.int 1) "ramp" (.str "stop") 0 1 (1/2)).map (fun s => Dict.keys s.data) =
      .ok [1, 2, 3] ∧
    (makeLinearlyVaryingSequence exBase1 (.int 1) "ramp" (.str "duration") 1 2 (1/2)).map (fun s => Dict.keys s.data) =
      .ok [1, 2, 3] ∧
    (makeVaryingSequence exBase [3, 3, 3, 3] exVars).map (fun s => Dict.keys s.data) = .ok [1, 2] ∧
    (repeatAndVarySequence exSeq [3, 3, 3, 3, 3] [1, 2, 2] exVars).map (fun s => Dict.keys s.data) =
      .ok [1, 2, 3, 4] := by decide +kernel

/-- ... and the values are where `makeVarying_values` says: at step 2 the three addressed slots hold
    3, 1/4, 6; an unaddressed slot (argument 0 of `ramp` on channel 2) still holds the base's 0 -/
example :
    (makeVaryingSequence exBase [3, 3, 3, 3] exVars).map (fun s =>
      match Dict.get? s.data 2 with
      | some (.el e) => [G5.readAt e (.int 1, "ramp", .arg 1), G5.readAt e (.int 1, "ramp", .arg 0),
          G5.readAt e (.int 2, "ramp2", .arg 0), G5.readAt e (.int 2, "ramp", .arg 0)]
      | _ => []) =
    .ok [some (.num 3), some (.num (1/4)), some (.num 6), some (.num 0)] := by decide +kernel

/-- "values that keep the element valid": sweeping a duration on one channel only of the two-channel
    element makes the channels unequal at the second value; `addElement` raises ElementDurationError -/
example :
    (makeLinearlyVaryingSequence exBase (.int 1) "ramp" (.str "duration") 1 2 (1/2)).map (fun _ => ()) =
      .error .elemdur := by decide +kernel

/-- mismatched list lengths are rejected with ValueError (non-vacuity of `sweepSteps_mismatch`) -/
example : (makeVaryingSequence exBase [3, 2, 3, 3] exVars).map (fun _ => ()) = .error .value := by decide +kernel

end BB.C17

/-! ## forged output and consistency of the sweep results (group G10) -/

namespace BB.C17
open BB BB.Tools BB.Sequence

/-- **the forged output of `repeatAndVarySequence(seq, …)` is the concatenation of the forged varied
    copies**: let `seq` satisfy the invariant of the public interface (`C16.SeqInv`; `C16.built_inv`)
    and let `temps[m]` be the `m`-th varied copy of `seq` (`repeatAndVary_spec`, `G5.applyStep_spec`).
    If every copy forges, `temps[m].forge(d, f, t) = fts[m]`, and there is at least one step, then the
    returned sequence forges — with the same options — to `fts[0]`, `fts[1]`, … one after the other,
    the positions of the `m`-th copy re-keyed by `m·len(seq)` and its positive goto / jump targets
    moved by as much (`C16.shiftPos`); content of every position (arrays, filters, sub-positions) as
    in the copy.  Clause "repeatAndVarySequence equals the concatenation over m of copies of seq with
    the m-th values applied", at the level of `forge`. -/
theorem repeatAndVary_forge (seq : Sequence) (lens : List Nat) (poss : List ℤ) (vars : List Variation) (r : Sequence)
    (h : repeatAndVarySequence seq lens poss vars = .ok r) (hinv : C16.SeqInv seq) (d f t : Bool) :
    ∃ (M : ℕ) (temps : List Sequence), sweepSteps lens vars = .ok M ∧ temps.length = M ∧
      (∀ i (hi : i < temps.length), applyStep i (poss.zip vars) seq.copy = .ok temps[i]) ∧
      ∀ fts : List (List (ℕ × ForgedPos)), List.Forall₂ (fun tm ft => tm.forge d f t = .ok ft) temps fts → 0 < M →
        r.forge d f t = .ok (fts.mapIdx (fun m ft => ft.map (C16.shiftPos (m * seq.data.length)))).flatten := by
  obtain ⟨M, temps, _, hs, hl, hstep, hfold, _⟩ := repeatAndVary_spec seq lens poss vars r h
  refine ⟨M, temps, hs, hl, hstep, fun fts hf hM => ?_⟩
  have hcons := G10.foldAdd_consistent_operands temps _ r hfold
  obtain ⟨σ, hσ⟩ := G10.temps_sig seq (poss.zip vars) temps hstep hcons
  have hshape : ∀ tm ∈ temps, tm.data.length = seq.data.length ∧ C16.SeqInv tm := by
    intro tm htm
    obtain ⟨i, hi, rfl⟩ := List.getElem_of_mem htm
    exact G10.applyStep_inv i _ seq _ (hstep i hi) hinv
  have := G10.foldAdd_forge_empty temps _ r seq.data.length σ hfold rfl (fun tm htm => (hshape tm htm).1) hσ
    ⟨rfl, hinv.2⟩ (fun tm htm => (hshape tm htm).2) d f t fts hf (by
      intro hnil; rw [hnil] at hl; simp at hl; omega)
  rw [this]
  simp only [G10.shiftedFrom, Nat.zero_add]

/-- **`repeatAndVary_forge` position by position**: every forged copy has `len(seq)` positions, and
    position `m·len(seq) + k + 1` of the forged result (index `m·len(seq) + k`) is position `k + 1`
    of the forged `m`-th varied copy with its label moved by `m·len(seq)` and its positive goto /
    jump target retargeted by as much — same arrays, same filters, same repetitions and triggers -/
theorem repeatAndVary_forge_position (seq : Sequence) (lens : List Nat) (poss : List ℤ) (vars : List Variation)
    (r : Sequence) (h : repeatAndVarySequence seq lens poss vars = .ok r) (hinv : C16.SeqInv seq) (d f t : Bool) :
    ∃ (M : ℕ) (temps : List Sequence), sweepSteps lens vars = .ok M ∧ temps.length = M ∧
      (∀ i (hi : i < temps.length), applyStep i (poss.zip vars) seq.copy = .ok temps[i]) ∧
      ∀ fts : List (List (ℕ × ForgedPos)), List.Forall₂ (fun tm ft => tm.forge d f t = .ok ft) temps fts →
        ∀ m (hm : m < fts.length) k (hk : k < fts[m].length),
          fts[m].length = seq.data.length ∧
          (r.forge d f t).map (fun out => out[m * seq.data.length + k]?) =
            .ok (some (C16.shiftPos (m * seq.data.length) fts[m][k])) := by
  obtain ⟨M, temps, hs, hl, hstep, hall⟩ := repeatAndVary_forge seq lens poss vars r h hinv d f t
  refine ⟨M, temps, hs, hl, hstep, fun fts hf m hm k hk => ?_⟩
  have hlen := G10.forall2_length_eq hf
  have hM : 0 < M := by omega
  have hft : ∀ i (hi : i < fts.length), fts[i].length = seq.data.length := by
    intro i hi
    have hi' : i < temps.length := by omega
    have h1 := G10.forall2_getElem hf i hi' hi
    rw [(forge_pos _ d f t _ h1).1]
    exact (G10.applyStep_inv i _ seq _ (hstep i hi') hinv).1
  refine ⟨hft m hm, ?_⟩
  rw [hall fts hf hM]
  simp only [Except.map]
  congr 1
  rw [G10.flatten_getElem_uniform _ seq.data.length ?_ m k (by rw [← hft m hm]; exact hk)]
  · rw [List.getElem?_mapIdx]
    simp [List.getElem?_eq_getElem hm, List.getElem?_eq_getElem hk]
  · intro l hl'
    obtain ⟨i, hi, rfl⟩ := List.getElem_of_mem hl'
    simp only [List.getElem_mapIdx, List.length_map]
    exact hft i (by simpa using hi)

/-- **the result of `repeatAndVarySequence` is consistent** (`checkConsistency() == True`): every
    varied copy passed the consistency check of `+`, a sweep step changes neither the channel list
    nor the sample rates of an element, so all copies are over the same channels and every `+` of
    the loop returned a consistent sequence (`C16.add_consistent`).  For zero steps the result is
    the empty sequence with `seq`'s settings, which is consistent because `seq` has a sample rate. -/
theorem repeatAndVary_consistent (seq : Sequence) (lens : List Nat) (poss : List ℤ) (vars : List Variation) (r : Sequence)
    (h : repeatAndVarySequence seq lens poss vars = .ok r) : r.checkConsistency = .ok true := by
  obtain ⟨M, temps, hc, hs, hl, hstep, hfold, _⟩ := repeatAndVary_spec seq lens poss vars r h
  have hcons := G10.foldAdd_consistent_operands temps _ r hfold
  obtain ⟨σ, hσ⟩ := G10.temps_sig seq (poss.zip vars) temps hstep hcons
  have h0 : Sequence.checkConsistency ({ awgspecs := seq.awgspecs } : Sequence) = .ok true := by
    obtain ⟨hsr, _⟩ := (C16.consistent_iff seq).mp hc
    rw [C16.consistent_iff]
    exact ⟨hsr, [], [], rfl, rfl, rfl, rfl, gapFree_nil⟩
  exact (G10.foldAdd_consistent temps _ r σ hfold h0 (G10.sig_of_empty _ σ rfl) hσ).1

/-- **`makeVaryingSequence`'s result forges position `j + 1` to the forge of the `j`-th varied element**:
    whenever the returned sequence forges (any options), the output has one entry per step, and entry
    `j` is an element position labelled `j + 1` with the default sequencing entry whose single content
    entry holds the arrays of `varied base vars j` — the base element with every variation's `j`-th
    value applied (`makeVarying_spec`, `makeVarying_values`) — after the delay pass (`delayedEl`:
    the element itself when `d = false`) with the declared filters attached -/
theorem makeVarying_forge (base : Element) (lens : List Nat) (vars : List Variation) (s : Sequence)
    (h : makeVaryingSequence base lens vars = .ok s) (d f t : Bool) (out : List (ℕ × ForgedPos))
    (hf : s.forge d f t = .ok out) :
    ∃ m M, base.validate = .ok m ∧ sweepSteps lens vars = .ok M ∧ out.length = M ∧
      ∀ j (hj : j < out.length), ∃ e' arr c,
        delayedEl s d (varied { base with cache := some m } vars j) = .ok e' ∧ e'.getArrays t = .ok arr ∧
        s.withFilters f arr = .ok c ∧
        out[j] = (j + 1, { sequencing := defaultSeqEl, isSub := false, content := [(1, c, none)] }) := by
  obtain ⟨m, M, hv, hs, hget, _, _⟩ := makeVarying_spec base lens vars s h
  obtain ⟨M', hs', _, hlen, hseq⟩ := makeVarying_keys base lens vars s h
  rw [hs] at hs'
  cases hs'
  obtain ⟨hol, hpos⟩ := forge_pos s d f t out hf
  refine ⟨m, M, hv, hs, by rw [hol, hlen], fun j hj => ?_⟩
  have hjM : j < M := by rw [hol, hlen] at hj; exact hj
  obtain ⟨en, hen, hfp⟩ := hpos j hj
  rw [hget j hjM] at hen
  cases hen
  obtain ⟨e', arr, c, sq, h1, h2, h3, h4, h5⟩ := forgePos_element s d f t (j + 1) _ _ hfp
  have hsq : Dict.get? s.sequencing ((j + 1 : ℕ) : ℤ) = some defaultSeqEl := by
    rw [hseq]
    exact G10.get_const_map _ _ _ ((mem_oneTo M _).mpr (by push_cast; omega))
  rw [hsq] at h4
  cases h4
  exact ⟨e', arr, c, h1, h2, h3, h5⟩

/-! #### non-vacuity -/

/-- the example sequence with a positive goto at its second position -/
def exSeqG : Sequence := (SeqCore.setSequencing exSeq 2 (fun q => { q with goto := 1 })).st

/-- the example sequences are built through the public interface, hence meet the hypothesis
    `C16.SeqInv` of `repeatAndVary_forge` -/
theorem exSeqG_built : C16.Built exSeqG :=
  .setSequencing _ _ _ (.addElement _ _ _ (.addElement _ _ _ (.setSpec _ _ _ .empty)))

example : C16.SeqInv exSeqG := C16.built_inv _ exSeqG_built

/-- the remaining hypotheses of `repeatAndVary_forge` on the example: the tool returns, there are two
    steps, and both varied copies forge -/
example :
    (repeatAndVarySequence exSeqG [3, 3, 3, 3, 3] [1, 2, 2] exVars).toOption.isSome = true ∧
    sweepSteps [3, 3, 3, 3, 3] exVars = .ok 2 ∧
    ((applyStep 0 ([1, 2, 2].zip exVars) exSeqG.copy).bind (fun tm => tm.forge false false false)).toOption.isSome = true ∧
    ((applyStep 1 ([1, 2, 2].zip exVars) exSeqG.copy).bind (fun tm => tm.forge false false false)).toOption.isSome = true := by
  decide +kernel

/-- ... and the conclusion on that instance: four positions; the goto 1 of the copy's second position
    is still 1 in the first copy and has become 3 in the second; the result is consistent -/
example :
    ((repeatAndVarySequence exSeqG [3, 3, 3, 3, 3] [1, 2, 2] exVars).bind (fun s => s.forge false false false)).map
      (fun out => out.map (fun r => (r.1, r.2.sequencing.goto))) = .ok [(1, 0), (2, 1), (3, 0), (4, 3)] ∧
    (repeatAndVarySequence exSeqG [3, 3, 3, 3, 3] [1, 2, 2] exVars).bind Sequence.checkConsistency = .ok true := by
  decide +kernel

/-- the hypothesis of `makeVarying_forge` is satisfiable: the swept sequence forges -/
example : ((makeVaryingSequence exBase [3, 3, 3, 3] exVars).bind (fun s => s.forge true true false)).map List.length =
    .ok 2 := by decide +kernel

/-! ### which swept 'duration' values are accepted (regenerated guard) -/

/-- A swept 'duration' value is applied by `BluePrint.changeDuration`; it is accepted exactly when
    it is a strictly positive number of at least ONE sample period (the forger then needs
    `round(d*SR) >= 2`): values between one and a half and two sample periods keep the element
    valid and are swept, not refused.  This pins the regenerated guard `Gen.durSubSample` inside
    C17's own obligations (a stricter guard in the source breaks this theorem, and the check then
    searches for the refused sweep with the last known good kernels). -/
theorem sweep_duration_value_accepted_iff (b : BP) (name : String) (dur : Val) (all : Bool) :
    (b.changeDuration name dur all).err = none ↔
      ∃ d, dur = .num d ∧ b.names.contains (b.targets name all).1 = true ∧ 0 < d ∧
        (∀ r, b.SR = .num r → 1 ≤ d * r) :=
  C05.changeDuration_accepts_iff b name dur all

/-- the guard itself: below one sample period, whatever the value (7/4 of a period passes) -/
theorem sweep_duration_guard (d r : ℚ) : Gen.durSubSample d r = true ↔ d * r < 1 := by
  simp [Gen.durSubSample]

example : Gen.durSubSample (7 / 400) 100 = false ∧ Gen.durSubSample (1 / 200) 100 = true := by decide +kernel

end BB.C17
