/-
  BB.Proofs.G3Wave — an evaluable waveform has as many samples as `Wave.len` says; `Option`-monad
  `mapM` lemmas (used for the flag tokens of `addFlags`).
-/
import BB.Model.Sequence

namespace BB
namespace G3
open Sequence

theorem optMapM_cons {α β : Type} (f : α → Option β) (a : α) (t : List α) :
    (a :: t).mapM f =
      match f a with
      | none => none
      | some b => match t.mapM f with
        | none => none
        | some bs => some (b :: bs) := by
  rw [List.mapM_cons]
  cases f a <;> simp [bind, Option.bind]
  cases t.mapM f <;> simp [pure]

/-- an accepted token list: as many results as tokens, each the image of its token -/
theorem optMapM_some {α β : Type} (f : α → Option β) (l : List α) (r : List β) (h : l.mapM f = some r) :
    r.length = l.length ∧ (∀ b ∈ r, ∃ a ∈ l, f a = some b) ∧
    (∀ i (hi : i < l.length) (hr : i < r.length), f l[i] = some r[i]) := by
  induction l generalizing r with
  | nil =>
    simp only [List.mapM_nil, pure, Option.some.injEq] at h
    subst h
    exact ⟨rfl, by intro b hb; simp at hb, by intro i hi; simp at hi⟩
  | cons a t ih =>
    rw [optMapM_cons] at h
    cases hfa : f a with
    | none => rw [hfa] at h; cases h
    | some b =>
      rw [hfa] at h
      simp only at h
      cases ht : t.mapM f with
      | none => rw [ht] at h; cases h
      | some bs =>
        rw [ht] at h
        simp only [Option.some.injEq] at h
        subst h
        obtain ⟨i1, i2, i3⟩ := ih bs ht
        refine ⟨by simp [i1], ?_, ?_⟩
        · intro b' hb'
          rcases List.mem_cons.mp hb' with rfl | hb'
          · exact ⟨a, by simp, hfa⟩
          · obtain ⟨a', ha', hfa'⟩ := i2 b' hb'
            exact ⟨a', by simp [ha'], hfa'⟩
        · intro i hi hr
          cases i with
          | zero => simpa using hfa
          | succ i => simpa using i3 i (by simpa using hi) (by simpa using hr)

/-- a token list is refused exactly when one of its tokens is -/
theorem optMapM_none_iff {α β : Type} (f : α → Option β) (l : List α) :
    l.mapM f = none ↔ ∃ a ∈ l, f a = none := by
  induction l with
  | nil => simp [List.mapM_nil, pure]
  | cons a t ih =>
    rw [optMapM_cons]
    cases hfa : f a with
    | none => simp [hfa]
    | some b =>
      simp only
      cases ht : t.mapM f with
      | none =>
        simp only [true_iff]
        obtain ⟨x, hx, hfx⟩ := ih.mp ht
        exact ⟨x, by simp [hx], hfx⟩
      | some bs =>
        simp only [reduceCtorEq, false_iff]
        rintro ⟨x, hx, hfx⟩
        rcases List.mem_cons.mp hx with rfl | hx
        · rw [hfa] at hfx; cases hfx
        · have := ih.mpr ⟨x, hx, hfx⟩
          rw [ht] at this; cases this

theorem blk_eval_length (b : Blk) (xs : List Rat) (h : b.eval? = some xs) : xs.length = b.len := by
  unfold Blk.eval? at h
  split at h
  · simp only [Option.some.injEq] at h; subst h; rfl
  · split at h
    · simp only [Option.some.injEq] at h; subst h; simp [Blk.len]
    · simp only [Option.some.injEq] at h; subst h; simp [Blk.len]
    · cases h

theorem blocks_eval_length (bs : List Blk) (ls : List (List Rat)) (h : bs.mapM Blk.eval? = some ls) :
    ls.flatten.length = sumN (bs.map Blk.len) := by
  induction bs generalizing ls with
  | nil =>
    simp only [List.mapM_nil, pure, Option.some.injEq] at h
    subst h; rfl
  | cons b t ih =>
    rw [optMapM_cons] at h
    cases hb : b.eval? with
    | none => rw [hb] at h; cases h
    | some xs =>
      rw [hb] at h
      simp only at h
      cases ht : t.mapM Blk.eval? with
      | none => rw [ht] at h; cases h
      | some r =>
        rw [ht] at h
        simp only [Option.some.injEq] at h
        subst h
        simp only [List.flatten_cons, List.length_append, List.map_cons, sumN]
        rw [ih r ht, blk_eval_length b xs hb]

/-- the samples the model computes for a waveform are as many as `Wave.len` says -/
theorem wave_eval_length (w : Wave) (xs : List Rat) (h : w.eval? = some xs) : xs.length = w.len := by
  unfold Wave.eval? at h
  split at h
  · cases h
  · cases hm : w.blocks.mapM Blk.eval? with
    | none => rw [hm] at h; cases h
    | some ls =>
      rw [hm] at h
      simp only [Option.map_some, Option.some.injEq] at h
      subst h
      exact blocks_eval_length _ _ hm

end G3
end BB
