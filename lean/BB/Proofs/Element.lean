/-
  BB.Proofs.Element — lemmas about the element model: validation stages, points vs forged length.
-/
import BB.Proofs.Forge
import BB.Model.Element
import BB.Proofs.Basic

namespace BB
namespace Element

theorem allSame_iff {α} [DecidableEq α] (x : α) (xs : List α) :
    allSame (x :: xs) = true ↔ ∀ y ∈ xs, y = x := by
  simp [allSame]

theorem allSame_getElem {α} [DecidableEq α] (l : List α) (h : allSame l = true) (i j : Nat)
    (hi : i < l.length) (hj : j < l.length) : l[i] = l[j] := by
  cases l with
  | nil => simp at hi
  | cons x xs =>
    have hall := (allSame_iff x xs).mp h
    have key : ∀ k (hk : k < (x :: xs).length), (x :: xs)[k] = x := by
      intro k hk
      cases k with
      | zero => rfl
      | succ k => exact hall _ (List.getElem_mem _)
    rw [key i hi, key j hj]

theorem absR_eq_abs (x : ℚ) : absR x = |x| := by
  unfold absR
  split
  · rename_i h; rw [abs_of_neg h]
  · rename_i h; rw [abs_of_nonneg (not_lt.mp h)]

/-- **Stage 2 never fires on its own**: if all channels have the same sample rate `s ≥ 1` and the
    same number of points `n`, where each channel's point count is its duration times `s` rounded,
    then the durations pass `numpy.allclose(durations, durations[0], atol = s)`. -/
theorem allClose_of_same_points (durs : List ℚ) (s : ℚ) (n : ℤ) (hs : 1 ≤ s)
    (hlink : ∀ d ∈ durs, rhe (d * s) = n) : allClose durs s = true := by
  cases durs with
  | nil => rfl
  | cons d0 ds =>
    simp only [allClose, List.all_eq_true, decide_eq_true_eq]
    intro d hd
    have h0 := hlink d0 (by simp)
    have h1 := hlink d hd
    have e0 := rhe_err (d0 * s)
    have e1 := rhe_err (d * s)
    rw [h0] at e0; rw [h1] at e1
    rw [abs_le] at e0 e1
    rw [absR_eq_abs, absR_eq_abs]
    have hspos : 0 < s := by linarith
    have hdiff : |d - d0| * s ≤ 1 := by
      rw [← abs_of_pos hspos, ← abs_mul, abs_le]
      constructor <;> nlinarith [e0.1, e0.2, e1.1, e1.2]
    have : |d - d0| ≤ 1 := by
      by_contra hc
      push_neg at hc
      nlinarith
    have hrt : 0 ≤ Gen.allcloseRtol * |d0| := by
      apply mul_nonneg
      · unfold Gen.allcloseRtol; norm_num
      · exact abs_nonneg _
    linarith

/-- ... so that validation succeeds iff sample rates and point counts agree, and fails with
    ElementDurationError otherwise. -/
theorem validate_iff (e : Element) (srs : List Val) (durs : List ℚ) (npts : List ℤ) (s : ℚ)
    (hne : (Dict.vals e.chans).isEmpty = false)
    (h1 : (Dict.vals e.chans).mapM chanSR = .ok srs)
    (h2 : (Dict.vals e.chans).mapM chanDuration = .ok durs)
    (h3 : (Dict.vals e.chans).mapM chanPoints = .ok npts)
    (hat : allSame srs = true → atolOf srs = .ok s ∧ 1 ≤ s ∧
      ∀ i (hi : i < durs.length) (hj : i < npts.length), npts[i] = rhe (durs[i] * s)) :
    ((∃ m, e.validate = .ok m) ↔ (allSame srs = true ∧ allSame npts = true)) ∧
    ((¬ (allSame srs = true ∧ allSame npts = true)) → e.validate = .error .elemdur) := by
  unfold validate
  simp only [hne, Bool.false_eq_true, if_false, h1, h2, h3]
  by_cases hsr : allSame srs = true
  · obtain ⟨hatol, hs, hlink⟩ := hat hsr
    simp only [hsr, Bool.not_true, Bool.false_eq_true, if_false, hatol, true_and]
    by_cases hp : allSame npts = true
    · -- stage 2 passes because stage 3 does
      have hlen1 := mapM_ok_length _ _ _ h2
      have hlen3 := mapM_ok_length _ _ _ h3
      have hclose : allClose durs s = true := by
        cases hnp : npts with
        | nil =>
          have : durs.length = 0 := by rw [hlen1, ← hlen3, hnp]; rfl
          have : durs = [] := List.eq_nil_of_length_eq_zero this
          subst this; rfl
        | cons n ns =>
          apply allClose_of_same_points durs s n hs
          intro d hd
          obtain ⟨i, hi, rfl⟩ := List.getElem_of_mem hd
          have hj : i < npts.length := by omega
          have h0 : 0 < npts.length := by omega
          rw [← hlink i hi hj, allSame_getElem npts hp i 0 hj h0]
          simp [hnp]
      simp [hclose, hp]
    · simp only [hp, Bool.false_eq_true, and_false, iff_false, not_exists, not_false_eq_true, forall_true_left]
      constructor
      · intro m; split <;> simp
      · split <;> simp
  · simp [hsr]

end Element
end BB
