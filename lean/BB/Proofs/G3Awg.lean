/-
  BB.Proofs.G3Awg — inversion of `outputForAWGFile` / `outputForSEQXFile` into their phases,
  generic `mapM` lemmas for "first failure wins", and the shape of `transpose`.
-/
import BB.Proofs.G3Prep

namespace BB
namespace G3
open Sequence Element

/-! ### generic `mapM` lemmas -/

theorem mapM_ok_of_forall_ex {α β : Type} (f : α → Except Err β) (l : List α)
    (h : ∀ x ∈ l, ∃ y, f x = .ok y) : ∃ r, l.mapM f = .ok r := by
  induction l with
  | nil => exact ⟨[], rfl⟩
  | cons a t ih =>
    obtain ⟨y, hy⟩ := h a (by simp)
    obtain ⟨r, hr⟩ := ih (fun x hx => h x (by simp [hx]))
    exact ⟨y :: r, by rw [mapM_cons_eq, hy, hr]⟩

/-- if every call returns or raises `e`, so does the loop -/
theorem mapM_ok_or_error {α β : Type} (f : α → Except Err β) (l : List α) (e : Err)
    (h : ∀ x ∈ l, (∃ y, f x = .ok y) ∨ f x = .error e) : (∃ r, l.mapM f = .ok r) ∨ l.mapM f = .error e := by
  induction l with
  | nil => exact .inl ⟨[], rfl⟩
  | cons a t ih =>
    rw [mapM_cons_eq]
    rcases h a (by simp) with ⟨y, hy⟩ | hy
    · rw [hy]
      rcases ih (fun x hx => h x (by simp [hx])) with ⟨r, hr⟩ | hr
      · rw [hr]; exact .inl ⟨y :: r, rfl⟩
      · rw [hr]; exact .inr rfl
    · rw [hy]; exact .inr rfl

/-- if every call returns or raises `e`, and one call raises `e`, the loop raises `e` -/
theorem mapM_error_of {α β : Type} (f : α → Except Err β) (l : List α) (e : Err)
    (h1 : ∀ x ∈ l, (∃ y, f x = .ok y) ∨ f x = .error e) (h2 : ∃ x ∈ l, f x = .error e) :
    l.mapM f = .error e := by
  rcases mapM_ok_or_error f l e h1 with ⟨r, hr⟩ | hr
  · obtain ⟨x, hx, hfx⟩ := h2
    obtain ⟨b, _, hb⟩ := mapM_mem f l r hr x hx
    rw [hfx] at hb; cases hb
  · exact hr

/-- a loop that raises `e`: one of the calls raised `e` -/
theorem mapM_error_mem {α β : Type} (f : α → Except Err β) (l : List α) (e : Err) (h : l.mapM f = .error e) :
    ∃ x ∈ l, f x = .error e := by
  induction l with
  | nil => simp [List.mapM_nil, pure, Except.pure] at h
  | cons a t ih =>
    rw [mapM_cons_eq] at h
    cases hfa : f a with
    | error e' =>
      rw [hfa] at h
      simp only [Except.error.injEq] at h
      subst h
      exact ⟨a, by simp, hfa⟩
    | ok b =>
      rw [hfa] at h
      simp only at h
      cases ht : t.mapM f with
      | error e' =>
        rw [ht] at h
        simp only [Except.error.injEq] at h
        subst h
        obtain ⟨x, hx, hfx⟩ := ih ht
        exact ⟨x, by simp [hx], hfx⟩
      | ok bs => rw [ht] at h; cases h

/-- every entry of the result of a loop was returned by one of the calls -/
theorem mapM_result_mem {α β : Type} (f : α → Except Err β) (l : List α) (r : List β) (h : l.mapM f = .ok r)
    (b : β) (hb : b ∈ r) : ∃ a ∈ l, f a = .ok b := by
  obtain ⟨i, hi, rfl⟩ := List.getElem_of_mem hb
  have hl := mapM_ok_length f l r h
  exact ⟨l[i]'(by omega), List.getElem_mem _, mapM_ok_getElem f l r h i (by omega) hi⟩

theorem mem_zip_range {α : Type} (P : List α) (x : α × Nat) (hx : x ∈ P.zip (List.range P.length)) :
    ∃ (p : Nat) (hp : p < P.length), x = (P[p], p) := by
  obtain ⟨k, hk, rfl⟩ := List.getElem_of_mem hx
  have hk' : k < P.length := by simp at hk; exact hk
  exact ⟨k, hk', by simp⟩

theorem zip_range_mem {α : Type} (P : List α) (p : Nat) (hp : p < P.length) :
    (P[p], p) ∈ P.zip (List.range P.length) := by
  have hk : p < (P.zip (List.range P.length)).length := by simp; exact hp
  have := List.getElem_mem hk
  simpa using this

/-! ### `transpose` -/

theorem filterMap_getElem_length {α : Type} (rows : List (List α)) (i n : Nat) (hi : i < n)
    (hall : ∀ r ∈ rows, r.length = n) : (rows.filterMap (fun r => r[i]?)).length = rows.length := by
  induction rows with
  | nil => rfl
  | cons r rs ih =>
    have hr : i < r.length := by rw [hall r (by simp)]; exact hi
    simp only [List.filterMap_cons, List.getElem?_eq_getElem hr, List.length_cons]
    rw [ih (fun r' hr' => hall r' (by simp [hr']))]

theorem transpose_length {α : Type} (n : Nat) (rows : List (List α)) : (transpose n rows).length = n := by
  simp [transpose]

theorem transpose_row_length {α : Type} (n : Nat) (rows : List (List α)) (hall : ∀ r ∈ rows, r.length = n)
    (col : List α) (hc : col ∈ transpose n rows) : col.length = rows.length := by
  unfold transpose at hc
  obtain ⟨i, hi, rfl⟩ := List.mem_map.mp hc
  exact filterMap_getElem_length rows i n (by simpa using hi) hall

/-! ### inversion of `outputForAWGFile` -/

/-- the phases of a returning `outputForAWGFile` -/
theorem awg_inv (s : Sequence) (d : Deferred AWGPkg) (h : s.outputForAWGFile = .ok d) :
    ∃ P chans checked,
      s.prepareForOutputting = .ok P ∧ s.channels = .ok chans ∧
      (∀ ch ∈ chans, Dict.has s.awgspecs (keyOf ch "offset") = true) ∧
      (P.zip (List.range P.length)).mapM (fun p => chans.mapM (awgCheckWave s (p.2 + 1) p.1)) = .ok checked ∧
      d.obligations = (checked.map (fun row => (row.map (·.1)).flatten)).flatten ∧
      ((∃ er, (P.zip (List.range P.length)).mapM (awgRow s chans (P.length : Int)) = .error er ∧
          d.obligations ≠ [] ∧ d.thenErr = some er ∧ d.pkg = none) ∨
       (∃ rows, (P.zip (List.range P.length)).mapM (awgRow s chans (P.length : Int)) = .ok rows ∧
          d.thenErr = none ∧
          d.pkg = some (awgPackage chans chans.length (checked.map (fun row => row.map (·.2))) rows))) := by
  unfold outputForAWGFile at h
  split at h
  · cases h
  · rename_i P hP
    obtain ⟨en, chans, _, _, _, hcc, hen, hchans, _⟩ := prepare_inv s P hP
    have hch : s.channels = .ok chans := by rw [channels_of_consistent s en hcc hen, hchans]
    rw [hen] at h
    simp only [hchans] at h
    split at h
    · cases h
    · rename_i hoffs
      split at h
      · cases h
      · rename_i checked hchecked
        refine ⟨P, chans, checked, hP, hch, ?_, hchecked, ?_⟩
        · intro ch hm
          simp only [List.any_eq_true, not_exists, not_and, Bool.not_eq_true'] at hoffs
          simpa using hoffs ch hm
        · split at h
          · rename_i er hrows
            split at h
            · cases h
            · rename_i hne
              cases h
              refine ⟨rfl, .inl ⟨er, hrows, ?_, rfl, rfl⟩⟩
              intro he
              apply hne
              simp only at he
              simp [he]
          · rename_i rows hrows
            rw [hch] at h
            simp only [Except.ok.injEq] at h
            subst h
            exact ⟨rfl, .inr ⟨rows, hrows, rfl, rfl⟩⟩

/-- one row of phase 2, inverted -/
theorem awgRow_inv (s : Sequence) (chans : List Chan) (N : Int) (p : Dict Chan ChOutF × Nat)
    (r : List (List Rat) × List (List Rat) × SeqSet) (h : awgRow s chans N p = .ok r) :
    chans.mapM (fun ch => match lookupCh p.1 ch with | .error e => Except.error e | .ok c => chMarker c 1) = .ok r.1 ∧
    chans.mapM (fun ch => match lookupCh p.1 ch with | .error e => Except.error e | .ok c => chMarker c 2) = .ok r.2.1 ∧
    Dict.get? s.sequencing ((p.2 + 1 : Nat) : Int) = some r.2.2 ∧ awgSeqCheck r.2.2 N = .ok () := by
  unfold awgRow at h
  split at h
  · cases h
  · rename_i m1 hm1
    split at h
    · cases h
    · rename_i m2 hm2
      split at h
      · cases h
      · rename_i q hq
        split at h
        · cases h
        · rename_i hchk
          simp only [Except.ok.injEq] at h
          subst h
          exact ⟨hm1, hm2, hq, hchk⟩

/-! ### inversion of `outputForSEQXFile` -/

theorem seqx_inv (s : Sequence) (d : Deferred SEQXPkg) (h : s.outputForSEQXFile = .ok d) :
    ∃ P chans amps,
      s.prepareForOutputting = .ok P ∧ s.channels = .ok chans ∧
      chans.mapM (fun ch => match s.specNum (keyOf ch "amplitude") with | some q => Except.ok q | none => .error Err.type) = .ok amps ∧
      seqxPhase1 P chans amps = .ok d.obligations ∧
      ((∃ er, (P.zip (List.range P.length)).mapM (seqxRow s chans (P.length : Int)) = .error er ∧
          d.obligations ≠ [] ∧ d.thenErr = some er ∧ d.pkg = none) ∨
       (∃ rows, (P.zip (List.range P.length)).mapM (seqxRow s chans (P.length : Int)) = .ok rows ∧
          d.thenErr = none ∧ d.pkg = some (seqxPackage s chans.length amps rows))) := by
  unfold outputForSEQXFile at h
  split at h
  · cases h
  · rename_i P hP
    obtain ⟨en, chans, _, _, _, hcc, hen, hchans, _⟩ := prepare_inv s P hP
    have hch : s.channels = .ok chans := by rw [channels_of_consistent s en hcc hen, hchans]
    rw [hen] at h
    simp only [hchans] at h
    split at h
    · cases h
    · rename_i amps hamps
      split at h
      · cases h
      · rename_i obs hobs
        refine ⟨P, chans, amps, hP, hch, hamps, ?_⟩
        split at h
        · rename_i er hrows
          split at h
          · cases h
          · rename_i hne
            cases h
            refine ⟨hobs, .inl ⟨er, hrows, ?_, rfl, rfl⟩⟩
            intro he
            apply hne
            simp only at he
            simp [he]
        · rename_i rows hrows
          simp only [Except.ok.injEq] at h
          subst h
          exact ⟨hobs, .inr ⟨rows, hrows, rfl, rfl⟩⟩

/-- the amplitudes collected by `outputForSEQXFile` are the numeric amplitude settings, channel by channel -/
theorem amps_spec (s : Sequence) (chans : List Chan) (amps : List Rat)
    (h : chans.mapM (fun ch => match s.specNum (keyOf ch "amplitude") with | some q => Except.ok q | none => .error Err.type) = .ok amps) :
    amps.length = chans.length ∧
    ∀ i (hi : i < chans.length) (hi' : i < amps.length), s.specNum (keyOf chans[i] "amplitude") = some amps[i] := by
  have hl := mapM_ok_length _ _ _ h
  refine ⟨hl, ?_⟩
  intro i hi hi'
  have := mapM_ok_getElem _ _ _ h i hi hi'
  split at this
  · rename_i q hq
    simp only [Except.ok.injEq] at this
    rw [hq, this]
  · cases this

/-- one row of SEQX phase 2, inverted -/
theorem seqxRow_inv (s : Sequence) (chans : List Chan) (N : Int) (p : Dict Chan ChOutF × Nat)
    (r : List (Wave × List Rat × List Rat) × SeqSet) (h : seqxRow s chans N p = .ok r) :
    chans.mapM (seqxCell p.1) = .ok r.1 ∧
    Dict.get? s.sequencing ((p.2 + 1 : Nat) : Int) = some r.2 ∧ seqxSeqCheck r.2 N = .ok () := by
  unfold seqxRow at h
  split at h
  · cases h
  · rename_i row hrow
    split at h
    · cases h
    · rename_i q hq
      split at h
      · cases h
      · rename_i hchk
        simp only [Except.ok.injEq] at h
        subst h
        exact ⟨hrow, hq, hchk⟩

/-- `Dict.has` in terms of `Dict.get?` -/
theorem has_of_lookup_some {κ α : Type} [DecidableEq κ] (d : Dict κ α) (k : κ) (v : α) (h : Dict.get? d k = some v) :
    Dict.has d k = true := by
  have := Dict.mem_of_get?_eq_some k v h
  unfold Dict.has
  simp only [List.any_eq_true, decide_eq_true_eq]
  exact ⟨(k, v), this, rfl⟩

theorem has_of_specNum (s : Sequence) (k : String) (q : Rat) (h : s.specNum k = some q) :
    Dict.has s.awgspecs k = true := by
  unfold SeqCore.specNum at h
  split at h
  · rename_i hg; exact has_of_lookup_some _ _ _ hg
  · cases h

theorem toOption_eq_some {ε α : Type} (x : Except ε α) (v : α) (h : x.toOption = some v) : x = .ok v := by
  cases x with
  | error e => cases h
  | ok w => simp only [Except.toOption, Option.some.injEq] at h; rw [h]

end G3
end BB
