/-
  BB.Proofs.G8Shaped — the shape invariant on `Heap.State` and how the three ways of making a
  call (`derive`, `act`, `query`) preserve it.
-/
import BB.Proofs.G8Tools2

namespace BB.Heap

/-! ### the invariant -/

/-- what a user-held variable points to: a blueprint, an element, or a sequence whose stored
    subsequences hold elements only (the cells below are constrained by `Typed`) -/
def Root (h : Heap) (x : Addr) : Prop :=
  ∃ c : Cell, h[x]? = some c ∧ (c.kind = .bpObj ∨ c.kind = .elObj ∨ (c.kind = .sqObj ∧ SubsFlat h x))

/-- **the shape invariant**: the ownership invariant `Inv` (closed heap, owners handed out, live
    and separated variables), every cell holds what its kind allows (`Typed`: kinds of the cells
    its slots reference, fixed attribute keys), every variable points to a BluePrint / Element /
    Sequence whose nesting is bounded, variable names are unique, and no call has faulted -/
structure Shaped (st : State) : Prop where
  inv : Inv st
  typed : Typed st.heap
  names : (st.vars.map (·.1)).Nodup
  roots : ∀ p ∈ st.vars, Root st.heap p.2
  nofault : st.fault = false

theorem Shaped.good {st : State} (s : Shaped st) : Good st.heap := ⟨s.inv.closed, s.typed⟩

/-- **the empty state is shaped** -/
theorem shaped_init : Shaped {} :=
  ⟨inv_init, fun a c hc => by simp at hc, by simp, fun p hp => by simp at hp, rfl⟩

/-! ### cells of an owner that a run left alone -/

/-- no cell of owner `o` (validation caches aside) was rewritten -/
def Untouched (o : Owner) (h h' : Heap) : Prop :=
  ∀ (a : Addr) (c : Cell), h[a]? = some c → c.owner = o → c.kind ≠ .cache → h'[a]? = some c

theorem untouched_of_ext {r o : Owner} {h h' : Heap} (e : Ext r h h') (hne : o ≠ r) : Untouched o h h' := by
  intro a c hc ho hk
  obtain ⟨c', hc', h1, h2, h3⟩ := e.old a c hc
  have hw : writable r c = false := by
    have : (c.owner == r) = false := by rw [ho]; simpa using hne
    have hk' : (c.kind == Kind.cache) = false := by simpa using hk
    simp [writable, this, hk']
  have : c' = c := by
    cases c; cases c'
    simp only at h1 h2
    subst h1; subst h2
    simp only [Cell.mk.injEq, true_and]
    exact h3 hw
  rw [hc', this]

theorem untouched_of_pure {o : Owner} {h h' : Heap} (e : PureExt h.length h h') : Untouched o h h' := by
  intro a c hc _ hk
  obtain ⟨c', hc', h1, h2, h3⟩ := e a c hc (lt_of_get hc)
  have : c' = c := by
    cases c; cases c'
    simp only at h1 h2
    subst h1; subst h2
    simp only [Cell.mk.injEq, true_and]
    exact h3 hk
  rw [hc', this]

/-- a store or sequence object held by a cell of a store or sequence object belongs to the same owner -/
theorem seq_ref_owner {h : Heap} (hg : Good h) {a : Addr} {c : Cell} (hc : h[a]? = some c) {key : String} {b : Addr}
    (hm : (key, Slot.ref b) ∈ c.slots) {cb : Cell} (hcb : h[b]? = some cb) (hk : cb.kind.isSeq = true) :
    cb.owner = c.owner := by
  obtain ⟨cb2, x1, _, x3⟩ := good_ref hg hc hm
  rw [hcb] at x1; cases x1
  rcases x3 with hf | ho
  · revert hk hf; cases cb.kind <;> simp [Kind.isSeq, Kind.frozen]
  · exact ho

theorem FlatSeq.untouched {o : Owner} {h h' : Heap} (kp : Keeps h h') (hg : Good h) (u : Untouched o h h')
    {b : Addr} {cb : Cell} (hcb : h[b]? = some cb) (hkb : cb.kind = .sqObj) (ho : cb.owner = o)
    (hf : FlatSeq h b) : FlatSeq h' b := by
  have hcb' : h'[b]? = some cb := u b cb hcb ho (by rw [hkb]; decide)
  apply hf.keep kp hg hcb hcb'
  intro db cdb hm hcdb
  obtain ⟨cdb2, y1, y2⟩ := sq_data_kind hg hcb hkb hm
  rw [hcdb] at y1; cases y1
  have := seq_ref_owner hg hcb hm hcdb (by rw [y2]; rfl)
  exact u db cdb hcdb (this.trans ho) (by rw [y2]; decide)

theorem SubsFlat.untouched {o : Owner} {h h' : Heap} (kp : Keeps h h') (hg : Good h) (u : Untouched o h h')
    {s : Addr} {cs : Cell} (hcs : h[s]? = some cs) (hks : cs.kind = .sqObj) (ho : cs.owner = o)
    (hf : SubsFlat h s) : SubsFlat h' s := by
  have hcs' : h'[s]? = some cs := u s cs hcs ho (by rw [hks]; decide)
  intro cs2 d cd' hcs2 hm hcd' ks hks' b cb' hb hcb' hkb'
  rw [hcs'] at hcs2; cases hcs2
  obtain ⟨cd, hcd, hkd⟩ := sq_data_kind hg hcs hks hm
  have hod : cd.owner = o := (seq_ref_owner hg hcs hm hcd (by rw [hkd]; rfl)).trans ho
  rw [u d cd hcd hod (by rw [hkd]; decide)] at hcd'; cases hcd'
  have hmb : (ks.1, Slot.ref b) ∈ cd'.slots := by rw [← hb]; exact hks'
  obtain ⟨cb, hcb, _, _⟩ := good_ref hg hcd hmb
  obtain ⟨cb2, x1, x2, _⟩ := kp b cb hcb
  rw [hcb'] at x1; cases x1
  have hkb : cb.kind = .sqObj := by rw [← x2]; exact hkb'
  have hob : cb.owner = o := (seq_ref_owner hg hcd hmb hcb (by rw [hkb]; rfl)).trans hod
  exact (hf cs d cd' hcs hm hcd ks hks' b cb hb hcb hkb).untouched kp hg u hcb hkb hob

/-- a variable's object keeps its shape when no cell of its owner was rewritten -/
theorem Root.untouched {o : Owner} {h h' : Heap} (kp : Keeps h h') (hg : Good h) (u : Untouched o h h')
    {x : Addr} {c : Cell} (hc : h[x]? = some c) (ho : c.owner = o) (hr : Root h x) : Root h' x := by
  obtain ⟨c0, hc0, hk⟩ := hr
  rw [hc] at hc0; cases hc0
  obtain ⟨c', hc', hk', _⟩ := kp x c hc
  refine ⟨c', hc', ?_⟩
  rw [hk']
  rcases hk with hk | hk | ⟨hk, hf⟩
  · exact Or.inl hk
  · exact Or.inr (Or.inl hk)
  · exact Or.inr (Or.inr ⟨hk, hf.untouched kp hg u hc hk ho⟩)

/-! ### names -/

theorem lookup_of_mem_nodup {vars : List (String × Addr)} (hn : (vars.map (·.1)).Nodup) {k : String} {v : Addr}
    (hm : (k, v) ∈ vars) : vars.lookup k = some v := by
  induction vars with
  | nil => simp at hm
  | cons p ps ih =>
    obtain ⟨k', v'⟩ := p
    simp only [List.map_cons, List.nodup_cons] at hn
    simp only [List.mem_cons, Prod.mk.injEq] at hm
    simp only [List.lookup]
    rcases hm with ⟨h1, h2⟩ | hm
    · subst h1; subst h2; simp
    · have hne : k ≠ k' := by
        intro heq; subst heq
        exact hn.1 (List.mem_map.mpr ⟨(k, v), hm, rfl⟩)
      have : (k == k') = false := by simpa using hne
      simp only [this]
      exact ih hn.2 hm

theorem nodup_setVar {vars : List (String × Addr)} (hn : (vars.map (·.1)).Nodup) (k : String) (v : Addr) :
    ((setVar vars k v).map (·.1)).Nodup := by
  unfold setVar
  rw [List.map_append, List.nodup_append]
  refine ⟨?_, by simp, ?_⟩
  · exact (hn.sublist ((List.filter_sublist).map _))
  · intro a ha b hb
    simp only [List.map_cons, List.map_nil, List.mem_singleton] at hb
    subst hb
    rw [List.mem_map] at ha
    obtain ⟨p, hp, hpa⟩ := ha
    rw [List.mem_filter] at hp
    intro heq
    have := hp.2
    simp only [decide_eq_true_eq] at this
    exact this (hpa.trans heq)

/-! ### the three kinds of call -/

/-- **a deriving call** whose program runs, on the fresh owner, to a fresh well-shaped object
    keeps the state shaped (and does not fault) -/
theorem shaped_derive {st : State} (hs : Shaped st) (name : String) (p : Prog Addr)
    (hr : Runs 0 st.nroots p st.heap (fun a h' => st.heap.length ≤ a ∧ Typed h' ∧ Root h' a)) :
    Shaped (st.derive name p) := by
  obtain ⟨a, h', hx, hfresh, htyped, hroot⟩ := hr
  have hinv := inv_derive st name p hs.inv
  have e := exec_ext _ p _ _ _ hx
  have ha : a < h'.length := by obtain ⟨c, hc, _⟩ := hroot; exact lt_of_get hc
  have hst : st.derive name p = { st with heap := h', nroots := st.nroots + 1, vars := setVar st.vars name a } := by
    unfold State.derive
    have hx' : exec st.nroots p st.heap = some (a, h') := hx
    simp only [hx']
    rw [if_pos ⟨hfresh, ha⟩]
  rw [hst] at hinv ⊢
  refine ⟨hinv, htyped, nodup_setVar hs.names name a, ?_, hs.nofault⟩
  intro q hq
  rcases mem_setVar hq with h1 | h1
  · subst h1; exact hroot
  · obtain ⟨cq, hcq⟩ := hs.inv.live q h1.1
    have hne : cq.owner ≠ st.nroots := Nat.ne_of_lt (hs.inv.owners q.2 cq hcq)
    exact Root.untouched e.keeps hs.good (untouched_of_ext e hne) hcq rfl (hs.roots q h1.1)

/-- **a mutating call** on the variable `t` whose program runs, on the owner of the object, to a
    well-typed heap in which the object is still well-shaped keeps the state shaped -/
theorem shaped_act {st : State} (hs : Shaped st) (t : String) (p : Addr → Prog Unit) {x : Addr} {c : Cell}
    (hl : st.vars.lookup t = some x) (hc : st.heap[x]? = some c)
    (hr : Runs 0 c.owner (p x) st.heap (fun _ h' => Typed h' ∧ Root h' x)) :
    Shaped (st.call (.act t p)) := by
  obtain ⟨u, h', hx, htyped, hroot⟩ := hr
  have hinv := inv_call st (.act t p) hs.inv
  have e := exec_ext _ (p x) _ _ _ hx
  have hst : st.call (.act t p) = { st with heap := h' } := by
    have hx' : exec c.owner (p x) st.heap = some (u, h') := hx
    simp only [State.call, hl, State.act, hc, hx']
  rw [hst] at hinv ⊢
  refine ⟨hinv, htyped, hs.names, ?_, hs.nofault⟩
  intro q hq
  by_cases hqt : q.1 = t
  · have : st.vars.lookup q.1 = some q.2 := lookup_of_mem_nodup hs.names hq
    rw [hqt, hl] at this
    cases this
    exact hroot
  · obtain ⟨cq, hcq⟩ := hs.inv.live q hq
    have hne : cq.owner ≠ c.owner := by
      have := hs.inv.apart q hq (t, x) (mem_of_lookup hl) hqt
      simpa [ownerAt, hcq, hc] using this
    exact Root.untouched e.keeps hs.good (untouched_of_ext e hne) hcq rfl (hs.roots q hq)

/-- **a read-only call** on the variable `t` whose program runs (allowed to write only what it
    allocated and validation caches) to a well-typed heap keeps the state shaped -/
theorem shaped_query {st : State} (hs : Shaped st) (t : String) (p : Addr → Prog Unit) {x : Addr} {c : Cell}
    (hl : st.vars.lookup t = some x) (hc : st.heap[x]? = some c)
    (hr : Runs st.heap.length c.owner (p x) st.heap (fun _ h' => Typed h')) :
    Shaped (st.call (.query t p)) := by
  obtain ⟨u, h', hx, htyped⟩ := hr
  have hinv := inv_call st (.query t p) hs.inv
  have e := execB_ext _ _ (p x) _ _ _ hx
  have hp := execB_pure _ _ (p x) _ _ _ hx
  have hst : st.call (.query t p) = { st with heap := h' } := by
    simp only [State.call, hl, State.query, hc, hx]
  rw [hst] at hinv ⊢
  refine ⟨hinv, htyped, hs.names, ?_, hs.nofault⟩
  intro q hq
  obtain ⟨cq, hcq⟩ := hs.inv.live q hq
  exact Root.untouched e.keeps hs.good (untouched_of_pure hp) hcq rfl (hs.roots q hq)

end BB.Heap
