/-
  BB.Proofs.DFT — the algebra of `np.real(ifft(fft(signal) * H))` on `ZMod N → ℂ`, with
  Mathlib's discrete Fourier transform `ZMod.dft` (`𝓕`) and its inverse (`𝓕⁻`).

  numpy's `fft` is `𝓕` (kernel `exp(-2πi jk/N)`), `ifft` is `𝓕⁻` (with the `1/N`); both facts are
  the trusted reading of numpy (DESIGN.md §6).
-/
import Mathlib.Analysis.Fourier.ZMod
import Mathlib.Analysis.RCLike.Basic

namespace BB.DFT
open ZMod Complex ComplexConjugate
variable {N : ℕ} [NeZero N]

theorem dft_conj (x : ZMod N → ℂ) (k : ZMod N) :
    𝓕 (fun j => conj (x j)) k = conj (𝓕 x (-k)) := by
  simp only [dft_apply, smul_eq_mul, map_sum, map_mul]
  refine Finset.sum_congr rfl fun j _ => ?_
  congr 1
  rw [← AddChar.map_neg_eq_conj]
  congr 1; ring

/-- a signal is real -/
def IsReal (x : ZMod N → ℂ) : Prop := ∀ j, conj (x j) = x j

/-- x real ⇒ spectrum Hermitian -/
theorem dft_real_herm (x : ZMod N → ℂ) (hx : IsReal x) (k : ZMod N) :
    conj (𝓕 x (-k)) = 𝓕 x k := by
  rw [← dft_conj]; have : (fun j => conj (x j)) = x := funext hx
  rw [this]

/-- the ripasso pipeline: real part of `ifft(fft(x) * H)` -/
noncomputable def applyTF (x H : ZMod N → ℂ) : ZMod N → ℂ :=
  fun j => ((𝓕⁻ (fun k => 𝓕 x k * H k) j).re : ℂ)

/-- the output is real -/
theorem applyTF_real (x H : ZMod N → ℂ) : IsReal (applyTF x H) := by
  intro j; simp [applyTF]

/-- **every bin where the transfer function is Hermitian is multiplied by it** -/
theorem dft_applyTF (x H : ZMod N → ℂ) (hx : IsReal x) (k : ZMod N)
    (hH : conj (H (-k)) = H k) :
    𝓕 (applyTF x H) k = 𝓕 x k * H k := by
  set y : ZMod N → ℂ := 𝓕⁻ (fun k => 𝓕 x k * H k) with hy
  have hre : applyTF x H = fun j => (1/2 : ℂ) * (y j + conj (y j)) := by
    funext j; simp only [applyTF, ← hy]
    rw [Complex.ext_iff]; constructor
    · simp [Complex.add_re]; ring
    · simp [Complex.add_im]
  have hFy : 𝓕 y = fun k => 𝓕 x k * H k := by
    rw [hy]; exact (dft (N := N)).apply_symm_apply _
  rw [hre]
  have : (fun j => (1/2 : ℂ) * (y j + conj (y j))) = (1/2 : ℂ) • (y + fun j => conj (y j)) := by
    funext j; simp
  rw [this, _root_.map_smul, map_add]
  simp only [Pi.smul_apply, Pi.add_apply, smul_eq_mul]
  rw [dft_conj, hFy]
  simp only [map_mul]
  rw [dft_real_herm x hx, hH]; ring

/-- in general (also at the Nyquist bin, where `-k = k`): the bin is multiplied by the Hermitian
    part `(H k + conj (H (-k))) / 2` of the transfer function -/
theorem dft_applyTF_general (x H : ZMod N → ℂ) (hx : IsReal x) (k : ZMod N) :
    𝓕 (applyTF x H) k = 𝓕 x k * ((H k + conj (H (-k))) / 2) := by
  set y : ZMod N → ℂ := 𝓕⁻ (fun k => 𝓕 x k * H k) with hy
  have hre : applyTF x H = fun j => (1/2 : ℂ) * (y j + conj (y j)) := by
    funext j; simp only [applyTF, ← hy]
    rw [Complex.ext_iff]; constructor
    · simp [Complex.add_re]; ring
    · simp [Complex.add_im]
  have hFy : 𝓕 y = fun k => 𝓕 x k * H k := by
    rw [hy]; exact (dft (N := N)).apply_symm_apply _
  rw [hre]
  have : (fun j => (1/2 : ℂ) * (y j + conj (y j))) = (1/2 : ℂ) • (y + fun j => conj (y j)) := by
    funext j; simp
  rw [this, _root_.map_smul, map_add]
  simp only [Pi.smul_apply, Pi.add_apply, smul_eq_mul]
  rw [dft_conj, hFy]
  simp only [map_mul]
  rw [dft_real_herm x hx]; ring

/-- at the Nyquist bin (`-k = k`) the spectrum of a real signal is real and the bin is multiplied
    by the real part of `H k` -/
theorem dft_applyTF_nyquist (x H : ZMod N → ℂ) (hx : IsReal x) (k : ZMod N) (hk : -k = k) :
    𝓕 (applyTF x H) k = 𝓕 x k * ((H k).re : ℂ) := by
  rw [dft_applyTF_general x H hx k, hk]
  congr 1
  rw [Complex.ext_iff]; constructor
  · simp
  · simp

/-- **linearity** in the signal (real coefficients keep signals real) -/
theorem applyTF_linear (x y H : ZMod N → ℂ) (a b : ℝ) :
    applyTF (fun j => (a : ℂ) * x j + (b : ℂ) * y j) H =
      fun j => (a : ℂ) * applyTF x H j + (b : ℂ) * applyTF y H j := by
  funext j
  simp only [applyTF]
  have h1 : (fun k => 𝓕 (fun j => (a : ℂ) * x j + (b : ℂ) * y j) k * H k) =
      (a : ℂ) • (fun k => 𝓕 x k * H k) + (b : ℂ) • (fun k => 𝓕 y k * H k) := by
    have e : (fun j => (a : ℂ) * x j + (b : ℂ) * y j) = (a : ℂ) • x + (b : ℂ) • y := by
      funext j; simp
    funext k
    rw [e, map_add, _root_.map_smul, _root_.map_smul]
    simp only [Pi.add_apply, Pi.smul_apply, smul_eq_mul]
    ring
  rw [h1, map_add, _root_.map_smul, _root_.map_smul]
  simp only [Pi.add_apply, Pi.smul_apply, smul_eq_mul]
  rw [Complex.ext_iff]
  constructor
  · simp [Complex.add_re, Complex.mul_re]
  · simp

/-- two real signals with the same spectrum are the same signal -/
theorem eq_of_dft_eq (x y : ZMod N → ℂ) (h : 𝓕 x = 𝓕 y) : x = y :=
  (dft (N := N)).injective h

end BB.DFT
