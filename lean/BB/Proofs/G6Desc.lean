/-
  BB.Proofs.G6Desc — comparing descriptions the way Python compares dictionaries (insertion order
  is irrelevant, at any depth), and the common shape of `Sequence.description` and the description
  of a subsequence.
-/
import BB.Proofs.G6Eq
import BB.Proofs.G6Forge
import BB.Model.Describe

namespace BB

/-- Python's `==` on two descriptions: objects (dicts) are equal when one is a reordering of the
    other with equal values under equal keys — recursively; everything else compares by value -/
inductive J.DictEq : J → J → Prop
  | refl (j : J) : J.DictEq j j
  | obj (l1 l2 l2' : List (String × J)) (hp : l2'.Perm l2) (hk : l1.map Prod.fst = l2'.map Prod.fst)
      (hv : ∀ i (h1 : i < l1.length) (h2 : i < l2'.length), J.DictEq (l1[i]).2 (l2'[i]).2) :
      J.DictEq (.obj l1) (.obj l2)

theorem forall2_getElem {α β : Type} {R : α → β → Prop} {l : List α} {l' : List β} (h : List.Forall₂ R l l') :
    ∀ i (h1 : i < l.length) (h2 : i < l'.length), R l[i] l'[i] := by
  induction h with
  | nil => intro i h1; simp at h1
  | cons hxy _ ih =>
    intro i h1 h2
    cases i with
    | zero => exact hxy
    | succ i => exact ih i (by simpa using h1) (by simpa using h2)

theorem forall2_append {α β : Type} {R : α → β → Prop} {l1 l2 : List α} {l1' l2' : List β}
    (h1 : List.Forall₂ R l1 l1') (h2 : List.Forall₂ R l2 l2') : List.Forall₂ R (l1 ++ l2) (l1' ++ l2') := by
  induction h1 with
  | nil => exact h2
  | cons hxy _ ih => exact List.Forall₂.cons hxy ih

theorem forall2_map_right_mem {α β : Type} (h : α → β) (A0 : List α) :
    ∀ A : List α, (∀ p ∈ A, p ∈ A0) → List.Forall₂ (fun p q => p ∈ A0 ∧ q = h p) A (A.map h) := by
  intro A
  induction A with
  | nil => intro _; exact List.Forall₂.nil
  | cons x xs ih =>
    intro hsub
    exact List.Forall₂.cons ⟨hsub x (by simp), rfl⟩ (ih (fun p hp => hsub p (by simp [hp])))

/-- fields related one by one (same key, values equal up to order), then reordered -/
theorem J.DictEq.of_forall2 {l1 l2 l2' : List (String × J)}
    (h : List.Forall₂ (fun x y => x.1 = y.1 ∧ J.DictEq x.2 y.2) l1 l2') (hp : l2'.Perm l2) :
    J.DictEq (.obj l1) (.obj l2) :=
  J.DictEq.obj l1 l2 l2' hp (forall2_map_eq _ _ (fun _ _ hxy => hxy.1) h)
    (fun i h1 h2 => (forall2_getElem h i h1 h2).2)

theorem J.DictEq.of_perm {l1 l2 : List (String × J)} (hp : l1.Perm l2) : J.DictEq (.obj l1) (.obj l2) :=
  J.DictEq.obj l1 l2 l1 hp rfl (fun _ _ _ => J.DictEq.refl _)

theorem mapM_error_mem {α β : Type} (f : α → Except Err β) (l : List α) (e : Err) (h : l.mapM f = .error e) :
    ∃ x ∈ l, f x = .error e := by
  induction l with
  | nil => simp [List.mapM_nil, pure, Except.pure] at h
  | cons a t ih =>
    rw [mapM_cons_eq] at h
    cases hfa : f a with
    | error e' =>
      rw [hfa] at h
      simp only [Except.error.injEq] at h
      exact ⟨a, by simp, by rw [hfa, h]⟩
    | ok b =>
      rw [hfa] at h
      cases ht : t.mapM f with
      | error e' =>
        rw [ht] at h
        simp only [Except.error.injEq] at h
        obtain ⟨x, hx, hfx⟩ := ih (by rw [ht, h])
        exact ⟨x, by simp [hx], hfx⟩
      | ok bs => rw [ht] at h; cases h

/-! ### the common shape of a sequence description -/

/-- one position: `{"channels": …, "sequencing": …}` under the position number -/
def posFieldG {α : Type} (desc : α → Except Err J) (seqn : Int → J) (pe : Int × α) : Except Err (String × J) :=
  match desc pe.2 with
  | .error er => .error er
  | .ok ch => .ok (toString pe.1, J.obj [("channels", ch), ("sequencing", seqn pe.1)])

/-- all positions in store order, then the AWG settings -/
def toDescG {α : Type} (desc : α → Except Err J) (seqn : Int → J) (data : Dict Int α) (specs : Dict String Spec) :
    Except Err J :=
  match data.mapM (posFieldG desc seqn) with
  | .error er => .error er
  | .ok fields => .ok (J.obj (fields ++ [("awgspecs", Sequence.awgspecsJ specs)]))

/-- the description of what sits at a position -/
def entryDesc : Entry → Except Err J
  | .el e => e.toDesc
  | .sub sub => Sequence.subToDesc sub

/-- the sequencing entry of a subsequence position as the description shows it -/
def subSeqnJ (s : SubSeq) (pos : Int) : J :=
  match Dict.get? s.sequencing pos with
  | some q => Sequence.seqSetJ q
  | none => J.str "Not set"

theorem Sequence.toDesc_eq_G (s : Sequence) : s.toDesc = toDescG entryDesc (Sequence.seqnJ s) s.data s.awgspecs := by
  unfold Sequence.toDesc toDescG
  have : Sequence.posField s = posFieldG entryDesc (Sequence.seqnJ s) := by
    funext pe
    unfold Sequence.posField posFieldG entryDesc
    cases pe.2 <;> rfl
  rw [this]
  cases s.data.mapM (posFieldG entryDesc (Sequence.seqnJ s)) <;> rfl

theorem Sequence.subToDesc_eq_G (s : SubSeq) :
    Sequence.subToDesc s = toDescG Element.toDesc (subSeqnJ s) s.data s.awgspecs := by
  unfold Sequence.subToDesc toDescG
  have key := fun (F : Int × Element → Except Err (String × J))
      (hF : ∀ pe ∈ s.data, F pe = posFieldG Element.toDesc (subSeqnJ s) pe) =>
    mapM_congr_mem (posFieldG Element.toDesc (subSeqnJ s)) F s.data hF
  rw [key]
  · cases s.data.mapM (posFieldG Element.toDesc (subSeqnJ s)) <;> rfl
  · rintro ⟨pos, e⟩ _
    simp only [posFieldG, subSeqnJ]
    cases e.toDesc <;> rfl

theorem posFieldG_err {α : Type} (desc : α → Except Err J) (herr : ∀ x er, desc x = .error er → er = .type)
    (seqn : Int → J) (pe : Int × α) (er : Err) (h : posFieldG desc seqn pe = .error er) : er = .type := by
  unfold posFieldG at h
  cases hd : desc pe.2 with
  | error e' => rw [hd] at h; simp only [Except.error.injEq] at h; rw [← h]; exact herr _ _ hd
  | ok _ => rw [hd] at h; cases h

/-- every failure of a description is a TypeError (flags on a raw-array channel) -/
theorem toDescG_err {α : Type} (desc : α → Except Err J) (herr : ∀ x er, desc x = .error er → er = .type)
    (seqn : Int → J) (data : Dict Int α) (specs : Dict String Spec) (er : Err)
    (h : toDescG desc seqn data specs = .error er) : er = .type := by
  unfold toDescG at h
  cases hm : data.mapM (posFieldG desc seqn) with
  | error e' =>
    rw [hm] at h
    simp only [Except.error.injEq] at h
    obtain ⟨x, _, hx⟩ := mapM_error_mem _ _ _ hm
    rw [← h]
    exact posFieldG_err desc herr seqn x e' hx
  | ok _ => rw [hm] at h; cases h

/-- **equal stores, equal settings, equal sequencing ⇒ equal descriptions** (as Python compares
    dicts), or the same failure -/
theorem toDescG_rel {α : Type} (f : α → α → Bool) (desc : α → Except Err J)
    (herr : ∀ x er, desc x = .error er → er = .type)
    (A B : Dict Int α) (hA : Dict.WF A) (hB : Dict.WF B) (heq : Dict.eqBy f A B = true)
    (hrel : ∀ x ∈ Dict.vals A, ∀ y ∈ Dict.vals B, f x y = true → ExRel J.DictEq (desc x) (desc y))
    (seqnA seqnB : Int → J) (hseqn : ∀ k, seqnA k = seqnB k)
    (sA sB : Dict String Spec) (hsA : Dict.WF sA) (hsB : Dict.WF sB) (hs : Dict.eqBy (· == ·) sA sB = true) :
    ExRel J.DictEq (toDescG desc seqnA A sA) (toDescG desc seqnB B sB) := by
  obtain ⟨g, hperm, hg⟩ := Dict.eqBy_perm f hA hB heq
  have hstep : ∀ p q, (p ∈ A ∧ q = (p.1, g p)) →
      ExRel (fun (x y : String × J) => x.1 = y.1 ∧ J.DictEq x.2 y.2) (posFieldG desc seqnA p) (posFieldG desc seqnB q) := by
    rintro p q ⟨hp, rfl⟩
    have hq : (p.1, g p) ∈ B := hperm.mem_iff.mp (List.mem_map.mpr ⟨p, hp, rfl⟩)
    have := hrel p.2 (List.mem_map.mpr ⟨p, hp, rfl⟩) (g p) (List.mem_map.mpr ⟨_, hq, rfl⟩) (hg p hp)
    unfold posFieldG
    simp only
    cases h1 : desc p.2 with
    | error e =>
      cases h2 : desc (g p) with
      | error e' => rw [h1, h2] at this; simpa [ExRel] using this
      | ok _ => rw [h1, h2] at this; simp [ExRel] at this
    | ok c =>
      cases h2 : desc (g p) with
      | error e' => rw [h1, h2] at this; simp [ExRel] at this
      | ok c' =>
        rw [h1, h2] at this
        simp only [ExRel] at this ⊢
        refine ⟨trivial, J.DictEq.of_forall2 (l2' := [("channels", c'), ("sequencing", seqnB p.1)]) ?_ (List.Perm.refl _)⟩
        refine List.Forall₂.cons ⟨rfl, this⟩ (List.Forall₂.cons ⟨rfl, ?_⟩ List.Forall₂.nil)
        rw [hseqn]
        exact J.DictEq.refl _
  have hm := mapM_rel _ _ _ _ hstep (forall2_map_right_mem (fun p => (p.1, g p)) A A (fun _ h => h))
  unfold toDescG
  cases hA' : A.mapM (posFieldG desc seqnA) with
  | ok fa =>
    cases hB' : (A.map (fun p => (p.1, g p))).mapM (posFieldG desc seqnB) with
    | error e => rw [hA', hB'] at hm; simp [ExRel] at hm
    | ok fb' =>
      rw [hA', hB'] at hm
      simp only [ExRel] at hm
      obtain ⟨fb, hfb, hpf⟩ := mapM_perm_ok _ hperm fb' hB'
      rw [hfb]
      simp only [ExRel]
      refine J.DictEq.of_forall2 (l2' := fb' ++ [("awgspecs", Sequence.awgspecsJ sB)])
        (forall2_append hm (List.Forall₂.cons ⟨rfl, ?_⟩ List.Forall₂.nil)) (hpf.append_right _)
      unfold Sequence.awgspecsJ
      exact J.DictEq.of_perm ((Dict.eqBy_beq_perm hsA hsB hs).map _)
  | error er =>
    have her : er = .type := by
      obtain ⟨x, _, hx⟩ := mapM_error_mem _ _ _ hA'
      exact posFieldG_err desc herr seqnA x er hx
    cases hB' : B.mapM (posFieldG desc seqnB) with
    | error er' =>
      have her' : er' = .type := by
        obtain ⟨x, _, hx⟩ := mapM_error_mem _ _ _ hB'
        exact posFieldG_err desc herr seqnB x er' hx
      simp only [ExRel]
      rw [her, her']
    | ok fb =>
      exfalso
      obtain ⟨fb', hfb', _⟩ := mapM_perm_ok _ hperm.symm fb hB'
      rw [hA', hfb'] at hm
      simp [ExRel] at hm

end BB
