/-
  BB.Proofs.G13Body — "whatever the edit history" at element and sequence level (C01): segment
  names are the only history-dependent part of a blueprint, and neither `Element.getArrays`,
  `Element.validateDurations`, `Element._applyDelays` nor `Sequence.forge` look at them.  Elements /
  sequences whose blueprints agree up to segment names (`ElBody`, `EntBody`) forge identically - the
  same arrays or the same exception.  (Lifts `Proofs/Body.forgeBP_body`; mirrors the congruence of
  `Proofs/G6Forge`, with "same channel store" weakened to "same channel store up to names".)
-/
import BB.Proofs.Body
import BB.Proofs.Delay
import BB.Proofs.G6Forge

namespace BB
open BP Element

/-! ### blueprints and channel entries up to segment names -/

/-- two blueprints that differ in nothing but their segment names -/
def BP.BodyEq (p q : BP) : Prop :=
  p.segs.map Seg.body = q.segs.map Seg.body ∧ p.marker1 = q.marker1 ∧ p.marker2 = q.marker2 ∧ p.SR = q.SR

theorem BP.BodyEq.refl (p : BP) : BP.BodyEq p p := ⟨rfl, rfl, rfl, rfl⟩

theorem BP.BodyEq.symm {p q : BP} (h : BP.BodyEq p q) : BP.BodyEq q p :=
  ⟨h.1.symm, h.2.1.symm, h.2.2.1.symm, h.2.2.2.symm⟩

theorem BP.BodyEq.forge {p q : BP} (h : BP.BodyEq p q) : forgeBP p = forgeBP q :=
  forgeBP_body p q h.1 h.2.1 h.2.2.1 h.2.2.2

theorem BP.BodyEq.copy {p q : BP} (h : BP.BodyEq p q) : BP.BodyEq p.copy q.copy :=
  ⟨by rw [copy_body, copy_body]; exact h.1, h.2.1, h.2.2.1, h.2.2.2⟩

/-- channel contents up to segment names: two blueprints with equal bodies, or the same content -/
inductive ChData.BodyEq : ChData → ChData → Prop
  | bp (p q : BP) : BP.BodyEq p q → ChData.BodyEq (.bp p) (.bp q)
  | same (d : ChData) : ChData.BodyEq d d

/-- channel entries up to segment names (same flags) -/
def ChEntry.BodyEq (x y : ChEntry) : Prop := x.flags = y.flags ∧ ChData.BodyEq x.data y.data

theorem ChEntry.BodyEq.refl (x : ChEntry) : ChEntry.BodyEq x x := ⟨rfl, .same _⟩

theorem chEntry_ext {x y : ChEntry} (hd : x.data = y.data) (hf : x.flags = y.flags) : x = y := by
  obtain ⟨d, f⟩ := x
  obtain ⟨d', f'⟩ := y
  simp only at hd hf
  subst hd hf
  rfl

/-- a case split that avoids dependent elimination: either both hold body-equal blueprints, or the entries are equal -/
theorem ChEntry.BodyEq.cases {x y : ChEntry} (h : ChEntry.BodyEq x y) :
    (∃ p q, x.data = .bp p ∧ y.data = .bp q ∧ BP.BodyEq p q ∧ x.flags = y.flags) ∨ x = y := by
  obtain ⟨hf, hd⟩ := h
  generalize hx : x.data = dx at hd
  generalize hy : y.data = dy at hd
  cases hd with
  | bp p q hpq => exact Or.inl ⟨p, q, rfl, rfl, hpq, hf⟩
  | same d => exact Or.inr (chEntry_ext (hx.trans hy.symm) hf)

theorem chanOut_body (t : Bool) {x y : ChEntry} (h : ChEntry.BodyEq x y) : chanOut t x = chanOut t y := by
  rcases h.cases with ⟨p, q, hx, hy, hpq, hf⟩ | rfl
  · simp only [chanOut, hx, hy, hpq.forge, hf]
  · rfl

theorem chanSR_body {x y : ChEntry} (h : ChEntry.BodyEq x y) : chanSR x = chanSR y := by
  rcases h.cases with ⟨p, q, hx, hy, hpq, hf⟩ | rfl
  · obtain ⟨dx, fx⟩ := x
    obtain ⟨dy, fy⟩ := y
    simp only at hx hy
    subst hx hy
    simp only [chanSR, hpq.2.2.2]
  · rfl

theorem chanDuration_body {x y : ChEntry} (h : ChEntry.BodyEq x y) : chanDuration x = chanDuration y := by
  rcases h.cases with ⟨p, q, hx, hy, hpq, hf⟩ | rfl
  · obtain ⟨dx, fx⟩ := x
    obtain ⟨dy, fy⟩ := y
    simp only at hx hy
    subst hx hy
    simp only [chanDuration, duration_body p q hpq.1]
  · rfl

theorem chanPoints_body {x y : ChEntry} (h : ChEntry.BodyEq x y) : chanPoints x = chanPoints y := by
  rcases h.cases with ⟨p, q, hx, hy, hpq, hf⟩ | rfl
  · obtain ⟨dx, fx⟩ := x
    obtain ⟨dy, fy⟩ := y
    simp only at hx hy
    subst hx hy
    simp only [chanPoints, points_body p q hpq.1 hpq.2.2.2]
  · rfl

/-! ### elements up to segment names -/

/-- two elements listing the same channels in the same order, channel by channel the same flags
    and the same content up to the segment names of blueprints (validation caches may differ) -/
def ElBody (e e' : Element) : Prop := Dict.Rel ChEntry.BodyEq e.chans e'.chans

theorem ElBody.refl (e : Element) : ElBody e e := Dict.Rel.refl _ _ (fun x _ => ChEntry.BodyEq.refl x)

theorem ElBody.of_elRel {e e' : Element} (h : ElRel e e') : ElBody e e' := by
  unfold ElBody
  rw [show e.chans = e'.chans from h]
  exact ElBody.refl e'

theorem ElBody.channels {e e' : Element} (h : ElBody e e') : e.channels = e'.channels := Dict.Rel.keys h

theorem ElBody.getArrays {e e' : Element} (h : ElBody e e') (t : Bool) : e.getArrays t = e'.getArrays t := by
  unfold Element.getArrays
  exact mapM_forall2_eq _ _ _ (fun x y hxy => by
    obtain ⟨c, ent⟩ := x
    obtain ⟨c', ent'⟩ := y
    simp only at hxy ⊢
    rw [chanOut_body t hxy.2, hxy.1]) h

theorem ElBody.validate {e e' : Element} (h : ElBody e e') : e.validate = e'.validate := by
  have hv := Dict.Rel.vals h
  have hl : (Dict.vals e.chans).isEmpty = (Dict.vals e'.chans).isEmpty := by
    have := forall2_length hv
    cases h1 : Dict.vals e.chans <;> cases h2 : Dict.vals e'.chans <;> simp_all
  unfold Element.validate
  rw [hl, mapM_forall2_eq ChEntry.BodyEq chanSR chanSR (fun _ _ h => chanSR_body h) hv,
    mapM_forall2_eq ChEntry.BodyEq chanDuration chanDuration (fun _ _ h => chanDuration_body h) hv,
    mapM_forall2_eq ChEntry.BodyEq chanPoints chanPoints (fun _ _ h => chanPoints_body h) hv]

theorem ElBody.getSR {e e' : Element} (h : ElBody e e') : e.getSR = e'.getSR := by
  unfold Element.getSR; rw [h.validate]

theorem ElBody.points {e e' : Element} (h : ElBody e e') : e.points = e'.points := by
  unfold Element.points
  rw [h.validate]
  have hv := Dict.Rel.vals h
  generalize Dict.vals e.chans = l at hv ⊢
  generalize Dict.vals e'.chans = l' at hv ⊢
  cases hv with
  | nil => rfl
  | cons hxy _ => simp only [List.head?_cons, chanPoints_body hxy]

theorem ElBody.duration {e e' : Element} (h : ElBody e e') : e.duration = e'.duration := by
  unfold Element.duration; rw [h.validate]

/-! ### `_applyDelays` keeps "equal up to names" -/

theorem body_shiftWait (d : ℚ) (s : Seg) : Seg.body (shiftWait d s) = shiftWait d (Seg.body s) := by
  unfold shiftWait Seg.body
  simp only
  split
  · split <;> rfl
  · rfl

theorem delayedSegs_body (a b : List Seg) (d M : ℚ) (h : a.map Seg.body = b.map Seg.body) :
    (delayedSegs a d M).map Seg.body = (delayedSegs b d M).map Seg.body := by
  unfold delayedSegs
  simp only [List.map_append, List.map_map]
  have : (Seg.body ∘ shiftWait d) = (shiftWait d ∘ Seg.body) := by funext s; exact body_shiftWait d s
  rw [this, ← List.map_map, ← List.map_map, h]

theorem delayBP_body {p q : BP} (h : BP.BodyEq p q) (d M : ℚ) :
    BP.BodyEq (delayBP p d M).st (delayBP q d M).st := by
  obtain ⟨_, hb, h1, h2, hs⟩ := delayBP_spec p d M
  obtain ⟨_, hb', h1', h2', hs'⟩ := delayBP_spec q d M
  exact ⟨by rw [hb, hb']; exact delayedSegs_body _ _ d M h.1, by rw [h1, h1']; exact h.2.1,
    by rw [h2, h2']; exact h.2.2.1, by rw [hs, hs']; exact h.2.2.2⟩

theorem delayChan_body (sr M : ℚ) {x y : ChEntry} (h : ChEntry.BodyEq x y) (d : ℚ) :
    ExRel ChEntry.BodyEq (delayChan sr M x d) (delayChan sr M y d) := by
  rcases h.cases with ⟨p, q, hx, hy, hpq, hf⟩ | rfl
  · have e1 : (delayBP p d M).toExcept = .ok (delayBP p d M).st := by
      unfold Res.toExcept; rw [(delayBP_spec p d M).1]
    have e2 : (delayBP q d M).toExcept = .ok (delayBP q d M).st := by
      unfold Res.toExcept; rw [(delayBP_spec q d M).1]
    simp only [delayChan, hx, hy, e1, e2, ExRel]
    exact ⟨hf, .bp _ _ (delayBP_body hpq d M)⟩
  · cases hd : delayChan sr M x d with
    | error e => simp [ExRel]
    | ok z => exact ChEntry.BodyEq.refl z

theorem forall2_zip_left {α β γ : Type} {R : α → β → Prop} {l : List α} {l' : List β} (h : List.Forall₂ R l l')
    (ds : List γ) : List.Forall₂ (fun x y => R x.1 y.1 ∧ x.2 = y.2) (l.zip ds) (l'.zip ds) := by
  induction h generalizing ds with
  | nil => simp
  | cons hxy _ ih =>
    cases ds with
    | nil => simp
    | cons d ds => exact List.Forall₂.cons ⟨hxy, rfl⟩ (ih ds)

/-- `_applyDelays` raises alike on elements equal up to names, and leaves elements equal up to names -/
theorem applyDelays_body {e e' : Element} (h : ElBody e e') (ds : List ℚ) :
    (e.applyDelays ds).err = (e'.applyDelays ds).err ∧ ElBody (e.applyDelays ds).st (e'.applyDelays ds).st := by
  have hl : e.chans.length = e'.chans.length := Dict.Rel.length h
  unfold Element.applyDelays
  rw [← h.validate, ← hl]
  split
  · exact ⟨rfl, h⟩
  · split
    · exact ⟨rfl, h⟩
    · split
      · exact ⟨rfl, h⟩
      · rename_i m hm
        split
        · rename_i sr hsr
          have hz := forall2_zip_left h ds
          have hr := mapM_rel (fun (x y : (Chan × ChEntry) × ℚ) => (x.1.1 = y.1.1 ∧ ChEntry.BodyEq x.1.2 y.1.2) ∧ x.2 = y.2)
            (fun (x y : Chan × ChEntry) => x.1 = y.1 ∧ ChEntry.BodyEq x.2 y.2)
            (fun p => (delayChan sr (maxR ds) p.1.2 p.2).map (fun y => (p.1.1, y)))
            (fun p => (delayChan sr (maxR ds) p.1.2 p.2).map (fun y => (p.1.1, y)))
            (by
              intro x y hxy
              have := delayChan_body sr (maxR ds) hxy.1.2 x.2
              rw [← hxy.2]
              cases hx : delayChan sr (maxR ds) x.1.2 x.2 <;> cases hy : delayChan sr (maxR ds) y.1.2 x.2 <;>
                rw [hx, hy] at this <;> simp_all [ExRel, Except.map]) hz
          cases h1 : (e.chans.zip ds).mapM (fun p => (delayChan sr (maxR ds) p.1.2 p.2).map (fun y => (p.1.1, y))) with
          | error er =>
            cases h2 : (e'.chans.zip ds).mapM (fun p => (delayChan sr (maxR ds) p.1.2 p.2).map (fun y => (p.1.1, y))) with
            | error er' => rw [h1, h2] at hr; simp only [ExRel] at hr; subst hr; exact ⟨rfl, h⟩
            | ok _ => rw [h1, h2] at hr; simp [ExRel] at hr
          | ok c =>
            cases h2 : (e'.chans.zip ds).mapM (fun p => (delayChan sr (maxR ds) p.1.2 p.2).map (fun y => (p.1.1, y))) with
            | error er' => rw [h1, h2] at hr; simp [ExRel] at hr
            | ok c' => rw [h1, h2] at hr; simp only [ExRel] at hr; exact ⟨rfl, hr⟩
        · exact ⟨rfl, h⟩

namespace Sequence

theorem delayElement_body (a b : Sequence) (hs : LookEq a.awgspecs b.awgspecs) {e e' : Element} (h : ElBody e e') :
    ExRel ElBody (a.delayElement e) (b.delayElement e') := by
  have hd : a.delaysFor e = b.delaysFor e' := by
    unfold delaysFor
    rw [h.channels]
    exact mapM_congr_mem _ _ _ (fun ch _ => delayOf_congr a b hs ch)
  unfold delayElement
  rw [hd]
  cases b.delaysFor e' with
  | error er => simp [bind, Except.bind, ExRel]
  | ok ds =>
    obtain ⟨h1, h2⟩ := applyDelays_body h ds
    simp only [bind, Except.bind]
    rw [h1]
    cases hr : (e'.applyDelays ds).err with
    | some er => simp [ExRel, throw, throwThe, MonadExceptOf.throw]
    | none => simpa [ExRel, pure, Except.pure] using h2

end Sequence

/-! ### entries and subsequences up to segment names -/

/-- subsequences whose elements agree up to segment names, position by position in the same
    order, and whose settings and sequencing answer every look-up alike -/
def SubBody (s s' : SubSeq) : Prop :=
  Dict.Rel ElBody s.data s'.data ∧ LookEq s.awgspecs s'.awgspecs ∧ LookEq s.sequencing s'.sequencing

/-- stored entries that agree up to segment names -/
def EntBody : Entry → Entry → Prop
  | .el e, .el e' => ElBody e e'
  | .sub s, .sub s' => SubBody s s'
  | _, _ => False

theorem SubSeq.checkConsistency_body {s s' : SubSeq} (h : SubBody s s') : s.checkConsistency = s'.checkConsistency := by
  obtain ⟨hd, hs, _⟩ := h
  unfold SubSeq.checkConsistency
  rw [hasSR_congr s s' hs, mapM_forall2_eq ElBody _ _ (fun _ _ h => h.getSR) hd.vals,
    forall2_map_eq (R := ElBody) (fun e => channelListSorter e.channels) (fun e => channelListSorter e.channels)
      (fun _ _ h => by rw [h.channels]) hd.vals, hd.keys]

theorem SubSeq.channels_body {s s' : SubSeq} (h : SubBody s s') : s.channels = s'.channels := by
  unfold SubSeq.channels
  rw [SubSeq.checkConsistency_body h]
  rcases h.1.get? 1 with ⟨h1, h2⟩ | ⟨x, y, h1, h2, hR⟩
  · rw [h1, h2]
  · rw [h1, h2]; simp only; rw [hR.channels]

theorem EntBody.getSR {x y : Entry} (h : EntBody x y) : x.getSR = y.getSR := by
  cases x <;> cases y <;> simp only [EntBody] at h
  · exact ElBody.getSR h
  · simp only [Entry.getSR]; rw [getSR_congr _ _ h.2.1]

theorem EntBody.channels {x y : Entry} (h : EntBody x y) : x.channels = y.channels := by
  cases x <;> cases y <;> simp only [EntBody] at h
  · simp only [Entry.channels]; rw [ElBody.channels h]
  · exact SubSeq.channels_body h

namespace Sequence

section body
variable (a b : Sequence) (hd : Dict.Rel EntBody a.data b.data) (hs : LookEq a.awgspecs b.awgspecs)
  (hq : LookEq a.sequencing b.sequencing)

include hd hs in
theorem checkConsistency_body : a.checkConsistency = b.checkConsistency := by
  unfold checkConsistency
  rw [hasSR_congr a b hs, mapM_forall2_eq EntBody _ _ (fun _ _ h => h.getSR) hd.vals,
    mapM_forall2_eq EntBody _ _ (fun _ _ h => h.channels) hd.vals, hd.keys]

include hd hs in
theorem channels_body : a.channels = b.channels := by
  unfold channels
  rw [checkConsistency_body a b hd hs]
  rcases hd.get? 1 with ⟨h1, h2⟩ | ⟨x, y, h1, h2, hR⟩
  · rw [h1, h2]
  · rw [h1, h2]; simp only; rw [hR.channels]

include hd in
theorem entriesInOrder_body :
    ExRel (List.Forall₂ (fun (x y : Nat × Entry) => x.1 = y.1 ∧ EntBody x.2 y.2)) a.entriesInOrder b.entriesInOrder := by
  unfold entriesInOrder
  rw [hd.length]
  refine mapM_rel (· = ·) _ _ _ ?_ (forall2_refl _ _ (fun _ _ => rfl))
  rintro i _ rfl
  rcases hd.get? ((i + 1 : Nat) : Int) with ⟨h1, h2⟩ | ⟨x, y, h1, h2, hR⟩
  · rw [h1, h2]; simp [ExRel]
  · rw [h1, h2]; exact ⟨rfl, hR⟩

include hs in
theorem delayEntry_body (d : Bool) {x y : Entry} (h : EntBody x y) :
    ExRel EntBody (a.delayEntry d x) (b.delayEntry d y) := by
  cases x <;> cases y <;> simp only [EntBody] at h
  · rename_i e e'
    unfold delayEntry
    cases d
    · simpa [ExRel, EntBody] using h
    · simp only [if_true]
      have := delayElement_body a b hs h
      cases hx : a.delayElement e <;> cases hy : b.delayElement e' <;> rw [hx, hy] at this <;>
        simp_all [Except.map, ExRel, EntBody]
  · rename_i s s'
    unfold delayEntry
    cases d
    · simpa [ExRel, EntBody] using h
    · simp only [if_true]
      have hr := mapM_rel (fun (x y : Int × Element) => x.1 = y.1 ∧ ElBody x.2 y.2)
        (fun (x y : Int × Element) => x.1 = y.1 ∧ ElBody x.2 y.2)
        (fun pe => (a.delayElement pe.2).map (fun e' => (pe.1, e')))
        (fun pe => (b.delayElement pe.2).map (fun e' => (pe.1, e')))
        (by
          intro p q hpq
          have := delayElement_body a b hs hpq.2
          cases hx : a.delayElement p.2 <;> cases hy : b.delayElement q.2 <;> rw [hx, hy] at this <;>
            simp_all [Except.map, ExRel]) h.1
      cases h1 : s.data.mapM (fun pe => (a.delayElement pe.2).map (fun e' => (pe.1, e'))) with
      | error er =>
        cases h2 : s'.data.mapM (fun pe => (b.delayElement pe.2).map (fun e' => (pe.1, e'))) with
        | error er' => rw [h1, h2] at hr; simpa [Except.map, ExRel] using hr
        | ok _ => rw [h1, h2] at hr; simp [ExRel] at hr
      | ok dd =>
        cases h2 : s'.data.mapM (fun pe => (b.delayElement pe.2).map (fun e' => (pe.1, e'))) with
        | error er' => rw [h1, h2] at hr; simp [ExRel] at hr
        | ok dd' =>
          rw [h1, h2] at hr
          simp only [ExRel] at hr
          simp only [Except.map, ExRel, EntBody, SubBody]
          exact ⟨hr, h.2.1, h.2.2⟩

theorem forgeInner_body (t : Bool) {s s' : SubSeq} (h : SubBody s s') : forgeInner t s = forgeInner t s' := by
  unfold forgeInner
  rw [h.1.length]
  apply mapM_congr_mem
  intro j _
  rw [h.2.2]
  rcases h.1.get? ((j + 1 : Nat) : Int) with ⟨h1, h2⟩ | ⟨x, y, h1, h2, hR⟩
  · rw [h1, h2]
  · rw [h1, h2]; simp only; rw [hR.getArrays]

include hq in
theorem forgeEntry_body (t : Bool) {x y : Nat × Entry} (h1 : x.1 = y.1) (h2 : EntBody x.2 y.2) :
    a.forgeEntry t x = b.forgeEntry t y := by
  obtain ⟨p, en⟩ := x
  obtain ⟨p', en'⟩ := y
  simp only at h1 h2
  subst h1
  unfold forgeEntry
  simp only
  rw [hq]
  cases en <;> cases en' <;> simp only [EntBody] at h2
  · simp only; rw [ElBody.getArrays h2]
  · simp only; rw [forgeInner_body t h2]

include hd hs hq in
/-- **forge does not look at segment names**: sequences whose stores agree position by position up
    to the segment names of the blueprints (and validation caches), and whose AWG settings and
    sequencing answer every look-up alike, forge alike — the same arrays, or the same exception -/
theorem forge_body (d f t : Bool) : a.forge d f t = b.forge d f t := by
  unfold forge
  rw [checkConsistency_body a b hd hs, channels_body a b hd hs, filterEntry_congr a b hs]
  have h1 := entriesInOrder_body a b hd
  cases he : a.entriesInOrder with
  | error e =>
    cases he' : b.entriesInOrder with
    | error e' => rw [he, he'] at h1; simp only [ExRel] at h1; rw [h1]
    | ok _ => rw [he, he'] at h1; simp [ExRel] at h1
  | ok ents =>
    cases he' : b.entriesInOrder with
    | error e' => rw [he, he'] at h1; simp [ExRel] at h1
    | ok ents' =>
      rw [he, he'] at h1
      simp only [ExRel] at h1
      have h2 := mapM_rel _ (fun (x y : Nat × Entry) => x.1 = y.1 ∧ EntBody x.2 y.2)
        (fun x => (a.delayEntry d x.2).map (fun en => (x.1, en)))
        (fun x => (b.delayEntry d x.2).map (fun en => (x.1, en)))
        (by
          intro x y hxy
          have := delayEntry_body a b hs d hxy.2
          cases hx : a.delayEntry d x.2 <;> cases hy : b.delayEntry d y.2 <;> rw [hx, hy] at this <;>
            simp_all [ExRel, Except.map]) h1
      cases hdl : ents.mapM (fun x => (a.delayEntry d x.2).map (fun en => (x.1, en))) with
      | error e =>
        cases hdl' : ents'.mapM (fun x => (b.delayEntry d x.2).map (fun en => (x.1, en))) with
        | error e' => rw [hdl, hdl'] at h2; simp only [ExRel] at h2; simp only [hdl, hdl', h2]
        | ok _ => rw [hdl, hdl'] at h2; simp [ExRel] at h2
      | ok del =>
        cases hdl' : ents'.mapM (fun x => (b.delayEntry d x.2).map (fun en => (x.1, en))) with
        | error e' => rw [hdl, hdl'] at h2; simp [ExRel] at h2
        | ok del' =>
          rw [hdl, hdl'] at h2
          simp only [ExRel] at h2
          have h3 : del.mapM (a.forgeEntry t) = del'.mapM (b.forgeEntry t) :=
            mapM_forall2_eq _ _ _ (fun x y hxy => forgeEntry_body a b hq t hxy.1 hxy.2) h2
          simp only [hdl, hdl', h3]

end body

end Sequence

/-! ### how such pairs arise: the same public calls with blueprints that differ in names only -/

theorem rel_upsert {κ α β : Type} [DecidableEq κ] {R : α → β → Prop} {d : Dict κ α} {d' : Dict κ β}
    (h : Dict.Rel R d d') (k : κ) {v : α} {w : β} (hvw : R v w) : Dict.Rel R (Dict.upsert d k v) (Dict.upsert d' k w) := by
  induction h with
  | nil => exact List.Forall₂.cons ⟨rfl, hvw⟩ List.Forall₂.nil
  | @cons x y xs ys hxy hrest ih =>
    obtain ⟨k1, v1⟩ := x
    obtain ⟨k2, v2⟩ := y
    simp only at hxy
    obtain ⟨rfl, hR⟩ := hxy
    unfold Dict.upsert
    by_cases hk : k1 = k
    · simp only [hk, if_true]
      exact List.Forall₂.cons ⟨rfl, hvw⟩ hrest
    · simp only [hk, if_false]
      exact List.Forall₂.cons ⟨rfl, hR⟩ ih

/-- `addBluePrint` of blueprints that differ in names only, on elements equal up to names: the
    same verdict, and elements equal up to names -/
theorem addBluePrint_body {e e' : Element} (h : ElBody e e') (ch : Chan) {p q : BP} (hpq : BP.BodyEq p q) :
    (e.addBluePrint ch p).err = (e'.addBluePrint ch q).err ∧ ElBody (e.addBluePrint ch p).st (e'.addBluePrint ch q).st := by
  have hl : p.segs.isEmpty = q.segs.isEmpty := by
    have := congrArg List.length hpq.1
    simp only [List.length_map] at this
    cases h1 : p.segs <;> cases h2 : q.segs <;> simp_all
  unfold Element.addBluePrint
  rw [hl]
  split
  · exact ⟨rfl, h⟩
  · exact ⟨rfl, rel_upsert h ch ⟨rfl, .bp _ _ hpq.copy⟩⟩

/-- `addElement` of elements equal up to names, on sequences equal up to names: the same verdict,
    and stores equal up to names (the sequencing tables stay equal) -/
theorem addElement_body {s s' : Sequence} (hd : Dict.Rel EntBody s.data s'.data) (hq : s.sequencing = s'.sequencing)
    (pos : Int) {e e' : Element} (h : ElBody e e') :
    (s.addElement pos e).err = (s'.addElement pos e').err ∧
    Dict.Rel EntBody (s.addElement pos e).st.data (s'.addElement pos e').st.data ∧
    (s.addElement pos e).st.sequencing = (s'.addElement pos e').st.sequencing ∧
    (s.addElement pos e).st.awgspecs = s.awgspecs ∧ (s'.addElement pos e').st.awgspecs = s'.awgspecs := by
  unfold Sequence.addElement
  rw [← h.validate]
  cases hv : e.validate with
  | error er => exact ⟨rfl, hd, hq, rfl, rfl⟩
  | ok m =>
    refine ⟨rfl, ?_, by simp only [hq], rfl, rfl⟩
    exact rel_upsert hd pos (show EntBody (.el { e with cache := some m }) (.el { e' with cache := some m }) from h)

end BB
