/-
  BB.Proofs.G8Examples — concrete guarded histories of library calls (non-vacuity of the
  hypotheses of the reference-level theorems of C08 / C09): between them they go through every
  call of the vocabulary.
-/
import BB.Proofs.G8Hist

namespace BB.Heap

/-- blueprints and elements -/
def exLibA : List LibCall :=
  [ .bpNew "b", .bpMutate 1 "b", .bpSetMarker 2 "b" "marker1", .bpCopy "b" "b2", .bpAdd "b" "b2" "b3",
    .elNew "e", .elAddBP "e" "1" "b", .elAddArray 3 "e" "2" ["wfm", "m1"], .elAddArrayBroken "e" "3",
    .elAddFlags 4 "e" "1", .elCopy "e" "e2", .elMutateBP 5 "e2" "1", .elValidate 6 "e" ]

theorem exLibA_guarded : guarded {} exLibA = true := by decide +kernel

/-- a sequence, its setters, forging -/
def exLibB : List LibCall :=
  [ .bpNew "b", .elNew "e", .elAddBP "e" "1" "b", .sqNew "s", .sqSetSpec 7 "s" "SR", .sqSetFilter 8 "s" "filter:1",
    .sqAddElement 9 "s" "1" "e", .sqSetSeq 10 "s" "1" "nrep", .sqSetSeqSettings 11 "s" "1", .sqSetName 12 "s",
    .sqForge 13 "s" ]

theorem exLibB_guarded : guarded {} exLibB = true := by decide +kernel

/-- a subsequence, copying, editing the copy, forging both -/
def exLibC : List LibCall :=
  [ .bpNew "b", .elNew "e", .elAddBP "e" "1" "b", .sqNew "s", .sqAddElement 1 "s" "1" "e", .sqNew "sub",
    .sqAddElement 2 "sub" "1" "e", .sqAddSub "s" "2" "sub", .sqCopy "s" "s2", .sqElMutate 3 "s2" "1" "1",
    .sqForge 4 "s2", .sqForge 5 "s" ]

theorem exLibC_guarded : guarded {} exLibC = true := by decide +kernel

/-- the sweep tools and `+` -/
def exLibD : List LibCall :=
  [ .bpNew "b", .elNew "e", .elAddBP "e" "1" "b", .tlLinVary 1 "e" "1" ["1", "2"] "lv",
    .tlVary 2 "e" ["1", "2"] [("1", "1"), ("2", "1")] "v", .sqAdd "lv" "v" "u",
    .tlRepVary 3 "lv" 2 [("1", "1")] "rv", .sqForge 4 "rv" ]

theorem exLibD_guarded : guarded {} exLibD = true := by decide +kernel

end BB.Heap
