/-
  BB.Proofs.G4ZeroSeq — `Sequence.forge` with delays on, when every declared delay is 0, against
  `forge` with delays off: the same result up to `Blk.norm` (the unused argument of `waituntil`
  blocks), the same exception otherwise.
-/
import BB.Proofs.G4Zero

namespace BB
open Element

/-! ### generic: `mapM` up to a normalisation of the results -/

theorem g4_mapM_map_post {α β γ : Type} (F : α → Except Err β) (n : β → γ) (l : List α) :
    l.mapM (fun x => (F x).map n) = (l.mapM F).map (List.map n) := by
  induction l with
  | nil => rfl
  | cons a t ih =>
    rw [mapM_cons_eq, mapM_cons_eq, ih]
    cases F a with
    | error e => rfl
    | ok b =>
      simp only [Except.map]
      cases t.mapM F <;> rfl

/-- two passes over lists of the same length whose steps agree up to `n` (same exception, or
    results with the same image under `n`) agree up to `n` -/
theorem g4_mapM_norm_congr {α α' β γ : Type} (F : α → Except Err β) (F' : α' → Except Err β) (n : β → γ)
    (l : List α) (l' : List α') (hl : l'.length = l.length)
    (hp : ∀ i (hi : i < l.length) (hi' : i < l'.length), (F' l'[i]).map n = (F l[i]).map n) :
    (l'.mapM F').map (List.map n) = (l.mapM F).map (List.map n) := by
  induction l generalizing l' with
  | nil =>
    have : l' = [] := List.eq_nil_of_length_eq_zero (by simpa using hl)
    subst this; rfl
  | cons a t ih =>
    cases l' with
    | nil => simp at hl
    | cons a' t' =>
      rw [mapM_cons_eq, mapM_cons_eq]
      have h0 := hp 0 (by simp) (by simp)
      simp only [List.getElem_cons_zero] at h0
      have iht := ih t' (by simpa using hl) (fun i hi hi' => by
        have := hp (i + 1) (by simpa using hi) (by simpa using hi')
        simpa using this)
      cases hfa' : F' a' with
      | error e =>
        rw [hfa'] at h0
        cases hfa : F a with
        | error e2 => rw [hfa] at h0; simp only [Except.map, Except.error.injEq] at h0; subst h0; rfl
        | ok b => rw [hfa] at h0; simp [Except.map] at h0
      | ok b' =>
        rw [hfa'] at h0
        cases hfa : F a with
        | error e2 => rw [hfa] at h0; simp [Except.map] at h0
        | ok b =>
          rw [hfa] at h0
          simp only [Except.map, Except.ok.injEq] at h0
          simp only
          cases ht' : t'.mapM F' with
          | error e =>
            rw [ht'] at iht
            cases ht : t.mapM F with
            | error e2 => rw [ht] at iht; simp only [Except.map, Except.error.injEq] at iht; subst iht; rfl
            | ok bs => rw [ht] at iht; simp [Except.map] at iht
          | ok bs' =>
            rw [ht'] at iht
            cases ht : t.mapM F with
            | error e2 => rw [ht] at iht; simp [Except.map] at iht
            | ok bs =>
              rw [ht] at iht
              simp only [Except.map, Except.ok.injEq] at iht
              simp only [Except.map, List.map_cons, h0, iht]

/-- a second pass that commutes with the normalisation preserves agreement up to it -/
theorem g4_bind_mapM_norm {β γ β2 γ2 : Type} (n : β → γ) (n2 : β2 → γ2) (H : β → Except Err β2)
    (hH : ∀ b b', n b = n b' → (H b).map n2 = (H b').map n2)
    (rx ry : Except Err (List β)) (h : rx.map (List.map n) = ry.map (List.map n)) :
    (rx >>= fun l => l.mapM H).map (List.map n2) = (ry >>= fun l => l.mapM H).map (List.map n2) := by
  cases rx with
  | error e =>
    cases ry with
    | error e2 => simp only [Except.map, Except.error.injEq] at h; subst h; rfl
    | ok ly => simp [Except.map] at h
  | ok lx =>
    cases ry with
    | error e2 => simp [Except.map] at h
    | ok ly =>
      simp only [Except.map, Except.ok.injEq] at h
      simp only [bind, Except.bind]
      have hl : lx.length = ly.length := by simpa using congrArg List.length h
      apply g4_mapM_norm_congr H H n2 ly lx hl
      intro i hi hi'
      apply hH
      have := congrArg (fun l => l[i]?) h
      simpa [List.getElem?_map, List.getElem?_eq_getElem hi, List.getElem?_eq_getElem hi'] using this

namespace Sequence

/-! ### one element -/

def normArr (d : Dict Chan ChOut) : Dict Chan ChOut := d.map (fun x => (x.1, x.2.norm))

/-- the element `_applyDelays` leaves when all delays are 0 -/
def zeroEl (e : Element) (m : Val × Rat) : Element :=
  { chans := e.chans.map (fun x => (x.1, zeroEnt x.2)), cache := some m }

theorem applyDelays_zeros (e : Element) (m : Val × Rat) (hv : e.validate = .ok m) :
    (e.applyDelays (e.chans.map (fun _ => 0))).err = none ∧
    (e.applyDelays (e.chans.map (fun _ => 0))).st = zeroEl e m := by
  obtain ⟨⟨sr, hsr⟩, _⟩ := g4_validate_SR e m hv
  have hnb := g4_validate_not_broken e m hv
  have hmap : (e.chans.zip (e.chans.map (fun _ => (0 : Rat)))).mapM
      (fun p => (delayChan sr (maxR (e.chans.map (fun _ => (0 : Rat)))) p.1.2 p.2).map (fun y => (p.1.1, y))) =
      .ok (e.chans.map (fun x => (x.1, zeroEnt x.2))) := by
    apply g4_mapM_ok_of_getElem
    · simp
    · intro i hi hr
      have hi0 : i < e.chans.length := by simpa using hi
      simp only [List.getElem_zip, List.getElem_map, g4_maxR_zeros]
      rw [delayChan_zero sr _ (hnb _ (List.getElem_mem hi0))]
      rfl
  unfold applyDelays
  have hany : (e.chans.map (fun _ => (0 : Rat))).any (· < 0) = false := by
    simp
  simp only [List.length_map, ne_eq, not_true_eq_false, if_false, hany, Bool.false_eq_true, hv, hsr, hmap, zeroEl,
    and_self]

theorem delayElement_zero (s : Sequence) (hz : ∀ ch, s.delayOf ch = .ok 0) (e : Element) (m : Val × Rat)
    (hv : e.validate = .ok m) : s.delayElement e = .ok (zeroEl e m) := by
  have hds : e.channels.mapM s.delayOf = .ok (e.chans.map (fun _ => (0 : Rat))) := by
    rw [mapM_ok_of_forall s.delayOf (fun _ => (0 : Rat)) e.channels (fun x _ => hz x)]
    simp [Element.channels, Dict.keys, List.map_map, Function.comp_def]
  obtain ⟨h1, h2⟩ := applyDelays_zeros e m hv
  rw [← h2]
  exact g4_delayElement_intro s e _ hds h1

theorem getArrays_zeroEl (e : Element) (m : Val × Rat) (t : Bool) :
    ((zeroEl e m).getArrays t).map normArr = (e.getArrays t).map normArr := by
  unfold Element.getArrays normArr zeroEl
  apply g4_mapM_norm_congr
  · simp
  · intro i hi hi'
    simp only [List.getElem_map]
    have := chanOut_zeroEnt t (e.chans[i]).2
    cases h1 : chanOut t (zeroEnt (e.chans[i]).2) <;> cases h2 : chanOut t (e.chans[i]).2 <;> rw [h1, h2] at this <;>
      simp only [Except.map, Except.ok.injEq, Except.error.injEq, reduceCtorEq] at this ⊢
    · exact this
    · rw [this]

/-! ### one entry -/

/-- the delayed element, with the cache `validateDurations` writes -/
def zeroElV (e : Element) : Element :=
  match e.validate with
  | .ok m => zeroEl e m
  | .error _ => e

def zeroEntry : Entry → Entry
  | .el e => .el (zeroElV e)
  | .sub sub => .sub { sub with data := sub.data.map (fun pe => (pe.1, zeroElV pe.2)) }

/-- every element the entry holds validates -/
def EntryValid : Entry → Prop
  | .el e => ∃ m, e.validate = .ok m
  | .sub sub => ∀ pe ∈ sub.data, ∃ m, pe.2.validate = .ok m

theorem delayEntry_zero (s : Sequence) (hz : ∀ ch, s.delayOf ch = .ok 0) (en : Entry) (hv : EntryValid en) :
    s.delayEntry true en = .ok (zeroEntry en) := by
  cases en with
  | el e =>
    obtain ⟨m, hm⟩ := hv
    simp only [delayEntry, if_true, delayElement_zero s hz e m hm, Except.map, zeroEntry, zeroElV, hm]
  | sub sub =>
    simp only [delayEntry, if_true, zeroEntry]
    rw [mapM_ok_of_forall _ (fun pe => (pe.1, zeroElV pe.2)) sub.data]
    · rfl
    · intro pe hpe
      obtain ⟨m, hm⟩ := hv pe hpe
      simp only [delayElement_zero s hz pe.2 m hm, Except.map, zeroElV, hm]

theorem getArrays_zeroElV (e : Element) (t : Bool) :
    ((zeroElV e).getArrays t).map normArr = (e.getArrays t).map normArr := by
  unfold zeroElV
  split
  · exact getArrays_zeroEl e _ t
  · rfl

def normRawContent (c : RawContent) : RawContent := c.map (fun x => (x.1, normArr x.2.1, x.2.2))

def normRaw (x : Nat × SeqSet × Bool × RawContent) : Nat × SeqSet × Bool × RawContent :=
  (x.1, x.2.1, x.2.2.1, normRawContent x.2.2.2)

theorem g4_get?_map_val {α β : Type} (d : Dict Int α) (g : α → β) (k : Int) :
    Dict.get? (d.map (fun pe => (pe.1, g pe.2))) k = (Dict.get? d k).map g := by
  induction d with
  | nil => rfl
  | cons x xs ih =>
    unfold Dict.get? at *
    simp only [List.map_cons, List.find?_cons]
    by_cases hk : x.1 = k
    · simp [hk]
    · simp only [hk, decide_false]
      exact ih

theorem forgeEntry_zero (s : Sequence) (t : Bool) (p : Nat) (en : Entry) :
    (s.forgeEntry t (p, zeroEntry en)).map normRaw = (s.forgeEntry t (p, en)).map normRaw := by
  unfold forgeEntry
  simp only
  cases Dict.get? s.sequencing (p : Int) with
  | none => rfl
  | some sq =>
    simp only
    cases en with
    | el e =>
      simp only [zeroEntry]
      have := getArrays_zeroElV e t
      cases h1 : (zeroElV e).getArrays t <;> cases h2 : e.getArrays t <;> rw [h1, h2] at this <;>
        simp only [Except.map, Except.ok.injEq, Except.error.injEq, reduceCtorEq] at this ⊢
      · exact this
      · simp only [normRaw, normRawContent, List.map_cons, List.map_nil, this]
    | sub sub =>
      simp only [zeroEntry]
      have hin : (forgeInner t { sub with data := sub.data.map (fun pe => (pe.1, zeroElV pe.2)) }).map normRawContent =
          (forgeInner t sub).map normRawContent := by
        unfold forgeInner normRawContent
        simp only [List.length_map]
        apply g4_mapM_norm_congr
        · rfl
        · intro j hj hj'
          simp only [List.getElem_range]
          rw [g4_get?_map_val]
          cases Dict.get? sub.data ((j + 1 : Nat) : Int) with
          | none => rfl
          | some e =>
            simp only [Option.map_some]
            have := getArrays_zeroElV e t
            cases h1 : (zeroElV e).getArrays t <;> cases h2 : e.getArrays t <;> rw [h1, h2] at this <;>
              simp only [Except.map, Except.ok.injEq, Except.error.injEq, reduceCtorEq] at this ⊢
            · exact this
            · cases Dict.get? sub.sequencing ((j + 1 : Nat) : Int) with
              | none => rfl
              | some q2 => simp only [this]
      cases h1 : forgeInner t { sub with data := sub.data.map (fun pe => (pe.1, zeroElV pe.2)) } <;>
        cases h2 : forgeInner t sub <;> rw [h1, h2] at hin <;>
        simp only [Except.map, Except.ok.injEq, Except.error.injEq, reduceCtorEq] at hin ⊢
      · exact hin
      · simp only [normRaw, hin]

/-! ### the filter step commutes with the normalisation -/

def ChOutF.norm (c : ChOutF) : ChOutF := { c with out := c.out.norm }
def normDict (d : Dict Chan ChOutF) : Dict Chan ChOutF := d.map (fun x => (x.1, ChOutF.norm x.2))
def ForgedPos.norm (p : ForgedPos) : ForgedPos :=
  { p with content := p.content.map (fun c => (c.1, normDict c.2.1, c.2.2)) }
/-- the forged sequence with the unused argument of every `waituntil` block erased -/
def normOut (out : List (Nat × ForgedPos)) : List (Nat × ForgedPos) := out.map (fun x => (x.1, ForgedPos.norm x.2))

theorem withFilters_norm (s : Sequence) (f : Bool) (arr : Dict Chan ChOut) :
    s.withFilters f (normArr arr) = (s.withFilters f arr).map normDict := by
  unfold withFilters normArr normDict
  rw [g4_mapM_map_eq, ← g4_mapM_map_post]
  apply mapM_congr_fun_g4
  intro x _
  unfold attach
  cases f with
  | false => rfl
  | true =>
    simp only [if_true]
    cases s.filterOf x.1 <;> rfl

theorem filterEntry_norm (s : Sequence) (f : Bool) (x : Nat × SeqSet × Bool × RawContent) :
    s.filterEntry f (normRaw x) = (s.filterEntry f x).map (fun y => (y.1, ForgedPos.norm y.2)) := by
  unfold filterEntry normRaw normRawContent
  simp only
  rw [g4_mapM_map_eq]
  have : (fun (c : Nat × Dict Chan ChOut × Option SeqSet) =>
        (s.withFilters f (normArr c.2.1)).map (fun a => (c.1, a, c.2.2))) =
      (fun c => ((s.withFilters f c.2.1).map (fun a => (c.1, a, c.2.2))).map
        (fun (c : Nat × Dict Chan ChOutF × Option SeqSet) => (c.1, normDict c.2.1, c.2.2))) := by
    funext c
    rw [withFilters_norm]
    cases s.withFilters f c.2.1 <;> rfl
  rw [this, g4_mapM_map_post]
  cases x.2.2.2.mapM (fun c => (s.withFilters f c.2.1).map (fun a => (c.1, a, c.2.2))) <;> rfl

/-! ### the sequence -/

theorem consistent_entry_valid (s : Sequence) (hc : s.checkConsistency = .ok true) (p : Int) (en : Entry)
    (h : Dict.get? s.data p = some en) : EntryValid en := by
  cases en with
  | el e => exact g4_consistent_element_validates s hc p e h
  | sub sub =>
    obtain ⟨_, hsc, _⟩ := g4_sub_consistent s hc p sub h
    intro pe hpe
    -- membership is enough: the gate validates every stored element
    unfold SubSeq.checkConsistency at hsc
    split at hsc
    · cases hsc
    · split at hsc
      · cases hsc
      · rename_i srs hsrs
        have m : pe.2 ∈ Dict.vals sub.data := List.mem_map.mpr ⟨pe, hpe, rfl⟩
        obtain ⟨v, _, hv⟩ := mapM_mem _ _ _ hsrs _ m
        simp only [Element.getSR] at hv
        cases hval : pe.2.validate with
        | error er => rw [hval] at hv; simp [Except.map] at hv
        | ok m => exact ⟨m, rfl⟩

/-- **all delays zero: `forge` with delays on = `forge` with delays off** — the same exception,
    or results that agree in everything (positions, sequencing, channel ids and order, markers,
    flags, time axis, filter annotations, number and kind of blocks with their sample counts and
    arguments) except the unused `dummy` argument of `waituntil` blocks, which `normOut` erases -/
theorem forge_zero_delays (s : Sequence) (hz : ∀ ch, s.delayOf ch = .ok 0) (f t : Bool) :
    (s.forge true f t).map normOut = (s.forge false f t).map normOut := by
  unfold forge
  cases hc : s.checkConsistency with
  | error e => rfl
  | ok b =>
    cases b with
    | false => rfl
    | true =>
      simp only
      cases s.channels with
      | error e => rfl
      | ok _ =>
        simp only
        cases hents : s.entriesInOrder with
        | error e => rfl
        | ok ents =>
          simp only
          obtain ⟨_, hget⟩ := entriesInOrder_spec s ents hents
          -- the delay pass succeeds on every entry
          have hdel : ents.mapM (fun x => (s.delayEntry true x.2).map (fun en => (x.1, en))) =
              .ok (ents.map (fun x => (x.1, zeroEntry x.2))) := by
            apply mapM_ok_of_forall
            intro x hx
            obtain ⟨i, hi, rfl⟩ := List.getElem_of_mem hx
            rw [delayEntry_zero s hz _ (consistent_entry_valid s hc _ _ (hget i hi).2)]
            rfl
          have hoff : ents.mapM (fun x => (s.delayEntry false x.2).map (fun en => (x.1, en))) = .ok ents := by
            have := mapM_ok_of_forall (fun (x : Nat × Entry) => (s.delayEntry false x.2).map (fun en => (x.1, en)))
              (fun x => x) ents (fun x _ => by cases x with | mk p en => cases en <;> rfl)
            simpa using this
          rw [hdel, hoff]
          simp only
          -- the array pass agrees up to the normalisation
          have h2 : ((ents.map (fun x => (x.1, zeroEntry x.2))).mapM (s.forgeEntry t)).map (List.map normRaw) =
              (ents.mapM (s.forgeEntry t)).map (List.map normRaw) := by
            apply g4_mapM_norm_congr
            · simp
            · intro i hi hi'
              simp only [List.getElem_map]
              exact forgeEntry_zero s t _ _
          -- and the filter pass commutes with it
          have h3 := g4_bind_mapM_norm normRaw (fun (y : Nat × ForgedPos) => (y.1, ForgedPos.norm y.2)) (s.filterEntry f)
            (fun b b' hb => by
              have e1 := filterEntry_norm s f b
              have e2 := filterEntry_norm s f b'
              rw [hb] at e1
              rw [← e1, ← e2]) _ _ h2
          simp only [bind, Except.bind] at h3
          unfold normOut
          cases hA : (ents.map (fun x => (x.1, zeroEntry x.2))).mapM (s.forgeEntry t) <;>
            cases hB : ents.mapM (s.forgeEntry t) <;> rw [hA, hB] at h3 <;> simp only at h3 ⊢ <;> exact h3

end Sequence
end BB
