/-
  BB.Proofs.G3Check — decidable (Bool) versions of the per-cell side conditions of the C14/C15
  error theorems, so that their hypotheses can be discharged on concrete sequences by evaluation;
  and the concrete sequences used in the non-vacuity examples of C07, C14, C15.
-/
import BB.Proofs.G3Awg
import BB.Model.Tools

namespace BB
namespace G3
open Sequence

/-- a decidable check of a property of every looked-up (forged element, channel) cell -/
def cellCheck (P : List (Dict Chan ChOutF)) (chans : List Chan) (f : Chan → ChOutF → Bool) : Bool :=
  P.all (fun el => chans.all (fun ch => match lookupCh el ch with | .ok c => f ch c | .error _ => true))

theorem cellCheck_spec (P : List (Dict Chan ChOutF)) (chans : List Chan) (f : Chan → ChOutF → Bool)
    (h : cellCheck P chans f = true) :
    ∀ el ∈ P, ∀ ch ∈ chans, ∀ c, lookupCh el ch = .ok c → f ch c = true := by
  intro el hel ch hch c hc
  unfold cellCheck at h
  rw [List.all_eq_true] at h
  have h1 := h el hel
  rw [List.all_eq_true] at h1
  have h2 := h1 ch hch
  rw [hc] at h2
  exact h2

/-- the cell holds a waveform -/
def waveB (_ : Chan) (c : ChOutF) : Bool := (chWave c).toOption.isSome

/-- the cell holds a waveform and both markers -/
def fullB (_ : Chan) (c : ChOutF) : Bool :=
  (chWave c).toOption.isSome && (chMarker c 1).toOption.isSome && (chMarker c 2).toOption.isSome

/-- the cell's waveform is evaluable in the model -/
def evalB (_ : Chan) (c : ChOutF) : Bool :=
  match chWave c with
  | .ok w => w.eval?.isSome
  | .error _ => true

/-- AWG5014: an evaluable waveform is non-empty and within `[offset - amplitude/2, offset + amplitude/2]` -/
def awgRangeB (s : Sequence) (ch : Chan) (c : ChOutF) : Bool :=
  match chWave c, s.specNum (keyOf ch "amplitude"), s.specNum (keyOf ch "offset") with
  | .ok w, some a, some o =>
    match w.eval? with
    | some xs => !xs.isEmpty && xs.all (fun x => decide (o - a / 2 ≤ x) && decide (x ≤ o + a / 2))
    | none => true
  | _, _, _ => true

/-- AWG70000A: at least 2400 points, and an evaluable waveform within ± amplitude/2 -/
def seqxLimB (s : Sequence) (ch : Chan) (c : ChOutF) : Bool :=
  match chWave c, s.specNum (keyOf ch "amplitude") with
  | .ok w, some a =>
    decide (2400 ≤ w.len) &&
    (match w.eval? with
     | some xs => xs.all (fun x => decide (-a / 2 ≤ x) && decide (x ≤ a / 2))
     | none => true)
  | _, _ => true

theorem isSome_toOption {ε α : Type} (x : Except ε α) (h : x.toOption.isSome = true) : ∃ v, x = .ok v := by
  cases x with
  | error e => cases h
  | ok v => exact ⟨v, rfl⟩

theorem waveB_spec (P : List (Dict Chan ChOutF)) (chans : List Chan) (h : cellCheck P chans waveB = true) :
    ∀ el ∈ P, ∀ ch ∈ chans, ∀ c, lookupCh el ch = .ok c → ∃ w, chWave c = .ok w := by
  intro el hel ch hch c hc
  exact isSome_toOption _ (cellCheck_spec P chans _ h el hel ch hch c hc)

theorem evalB_spec (P : List (Dict Chan ChOutF)) (chans : List Chan) (h : cellCheck P chans evalB = true) :
    ∀ el ∈ P, ∀ ch ∈ chans, ∀ c w, lookupCh el ch = .ok c → chWave c = .ok w → w.eval? ≠ none := by
  intro el hel ch hch c w hc hw
  have := cellCheck_spec P chans _ h el hel ch hch c hc
  unfold evalB at this
  rw [hw] at this
  simp only at this
  intro hn
  rw [hn] at this
  cases this

theorem awgRangeB_spec (s : Sequence) (P : List (Dict Chan ChOutF)) (chans : List Chan)
    (h : cellCheck P chans (awgRangeB s) = true) :
    ∀ el ∈ P, ∀ ch ∈ chans, ∀ c w xs a o, lookupCh el ch = .ok c → chWave c = .ok w → w.eval? = some xs →
      s.specNum (keyOf ch "amplitude") = some a → s.specNum (keyOf ch "offset") = some o →
      xs ≠ [] ∧ ∀ x ∈ xs, o - a / 2 ≤ x ∧ x ≤ o + a / 2 := by
  intro el hel ch hch c w xs a o hc hw hxs ha ho
  have := cellCheck_spec P chans _ h el hel ch hch c hc
  unfold awgRangeB at this
  rw [hw, ha, ho] at this
  simp only [hxs, Bool.and_eq_true, Bool.not_eq_true', List.all_eq_true, decide_eq_true_eq] at this
  refine ⟨?_, this.2⟩
  intro he
  rw [he] at this
  simp at this

theorem seqxLimB_spec (s : Sequence) (P : List (Dict Chan ChOutF)) (chans : List Chan)
    (h : cellCheck P chans (seqxLimB s) = true) :
    ∀ el ∈ P, ∀ ch ∈ chans, ∀ c w a, lookupCh el ch = .ok c → chWave c = .ok w →
      s.specNum (keyOf ch "amplitude") = some a →
      2400 ≤ w.len ∧ ∀ xs, w.eval? = some xs → ∀ x ∈ xs, -a / 2 ≤ x ∧ x ≤ a / 2 := by
  intro el hel ch hch c w a hc hw ha
  have := cellCheck_spec P chans _ h el hel ch hch c hc
  unfold seqxLimB at this
  rw [hw, ha] at this
  simp only [Bool.and_eq_true, decide_eq_true_eq] at this
  refine ⟨this.1, ?_⟩
  intro xs hxs
  have h2 := this.2
  rw [hxs] at h2
  simpa using h2

/-- every channel has a numeric amplitude (and, with `off`, a numeric offset) -/
def numB (s : Sequence) (chans : List Chan) (off : Bool) : Bool :=
  chans.all (fun ch => (s.specNum (keyOf ch "amplitude")).isSome && (!off || (s.specNum (keyOf ch "offset")).isSome))

theorem numB_spec_amp (s : Sequence) (chans : List Chan) (off : Bool) (h : numB s chans off = true) :
    ∀ ch ∈ chans, ∃ a, s.specNum (keyOf ch "amplitude") = some a := by
  intro ch hch
  unfold numB at h
  rw [List.all_eq_true] at h
  have := h ch hch
  simp only [Bool.and_eq_true] at this
  exact Option.isSome_iff_exists.mp this.1

theorem numB_spec (s : Sequence) (chans : List Chan) (h : numB s chans true = true) :
    ∀ ch ∈ chans, (∃ a, s.specNum (keyOf ch "amplitude") = some a) ∧ (∃ o, s.specNum (keyOf ch "offset") = some o) := by
  intro ch hch
  refine ⟨numB_spec_amp s chans true h ch hch, ?_⟩
  unfold numB at h
  rw [List.all_eq_true] at h
  have := h ch hch
  simp only [Bool.and_eq_true, Bool.not_true, Bool.false_or] at this
  exact Option.isSome_iff_exists.mp this.2

/-- a decidable check of a property of the sequencing entries of positions 1..N -/
def seqCheck (s : Sequence) (N : Nat) (f : SeqSet → Bool) : Bool :=
  (List.range N).all (fun p => match Dict.get? s.sequencing ((p + 1 : Nat) : Int) with | some q => f q | none => true)

theorem seqCheck_spec (s : Sequence) (N : Nat) (f : SeqSet → Bool) (h : seqCheck s N f = true) :
    ∀ p, p < N → ∀ q, Dict.get? s.sequencing ((p + 1 : Nat) : Int) = some q → f q = true := by
  intro p hp q hq
  unfold seqCheck at h
  rw [List.all_eq_true] at h
  have := h p (by simpa using hp)
  rw [hq] at this
  exact this

/-! ### concrete sequences for the non-vacuity examples -/
namespace Ex

/-- a raw-array channel with both markers -/
def arr (xs : List Rat) : ChEntry :=
  { data := .arr [("m1", xs.map (fun _ => 0)), ("m2", xs.map (fun _ => 1)), ("wfm", xs)] (.num 10) }

def el1 : Element := { chans := [(.int 1, arr [0, 1/2, 1]), (.str "A", { arr [0, -1/4, 1/4] with flags := some [1, 0, 4, 2] })] }
def el2 : Element := { chans := [(.str "A", arr [0, 0, 1/4]), (.int 1, arr [1, 3/2, 2])] }

def specs : Dict String Spec :=
  [("SR", .val (.num 10)), ("channel1_amplitude", .val (.num 2)), ("channel1_offset", .val (.num 1)),
   ("channelA_amplitude", .val (.num 1)), ("channelA_offset", .val (.num 0))]

/-- two positions, added as 2 then 1; channels 1 (range [0, 2]) and "A" (range [-1/2, 1/2]) -/
def seq : Sequence :=
  { data := [(2, .el el2), (1, .el el1)],
    sequencing := [(2, ⟨0, 1, 0, 0, 1⟩), (1, ⟨1, 5, 0, 2, 0⟩)],
    awgspecs := specs, name := "ex" }

/-- positions 1 and 3: a hole -/
def seqHole : Sequence := { seq with data := [(3, .el el2), (1, .el el1)] }
/-- no sample rate -/
def seqNoSR : Sequence := { seq with awgspecs := specs.filter (·.1 ≠ "SR") }
/-- sequencing entries keyed 1 and 3 -/
def seqBadKeys : Sequence := { seq with sequencing := [(3, ⟨0, 1, 0, 0, 1⟩), (1, ⟨1, 5, 0, 2, 0⟩)] }
/-- channel "A" has no amplitude -/
def seqNoAmp : Sequence := { seq with awgspecs := specs.filter (·.1 ≠ "channelA_amplitude") }
/-- channel "A" has no offset -/
def seqNoOff : Sequence := { seq with awgspecs := specs.filter (·.1 ≠ "channelA_offset") }
/-- channel 1 at position 2 reaches 2 + 1/1000 > offset + amplitude/2 -/
def seqBadV : Sequence := { seq with data := [(2, .el { chans := [(.str "A", arr [0, 0, 1/4]), (.int 1, arr [1, 3/2, 2 + 1/1000])] }), (1, .el el1)] }
/-- 65537 repetitions at position 2 -/
def seqBadRep : Sequence := { seq with sequencing := [(2, ⟨0, 65537, 0, 0, 1⟩), (1, ⟨1, 5, 0, 2, 0⟩)] }

/-- a one-channel blueprint element (two ramps) and a one-position sequence holding it -/
def bp : BP :=
  { segs := [ { name := "ramp", fn := Fn.rampFn, args := [.num 0, .num 1], dur := .num 1 },
              { name := "ramp2", fn := Fn.rampFn, args := [.num 1, .num 0], dur := .num 1 } ],
    SR := .num 10 }
def bpEl : Element := { chans := [(.int 1, { data := ChData.bp bp })] }
def bpSeq : Sequence :=
  { data := [(1, .el bpEl)], sequencing := [(1, ⟨0, 1, 0, 0, 0⟩)], awgspecs := [("SR", .val (.num 10))] }
def bpVar : Tools.Variation := ⟨.int 1, "ramp", .str "stop", [.num 1, .num 2]⟩

def P : List (Dict Chan ChOutF) := seq.prepareForOutputting.toOption.getD []
def PBadV : List (Dict Chan ChOutF) := seqBadV.prepareForOutputting.toOption.getD []
def chans : List Chan := [.int 1, .str "A"]

/-- 2400 samples -/
def long (v : Rat) (n : Nat := 2400) : List Rat := List.replicate n v

def xel0 : Element := { chans := [(.int 1, arr (long (1/2))), (.str "A", arr (long (-1/4)))] }
/-- the flag tokens given to `addFlags`: High, no change, Pulse, Low -/
def tokens : List Val := [.str "H", .num 0, .str "P", .num 2]
/-- position 1 of the SEQX example: flags added on channel "A" through `addFlags` -/
def xel1 : Element := (xel0.addFlags (.str "A") tokens).st
def xel2 : Element := { chans := [(.str "A", arr (long (1/4))), (.int 1, arr (long 1))] }

/-- the SEQX example: two positions of 2400 points, flags on channel "A" of position 1 -/
def xseq : Sequence :=
  { data := [(2, .el xel2), (1, .el xel1)],
    sequencing := [(2, ⟨0, 1, 3, 0, 1⟩), (1, ⟨3, 16383, 0, 2, 0⟩)],
    awgspecs := specs, name := "exx" }

/-- 2399 points on channel 1 of position 2 -/
def xseqShort : Sequence :=
  { xseq with data := [(2, .el { chans := [(.str "A", arr (long (1/4) 2399)), (.int 1, arr (long 1 2399))] }), (1, .el xel1)] }
/-- channel "A" at position 2 sits at 1/2 + 1/1000 > amplitude/2 -/
def xseqBadV : Sequence :=
  { xseq with data := [(2, .el { chans := [(.str "A", arr (long (1/2 + 1/1000))), (.int 1, arr (long 1))] }), (1, .el xel1)] }
/-- 16384 repetitions at position 1 -/
def xseqBadRep : Sequence := { xseq with sequencing := [(2, ⟨0, 1, 3, 0, 1⟩), (1, ⟨3, 16384, 0, 2, 0⟩)] }

def XP : List (Dict Chan ChOutF) := xseq.prepareForOutputting.toOption.getD []
def XPShort : List (Dict Chan ChOutF) := xseqShort.prepareForOutputting.toOption.getD []
def XPBadV : List (Dict Chan ChOutF) := xseqBadV.prepareForOutputting.toOption.getD []
def XPBadRep : List (Dict Chan ChOutF) := xseqBadRep.prepareForOutputting.toOption.getD []

theorem prepare_eq (s : Sequence) (h : s.prepareForOutputting.toOption.isSome = true) :
    s.prepareForOutputting = .ok (s.prepareForOutputting.toOption.getD []) := by
  obtain ⟨v, hv⟩ := isSome_toOption _ h
  rw [hv]; rfl

theorem seq_prepare : seq.prepareForOutputting = .ok P := prepare_eq seq (by decide +kernel)
theorem seqBadV_prepare : seqBadV.prepareForOutputting = .ok PBadV := prepare_eq seqBadV (by decide +kernel)
theorem seqBadRep_prepare : seqBadRep.prepareForOutputting = .ok P := by
  have : seqBadRep.prepareForOutputting.toOption = some P := by decide +kernel
  exact toOption_eq_some _ _ this
theorem xseq_prepare : xseq.prepareForOutputting = .ok XP := prepare_eq xseq (by decide +kernel)
theorem xseqShort_prepare : xseqShort.prepareForOutputting = .ok XPShort := prepare_eq xseqShort (by decide +kernel)
theorem xseqBadV_prepare : xseqBadV.prepareForOutputting = .ok XPBadV := prepare_eq xseqBadV (by decide +kernel)
theorem xseqBadRep_prepare : xseqBadRep.prepareForOutputting = .ok XPBadRep :=
  prepare_eq xseqBadRep (by decide +kernel)

theorem seq_channels : seq.channels = .ok chans := toOption_eq_some _ _ (by decide +kernel)
theorem seqBadV_channels : seqBadV.channels = .ok chans := toOption_eq_some _ _ (by decide +kernel)
theorem seqBadRep_channels : seqBadRep.channels = .ok chans := toOption_eq_some _ _ (by decide +kernel)
theorem xseq_channels : xseq.channels = .ok chans := toOption_eq_some _ _ (by decide +kernel)
theorem xseqShort_channels : xseqShort.channels = .ok chans := toOption_eq_some _ _ (by decide +kernel)
theorem xseqBadV_channels : xseqBadV.channels = .ok chans := toOption_eq_some _ _ (by decide +kernel)
theorem xseqBadRep_channels : xseqBadRep.channels = .ok chans := toOption_eq_some _ _ (by decide +kernel)

theorem seq_awg_ok : ∃ d pkg, seq.outputForAWGFile = .ok d ∧ d.pkg = some pkg ∧ d.thenErr = none := by
  have h : (seq.outputForAWGFile.toOption.map (fun d => d.pkg.isSome && d.thenErr.isNone)) = some true := by
    decide +kernel
  cases hx : seq.outputForAWGFile with
  | error e => rw [hx] at h; cases h
  | ok d =>
    rw [hx] at h
    simp only [Except.toOption, Option.map_some, Option.some.injEq, Bool.and_eq_true, Option.isNone_iff_eq_none] at h
    cases hp : d.pkg with
    | none => rw [hp] at h; simp at h
    | some pkg => exact ⟨d, pkg, rfl, hp, h.2⟩

end Ex
end G3
end BB
