/-
  BB.Proofs.G5Values — what one accepted `changeArg` / `changeDuration` of a sweep does to an element,
  slot by slot (C17): the addressed argument or duration holds the new value, every other slot of
  every segment on every channel is as before, and the skeleton of the element (channels, flags,
  names, functions, markers, arities, raw arrays) is untouched.
-/
import BB.Proofs.Sweep
import BB.Proofs.Blueprint
import BB.Proofs.G5Add
import BB.Proofs.G5Sweep

namespace BB.G5
open BB BB.Tools

/-- a value slot of a segment: its duration or its `k`-th argument -/
inductive Slot where
  | dur
  | arg (k : ℕ)
  deriving DecidableEq, Repr

def readSlot (s : Seg) : Slot → Option Val
  | .dur => some s.dur
  | .arg k => s.args[k]?

def writeSlot (sl : Slot) (v : Val) (s : Seg) : Seg :=
  match sl with
  | .dur => { s with dur := v }
  | .arg k => { s with args := s.args.set k v }

/-- the slot an argument specification of a sweep (`'duration'`, a parameter name, a position)
    addresses in a segment; `none` where the implementation raises -/
def slotOf (s : Seg) (arg : Val) : Option Slot :=
  if arg = .str "duration" then some .dur
  else if s.fn.special then none
  else match BP.argIndex s arg with
    | .ok k => if k < s.args.length then some (.arg k) else none
    | .error _ => none

theorem slotOf_writeSlot (sl : Slot) (v : Val) (s : Seg) (arg : Val) : slotOf (writeSlot sl v s) arg = slotOf s arg := by
  cases sl with
  | dur => rfl
  | arg k =>
    unfold slotOf writeSlot BP.argIndex
    simp only [List.length_set]

theorem readSlot_writeSlot_self (sl : Slot) (v : Val) (s : Seg) (h : ∀ k, sl = .arg k → k < s.args.length) :
    readSlot (writeSlot sl v s) sl = some v := by
  cases sl with
  | dur => rfl
  | arg k =>
    have := h k rfl
    simp [readSlot, writeSlot, this]

theorem readSlot_writeSlot_other (sl sl' : Slot) (v : Val) (s : Seg) (h : sl' ≠ sl) :
    readSlot (writeSlot sl v s) sl' = readSlot s sl' := by
  cases sl with
  | dur =>
    cases sl' with
    | dur => exact absurd rfl h
    | arg k => rfl
  | arg k =>
    cases sl' with
    | dur => rfl
    | arg k' =>
      have : k ≠ k' := fun e => h (by rw [e])
      simp [readSlot, writeSlot, List.getElem?_set_ne this]

/-- the blueprint on a channel -/
def bpAt (e : Element) (ch : Chan) : Option BP :=
  match Dict.get? e.chans ch with
  | some ent => (match ent.data with | .bp b => some b | _ => none)
  | none => none

/-- the segment called `name` of the blueprint on channel `ch` -/
def segAt (e : Element) (ch : Chan) (name : String) : Option Seg :=
  (bpAt e ch).bind (fun b => (b.indexOf? name).bind (fun i => b.segs[i]?))

/-- channel, segment name, slot -/
abbrev Address := Chan × String × Slot

def readAt (e : Element) (a : Address) : Option Val := (segAt e a.1 a.2.1).bind (fun s => readSlot s a.2.2)

/-- the address a variation writes to -/
def addrOf (e : Element) (v : Variation) : Option Address :=
  (segAt e v.chan v.name).bind (fun s => (slotOf s v.arg).map (fun sl => (v.chan, v.name, sl)))

/-- every blueprint of the element has pairwise distinct segment names (true of every blueprint
    stored with `addBluePrint`, which stores `copy()`: `BP.inv_copy`, `BP.inv_nodup`) -/
def NamesOk (e : Element) : Prop := ∀ ch b, bpAt e ch = some b → b.names.Nodup

/-! ### blueprint level -/

theorem names_length (b : BP) : b.names.length = b.segs.length := by simp [BP.names]

theorem indexOf_spec (b : BP) (name : String) (i : ℕ) (h : b.indexOf? name = some i) :
    ∃ hi : i < b.segs.length, (b.segs[i]).name = name := by
  unfold BP.indexOf? at h
  simp only at h
  split at h
  · rename_i hlt
    cases h
    refine ⟨hlt, ?_⟩
    have hlt' : b.names.idxOf name < b.names.length := by rw [names_length]; exact hlt
    have := List.getElem_idxOf hlt'
    rw [BP.names_getElem b _ hlt] at this
    exact this
  · cases h

theorem indexOf_of_contains (b : BP) (name : String) (h : b.names.contains name = true) :
    ∃ i, b.indexOf? name = some i := by
  unfold BP.indexOf?
  have hm : name ∈ b.names := by simpa using h
  have := List.idxOf_lt_length_iff.mpr hm
  rw [names_length] at this
  refine ⟨b.names.idxOf name, ?_⟩
  simp only [this, if_true]

theorem indexOf_congr (b b' : BP) (name : String) (h : b'.names = b.names) : b'.indexOf? name = b.indexOf? name := by
  unfold BP.indexOf?
  have : b'.segs.length = b.segs.length := by rw [← names_length, ← names_length, h]
  rw [h, this]

theorem writeSlot_name (sl : Slot) (v : Val) (s : Seg) : (writeSlot sl v s).name = s.name := by
  cases sl <;> rfl

theorem modify_write_names (b : BP) (i : ℕ) (sl : Slot) (v : Val) :
    ({ b with segs := b.segs.modify i (writeSlot sl v) } : BP).names = b.names := by
  unfold BP.names
  exact BP.modify_names b.segs i _ (writeSlot_name sl v)

/-- with distinct names, "every segment called `name`" is "segment `i`" -/
theorem map_setDur_eq_modify (b : BP) (name : String) (d : ℚ) (i : ℕ) (hnd : b.names.Nodup)
    (hi : b.indexOf? name = some i) :
    b.segs.map (BP.setDur [name] d) = b.segs.modify i (writeSlot .dur (.num d)) := by
  obtain ⟨hlt, hname⟩ := indexOf_spec b name i hi
  apply List.ext_getElem
  · simp
  · intro j h1 h2
    simp only [List.getElem_map, List.getElem_modify]
    have hj : j < b.segs.length := by simpa using h1
    by_cases hij : i = j
    · subst hij
      simp only [if_true, BP.setDur, writeSlot]
      simp [hname]
    · simp only [hij, if_false, BP.setDur]
      have : (b.segs[j]).name ≠ name := by
        intro hn
        apply hij
        have e1 : b.names[i]'(by rw [names_length]; exact hlt) = b.names[j]'(by rw [names_length]; exact hj) := by
          simp only [BP.names, List.getElem_map, hname, hn]
        exact (List.Nodup.getElem_inj_iff hnd).mp e1
      simp [this]

/-- an accepted `changeDuration(name, d)` (not `replaceeverywhere`) rewrites exactly segment `i` -/
theorem changeDuration_shape (b : BP) (name : String) (val : Val) (hnd : b.names.Nodup)
    (hok : (b.changeDuration name val false).err = none) :
    ∃ i seg d, val = .num d ∧ b.indexOf? name = some i ∧ b.segs[i]? = some seg ∧
      (b.changeDuration name val false).st = { b with segs := b.segs.modify i (writeSlot .dur val) } := by
  cases val with
  | num d =>
    unfold BP.changeDuration at hok ⊢
    simp only [BP.targets, Bool.false_eq_true, if_false] at hok ⊢
    by_cases hc : b.names.contains name = true
    · rw [if_neg (not_not.mpr hc)] at hok ⊢
      by_cases h1 : Gen.durNonPositive d = true
      · rw [if_pos h1] at hok; cases hok
      · rw [if_neg h1] at hok ⊢
        by_cases h2 : BP.durTooShort b.SR d = true
        · rw [if_pos h2] at hok; cases hok
        · rw [if_neg h2]
          obtain ⟨i, hi⟩ := indexOf_of_contains b name hc
          obtain ⟨hlt, _⟩ := indexOf_spec b name i hi
          refine ⟨i, b.segs[i], d, rfl, hi, by simp [hlt], ?_⟩
          simp only
          rw [map_setDur_eq_modify b name d i hnd hi]
    · rw [if_pos hc] at hok; cases hok
  | str s => cases hok
  | none => cases hok
  | opq n => cases hok

/-- an accepted `changeArg(name, arg, v)` (not `replaceeverywhere`) rewrites exactly one argument of
    segment `i` -/
theorem changeArg_shape (b : BP) (name : String) (arg val : Val)
    (hok : (b.changeArg name arg val false).err = none) :
    ∃ i seg k, b.indexOf? name = some i ∧ b.segs[i]? = some seg ∧ seg.fn.special = false ∧
      BP.argIndex seg arg = .ok k ∧ k < seg.args.length ∧
      (b.changeArg name arg val false).st = { b with segs := b.segs.modify i (writeSlot (.arg k) val) } := by
  unfold BP.changeArg at hok ⊢
  simp only [BP.targets, Bool.false_eq_true, if_false] at hok ⊢
  by_cases hc : b.names.contains name = true
  · rw [if_neg (not_not.mpr hc)] at hok ⊢
    unfold BP.changeArgLoop at hok ⊢
    unfold BP.changeArgOne at hok ⊢
    cases hi : b.indexOf? name with
    | none => simp [hi] at hok
    | some i =>
      simp only [hi] at hok ⊢
      cases hs : b.segs[i]? with
      | none => simp [hs] at hok
      | some seg =>
        simp only [hs] at hok ⊢
        by_cases hsp : seg.fn.special = true
        · simp [hsp] at hok
        · simp only [hsp, Bool.false_eq_true, if_false] at hok ⊢
          cases hk : BP.argIndex seg arg with
          | error er => simp [hk] at hok
          | ok k =>
            simp only [hk] at hok ⊢
            by_cases hlen : k < seg.args.length
            · simp only [hlen, if_true] at hok ⊢
              refine ⟨i, seg, k, rfl, hs, by simpa using hsp, hk, hlen, ?_⟩
              simp only [BP.changeArgLoop]
              rfl
            · simp [hlen] at hok
  · rw [if_pos hc] at hok; cases hok

/-! ### element level -/

theorem bpAt_of_get (e : Element) (ch : Chan) (ent : ChEntry) (b : BP) (h1 : Dict.get? e.chans ch = some ent)
    (h2 : ent.data = .bp b) : bpAt e ch = some b := by
  unfold bpAt; rw [h1]; simp only [h2]

/-- the element with segment `i` of the blueprint `b` on channel `ch` rewritten by `f` -/
def rewriteSeg (e : Element) (ch : Chan) (ent : ChEntry) (b : BP) (i : ℕ) (f : Seg → Seg) : Element :=
  { e with chans := Dict.upsert e.chans ch ({ ent with data := .bp { b with segs := b.segs.modify i f } } : ChEntry) }

/-- **one accepted sweep step**: the element afterwards is the element before with exactly one slot
    (`sl`, the one `arg` addresses) of exactly one segment (the one called `name`) of the blueprint
    on channel `ch` rewritten to `val` -/
theorem applyChange_shape (e : Element) (ch : Chan) (name : String) (arg val : Val) (hn : NamesOk e)
    (hok : (applyChange e ch name arg val).err = none) :
    ∃ ent b i seg sl, Dict.get? e.chans ch = some ent ∧ ent.data = .bp b ∧ b.indexOf? name = some i ∧
      b.segs[i]? = some seg ∧ slotOf seg arg = some sl ∧ (∀ k, sl = .arg k → k < seg.args.length) ∧
      (applyChange e ch name arg val).st = rewriteSeg e ch ent b i (writeSlot sl val) := by
  by_cases hd : arg = .str "duration"
  · have hst0 : applyChange e ch name arg val = e.withBP ch (fun b => b.changeDuration name val false) := by
      unfold applyChange; rw [if_pos hd]; rfl
    rw [hst0] at hok ⊢
    unfold Element.withBP at hok ⊢
    cases hg : Dict.get? e.chans ch with
    | none => rw [hg] at hok; cases hok
    | some ent =>
      rw [hg] at hok
      cases hdat : ent.data with
      | bp b =>
        simp only [hdat] at hok
        have hnd := hn ch b (bpAt_of_get e ch ent b hg hdat)
        obtain ⟨i, seg, d, _, hi, hs, hst⟩ := changeDuration_shape b name val hnd hok
        refine ⟨ent, b, i, seg, .dur, rfl, hdat, hi, hs, by simp [slotOf, hd], (fun k hk => by cases hk), ?_⟩
        simp only [hdat, hst, rewriteSeg]
      | arr a sr => simp only [hdat] at hok; cases hok
      | broken => simp only [hdat] at hok; cases hok
  · have hst0 : applyChange e ch name arg val = e.withBP ch (fun b => b.changeArg name arg val false) := by
      unfold applyChange; rw [if_neg hd]; rfl
    rw [hst0] at hok ⊢
    unfold Element.withBP at hok ⊢
    cases hg : Dict.get? e.chans ch with
    | none => rw [hg] at hok; cases hok
    | some ent =>
      rw [hg] at hok
      cases hdat : ent.data with
      | bp b =>
        simp only [hdat] at hok
        obtain ⟨i, seg, k, hi, hs, hsp, hk, hlen, hst⟩ := changeArg_shape b name arg val hok
        refine ⟨ent, b, i, seg, .arg k, rfl, hdat, hi, hs, by simp [slotOf, hd, hsp, hk, hlen],
          (fun k' hk' => by cases hk'; exact hlen), ?_⟩
        simp only [hdat, hst, rewriteSeg]
      | arr a sr => simp only [hdat] at hok; cases hok
      | broken => simp only [hdat] at hok; cases hok

/-- the segment found under a name, before and after a rewrite of segment `i` -/
theorem segAt_after (e : Element) (ch : Chan) (ent : ChEntry) (b : BP) (i : ℕ) (f : Seg → Seg)
    (hf : ∀ s, (f s).name = s.name)
    (hg : Dict.get? e.chans ch = some ent) (hdat : ent.data = .bp b) (ch2 : Chan) (name2 : String) :
    segAt (rewriteSeg e ch ent b i f) ch2 name2 =
      (segAt e ch2 name2).map (fun s => if ch2 = ch ∧ b.indexOf? name2 = some i then f s else s) := by
  unfold segAt bpAt rewriteSeg
  by_cases hc : ch2 = ch
  · subst hc
    simp only [Dict.get?_upsert_self, hg, hdat, Option.bind_some, true_and]
    have hnames : ({ b with segs := b.segs.modify i f } : BP).names = b.names := by
      unfold BP.names; exact BP.modify_names b.segs i f hf
    rw [indexOf_congr b _ name2 hnames]
    cases hi2 : b.indexOf? name2 with
    | none => rfl
    | some i2 =>
      simp only [Option.bind_some, List.getElem?_modify]
      by_cases hii : i = i2
      · subst hii
        simp only [if_true]
        cases b.segs[i]? <;> rfl
      · have : ¬ (some i2 = some i) := fun h => hii (Option.some.inj h).symm
        simp only [hii, if_false, this]
        cases b.segs[i2]? <;> rfl
  · simp only [Dict.get?_upsert_other _ _ _ _ hc, hc, false_and, if_false]
    cases (match Dict.get? e.chans ch2 with
      | some ent => (match ent.data with | .bp b => some b | _ => none)
      | none => none : Option BP) with
    | none => rfl
    | some b2 =>
      simp only [Option.bind_some]
      cases (b2.indexOf? name2).bind (fun i => b2.segs[i]?) <;> simp

theorem namesOk_after (e : Element) (ch : Chan) (ent : ChEntry) (b : BP) (i : ℕ) (f : Seg → Seg)
    (hf : ∀ s, (f s).name = s.name) (hn : NamesOk e)
    (hg : Dict.get? e.chans ch = some ent) (hdat : ent.data = .bp b) :
    NamesOk (rewriteSeg e ch ent b i f) := by
  intro ch2 b2 h2
  unfold bpAt rewriteSeg at h2
  by_cases hc : ch2 = ch
  · subst hc
    simp only [Dict.get?_upsert_self, Option.some.injEq] at h2
    subst h2
    have hnames : ({ b with segs := b.segs.modify i f } : BP).names = b.names := by
      unfold BP.names; exact BP.modify_names b.segs i f hf
    rw [hnames]
    exact hn ch2 b (bpAt_of_get e ch2 ent b hg hdat)
  · simp only [Dict.get?_upsert_other _ _ _ _ hc] at h2
    exact hn ch2 b2 h2

/-- **reading after one accepted step**: the addressed slot holds the new value, every other slot of
    every segment of every channel reads as before; the addresses other variations resolve to do
    not move; segment names stay distinct -/
theorem applyChange_reads (e : Element) (ch : Chan) (name : String) (arg val : Val) (hn : NamesOk e)
    (hok : (applyChange e ch name arg val).err = none) :
    ∃ sl, addrOf e ⟨ch, name, arg, []⟩ = some (ch, name, sl) ∧
      (∀ a : Address, readAt (applyChange e ch name arg val).st a =
        if a = (ch, name, sl) then some val else readAt e a) ∧
      (∀ w : Variation, addrOf (applyChange e ch name arg val).st w = addrOf e w) ∧
      NamesOk (applyChange e ch name arg val).st := by
  obtain ⟨ent, b, i, seg, sl, hg, hdat, hi, hs, hsl, hlen, hst⟩ := applyChange_shape e ch name arg val hn hok
  have hseg : segAt e ch name = some seg := by
    unfold segAt
    rw [bpAt_of_get e ch ent b hg hdat]
    simp only [Option.bind_some, hi, hs]
  have hafter := segAt_after e ch ent b i (writeSlot sl val) (writeSlot_name sl val) hg hdat
  refine ⟨sl, ?_, ?_, ?_, ?_⟩
  · unfold addrOf
    simp only [hseg, Option.bind_some, hsl, Option.map_some]
  · rintro ⟨c2, n2, s2⟩
    rw [hst]
    unfold readAt
    simp only
    rw [hafter c2 n2]
    by_cases hcn : c2 = ch ∧ n2 = name
    · obtain ⟨rfl, rfl⟩ := hcn
      simp only [hseg, hi, and_self, if_true, Option.map_some, Option.bind_some]
      by_cases hs2 : s2 = sl
      · subst hs2
        simp only [if_true, readSlot_writeSlot_self s2 val seg hlen]
      · have : ¬ ((c2, n2, s2) : Address) = (c2, n2, sl) := by
          intro h; apply hs2; simpa using h
        simp only [this, if_false, readSlot_writeSlot_other sl s2 val seg hs2]
    · have hne : ¬ ((c2, n2, s2) : Address) = (ch, name, sl) := by
        intro h
        apply hcn
        simp only [Prod.mk.injEq] at h
        exact ⟨h.1, h.2.1⟩
      simp only [hne, if_false]
      cases hsa : segAt e c2 n2 with
      | none => rfl
      | some s0 =>
        simp only [Option.map_some, Option.bind_some]
        by_cases hcond : c2 = ch ∧ b.indexOf? n2 = some i
        · -- same channel, same index: then the same name, contradiction
          exfalso
          apply hcn
          refine ⟨hcond.1, ?_⟩
          obtain ⟨_, h1⟩ := indexOf_spec b n2 i hcond.2
          obtain ⟨_, h2⟩ := indexOf_spec b name i hi
          rw [← h1, ← h2]
        · simp only [hcond, if_false]
  · intro w
    rw [hst]
    unfold addrOf
    rw [hafter w.chan w.name]
    cases hsa : segAt e w.chan w.name with
    | none => rfl
    | some s0 =>
      simp only [Option.map_some, Option.bind_some]
      split
      · rw [slotOf_writeSlot]
      · rfl
  · rw [hst]
    exact namesOk_after e ch ent b i _ (writeSlot_name sl val) hn hg hdat

/-! ### all variations of one step -/

/-- every change of the fold `varied e vars j` was accepted -/
def variedOk : Element → List Variation → ℕ → Prop
  | _, [], _ => True
  | e, v :: vs, j =>
    (applyChange e v.chan v.name v.arg (v.vals.getD j .none)).err = none ∧
      variedOk (changed e v (v.vals.getD j .none)) vs j

theorem varied_cons (e : Element) (v : Variation) (vs : List Variation) (j : ℕ) :
    varied e (v :: vs) j = varied (changed e v (v.vals.getD j .none)) vs j := by
  simp only [varied, List.foldl_cons]

/-- **the value theorem for one position**: when all changes are accepted and the variations
    address pairwise different slots (channel, segment, argument/duration — resolved, so that a
    parameter given once by name and once by position counts as the same slot), then after all of
    them every addressed slot holds its variation's value for this step, every other slot of the
    element reads as in the base element, and addresses do not move -/
theorem varied_values (e : Element) (vars : List Variation) (j : ℕ) (hn : NamesOk e) (hok : variedOk e vars j)
    (hd : (vars.map (addrOf e)).Pairwise (· ≠ ·)) :
    (∀ v ∈ vars, ∃ a, addrOf e v = some a ∧ readAt (varied e vars j) a = some (v.vals.getD j .none)) ∧
    (∀ a, (∀ v ∈ vars, addrOf e v ≠ some a) → readAt (varied e vars j) a = readAt e a) ∧
    (∀ w, addrOf (varied e vars j) w = addrOf e w) ∧ NamesOk (varied e vars j) := by
  induction vars generalizing e with
  | nil => exact ⟨fun v hv => by simp at hv, fun a _ => rfl, fun w => rfl, hn⟩
  | cons v vs ih =>
    obtain ⟨hok1, hok2⟩ := hok
    obtain ⟨sl, haddr, hread, haddrs, hn'⟩ :=
      applyChange_reads e v.chan v.name v.arg (v.vals.getD j .none) hn hok1
    have haddr' : addrOf e v = some (v.chan, v.name, sl) := haddr
    simp only [List.map_cons, List.pairwise_cons] at hd
    have haddrs' : ∀ w, addrOf (changed e v (v.vals.getD j .none)) w = addrOf e w := haddrs
    have hn'' : NamesOk (changed e v (v.vals.getD j .none)) := hn'
    have hd' : (vs.map (addrOf (changed e v (v.vals.getD j .none)))).Pairwise (· ≠ ·) := by
      rw [List.map_congr_left (fun w _ => haddrs' w)]; exact hd.2
    obtain ⟨i1, i2, i3, i4⟩ := ih (changed e v (v.vals.getD j .none)) hn'' hok2 hd'
    rw [varied_cons]
    refine ⟨?_, ?_, ?_, i4⟩
    · intro w hw
      rcases List.mem_cons.mp hw with rfl | hw
      · refine ⟨_, haddr', ?_⟩
        rw [i2 _ (fun x hx => ?_)]
        · show readAt (applyChange e w.chan w.name w.arg (w.vals.getD j .none)).st _ = _
          rw [hread]; simp
        · show addrOf (applyChange e w.chan w.name w.arg (w.vals.getD j .none)).st x ≠ _
          rw [haddrs x, ← haddr']
          exact (hd.1 _ (List.mem_map.mpr ⟨x, hx, rfl⟩)).symm
      · obtain ⟨a, ha, hr⟩ := i1 w hw
        refine ⟨a, ?_, hr⟩
        rw [← ha]; exact (haddrs w).symm
    · intro a ha
      rw [i2 a (fun x hx => ?_)]
      · show readAt (applyChange e v.chan v.name v.arg (v.vals.getD j .none)).st a = _
        rw [hread]
        have : a ≠ (v.chan, v.name, sl) := by
          intro h
          apply ha v (by simp)
          rw [haddr', h]
        simp [this]
      · show addrOf (applyChange e v.chan v.name v.arg (v.vals.getD j .none)).st x ≠ _
        rw [haddrs x]
        exact ha x (by simp [hx])
    · intro w
      rw [i3 w]
      exact haddrs w

/-! ### the skeleton of an element is untouched -/

/-- a segment with its argument values and its duration blanked (arity kept) -/
def blankSeg (s : Seg) : Seg := { s with args := s.args.map (fun _ => Val.none), dur := .none }

/-- a channel entry with every argument value and duration blanked: what is left is the channel's
    flags, sample rate, absolute markers, and per segment name, function, segment-bound markers and
    number of arguments; raw arrays are left as they are -/
def blankEntry (ent : ChEntry) : ChEntry :=
  match ent.data with
  | .bp b => { ent with data := .bp { b with segs := b.segs.map blankSeg } }
  | _ => ent

/-- the skeleton of an element: channels in order, each with its blanked entry -/
def skeleton (e : Element) : Dict Chan ChEntry := e.chans.map (fun p => (p.1, blankEntry p.2))

theorem map_modify_inv {α β} (l : List α) (i : Nat) (f : α → α) (g : α → β) (h : ∀ a, g (f a) = g a) :
    (l.modify i f).map g = l.map g := by
  induction l generalizing i with
  | nil => simp
  | cons a t ih =>
    cases i with
    | zero => simp [List.modify_zero_cons, h]
    | succ i => simp [List.modify_succ_cons, ih]

theorem blankSeg_writeSlot (sl : Slot) (v : Val) (s : Seg) : blankSeg (writeSlot sl v s) = blankSeg s := by
  cases sl with
  | dur => rfl
  | arg k => simp [blankSeg, writeSlot, List.map_const']

theorem upsert_map_self {α : Type} (d : Dict Chan α) (g : α → α) (k : Chan) (v w : α) (h : Dict.get? d k = some v)
    (hg : g w = g v) : (Dict.upsert d k w).map (fun p => (p.1, g p.2)) = d.map (fun p => (p.1, g p.2)) := by
  induction d with
  | nil => simp [Dict.get?] at h
  | cons x xs ih =>
    obtain ⟨k', v'⟩ := x
    unfold Dict.upsert
    by_cases hk : k' = k
    · subst hk
      simp only [Dict.get?, List.find?_cons, decide_true, Option.map_some, Option.some.injEq] at h
      subst h
      simp [hg]
    · simp only [hk, if_false, List.map_cons, List.cons.injEq, true_and]
      apply ih
      simpa [Dict.get?, List.find?_cons, hk] using h

/-- an accepted sweep step leaves the skeleton alone: channels and their order, flags, sample rates,
    markers, segment names, functions, numbers of arguments, raw arrays -/
theorem applyChange_skeleton (e : Element) (ch : Chan) (name : String) (arg val : Val) (hn : NamesOk e)
    (hok : (applyChange e ch name arg val).err = none) :
    skeleton (applyChange e ch name arg val).st = skeleton e := by
  obtain ⟨ent, b, i, seg, sl, hg, hdat, _, _, _, _, hst⟩ := applyChange_shape e ch name arg val hn hok
  rw [hst]
  unfold skeleton rewriteSeg
  apply upsert_map_self e.chans blankEntry ch ent _ hg
  unfold blankEntry
  simp only [hdat]
  congr 3
  exact map_modify_inv _ _ _ _ (blankSeg_writeSlot sl val)

theorem varied_skeleton (e : Element) (vars : List Variation) (j : ℕ) (hn : NamesOk e) (hok : variedOk e vars j) :
    skeleton (varied e vars j) = skeleton e := by
  induction vars generalizing e with
  | nil => rfl
  | cons v vs ih =>
    obtain ⟨hok1, hok2⟩ := hok
    obtain ⟨_, _, _, _, hn'⟩ := applyChange_reads e v.chan v.name v.arg (v.vals.getD j .none) hn hok1
    have hn'' : NamesOk (changed e v (v.vals.getD j .none)) := hn'
    rw [varied_cons, ih _ hn'' hok2]
    exact applyChange_skeleton e v.chan v.name v.arg _ hn hok1

/-! ### the loops of the tools accept every change they make -/

theorem applyVals_errs (v : Variation) (vals : List Val) (m : ℕ) (s s' : Sequence)
    (h : applyVals v vals m s = .ok s') :
    ∀ j (hj : j < vals.length) (e : Element), Dict.get? s.data ((m + j + 1 : ℕ) : ℤ) = some (.el e) →
      (applyChange e v.chan v.name v.arg vals[j]).err = none := by
  induction vals generalizing m s with
  | nil => intro j hj; simp at hj
  | cons val rest ih =>
    unfold applyVals at h
    cases hm : (modifyElement s ((m + 1 : ℕ) : ℤ) (fun e => applyChange e v.chan v.name v.arg val)).toExcept with
    | error er => rw [hm] at h; cases h
    | ok s1 =>
      rw [hm] at h
      simp only at h
      obtain ⟨e0, he0, herr, hs1⟩ := modifyElement_ok s s1 _ _ hm
      intro j hj e he
      cases j with
      | zero =>
        simp only [Nat.add_zero] at he
        rw [he0] at he
        cases he
        simpa using herr
      | succ j =>
        have hidx : m + (j + 1) + 1 = m + 1 + j + 1 := by omega
        have := ih (m + 1) s1 h j (by simpa using hj) e (by
          rw [hs1]
          simp only
          rw [Dict.get?_upsert_other _ _ _ _ (by push_cast; omega), ← hidx]
          exact he)
        simpa using this

theorem applyVars_ok (vars : List Variation) (n0 : ℕ) (hlen : ∀ v ∈ vars, v.vals.length = n0) (s s' : Sequence)
    (h : applyVars vars s = .ok s') (j : ℕ) (hj : j < n0) (e : Element)
    (he : Dict.get? s.data ((j + 1 : ℕ) : ℤ) = some (.el e)) : variedOk e vars j := by
  induction vars generalizing s e with
  | nil => trivial
  | cons v vs ih =>
    unfold applyVars at h
    cases hv : applyVals v v.vals 0 s with
    | error er => rw [hv] at h; cases h
    | ok s1 =>
      rw [hv] at h
      simp only at h
      have hl : v.vals.length = n0 := hlen v (by simp)
      have hgd : v.vals.getD j .none = v.vals[j]'(by omega) := by
        simp [List.getD, List.getElem?_eq_getElem (show j < v.vals.length by omega)]
      have herr := applyVals_errs v v.vals 0 s s1 hv j (by omega) e (by simpa using he)
      obtain ⟨h1, _, _, _⟩ := applyVals_spec v v.vals 0 s s1 hv
      obtain ⟨e', he', hres⟩ := h1 j (by omega)
      simp only [Nat.zero_add] at he' hres
      rw [he] at he'
      cases he'
      refine ⟨by rw [hgd]; exact herr, ?_⟩
      rw [hgd]
      exact ih (fun w hw => hlen w (by simp [hw])) s1 h _ hres

/-- the validation cache is not looked at -/
theorem readAt_cache (e : Element) (c : Option (Val × ℚ)) (a : Address) :
    readAt { e with cache := c } a = readAt e a := rfl

theorem skeleton_cache (e : Element) (c : Option (Val × ℚ)) : skeleton { e with cache := c } = skeleton e := rfl

/-! ### a decidable check for `NamesOk` -/

def namesOkB (e : Element) : Bool :=
  e.chans.all (fun p => match p.2.data with | .bp b => decide b.names.Nodup | _ => true)

theorem namesOk_of_check (e : Element) (h : namesOkB e = true) : NamesOk e := by
  intro ch b hb
  unfold bpAt at hb
  cases hg : Dict.get? e.chans ch with
  | none => rw [hg] at hb; cases hb
  | some ent =>
    rw [hg] at hb
    simp only at hb
    cases hdat : ent.data with
    | bp b' =>
      simp only [hdat, Option.some.injEq] at hb
      subst hb
      have hm := Dict.mem_of_get?_eq_some ch ent hg
      unfold namesOkB at h
      rw [List.all_eq_true] at h
      have := h (ch, ent) hm
      simp only [hdat, decide_eq_true_eq] at this
      exact this
    | arr a sr => simp only [hdat] at hb; cases hb
    | broken => simp only [hdat] at hb; cases hb

/-! ### one step of `repeatAndVarySequence`, position by position -/

/-- the variations one step applies to position `p`, in order -/
def varsAt (pv : List (ℤ × Variation)) (p : ℤ) : List Variation := (pv.filter (fun x => x.1 = p)).map (·.2)

theorem stepVaried_eq_varied (step : ℕ) (pv : List (ℤ × Variation)) (p : ℤ) (e : Element) :
    stepVaried step pv p e = varied e (varsAt pv p) step := by
  induction pv generalizing e with
  | nil => rfl
  | cons x rest ih =>
    unfold stepVaried varsAt at *
    simp only [List.foldl_cons, List.filter_cons]
    by_cases hx : x.1 = p
    · simp only [hx, if_true, decide_true, List.map_cons, varied, List.foldl_cons]
      rw [ih]
      rfl
    · simp only [hx, if_false, decide_false]
      rw [ih]
      simp

theorem applyStep_ok (step : ℕ) (pv : List (ℤ × Variation)) (s s' : Sequence) (h : applyStep step pv s = .ok s')
    (p : ℤ) (e : Element) (he : Dict.get? s.data p = some (.el e)) : variedOk e (varsAt pv p) step := by
  induction pv generalizing s e with
  | nil => trivial
  | cons x rest ih =>
    obtain ⟨pos, v⟩ := x
    unfold applyStep at h
    cases hval : v.vals[step]? with
    | none => rw [hval] at h; cases h
    | some val =>
      rw [hval] at h
      simp only at h
      cases hm : (modifyElement s pos (fun e => applyChange e v.chan v.name v.arg val)).toExcept with
      | error er => rw [hm] at h; cases h
      | ok s1 =>
        rw [hm] at h
        simp only at h
        obtain ⟨e0, he0, herr, hs1⟩ := modifyElement_ok s s1 pos _ hm
        have hgd : v.vals.getD step .none = val := by simp [List.getD, hval]
        unfold varsAt
        simp only [List.filter_cons]
        by_cases hpp : pos = p
        · subst hpp
          rw [he0] at he
          cases he
          simp only [decide_true, if_true, List.map_cons]
          refine ⟨by rw [hgd]; exact herr, ?_⟩
          rw [hgd]
          apply ih s1 h
          rw [hs1]
          exact Dict.get?_upsert_self _ _ _
        · simp only [hpp, decide_false, Bool.false_eq_true, if_false]
          apply ih s1 h
          rw [hs1]
          simp only
          rw [Dict.get?_upsert_other _ _ _ _ (fun e => hpp e.symm)]
          exact he

end BB.G5
