/-
  BB.Proofs.G8Typed — the shape discipline of broadbean's object graphs in BB.Model.Heap:
  which kinds of cells a cell of a given kind may reference under which key (`Typed`), how high
  the graphs are (`Fits`), and which old cells a program run may have rewritten (`Evo`).
-/
import BB.Proofs.G8Run

namespace BB.Heap

/-! ### kinds -/

/-- the two kinds through which nesting goes (a sequence holds subsequences) -/
def Kind.isSeq : Kind → Bool
  | .sqObj => true
  | .sqData => true
  | _ => false

/-- what a cell of kind `k` may hold under `key`: `none` = an immediate value, `some k'` = a
    reference to a cell of kind `k'` -/
def allowed : Kind → String → Option Kind → Bool
  | .bpList, _, t => t == none
  | .flags, _, t => t == none
  | .ndarray, _, t => t == none
  | .cache, _, t => t == none
  | .seqSetting, _, t => t == none
  | .filterDict, _, t => t == none
  | .bpObj, key, none => key == "_SR"
  | .bpObj, key, some k' => k' == .bpList && bpListKeys.contains key
  | .elChan, key, none => !(key == "blueprint" || key == "array" || key == "flags")
  | .elChan, key, some k' =>
    (key == "blueprint" && k' == .bpObj) || (key == "array" && k' == .arrDict) || (key == "flags" && k' == .flags)
  | .arrDict, _, none => true
  | .arrDict, _, some k' => k' == .ndarray
  | .elData, _, none => false
  | .elData, _, some k' => k' == .elChan
  | .elObj, _, none => false
  | .elObj, key, some k' => (key == "_data" && k' == .elData) || (key == "_meta" && k' == .cache)
  | .sqObj, key, none => key == "_name"
  | .sqObj, key, some k' =>
    (key == "_data" && k' == .sqData) || (key == "_sequencing" && k' == .sqSeqn) ||
    (key == "_awgspecs" && k' == .awgspecs) || (key == "_meta" && k' == .cache)
  | .sqData, _, none => false
  | .sqData, _, some k' => k' == .elObj || k' == .sqObj
  | .sqSeqn, _, none => false
  | .sqSeqn, _, some k' => k' == .seqSetting
  | .awgspecs, _, none => true
  | .awgspecs, _, some k' => k' == .filterDict

/-- objects with attributes: the keys are fixed -/
def fixedKeys : Kind → Option (List String)
  | .bpObj => some (bpListKeys ++ ["_SR"])
  | .elObj => some ["_data", "_meta"]
  | .sqObj => some ["_data", "_sequencing", "_awgspecs", "_meta", "_name"]
  | _ => none

/-- the type of a slot: `none` = dangling reference -/
def slotTy (h : Heap) : Slot → Option (Option Kind)
  | .imm _ => some none
  | .ref b => (h[b]?).map (fun c => some c.kind)

def slotOkT (h : Heap) (k : Kind) (ks : String × Slot) : Bool :=
  match slotTy h ks.2 with
  | none => false
  | some t => allowed k ks.1 t

def keysOk (k : Kind) (slots : List (String × Slot)) : Bool :=
  match fixedKeys k with
  | none => true
  | some keys => slots.map (·.1) == keys

/-- the slots are what a cell of kind `k` may hold -/
def cellOk (h : Heap) (k : Kind) (slots : List (String × Slot)) : Bool :=
  keysOk k slots && slots.all (slotOkT h k)

/-- every cell holds what its kind allows -/
def Typed (h : Heap) : Prop := ∀ (a : Addr) (c : Cell), h[a]? = some c → cellOk h c.kind c.slots = true

structure Good (h : Heap) : Prop where
  closed : Closed h
  typed : Typed h

theorem good_nil : Good [] := ⟨fun a c hc => by simp at hc, fun a c hc => by simp at hc⟩

/-! ### monotonicity -/

theorem keeps_refl (h : Heap) : Keeps h h := fun _ c hc => ⟨c, hc, rfl, rfl⟩

theorem Keeps.trans {h1 h2 h3 : Heap} (a : Keeps h1 h2) (b : Keeps h2 h3) : Keeps h1 h3 := by
  intro x c hc
  obtain ⟨c2, h2, k2, o2⟩ := a x c hc
  obtain ⟨c3, h3, k3, o3⟩ := b x c2 h2
  exact ⟨c3, h3, k3.trans k2, o3.trans o2⟩

theorem keeps_append (h : Heap) (ext : List Cell) : Keeps h (h ++ ext) := by
  intro a c hc
  exact ⟨c, by rw [List.getElem?_append_left (lt_of_get hc)]; exact hc, rfl, rfl⟩

theorem keeps_set (h : Heap) (a : Addr) (c : Cell) (slots : List (String × Slot)) (hc : h[a]? = some c) :
    Keeps h (h.set a { c with slots := slots }) := by
  intro x cx hx
  by_cases hxa : x = a
  · subst hxa
    rw [hc] at hx; cases hx
    exact ⟨{ c with slots := slots }, by simp [lt_of_get hc], rfl, rfl⟩
  · exact ⟨cx, by rw [List.getElem?_set_ne (Ne.symm hxa)]; exact hx, rfl, rfl⟩

theorem slotTy_keeps {h h' : Heap} (k : Keeps h h') (s : Slot) (t : Option Kind) (hs : slotTy h s = some t) :
    slotTy h' s = some t := by
  cases s with
  | imm x => exact hs
  | ref b =>
    simp only [slotTy] at hs ⊢
    cases hb : h[b]? with
    | none => rw [hb] at hs; cases hs
    | some c =>
      rw [hb] at hs
      obtain ⟨c', h1, h2, _⟩ := k b c hb
      rw [h1]
      simp only [Option.map_some, h2] at hs ⊢
      exact hs

theorem slotOkT_keeps {h h' : Heap} (k : Keeps h h') (kd : Kind) (ks : String × Slot)
    (hs : slotOkT h kd ks = true) : slotOkT h' kd ks = true := by
  unfold slotOkT at hs ⊢
  cases ht : slotTy h ks.2 with
  | none => rw [ht] at hs; cases hs
  | some t =>
    rw [ht] at hs
    rw [slotTy_keeps k ks.2 t ht]
    exact hs

theorem cellOk_keeps {h h' : Heap} (k : Keeps h h') (kd : Kind) (slots : List (String × Slot))
    (hs : cellOk h kd slots = true) : cellOk h' kd slots = true := by
  unfold cellOk at hs ⊢
  simp only [Bool.and_eq_true, List.all_eq_true] at hs ⊢
  exact ⟨hs.1, fun x hx => slotOkT_keeps k kd x (hs.2 x hx)⟩

theorem typed_alloc (r : Owner) (h : Heap) (k : Kind) (slots : List (String × Slot)) (ht : Typed h)
    (hs : cellOk h k slots = true) : Typed (h ++ [⟨k, r, slots⟩]) := by
  have kp := keeps_append h [⟨k, r, slots⟩]
  intro a c hac
  rcases Nat.lt_or_ge a h.length with h1 | h1
  · rw [List.getElem?_append_left h1] at hac
    exact cellOk_keeps kp _ _ (ht a c hac)
  · have h2 := lt_of_get hac
    rw [List.length_append, List.length_singleton] at h2
    have : a = h.length := Nat.le_antisymm (Nat.le_of_lt_succ h2) h1
    subst this
    simp at hac
    rw [← hac]
    exact cellOk_keeps kp _ _ hs

theorem typed_write (h : Heap) (a : Addr) (c : Cell) (slots : List (String × Slot)) (ht : Typed h)
    (hc : h[a]? = some c) (hs : cellOk h c.kind slots = true) :
    Typed (h.set a { c with slots := slots }) := by
  have kp := keeps_set h a c slots hc
  intro x cx hx
  by_cases hxa : x = a
  · subst hxa
    simp [lt_of_get hc] at hx
    rw [← hx]
    exact cellOk_keeps kp _ _ hs
  · rw [List.getElem?_set_ne (Ne.symm hxa)] at hx
    exact cellOk_keeps kp _ _ (ht x cx hx)

theorem good_alloc (r : Owner) (h : Heap) (k : Kind) (slots : List (String × Slot)) (hg : Good h)
    (hs : slotsOk h k r slots = true) (ht : cellOk h k slots = true) : Good (h ++ [⟨k, r, slots⟩]) :=
  ⟨closed_alloc r h k slots hg.closed hs, typed_alloc r h k slots hg.typed ht⟩

theorem good_write (r : Owner) (h : Heap) (a : Addr) (c : Cell) (slots : List (String × Slot)) (hg : Good h)
    (hc : h[a]? = some c) (hw : writable r c = true) (hs : slotsOk h c.kind c.owner slots = true)
    (ht : cellOk h c.kind slots = true) : Good (h.set a { c with slots := slots }) :=
  ⟨closed_write r h a c slots hg.closed hc hw hs, typed_write h a c slots hg.typed hc ht⟩

/-! ### reading the discipline off a cell -/

theorem mem_of_lookupSlot {slots : List (String × Slot)} {k : String} {s : Slot}
    (h : lookupSlot slots k = some s) : (k, s) ∈ slots := by
  unfold lookupSlot at h
  induction slots with
  | nil => simp [List.lookup] at h
  | cons p ps ih =>
    obtain ⟨k', v'⟩ := p
    simp only [List.lookup] at h
    split at h
    · rename_i heq
      have : k = k' := by simpa using heq
      cases h
      simp [this]
    · exact List.mem_cons_of_mem _ (ih h)

theorem lookupSlot_of_key {slots : List (String × Slot)} {k : String} (h : k ∈ slots.map (·.1)) :
    ∃ s, lookupSlot slots k = some s := by
  unfold lookupSlot
  induction slots with
  | nil => simp at h
  | cons p ps ih =>
    obtain ⟨k', v'⟩ := p
    simp only [List.lookup]
    by_cases hk : k = k'
    · subst hk; simp
    · have hk' : (k == k') = false := by simpa using hk
      simp only [hk']
      apply ih
      simp only [List.map_cons, List.mem_cons] at h
      rcases h with h | h
      · exact absurd h hk
      · exact h

theorem key_of_lookupSlot {slots : List (String × Slot)} {k : String} {s : Slot}
    (h : lookupSlot slots k = some s) : k ∈ slots.map (·.1) :=
  List.mem_map.mpr ⟨(k, s), mem_of_lookupSlot h, rfl⟩

/-- a referencing slot of a well-typed cell points to a live cell of an allowed kind -/
theorem cellOk_ref {h : Heap} {k : Kind} {slots : List (String × Slot)} (hc : cellOk h k slots = true)
    {key : String} {b : Addr} (hm : (key, Slot.ref b) ∈ slots) :
    ∃ cb : Cell, h[b]? = some cb ∧ allowed k key (some cb.kind) = true := by
  unfold cellOk at hc
  simp only [Bool.and_eq_true, List.all_eq_true] at hc
  have := hc.2 _ hm
  unfold slotOkT at this
  simp only [slotTy] at this
  cases hb : h[b]? with
  | none => rw [hb] at this; simp at this
  | some cb =>
    rw [hb] at this
    simp only [Option.map_some] at this
    exact ⟨cb, rfl, this⟩

theorem cellOk_imm {h : Heap} {k : Kind} {slots : List (String × Slot)} (hc : cellOk h k slots = true)
    {key : String} {t : Nat} (hm : (key, Slot.imm t) ∈ slots) : allowed k key none = true := by
  unfold cellOk at hc
  simp only [Bool.and_eq_true, List.all_eq_true] at hc
  have := hc.2 _ hm
  unfold slotOkT at this
  simpa [slotTy] using this

theorem cellOk_keys {h : Heap} {k : Kind} {slots : List (String × Slot)} (hc : cellOk h k slots = true)
    {keys : List String} (hk : fixedKeys k = some keys) : slots.map (·.1) = keys := by
  unfold cellOk keysOk at hc
  rw [hk] at hc
  simp only [Bool.and_eq_true, beq_iff_eq] at hc
  exact hc.1

/-- under a key that only takes references, a present key holds a reference to a live cell -/
theorem cellOk_lookup_ref {h : Heap} {k : Kind} {slots : List (String × Slot)} (hc : cellOk h k slots = true)
    {key : String} (hkey : key ∈ slots.map (·.1)) (hno : allowed k key none = false) :
    ∃ (b : Addr) (cb : Cell), lookupSlot slots key = some (.ref b) ∧ h[b]? = some cb ∧
      allowed k key (some cb.kind) = true := by
  obtain ⟨s, hs⟩ := lookupSlot_of_key hkey
  have hm := mem_of_lookupSlot hs
  cases s with
  | imm t => rw [cellOk_imm hc hm] at hno; cases hno
  | ref b =>
    obtain ⟨cb, h1, h2⟩ := cellOk_ref hc hm
    exact ⟨b, cb, hs, h1, h2⟩

/-! ### `upsertSlot` -/

theorem mem_upsertSlot {slots : List (String × Slot)} {k : String} {v : Slot} {x : String × Slot}
    (hx : x ∈ upsertSlot slots k v) : x = (k, v) ∨ x ∈ slots := by
  induction slots with
  | nil => simp [upsertSlot] at hx; exact Or.inl hx
  | cons p ps ih =>
    obtain ⟨k', v'⟩ := p
    simp only [upsertSlot] at hx
    split at hx
    · simp only [List.mem_cons] at hx
      rcases hx with h | h
      · exact Or.inl h
      · exact Or.inr (List.mem_cons_of_mem _ h)
    · simp only [List.mem_cons] at hx
      rcases hx with h | h
      · exact Or.inr (by rw [h]; exact List.mem_cons_self)
      · rcases ih h with h | h
        · exact Or.inl h
        · exact Or.inr (List.mem_cons_of_mem _ h)

theorem keys_upsertSlot {slots : List (String × Slot)} {k : String} (v : Slot) (hk : k ∈ slots.map (·.1)) :
    (upsertSlot slots k v).map (·.1) = slots.map (·.1) := by
  induction slots with
  | nil => simp at hk
  | cons p ps ih =>
    obtain ⟨k', v'⟩ := p
    simp only [upsertSlot]
    split
    · rename_i heq; simp [heq]
    · rename_i hne
      simp only [List.map_cons, List.mem_cons] at hk ⊢
      rcases hk with h | h
      · exact absurd h.symm hne
      · rw [ih h]

theorem lookup_upsertSlot_self (slots : List (String × Slot)) (k : String) (v : Slot) :
    lookupSlot (upsertSlot slots k v) k = some v := by
  unfold lookupSlot
  induction slots with
  | nil => simp [upsertSlot]
  | cons p ps ih =>
    obtain ⟨k', v'⟩ := p
    simp only [upsertSlot]
    split
    · simp [List.lookup]
    · rename_i hne
      have : (k == k') = false := by simpa using fun h => hne h.symm
      simp only [List.lookup, this]
      exact ih

theorem lookup_upsertSlot_other (slots : List (String × Slot)) (k k2 : String) (v : Slot) (hne : k2 ≠ k) :
    lookupSlot (upsertSlot slots k v) k2 = lookupSlot slots k2 := by
  unfold lookupSlot
  induction slots with
  | nil =>
    have : (k2 == k) = false := by simpa using hne
    simp [upsertSlot, List.lookup, this]
  | cons p ps ih =>
    obtain ⟨k', v'⟩ := p
    simp only [upsertSlot]
    split
    · rename_i heq
      subst heq
      have : (k2 == k') = false := by simpa using hne
      simp [List.lookup, this]
    · simp only [List.lookup]
      split
      · rfl
      · exact ih

theorem slotsOk_upsertSlot {h : Heap} {kd : Kind} {r : Owner} {slots : List (String × Slot)} {k : String} {v : Slot}
    (hs : slotsOk h kd r slots = true) (hv : slotsOk h kd r [(k, v)] = true) :
    slotsOk h kd r (upsertSlot slots k v) = true := by
  unfold slotsOk at hs hv ⊢
  split
  · rename_i hf
    simp only [hf, if_true, List.all_eq_true] at hs hv ⊢
    intro x hx
    rcases mem_upsertSlot hx with h1 | h1
    · exact hv x (by simp [h1])
    · exact hs x h1
  · rename_i hf
    simp only [hf, Bool.false_eq_true, if_false, List.all_eq_true] at hs hv ⊢
    intro x hx
    rcases mem_upsertSlot hx with h1 | h1
    · exact hv x (by simp [h1])
    · exact hs x h1

theorem cellOk_upsertSlot {h : Heap} {kd : Kind} {slots : List (String × Slot)} {k : String} {v : Slot}
    (hs : cellOk h kd slots = true) (hv : slotOkT h kd (k, v) = true)
    (hk : fixedKeys kd = none ∨ k ∈ slots.map (·.1)) : cellOk h kd (upsertSlot slots k v) = true := by
  unfold cellOk at hs ⊢
  simp only [Bool.and_eq_true, List.all_eq_true] at hs ⊢
  refine ⟨?_, ?_⟩
  · unfold keysOk at hs ⊢
    rcases hk with hk | hk
    · rw [hk]
    · rw [keys_upsertSlot v hk]; exact hs.1
  · intro x hx
    rcases mem_upsertSlot hx with h1 | h1
    · rw [h1]; exact hv
    · exact hs.2 x h1

/-! ### what a run may have rewritten -/

/-- `h'` came out of `h` by a run for owner `r` that kept the discipline; among the cells that
    existed, only those selected by `P` (address, kind) may have other slots now -/
structure Evo (r : Owner) (P : Addr → Kind → Bool) (h h' : Heap) : Prop where
  good : Good h'
  keeps : Keeps h h'
  len : h.length ≤ h'.length
  new : ∀ (a : Addr) (c' : Cell), h.length ≤ a → h'[a]? = some c' → c'.owner = r
  only : ∀ (a : Addr) (c : Cell), h[a]? = some c → P a c.kind = false → h'[a]? = some c

theorem Evo.refl {r : Owner} {P : Addr → Kind → Bool} {h : Heap} (hg : Good h) : Evo r P h h :=
  ⟨hg, keeps_refl h, Nat.le_refl _, fun _ _ hl hc => absurd (lt_of_get hc) (Nat.not_lt.mpr hl), fun _ _ hc _ => hc⟩

theorem Evo.weaken {r : Owner} {P Q : Addr → Kind → Bool} {h h' : Heap} (e : Evo r P h h')
    (hpq : ∀ a k, a < h.length → Q a k = false → P a k = false) : Evo r Q h h' :=
  ⟨e.good, e.keeps, e.len, e.new, fun a c hc hq => e.only a c hc (hpq a c.kind (lt_of_get hc) hq)⟩

theorem Evo.trans {r : Owner} {P : Addr → Kind → Bool} {h1 h2 h3 : Heap} (a : Evo r P h1 h2) (b : Evo r P h2 h3) :
    Evo r P h1 h3 := by
  refine ⟨b.good, a.keeps.trans b.keeps, Nat.le_trans a.len b.len, ?_, ?_⟩
  · intro x c3 hl hc3
    rcases Nat.lt_or_ge x h2.length with hx | hx
    · obtain ⟨c2, hc2⟩ : ∃ c2, h2[x]? = some c2 := ⟨h2[x], List.getElem?_eq_getElem hx⟩
      obtain ⟨c3', h3', _, o3⟩ := b.keeps x c2 hc2
      rw [hc3] at h3'
      cases h3'
      rw [o3]
      exact a.new x c2 hl hc2
    · exact b.new x c3 hx hc3
  · intro x c hc hp
    exact b.only x c (a.only x c hc hp) hp

theorem evo_alloc {r : Owner} {P : Addr → Kind → Bool} {h : Heap} {k : Kind} {slots : List (String × Slot)}
    (hg : Good h) (hs : slotsOk h k r slots = true) (ht : cellOk h k slots = true) :
    Evo r P h (h ++ [⟨k, r, slots⟩]) :=
  ⟨good_alloc r h k slots hg hs ht, keeps_append h _, by simp, (Ext.alloc r h k slots).new,
    fun a c hc _ => by rw [List.getElem?_append_left (lt_of_get hc)]; exact hc⟩

theorem evo_write {r : Owner} {P : Addr → Kind → Bool} {h : Heap} {a : Addr} {c : Cell} {slots : List (String × Slot)}
    (hg : Good h) (hc : h[a]? = some c) (hw : writable r c = true) (hs : slotsOk h c.kind c.owner slots = true)
    (ht : cellOk h c.kind slots = true) (hp : P a c.kind = true) :
    Evo r P h (h.set a { c with slots := slots }) := by
  refine ⟨good_write r h a c slots hg hc hw hs ht, keeps_set h a c slots hc, by simp, ?_, ?_⟩
  · intro x c' hl hc'
    have := lt_of_get hc'
    rw [List.length_set] at this
    exact absurd this (Nat.not_lt.mpr hl)
  · intro x cx hx hpx
    by_cases hxa : x = a
    · subst hxa
      rw [hc] at hx; cases hx
      rw [hp] at hpx; cases hpx
    · rw [List.getElem?_set_ne (Ne.symm hxa)]; exact hx

/-- nothing that existed was rewritten -/
abbrev pNone : Addr → Kind → Bool := fun _ _ => false

/-- only cells at or above `n` were rewritten -/
abbrev pFrom (n : Nat) : Addr → Kind → Bool := fun a _ => decide (n ≤ a)

theorem Evo.get {r : Owner} {h h' : Heap} (e : Evo r pNone h h') {a : Addr} {c : Cell} (hc : h[a]? = some c) :
    h'[a]? = some c := e.only a c hc rfl

/-! ### height -/

/-- everything reachable from `a` is live and at most `n` cells deep -/
def Fits : Nat → Heap → Addr → Prop
  | 0, _, _ => False
  | n + 1, h, a => ∃ c : Cell, h[a]? = some c ∧ ∀ ks ∈ c.slots, ∀ b : Addr, ks.2 = .ref b → Fits n h b

theorem Fits.mono {h : Heap} : ∀ {n m : Nat} {a : Addr}, Fits n h a → n ≤ m → Fits m h a := by
  intro n
  induction n with
  | zero => intro m a hf; cases hf
  | succ n ih =>
    intro m a hf hle
    cases m with
    | zero => omega
    | succ m =>
      obtain ⟨c, hc, hk⟩ := hf
      exact ⟨c, hc, fun ks hks b hb => ih (hk ks hks b hb) (by omega)⟩

def rank : Kind → Nat
  | .bpList => 1 | .flags => 1 | .ndarray => 1 | .cache => 1 | .seqSetting => 1 | .filterDict => 1
  | .bpObj => 2 | .arrDict => 2 | .sqSeqn => 2 | .awgspecs => 2
  | .elChan => 3 | .elData => 4 | .elObj => 5
  | .sqData => 0 | .sqObj => 0

theorem allowed_rank {k k' : Kind} {key : String} (ha : allowed k key (some k') = true) (hk : k.isSeq = false) :
    rank k' < rank k ∧ k'.isSeq = false := by
  cases k <;> cases k' <;> simp_all [allowed, rank, Kind.isSeq]

/-- below sequences the height of a graph is bounded by the kind of its root -/
theorem fits_of_rank {h : Heap} (ht : Typed h) : ∀ (n : Nat) (a : Addr) (c : Cell), h[a]? = some c →
    c.kind.isSeq = false → rank c.kind ≤ n → Fits n h a := by
  intro n
  induction n with
  | zero =>
    intro a c _ hs hr
    cases hk : c.kind <;> simp_all [rank, Kind.isSeq]
  | succ n ih =>
    intro a c hc hs hr
    refine ⟨c, hc, ?_⟩
    intro ks hks b hb
    have hm : (ks.1, Slot.ref b) ∈ c.slots := by rw [← hb]; exact hks
    obtain ⟨cb, hcb, hal⟩ := cellOk_ref (ht a c hc) hm
    obtain ⟨h1, h2⟩ := allowed_rank hal hs
    exact ih b cb hcb h2 (by omega)

/-! ### nesting: a stored subsequence holds elements only -/

/-- the sequence object at `b` holds no subsequences -/
def FlatSeq (h : Heap) (b : Addr) : Prop :=
  ∀ (cb : Cell) (db : Addr) (cdb : Cell), h[b]? = some cb → ("_data", Slot.ref db) ∈ cb.slots →
    h[db]? = some cdb → ∀ ks ∈ cdb.slots, ∀ (e : Addr) (ce : Cell), ks.2 = .ref e → h[e]? = some ce → ce.kind = .elObj

/-- every subsequence stored in the sequence object at `s` is flat -/
def SubsFlat (h : Heap) (s : Addr) : Prop :=
  ∀ (cs : Cell) (d : Addr) (cd : Cell), h[s]? = some cs → ("_data", Slot.ref d) ∈ cs.slots →
    h[d]? = some cd → ∀ ks ∈ cd.slots, ∀ (b : Addr) (cb : Cell), ks.2 = .ref b → h[b]? = some cb → cb.kind = .sqObj →
      FlatSeq h b

end BB.Heap
