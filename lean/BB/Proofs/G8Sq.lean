/-
  BB.Proofs.G8Sq — the Sequence programs of BB.Model.Heap never fault on well-formed heaps
  (part 1: constructor, setters, storing).
-/
import BB.Proofs.G8El2

namespace BB.Heap

/-! ### the parts of a sequence -/

structure SqParts (h : Heap) (s : Addr) (r : Owner) (d q w m : Addr) : Prop where
  data : follow h s "_data" = some d
  seqn : follow h s "_sequencing" = some q
  specs : follow h s "_awgspecs" = some w
  cache : follow h s "_meta" = some m
  isData : Is h d .sqData r
  isSeqn : Is h q .sqSeqn r
  isSpecs : Is h w .awgspecs r
  isCache : Is h m .cache r

def sqKeys : List String := ["_data", "_sequencing", "_awgspecs", "_meta", "_name"]

theorem sq_parts {h : Heap} (hg : Good h) {s : Addr} {r : Owner} (hs : Is h s .sqObj r) :
    ∃ d q w m : Addr, SqParts h s r d q w m := by
  obtain ⟨c, hc, hk, ho⟩ := hs
  have hfk : fixedKeys c.kind = some sqKeys := by rw [hk]; rfl
  obtain ⟨d, hd⟩ := follow_attr hg hc hfk (key := "_data") (by simp [sqKeys]) (by rw [hk]; rfl)
  obtain ⟨q, hq⟩ := follow_attr hg hc hfk (key := "_sequencing") (by simp [sqKeys]) (by rw [hk]; rfl)
  obtain ⟨w, hw⟩ := follow_attr hg hc hfk (key := "_awgspecs") (by simp [sqKeys]) (by rw [hk]; rfl)
  obtain ⟨m, hm⟩ := follow_attr hg hc hfk (key := "_meta") (by simp [sqKeys]) (by rw [hk]; rfl)
  have hi : Is h s .sqObj r := ⟨c, hc, hk, ho⟩
  exact ⟨d, q, w, m, hd, hq, hw, hm,
    is_follow hg hi hd (fun kk hal => by simpa [allowed] using hal) rfl,
    is_follow hg hi hq (fun kk hal => by simpa [allowed] using hal) rfl,
    is_follow hg hi hw (fun kk hal => by simpa [allowed] using hal) rfl,
    is_follow hg hi hm (fun kk hal => by simpa [allowed] using hal) rfl⟩

/-- the slots of a sequence object are exactly its five attributes -/
theorem sq_slots {h : Heap} (hg : Good h) {s : Addr} {c : Cell} (hc : h[s]? = some c) (hk : c.kind = .sqObj)
    {r : Owner} {d q w m : Addr} (p : SqParts h s r d q w m) :
    ∃ t : Nat, c.slots = [("_data", .ref d), ("_sequencing", .ref q), ("_awgspecs", .ref w), ("_meta", .ref m),
      ("_name", .imm t)] := by
  have hkeys := cellOk_keys (hg.typed s c hc) (keys := sqKeys) (by rw [hk]; rfl)
  obtain ⟨c1, hc1, hl1⟩ := follow_some p.data
  obtain ⟨c2, hc2, hl2⟩ := follow_some p.seqn
  obtain ⟨c3, hc3, hl3⟩ := follow_some p.specs
  obtain ⟨c4, hc4, hl4⟩ := follow_some p.cache
  rw [hc] at hc1 hc2 hc3 hc4; cases hc1; cases hc2; cases hc3; cases hc4
  have htyped := hg.typed s c hc
  match hs : c.slots, hkeys with
  | [(k1, s1), (k2, s2), (k3, s3), (k4, s4), (k5, s5)], hkeys =>
    rw [hs] at hl1 hl2 hl3 hl4 htyped
    simp only [sqKeys, List.map_cons, List.map_nil, List.cons.injEq, and_true] at hkeys
    obtain ⟨rfl, rfl, rfl, rfl, rfl⟩ := hkeys
    simp [lookupSlot, List.lookup] at hl1 hl2 hl3 hl4
    cases s5 with
    | imm t => exact ⟨t, by rw [hl1, hl2, hl3, hl4]⟩
    | ref x =>
      exfalso
      obtain ⟨cx, _, hal⟩ := cellOk_ref htyped (key := "_name") (b := x) (by simp)
      rw [hk] at hal
      simp [allowed] at hal

/-- a sequence object over its four parts -/
theorem sqObj_ok {h : Heap} {r : Owner} {d q w m : Addr} (t : Nat) (hd : Is h d .sqData r) (hq : Is h q .sqSeqn r)
    (hw : Is h w .awgspecs r) (hm : Is h m .cache r) :
    slotsOk h .sqObj r [("_data", .ref d), ("_sequencing", .ref q), ("_awgspecs", .ref w), ("_meta", .ref m),
      ("_name", .imm t)] = true ∧
    cellOk h .sqObj [("_data", .ref d), ("_sequencing", .ref q), ("_awgspecs", .ref w), ("_meta", .ref m),
      ("_name", .imm t)] = true := by
  constructor
  · apply slotsOk_intro rfl
    intro ks hks
    simp only [List.mem_cons, List.mem_nil_iff, or_false] at hks
    obtain ⟨cd, hd1, _, hd3⟩ := hd
    obtain ⟨cq, hq1, _, hq3⟩ := hq
    obtain ⟨cw, hw1, _, hw3⟩ := hw
    obtain ⟨cm, hm1, _, hm3⟩ := hm
    rcases hks with hks | hks | hks | hks | hks
    · subst hks; exact refOk_own hd1 hd3
    · subst hks; exact refOk_own hq1 hq3
    · subst hks; exact refOk_own hw1 hw3
    · subst hks; exact refOk_own hm1 hm3
    · subst hks; rfl
  · apply cellOk_intro (by simp [keysOk, fixedKeys])
    intro ks hks
    simp only [List.mem_cons, List.mem_nil_iff, or_false] at hks
    rcases hks with hks | hks | hks | hks | hks
    · subst hks; exact slotOkT_is hd (by simp [allowed])
    · subst hks; exact slotOkT_is hq (by simp [allowed])
    · subst hks; exact slotOkT_is hw (by simp [allowed])
    · subst hks; exact slotOkT_is hm (by simp [allowed])
    · subst hks; exact slotOkT_imm (by simp [allowed])

theorem cellOk_nil (h : Heap) (k : Kind) (hk : fixedKeys k = none) : cellOk h k [] = true := by
  simp [cellOk, keysOk, hk]

/-! ### `Sequence()` -/

/-- **`Sequence()` never faults**; the new sequence holds nothing -/
theorem sqNew_spec {base : Nat} {r : Owner} {h : Heap} (hg : Good h) :
    Runs base r sqNew h (fun s h' => h.length ≤ s ∧ Evo r pNone h h' ∧ Is h' s .sqObj r ∧
      ∃ d, follow h' s "_data" = some d ∧ h.length ≤ d ∧ h'[d]? = some ⟨.sqData, r, []⟩) := by
  unfold sqNew
  apply runs_bind
  apply runs_new hg (slotsOk_nil _ _ _) (cellOk_nil _ _ rfl)
  intro h1 e1 hd
  apply runs_bind
  apply runs_new e1.good (slotsOk_nil _ _ _) (cellOk_nil _ _ rfl)
  intro h2 e2 hq
  apply runs_bind
  apply runs_new e2.good (slotsOk_nil _ _ _) (cellOk_nil _ _ rfl)
  intro h3 e3 hw
  apply runs_bind
  apply runs_new e3.good (slotsOk_nil _ _ _) (cellOk_nil _ _ rfl)
  intro h4 e4 hm
  have hd4 : Is h4 h.length .sqData r := (((is_new hd).sub e2.sub).sub e3.sub).sub e4.sub
  have hq4 : Is h4 h1.length .sqSeqn r := ((is_new hq).sub e3.sub).sub e4.sub
  have hw4 : Is h4 h2.length .awgspecs r := (is_new hw).sub e4.sub
  obtain ⟨hso, hco⟩ := sqObj_ok 0 hd4 hq4 hw4 (is_new hm)
  apply runs_new e4.good hso hco
  intro h5 e5 hs
  refine ⟨?_, (((e1.trans e2).trans e3).trans e4).trans e5, is_new hs, h.length, ?_, Nat.le_refl _, ?_⟩
  · exact Nat.le_trans e1.len (Nat.le_trans e2.len (Nat.le_trans e3.len e4.len))
  · exact follow_of hs (by simp [lookupSlot, List.lookup])
  · exact e5.sub _ _ (e4.sub _ _ (e3.sub _ _ (e2.sub _ _ hd)))

/-! ### the setters -/

/-- **`setSR`, `setChannelAmplitude/Offset/Delay` never fault** -/
theorem sqSetSpec_spec {r : Owner} {h : Heap} {s : Addr} (tok : Nat) (key : String) (hg : Good h)
    (hs : Is h s .sqObj r) : Runs 0 r (sqSetSpec tok s key) h (fun _ h' => Evo r pLeaf h h') := by
  unfold sqSetSpec
  obtain ⟨d, q, w, m, p⟩ := sq_parts hg hs
  apply runs_bind
  apply runs_follow p.specs
  obtain ⟨cw, hcw, hkw, how⟩ := p.isSpecs
  apply runs_upsert (P := pLeaf) hg hcw (Is.writable hcw p.isSpecs rfl) (Or.inl (Nat.zero_le _))
  · exact slotsOk_imm (fun ks hks => by simp only [List.mem_singleton] at hks; subst hks; exact ⟨tok, rfl⟩)
  · rw [hkw]; exact slotOkT_imm (by simp [allowed])
  · left; rw [hkw]; rfl
  · simp [hkw, Kind.isPath]
  · intro h' e' _ _; exact e'

/-- **`setChannelFilterCompensation` never faults**: a new nested dict replaces the entry -/
theorem sqSetFilter_spec {r : Owner} {h : Heap} {s : Addr} (tok : Nat) (key : String) (hg : Good h)
    (hs : Is h s .sqObj r) : Runs 0 r (sqSetFilter tok s key) h (fun _ h' => Evo r pLeaf h h') := by
  unfold sqSetFilter
  apply runs_bind
  have himm : ∀ ks ∈ [("kind", Slot.imm tok), ("order", Slot.imm tok), ("f_cut", Slot.imm tok), ("tau", Slot.imm tok)],
      ∃ t, ks.2 = Slot.imm t := by
    intro ks hks
    simp only [List.mem_cons, List.mem_nil_iff, or_false] at hks
    rcases hks with hks | hks | hks | hks <;> subst hks <;> exact ⟨tok, rfl⟩
  apply runs_new hg (slotsOk_imm himm) (cellOk_flat rfl himm)
  intro h1 e1 hf
  have hf' : Is h1 h.length .filterDict r := is_new hf
  obtain ⟨d, q, w, m, p⟩ := sq_parts e1.good (hs.sub e1.sub)
  apply runs_bind
  apply runs_follow p.specs
  obtain ⟨cw, hcw, hkw, how⟩ := p.isSpecs
  apply runs_upsert (P := pLeaf) e1.good hcw (Is.writable hcw p.isSpecs rfl) (Or.inl (Nat.zero_le _))
  · rw [hkw, how]; exact slotsOk_one_own rfl hf'
  · rw [hkw]; exact slotOkT_is hf' (by simp [allowed])
  · left; rw [hkw]; rfl
  · simp [hkw, Kind.isPath]
  · intro h' e' _ _; exact e1.low_of_none.trans e'

/-- **the five sequencing setters never fault** on an existing position -/
theorem sqSetSeq_spec {r : Owner} {h : Heap} {s : Addr} (tok : Nat) (pos field : String) (hg : Good h)
    (hs : Is h s .sqObj r) (hpos : ∃ st, followPath h s ["_sequencing", pos] = some st) :
    Runs 0 r (sqSetSeq tok s pos field) h (fun _ h' => Evo r pLeaf h h') := by
  unfold sqSetSeq
  obtain ⟨st, hp⟩ := hpos
  obtain ⟨q, hq, hp2⟩ := followPath_cons hp
  obtain ⟨st', hst, hp3⟩ := followPath_cons hp2
  cases followPath_nil hp3
  have hiq : Is h q .sqSeqn r := is_follow hg hs hq (fun kk hal => by simpa [allowed] using hal) rfl
  have hist : Is h st .seqSetting r := is_follow hg hiq hst (fun kk hal => by simpa [allowed] using hal) rfl
  apply runs_bind
  apply runs_follow hq
  apply runs_bind
  apply runs_follow hst
  obtain ⟨cst, hcst, hkst, host⟩ := hist
  apply runs_upsert (P := pLeaf) hg hcst (Is.writable hcst ⟨cst, hcst, hkst, host⟩ rfl) (Or.inl (Nat.zero_le _))
  · exact slotsOk_imm (fun ks hks => by simp only [List.mem_singleton] at hks; subst hks; exact ⟨tok, rfl⟩)
  · rw [hkst]; exact slotOkT_imm (by simp [allowed])
  · left; rw [hkst]; rfl
  · simp [hkst, Kind.isPath]
  · intro h' e' _ _; exact e'

theorem imm5 (t1 t2 t3 t4 t5 : Nat) (k1 k2 k3 k4 k5 : String) :
    ∀ ks ∈ [(k1, Slot.imm t1), (k2, Slot.imm t2), (k3, Slot.imm t3), (k4, Slot.imm t4), (k5, Slot.imm t5)],
      ∃ t, ks.2 = Slot.imm t := by
  intro ks hks
  simp only [List.mem_cons, List.mem_nil_iff, or_false] at hks
  rcases hks with hks | hks | hks | hks | hks <;> subst hks <;> exact ⟨_, rfl⟩

/-- `self._sequencing[pos] = st` for a fresh settings dict -/
theorem storeSetting_spec {r : Owner} {h : Heap} {s : Addr} (pos : String) {st : Addr} (hg : Good h)
    (hs : Is h s .sqObj r) (hst : Is h st .seqSetting r) :
    Runs 0 r (do let q ← refAt s "_sequencing"; setKey q pos (.ref st)) h (fun _ h' => Evo r pLeaf h h') := by
  obtain ⟨d, q, w, m, p⟩ := sq_parts hg hs
  apply runs_bind
  apply runs_follow p.seqn
  obtain ⟨cq, hcq, hkq, hoq⟩ := p.isSeqn
  apply runs_upsert (P := pLeaf) hg hcq (Is.writable hcq p.isSeqn rfl) (Or.inl (Nat.zero_le _))
  · rw [hkq, hoq]; exact slotsOk_one_own rfl hst
  · rw [hkq]; exact slotOkT_is hst (by simp [allowed])
  · left; rw [hkq]; rfl
  · simp [hkq, Kind.isPath]
  · intro h' e' _ _; exact e'

/-- **the deprecated `setSequenceSettings` never faults**: a new settings dict for the position -/
theorem sqSetSeqSettings_spec {r : Owner} {h : Heap} {s : Addr} (tok : Nat) (pos : String) (hg : Good h)
    (hs : Is h s .sqObj r) : Runs 0 r (sqSetSeqSettings tok s pos) h (fun _ h' => Evo r pLeaf h h') := by
  unfold sqSetSeqSettings
  apply runs_bind
  have himm := imm5 tok tok tok tok tok "twait" "nrep" "jump_input" "jump_target" "goto"
  apply runs_new hg (slotsOk_imm himm) (cellOk_flat rfl himm)
  intro h1 e1 hst
  apply runs_mono (storeSetting_spec pos e1.good (hs.sub e1.sub) (is_new hst))
  intro _ h2 e2
  exact e1.low_of_none.trans e2

/-- **`Sequence.setName` never faults** -/
theorem sqSetName_spec {r : Owner} {h : Heap} {s : Addr} {cs : Cell} (tok : Nat) (hg : Good h)
    (hc : h[s]? = some cs) (hk : cs.kind = .sqObj) (ho : cs.owner = r) :
    Runs 0 r (sqSetName tok s) h (fun _ h' => Evo r (fun a _ => a == s) h h' ∧
      h'[s]? = some { cs with slots := upsertSlot cs.slots "_name" (.imm tok) }) := by
  unfold sqSetName
  apply runs_bind
  apply runs_cellAt hc
  have hkey : "_name" ∈ cs.slots.map (·.1) := by
    rw [cellOk_keys (hg.typed s cs hc) (keys := sqKeys) (by rw [hk]; rfl)]; simp [sqKeys]
  apply runs_put (P := fun a _ => a == s) hg hc (by simp [writable, hk, Kind.frozen, ho]) (Or.inl (Nat.zero_le _))
  · apply slotsOk_upsertSlot (hg.closed s cs hc)
    exact slotsOk_imm (fun ks hks => by simp only [List.mem_singleton] at hks; subst hks; exact ⟨tok, rfl⟩)
  · apply cellOk_upsertSlot (hg.typed s cs hc) _ (Or.inr hkey)
    rw [hk]; exact slotOkT_imm (by simp [allowed])
  · simp
  · intro h' e' hs' _; exact ⟨e', hs'⟩

end BB.Heap
