/-
  BB.Proofs.G4Frame — what `forge` delivers for one element, channel by channel: which entry of
  the stored element each forged channel comes from, and what passes through the delay step and
  the filter step untouched (channel ids and order, flags, the time option).
-/
import BB.Proofs.G4Elem

namespace BB
open Element

/-- the flags a forged channel carries -/
def Element.ChOut.flags : ChOut → Option (List Nat)
  | .forged _ fl _ => fl
  | .arrays _ fl _ => fl

/-- the time axis (and, for a blueprint, the segment durations) is there exactly when requested
    (for raw arrays: and the user did not store a 'time' array) -/
def Element.ChOut.timeAsRequested (t : Bool) : ChOut → Prop
  | .forged _ _ wt => wt = t
  | .arrays a _ time => time.isSome = (t && !(Dict.has a "time"))

/-- one channel of `getArrays` -/
theorem g4_chanOut_spec (t : Bool) (ent : ChEntry) (o : ChOut) (h : chanOut t ent = .ok o) :
    o.flags = ent.flags ∧ o.timeAsRequested t ∧
    (∀ b, ent.data = .bp b → ∃ f, forgeBP b = .ok f ∧ o = .forged f ent.flags t) ∧
    (∀ a sv, ent.data = .arr a sv → ∃ time, o = .arrays a ent.flags time) ∧ ent.data ≠ .broken := by
  unfold chanOut at h
  obtain ⟨d, fl⟩ := ent
  cases d with
  | bp b =>
    simp only at h
    cases hf : forgeBP b with
    | error er => rw [hf] at h; simp [Except.map] at h
    | ok f =>
      rw [hf] at h
      simp only [Except.map, Except.ok.injEq] at h
      subst h
      refine ⟨rfl, rfl, fun b' hb => ?_, (fun a sv ha => by cases ha), by simp⟩
      simp only [ChData.bp.injEq] at hb
      subst hb
      exact ⟨f, hf, rfl⟩
  | arr a sv =>
    simp only at h
    by_cases hc : (t && !(Dict.has a "time")) = true
    · simp only [hc, if_true] at h
      cases sv with
      | num q =>
        simp only at h
        by_cases hq : q = 0
        · simp [hq] at h
        · simp only [hq, if_false, Except.ok.injEq] at h
          subst h
          refine ⟨rfl, ?_, (fun b hb => by cases hb), fun a' sv' ha => ?_, by simp⟩
          · simp only [ChOut.timeAsRequested, Option.isSome_some, hc]
          · simp only [ChData.arr.injEq] at ha
            obtain ⟨rfl, rfl⟩ := ha
            exact ⟨_, rfl⟩
      | str _ => simp at h
      | none => simp at h
      | opq _ => simp at h
    · simp only [hc, Bool.false_eq_true, if_false, Except.ok.injEq] at h
      subst h
      refine ⟨rfl, ?_, (fun b hb => by cases hb), fun a' sv' ha => ?_, by simp⟩
      · simp only [ChOut.timeAsRequested, Option.isSome_none]
        simpa using hc
      · simp only [ChData.arr.injEq] at ha
        obtain ⟨rfl, rfl⟩ := ha
        exact ⟨_, rfl⟩
  | broken => simp at h

namespace Sequence

theorem g4_attach_frame (s : Sequence) (apply : Bool) (x : Chan × Element.ChOut) (y : Chan × ChOutF)
    (h : s.attach apply x = .ok y) :
    y.1 = x.1 ∧ y.2.out = x.2 ∧ (apply = false → y.2.filt = none) ∧ (apply = true → s.filterOf x.1 = .ok y.2.filt) := by
  unfold Sequence.attach at h
  cases apply with
  | false =>
    simp only [Bool.false_eq_true, if_false, Except.ok.injEq] at h
    subst h; simp
  | true =>
    simp only [if_true] at h
    cases hf : s.filterOf x.1 with
    | error e => simp [hf] at h
    | ok f =>
      simp only [hf, Except.ok.injEq] at h
      subst h; simp

/-- the filter step, channel by channel: ids, order and arrays untouched; the annotation is the
    channel's own declared filter (none when filters are off) -/
theorem g4_withFilters_getElem (s : Sequence) (apply : Bool) (d : Dict Chan Element.ChOut) (r : Dict Chan ChOutF)
    (h : s.withFilters apply d = .ok r) :
    r.length = d.length ∧
    ∀ i (hi : i < d.length) (hr : i < r.length),
      r[i].1 = d[i].1 ∧ r[i].2.out = d[i].2 ∧ (apply = false → r[i].2.filt = none) ∧
        (apply = true → s.filterOf d[i].1 = .ok r[i].2.filt) := by
  unfold Sequence.withFilters at h
  refine ⟨mapM_ok_length _ _ _ h, ?_⟩
  intro i hi hr
  exact g4_attach_frame s apply d[i] r[i] (mapM_ok_getElem _ _ _ h i hi hr)

/-- how a stored channel entry relates to the entry after the (optional) delay step -/
def DelayedFrom (ent ent' : ChEntry) : Prop :=
  ent'.flags = ent.flags ∧
  (∀ b, ent.data = .bp b → ∃ b', ent'.data = .bp b') ∧
  (∀ a sv, ent.data = .arr a sv → ∃ a', ent'.data = .arr a' sv ∧ Dict.keys a' = Dict.keys a) ∧
  ent.data ≠ .broken

theorem g4_keys_padAll (pre post : Nat) (a : Dict String (List Rat)) : Dict.keys (Paths.padAll pre post a) = Dict.keys a := by
  simp [Paths.padAll, Dict.keys, List.map_map, Function.comp_def]

/-- **the delay step, channel by channel**: the delayed element lists the same channel ids in the
    same order; every channel keeps its flags and its kind (blueprint / raw arrays with the same
    array names and sample rate) -/
theorem delayedEl_frame (s : Sequence) (e e' : Element) (h : s.delayElement e = .ok e') :
    e'.chans.length = e.chans.length ∧
    ∀ k (hk : k < e.chans.length) (hk' : k < e'.chans.length),
      (e'.chans[k]).1 = (e.chans[k]).1 ∧ DelayedFrom (e.chans[k]).2 (e'.chans[k]).2 := by
  obtain ⟨ds, _, herr, hst⟩ := g4_delayElement_ok s e e' h
  obtain ⟨m, sr, _, _, hlen, hl, hall⟩ := g4_applyDelays_getElem e ds herr
  subst hst
  refine ⟨hl, fun k hk hk' => ?_⟩
  obtain ⟨h1, h2⟩ := hall k hk hk' (by omega)
  refine ⟨h1, g4_dEnt_flags _ _ _ _ _ h2, ?_, ?_, (g4_dEnt_data _ _ _ _ _ h2).2.2⟩
  · intro b hb
    exact ⟨_, (g4_dEnt_data _ _ _ _ _ h2).1 b hb⟩
  · intro a sv ha
    exact ⟨_, (g4_dEnt_data _ _ _ _ _ h2).2.1 a sv ha, g4_keys_padAll _ _ _⟩

/-- **one element through `forge`** (delay step if requested, `getArrays`, filter step): forged
    channel `k` is the element's `k`-th channel — same id —, carries that channel's flags, has the
    time axis exactly as requested, and is a forged blueprint / a raw-array dictionary according
    to what the element stores there -/
theorem element_output_frame (s : Sequence) (d f t : Bool) (e e' : Element) (arr : Dict Chan ChOut)
    (c : Dict Chan ChOutF) (h1 : delayedEl s d e = .ok e') (h2 : e'.getArrays t = .ok arr)
    (h3 : s.withFilters f arr = .ok c) :
    c.length = e.chans.length ∧
    ∀ k (hk : k < e.chans.length) (hc : k < c.length),
      (c[k]).1 = (e.chans[k]).1 ∧ (c[k]).2.out.flags = (e.chans[k]).2.flags ∧ (c[k]).2.out.timeAsRequested t ∧
      (f = false → (c[k]).2.filt = none) ∧ (f = true → s.filterOf (e.chans[k]).1 = .ok (c[k]).2.filt) ∧
      (∀ b, (e.chans[k]).2.data = .bp b → ∃ fg fl wt, (c[k]).2.out = .forged fg fl wt) ∧
      (∀ a sv, (e.chans[k]).2.data = .arr a sv → ∃ a' fl tm, (c[k]).2.out = .arrays a' fl tm ∧ Dict.keys a' = Dict.keys a) ∧
      (e.chans[k]).2.data ≠ .broken := by
  -- the delay step
  have hfr : e'.chans.length = e.chans.length ∧
      ∀ k (hk : k < e.chans.length) (hk' : k < e'.chans.length),
        (e'.chans[k]).1 = (e.chans[k]).1 ∧ DelayedFrom (e.chans[k]).2 (e'.chans[k]).2 ∨
        (e'.chans[k]) = (e.chans[k]) := by
    unfold delayedEl at h1
    by_cases hd : d = true
    · simp only [hd, if_true] at h1
      obtain ⟨a, b⟩ := delayedEl_frame s e e' h1
      exact ⟨a, fun k hk hk' => Or.inl (b k hk hk')⟩
    · simp only [hd, Bool.false_eq_true, if_false, Except.ok.injEq] at h1
      subst h1
      exact ⟨rfl, fun k hk hk' => Or.inr rfl⟩
  obtain ⟨hl1, hfr⟩ := hfr
  obtain ⟨hl2, hga⟩ := g4_getArrays_getElem e' t arr h2
  obtain ⟨hl3, hwf⟩ := g4_withFilters_getElem s f arr c h3
  refine ⟨by omega, fun k hk hc => ?_⟩
  have k1 : k < e'.chans.length := by omega
  have k2 : k < arr.length := by omega
  obtain ⟨g1, g2⟩ := hga k k1 k2
  obtain ⟨w1, w2, w3, w4⟩ := hwf k k2 hc
  obtain ⟨o1, o2, o3, o4, o5⟩ := g4_chanOut_spec t _ _ g2
  have hkey : (e'.chans[k]).1 = (e.chans[k]).1 := by
    rcases hfr k hk k1 with h | h
    · exact h.1
    · rw [h]
  have hflag : (e'.chans[k]).2.flags = (e.chans[k]).2.flags := by
    rcases hfr k hk k1 with h | h
    · exact h.2.1
    · rw [h]
  refine ⟨by rw [w1, g1, hkey], by rw [w2, o1, hflag], by rw [w2]; exact o2, w3, ?_, ?_, ?_, ?_⟩
  · intro hf
    have := w4 hf
    rw [g1, hkey] at this
    exact this
  · intro b hb
    rw [w2]
    rcases hfr k hk k1 with h | h
    · obtain ⟨b', hb'⟩ := h.2.2.1 b hb
      obtain ⟨fg, _, ho⟩ := o3 b' hb'
      exact ⟨fg, _, _, ho⟩
    · rw [← h] at hb
      obtain ⟨fg, _, ho⟩ := o3 b hb
      exact ⟨fg, _, _, ho⟩
  · intro a sv ha
    rw [w2]
    rcases hfr k hk k1 with h | h
    · obtain ⟨a', ha', hk'⟩ := h.2.2.2.1 a sv ha
      obtain ⟨tm, ho⟩ := o4 a' sv ha'
      exact ⟨a', _, tm, ho, hk'⟩
    · rw [← h] at ha
      obtain ⟨tm, ho⟩ := o4 a sv ha
      exact ⟨a, _, tm, ho, rfl⟩
  · rcases hfr k hk k1 with h | h
    · exact h.2.2.2.2
    · rw [← h]; exact o5

end Sequence
end BB
