/-
  BB.Proofs.G8Value08 — value-level statements for property C08 ("forging, output and queries are
  read-only and repeatable"), about the public sequence operations for all inputs:
  * the `includetime` option of `Sequence.forge` changes nothing but the time field;
  * the validation caches of stored elements are observable by no read-only sequence operation.
-/
import BB.Model.Describe
import BB.Proofs.Basic
import BB.Proofs.DictEq
import BB.Proofs.Consistent
import BB.Proofs.G5Add

namespace BB.C08V
open BB BB.Sequence

/-! ### generic: two `mapM` passes whose steps agree up to a projection agree up to it -/

/-- helper (C08, options do not interact): two `mapM` passes whose steps agree up to projections `h`, `k` agree up to them — same error or projected results equal -/
theorem mapM_map_congr {α β γ δ : Type} (f : α → Except Err β) (g : α → Except Err γ) (h : β → δ) (k : γ → δ)
    (l : List α) (H : ∀ x ∈ l, (f x).map h = (g x).map k) :
    (l.mapM f).map (List.map h) = (l.mapM g).map (List.map k) := by
  induction l with
  | nil => rfl
  | cons a t ih =>
    rw [mapM_cons_eq, mapM_cons_eq]
    have ha := H a (by simp)
    have ht := ih (fun x hx => H x (by simp [hx]))
    cases hfa : f a with
    | error e =>
      rw [hfa] at ha
      cases hga : g a with
      | error e2 => rw [hga] at ha; simp only [Except.map, Except.error.injEq] at ha ⊢; exact ha
      | ok c => rw [hga] at ha; cases ha
    | ok b =>
      rw [hfa] at ha
      cases hga : g a with
      | error e2 => rw [hga] at ha; cases ha
      | ok c =>
        rw [hga] at ha
        simp only [Except.map, Except.ok.injEq] at ha
        cases hft : t.mapM f with
        | error e =>
          rw [hft] at ht
          cases hgt : t.mapM g with
          | error e2 => rw [hgt] at ht; simp only [Except.map, Except.error.injEq] at ht ⊢; exact ht
          | ok cs => rw [hgt] at ht; cases ht
        | ok bs =>
          rw [hft] at ht
          cases hgt : t.mapM g with
          | error e2 => rw [hgt] at ht; cases ht
          | ok cs =>
            rw [hgt] at ht
            simp only [Except.map, Except.ok.injEq] at ht ⊢
            simp [ha, ht]

/-- a `mapM` pass commutes with a projection that its step commutes with -/
theorem mapM_map_comm {α β γ : Type} (f : α → Except Err β) (h : β → γ) (l : List α) :
    (l.mapM f).map (List.map h) = l.mapM (fun x => (f x).map h) := by
  have := mapM_map_congr f (fun x => (f x).map h) h id l (fun x _ => by cases f x <;> rfl)
  rw [this]
  cases l.mapM (fun x => (f x).map h) <;> simp [Except.map]

/-! ### item 2 — `forge(…, includetime=True)` and `forge(…, includetime=False)` differ only in the time field -/

/-- forget the time information of one delivered channel: the `includetime` flag of a forged
    blueprint channel, the time-axis descriptor `(N, SR)` of a raw-array channel; waveform blocks,
    markers, stored arrays and flags stay -/
def eraseChOut : Element.ChOut → Element.ChOut
  | .forged f fl _ => .forged f fl false
  | .arrays a fl _ => .arrays a fl none

/-- … of every channel of what `getArrays` returns -/
def eraseArrays (d : Dict Chan Element.ChOut) : Dict Chan Element.ChOut := d.map (fun x => (x.1, eraseChOut x.2))

/-- … of a channel with its filter annotation -/
def eraseF (c : ChOutF) : ChOutF := { c with out := eraseChOut c.out }

/-- … of one forged position (every inner position, every channel); sequencing entries, the
    subsequence flag, positions, channel names, filter annotations stay -/
def erasePos (p : ForgedPos) : ForgedPos :=
  { p with content := p.content.map (fun c => (c.1, c.2.1.map (fun x => (x.1, eraseF x.2)), c.2.2)) }

/-- … of the whole result of `Sequence.forge` -/
def eraseTime (out : List (Nat × ForgedPos)) : List (Nat × ForgedPos) := out.map (fun r => (r.1, erasePos r.2))

/-- what `eraseTime` keeps: the erased channel has the same waveform, markers and flags
    (for `outputForAWGFile`-style consumers: `chWave`, `chMarker`, `chFlags` do not see the time field) -/
theorem eraseF_keeps (c : ChOutF) (w : Nat) :
    chWave (eraseF c) = chWave c ∧ chMarker (eraseF c) w = chMarker c w ∧ chFlags (eraseF c) = chFlags c ∧
    (eraseF c).filt = c.filt := by
  obtain ⟨o, fl⟩ := c
  cases o <;> exact ⟨rfl, rfl, rfl, rfl⟩

example : eraseF ⟨.arrays [("wfm", [1])] none (some (1, 1)), none⟩ = ⟨.arrays [("wfm", [1])] none none, none⟩ := by decide

/-- every raw-array channel of the element has a non-zero numeric sample rate (what
    `validateDurations` enforces; it is what the time axis `linspace(0, N/SR, N)` needs) -/
def TimeOK (e : Element) : Prop :=
  ∀ p ∈ e.chans, ∀ a sr, p.2.data = .arr a sr → ∃ q : Rat, sr = .num q ∧ q ≠ 0

/-- for one channel entry with a usable sample rate, `includetime` only adds the time field -/
theorem chanOut_erase (ent : ChEntry) (h : ∀ a sr, ent.data = .arr a sr → ∃ q : Rat, sr = .num q ∧ q ≠ 0) :
    (Element.chanOut true ent).map eraseChOut = Element.chanOut false ent := by
  obtain ⟨dat, fl⟩ := ent
  cases dat with
  | bp b =>
    show ((forgeBP b).map (fun f => Element.ChOut.forged f fl true)).map eraseChOut =
      (forgeBP b).map (fun f => Element.ChOut.forged f fl false)
    cases forgeBP b <;> rfl
  | arr a sr =>
    obtain ⟨q, rfl, hq⟩ := h a sr rfl
    unfold Element.chanOut
    simp only [Bool.true_and, Bool.false_and, Bool.false_eq_true, if_false]
    split
    · rfl
    · rfl
  | broken => rfl

/-- `Element.getArrays(includetime=True)` is `getArrays(includetime=False)` plus time fields, on
    every element whose raw-array channels have a usable sample rate (every validated element) -/
theorem getArrays_erase (e : Element) (h : TimeOK e) :
    (e.getArrays true).map eraseArrays = e.getArrays false := by
  unfold Element.getArrays eraseArrays
  rw [mapM_map_comm]
  apply G5.mapM_congr_ok
  intro x hx
  obtain ⟨ch, ent⟩ := x
  simp only
  rw [← chanOut_erase ent (fun a sr hd => h (ch, ent) hx a sr hd)]
  cases Element.chanOut true ent <;> rfl

/-- … of the arrays of the inner positions of one forged position, before filters are attached -/
def eraseRaw (c : RawContent) : RawContent := c.map (fun x => (x.1, eraseArrays x.2.1, x.2.2))

/-- … of what phase 2 of `forge` returns for one position -/
def eraseRawEntry (x : Nat × SeqSet × Bool × RawContent) : Nat × SeqSet × Bool × RawContent :=
  (x.1, x.2.1, x.2.2.1, eraseRaw x.2.2.2)

/-- every element of the entry (of the stored subsequence) has usable raw-array sample rates -/
def EntryTimeOK : Entry → Prop
  | .el e => TimeOK e
  | .sub sub => ∀ pe ∈ sub.data, TimeOK pe.2

/-- helper (C08, time axis): a raw-array channel whose duration can be computed has a non-zero numeric sample rate -/
theorem chanDuration_ok_arr (ent : ChEntry) (b : Rat) (h : Element.chanDuration ent = .ok b)
    (a : Dict String (List Rat)) (sr : Val) (hd : ent.data = .arr a sr) : ∃ q : Rat, sr = .num q ∧ q ≠ 0 := by
  obtain ⟨dat, fl⟩ := ent
  simp only at hd
  subst hd
  unfold Element.chanDuration at h
  cases sr with
  | num q =>
    by_cases hq : q = 0
    · simp [hq] at h
    · exact ⟨q, rfl, hq⟩
  | str _ => simp at h
  | none => simp at h
  | opq _ => simp at h

/-- a validated element has usable raw-array sample rates -/
theorem validate_timeOK (e : Element) (m : Val × Rat) (h : e.validate = .ok m) : TimeOK e := by
  unfold Element.validate at h
  split at h
  · cases h
  · split at h
    · cases h
    · split at h
      · cases h
      · split at h
        · cases h
        · rename_i durs hdur
          intro p hp a sr hd
          obtain ⟨b, _, hb⟩ := mapM_mem _ _ _ hdur p.2 (List.mem_map.mpr ⟨p, hp, rfl⟩)
          exact chanDuration_ok_arr p.2 b hb a sr hd

/-- non-vacuity of `TimeOK` (hypothesis of `getArrays_erase`): a raw-array element at SR 1 -/
example : TimeOK ⟨[(.int 1, { data := .arr [("wfm", [1, 2])] (.num 1) })], none⟩ :=
  validate_timeOK _ (.num 1, 2) (by decide +kernel)

/-- helper: every result of a successful `mapM` pass comes from an input -/
theorem mapM_mem_rev {α β : Type} (f : α → Except Err β) (l : List α) (r : List β) (h : l.mapM f = .ok r) (b : β)
    (hb : b ∈ r) : ∃ a ∈ l, f a = .ok b := by
  obtain ⟨i, hi, rfl⟩ := List.getElem_of_mem hb
  have hl := mapM_ok_length f l r h
  exact ⟨l[i]'(by omega), List.getElem_mem _, mapM_ok_getElem f l r h i (by omega) hi⟩

/-- `_applyDelays` keeps the sample rate of every raw-array channel -/
theorem applyDelays_timeOK (e : Element) (ds : List Rat) (h : (e.applyDelays ds).err = none) :
    TimeOK (e.applyDelays ds).st := by
  unfold Element.applyDelays at h ⊢
  split
  · rename_i h1; simp [h1] at h
  · rename_i h1
    simp only [h1, if_false] at h
    split
    · rename_i h2; simp [h2] at h
    · rename_i h2
      simp only [h2] at h
      cases hv : e.validate with
      | error er => simp [hv] at h
      | ok m =>
        have hok := validate_timeOK e m hv
        simp only [hv] at h ⊢
        obtain ⟨m1, m2⟩ := m
        cases m1 with
        | num sr =>
          simp only at h ⊢
          cases hm : (e.chans.zip ds).mapM (fun p => (Element.delayChan sr (maxR ds) p.1.2 p.2).map (fun y => (p.1.1, y))) with
          | error er => simp [hm] at h
          | ok chans =>
            simp only
            intro p hp a sr2 hd
            obtain ⟨x, hx, hfx⟩ := mapM_mem_rev _ _ _ hm p hp
            have hx1 : x.1 ∈ e.chans := (List.of_mem_zip hx).1
            cases hdc : Element.delayChan sr (maxR ds) x.1.2 x.2 with
            | error er => simp [hdc, Except.map] at hfx
            | ok y =>
              simp only [hdc, Except.map, Except.ok.injEq] at hfx
              subst hfx
              simp only at hd
              unfold Element.delayChan at hdc
              split at hdc
              · split at hdc
                · cases hdc
                · cases hdc; cases hd
              · rename_i a0 s0 hdat
                cases hdc
                simp only [ChData.arr.injEq] at hd
                exact hok x.1 hx1 a0 sr2 (by rw [hdat, hd.2])
              · cases hdc
        | str _ => simp at h
        | none => simp at h
        | opq _ => simp at h

/-- helper (C08, time axis): an element delayed by `forge` keeps usable raw-array sample rates -/
theorem delayElement_timeOK (s : Sequence) (e e2 : Element) (h : s.delayElement e = .ok e2) : TimeOK e2 := by
  unfold Sequence.delayElement at h
  cases hds : s.delaysFor e with
  | error er => simp [hds, bind, Except.bind] at h
  | ok ds =>
    simp only [hds, bind, Except.bind] at h
    cases herr : (e.applyDelays ds).err with
    | some er => simp [herr, throw, throwThe, MonadExceptOf.throw] at h
    | none =>
      simp only [herr, pure, Except.pure, Except.ok.injEq] at h
      subst h
      exact applyDelays_timeOK e ds herr

/-- phase 1 of `forge` (delays on or off) keeps every raw-array sample rate usable -/
theorem delayEntry_timeOK (s : Sequence) (d : Bool) (en en2 : Entry) (hen : EntryTimeOK en)
    (h : s.delayEntry d en = .ok en2) : EntryTimeOK en2 := by
  cases d with
  | false =>
    cases en with
    | el e => simp only [Sequence.delayEntry, Bool.false_eq_true, if_false, Except.ok.injEq] at h; subst h; exact hen
    | sub sub => simp only [Sequence.delayEntry, Bool.false_eq_true, if_false, Except.ok.injEq] at h; subst h; exact hen
  | true =>
    cases en with
    | el e =>
      simp only [Sequence.delayEntry, if_true] at h
      cases hde : s.delayElement e with
      | error er => simp [hde, Except.map] at h
      | ok e2 =>
        simp only [hde, Except.map, Except.ok.injEq] at h
        subst h
        exact delayElement_timeOK s e e2 hde
    | sub sub =>
      simp only [Sequence.delayEntry, if_true] at h
      cases hm : sub.data.mapM (fun pe => (s.delayElement pe.2).map (fun e' => (pe.1, e'))) with
      | error er => rw [hm] at h; simp [Except.map] at h
      | ok dd =>
        rw [hm] at h
        simp only [Except.map, Except.ok.injEq] at h
        subst h
        intro pe hpe
        obtain ⟨x, _, hfx⟩ := mapM_mem_rev _ _ _ hm pe hpe
        cases hde : s.delayElement x.2 with
        | error er => simp [hde, Except.map] at hfx
        | ok e2 =>
          simp only [hde, Except.map, Except.ok.injEq] at hfx
          subst hfx
          exact delayElement_timeOK s x.2 e2 hde

/-- helper: a stored subsequence that reports channels passed its own `checkConsistency` -/
theorem subChannels_ok_consistent (sub : SubSeq) (c : List Chan) (h : sub.channels = .ok c) :
    sub.checkConsistency = .ok true := by
  unfold SubSeq.channels at h
  cases hc : sub.checkConsistency with
  | error er => simp [hc, bind, Except.bind] at h
  | ok b =>
    cases b with
    | true => rfl
    | false => simp [hc, bind, Except.bind, throw, throwThe, MonadExceptOf.throw] at h

/-- helper (C08, time axis): `checkConsistency` of a subsequence validated every one of its elements -/
theorem subConsistent_timeOK (sub : SubSeq) (b : Bool) (h : sub.checkConsistency = .ok b) :
    ∀ pe ∈ sub.data, TimeOK pe.2 := by
  unfold SubSeq.checkConsistency at h
  split at h
  · cases h
  · split at h
    · cases h
    · rename_i srs hsr
      intro pe hpe
      obtain ⟨v, _, hv⟩ := mapM_mem _ _ _ hsr pe.2 (List.mem_map.mpr ⟨pe, hpe, rfl⟩)
      unfold Element.getSR at hv
      cases hval : pe.2.validate with
      | error er => simp [hval, Except.map] at hv
      | ok m => exact validate_timeOK pe.2 m hval

/-- in a sequence that passes `checkConsistency`, every stored element — also inside stored
    subsequences — has been validated, so its raw-array sample rates are usable -/
theorem consistent_timeOK (s : Sequence) (h : s.checkConsistency = .ok true) :
    ∀ p ∈ s.data, EntryTimeOK p.2 := by
  unfold Sequence.checkConsistency at h
  split at h
  · cases h
  · split at h
    · cases h
    · rename_i srs hsr
      split at h
      · cases h
      · split at h
        · split at h <;> cases h
        · rename_i chans hch
          intro p hp
          obtain ⟨k, en⟩ := p
          have hmem : en ∈ Dict.vals s.data := List.mem_map.mpr ⟨(k, en), hp, rfl⟩
          cases en with
          | el e =>
            obtain ⟨v, _, hv⟩ := mapM_mem _ _ _ hsr _ hmem
            simp only [Entry.getSR, Element.getSR] at hv
            cases hval : e.validate with
            | error er => simp [hval, Except.map] at hv
            | ok m => exact validate_timeOK e m hval
          | sub sub =>
            obtain ⟨c, _, hc⟩ := mapM_mem _ _ _ hch _ hmem
            exact subConsistent_timeOK sub true (subChannels_ok_consistent sub c hc)

/-! #### the three phases of `forge` -/

/-- helper (C08, time axis), phase 2 of `forge` for a subsequence: `includetime` only adds time fields -/
theorem forgeInner_erase (sub : SubSeq) (h : ∀ pe ∈ sub.data, TimeOK pe.2) :
    (forgeInner true sub).map eraseRaw = forgeInner false sub := by
  unfold forgeInner eraseRaw
  rw [mapM_map_comm]
  apply G5.mapM_congr_ok
  intro j _
  cases hg : Dict.get? sub.data ((j + 1 : Nat) : Int) with
  | none => rfl
  | some e =>
    simp only
    have hmem := Dict.mem_of_get?_eq_some _ _ hg
    rw [← getArrays_erase e (h _ hmem)]
    cases e.getArrays true with
    | error er => rfl
    | ok arr =>
      simp only [Except.map]
      cases Dict.get? sub.sequencing ((j + 1 : Nat) : Int) <;> rfl

/-- phase 2 of `forge` for one position: with `includetime` the same arrays plus time fields -/
theorem forgeEntry_erase (s : Sequence) (x : Nat × Entry) (h : EntryTimeOK x.2) :
    (s.forgeEntry true x).map eraseRawEntry = s.forgeEntry false x := by
  obtain ⟨p, en⟩ := x
  unfold forgeEntry
  simp only
  cases Dict.get? s.sequencing (p : Int) with
  | none => rfl
  | some sq =>
    cases en with
    | el e =>
      simp only
      rw [← getArrays_erase e h]
      cases e.getArrays true <;> rfl
    | sub sub =>
      simp only
      rw [← forgeInner_erase sub h]
      cases forgeInner true sub <;> rfl

/-- helper (C08, time axis): attaching the declared filter to one channel commutes with erasing the time field -/
theorem attach_erase (s : Sequence) (f : Bool) (x : Chan × Element.ChOut) :
    (s.attach f x).map (fun y => (y.1, eraseF y.2)) = s.attach f (x.1, eraseChOut x.2) := by
  unfold attach
  cases f with
  | false => rfl
  | true =>
    simp only [if_true]
    cases s.filterOf x.1 <;> rfl

/-- helper (C08, time axis): attaching the declared filters commutes with erasing the time fields -/
theorem withFilters_erase (s : Sequence) (f : Bool) (d : Dict Chan Element.ChOut) :
    (s.withFilters f d).map (List.map (fun y => (y.1, eraseF y.2))) = s.withFilters f (eraseArrays d) := by
  unfold withFilters eraseArrays
  rw [mapM_map_comm, G5.mapM_map_ok]
  exact G5.mapM_congr_ok _ _ _ (fun x _ => attach_erase s f x)

/-- phase 3 of `forge` passes the time fields through untouched -/
theorem filterEntry_erase (s : Sequence) (f : Bool) (x : Nat × SeqSet × Bool × RawContent) :
    (s.filterEntry f x).map (fun r => (r.1, erasePos r.2)) = s.filterEntry f (eraseRawEntry x) := by
  unfold filterEntry eraseRawEntry eraseRaw
  simp only
  rw [G5.mapM_map_ok]
  have hstep : ∀ c : Nat × Dict Chan Element.ChOut × Option SeqSet,
      ((s.withFilters f c.2.1).map (fun a => (c.1, a, c.2.2))).map
          (fun c => (c.1, c.2.1.map (fun y => (y.1, eraseF y.2)), c.2.2)) =
        (s.withFilters f (eraseArrays c.2.1)).map (fun a => (c.1, a, c.2.2)) := by
    intro c
    rw [← withFilters_erase]
    cases s.withFilters f c.2.1 <;> rfl
  have := mapM_map_comm (fun c : Nat × Dict Chan Element.ChOut × Option SeqSet =>
      (s.withFilters f c.2.1).map (fun a => (c.1, a, c.2.2)))
      (fun c => (c.1, c.2.1.map (fun y => (y.1, eraseF y.2)), c.2.2)) x.2.2.2
  rw [G5.mapM_congr_ok _ _ _ (fun c _ => hstep c)] at this
  rw [← this]
  cases List.mapM (fun c : Nat × Dict Chan Element.ChOut × Option SeqSet =>
      (s.withFilters f c.2.1).map (fun a => (c.1, a, c.2.2))) x.2.2.2 <;> rfl

/-- **C08, "with whichever options (… time axis on or off)"**: for every sequence and every
    delay/filter option, `forge(includetime=True)` and `forge(includetime=False)` raise the same
    exception or return the same positions, sequencing entries, channels, waveforms, markers, flags
    and filter annotations: erasing the time fields of the former gives exactly the latter -/
theorem forge_time_erase (s : Sequence) (d f : Bool) :
    (s.forge d f true).map eraseTime = s.forge d f false := by
  unfold Sequence.forge
  cases hc : s.checkConsistency with
  | error e => rfl
  | ok b =>
    cases b with
    | false => rfl
    | true =>
      simp only
      cases hch : s.channels with
      | error e => rfl
      | ok chs =>
        simp only
        cases he : s.entriesInOrder with
        | error e => rfl
        | ok ents =>
          simp only
          cases hd : ents.mapM (fun x => (s.delayEntry d x.2).map (fun en => (x.1, en))) with
          | error e => rfl
          | ok delayed =>
            simp only
            have hok : ∀ x ∈ delayed, EntryTimeOK x.2 := by
              intro x hx
              obtain ⟨y, hy, hfy⟩ := mapM_mem_rev _ _ _ hd x hx
              obtain ⟨z, hz, hfz⟩ := mapM_mem_rev _ _ _ he y hy
              have hyin : ∃ k : Int, (k, y.2) ∈ s.data := by
                split at hfz
                · cases hfz
                · rename_i en hg
                  simp only [Except.ok.injEq] at hfz
                  subst hfz
                  exact ⟨_, Dict.mem_of_get?_eq_some _ _ hg⟩
              obtain ⟨k, hyin⟩ := hyin
              have h0 := consistent_timeOK s hc _ hyin
              cases hde : s.delayEntry d y.2 with
              | error er => simp [hde, Except.map] at hfy
              | ok en2 =>
                simp only [hde, Except.map, Except.ok.injEq] at hfy
                subst hfy
                exact delayEntry_timeOK s d y.2 en2 h0 hde
            have h2 := mapM_map_comm (s.forgeEntry true) eraseRawEntry delayed
            rw [G5.mapM_congr_ok _ _ _ (fun x hx => forgeEntry_erase s x (hok x hx))] at h2
            rw [← h2]
            cases delayed.mapM (s.forgeEntry true) with
            | error e => rfl
            | ok forged =>
              simp only [Except.map]
              rw [G5.mapM_map_ok]
              have h3 := mapM_map_comm (s.filterEntry f) (fun r => (r.1, erasePos r.2)) forged
              rw [G5.mapM_congr_ok _ _ _ (fun x _ => filterEntry_erase s f x)] at h3
              rw [← h3]
              cases forged.mapM (s.filterEntry f) <;> rfl

/-- the sequence of the non-vacuity examples: one element with a raw-array channel, SR 1 -/
def exSeq : Sequence :=
  { data := [(1, .el ⟨[(.int 1, { data := .arr [("wfm", [1, 2])] (.num 1) })], none⟩)]
    sequencing := [(1, defaultSeqEl)]
    awgspecs := [("SR", .val (.num 1))] }

/-- non-vacuity: on `exSeq` both calls succeed and the results do differ — in the time field only -/
example :
    (exSeq.forge false false true).toOption.map (fun o => o.map (fun r => r.2.content.map (fun c => c.2.1))) =
      some [[[(.int 1, ⟨.arrays [("wfm", [1, 2])] none (some (2, 1)), none⟩)]]] ∧
    (exSeq.forge false false false).toOption.map (fun o => o.map (fun r => r.2.content.map (fun c => c.2.1))) =
      some [[[(.int 1, ⟨.arrays [("wfm", [1, 2])] none none, none⟩)]]] := by decide +kernel

/-- erasing the time fields twice is erasing them once -/
theorem eraseTime_idem (out : List (Nat × ForgedPos)) : eraseTime (eraseTime out) = eraseTime out := by
  unfold eraseTime erasePos
  simp only [List.map_map]
  apply List.map_congr_left
  intro r _
  simp only [Function.comp, List.map_map, Prod.mk.injEq, true_and]
  congr 1
  apply List.map_congr_left
  intro c _
  simp only [Function.comp, List.map_map, Prod.mk.injEq, true_and, and_true]
  apply List.map_congr_left
  intro x _
  obtain ⟨ch, ⟨o, fl⟩⟩ := x
  cases o <;> rfl

/-- the result of `forge(includetime=False)` carries no time information at all -/
theorem forge_notime_fixed (s : Sequence) (d f : Bool) :
    (s.forge d f false).map eraseTime = s.forge d f false := by
  rw [← forge_time_erase s d f]
  cases s.forge d f true with
  | error e => rfl
  | ok out => simp only [Except.map, eraseTime_idem]

/-- C08, time axis on or off — the two calls raise alike: `forge(…, True)` raises `e` iff
    `forge(…, False)` raises `e` -/
theorem forge_time_error_iff (s : Sequence) (d f : Bool) (e : Err) :
    s.forge d f true = .error e ↔ s.forge d f false = .error e := by
  rw [← forge_time_erase s d f]
  cases s.forge d f true <;> simp [Except.map]

/-- C08, time axis on or off — the two calls succeed alike, and what they return agrees in
    everything but the time fields -/
theorem forge_time_ok (s : Sequence) (d f : Bool) (out : List (Nat × ForgedPos)) (h : s.forge d f true = .ok out) :
    s.forge d f false = .ok (eraseTime out) := by
  rw [← forge_time_erase s d f, h]; rfl

example : (exSeq.forge true true true).toOption.isSome = true := by decide +kernel

/-- conversely a successful `forge(…, False)` is the time-erasure of a successful `forge(…, True)` -/
theorem forge_notime_ok (s : Sequence) (d f : Bool) (out : List (Nat × ForgedPos)) (h : s.forge d f false = .ok out) :
    ∃ out2, s.forge d f true = .ok out2 ∧ eraseTime out2 = out := by
  rw [← forge_time_erase s d f] at h
  cases h2 : s.forge d f true with
  | error e => rw [h2] at h; cases h
  | ok out2 =>
    rw [h2] at h
    simp only [Except.map, Except.ok.injEq] at h
    exact ⟨out2, rfl, h⟩

example : (exSeq.forge true true false).toOption.isSome = true := by decide +kernel

/-- the element-level statement the above is built from, for any stored (validated) element:
    `Element.getArrays(includetime=True)` is `getArrays(includetime=False)` plus time fields -/
theorem getArrays_time_validated (e : Element) (m : Val × Rat) (h : e.validate = .ok m) :
    (e.getArrays true).map eraseArrays = e.getArrays false :=
  getArrays_erase e (validate_timeOK e m h)

example : (⟨[(.int 1, { data := .arr [("wfm", [1, 2])] (.num 1) })], none⟩ : Element).validate = .ok (.num 1, 2) := by
  decide +kernel

/-- without validation the two calls of `getArrays` need NOT raise alike: a raw-array channel whose
    sample rate is not a number delivers its arrays without time axis but raises TypeError with it
    (such an element cannot be stored in a sequence, so `forge` is not affected) -/
theorem getArrays_time_unvalidated_counterexample :
    (⟨[(.int 1, { data := .arr [("wfm", [1, 2])] .none })], none⟩ : Element).getArrays true = .error .type ∧
    (⟨[(.int 1, { data := .arr [("wfm", [1, 2])] .none })], none⟩ : Element).getArrays false =
      .ok [(.int 1, .arrays [("wfm", [1, 2])] none none)] := by decide +kernel

/-! ### item 1 — the validation caches of stored elements are observable by no sequence operation -/

/-- an element with its validation cache wiped -/
def dropCacheEl (e : Element) : Element := { e with cache := none }

/-- a stored subsequence with the caches of all its elements wiped -/
def dropCacheSub (sub : SubSeq) : SubSeq := { sub with data := sub.data.map (fun pe => (pe.1, dropCacheEl pe.2)) }

/-- a stored entry with every cache wiped -/
def dropCacheEntry : Entry → Entry
  | .el e => .el (dropCacheEl e)
  | .sub sub => .sub (dropCacheSub sub)

/-- the sequence with the validation cache of every stored element — also inside stored
    subsequences — wiped; positions, their order, sequencing, AWG settings and name are kept -/
def dropCaches (s : Sequence) : Sequence := { s with data := s.data.map (fun pe => (pe.1, dropCacheEntry pe.2)) }

/-- **the relation of the clause**: the two sequences have the same positions in the same order,
    the same sequencing table, AWG settings and name, and position by position the same entries up
    to the validation caches of the elements (also of the elements of stored subsequences) -/
def CacheEq (s1 s2 : Sequence) : Prop := dropCaches s1 = dropCaches s2

/-- two elements agree up to their caches iff they have the same channel store -/
theorem dropCacheEl_eq_iff (e1 e2 : Element) : dropCacheEl e1 = dropCacheEl e2 ↔ e1.chans = e2.chans := by
  obtain ⟨c1, k1⟩ := e1
  obtain ⟨c2, k2⟩ := e2
  simp [dropCacheEl]

/-- `CacheEq` spelled out: same sequencing, settings, name, and the stores match entry by entry
    (same key, entries equal after wiping the caches) -/
theorem cacheEq_iff (s1 s2 : Sequence) :
    CacheEq s1 s2 ↔
      List.Forall₂ (fun a b => a.1 = b.1 ∧ dropCacheEntry a.2 = dropCacheEntry b.2) s1.data s2.data ∧
      s1.sequencing = s2.sequencing ∧ s1.awgspecs = s2.awgspecs ∧ s1.name = s2.name := by
  obtain ⟨d1, q1, a1, n1⟩ := s1
  obtain ⟨d2, q2, a2, n2⟩ := s2
  simp only [CacheEq, dropCaches, SeqCore.mk.injEq]
  have : d1.map (fun pe => (pe.1, dropCacheEntry pe.2)) = d2.map (fun pe => (pe.1, dropCacheEntry pe.2)) ↔
      List.Forall₂ (fun a b => a.1 = b.1 ∧ dropCacheEntry a.2 = dropCacheEntry b.2) d1 d2 := by
    induction d1 generalizing d2 with
    | nil => cases d2 <;> simp
    | cons x xs ih =>
      cases d2 with
      | nil => simp
      | cons y ys => simp [ih ys]
  rw [this]

/-- `CacheEq` is reflexive -/
theorem cacheEq_refl (s : Sequence) : CacheEq s s := rfl
/-- `CacheEq` is symmetric -/
theorem cacheEq_symm {s1 s2 : Sequence} (h : CacheEq s1 s2) : CacheEq s2 s1 := Eq.symm h
/-- `CacheEq` is transitive -/
theorem cacheEq_trans {s1 s2 s3 : Sequence} (h : CacheEq s1 s2) (h2 : CacheEq s2 s3) : CacheEq s1 s3 := Eq.trans h h2

/-- wiping the caches is a `CacheEq` step -/
theorem cacheEq_dropCaches (s : Sequence) : CacheEq s (dropCaches s) := by
  obtain ⟨d, q, a, n⟩ := s
  simp only [CacheEq, dropCaches, SeqCore.mk.injEq, List.map_map, and_true]
  apply List.map_congr_left
  intro pe _
  obtain ⟨k, en⟩ := pe
  cases en with
  | el e => rfl
  | sub sub =>
    simp only [Function.comp, dropCacheEntry, dropCacheSub, List.map_map]
    rfl

/-! #### the store of `dropCaches s` -/

/-- helper (C08, caches): the entries of `dropCaches s` -/
theorem vals_dropCaches (s : Sequence) : Dict.vals (dropCaches s).data = (Dict.vals s.data).map dropCacheEntry := by
  simp [dropCaches, Dict.vals, List.map_map, Function.comp_def]

/-- helper (C08, caches): `dropCaches` keeps the positions and their order -/
theorem keys_dropCaches (s : Sequence) : Dict.keys (dropCaches s).data = Dict.keys s.data := by
  simp [dropCaches, Dict.keys, List.map_map, Function.comp_def]

/-- helper (C08, caches): look-up in the store of `dropCaches s` -/
theorem get_dropCaches (s : Sequence) (k : Int) :
    Dict.get? (dropCaches s).data k = (Dict.get? s.data k).map dropCacheEntry := by
  have := Dict.get?_map_key_val s.data id (fun _ _ h => h) dropCacheEntry k
  simpa [dropCaches] using this

/-- helper (C08, caches): look-up in the store of a stored subsequence with wiped caches -/
theorem get_dropCacheSub (sub : SubSeq) (k : Int) :
    Dict.get? (dropCacheSub sub).data k = (Dict.get? sub.data k).map dropCacheEl := by
  have := Dict.get?_map_key_val sub.data id (fun _ _ h => h) dropCacheEl k
  simpa [dropCacheSub] using this

/-! #### stored subsequences -/

/-- helper (C08, caches): `checkConsistency` of a stored subsequence does not see caches -/
theorem subCheck_dropCache (sub : SubSeq) : (dropCacheSub sub).checkConsistency = sub.checkConsistency := by
  unfold SubSeq.checkConsistency
  have hv : Dict.vals (dropCacheSub sub).data = (Dict.vals sub.data).map dropCacheEl := by
    simp [dropCacheSub, Dict.vals, List.map_map, Function.comp_def]
  have hk : Dict.keys (dropCacheSub sub).data = Dict.keys sub.data := by
    simp [dropCacheSub, Dict.keys, List.map_map, Function.comp_def]
  rw [hv, hk, G5.mapM_map_ok, List.map_map]
  rfl

/-- helper (C08, caches): `channels` of a stored subsequence does not see caches -/
theorem subChannels_dropCache (sub : SubSeq) : (dropCacheSub sub).channels = sub.channels := by
  unfold SubSeq.channels
  rw [subCheck_dropCache, get_dropCacheSub]
  cases sub.checkConsistency with
  | error e => rfl
  | ok b =>
    cases b
    · rfl
    · cases Dict.get? sub.data 1 <;> rfl

/-- helper (C08, caches): `points` of a stored subsequence does not see caches -/
theorem subPoints_dropCache (sub : SubSeq) : (dropCacheSub sub).points = sub.points := by
  unfold SubSeq.points
  have hv : Dict.vals (dropCacheSub sub).data = (Dict.vals sub.data).map dropCacheEl := by
    simp [dropCacheSub, Dict.vals, List.map_map, Function.comp_def]
  rw [hv, List.foldlM_map]
  rfl

/-- helper (C08, caches): `duration` of a stored subsequence does not see caches -/
theorem subDuration_dropCache (sub : SubSeq) : (dropCacheSub sub).duration = sub.duration := by
  unfold SubSeq.duration
  simp only [dropCacheSub]
  rw [List.foldlM_map]
  rfl

/-- helper (C08, caches): the description of a stored subsequence does not see caches -/
theorem subToDesc_dropCache (sub : SubSeq) : subToDesc (dropCacheSub sub) = subToDesc sub := by
  unfold subToDesc
  simp only [dropCacheSub]
  rw [G5.mapM_map_ok]
  rfl

/-- helper (C08, caches): forging the positions of a stored subsequence does not see caches -/
theorem forgeInner_dropCache (t : Bool) (sub : SubSeq) : forgeInner t (dropCacheSub sub) = forgeInner t sub := by
  unfold forgeInner
  have hl : (dropCacheSub sub).data.length = sub.data.length := by simp [dropCacheSub]
  rw [hl]
  apply G5.mapM_congr_ok
  intro j _
  rw [get_dropCacheSub]
  cases Dict.get? sub.data ((j + 1 : Nat) : Int) <;> rfl

/-! #### entries -/

/-- helper (C08, caches): the sample rate of a stored entry does not depend on caches -/
theorem entry_getSR_dropCache (en : Entry) : (dropCacheEntry en).getSR = en.getSR := by
  cases en <;> rfl

/-- helper (C08, caches): the channels of a stored entry do not depend on caches -/
theorem entry_channels_dropCache (en : Entry) : (dropCacheEntry en).channels = en.channels := by
  cases en with
  | el e => rfl
  | sub sub => exact subChannels_dropCache sub

/-- helper (C08, caches): the points of a stored entry do not depend on caches -/
theorem entry_points_dropCache (en : Entry) : (dropCacheEntry en).points = en.points := by
  cases en with
  | el e => rfl
  | sub sub => exact subPoints_dropCache sub

/-- helper (C08, caches): the duration of a stored entry does not depend on caches -/
theorem entry_duration_dropCache (en : Entry) : (dropCacheEntry en).duration = en.duration := by
  cases en with
  | el e => rfl
  | sub sub => exact subDuration_dropCache sub

/-! #### the read-only operations of a sequence do not see the caches -/

/-- `checkConsistency` does not see the validation caches -/
theorem checkConsistency_dropCaches (s : Sequence) : (dropCaches s).checkConsistency = s.checkConsistency := by
  unfold Sequence.checkConsistency
  rw [vals_dropCaches, keys_dropCaches, G5.mapM_map_ok, G5.mapM_map_ok]
  simp only [entry_getSR_dropCache, entry_channels_dropCache]
  rfl

/-- `channels` does not see the validation caches -/
theorem channels_dropCaches (s : Sequence) : (dropCaches s).channels = s.channels := by
  unfold Sequence.channels
  rw [checkConsistency_dropCaches, get_dropCaches]
  cases s.checkConsistency with
  | error e => rfl
  | ok b =>
    cases b
    · rfl
    · cases h : Dict.get? s.data 1 with
      | none => rfl
      | some en => exact entry_channels_dropCache en

/-- `points` does not see the validation caches -/
theorem points_dropCaches (s : Sequence) : (dropCaches s).points = s.points := by
  unfold Sequence.points
  rw [vals_dropCaches, List.foldlM_map]
  simp only [entry_points_dropCache]

/-- `duration` does not see the validation caches -/
theorem duration_dropCaches (s : Sequence) : (dropCaches s).duration = s.duration := by
  unfold Sequence.duration
  simp only [dropCaches]
  rw [List.foldlM_map]
  congr 1
  funext acc x
  unfold posDuration
  simp only [entry_duration_dropCache]

/-- `description` does not see the validation caches -/
theorem toDesc_dropCaches (s : Sequence) : (dropCaches s).toDesc = s.toDesc := by
  unfold Sequence.toDesc
  simp only [dropCaches]
  rw [G5.mapM_map_ok]
  have : (fun x : Int × Entry => posField { s with data := s.data.map (fun pe => (pe.1, dropCacheEntry pe.2)) }
      (x.1, dropCacheEntry x.2)) = posField s := by
    funext x
    obtain ⟨k, en⟩ := x
    cases en with
    | el e => rfl
    | sub sub =>
      unfold posField
      simp only [dropCacheEntry, subToDesc_dropCache]
      rfl
  rw [this]

/-! #### forge -/

/-- helper (C08, caches): the entries at positions 1..N of `dropCaches s` are those of `s` with wiped caches -/
theorem entriesInOrder_dropCaches (s : Sequence) :
    (dropCaches s).entriesInOrder = (s.entriesInOrder).map (List.map (fun x => (x.1, dropCacheEntry x.2))) := by
  unfold Sequence.entriesInOrder
  have hl : (dropCaches s).data.length = s.data.length := by simp [dropCaches]
  rw [hl, mapM_map_comm]
  apply G5.mapM_congr_ok
  intro i _
  rw [get_dropCaches]
  cases Dict.get? s.data ((i + 1 : Nat) : Int) <;> rfl

/-- wiping the caches of a stored subsequence twice is wiping them once -/
theorem dropCacheSub_idem (sub : SubSeq) : dropCacheSub (dropCacheSub sub) = dropCacheSub sub := by
  simp [dropCacheSub, List.map_map, Function.comp_def, dropCacheEl]

/-- `_applyDelays` does not read the cache (it recomputes it) -/
theorem applyDelays_dropCache (e : Element) (ds : List Rat) :
    ((dropCacheEl e).applyDelays ds).err = (e.applyDelays ds).err ∧
    ((e.applyDelays ds).err = none → ((dropCacheEl e).applyDelays ds).st = (e.applyDelays ds).st) := by
  unfold Element.applyDelays
  have h1 : (dropCacheEl e).chans = e.chans := rfl
  have h2 : (dropCacheEl e).validate = e.validate := rfl
  rw [h1, h2]
  split
  · simp
  · split
    · simp
    · split
      · simp
      · split
        · split
          · simp
          · simp
        · simp

/-- helper (C08, caches): the delay pass of `forge` does not read the cache of the element -/
theorem delayElement_dropCache (s : Sequence) (e : Element) : s.delayElement (dropCacheEl e) = s.delayElement e := by
  unfold Sequence.delayElement
  have h1 : s.delaysFor (dropCacheEl e) = s.delaysFor e := rfl
  rw [h1]
  cases s.delaysFor e with
  | error er => rfl
  | ok ds =>
    simp only [bind, Except.bind]
    obtain ⟨ha, hb⟩ := applyDelays_dropCache e ds
    rw [ha]
    cases herr : (e.applyDelays ds).err with
    | some er => rfl
    | none => simp only [hb herr]

/-- phase 1 of `forge` on an entry with wiped caches: the same delayed entry up to caches -/
theorem delayEntry_dropCache (s : Sequence) (d : Bool) (en : Entry) :
    (s.delayEntry d (dropCacheEntry en)).map dropCacheEntry = (s.delayEntry d en).map dropCacheEntry := by
  cases en with
  | el e =>
    cases d
    · rfl
    · simp only [dropCacheEntry, Sequence.delayEntry, if_true, delayElement_dropCache]
  | sub sub =>
    cases d
    · simp only [dropCacheEntry, Sequence.delayEntry, Bool.false_eq_true, if_false, Except.map, dropCacheSub_idem]
    · simp only [dropCacheEntry, Sequence.delayEntry, if_true]
      simp only [dropCacheSub]
      rw [G5.mapM_map_ok]
      simp only [delayElement_dropCache]

/-- phase 2 of `forge` does not see caches -/
theorem forgeEntry_dropCache (s : Sequence) (t : Bool) (x : Nat × Entry) :
    s.forgeEntry t (x.1, dropCacheEntry x.2) = s.forgeEntry t x := by
  obtain ⟨p, en⟩ := x
  cases en with
  | el e => rfl
  | sub sub =>
    unfold forgeEntry
    simp only [dropCacheEntry, forgeInner_dropCache]

/-- `forge`, with every combination of options, does not see the validation caches -/
theorem forge_dropCaches (s : Sequence) (d f t : Bool) : (dropCaches s).forge d f t = s.forge d f t := by
  unfold Sequence.forge
  rw [checkConsistency_dropCaches, channels_dropCaches, entriesInOrder_dropCaches]
  cases s.checkConsistency with
  | error e => rfl
  | ok b =>
    cases b with
    | false => rfl
    | true =>
      simp only
      cases s.channels with
      | error e => rfl
      | ok chs =>
        simp only
        cases s.entriesInOrder with
        | error e => rfl
        | ok ents =>
          have hE : Except.map (List.map (fun x : Nat × Entry => (x.1, dropCacheEntry x.2))) (Except.ok ents : Except Err _) =
              Except.ok (ents.map (fun x => (x.1, dropCacheEntry x.2))) := rfl
          rw [hE]
          simp only
          -- the two delay passes agree up to caches
          have hA : ((ents.map (fun x : Nat × Entry => (x.1, dropCacheEntry x.2))).mapM
                (fun x : Nat × Entry => ((dropCaches s).delayEntry d x.2).map (fun en => (x.1, en)))).map
                  (List.map (fun x : Nat × Entry => (x.1, dropCacheEntry x.2))) =
              (ents.mapM (fun x : Nat × Entry => (s.delayEntry d x.2).map (fun en => (x.1, en)))).map
                  (List.map (fun x : Nat × Entry => (x.1, dropCacheEntry x.2))) := by
            rw [G5.mapM_map_ok]
            apply mapM_map_congr
            intro x _
            have h1 := delayEntry_dropCache s d x.2
            have h2 : (dropCaches s).delayEntry d (dropCacheEntry x.2) = s.delayEntry d (dropCacheEntry x.2) := rfl
            simp only [h2]
            cases ha : s.delayEntry d (dropCacheEntry x.2) with
            | error e =>
              rw [ha] at h1
              cases hb : s.delayEntry d x.2 with
              | error e2 => rw [hb] at h1; simpa [Except.map] using h1
              | ok b => rw [hb] at h1; cases h1
            | ok a =>
              rw [ha] at h1
              cases hb : s.delayEntry d x.2 with
              | error e2 => rw [hb] at h1; cases h1
              | ok b => rw [hb] at h1; simpa [Except.map] using h1
          -- what follows the delay pass does not see caches
          have hF : ∀ l : List (Nat × Entry),
              (match l.mapM ((dropCaches s).forgeEntry t) with
                | .error e => Except.error e
                | .ok forged => forged.mapM ((dropCaches s).filterEntry f)) =
              (match (l.map (fun x => (x.1, dropCacheEntry x.2))).mapM (s.forgeEntry t) with
                | .error e => Except.error e
                | .ok forged => forged.mapM (s.filterEntry f)) := by
            intro l
            rw [G5.mapM_map_ok, G5.mapM_congr_ok _ _ _ (fun x _ => forgeEntry_dropCache s t x)]
            rfl
          have hG : ∀ l : List (Nat × Entry),
              (match l.mapM (s.forgeEntry t) with
                | .error e => Except.error e
                | .ok forged => forged.mapM (s.filterEntry f)) =
              (match (l.map (fun x => (x.1, dropCacheEntry x.2))).mapM (s.forgeEntry t) with
                | .error e => Except.error e
                | .ok forged => forged.mapM (s.filterEntry f)) := by
            intro l
            rw [G5.mapM_map_ok, G5.mapM_congr_ok _ _ _ (fun x _ => forgeEntry_dropCache s t x)]
          cases hda : (ents.map (fun x : Nat × Entry => (x.1, dropCacheEntry x.2))).mapM
                (fun x : Nat × Entry => ((dropCaches s).delayEntry d x.2).map (fun en => (x.1, en))) with
          | error e =>
            rw [hda] at hA
            cases hdb : ents.mapM (fun x : Nat × Entry => (s.delayEntry d x.2).map (fun en => (x.1, en))) with
            | error e2 => rw [hdb] at hA; simp only [Except.map, Except.error.injEq] at hA; subst hA; rfl
            | ok b => rw [hdb] at hA; cases hA
          | ok a =>
            rw [hda] at hA
            cases hdb : ents.mapM (fun x : Nat × Entry => (s.delayEntry d x.2).map (fun en => (x.1, en))) with
            | error e2 => rw [hdb] at hA; cases hA
            | ok b =>
              rw [hdb] at hA
              simp only [Except.map, Except.ok.injEq] at hA
              refine (hF a).trans ?_
              rw [hA]
              exact (hG b).symm

/-! #### `==` -/

/-- helper (C08, `==`): dict equality is insensitive to a value transformation on the left that the comparison does not see -/
theorem eqBy_map_left {κ α : Type} [DecidableEq κ] (f : α → α → Bool) (g : α → α) (hg : ∀ v w, f (g v) w = f v w)
    (a b : Dict κ α) : Dict.eqBy f (a.map (fun p => (p.1, g p.2))) b = Dict.eqBy f a b := by
  unfold Dict.eqBy
  simp only [List.length_map, List.all_map]
  congr 1
  apply List.all_congr rfl
  intro p
  simp only [Function.comp]
  cases Dict.get? b p.1 with
  | none => rfl
  | some w => exact hg p.2 w

/-- helper (C08, `==`): dict equality is insensitive to a value transformation on the right that the comparison does not see -/
theorem eqBy_map_right {κ α : Type} [DecidableEq κ] (f : α → α → Bool) (g : α → α) (hg : ∀ v w, f v (g w) = f v w)
    (a b : Dict κ α) : Dict.eqBy f a (b.map (fun p => (p.1, g p.2))) = Dict.eqBy f a b := by
  unfold Dict.eqBy
  simp only [List.length_map]
  congr 1
  apply List.all_congr rfl
  intro p
  have := Dict.get?_map_key_val b id (fun _ _ h => h) g p.1
  simp only [id] at this
  rw [this]
  cases Dict.get? b p.1 with
  | none => rfl
  | some w => exact hg p.2 w

/-- helper (C08, `==`): comparing stored entries does not see the caches of the left entry -/
theorem entry_beq_dropCache_left (v w : Entry) : Entry.beq (dropCacheEntry v) w = Entry.beq v w := by
  cases v with
  | el a => cases w <;> rfl
  | sub a =>
    cases w with
    | el b => rfl
    | sub b =>
      simp only [dropCacheEntry, Entry.beq, dropCacheSub]
      rw [eqBy_map_left Element.beq dropCacheEl (fun _ _ => rfl)]

/-- helper (C08, `==`): comparing stored entries does not see the caches of the right entry -/
theorem entry_beq_dropCache_right (v w : Entry) : Entry.beq v (dropCacheEntry w) = Entry.beq v w := by
  cases w with
  | el b => cases v <;> rfl
  | sub b =>
    cases v with
    | el a => rfl
    | sub a =>
      simp only [dropCacheEntry, Entry.beq, dropCacheSub]
      rw [eqBy_map_right Element.beq dropCacheEl (fun _ _ => rfl)]

/-- `==` does not see the validation caches, on either side -/
theorem beq_dropCaches (s o : Sequence) : (dropCaches s).beq o = s.beq o ∧ o.beq (dropCaches s) = o.beq s := by
  unfold Sequence.beq
  simp only [dropCaches]
  rw [eqBy_map_left Entry.beq dropCacheEntry entry_beq_dropCache_left,
    eqBy_map_right Entry.beq dropCacheEntry entry_beq_dropCache_right]
  exact ⟨rfl, rfl⟩

/-! #### the output path -/

/-- helper (C08, caches): the delay part of `_prepareForOutputting` returns the same elements up to caches -/
theorem prepElements_dropCaches (s : Sequence) (chans : List Chan) (delays : List Rat) :
    (dropCaches s).prepElements chans delays = (s.prepElements chans delays).map (List.map dropCacheEl) := by
  unfold Sequence.prepElements
  have hl : (dropCaches s).data.length = s.data.length := by simp [dropCaches]
  rw [hl, mapM_map_comm]
  apply G5.mapM_congr_ok
  intro i _
  rw [get_dropCaches]
  cases Dict.get? s.data ((i + 1 : Nat) : Int) with
  | none => rfl
  | some en =>
    cases en with
    | sub sub => rfl
    | el e =>
      simp only [Option.map, dropCacheEntry]
      have h1 : (dropCacheEl e).getSR = e.getSR := rfl
      rw [h1]
      cases e.getSR with
      | error er => rfl
      | ok sr =>
        simp only
        unfold Sequence.prepDelayElement
        have h2 : (dropCacheEl e).chans = e.chans := rfl
        rw [h2]
        cases List.foldlM (prepStep sr (maxR delays)) e.chans (chans.zip delays) <;> rfl

/-- `_prepareForOutputting` does not see the validation caches -/
theorem prepareForOutputting_dropCaches (s : Sequence) :
    (dropCaches s).prepareForOutputting = s.prepareForOutputting := by
  unfold Sequence.prepareForOutputting
  rw [checkConsistency_dropCaches, get_dropCaches]
  cases s.checkConsistency with
  | error e => rfl
  | ok b =>
    cases b with
    | false => rfl
    | true =>
      simp only
      cases Dict.get? s.data 1 with
      | none => rfl
      | some en =>
        simp only [Option.map, entry_channels_dropCache]
        cases en.channels with
        | error e => rfl
        | ok chans =>
          simp only
          have hl : (dropCaches s).data.length = s.data.length := by simp [dropCaches]
          rw [hl]
          have h1 : (dropCaches s).sequencing = s.sequencing := rfl
          have h2 : (dropCaches s).awgspecs = s.awgspecs := rfl
          have h3 : (dropCaches s).delayOf = s.delayOf := rfl
          have h4 : (dropCaches s).prepFilters = s.prepFilters := rfl
          rw [h1, h2, h3, h4]
          split
          · rfl
          · split
            · rfl
            · cases chans.mapM s.delayOf with
              | error e => rfl
              | ok delays =>
                simp only
                rw [prepElements_dropCaches]
                cases s.prepElements chans delays with
                | error e => rfl
                | ok els =>
                  simp only [Except.map]
                  rw [G5.mapM_map_ok]
                  rfl

/-- `outputForAWGFile` does not see the validation caches -/
theorem outputForAWGFile_dropCaches (s : Sequence) : (dropCaches s).outputForAWGFile = s.outputForAWGFile := by
  unfold Sequence.outputForAWGFile
  rw [prepareForOutputting_dropCaches, get_dropCaches, channels_dropCaches]
  have h2 : (dropCaches s).awgspecs = s.awgspecs := rfl
  have h3 : awgCheckWave (dropCaches s) = awgCheckWave s := rfl
  have h4 : awgRow (dropCaches s) = awgRow s := rfl
  rw [h2, h3, h4]
  cases s.prepareForOutputting with
  | error e => rfl
  | ok elements =>
    simp only
    cases Dict.get? s.data 1 with
    | none => rfl
    | some en => simp only [Option.map, entry_channels_dropCache]

/-- `outputForSEQXFile` does not see the validation caches -/
theorem outputForSEQXFile_dropCaches (s : Sequence) : (dropCaches s).outputForSEQXFile = s.outputForSEQXFile := by
  unfold Sequence.outputForSEQXFile
  rw [prepareForOutputting_dropCaches, get_dropCaches]
  have h3 : (dropCaches s).specNum = s.specNum := rfl
  have h4 : seqxRow (dropCaches s) = seqxRow s := rfl
  have h5 : seqxPackage (dropCaches s) = seqxPackage s := rfl
  rw [h3, h4, h5]
  cases s.prepareForOutputting with
  | error e => rfl
  | ok elements =>
    simp only
    cases Dict.get? s.data 1 with
    | none => rfl
    | some en => simp only [Option.map, entry_channels_dropCache]

/-- `outputForSEQXFileWithFlags` does not see the validation caches -/
theorem outputForSEQXFileWithFlags_dropCaches (s : Sequence) :
    (dropCaches s).outputForSEQXFileWithFlags = s.outputForSEQXFileWithFlags := by
  unfold Sequence.outputForSEQXFileWithFlags
  rw [prepareForOutputting_dropCaches, get_dropCaches, outputForSEQXFile_dropCaches]
  cases s.prepareForOutputting with
  | error e => rfl
  | ok elements =>
    simp only
    cases Dict.get? s.data 1 with
    | none => rfl
    | some en => simp only [Option.map, entry_channels_dropCache]

/-! #### the clause -/

/-- **C08, "describing, validating, comparing or querying … leaves its observable state unchanged"
    (the validation cache is the one thing a read-only call writes)**: two sequences whose stored
    elements differ only in their validation caches — also inside stored subsequences — give the
    same result (value or exception) for `forge` with every option combination, `description`,
    `checkConsistency`, `points`, `duration`, `channels`, `==` against anything on either side, and
    the three output methods -/
theorem cacheEq_unobservable (s1 s2 : Sequence) (h : CacheEq s1 s2) (d f t : Bool) (o : Sequence) :
    s1.forge d f t = s2.forge d f t ∧ s1.toDesc = s2.toDesc ∧
    s1.checkConsistency = s2.checkConsistency ∧ s1.points = s2.points ∧ s1.duration = s2.duration ∧
    s1.channels = s2.channels ∧ s1.beq o = s2.beq o ∧ o.beq s1 = o.beq s2 ∧
    s1.prepareForOutputting = s2.prepareForOutputting ∧
    s1.outputForAWGFile = s2.outputForAWGFile ∧ s1.outputForSEQXFile = s2.outputForSEQXFile ∧
    s1.outputForSEQXFileWithFlags = s2.outputForSEQXFileWithFlags := by
  unfold CacheEq at h
  refine ⟨?_, ?_, ?_, ?_, ?_, ?_, ?_, ?_, ?_, ?_, ?_, ?_⟩
  · rw [← forge_dropCaches s1, ← forge_dropCaches s2, h]
  · rw [← toDesc_dropCaches s1, ← toDesc_dropCaches s2, h]
  · rw [← checkConsistency_dropCaches s1, ← checkConsistency_dropCaches s2, h]
  · rw [← points_dropCaches s1, ← points_dropCaches s2, h]
  · rw [← duration_dropCaches s1, ← duration_dropCaches s2, h]
  · rw [← channels_dropCaches s1, ← channels_dropCaches s2, h]
  · rw [← (beq_dropCaches s1 o).1, ← (beq_dropCaches s2 o).1, h]
  · rw [← (beq_dropCaches s1 o).2, ← (beq_dropCaches s2 o).2, h]
  · rw [← prepareForOutputting_dropCaches s1, ← prepareForOutputting_dropCaches s2, h]
  · rw [← outputForAWGFile_dropCaches s1, ← outputForAWGFile_dropCaches s2, h]
  · rw [← outputForSEQXFile_dropCaches s1, ← outputForSEQXFile_dropCaches s2, h]
  · rw [← outputForSEQXFileWithFlags_dropCaches s1, ← outputForSEQXFileWithFlags_dropCaches s2, h]

/-- non-vacuity: `exSeq` (cache empty) and the same sequence with the cache filled are different
    values related by `CacheEq` -/
def exSeqCached : Sequence :=
  { exSeq with data := [(1, .el ⟨[(.int 1, { data := .arr [("wfm", [1, 2])] (.num 1) })], some (.num 1, 2)⟩)] }

example : CacheEq exSeq exSeqCached ∧ Dict.keys exSeq.data = Dict.keys exSeqCached.data := ⟨rfl, rfl⟩

example : (exSeq.data.map (fun pe => match pe.2 with | .el e => e.cache | .sub _ => none)) ≠
    (exSeqCached.data.map (fun pe => match pe.2 with | .el e => e.cache | .sub _ => none)) := by decide

/-! #### storing with one cache or another -/

/-- helper: transforming the values commutes with `d[k] = v` -/
theorem map_upsert {κ α β : Type} [DecidableEq κ] (d : Dict κ α) (k : κ) (v : α) (g : α → β) :
    (Dict.upsert d k v).map (fun p => (p.1, g p.2)) = Dict.upsert (d.map (fun p => (p.1, g p.2))) k (g v) := by
  induction d with
  | nil => rfl
  | cons p rest ih =>
    obtain ⟨k2, v2⟩ := p
    unfold Dict.upsert
    by_cases hk : k2 = k
    · simp [hk]
    · simp only [hk, if_false, List.map_cons, List.cons.injEq, true_and]
      exact ih

/-- storing an element under a position with one validation cache or another (or a subsequence
    holding it) gives `CacheEq` sequences — provided the rest was `CacheEq` -/
theorem cacheEq_store (s1 s2 : Sequence) (h : CacheEq s1 s2) (pos : Int) (en1 en2 : Entry)
    (hen : dropCacheEntry en1 = dropCacheEntry en2) :
    CacheEq { s1 with data := Dict.upsert s1.data pos en1 } { s2 with data := Dict.upsert s2.data pos en2 } := by
  obtain ⟨d1, q1, a1, n1⟩ := s1
  obtain ⟨d2, q2, a2, n2⟩ := s2
  simp only [CacheEq, dropCaches, SeqCore.mk.injEq] at h ⊢
  obtain ⟨h1, h2, h3, h4⟩ := h
  refine ⟨?_, h2, h3, h4⟩
  rw [map_upsert, map_upsert, h1, hen]

example (c : Dict Chan ChEntry) (m : Val × Rat) :
    dropCacheEntry (.el ⟨c, some m⟩) = dropCacheEntry (.el ⟨c, none⟩) ∧
    dropCacheEntry (.sub { data := [(1, ⟨c, some m⟩)] }) = dropCacheEntry (.sub { data := [(1, ⟨c, none⟩)] }) :=
  ⟨rfl, rfl⟩

/-- **C08 for `addElement`**: the sequence that `addElement` builds — it stores
    `{ e with cache := some m }` — and the sequence holding the same element with ANY other cache `c`
    at that position are indistinguishable by every read-only operation -/
theorem addElement_cache_unobservable (s : Sequence) (pos : Int) (e : Element) (m : Val × Rat)
    (hv : e.validate = .ok m) (c : Option (Val × Rat)) (d f t : Bool) (o : Sequence) :
    let stored := (s.addElement pos e).st
    let other : Sequence := { s with data := Dict.upsert s.data pos (.el { e with cache := c })
                                     sequencing := Dict.upsert s.sequencing pos defaultSeqEl }
    stored.forge d f t = other.forge d f t ∧ stored.toDesc = other.toDesc ∧
    stored.checkConsistency = other.checkConsistency ∧ stored.points = other.points ∧
    stored.duration = other.duration ∧ stored.channels = other.channels ∧
    stored.beq o = other.beq o ∧ o.beq stored = o.beq other ∧
    stored.outputForAWGFile = other.outputForAWGFile ∧ stored.outputForSEQXFile = other.outputForSEQXFile := by
  intro stored other
  have hst : stored = { s with data := Dict.upsert s.data pos (.el { e with cache := some m })
                               sequencing := Dict.upsert s.sequencing pos defaultSeqEl } := by
    show (s.addElement pos e).st = _
    unfold Sequence.addElement
    simp only [hv]
  have hce : CacheEq stored other := by
    rw [hst]
    exact cacheEq_store { s with sequencing := Dict.upsert s.sequencing pos defaultSeqEl }
      { s with sequencing := Dict.upsert s.sequencing pos defaultSeqEl } rfl pos _ _ rfl
  obtain ⟨a1, a2, a3, a4, a5, a6, a7, a8, _, a10, a11, _⟩ := cacheEq_unobservable stored other hce d f t o
  exact ⟨a1, a2, a3, a4, a5, a6, a7, a8, a10, a11⟩

example : (⟨[(.int 1, { data := .arr [("wfm", [1, 2])] (.num 1) })], none⟩ : Element).validate = .ok (.num 1, 2) := by
  decide +kernel

/-- `addElement` itself does not read the cache of the element it is handed: whatever cache the
    argument carries, the same sequence results -/
theorem addElement_ignores_cache (s : Sequence) (pos : Int) (e : Element) (c : Option (Val × Rat)) :
    s.addElement pos { e with cache := c } = s.addElement pos e := by
  unfold Sequence.addElement
  have : ({ e with cache := c } : Element).validate = e.validate := rfl
  rw [this]

/-- `validateDurations` on a stored element (the one read-only call that writes) keeps the sequence
    in its `CacheEq` class: replacing the element at `pos` by its validated self is unobservable -/
theorem validate_stored_cacheEq (s : Sequence) (pos : Int) (e : Element) :
    CacheEq { s with data := Dict.upsert s.data pos (.el (e.validateDurations).st) }
      { s with data := Dict.upsert s.data pos (.el e) } := by
  apply cacheEq_store s s rfl
  unfold Element.validateDurations
  cases e.validate <;> rfl

end BB.C08V
