/-
  BB.Proofs.Round — round-half-even on rationals: error bound, robustness margins, integer shifts.
  (Mathlib: `Rat.floor` is `Int.floor` on ℚ.)
-/
import Mathlib.Data.Rat.Floor
import Mathlib.Tactic.Linarith
import Mathlib.Algebra.Order.Floor.Ring
import BB.Model.Num

namespace BB

theorem rhe_cases (x : ℚ) :
    ((rhe x : ℚ) = x.floor ∧ x - x.floor ≤ 1/2) ∨ ((rhe x : ℚ) = x.floor + 1 ∧ 1/2 ≤ x - x.floor) := by
  unfold rhe
  by_cases a : x - (x.floor : ℚ) < 1/2
  · left; simp only [if_pos a]; exact ⟨trivial, le_of_lt a⟩
  · simp only [if_neg a]
    by_cases b : 1/2 < x - (x.floor : ℚ)
    · right; simp only [if_pos b]; exact ⟨by push_cast; rfl, le_of_lt b⟩
    · simp only [if_neg b]
      have : x - (x.floor:ℚ) = 1/2 := le_antisymm (not_lt.mp b) (not_lt.mp a)
      by_cases c : x.floor % 2 = 0
      · left; simp only [if_pos c]; exact ⟨trivial, this.le⟩
      · right; simp only [if_neg c]; exact ⟨by push_cast; rfl, this.ge⟩

/-- rounding error at most half a sample -/
theorem rhe_err (x : ℚ) : |x - rhe x| ≤ 1/2 := by
  have h1 : (x.floor : ℚ) ≤ x := Int.floor_le x
  have h2 : x < x.floor + 1 := Int.lt_floor_add_one x
  rw [abs_le]
  rcases rhe_cases x with ⟨e, h⟩ | ⟨e, h⟩ <;> rw [e] <;> constructor <;> linarith

/-- anything within 2/5 of an integer rounds to it (the properties' "not near a rounding tie") -/
theorem rhe_near (x : ℚ) (n : ℤ) (h : |x - n| ≤ 2/5) : rhe x = n := by
  have e := rhe_err x
  rw [abs_le] at h e
  have : |((rhe x : ℤ) : ℚ) - n| < 1 := by
    rw [abs_lt]; constructor <;> linarith [h.1, h.2, e.1, e.2]
  have : |rhe x - n| < 1 := by exact_mod_cast this
  have := Int.abs_lt_one_iff.mp this
  omega

/-- robustness: a perturbation below a tenth of a sample (float noise is ~1e-16 relative) cannot
    change the rounded count on the properties' domain -/
theorem rhe_stable (x δ : ℚ) (n : ℤ) (h : |x - n| ≤ 2/5) (hδ : |δ| < 1/10) : rhe (x + δ) = n := by
  have e := rhe_err (x + δ)
  rw [abs_le] at h e; rw [abs_lt] at hδ
  have : |((rhe (x+δ) : ℤ) : ℚ) - n| < 1 := by
    rw [abs_lt]; constructor <;> linarith [h.1, h.2, e.1, e.2, hδ.1, hδ.2]
  have : |rhe (x+δ) - n| < 1 := by exact_mod_cast this
  have := Int.abs_lt_one_iff.mp this
  omega

theorem rhe_int (n : ℤ) : rhe (n : ℚ) = n := rhe_near _ n (by norm_num)

/-- whole-sample shifts commute with rounding away from ties -/
theorem rhe_near_add (x : ℚ) (n m : ℤ) (h : |x - n| ≤ 2/5) : rhe (x + m) = n + m := by
  apply rhe_near
  have : x + (m:ℚ) - ((n + m : ℤ) : ℚ) = x - n := by push_cast; ring
  rw [this]; exact h

theorem rhe_int_add (x : ℚ) (n m : ℤ) (h : |x - n| ≤ 2/5) : rhe ((m:ℚ) + x) = m + n := by
  rw [add_comm, rhe_near_add x n m h, add_comm]

/-- the result of rounding is the unique integer within half a sample (away from ties) -/
theorem rhe_unique (x : ℚ) (n : ℤ) (h : |x - n| < 1/2) : rhe x = n := by
  have e := rhe_err x
  rw [abs_le] at e; rw [abs_lt] at h
  have : |((rhe x : ℤ) : ℚ) - n| < 1 := by
    rw [abs_lt]; constructor <;> linarith [h.1, h.2, e.1, e.2]
  have : |rhe x - n| < 1 := by exact_mod_cast this
  have := Int.abs_lt_one_iff.mp this
  omega

/-- rounding is monotone -/
theorem rhe_mono {x y : ℚ} (h : x ≤ y) : rhe x ≤ rhe y := by
  by_contra hlt
  push_neg at hlt
  have ex := rhe_err x
  have ey := rhe_err y
  rw [abs_le] at ex ey
  have h1 : (rhe y : ℚ) + 1 ≤ rhe x := by exact_mod_cast hlt
  -- x ≥ rhe x - 1/2 ≥ rhe y + 1/2 ≥ y, so x = y up to a tie: both are the same number
  have hxy : x = y := by linarith [ex.1, ex.2, ey.1, ey.2]
  subst hxy
  omega

end BB
