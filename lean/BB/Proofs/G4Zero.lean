/-
  BB.Proofs.G4Zero — channel delays that are all zero: `_applyDelays` leaves every channel as it
  was, up to the one thing it always touches — the (unused) `dummy` argument of a `waituntil`
  block, which `oldwait + delay` rewrites even for `delay = 0`.  `Blk.norm` forgets exactly that
  argument; everything observable (sample values, lengths, markers, flags, time axis) survives it.
-/
import BB.Proofs.G4Elem
import BB.Proofs.Element

namespace BB
open BP Element

/-! ### forgetting the dummy argument of zero blocks -/

/-- a block with the arguments of an all-zero pulse (`PulseAtoms.waituntil`: `dummy` is unused)
    erased -/
def Blk.norm : Blk → Blk
  | .call fn args sr n => if fn.shape = .zeros then .call fn [] sr n else .call fn args sr n
  | .raw xs => .raw xs

theorem Blk.norm_eval (b : Blk) : b.norm.eval? = b.eval? := by
  cases b with
  | raw xs => rfl
  | call fn args sr n =>
    unfold Blk.norm
    by_cases h : fn.shape = .zeros
    · simp only [h, if_true, Blk.eval?]
    · simp only [h, if_false]

theorem Blk.norm_len (b : Blk) : b.norm.len = b.len := by
  cases b with
  | raw xs => rfl
  | call fn args sr n =>
    unfold Blk.norm
    by_cases h : fn.shape = .zeros
    · simp only [h, if_true, Blk.len]
    · simp only [h, if_false]

theorem Blk.norm_idem (b : Blk) : b.norm.norm = b.norm := by
  cases b with
  | raw xs => rfl
  | call fn args sr n =>
    unfold Blk.norm
    by_cases h : fn.shape = .zeros
    · simp only [h, if_true]
    · simp only [h, if_false]

def Forged.norm (f : Forged) : Forged := { f with blocks := f.blocks.map Blk.norm }

/-- normalising changes nothing one can observe of a forged channel: number of samples, markers,
    sample rate, segment durations, and the evaluated samples and length of every block -/
theorem Forged.norm_observables (f : Forged) :
    f.norm.N = f.N ∧ f.norm.m1 = f.m1 ∧ f.norm.m2 = f.m2 ∧ f.norm.SR = f.SR ∧ f.norm.newdurations = f.newdurations ∧
    f.norm.blocks.map Blk.eval? = f.blocks.map Blk.eval? ∧ f.norm.blocks.map Blk.len = f.blocks.map Blk.len := by
  refine ⟨rfl, rfl, rfl, rfl, rfl, ?_, ?_⟩
  · simp only [Forged.norm, List.map_map]
    apply List.map_congr_left
    intro b _
    exact Blk.norm_eval b
  · simp only [Forged.norm, List.map_map]
    apply List.map_congr_left
    intro b _
    exact Blk.norm_len b

/-! ### a blueprint delayed by 0 out of 0 -/

theorem mkBlocks_shift_norm (sr dl : Rat) (segs : List Seg) (ns : List Nat) :
    (mkBlocks sr (segs.map (shiftWait dl)) ns).map Blk.norm = (mkBlocks sr segs ns).map Blk.norm := by
  induction segs generalizing ns with
  | nil => rfl
  | cons s ss ih =>
    cases ns with
    | nil => rfl
    | cons n ns =>
      simp only [List.map_cons, mkBlocks, ih ns, shiftWait_isWait, List.cons.injEq, and_true]
      by_cases hw : s.fn.isWait = true
      · have hz : (forgeFn s.fn).shape = .zeros := by simp [forgeFn, hw, Fn.waitCallable]
        simp only [Blk.norm, hz, if_true]
      · rw [shiftWait_nonwait dl s hw]

theorem g4_segMarks_shift (sr dl : Rat) (sel : Seg → Mark) (hsel : ∀ s, sel (shiftWait dl s) = sel s)
    (segs : List Seg) (sts : List Nat) :
    segMarks sr sel (segs.map (shiftWait dl)) sts = segMarks sr sel segs sts := by
  induction segs generalizing sts with
  | nil => rfl
  | cons s ss ih =>
    cases sts with
    | nil => rfl
    | cons st sts => simp only [List.map_cons, segMarks, hsel, ih sts]

theorem g4_shiftWait_m1 (dl : Rat) (s : Seg) : (shiftWait dl s).m1 = s.m1 := by
  unfold shiftWait
  split
  · split <;> rfl
  · rfl

theorem g4_shiftWait_m2 (dl : Rat) (s : Seg) : (shiftWait dl s).m2 = s.m2 := by
  unfold shiftWait
  split
  · split <;> rfl
  · rfl

theorem assemble_shift_norm (b b' : BP) (sr dl : Rat) (ns : List Nat) (hs : b'.segs = b.segs.map (shiftWait dl))
    (h1 : b'.marker1 = b.marker1) (h2 : b'.marker2 = b.marker2) :
    (assemble b' sr ns).norm = (assemble b sr ns).norm := by
  simp only [assemble, Forged.norm, hs, h1, h2, mkBlocks_shift_norm,
    g4_segMarks_shift sr dl (·.m1) (g4_shiftWait_m1 dl), g4_segMarks_shift sr dl (·.m2) (g4_shiftWait_m2 dl)]

theorem g4_badSpecial_shift (b : BP) (dl : Rat) :
    badSpecial { b with segs := b.segs.map (shiftWait dl) } = badSpecial b := by
  unfold badSpecial
  simp only [List.any_map]
  congr 1
  funext s
  simp [Function.comp, shiftWait_isWait]

/-- **a blueprint delayed by 0 (maximum 0) forges to the same waveform**: same success or the
    same exception; on success the same number of samples, markers, sample rate and segment
    durations, and block by block the same pulse call (only the unused argument of `waituntil`
    blocks may be rewritten) -/
theorem forgeBP_zero_delay (b : BP) :
    (forgeBP (delayBP b 0 0).st).map Forged.norm = (forgeBP b).map Forged.norm := by
  obtain ⟨_, hbody, hm1, hm2, hS⟩ := delayBP_spec b 0 0
  have hz : delayedSegs b.segs 0 0 = b.segs.map (shiftWait 0) := by simp [delayedSegs]
  rw [forgeBP_body (delayBP b 0 0).st { b with segs := b.segs.map (shiftWait 0) } (by rw [hbody, hz]) hm1 hm2 hS]
  unfold forgeBP
  have hr : BP.resolveWaits { b with segs := b.segs.map (shiftWait 0) } = b.resolveWaits := by
    unfold BP.resolveWaits
    have := resolveGo_shift b.segs 0 0
    simpa using this
  rw [hr, g4_badSpecial_shift]
  cases b.SR with
  | num sr =>
    simp only
    cases b.resolveWaits with
    | error e => rfl
    | ok durs =>
      simp only
      cases countsGo sr durs with
      | error e => rfl
      | ok ns =>
        simp only
        split
        · rfl
        · simp only [Except.map]
          exact congrArg Except.ok (assemble_shift_norm b _ sr 0 ns rfl rfl rfl)
  | str _ => rfl
  | none => rfl
  | opq _ => rfl

/-! ### the channel entry a zero delay leaves -/

/-- what `_applyDelays` with delay 0 out of 0 stores for a channel -/
def zeroEnt (ent : ChEntry) : ChEntry :=
  match ent.data with
  | .bp b => { ent with data := .bp (delayBP b 0 0).st }
  | _ => ent

def Element.ChOut.norm : ChOut → ChOut
  | .forged f fl t => .forged f.norm fl t
  | .arrays a fl tm => .arrays a fl tm

theorem chanOut_zeroEnt (t : Bool) (ent : ChEntry) :
    (chanOut t (zeroEnt ent)).map ChOut.norm = (chanOut t ent).map ChOut.norm := by
  obtain ⟨d, fl⟩ := ent
  cases d with
  | bp b =>
    simp only [zeroEnt, chanOut]
    have := forgeBP_zero_delay b
    cases h1 : forgeBP (delayBP b 0 0).st <;> cases h2 : forgeBP b <;> rw [h1, h2] at this <;>
      simp only [Except.map, Except.ok.injEq, Except.error.injEq, reduceCtorEq] at this ⊢
    · exact this
    · simp only [ChOut.norm, this]
  | arr a s => rfl
  | broken => rfl

theorem g4_rhe_zero : rhe 0 = 0 := by
  have := rhe_int 0
  simpa using this

theorem g4_padArr_zero (xs : List Rat) : padArr 0 0 xs = xs := by simp [padArr]

theorem delayChan_zero (sr : Rat) (ent : ChEntry) (h : ent.data ≠ .broken) :
    delayChan sr 0 ent 0 = .ok (zeroEnt ent) := by
  obtain ⟨d, fl⟩ := ent
  cases d with
  | bp b =>
    simp only [delayChan, zeroEnt, Res.toExcept, (delayBP_spec b 0 0).1]
  | arr a s =>
    simp only [delayChan, zeroEnt, zero_mul, sub_self, g4_rhe_zero, Int.toNat_zero, g4_padArr_zero]
    have : List.map (fun (x : String × List Rat) => (x.1, x.2)) a = a := by
      induction a with
      | nil => rfl
      | cons y ys ih => simp [ih]
    rw [this]
  | broken => exact absurd rfl h

theorem g4_maxR_all_zero (l : List Rat) (h : ∀ x ∈ l, x = 0) : maxR l = 0 := by
  induction l with
  | nil => rfl
  | cons x xs ih =>
    have hx : x = 0 := h x (by simp)
    have ih' := ih (fun y hy => h y (by simp [hy]))
    cases xs with
    | nil => simpa [maxR] using hx
    | cons y ys =>
      show (let m := maxR (y :: ys); if m < x then x else m) = 0
      simp only [ih', hx]
      simp

theorem g4_maxR_zeros {α : Type} (l : List α) : maxR (l.map (fun _ => (0 : Rat))) = 0 :=
  g4_maxR_all_zero _ (fun x hx => by
    simp only [List.mem_map] at hx
    obtain ⟨_, _, rfl⟩ := hx
    rfl)

/-! ### validation gives a numeric sample rate shared by all channels -/

theorem g4_validate_SR (e : Element) (m : Val × Rat) (h : e.validate = .ok m) :
    (∃ sr, m.1 = .num sr) ∧ ∀ x ∈ e.chans, chanSR x.2 = .ok m.1 := by
  unfold Element.validate at h
  split at h
  · cases h
  · rename_i hne
    split at h
    · cases h
    · rename_i srs hsrs
      split at h
      · cases h
      · rename_i hall
        have hall' : allSame srs = true := by simpa using hall
        split at h
        · cases h
        · rename_i durs hdurs
          split at h
          · cases h
          · split at h
            · cases h
            · split at h
              · cases h
              · rename_i npts hnpts
                split at h
                · cases h
                · simp only [Except.ok.injEq] at h
                  subst h
                  simp only
                  -- the first channel
                  cases hv : Dict.vals e.chans with
                  | nil => simp [hv] at hne
                  | cons v0 rest =>
                    have l1 := mapM_ok_length _ _ _ hsrs
                    have l2 := mapM_ok_length _ _ _ hdurs
                    have l3 := mapM_ok_length _ _ _ hnpts
                    have p0 : 0 < (Dict.vals e.chans).length := by rw [hv]; simp
                    have c1 := mapM_ok_getElem _ _ _ hsrs 0 p0 (by omega)
                    have c2 := mapM_ok_getElem _ _ _ hdurs 0 p0 (by omega)
                    have c3 := mapM_ok_getElem _ _ _ hnpts 0 p0 (by omega)
                    have hhead : srs.headD .none = srs[0]'(by omega) := by
                      cases srs with
                      | nil => simp at l1; omega
                      | cons a _ => rfl
                    constructor
                    · rw [hhead]
                      generalize (Dict.vals e.chans)[0] = v at c1 c2 c3
                      obtain ⟨dat, fl⟩ := v
                      cases dat with
                      | bp b =>
                        simp only [chanSR, Except.ok.injEq] at c1
                        simp only [chanPoints, BP.points] at c3
                        rw [← c1]
                        cases hb : b.SR with
                        | num sr => exact ⟨sr, rfl⟩
                        | str _ => rw [hb] at c3; cases c3
                        | none => rw [hb] at c3; cases c3
                        | opq _ => rw [hb] at c3; cases c3
                      | arr a sv =>
                        simp only [chanSR, Except.ok.injEq] at c1
                        simp only [chanDuration] at c2
                        rw [← c1]
                        cases sv with
                        | num sr => exact ⟨sr, rfl⟩
                        | str _ => cases c2
                        | none => cases c2
                        | opq _ => cases c2
                      | broken => simp [chanSR] at c1
                    · intro x hx
                      have hm : x.2 ∈ Dict.vals e.chans := List.mem_map.mpr ⟨x, hx, rfl⟩
                      obtain ⟨i, hi, hxi⟩ := List.getElem_of_mem hm
                      have := mapM_ok_getElem _ _ _ hsrs i hi (by omega)
                      rw [hxi] at this
                      rw [this, hhead, allSame_getElem srs hall' i 0 (by omega) (by omega)]

/-- a validated element has no broken channel -/
theorem g4_chanSR_not_broken (ent : ChEntry) (v : Val) (h : chanSR ent = .ok v) : ent.data ≠ .broken := by
  obtain ⟨d, fl⟩ := ent
  cases d <;> simp [chanSR] at h ⊢

theorem g4_validate_not_broken (e : Element) (m : Val × Rat) (h : e.validate = .ok m) :
    ∀ x ∈ e.chans, x.2.data ≠ .broken :=
  fun x hx => g4_chanSR_not_broken x.2 m.1 ((g4_validate_SR e m h).2 x hx)

end BB
