/-
  BB.Proofs.G5Repeat — a left fold of `Sequence.__add__` over equally long sequences with the
  accumulator's settings (the loop of `repeatAndVarySequence`): length, settings, content.
  Builds on the theorems of property C16.
-/
import BB.Properties.C16

namespace BB.G5
open BB BB.Sequence BB.C16

/-- an entry that is already a copy survives further `+`s unchanged -/
theorem foldAdd_keeps_copy (temps : List Sequence) (acc r : Sequence)
    (h : temps.foldlM Sequence.add acc = .ok r) (q : ℤ) (en : Entry)
    (hq : Dict.get? acc.data q = some (copyEntry en)) : Dict.get? r.data q = some (copyEntry en) := by
  induction temps generalizing acc with
  | nil =>
    simp only [List.foldlM_nil, pure, Except.pure, Except.ok.injEq] at h
    subst h; exact hq
  | cons t ts ih =>
    simp only [List.foldlM_cons, bind, Except.bind] at h
    cases ha : acc.add t with
    | error er => rw [ha] at h; cases h
    | ok acc1 =>
      rw [ha] at h
      simp only at h
      apply ih acc1 h
      have hk : q ∈ Dict.keys acc.data := (Dict.get?_isSome_iff _ _).mp (by simp [hq])
      rw [(add_positions acc t acc1 ha).2.2.2.1 q hk, hq]
      simp [copyEntry_idem]

/-- **a fold of `+`** over sequences of `N` positions each that carry the accumulator's settings:
    the result is the fold of `addCore`, has `len(acc) + n·N` positions, the same settings, and
    holds at position `len(acc) + j·N + p` a copy of what the `j`-th sequence holds at `p` -/
theorem foldAdd_spec (temps : List Sequence) (acc r : Sequence) (N : ℕ)
    (h : temps.foldlM Sequence.add acc = .ok r)
    (hN : ∀ t ∈ temps, t.data.length = N) (hsp : ∀ t ∈ temps, t.awgspecs = acc.awgspecs) :
    r = temps.foldl addCore acc ∧ r.data.length = acc.data.length + temps.length * N ∧
    r.awgspecs = acc.awgspecs ∧
    ∀ j (hj : j < temps.length) (p : ℤ), p ∈ Dict.keys temps[j].data →
      Dict.get? r.data (p + ((acc.data.length + j * N : ℕ) : ℤ)) = (Dict.get? temps[j].data p).map copyEntry := by
  induction temps generalizing acc with
  | nil =>
    simp only [List.foldlM_nil, pure, Except.pure, Except.ok.injEq] at h
    subst h
    exact ⟨rfl, by simp, rfl, fun j hj => by simp at hj⟩
  | cons t ts ih =>
    simp only [List.foldlM_cons, bind, Except.bind] at h
    cases ha : acc.add t with
    | error er => rw [ha] at h; cases h
    | ok acc1 =>
      rw [ha] at h
      simp only at h
      obtain ⟨_, _, _, hacc1⟩ := (add_ok_iff acc t acc1).mp ha
      obtain ⟨hlen1, _, _, _, hright⟩ := add_positions acc t acc1 ha
      have hsp1 : ∀ t' ∈ ts, t'.awgspecs = acc1.awgspecs := by
        intro t' ht'
        rw [hacc1]
        show t'.awgspecs = t.awgspecs
        rw [hsp t' (by simp [ht']), hsp t (by simp)]
      obtain ⟨e1, e2, e3, e4⟩ := ih acc1 h (fun t' ht' => hN t' (by simp [ht'])) hsp1
      have htN : t.data.length = N := hN t (by simp)
      refine ⟨?_, ?_, ?_, ?_⟩
      · rw [e1, hacc1]; rfl
      · rw [e2, hlen1, htN]
        simp only [List.length_cons]
        rw [Nat.add_mul]
        omega
      · rw [e3, hacc1]
        show t.awgspecs = acc.awgspecs
        exact hsp t (by simp)
      · intro j hj p hp
        cases j with
        | zero =>
          simp only [List.getElem_cons_zero] at hp ⊢
          simp only [Nat.zero_mul, Nat.add_zero]
          have h1 := hright p hp
          obtain ⟨en, hen⟩ := get_some_of_mem_keys _ _ hp
          rw [hen] at h1 ⊢
          exact foldAdd_keeps_copy ts acc1 r h _ en h1
        | succ j =>
          simp only [List.getElem_cons_succ] at hp ⊢
          have := e4 j (by simpa using hj) p hp
          rw [← this]
          congr 2
          rw [hlen1, htN]
          push_cast
          ring

end BB.G5
