/-
  BB.Proofs.G4Prep — the filter loop of `Sequence._prepareForOutputting` (the duplicate of the
  loop in `forge`): every channel of every prepared position carries the filter declared for it.
  Also: the AWG settings keys (`channel<id>_<what>`) of different kinds never collide.
-/
import BB.Proofs.G4Seq
import BB.Proofs.Paths

namespace BB
namespace Sequence
open Element

/-- one step of the delay loop of the output path keeps the channel list -/
theorem g4_prepStep_keys (sr : Val) (M : Rat) (cs cs' : Dict Chan ChEntry) (x : Chan × Rat)
    (h : prepStep sr M cs x = .ok cs') : Dict.keys cs' = Dict.keys cs := by
  unfold prepStep at h
  cases hg : Dict.get? cs x.1 with
  | none => rw [hg] at h; cases h
  | some ent =>
    rw [hg] at h
    have hmem : x.1 ∈ Dict.keys cs := (Dict.get?_isSome_iff _ _).mp (by rw [hg]; rfl)
    simp only at h
    split at h
    · split at h
      · cases h
      · split at h
        · cases h
        · simp only [Except.ok.injEq] at h
          rw [← h]; exact Dict.keys_upsert_of_mem _ _ _ hmem
    · split at h
      · simp only [Except.ok.injEq] at h
        rw [← h]; exact Dict.keys_upsert_of_mem _ _ _ hmem
      · cases h
    · cases h

theorem g4_foldlM_prepStep_keys (sr : Val) (M : Rat) (l : List (Chan × Rat)) (cs cs' : Dict Chan ChEntry)
    (h : l.foldlM (prepStep sr M) cs = .ok cs') : Dict.keys cs' = Dict.keys cs := by
  induction l generalizing cs with
  | nil =>
    simp only [List.foldlM_nil, pure, Except.pure, Except.ok.injEq] at h
    rw [h]
  | cons x rest ih =>
    simp only [List.foldlM_cons, bind, Except.bind] at h
    cases hs : prepStep sr M cs x with
    | error er => rw [hs] at h; cases h
    | ok cs1 =>
      rw [hs] at h
      rw [ih cs1 h, g4_prepStep_keys sr M cs cs1 x hs]

/-- the delay part of the output path keeps an element's channel list (ids and order) -/
theorem prepDelayElement_channels (sr : Val) (e e'' : Element) (chans : List Chan) (delays : List Rat)
    (h : prepDelayElement sr e chans delays = .ok e'') : e''.channels = e.channels := by
  unfold prepDelayElement at h
  cases hf : (chans.zip delays).foldlM (prepStep sr (maxR delays)) e.chans with
  | error er => rw [hf] at h; simp [Except.map] at h
  | ok c =>
    rw [hf] at h
    simp only [Except.map, Except.ok.injEq] at h
    subst h
    exact g4_foldlM_prepStep_keys _ _ _ _ _ hf

/-- the filter loop of the output path, channel by channel -/
theorem prepFilters_mem (s : Sequence) (chans : List Chan) (d : Dict Chan ChOut) (r : Dict Chan ChOutF)
    (h : s.prepFilters chans d = .ok r) (hsub : ∀ x ∈ d, x.1 ∈ chans) :
    ∀ y ∈ r, s.filterOf y.1 = .ok y.2.filt := by
  unfold prepFilters at h
  intro y hy
  obtain ⟨k, hk, rfl⟩ := List.getElem_of_mem hy
  have hl := mapM_ok_length _ _ _ h
  have := mapM_ok_getElem _ _ _ h k (by omega) hk
  have hc : chans.contains (d[k]'(by omega)).1 = true := by
    simpa using hsub _ (List.getElem_mem (by omega))
  simp only [hc, if_true] at this
  cases hf : s.filterOf (d[k]'(by omega)).1 with
  | error er => rw [hf] at this; simp [Except.map] at this
  | ok fl =>
    rw [hf] at this
    simp only [Except.map, Except.ok.injEq] at this
    rw [← this]
    exact hf

/-- **the filter loop of `_prepareForOutputting`** (behind `outputForAWGFile` and both SEQX output
    methods): at every prepared position every channel carries exactly the filter call declared
    for that channel — `filterOf`: kind, order, f_cut or 1/tau, the sequence's sample rate; `none`
    for a channel without a declared compensation -/
theorem prepare_filters (s : Sequence) (P : List (Dict Chan ChOutF)) (hP : s.prepareForOutputting = .ok P)
    (i : Nat) (hi : i < P.length) : ∀ y ∈ P[i], s.filterOf y.1 = .ok y.2.filt := by
  unfold prepareForOutputting at hP
  split at hP
  · cases hP
  · cases hP
  · rename_i hc
    split at hP
    · cases hP
    · rename_i en hen
      split at hP
      · cases hP
      · rename_i chans hchans
        split at hP
        · cases hP
        · split at hP
          · cases hP
          · split at hP
            · cases hP
            · rename_i delays hdel
              split at hP
              · cases hP
              · rename_i els hels
                split at hP
                · cases hP
                · rename_i forged hforged
                  unfold prepElements at hels
                  have l1 := mapM_ok_length _ _ _ hels
                  have l2 := mapM_ok_length _ _ _ hforged
                  have l3 := mapM_ok_length _ _ _ hP
                  simp only [List.length_range] at l1
                  have i0 : i < (List.range s.data.length).length := by simp; omega
                  have i1 : i < els.length := by omega
                  have i2 : i < forged.length := by omega
                  have ee := mapM_ok_getElem _ _ _ hels i i0 i1
                  rw [List.getElem_range] at ee
                  have ef := mapM_ok_getElem _ _ _ hforged i i1 i2
                  have ep := mapM_ok_getElem _ _ _ hP i i2 hi
                  cases hg : Dict.get? s.data ((i + 1 : Nat) : Int) with
                  | none => rw [hg] at ee; cases ee
                  | some eni =>
                    rw [hg] at ee
                    cases eni with
                    | sub _ => cases ee
                    | el e =>
                      simp only at ee
                      cases hsr : e.getSR with
                      | error er => rw [hsr] at ee; cases ee
                      | ok srv =>
                        rw [hsr] at ee
                        simp only at ee
                        -- element 1
                        have hen1 : ∃ e1, en = .el e1 := by
                          cases en with
                          | el e1 => exact ⟨e1, rfl⟩
                          | sub sb =>
                            exfalso
                            have hpos : 0 < s.data.length := by omega
                            have i00 : 0 < (List.range s.data.length).length := by simp; exact hpos
                            have i01 : 0 < els.length := by omega
                            have e0 := mapM_ok_getElem _ _ _ hels 0 i00 i01
                            rw [List.getElem_range] at e0
                            have : ((0 + 1 : Nat) : Int) = 1 := by norm_num
                            rw [this, hen] at e0
                            cases e0
                        obtain ⟨e1, rfl⟩ := hen1
                        have hc1 : chans = e1.channels := by
                          simp only [Entry.channels, Except.ok.injEq] at hchans; exact hchans.symm
                        have hperm : chans.Perm e.channels := hc1 ▸ consistent_channels_perm s hc 1 _ e1 e hen hg
                        have hkeys := prepDelayElement_channels srv e _ chans delays ee
                        have hkeysarr := Paths.getArrays_keys els[i] false forged[i] ef
                        have hsub : ∀ x ∈ forged[i], x.1 ∈ chans := by
                          intro x hx
                          apply hperm.symm.subset
                          rw [← hkeys, ← hkeysarr]
                          exact List.mem_map.mpr ⟨x, hx, rfl⟩
                        exact prepFilters_mem s chans forged[i] P[i] ep hsub

/-! ### AWG settings keys -/

theorem g4_keyOf_ne_SR (ch : Chan) (what : String) : keyOf ch what ≠ "SR" := by
  intro h
  have := congrArg String.toList h
  simp [keyOf] at this

theorem g4_keyOf_delay_ne_filter (ch ch' : Chan) : keyOf ch' "delay" ≠ keyOf ch "filtercompensation" := by
  intro h
  have := congrArg (fun s => s.toList.reverse.head?) h
  simp [keyOf] at this

theorem g4_keyOf_amplitude_ne_filter (ch ch' : Chan) : keyOf ch' "amplitude" ≠ keyOf ch "filtercompensation" := by
  intro h
  have := congrArg (fun s => s.toList.reverse.head?) h
  simp [keyOf] at this

/-- **`_prepareForOutputting` depends on the sequence only through** its store, its sequencing
    table, whether a sample rate and the channel amplitudes are set, and the declared delay and
    filter of every channel -/
theorem g4_prepare_congr (s s' : Sequence) (hd : s.data = s'.data) (hq : s.sequencing = s'.sequencing)
    (hsr : Dict.has s.awgspecs "SR" = Dict.has s'.awgspecs "SR")
    (hamp : ∀ ch, Dict.has s.awgspecs (keyOf ch "amplitude") = Dict.has s'.awgspecs (keyOf ch "amplitude"))
    (hdel : ∀ ch, s.delayOf ch = s'.delayOf ch) (hfil : ∀ ch, s.filterOf ch = s'.filterOf ch) :
    s.prepareForOutputting = s'.prepareForOutputting := by
  have hcc : s.checkConsistency = s'.checkConsistency := by
    unfold checkConsistency; rw [hsr, hd]
  have hpe : s.prepElements = s'.prepElements := by
    funext chans delays
    unfold prepElements; rw [hd]
  have hpf : s.prepFilters = s'.prepFilters := by
    funext chans d
    unfold prepFilters
    have : s.filterOf = s'.filterOf := funext hfil
    rw [this]
  have hdo : s.delayOf = s'.delayOf := funext hdel
  have hany : ∀ chans : List Chan, chans.any (fun ch => !(Dict.has s.awgspecs (keyOf ch "amplitude"))) =
      chans.any (fun ch => !(Dict.has s'.awgspecs (keyOf ch "amplitude"))) := by
    intro chans
    congr 1
    funext ch
    rw [hamp]
  unfold prepareForOutputting
  simp only [hcc, hd, hq, hpe, hpf, hdo, hany]

end Sequence
end BB
