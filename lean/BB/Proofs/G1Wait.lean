/-
  BB.Proofs.G1Wait — wait resolution over a concatenation (splitting, error propagation), the
  resolved durations of plain (waituntil-free) prefixes, and what `changeDuration` does to a
  blueprint split around a waituntil segment.
-/
import BB.Proofs.Forge
import BB.Proofs.Delay

namespace BB
open BP

/-! ### resolving a concatenation -/

theorem consOk_error (d : ℚ) (r : Except Err (List ℚ)) (e : Err) (h : r = .error e) :
    BP.consOk d r = .error e := by subst h; rfl

/-- a successful resolution of `a ++ c` splits into one of `a` and one of `c`, the latter started
    at the elapsed time of the former -/
theorem resolveGo_append_inv (a c : List Seg) (el : ℚ) (ds : List ℚ)
    (h : resolveGo (a ++ c) el = .ok ds) :
    ∃ da dc, resolveGo a el = .ok da ∧ resolveGo c (el + sumR da) = .ok dc ∧ ds = da ++ dc ∧
      da.length = a.length := by
  induction a generalizing el ds with
  | nil =>
    refine ⟨[], ds, rfl, ?_, rfl, rfl⟩
    simpa [sumR] using h
  | cons s rest ih =>
    simp only [List.cons_append, resolveGo] at h ⊢
    by_cases hw : s.fn.isWait = true
    · simp only [hw, if_true] at h ⊢
      split at h
      · rename_i t tl hargs
        by_cases hneg : t - el < 0
        · simp [hneg] at h
        · simp only [hneg, if_false] at h ⊢
          obtain ⟨ms, hr, rfl⟩ := consOk_ok _ _ _ h
          obtain ⟨da, dc, h1, h2, h3, h4⟩ := ih t ms hr
          refine ⟨(t - el) :: da, dc, by rw [h1]; rfl, ?_, by rw [h3]; rfl, by simp [h4]⟩
          have : el + sumR ((t - el) :: da) = t + sumR da := by simp [sumR]; ring
          rw [this]; exact h2
      · simp at h
    · simp only [hw, Bool.false_eq_true, if_false] at h ⊢
      split at h
      · rename_i d _
        obtain ⟨ms, hr, rfl⟩ := consOk_ok _ _ _ h
        obtain ⟨da, dc, h1, h2, h3, h4⟩ := ih (el + d) ms hr
        refine ⟨d :: da, dc, by rw [h1]; rfl, ?_, by rw [h3]; rfl, by simp [h4]⟩
        have : el + sumR (d :: da) = (el + d) + sumR da := by simp [sumR]; ring
        rw [this]; exact h2
      · simp at h

/-- if the first part resolves and the second part fails, the whole fails with the same error -/
theorem resolveGo_append_error (a c : List Seg) (el : ℚ) (da : List ℚ) (e : Err)
    (ha : resolveGo a el = .ok da) (hc : resolveGo c (el + sumR da) = .error e) :
    resolveGo (a ++ c) el = .error e := by
  induction a generalizing el da with
  | nil =>
    simp only [resolveGo, Except.ok.injEq] at ha
    subst ha
    simpa [sumR] using hc
  | cons s rest ih =>
    simp only [List.cons_append, resolveGo] at ha ⊢
    by_cases hw : s.fn.isWait = true
    · simp only [hw, if_true] at ha ⊢
      split at ha
      · rename_i t tl hargs
        by_cases hneg : t - el < 0
        · simp [hneg] at ha
        · simp only [hneg, if_false] at ha ⊢
          obtain ⟨ms, hr, rfl⟩ := consOk_ok _ _ _ ha
          have : el + sumR ((t - el) :: ms) = t + sumR ms := by simp [sumR]; ring
          rw [this] at hc
          rw [ih t ms hr hc]; rfl
      · simp at ha
    · simp only [hw, Bool.false_eq_true, if_false] at ha ⊢
      split at ha
      · rename_i d _
        obtain ⟨ms, hr, rfl⟩ := consOk_ok _ _ _ ha
        have : el + sumR (d :: ms) = (el + d) + sumR ms := by simp [sumR]; ring
        rw [this] at hc
        rw [ih (el + d) ms hr hc]; rfl
      · simp at ha

/-- resolving a list that starts with a `waituntil(t)` -/
theorem resolveGo_wait_head (w : Seg) (post : List Seg) (el t : ℚ) (tl : List Val)
    (hw : w.fn.isWait = true) (ha : w.args = .num t :: tl) :
    resolveGo (w :: post) el =
      if t - el < 0 then .error .value else BP.consOk (t - el) (resolveGo post t) := by
  simp only [resolveGo, hw, if_true, ha]

/-- **General overrun**: whatever the prefix looks like (earlier waituntils included), if it
    resolves to durations `dp` that already add up to more than `t`, resolution fails with
    ValueError at the waituntil. -/
theorem resolveGo_overrun_general (pre : List Seg) (w : Seg) (post : List Seg) (el t : ℚ) (tl : List Val)
    (dp : List ℚ) (hw : w.fn.isWait = true) (ha : w.args = .num t :: tl)
    (hpre : resolveGo pre el = .ok dp) (hover : t < el + sumR dp) :
    resolveGo (pre ++ w :: post) el = .error .value := by
  apply resolveGo_append_error pre _ el dp .value hpre
  rw [resolveGo_wait_head w post _ t tl hw ha]
  have : t - (el + sumR dp) < 0 := by linarith
  simp [this]

/-- the converse direction: if the prefix resolves and does not extend beyond `t`, the waituntil
    itself is resolved to `t - elapsed ≥ 0` and resolution continues behind it at time `t` -/
theorem resolveGo_wait_split (pre : List Seg) (w : Seg) (post : List Seg) (el t : ℚ) (tl : List Val)
    (ds : List ℚ) (hw : w.fn.isWait = true) (ha : w.args = .num t :: tl)
    (h : resolveGo (pre ++ w :: post) el = .ok ds) :
    ∃ dp dpost, resolveGo pre el = .ok dp ∧ dp.length = pre.length ∧ el + sumR dp ≤ t ∧
      resolveGo post t = .ok dpost ∧ ds = dp ++ (t - (el + sumR dp)) :: dpost := by
  obtain ⟨da, dc, h1, h2, h3, h4⟩ := resolveGo_append_inv pre (w :: post) el ds h
  rw [resolveGo_wait_head w post _ t tl hw ha] at h2
  by_cases hneg : t - (el + sumR da) < 0
  · simp [hneg] at h2
  · simp only [hneg, if_false] at h2
    obtain ⟨ms, hr, rfl⟩ := consOk_ok _ _ _ h2
    exact ⟨da, ms, h1, h4, by linarith, hr, h3⟩

/-! ### plain prefixes -/

/-- a prefix without waituntils whose durations are all numbers resolves to those durations -/
theorem resolveGo_plain (pre : List Seg) (el : ℚ)
    (hpre : ∀ s ∈ pre, s.fn.isWait = false ∧ ∃ d, s.dur = .num d) :
    resolveGo pre el = .ok (pre.filterMap durOf?) := by
  induction pre generalizing el with
  | nil => rfl
  | cons s rest ih =>
    obtain ⟨hs, d, hd⟩ := hpre s (by simp)
    simp only [resolveGo, hs, Bool.false_eq_true, if_false, hd]
    rw [ih (el + d) (fun x hx => hpre x (by simp [hx]))]
    simp [durOf?, hd, BP.consOk]

/-! ### `changeDuration` around a waituntil -/

theorem setDur_fn_args (tgts : List String) (d : ℚ) (s : Seg) :
    (BP.setDur tgts d s).fn = s.fn ∧ (BP.setDur tgts d s).args = s.args := by
  unfold BP.setDur; split <;> exact ⟨rfl, rfl⟩

/-- `changeDuration` (accepted or refused) keeps the segment list's shape: a blueprint split
    around a waituntil stays split at the same place, around the same waituntil -/
theorem changeDuration_split (b : BP) (name : String) (dur : Val) (all : Bool)
    (pre : List Seg) (w : Seg) (post : List Seg) (hb : b.segs = pre ++ w :: post) :
    ∃ pre' w' post', (b.changeDuration name dur all).st.segs = pre' ++ w' :: post' ∧
      pre'.length = pre.length ∧ post'.length = post.length ∧ w'.fn = w.fn ∧ w'.args = w.args ∧
      (b.changeDuration name dur all).st.SR = b.SR := by
  unfold BP.changeDuration
  split
  · rename_i d
    split
    · exact ⟨pre, w, post, hb, rfl, rfl, rfl, rfl, rfl⟩
    · split
      · exact ⟨pre, w, post, hb, rfl, rfl, rfl, rfl, rfl⟩
      · split
        · exact ⟨pre, w, post, hb, rfl, rfl, rfl, rfl, rfl⟩
        · refine ⟨pre.map (BP.setDur (b.targets name all).2 d), BP.setDur (b.targets name all).2 d w,
            post.map (BP.setDur (b.targets name all).2 d), ?_, by simp, by simp,
            (setDur_fn_args _ _ _).1, (setDur_fn_args _ _ _).2, rfl⟩
          simp only [hb, List.map_append, List.map_cons]
  · exact ⟨pre, w, post, hb, rfl, rfl, rfl, rfl, rfl⟩

theorem sumN_take_succ (ns : List ℕ) (k : ℕ) (hk : k < ns.length) :
    sumN (ns.take (k + 1)) = sumN (ns.take k) + ns[k] := by
  rw [List.take_succ_eq_append_getElem hk, sumN_append]
  simp [sumN]

end BB
