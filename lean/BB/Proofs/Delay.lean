/-
  BB.Proofs.Delay — what `_applyDelays` does to a blueprint channel:
  resolved durations, sample counts, blocks and marker specifications of the delayed blueprint.
-/
import BB.Proofs.Body
import BB.Model.Element

namespace BB
open BP Element

theorem shiftWait_isWait (delay : ℚ) (s : Seg) : (shiftWait delay s).fn = s.fn := by
  unfold shiftWait
  split
  · split <;> rfl
  · rfl

theorem consOk_ok_eq (d : ℚ) (ds : List ℚ) : BP.consOk d (.ok ds) = .ok (d :: ds) := rfl

theorem shiftWait_wait (delay : ℚ) (s : Seg) (t : ℚ) (tl : List Val) (hw : s.fn.isWait = true)
    (hargs : s.args = .num t :: tl) : shiftWait delay s = { s with args := [.num (t + delay)] } := by
  unfold shiftWait; simp [hw, hargs]

theorem shiftWait_nonwait (delay : ℚ) (s : Seg) (hw : ¬ s.fn.isWait = true) : shiftWait delay s = s := by
  unfold shiftWait; simp [hw]

/-- shifting all wait targets and the start by `delay` does not change the resolved durations -/
theorem resolveGo_shift (segs : List Seg) (el delay : ℚ) :
    resolveGo (segs.map (shiftWait delay)) (el + delay) = resolveGo segs el := by
  induction segs generalizing el with
  | nil => rfl
  | cons s rest ih =>
    simp only [List.map_cons]
    by_cases hw : s.fn.isWait = true
    · cases hargs : s.args with
      | nil =>
        have : shiftWait delay s = s := by unfold shiftWait; simp [hw, hargs]
        rw [this]; simp [resolveGo, hw, hargs]
      | cons a tl =>
        cases a with
        | num t =>
          rw [shiftWait_wait delay s t tl hw hargs]
          simp only [resolveGo, hw, if_true, hargs]
          have e1 : t + delay - (el + delay) = t - el := by ring
          rw [e1, ih t]
        | str x =>
          have : shiftWait delay s = s := by unfold shiftWait; simp [hw, hargs]
          rw [this]; simp [resolveGo, hw, hargs]
        | none =>
          have : shiftWait delay s = s := by unfold shiftWait; simp [hw, hargs]
          rw [this]; simp [resolveGo, hw, hargs]
        | opq x =>
          have : shiftWait delay s = s := by unfold shiftWait; simp [hw, hargs]
          rw [this]; simp [resolveGo, hw, hargs]
    · rw [shiftWait_nonwait delay s hw]
      simp only [resolveGo, hw, Bool.false_eq_true, if_false]
      split
      · rename_i d _
        have e : el + delay + d = (el + d) + delay := by ring
        rw [e, ih (el + d)]
      · rfl

theorem consOk_append (d : ℚ) (r : Except Err (List ℚ)) (ds : List ℚ) (h : r = .ok ds) :
    BP.consOk d r = .ok (d :: ds) := by subst h; rfl

/-- resolving a concatenation: the second part starts at the elapsed time of the first -/
theorem resolveGo_append (a c : List Seg) (el : ℚ) (ds ds' : List ℚ)
    (ha : resolveGo a el = .ok ds) (hc : resolveGo c (el + sumR ds) = .ok ds') :
    resolveGo (a ++ c) el = .ok (ds ++ ds') := by
  induction a generalizing el ds with
  | nil =>
    simp only [resolveGo, Except.ok.injEq] at ha
    subst ha
    simpa [sumR] using hc
  | cons s rest ih =>
    simp only [List.cons_append, resolveGo] at ha ⊢
    by_cases hw : s.fn.isWait = true
    · simp only [hw, if_true] at ha ⊢
      split at ha
      · rename_i t tl hargs
        by_cases hneg : t - el < 0
        · simp [hneg] at ha
        · simp only [hneg, if_false] at ha ⊢
          obtain ⟨ms, hr, rfl⟩ := consOk_ok _ _ _ ha
          have : el + sumR ((t - el) :: ms) = t + sumR ms := by simp [sumR]; ring
          rw [this] at hc
          rw [ih t ms hr hc]; rfl
      · simp at ha
    · simp only [hw, Bool.false_eq_true, if_false] at ha ⊢
      split at ha
      · rename_i d _
        obtain ⟨ms, hr, rfl⟩ := consOk_ok _ _ _ ha
        have : el + sumR (d :: ms) = (el + d) + sumR ms := by simp [sumR]; ring
        rw [this] at hc
        rw [ih (el + d) ms hr hc]; rfl
      · simp at ha

/-- the explicit segment list of a delayed blueprint (before renumbering the names) -/
def delayedSegs (segs : List Seg) (delay maxdelay : ℚ) : List Seg :=
  (if 0 < delay then [delayHead delay] else []) ++ segs.map (shiftWait delay) ++
    (if 0 < maxdelay - delay then [delayTail (maxdelay - delay)] else [])

theorem insertSegs_zero (segs : List Seg) (s : Seg) : BP.insertSegs segs 0 s = s :: segs := by
  simp [BP.insertSegs, BP.insertAt]

theorem insertSegs_last (segs : List Seg) (s : Seg) : BP.insertSegs segs (-1) s = segs ++ [s] := by
  simp [BP.insertSegs]

/-- `_applyDelays` on a blueprint never fails, keeps markers and sample rate, and produces — up
    to the renumbering of names — the explicit list `delayedSegs` -/
theorem delayBP_spec (b : BP) (delay maxdelay : ℚ) :
    (delayBP b delay maxdelay).err = none ∧
    (delayBP b delay maxdelay).st.segs.map Seg.body = (delayedSegs b.segs delay maxdelay).map Seg.body ∧
    (delayBP b delay maxdelay).st.marker1 = b.marker1 ∧ (delayBP b delay maxdelay).st.marker2 = b.marker2 ∧
    (delayBP b delay maxdelay).st.SR = b.SR := by
  have hp0 : Gen.insertPosBad 0 = false := by decide
  have hp1 : Gen.insertPosBad (-1) = false := by decide
  have hn0 : ∀ v, BP.insertName Fn.waitSpecial v = .ok "waituntil" := by intro v; rfl
  have hn1 : BP.insertName Fn.rampFn .none = .ok "ramp" := by decide
  unfold delayBP delayedSegs
  by_cases h0 : 0 < delay <;> by_cases h1 : 0 < maxdelay - delay <;>
    simp only [h0, h1, if_true, if_false, BP.insertSegment, hp0, hp1, hn0, hn1, Bool.false_eq_true,
      insertSegs_zero, insertSegs_last, renumber_body, List.map_append, List.map_cons, List.map_nil,
      List.append_nil, List.nil_append, List.cons_append, List.singleton_append, and_self, true_and]
  all_goals first
    | rfl
    | (simp only [delayHead, delayTail, Seg.body]; rfl)
    | skip
  all_goals simp [delayHead, delayTail, Seg.body]

/-- resolved durations of a delayed blueprint: the delay, the original durations, the tail -/
theorem delayed_resolve (segs : List Seg) (delay maxdelay : ℚ) (ds : List ℚ)
    (hd : resolveGo segs 0 = .ok ds) (h0 : 0 ≤ delay) :
    resolveGo (delayedSegs segs delay maxdelay) 0 =
      .ok ((if 0 < delay then [delay] else []) ++ ds ++ (if 0 < maxdelay - delay then [maxdelay - delay] else [])) := by
  have hshift : resolveGo (segs.map (shiftWait delay)) delay = .ok ds := by
    have := resolveGo_shift segs 0 delay
    rw [zero_add] at this; rw [this, hd]
  have htail : ∀ el, resolveGo (if 0 < maxdelay - delay then [delayTail (maxdelay - delay)] else []) el
      = .ok (if 0 < maxdelay - delay then [maxdelay - delay] else []) := by
    intro el
    by_cases h1 : 0 < maxdelay - delay
    · simp only [h1, if_true, resolveGo, delayTail]
      have : Fn.rampFn.isWait = false := by decide
      simp [this, BP.consOk]
    · simp [h1, resolveGo]
  unfold delayedSegs
  by_cases hpos : 0 < delay
  · simp only [hpos, if_true, List.singleton_append, List.cons_append, List.nil_append]
    have hw : (delayHead delay).fn.isWait = true := by show Fn.waitSpecial.isWait = true; decide
    simp only [resolveGo, hw, if_true, delayHead, sub_zero]
    have : ¬ delay < 0 := not_lt.mpr h0
    simp only [this, if_false]
    have hrest := resolveGo_append (segs.map (shiftWait delay)) _ delay ds _ hshift (htail _)
    rw [hrest]; rfl
  · have hz : delay = 0 := le_antisymm (not_lt.mp hpos) h0
    subst hz
    simp only [lt_self_iff_false, if_false, List.nil_append]
    have := resolveGo_append (segs.map (shiftWait 0)) _ 0 ds _ hshift (htail _)
    simpa using this

theorem padArr_length (pre post : ℕ) (xs : List ℚ) : (padArr pre post xs).length = pre + xs.length + post := by
  simp [padArr]; omega

end BB
