/-
  BB.Proofs.G4Schema — the published forged-sequence schema (`fs_schema`,
  src/broadbean/sequence.py lines 24-37) as a predicate on an untyped Python-like value, and the
  dictionary `forge()` returns (`forgeJ`) written out from the model's typed forged structure.

  Semantics of the `schema` library for a dictionary schema (checked against the library):
  every key/value pair of the data must be accepted by some schema entry (no extra keys), and
  every schema key that is not `Optional` — type keys such as `int` or `Or(str, int)` included —
  must accept at least one pair.
-/
import BB.Proofs.G4Frame

namespace BB.FsSchema
open BB BB.Element BB.Sequence

/-- a Python dictionary key -/
inductive Key where
  | int (n : Int)
  | str (s : String)
  deriving DecidableEq, Repr

/-- a Python value as far as the schema tells values apart -/
inductive Py where
  | int (n : Int)
  | str (s : String)
  | ndarray (len : Nat)
  | dict (kvs : List (Key × Py))

def Key.isInt : Key → Bool
  | .int _ => true
  | .str _ => false
def Key.isStr : Key → Bool
  | .str _ => true
  | .int _ => false
def Py.isInt : Py → Bool
  | .int _ => true
  | _ => false
def Py.isNd : Py → Bool
  | .ndarray _ => true
  | _ => false
/-- `Or("a", "b", ...)` on values -/
def Py.isOneOf (opts : List String) : Py → Bool
  | .str s => opts.contains s
  | _ => false

/-- a key of a dictionary schema: which data keys it accepts, and whether it is `Optional` -/
structure KeySch where
  accepts : Key → Bool
  optional : Bool

def kInt : KeySch := ⟨Key.isInt, false⟩                       -- `int`
def kStr : KeySch := ⟨Key.isStr, false⟩                       -- `str`
def kOptStr : KeySch := ⟨Key.isStr, true⟩                     -- `Optional(str)`
def kStrOrInt : KeySch := ⟨fun k => k.isStr || k.isInt, false⟩  -- `Or(str, int)`
def kLit (s : String) : KeySch := ⟨fun k => k == .str s, false⟩ -- `"s"`
def kOptLit (s : String) : KeySch := ⟨fun k => k == .str s, true⟩ -- `Optional("s")`

/-- `Schema({k₁: v₁, ...}).validate(x)` -/
def dictOk (fields : List (KeySch × (Py → Bool))) : Py → Bool
  | .dict kvs =>
    kvs.all (fun kv => fields.any (fun fd => fd.1.accepts kv.1 && fd.2 kv.2)) &&
    fields.all (fun fd => fd.1.optional || kvs.any (fun kv => fd.1.accepts kv.1 && fd.2 kv.2))
  | _ => false

/-- `{Optional(str): int}` -/
def seqTableSch : Py → Bool := dictOk [(kOptStr, Py.isInt)]
/-- `{str: np.ndarray}` -/
def chanSch : Py → Bool := dictOk [(kStr, Py.isNd)]
/-- `{Or(str, int): {str: np.ndarray}}` -/
def dataSch : Py → Bool := dictOk [(kStrOrInt, chanSch)]
/-- `{"data": ..., Optional("sequencing"): {Optional(str): int}}` -/
def contentEntrySch : Py → Bool := dictOk [(kLit "data", dataSch), (kOptLit "sequencing", seqTableSch)]
/-- `{int: {...}}` -/
def contentSch : Py → Bool := dictOk [(kInt, contentEntrySch)]
/-- one position -/
def posSch : Py → Bool :=
  dictOk [(kLit "type", Py.isOneOf ["subsequence", "element"]), (kLit "content", contentSch),
    (kLit "sequencing", seqTableSch)]

/-- **`fs_schema`** (src/broadbean/sequence.py lines 24-37) -/
def fsSchema : Py → Bool := dictOk [(kInt, posSch)]

/-! ### the dictionary `forge()` returns -/

def seqJ (q : SeqSet) : Py :=
  .dict [(.str "twait", .int q.twait), (.str "nrep", .int q.nrep), (.str "jump_input", .int q.jump_input),
    (.str "jump_target", .int q.jump_target), (.str "goto", .int q.goto)]

def chanKey : Chan → Key
  | .int n => .int n
  | .str s => .str s

/-- `outdict[channel]["flags"] = np.array(signal["flags"])` -/
def withFlags (d : List (Key × Py)) : Option (List Nat) → List (Key × Py)
  | none => d
  | some fl => Dict.upsert d (.str "flags") (.ndarray fl.length)

/-- one channel of `getArrays`: a forged blueprint ('wfm', 'm1', 'm2', and — only when requested —
    'time' and 'newdurations') or the stored raw arrays (plus a 'time' axis when requested), with
    'flags' where flags were set -/
def chanJ : ChOut → Py
  | .forged f fl wt =>
    .dict (withFlags ([(.str "wfm", .ndarray f.N), (.str "m1", .ndarray f.m1.length), (.str "m2", .ndarray f.m2.length)] ++
      (if wt then [(.str "time", .ndarray f.N), (.str "newdurations", .ndarray f.newdurations.length)] else [])) fl)
  | .arrays a fl tm =>
    let d1 := withFlags (a.map (fun kv => (Key.str kv.1, Py.ndarray kv.2.length))) fl
    .dict (match tm with
      | some (n, _) => Dict.upsert d1 (.str "time") (.ndarray n)
      | none => d1)

def dataJ (c : Dict Chan ChOutF) : Py := .dict (c.map (fun x => (chanKey x.1, chanJ x.2.out)))

def contentEntryJ (x : Nat × Dict Chan ChOutF × Option SeqSet) : Py :=
  .dict ((.str "data", dataJ x.2.1) ::
    match x.2.2 with
    | some q => [(.str "sequencing", seqJ q)]
    | none => [])

def contentJ (content : List (Nat × Dict Chan ChOutF × Option SeqSet)) : Py :=
  .dict (content.map (fun x => (Key.int x.1, contentEntryJ x)))

def posJ (p : ForgedPos) : Py :=
  .dict [(.str "sequencing", seqJ p.sequencing), (.str "type", .str (if p.isSub then "subsequence" else "element")),
    (.str "content", contentJ p.content)]

/-- the nested dictionary `Sequence.forge` returns -/
def forgeJ (out : List (Nat × ForgedPos)) : Py := .dict (out.map (fun x => (Key.int x.1, posJ x.2)))

/-- the result validates against the published schema -/
def schemaValid (out : List (Nat × ForgedPos)) : Prop := fsSchema (forgeJ out) = true

instance (out : List (Nat × ForgedPos)) : Decidable (schemaValid out) := by unfold schemaValid; infer_instance

/-! ### the pieces validate -/

theorem seqJ_ok (q : SeqSet) : seqTableSch (seqJ q) = true := by
  simp [seqTableSch, seqJ, dictOk, kOptStr, Py.isInt, Key.isStr]

/-- a one-type-key dictionary schema `{K: V}`: every pair accepted, at least one pair -/
theorem dictOk_single (k : KeySch) (v : Py → Bool) (hk : k.optional = false) (kvs : List (Key × Py))
    (hall : ∀ kv ∈ kvs, k.accepts kv.1 = true ∧ v kv.2 = true) (hne : kvs ≠ []) :
    dictOk [(k, v)] (.dict kvs) = true := by
  simp only [dictOk, List.any_cons, List.any_nil, Bool.or_false, List.all_cons, List.all_nil, Bool.and_true, hk,
    Bool.false_or, Bool.and_eq_true, List.all_eq_true, List.any_eq_true]
  refine ⟨fun kv hkv => hall kv hkv, ?_⟩
  cases kvs with
  | nil => exact absurd rfl hne
  | cons kv rest => exact ⟨kv, by simp, hall kv (by simp)⟩

def goodArr (kv : Key × Py) : Prop := kv.1.isStr = true ∧ kv.2.isNd = true

theorem upsert_good (d : List (Key × Py)) (k : String) (n : Nat) (h : ∀ kv ∈ d, goodArr kv) :
    ∀ kv ∈ Dict.upsert d (.str k) (.ndarray n), goodArr kv := by
  induction d with
  | nil =>
    intro kv hkv
    simp only [Dict.upsert, List.mem_singleton] at hkv
    subst hkv
    exact ⟨rfl, rfl⟩
  | cons x xs ih =>
    obtain ⟨k', v'⟩ := x
    intro kv hkv
    unfold Dict.upsert at hkv
    split at hkv
    · simp only [List.mem_cons] at hkv
      rcases hkv with rfl | hkv
      · exact ⟨rfl, rfl⟩
      · exact h kv (by simp [hkv])
    · simp only [List.mem_cons] at hkv
      rcases hkv with rfl | hkv
      · exact h _ (by simp)
      · exact ih (fun kv hkv => h kv (by simp [hkv])) kv hkv

theorem g4_upsert_ne_nil {κ α : Type} [DecidableEq κ] (d : Dict κ α) (k : κ) (v : α) : Dict.upsert d k v ≠ [] := by
  cases d with
  | nil => simp [Dict.upsert]
  | cons x xs =>
    obtain ⟨k', v'⟩ := x
    unfold Dict.upsert
    split <;> simp

theorem withFlags_good (d : List (Key × Py)) (fl : Option (List Nat)) (h : ∀ kv ∈ d, goodArr kv) :
    ∀ kv ∈ withFlags d fl, goodArr kv := by
  cases fl with
  | none => exact h
  | some fl => exact upsert_good d "flags" fl.length h

theorem withFlags_ne_nil (d : List (Key × Py)) (fl : Option (List Nat)) (h : d ≠ []) : withFlags d fl ≠ [] := by
  cases fl with
  | none => exact h
  | some fl => exact g4_upsert_ne_nil _ _ _

/-- a forged blueprint channel validates as `{str: np.ndarray}` -/
theorem chanJ_forged_ok (f : Forged) (fl : Option (List Nat)) (wt : Bool) : chanSch (chanJ (.forged f fl wt)) = true := by
  unfold chanSch chanJ
  apply dictOk_single _ _ rfl
  · intro kv hkv
    have := withFlags_good _ fl (fun kv hkv => ?_) kv hkv
    · exact this
    · cases wt <;> simp at hkv <;> rcases hkv with rfl | rfl | rfl | rfl | rfl <;> exact ⟨rfl, rfl⟩
  · apply withFlags_ne_nil
    simp

/-- a raw-array channel validates as `{str: np.ndarray}` as soon as it holds an array -/
theorem chanJ_arrays_ok (a : Dict String (List Rat)) (fl : Option (List Nat)) (tm : Option (Nat × Rat)) (ha : a ≠ []) :
    chanSch (chanJ (.arrays a fl tm)) = true := by
  unfold chanSch chanJ
  have hg : ∀ kv ∈ withFlags (a.map (fun kv => (Key.str kv.1, Py.ndarray kv.2.length))) fl, goodArr kv := by
    apply withFlags_good
    intro kv hkv
    simp only [List.mem_map] at hkv
    obtain ⟨x, _, rfl⟩ := hkv
    exact ⟨rfl, rfl⟩
  have hn : withFlags (a.map (fun kv => (Key.str kv.1, Py.ndarray kv.2.length))) fl ≠ [] := by
    apply withFlags_ne_nil
    simpa using ha
  cases tm with
  | none => exact dictOk_single _ _ rfl _ hg hn
  | some p =>
    obtain ⟨n, q⟩ := p
    exact dictOk_single _ _ rfl _ (upsert_good _ "time" n hg) (g4_upsert_ne_nil _ _ _)

/-- every raw-array channel of the element holds at least one array (what `addArray` builds: it
    always stores 'wfm') -/
def RawNonempty (e : Element) : Prop := ∀ x ∈ e.chans, ∀ a sv, x.2.data = .arr a sv → a ≠ []

/-- the arrays of one forged element validate as `{Or(str, int): {str: np.ndarray}}` -/
theorem dataJ_ok (s : Sequence) (d f t : Bool) (e e' : Element) (arr : Dict Chan ChOut) (c : Dict Chan ChOutF)
    (h1 : delayedEl s d e = .ok e') (h2 : e'.getArrays t = .ok arr) (h3 : s.withFilters f arr = .ok c)
    (hne : e.chans ≠ []) (hraw : RawNonempty e) : dataSch (dataJ c) = true := by
  obtain ⟨hl, hall⟩ := element_output_frame s d f t e e' arr c h1 h2 h3
  unfold dataSch dataJ
  apply dictOk_single _ _ rfl
  · intro kv hkv
    simp only [List.mem_map] at hkv
    obtain ⟨x, hx, rfl⟩ := hkv
    obtain ⟨k, hk, rfl⟩ := List.getElem_of_mem hx
    refine ⟨by cases (c[k]).1 <;> rfl, ?_⟩
    obtain ⟨_, _, _, _, _, hb, ha, hbr⟩ := hall k (by omega) hk
    cases hdat : (e.chans[k]'(by omega)).2.data with
    | bp b =>
      obtain ⟨fg, fl, wt, ho⟩ := hb b hdat
      simp only [ho]
      exact chanJ_forged_ok fg fl wt
    | arr a sv =>
      obtain ⟨a', fl, tm, ho, hkeys⟩ := ha a sv hdat
      simp only [ho]
      apply chanJ_arrays_ok
      have hane : a ≠ [] := hraw _ (List.getElem_mem _) a sv hdat
      intro h0
      subst h0
      cases a with
      | nil => exact hane rfl
      | cons _ _ => simp [Dict.keys] at hkeys
    | broken => exact absurd hdat hbr
  · intro h0
    have : c.length = 0 := by simpa using congrArg List.length h0
    have : e.chans.length = 0 := by omega
    exact hne (List.eq_nil_of_length_eq_zero this)

theorem contentEntryJ_ok (x : Nat × Dict Chan ChOutF × Option SeqSet) (h : dataSch (dataJ x.2.1) = true) :
    contentEntrySch (contentEntryJ x) = true := by
  unfold contentEntrySch contentEntryJ
  cases hq : x.2.2 with
  | none => simp [dictOk, kLit, kOptLit, h]
  | some q =>
    have := seqJ_ok q
    simp [dictOk, kLit, kOptLit, h, this]

theorem posJ_ok (p : ForgedPos) (h : contentSch (contentJ p.content) = true) : posSch (posJ p) = true := by
  unfold posSch posJ
  have := seqJ_ok p.sequencing
  cases hs : p.isSub <;> simp [dictOk, kLit, h, this, Py.isOneOf]

end BB.FsSchema
