/-
  BB.Proofs.G7Cond — how much the compensation can amplify: `|H(f_k)|⁻¹` on the fftfreq grid.
  LP: `|H|⁻² = 1 + a²`, HP (away from DC): `|H|⁻² = 1 + 1/a²`, `a = 2π·f_k/f_cut`; with
  `SR/N ≤ |f_k| ≤ SR/2` this bounds the amplification per bin and per order.
-/
import BB.Proofs.RC
import BB.Proofs.G7DFT

namespace BB.G7
open ZMod Complex ComplexConjugate BB.Gen.Real BB.DFT BB.RC
variable {N : ℕ} [NeZero N]

omit [NeZero N] in
/-- `|fftfreq index| ≤ N/2`, and `≥ 1` away from DC -/
theorem fftIdx_bounds (j : ℕ) (hj : j < N) :
    (j ≠ 0 → 1 ≤ (fftIdx N j) ^ 2) ∧ 4 * (fftIdx N j) ^ 2 ≤ (N : ℤ) ^ 2 := by
  unfold fftIdx
  constructor
  · intro h0
    split
    · have : (1 : ℤ) ≤ j := by omega
      nlinarith
    · have : (j : ℤ) - N ≤ -1 := by omega
      nlinarith
  · split
    · rename_i h
      have h1 : (0 : ℤ) ≤ j := by omega
      have h2 : 2 * (j : ℤ) ≤ N := by omega
      nlinarith
    · rename_i h
      have h1 : (j : ℤ) - N ≤ 0 := by omega
      have h2 : -(N : ℤ) ≤ 2 * ((j : ℤ) - N) := by omega
      nlinarith

/-- `(SR/N)² ≤ f_k²` away from DC and `f_k² ≤ (SR/2)²` -/
theorem freq_sq_bounds (SR : ℝ) (k : ZMod N) :
    (k ≠ 0 → (SR / N) ^ 2 ≤ (freq N SR k) ^ 2) ∧ (freq N SR k) ^ 2 ≤ (SR / 2) ^ 2 := by
  have hN : (0 : ℝ) < N := by exact_mod_cast Nat.pos_of_ne_zero (NeZero.ne N)
  obtain ⟨b1, b2⟩ := fftIdx_bounds (N := N) k.val (ZMod.val_lt k)
  have e : (freq N SR k) ^ 2 = ((fftIdx N k.val : ℤ) : ℝ) ^ 2 * (SR / N) ^ 2 := by
    unfold freq; field_simp
  have hs : 0 ≤ (SR / N) ^ 2 := sq_nonneg _
  constructor
  · intro hk
    have hv : k.val ≠ 0 := fun h => hk ((ZMod.val_eq_zero k).mp h)
    have h1 : (1 : ℝ) ≤ ((fftIdx N k.val : ℤ) : ℝ) ^ 2 := by exact_mod_cast b1 hv
    rw [e]; nlinarith
  · have h2 : 4 * ((fftIdx N k.val : ℤ) : ℝ) ^ 2 ≤ (N : ℝ) ^ 2 := by exact_mod_cast b2
    rw [e]
    have : (SR / 2) ^ 2 = (N : ℝ) ^ 2 / 4 * (SR / N) ^ 2 := by field_simp; ring
    rw [this]
    apply mul_le_mul_of_nonneg_right _ hs
    linarith

omit [NeZero N] in
/-- LP: `|H(f_k)|⁻² = 1 + (2π f_k/f_cut)²` -/
theorem baseLP_inv_normSq (SR fc : ℝ) (k : ZMod N) :
    Complex.normSq (baseLP SR fc k)⁻¹ = 1 + (2 * Real.pi * freq N SR k * (1 / fc)) ^ 2 := by
  unfold baseLP
  rw [rcLP_value, one_div, inv_inv, normSq_one_add_I_mul]

/-- HP away from DC: `|H(f_k)|⁻² = 1 + 1/(2π f_k/f_cut)²` -/
theorem baseHP_inv_normSq (SR fc DCgain : ℝ) (hSR : SR ≠ 0) (hfc : fc ≠ 0) (k : ZMod N) (hk : k ≠ 0) :
    Complex.normSq (baseHP SR fc DCgain k)⁻¹ = 1 + 1 / (2 * Real.pi * freq N SR k * (1 / fc)) ^ 2 := by
  rw [baseHP_value SR fc DCgain hSR hfc k hk, rcHP_value, map_inv₀, (hp_re_normSq _).2]
  have ha : (2 * Real.pi * freq N SR k * (1 / fc)) ≠ 0 := by
    have hpi : (2 * Real.pi : ℝ) ≠ 0 := by positivity
    exact mul_ne_zero (mul_ne_zero hpi (freq_ne_zero SR hSR k hk)) (one_div_ne_zero hfc)
  have hf : freq N SR k ≠ 0 := freq_ne_zero SR hSR k hk
  field_simp
  ring

/-- LP: the compensation amplifies a bin by at most `√(1 + (π·SR/f_cut)²)` per order -/
theorem baseLP_inv_norm_le (SR fc : ℝ) (k : ZMod N) :
    ‖(baseLP SR fc k)⁻¹‖ ≤ Real.sqrt (1 + (Real.pi * SR / fc) ^ 2) := by
  apply Real.le_sqrt_of_sq_le
  rw [Complex.sq_norm, baseLP_inv_normSq]
  have hb := (freq_sq_bounds (N := N) SR k).2
  have : (2 * Real.pi * freq N SR k * (1 / fc)) ^ 2 = (freq N SR k) ^ 2 * (2 * Real.pi * (1 / fc)) ^ 2 := by ring
  rw [this]
  have e2 : (Real.pi * SR / fc) ^ 2 = (SR / 2) ^ 2 * (2 * Real.pi * (1 / fc)) ^ 2 := by ring
  rw [e2]
  have := mul_le_mul_of_nonneg_right hb (sq_nonneg (2 * Real.pi * (1 / fc)))
  linarith

/-- HP, every bin but DC: the compensation amplifies a bin by at most
    `√(1 + (f_cut·N/(2π·SR))²)` per order -/
theorem baseHP_inv_norm_le (SR fc DCgain : ℝ) (hSR : SR ≠ 0) (hfc : fc ≠ 0) (k : ZMod N) (hk : k ≠ 0) :
    ‖(baseHP SR fc DCgain k)⁻¹‖ ≤ Real.sqrt (1 + (fc * N / (2 * Real.pi * SR)) ^ 2) := by
  apply Real.le_sqrt_of_sq_le
  rw [Complex.sq_norm, baseHP_inv_normSq SR fc DCgain hSR hfc k hk]
  have hN : (0 : ℝ) < N := by exact_mod_cast Nat.pos_of_ne_zero (NeZero.ne N)
  have hb := (freq_sq_bounds (N := N) SR k).1 hk
  have hf : freq N SR k ≠ 0 := freq_ne_zero SR hSR k hk
  have hpi : (0 : ℝ) < Real.pi := Real.pi_pos
  have hq : 0 < (SR / N) ^ 2 := by positivity
  have hf2 : 0 < (freq N SR k) ^ 2 := by positivity
  have e1 : 1 / (2 * Real.pi * freq N SR k * (1 / fc)) ^ 2 = (fc / (2 * Real.pi)) ^ 2 * (1 / (freq N SR k) ^ 2) := by
    field_simp
  have e2 : (fc * N / (2 * Real.pi * SR)) ^ 2 = (fc / (2 * Real.pi)) ^ 2 * (1 / (SR / N) ^ 2) := by
    field_simp
  rw [e1, e2]
  have h3 : 1 / (freq N SR k) ^ 2 ≤ 1 / (SR / N) ^ 2 := one_div_le_one_div_of_le hq hb
  have := mul_le_mul_of_nonneg_left h3 (sq_nonneg (fc / (2 * Real.pi)))
  linarith

end BB.G7
