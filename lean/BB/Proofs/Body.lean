/-
  BB.Proofs.Body — forging, durations and points do not depend on segment names: they factor
  through the per-segment records with the name erased (`Seg.body`).  Consequences: `copy()`,
  `+` and renumbering never change what is forged.
-/
import BB.Proofs.Forge

namespace BB
open BP

theorem body_fields {x y : Seg} (h : Seg.body x = Seg.body y) :
    x.fn = y.fn ∧ x.args = y.args ∧ x.dur = y.dur ∧ x.m1 = y.m1 ∧ x.m2 = y.m2 := by
  simp only [Seg.body, Seg.mk.injEq, true_and] at h
  exact h

theorem resolveGo_body (a b : List Seg) (el : ℚ) (h : a.map Seg.body = b.map Seg.body) :
    resolveGo a el = resolveGo b el := by
  induction a generalizing b el with
  | nil => cases b with
    | nil => rfl
    | cons y ys => simp at h
  | cons x xs ih =>
    cases b with
    | nil => simp at h
    | cons y ys =>
      simp only [List.map_cons, List.cons.injEq] at h
      obtain ⟨hf, ha, hd, _, _⟩ := body_fields h.1
      simp only [resolveGo, hf, ha, hd]
      split
      · split
        · rw [ih ys _ h.2]
        · rfl
      · split
        · rw [ih ys _ h.2]
        · rfl

theorem segMarks_body (sr : ℚ) (a b : List Seg) (sts : List ℕ) (h : a.map Seg.body = b.map Seg.body) :
    segMarks sr (·.m1) a sts = segMarks sr (·.m1) b sts ∧ segMarks sr (·.m2) a sts = segMarks sr (·.m2) b sts := by
  induction a generalizing b sts with
  | nil => cases b with
    | nil => exact ⟨rfl, rfl⟩
    | cons y ys => simp at h
  | cons x xs ih =>
    cases b with
    | nil => simp at h
    | cons y ys =>
      simp only [List.map_cons, List.cons.injEq] at h
      obtain ⟨_, _, _, h1, h2⟩ := body_fields h.1
      cases sts with
      | nil => exact ⟨rfl, rfl⟩
      | cons st sts =>
        obtain ⟨i1, i2⟩ := ih ys sts h.2
        simp only [segMarks, h1, h2, i1, i2, and_self]

theorem mkBlocks_body' (sr : ℚ) (a b : List Seg) (ns : List ℕ) (h : a.map Seg.body = b.map Seg.body) :
    mkBlocks sr a ns = mkBlocks sr b ns := by
  induction a generalizing b ns with
  | nil => cases b with
    | nil => rfl
    | cons y ys => simp at h
  | cons x xs ih =>
    cases b with
    | nil => simp at h
    | cons y ys =>
      simp only [List.map_cons, List.cons.injEq] at h
      obtain ⟨hf, ha, _, _, _⟩ := body_fields h.1
      cases ns with
      | nil => rfl
      | cons n ns => simp only [mkBlocks, hf, ha, ih ys ns h.2]

theorem badSpecial_body (a b : BP) (h : a.segs.map Seg.body = b.segs.map Seg.body) :
    badSpecial a = badSpecial b := by
  unfold badSpecial
  have : a.segs.map (fun s => s.fn) = b.segs.map (fun s => s.fn) := by
    have := congrArg (List.map (fun s : Seg => s.fn)) h
    simpa [List.map_map, Function.comp_def, Seg.body] using this
  have e : ∀ l : List Seg, l.any (fun s => s.fn.special && !s.fn.isWait)
      = (l.map (fun s => s.fn)).any (fun f => f.special && !f.isWait) := by
    intro l; simp [List.any_map, Function.comp_def]
  rw [e, e, this]

/-- forging depends on the blueprint only through the name-erased records, the absolute markers
    and the sample rate -/
theorem forgeBP_body (a b : BP) (h : a.segs.map Seg.body = b.segs.map Seg.body)
    (h1 : a.marker1 = b.marker1) (h2 : a.marker2 = b.marker2) (hs : a.SR = b.SR) :
    forgeBP a = forgeBP b := by
  unfold forgeBP
  rw [hs]
  have hr : a.resolveWaits = b.resolveWaits := resolveGo_body _ _ _ h
  rw [hr, badSpecial_body a b h]
  have has : ∀ sr ns, assemble a sr ns = assemble b sr ns := by
    intro sr ns
    simp only [assemble, h1, h2, mkBlocks_body' sr _ _ ns h, (segMarks_body sr _ _ _ h).1,
      (segMarks_body sr _ _ _ h).2]
  split
  · split
    · rfl
    · split
      · rfl
      · simp only [has]
  · rfl

theorem duration_body (a b : BP) (h : a.segs.map Seg.body = b.segs.map Seg.body) :
    a.duration = b.duration := by
  unfold BP.duration
  rw [show a.resolveWaits = b.resolveWaits from resolveGo_body _ _ _ h]

theorem points_body (a b : BP) (h : a.segs.map Seg.body = b.segs.map Seg.body) (hs : a.SR = b.SR) :
    a.points = b.points := by
  unfold BP.points
  rw [hs, show a.resolveWaits = b.resolveWaits from resolveGo_body _ _ _ h]

/-! ### copy and + change names only -/

theorem copy_body (b : BP) : b.copy.segs.map Seg.body = b.segs.map Seg.body := by
  unfold BP.copy
  simp only [renumber_body, List.map_map]
  apply List.map_congr_left
  intro s _
  simp [Function.comp, Seg.body]

/-- a copy forges exactly like its original -/
theorem forge_copy (b : BP) : forgeBP b.copy = forgeBP b :=
  forgeBP_body _ _ (copy_body b) rfl rfl rfl

theorem duration_copy (b : BP) : b.copy.duration = b.duration := duration_body _ _ (copy_body b)
theorem points_copy (b : BP) : b.copy.points = b.points := points_body _ _ (copy_body b) rfl

theorem add_body (a b : BP) : (a.add b).segs.map Seg.body = (a.segs ++ b.segs).map Seg.body := by
  unfold BP.add
  simp only [renumber_body, List.map_map]
  apply List.map_congr_left
  intro s _
  simp [Function.comp, Seg.body]

end BB
