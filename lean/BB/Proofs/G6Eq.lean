/-
  BB.Proofs.G6Eq — more about Python `dict.__eq__` on the model's insertion-ordered dictionaries:
  equal dictionaries are permutations of one another (value by value), `==`-equal dictionaries
  answer every look-up alike, and `mapM` over a permuted list succeeds alike.
-/
import BB.Proofs.DictEq

namespace BB

theorem mapM_cons_ok_iff {α β : Type} (f : α → Except Err β) (a : α) (t : List α) (r : List β) :
    (a :: t).mapM f = .ok r ↔ ∃ b bs, f a = .ok b ∧ t.mapM f = .ok bs ∧ r = b :: bs := by
  rw [mapM_cons_eq]
  cases hfa : f a with
  | error e => simp
  | ok b =>
    cases ht : t.mapM f with
    | error e => simp
    | ok bs =>
      simp only [Except.ok.injEq]
      constructor
      · intro h; exact ⟨b, bs, rfl, rfl, h.symm⟩
      · rintro ⟨b', bs', hb, hbs, rfl⟩; rw [hb, hbs]

theorem mapM_nil_ok_iff {α β : Type} (f : α → Except Err β) (r : List β) :
    ([] : List α).mapM f = .ok r ↔ r = [] := by
  simp only [List.mapM_nil, pure, Except.pure, Except.ok.injEq]
  exact eq_comm

/-- `mapM` over a permuted list succeeds alike, with permuted results -/
theorem mapM_perm_ok {α β : Type} (f : α → Except Err β) {l l' : List α} (h : l.Perm l') :
    ∀ r, l.mapM f = .ok r → ∃ r', l'.mapM f = .ok r' ∧ r.Perm r' := by
  induction h with
  | nil => intro r hr; exact ⟨r, hr, List.Perm.refl _⟩
  | cons x _ ih =>
    intro r hr
    obtain ⟨b, bs, hb, hbs, rfl⟩ := (mapM_cons_ok_iff f _ _ _).mp hr
    obtain ⟨r', hr', hp⟩ := ih bs hbs
    exact ⟨b :: r', (mapM_cons_ok_iff f _ _ _).mpr ⟨b, r', hb, hr', rfl⟩, hp.cons b⟩
  | swap x y l =>
    intro r hr
    obtain ⟨b, bs, hb, hbs, rfl⟩ := (mapM_cons_ok_iff f _ _ _).mp hr
    obtain ⟨c, cs, hc, hcs, rfl⟩ := (mapM_cons_ok_iff f _ _ _).mp hbs
    refine ⟨c :: b :: cs, ?_, List.Perm.swap _ _ _⟩
    exact (mapM_cons_ok_iff f _ _ _).mpr ⟨c, _, hc, (mapM_cons_ok_iff f _ _ _).mpr ⟨b, cs, hb, hcs, rfl⟩, rfl⟩
  | trans _ _ ih1 ih2 =>
    intro r hr
    obtain ⟨r1, hr1, hp1⟩ := ih1 r hr
    obtain ⟨r2, hr2, hp2⟩ := ih2 r1 hr1
    exact ⟨r2, hr2, hp1.trans hp2⟩

/-- `mapM` of pointwise equal functions over lists related by a map -/
theorem mapM_map_congr {α β γ : Type} (f : α → Except Err γ) (f' : β → Except Err γ) (g : α → β) (l : List α)
    (h : ∀ x ∈ l, f' (g x) = f x) : (l.map g).mapM f' = l.mapM f := by
  induction l with
  | nil => rfl
  | cons a t ih =>
    rw [List.map_cons, mapM_cons_eq, mapM_cons_eq, h a (by simp), ih (fun x hx => h x (by simp [hx]))]

theorem mapM_congr_mem {α γ : Type} (f f' : α → Except Err γ) (l : List α)
    (h : ∀ x ∈ l, f' x = f x) : l.mapM f' = l.mapM f := by
  have := mapM_map_congr f f' id l h
  simpa using this

namespace Dict
variable {κ α : Type} [DecidableEq κ]

theorem get?_eq_none_iff (d : Dict κ α) (k : κ) : get? d k = none ↔ k ∉ keys d := by
  rw [← get?_isSome_iff]
  cases get? d k <;> simp

omit [DecidableEq κ] in
theorem wf_nodup {d : Dict κ α} (h : WF d) : d.Nodup :=
  List.Pairwise.of_map (fun p : κ × α => p.1) (fun _ _ hne he => hne (by rw [he])) h

omit [DecidableEq κ] in
theorem mem_keys_of_mem {d : Dict κ α} {k : κ} {v : α} (h : (k, v) ∈ d) : k ∈ keys d :=
  List.mem_map.mpr ⟨(k, v), h, rfl⟩

omit [DecidableEq κ] in
theorem length_eq_of_keys_iff {β : Type} {a : Dict κ α} {b : Dict κ β} (ha : WF a) (hb : WF b)
    (h : ∀ k, k ∈ keys a ↔ k ∈ keys b) : a.length = b.length := by
  have hp : (keys a).Perm (keys b) := (List.perm_ext_iff_of_nodup ha hb).mpr h
  simpa [keys] using hp.length_eq

/-- dictionaries equal under `==` answer every look-up alike -/
theorem eqBy_beq_get? [DecidableEq α] {a b : Dict κ α} (ha : WF a) (hb : WF b)
    (h : eqBy (· == ·) a b = true) : ∀ k, get? a k = get? b k := by
  intro k
  cases hk : get? a k with
  | some v =>
    obtain ⟨w, hw, hvw⟩ := ((eqBy_iff _ ha).mp h).2 k v hk
    simp only [beq_iff_eq] at hvw
    rw [hw, hvw]
  | none =>
    symm
    rw [get?_eq_none_iff] at hk ⊢
    exact fun hm => hk ((eqBy_keys _ ha hb h k).mp hm)

/-- … and conversely -/
theorem eqBy_of_get?_eq [DecidableEq α] {a b : Dict κ α} (ha : WF a) (hb : WF b)
    (h : ∀ k, get? a k = get? b k) : eqBy (· == ·) a b = true := by
  refine (eqBy_iff _ ha).mpr ⟨length_eq_of_keys_iff ha hb (fun k => ?_), fun k v hk => ⟨v, by rw [← h k, hk], by simp⟩⟩
  rw [← get?_isSome_iff, ← get?_isSome_iff, h k]

/-- **equal dictionaries are permutations of one another**: the second, reordered to the key
    order of the first, carries related values -/
theorem eqBy_perm (f : α → α → Bool) {a b : Dict κ α} (ha : WF a) (hb : WF b) (h : eqBy f a b = true) :
    ∃ g : κ × α → α, (a.map (fun p => (p.1, g p))).Perm b ∧ ∀ p ∈ a, f p.2 (g p) = true := by
  obtain ⟨hl, hall⟩ := (eqBy_iff f ha).mp h
  refine ⟨fun p => (get? b p.1).getD p.2, ?_, ?_⟩
  · have hk : keys (a.map (fun p => (p.1, (get? b p.1).getD p.2))) = keys a := by
      simp [keys, List.map_map, Function.comp_def]
    have hwf' : WF (a.map (fun p => (p.1, (get? b p.1).getD p.2))) := by unfold WF; rw [hk]; exact ha
    refine (List.perm_ext_iff_of_nodup (wf_nodup hwf') (wf_nodup hb)).mpr ?_
    rintro ⟨k, w⟩
    constructor
    · intro hm
      obtain ⟨⟨k', v⟩, hp, he⟩ := List.mem_map.mp hm
      simp only [Prod.mk.injEq] at he
      obtain ⟨rfl, he⟩ := he
      obtain ⟨w', hw', _⟩ := hall k' v (get?_eq_some_of_mem ha k' v hp)
      rw [hw'] at he
      simp only [Option.getD_some] at he
      subst he
      exact mem_of_get?_eq_some k' w' hw'
    · intro hm
      have hkb : k ∈ keys b := mem_keys_of_mem hm
      have hka : k ∈ keys a := (eqBy_keys f ha hb h k).mp hkb
      obtain ⟨p, hp, rfl⟩ := List.mem_map.mp hka
      refine List.mem_map.mpr ⟨p, hp, ?_⟩
      rw [get?_eq_some_of_mem hb p.1 w hm]
      rfl
  · rintro ⟨k, v⟩ hp
    obtain ⟨w', hw', hf⟩ := hall k v (get?_eq_some_of_mem ha k v hp)
    simp only [hw', Option.getD_some]
    exact hf

/-- a function that cannot tell related values apart sees equal dictionaries as permutations -/
theorem eqBy_map_perm {β : Type} (f : α → α → Bool) {a b : Dict κ α} (ha : WF a) (hb : WF b)
    (h : eqBy f a b = true) (φ : κ × α → β)
    (hφ : ∀ k x y, (k, x) ∈ a → (k, y) ∈ b → f x y = true → φ (k, x) = φ (k, y)) :
    (a.map φ).Perm (b.map φ) := by
  obtain ⟨g, hp, hg⟩ := eqBy_perm f ha hb h
  have : a.map φ = (a.map (fun p => (p.1, g p))).map φ := by
    rw [List.map_map]
    apply List.map_congr_left
    rintro ⟨k, x⟩ hm
    exact hφ k x (g (k, x)) hm (hp.mem_iff.mp (List.mem_map.mpr ⟨(k, x), hm, rfl⟩)) (hg _ hm)
  rw [this]
  exact hp.map φ

/-- `==`-equal dictionaries are permutations of one another -/
theorem eqBy_beq_perm [DecidableEq α] {a b : Dict κ α} (ha : WF a) (hb : WF b)
    (h : eqBy (· == ·) a b = true) : a.Perm b := by
  have := eqBy_map_perm (· == ·) ha hb h id (by
    intro k x y _ _ hxy
    simp only [beq_iff_eq] at hxy
    rw [hxy])
  simpa using this

/-- reflexivity needs the value comparison to be reflexive on the stored values only -/
theorem eqBy_refl_mem (f : α → α → Bool) {a : Dict κ α} (ha : WF a) (hf : ∀ x ∈ vals a, f x x = true) :
    eqBy f a a = true :=
  (eqBy_iff f ha).mpr ⟨rfl, fun k v hk =>
    ⟨v, hk, hf v (List.mem_map.mpr ⟨(k, v), mem_of_get?_eq_some k v hk, rfl⟩)⟩⟩

/-- symmetry needs the value comparison to be symmetric on the stored values only -/
theorem eqBy_symm_mem (f : α → α → Bool) {a b : Dict κ α} (ha : WF a) (hb : WF b)
    (hf : ∀ x ∈ vals a, ∀ y ∈ vals b, f x y = true → f y x = true)
    (h : eqBy f a b = true) : eqBy f b a = true := by
  obtain ⟨hl, hall⟩ := (eqBy_iff f ha).mp h
  refine (eqBy_iff f hb).mpr ⟨hl.symm, fun k w hk => ?_⟩
  have hkb : k ∈ keys b := (get?_isSome_iff b k).mp (by simp [hk])
  have hka : k ∈ keys a := (eqBy_keys f ha hb h k).mp hkb
  obtain ⟨v, hv⟩ := Option.isSome_iff_exists.mp ((get?_isSome_iff a k).mpr hka)
  obtain ⟨w', hw', hfw⟩ := hall k v hv
  rw [hk] at hw'
  cases hw'
  exact ⟨v, hv, hf v (List.mem_map.mpr ⟨(k, v), mem_of_get?_eq_some k v hv, rfl⟩) w
    (List.mem_map.mpr ⟨(k, w), mem_of_get?_eq_some k w hk, rfl⟩) hfw⟩

theorem mem_vals_of_get? {d : Dict κ α} {k : κ} {v : α} (h : get? d k = some v) : v ∈ vals d :=
  List.mem_map.mpr ⟨(k, v), mem_of_get?_eq_some k v h, rfl⟩

end Dict
end BB
