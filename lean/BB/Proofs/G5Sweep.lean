/-
  BB.Proofs.G5Sweep — helper lemmas for property C17 (the sweep tools of `broadbean.tools`):
  sequences filled position by position, the loop of `makeLinearlyVaryingSequence`, the key set
  of `makeVaryingSequence`, the fold of `+` inside `repeatAndVarySequence`.
-/
import BB.Proofs.Add
import BB.Proofs.Sweep
import BB.Proofs.G5Add

namespace BB.G5
open BB BB.Tools BB.Sequence

theorem oneTo_succ (n : ℕ) : oneTo (n + 1) = oneTo n ++ [((n + 1 : ℕ) : ℤ)] := by
  unfold oneTo
  rw [List.range_succ, List.map_append]
  simp

theorem addElement_toExcept_ok (s s' : Sequence) (pos : ℤ) (e : Element)
    (h : (s.addElement pos e).toExcept = .ok s') :
    ∃ m, e.validate = .ok m ∧
      s' = { s with data := Dict.upsert s.data pos (.el { e with cache := some m })
                    sequencing := Dict.upsert s.sequencing pos defaultSeqEl } := by
  unfold Sequence.addElement at h
  cases hv : e.validate with
  | error er => rw [hv] at h; simp [Res.toExcept] at h
  | ok m =>
    rw [hv] at h
    simp only [Res.toExcept, Except.ok.injEq] at h
    exact ⟨m, rfl, h.symm⟩

/-- a sequence filled at positions 1..k in this order, every sequencing entry the default one -/
def Filled (s : Sequence) (k : ℕ) : Prop :=
  Dict.keys s.data = oneTo k ∧ s.sequencing = (oneTo k).map (fun p => (p, defaultSeqEl))

theorem filled_empty (specs : Dict String Spec) : Filled { awgspecs := specs } 0 := ⟨rfl, rfl⟩

theorem succ_not_mem_oneTo (k : ℕ) : ((k + 1 : ℕ) : ℤ) ∉ oneTo k := by
  rw [mem_oneTo]; push_cast; omega

theorem filled_addElement (s s' : Sequence) (k : ℕ) (e : Element) (hf : Filled s k)
    (h : (s.addElement ((k + 1 : ℕ) : ℤ) e).toExcept = .ok s') :
    Filled s' (k + 1) ∧ s'.awgspecs = s.awgspecs ∧ s'.name = s.name ∧
    (∀ p, p ≠ ((k + 1 : ℕ) : ℤ) → Dict.get? s'.data p = Dict.get? s.data p) ∧
    ∃ m, e.validate = .ok m ∧ Dict.get? s'.data ((k + 1 : ℕ) : ℤ) = some (.el { e with cache := some m }) := by
  obtain ⟨m, hv, rfl⟩ := addElement_toExcept_ok s s' _ e h
  have hk1 : ((k + 1 : ℕ) : ℤ) ∉ Dict.keys s.data := by rw [hf.1]; exact succ_not_mem_oneTo k
  have hk2 : ((k + 1 : ℕ) : ℤ) ∉ Dict.keys s.sequencing := by
    rw [hf.2]; simp only [Dict.keys, List.map_map, Function.comp_def, List.map_id']
    exact succ_not_mem_oneTo k
  refine ⟨⟨?_, ?_⟩, rfl, rfl, fun p hp => Dict.get?_upsert_other _ _ _ _ hp, m, hv, Dict.get?_upsert_self _ _ _⟩
  · simp only
    rw [Dict.keys_upsert_of_not_mem _ _ _ hk1, hf.1, oneTo_succ]
  · simp only
    rw [Dict.upsert_fresh _ _ _ hk2, hf.2, oneTo_succ, List.map_append]
    rfl

/-- the loop of `makeLinearlyVaryingSequence`: starting from a sequence filled up to `ind`, it fills
    positions `ind+1 .. ind+len(vals)`, position `ind+j+1` with the base element changed to the
    `j`-th value (each change accepted, each changed element valid) -/
theorem linLoop_spec (base : Element) (ch : Chan) (name : String) (arg : Val) (vals : List ℚ) (ind : ℕ)
    (s s' : Sequence) (hf : Filled s ind) (h : linLoop base ch name arg vals ind s = .ok s') :
    Filled s' (ind + vals.length) ∧ s'.awgspecs = s.awgspecs ∧ s'.name = s.name ∧
    ∀ j (hj : j < vals.length), ∃ m,
      (applyChange base ch name arg (.num vals[j])).err = none ∧
      (applyChange base ch name arg (.num vals[j])).st.validate = .ok m ∧
      Dict.get? s'.data ((ind + j + 1 : ℕ) : ℤ) =
        some (.el { (applyChange base ch name arg (.num vals[j])).st with cache := some m }) := by
  induction vals generalizing ind s with
  | nil =>
    simp only [linLoop, Except.ok.injEq] at h
    subst h
    exact ⟨hf, rfl, rfl, fun j hj => by simp at hj⟩
  | cons v vs ih =>
    unfold linLoop at h
    cases hc : (applyChange base ch name arg (.num v)).toExcept with
    | error er => rw [hc] at h; cases h
    | ok e =>
      rw [hc] at h
      simp only at h
      have herr : (applyChange base ch name arg (.num v)).err = none ∧ e = (applyChange base ch name arg (.num v)).st := by
        unfold Res.toExcept at hc
        split at hc
        · cases hc
        · rename_i hn; cases hc; exact ⟨hn, rfl⟩
      cases ha : (s.addElement ((ind + 1 : ℕ) : ℤ) e).toExcept with
      | error er => rw [ha] at h; cases h
      | ok s1 =>
        rw [ha] at h
        simp only at h
        obtain ⟨hf1, hs1, hn1, hoth1, m, hv, hget1⟩ := filled_addElement s s1 ind e hf ha
        obtain ⟨hf2, hs2, hn2, hall⟩ := ih (ind + 1) s1 hf1 h
        refine ⟨?_, by rw [hs2, hs1], by rw [hn2, hn1], ?_⟩
        · have : ind + (v :: vs).length = ind + 1 + vs.length := by simp; omega
          rw [this]; exact hf2
        · intro j hj
          cases j with
          | zero =>
            refine ⟨m, herr.1, herr.2 ▸ hv, ?_⟩
            -- later steps write other positions; read the one written now through the key list
            have hkeep : ∀ (vs : List ℚ) (k : ℕ) (a b : Sequence), Filled a k → ind + 1 ≤ k →
                linLoop base ch name arg vs k a = .ok b →
                Dict.get? b.data ((ind + 1 : ℕ) : ℤ) = Dict.get? a.data ((ind + 1 : ℕ) : ℤ) := by
              intro vs
              induction vs with
              | nil => intro k a b _ _ hab; simp only [linLoop, Except.ok.injEq] at hab; subst hab; rfl
              | cons w ws ihw =>
                intro k a b hfa hk hab
                unfold linLoop at hab
                cases hc2 : (applyChange base ch name arg (.num w)).toExcept with
                | error er => rw [hc2] at hab; cases hab
                | ok e2 =>
                  rw [hc2] at hab
                  simp only at hab
                  cases ha2 : (a.addElement ((k + 1 : ℕ) : ℤ) e2).toExcept with
                  | error er => rw [ha2] at hab; cases hab
                  | ok a1 =>
                    rw [ha2] at hab
                    simp only at hab
                    obtain ⟨hfa1, _, _, hoth, _⟩ := filled_addElement a a1 k e2 hfa ha2
                    rw [ihw (k + 1) a1 b hfa1 (by omega) hab]
                    exact hoth _ (by push_cast; omega)
            simp only [Nat.add_zero, List.getElem_cons_zero]
            rw [hkeep vs (ind + 1) s1 s' hf1 (le_refl _) h, hget1, herr.2]
          | succ j =>
            obtain ⟨m', h1, h2, h3⟩ := hall j (by simpa using hj)
            refine ⟨m', by simpa using h1, by simpa using h2, ?_⟩
            have : ind + (j + 1) + 1 = ind + 1 + j + 1 := by omega
            rw [this]
            simpa using h3

/-! ### `makeVaryingSequence`: the key set -/

theorem addCopies_filled (base : Element) (n k : ℕ) (s s' : Sequence) (hf : Filled s k)
    (h : addCopies base n k s = .ok s') : Filled s' (k + n) ∧ s'.awgspecs = s.awgspecs := by
  induction n generalizing k s with
  | zero =>
    simp only [addCopies, Except.ok.injEq] at h
    subst h; exact ⟨hf, rfl⟩
  | succ n ih =>
    unfold addCopies at h
    cases ha : (s.addElement ((k + 1 : ℕ) : ℤ) base).toExcept with
    | error er => rw [ha] at h; cases h
    | ok s1 =>
      rw [ha] at h
      simp only at h
      obtain ⟨hf1, hs1, _⟩ := filled_addElement s s1 k base hf ha
      obtain ⟨hf2, hs2⟩ := ih (k + 1) s1 hf1 h
      have : k + (n + 1) = k + 1 + n := by omega
      rw [this]
      exact ⟨hf2, by rw [hs2, hs1]⟩

/-- an in-place edit of a stored element keeps the key list, the sequencing and the settings -/
theorem modifyElement_shape (s s' : Sequence) (pos : ℤ) (f : Element → Res Element)
    (h : (modifyElement s pos f).toExcept = .ok s') :
    Dict.keys s'.data = Dict.keys s.data ∧ s'.sequencing = s.sequencing ∧ s'.awgspecs = s.awgspecs ∧
      s'.name = s.name := by
  obtain ⟨e, he, _, rfl⟩ := modifyElement_ok s s' pos f h
  refine ⟨?_, rfl, rfl, rfl⟩
  exact Dict.keys_upsert_of_mem _ _ _ ((Dict.get?_isSome_iff _ _).mp (by simp [he]))

theorem applyVals_shape (v : Variation) (vals : List Val) (m : ℕ) (s s' : Sequence)
    (h : applyVals v vals m s = .ok s') :
    Dict.keys s'.data = Dict.keys s.data ∧ s'.sequencing = s.sequencing ∧ s'.awgspecs = s.awgspecs := by
  induction vals generalizing m s with
  | nil => simp only [applyVals, Except.ok.injEq] at h; subst h; exact ⟨rfl, rfl, rfl⟩
  | cons val rest ih =>
    unfold applyVals at h
    cases hm : (modifyElement s ((m + 1 : ℕ) : ℤ) (fun e => applyChange e v.chan v.name v.arg val)).toExcept with
    | error er => rw [hm] at h; cases h
    | ok s1 =>
      rw [hm] at h
      simp only at h
      obtain ⟨a1, a2, a3, _⟩ := modifyElement_shape s s1 _ _ hm
      obtain ⟨b1, b2, b3⟩ := ih (m + 1) s1 h
      exact ⟨b1.trans a1, b2.trans a2, b3.trans a3⟩

theorem applyVars_shape (vars : List Variation) (s s' : Sequence) (h : applyVars vars s = .ok s') :
    Dict.keys s'.data = Dict.keys s.data ∧ s'.sequencing = s.sequencing ∧ s'.awgspecs = s.awgspecs := by
  induction vars generalizing s with
  | nil => simp only [applyVars, Except.ok.injEq] at h; subst h; exact ⟨rfl, rfl, rfl⟩
  | cons v vs ih =>
    unfold applyVars at h
    cases hv : applyVals v v.vals 0 s with
    | error er => rw [hv] at h; cases h
    | ok s1 =>
      rw [hv] at h
      simp only at h
      obtain ⟨a1, a2, a3⟩ := applyVals_shape v v.vals 0 s s1 hv
      obtain ⟨b1, b2, b3⟩ := ih s1 h
      exact ⟨b1.trans a1, b2.trans a2, b3.trans a3⟩

/-! ### one step of `repeatAndVarySequence` -/

/-- the element at position `p` after one step: every variation addressed to `p` applied, in order,
    with its value for this step -/
def stepVaried (step : ℕ) (pv : List (ℤ × Variation)) (p : ℤ) (e : Element) : Element :=
  pv.foldl (fun e x => if x.1 = p then changed e x.2 (x.2.vals.getD step .none) else e) e

def stepEntry (step : ℕ) (pv : List (ℤ × Variation)) (p : ℤ) : Entry → Entry
  | .el e => .el (stepVaried step pv p e)
  | .sub x => .sub x

theorem applyStep_spec (step : ℕ) (pv : List (ℤ × Variation)) (s s' : Sequence)
    (h : applyStep step pv s = .ok s') :
    Dict.keys s'.data = Dict.keys s.data ∧ s'.sequencing = s.sequencing ∧ s'.awgspecs = s.awgspecs ∧
    ∀ p en, Dict.get? s.data p = some en → Dict.get? s'.data p = some (stepEntry step pv p en) := by
  induction pv generalizing s with
  | nil =>
    simp only [applyStep, Except.ok.injEq] at h
    subst h
    refine ⟨rfl, rfl, rfl, fun p en hp => ?_⟩
    cases en <;> exact hp
  | cons x rest ih =>
    obtain ⟨pos, v⟩ := x
    unfold applyStep at h
    cases hval : v.vals[step]? with
    | none => rw [hval] at h; cases h
    | some val =>
      rw [hval] at h
      simp only at h
      cases hm : (modifyElement s pos (fun e => applyChange e v.chan v.name v.arg val)).toExcept with
      | error er => rw [hm] at h; cases h
      | ok s1 =>
        rw [hm] at h
        simp only at h
        obtain ⟨a1, a2, a3, _⟩ := modifyElement_shape s s1 _ _ hm
        obtain ⟨e, he, _, hs1⟩ := modifyElement_ok s s1 pos _ hm
        obtain ⟨b1, b2, b3, b4⟩ := ih s1 h
        refine ⟨b1.trans a1, b2.trans a2, b3.trans a3, fun p en hp => ?_⟩
        have hgd : v.vals.getD step .none = val := by simp [List.getD, hval]
        by_cases hpp : p = pos
        · subst hpp
          rw [he] at hp
          cases hp
          have : Dict.get? s1.data p = some (.el (changed e v val)) := by
            rw [hs1]; exact Dict.get?_upsert_self _ _ _
          rw [b4 p _ this]
          simp only [stepEntry, stepVaried, List.foldl_cons, if_true, hgd]
        · have : Dict.get? s1.data p = some en := by
            rw [hs1]
            simp only
            rw [Dict.get?_upsert_other _ _ _ _ hpp]; exact hp
          rw [b4 p en this]
          have hne : ¬ pos = p := fun e => hpp e.symm
          cases en with
          | el e0 => simp only [stepEntry, stepVaried, List.foldl_cons, hne, if_false]
          | sub x => rfl

/-- the loop over the steps, as a list of varied copies folded with `+` -/
theorem repeatLoop_spec (seq : Sequence) (pv : List (ℤ × Variation)) (steps : List ℕ) (acc r : Sequence)
    (h : repeatLoop seq pv steps acc = .ok r) :
    ∃ temps : List Sequence, temps.length = steps.length ∧
      (∀ i (hi : i < steps.length) (hi' : i < temps.length), applyStep steps[i] pv seq.copy = .ok temps[i]) ∧
      temps.foldlM Sequence.add acc = .ok r := by
  induction steps generalizing acc with
  | nil =>
    simp only [repeatLoop, Except.ok.injEq] at h
    subst h
    exact ⟨[], rfl, fun i hi => by simp at hi, rfl⟩
  | cons st rest ih =>
    unfold repeatLoop at h
    cases ht : applyStep st pv seq.copy with
    | error er => rw [ht] at h; cases h
    | ok temp =>
      rw [ht] at h
      simp only at h
      cases ha : acc.add temp with
      | error er => rw [ha] at h; cases h
      | ok acc1 =>
        rw [ha] at h
        simp only at h
        obtain ⟨temps, hl, hall, hfold⟩ := ih acc1 h
        refine ⟨temp :: temps, by simp [hl], ?_, ?_⟩
        · intro i hi hi'
          cases i with
          | zero => simpa using ht
          | succ i => simpa using hall i (by simpa using hi) (by simpa using hi')
        · simp only [List.foldlM_cons, bind, Except.bind, ha]
          exact hfold

end BB.G5
