/-
  BB.Proofs.G11Elem — helper lemmas for C06 (G11):
  * `RawWF` (every raw-array channel holds a waveform and arrays of that waveform's length) is kept
    by `Element._applyDelays` (all arrays of a raw channel are padded alike);
  * the resolved durations of a delayed blueprint, read backwards (if the delayed blueprint
    resolves, so did the original, and the durations are `delay ++ original ++ tail`);
  * every element stored in a sequence the public API builds - at an element position or inside a
    subsequence - passed `validateDurations` when it was added.
-/
import BB.Proofs.G2Element
import BB.Proofs.G4Built
import BB.Proofs.G4Zero
import BB.Proofs.G4Frame
import BB.Proofs.Delay
import BB.Proofs.G1Wait
import Mathlib.Tactic.Linarith
import Mathlib.Tactic.Ring

namespace BB.G11
open BB BB.Element BB.G2 BB.BP

/-! ### raw arrays under `_applyDelays` -/

/-- helper (C06/C10 raw arrays): looking an array up in a padded raw channel gives the padded array -/
theorem get?_padAll (pre post : ℕ) (a : Dict String (List ℚ)) (key : String) :
    Dict.get? (Paths.padAll pre post a) key = (Dict.get? a key).map (padArr pre post) := by
  unfold Paths.padAll
  induction a with
  | nil => rfl
  | cons x xs ih =>
    unfold Dict.get? at *
    simp only [List.map_cons, List.find?_cons]
    by_cases hk : x.1 = key
    · simp [hk]
    · simp only [hk, decide_false]
      exact ih

/-- helper (C06): the waveform length of a padded raw channel is front + original + back -/
theorem arrLen_padAll (pre post : ℕ) (a : Dict String (List ℚ)) (w : List ℚ)
    (hw : Dict.get? a "wfm" = some w) : arrLen (Paths.padAll pre post a) = pre + arrLen a + post := by
  unfold arrLen
  rw [get?_padAll, hw]
  simp [padArr_length]

/-- padding every array of a well-formed raw channel alike keeps it well formed -/
theorem arrWF_padAll (pre post : ℕ) (a : Dict String (List ℚ)) (h : ArrWF a) :
    ArrWF (Paths.padAll pre post a) := by
  obtain ⟨⟨w, hw⟩, hall⟩ := h
  refine ⟨⟨padArr pre post w, by rw [get?_padAll, hw]; rfl⟩, ?_⟩
  intro p hp
  rw [arrLen_padAll pre post a w hw]
  unfold Paths.padAll at hp
  obtain ⟨q, hq, rfl⟩ := List.mem_map.mp hp
  simp only [padArr_length]
  rw [hall q hq]

/-- **`RawWF` is kept by `_applyDelays`** (accepted or refused) -/
theorem rawWF_applyDelays (e : Element) (ds : List ℚ) (h : RawWF e) : RawWF (e.applyDelays ds).st := by
  rcases g4_applyDelays_err_or_same e ds with herr | hsame
  · obtain ⟨m, sr, _, _, hlen, hl, hall⟩ := g4_applyDelays_getElem e ds herr
    intro ent hent a sv hd
    unfold Dict.vals at hent
    obtain ⟨p, hp, rfl⟩ := List.mem_map.mp hent
    obtain ⟨k, hk, rfl⟩ := List.getElem_of_mem hp
    obtain ⟨_, hde⟩ := hall k (by omega) hk (by omega)
    obtain ⟨hbp, harr, _⟩ := g4_dEnt_data _ _ _ _ _ hde
    have hmem : (e.chans[k]'(by omega)).2 ∈ Dict.vals e.chans :=
      List.mem_map_of_mem (List.getElem_mem _)
    cases hdat : (e.chans[k]'(by omega)).2.data with
    | bp b => rw [hbp b hdat] at hd; cases hd
    | arr a0 s0 =>
      rw [harr a0 s0 hdat] at hd
      simp only [ChData.arr.injEq] at hd
      rw [← hd.1]
      exact arrWF_padAll _ _ a0 (h _ hmem a0 s0 hdat)
    | broken =>
      exfalso
      obtain ⟨_, _, hnb⟩ := g4_dEnt_data _ _ _ _ _ hde
      exact hnb hdat
  · intro ent hent a sv hd
    rw [hsame] at hent
    exact h ent hent a sv hd

/-! ### the delayed blueprint, read backwards -/

/-- if the delayed segment list resolves, the original one did, and the resolved durations are
    the delay, the original durations, the tail -/
theorem delayed_resolve_inv (segs : List Seg) (delay maxdelay : ℚ) (ds' : List ℚ) (h0 : 0 ≤ delay)
    (h : resolveGo (delayedSegs segs delay maxdelay) 0 = .ok ds') :
    ∃ ds, resolveGo segs 0 = .ok ds ∧
      ds' = (if 0 < delay then [delay] else []) ++ ds ++ (if 0 < maxdelay - delay then [maxdelay - delay] else []) := by
  have hex : ∃ ds, resolveGo segs 0 = .ok ds := by
    unfold delayedSegs at h
    obtain ⟨da, dc, h1, _, _, _⟩ := resolveGo_append_inv _ _ 0 ds' h
    obtain ⟨dh, dm, h3, h4, _, _⟩ := resolveGo_append_inv _ _ 0 da h1
    have hsum : 0 + sumR dh = 0 + delay := by
      by_cases hp : 0 < delay
      · simp only [hp, if_true] at h3
        have hw : (delayHead delay).fn.isWait = true := by show Fn.waitSpecial.isWait = true; decide
        have hws : Fn.waitSpecial.isWait = true := by decide
        simp only [resolveGo, delayHead, sub_zero, hws, if_true] at h3
        have : ¬ delay < 0 := not_lt.mpr h0
        simp only [this, if_false, BP.consOk, Except.ok.injEq] at h3
        rw [← h3]; simp [sumR]
      · have hz : delay = 0 := le_antisymm (not_lt.mp hp) h0
        simp only [hp, if_false, resolveGo, Except.ok.injEq] at h3
        rw [← h3, hz]; simp [sumR]
    rw [hsum, resolveGo_shift segs 0 delay] at h4
    exact ⟨dm, h4⟩
  obtain ⟨ds, hds⟩ := hex
  refine ⟨ds, hds, ?_⟩
  have := delayed_resolve segs delay maxdelay ds hds h0
  rw [this] at h
  exact (Except.ok.inj h).symm

/-- the resolved durations of the delayed blueprint -/
theorem delayBP_resolve_inv (b : BP) (delay maxdelay : ℚ) (ds' : List ℚ) (h0 : 0 ≤ delay)
    (h : (delayBP b delay maxdelay).st.resolveWaits = .ok ds') :
    ∃ ds, b.resolveWaits = .ok ds ∧
      ds' = (if 0 < delay then [delay] else []) ++ ds ++ (if 0 < maxdelay - delay then [maxdelay - delay] else []) := by
  obtain ⟨_, hbody, _, _, _⟩ := delayBP_spec b delay maxdelay
  unfold BP.resolveWaits at h
  rw [resolveGo_body _ _ 0 hbody] at h
  exact delayed_resolve_inv b.segs delay maxdelay ds' h0 h

/-! ### whole-sample delays -/

/-- helper (C06, whole-sample delays): a whole number of samples at a positive rate is a non-negative time -/
theorem whole_nonneg (sr x : ℚ) (hsr : 0 < sr) (hx : ∃ n : ℕ, x * sr = n) : 0 ≤ x := by
  obtain ⟨n, hn⟩ := hx
  by_contra hneg
  have : x * sr < 0 := mul_neg_of_neg_of_pos (not_le.mp hneg) hsr
  have h0 : (0 : ℚ) ≤ n := by exact_mod_cast Nat.zero_le n
  linarith

/-- helper (C06, whole-sample delays): the difference of two whole-sample times `x ≤ y` is a whole number of samples -/
theorem whole_sub (sr x y : ℚ) (hsr : 0 < sr) (hx : ∃ n : ℕ, x * sr = n) (hy : ∃ n : ℕ, y * sr = n)
    (hle : x ≤ y) : ∃ n : ℕ, (y - x) * sr = n := by
  obtain ⟨D, hD⟩ := hx
  obtain ⟨M, hM⟩ := hy
  have hDM : D ≤ M := by
    have : x * sr ≤ y * sr := mul_le_mul_of_nonneg_right hle hsr.le
    rw [hD, hM] at this
    exact_mod_cast this
  refine ⟨M - D, ?_⟩
  rw [sub_mul, hD, hM]
  push_cast [Nat.cast_sub hDM]
  ring

/-! ### validated elements in API-built sequences -/

/-- helper (C06, subsequences): the elements `addSubSequence` stores are elements of the argument's store -/
theorem elementsOnly_mem (l : Dict Int Entry) (d : Dict Int Element) (h : Sequence.elementsOnly l = some d) :
    ∀ y ∈ d, (y.1, Entry.el y.2) ∈ l := by
  induction l generalizing d with
  | nil =>
    simp only [Sequence.elementsOnly, Option.some.injEq] at h
    subst h
    intro y hy; cases hy
  | cons x xs ih =>
    obtain ⟨p, en⟩ := x
    cases en with
    | el e =>
      simp only [Sequence.elementsOnly] at h
      cases hr : Sequence.elementsOnly xs with
      | none => rw [hr] at h; simp at h
      | some d0 =>
        rw [hr] at h
        simp only [Option.map_some, Option.some.injEq] at h
        subst h
        intro y hy
        rcases List.mem_cons.mp hy with rfl | hy
        · simp
        · exact List.mem_cons_of_mem _ (ih d0 hr y hy)
    | sub s => simp [Sequence.elementsOnly] at h

/-- every stored element - at an element position or inside a stored subsequence - validates -/
def InnerValidated (s : Sequence) : Prop :=
  ∀ x ∈ s.data, (∀ e, x.2 = .el e → ∃ m, e.validate = .ok m) ∧
    (∀ sub : SubSeq, x.2 = .sub sub → ∀ y ∈ sub.data, ∃ m, y.2.validate = .ok m)

/-- helper (C06): validation does not read the cache -/
theorem validate_with_cache (e : Element) (c : Option (Val × ℚ)) :
    Element.validate { e with cache := c } = e.validate := rfl

/-- helper (C06): copying an entry (`+`) keeps its elements, hence their validation -/
theorem innerValidated_copyEntry (en : Entry)
    (h : (∀ e, en = .el e → ∃ m, e.validate = .ok m) ∧
      (∀ sub : SubSeq, en = .sub sub → ∀ y ∈ sub.data, ∃ m, y.2.validate = .ok m)) :
    (∀ e, Sequence.copyEntry en = .el e → ∃ m, e.validate = .ok m) ∧
      (∀ sub : SubSeq, Sequence.copyEntry en = .sub sub → ∀ y ∈ sub.data, ∃ m, y.2.validate = .ok m) := by
  cases en with
  | el e0 =>
    refine ⟨fun e he => ?_, fun sub hs => ?_⟩
    · simp only [Sequence.copyEntry] at he
      exact h.1 e he
    · simp [Sequence.copyEntry] at hs
  | sub s0 =>
    refine ⟨fun e he => ?_, fun sub hs => ?_⟩
    · simp [Sequence.copyEntry] at he
    · simp only [Sequence.copyEntry, Entry.sub.injEq] at hs
      subst hs
      exact h.2 s0 rfl

/-- **every element of a sequence the public API builds passed validation** - the elements added
    with `addElement` because `addElement` validates, the elements inside a subsequence because the
    subsequence argument was itself built by `addElement` calls (`addSubSequence` checks nothing) -/
theorem apiBuilt_innerValidated {s : Sequence} (h : Sequence.ApiBuilt s) : InnerValidated s := by
  induction h with
  | empty => intro x hx; cases hx
  | addElement s pos e _ _ ih =>
    unfold Sequence.addElement
    split
    · exact ih
    · rename_i m hv
      intro x hx
      simp only at hx
      rcases g4_mem_upsert_cases _ _ _ _ hx with h | h
      · rw [h]
        refine ⟨fun e' he' => ?_, fun sub hs => by cases hs⟩
        simp only [Entry.el.injEq] at he'
        rw [← he', validate_with_cache]
        exact ⟨m, hv⟩
      · exact ih x h
  | addSubSequence s pos sub _ _ ih ihsub =>
    unfold Sequence.addSubSequence
    split
    · exact ih
    · rename_i d hd
      split
      · exact ih
      · intro x hx
        simp only at hx
        rcases g4_mem_upsert_cases _ _ _ _ hx with h | h
        · rw [h]
          refine ⟨fun e' he' => (by cases he'), fun sub' hs y hy => ?_⟩
          simp only [Entry.sub.injEq] at hs
          subst hs
          simp only [Sequence.storedSub] at hy
          have := elementsOnly_mem sub.data d hd y hy
          exact (ihsub _ this).1 y.2 rfl
        · exact ih x h
  | setSpec s k v _ ih => exact ih
  | setFilter s ch kind order isInt fc tau _ ih =>
    unfold SeqCore.setChannelFilterCompensation
    split
    · exact ih
    · split
      · exact ih
      · split <;> exact ih
  | setSequencing s pos f _ ih =>
    unfold SeqCore.setSequencing
    split <;> exact ih
  | copy s _ ih => exact ih
  | add a b c _ _ hadd iha ihb =>
    unfold Sequence.add at hadd
    split at hadd
    · cases hadd
    · cases hadd
    · split at hadd
      · cases hadd
      · cases hadd
      · split at hadd
        · simp only [Except.ok.injEq] at hadd
          subst hadd
          intro x hx
          unfold Sequence.addCore at hx
          simp only at hx
          have hx' : x ∈ b.data.foldl (fun d (p : Int × Entry) => Dict.upsert d (p.1 + (a.data.length : Int)) (Sequence.copyEntry p.2))
              (a.data.map (fun (p : Int × Entry) => (p.1, Sequence.copyEntry p.2))) := hx
          rcases Sequence.g4_foldl_upsert_mem _ _ _ _ hx' with h | ⟨y, hy, hxy⟩
          · obtain ⟨z, hz, rfl⟩ := List.mem_map.mp h
            exact innerValidated_copyEntry z.2 (iha z hz)
          · rw [hxy]
            exact innerValidated_copyEntry y.2 (ihb y hy)
        · cases hadd

end BB.G11
