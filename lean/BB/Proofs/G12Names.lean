/-
  BB.Proofs.G12Names — "names stay canonical" (`BP.Inv`) for every blueprint that sits on a channel
  of an element built through the public element API, and for every blueprint inside an element
  stored (directly or in a subsequence) in a sequence built through the public sequence API.
-/
import BB.Proofs.G12Inner
import BB.Proofs.Blueprint

namespace BB.G12
open BB BB.BP

/-- every blueprint on a channel of the element has canonically numbered names -/
def ElInv (e : Element) : Prop := ∀ x ∈ e.chans, ∀ b, x.2.data = .bp b → BP.Inv b

theorem shiftWait_name (d : ℚ) (s : Seg) : (Element.shiftWait d s).name = s.name := by
  unfold Element.shiftWait
  split
  · split <;> rfl
  · rfl

/-- the blueprint part of `_applyDelays` keeps the names canonical -/
theorem inv_delayBP {b : BP} (h : BP.Inv b) (delay M : ℚ) : BP.Inv (Element.delayBP b delay M).st := by
  have h1 : BP.Inv { b with segs := b.segs.map (Element.shiftWait delay) } := by
    unfold BP.Inv BP.names at *
    simp only
    rw [map_names_of_name_eq _ _ (shiftWait_name delay)]
    exact h
  unfold Element.delayBP
  simp only
  by_cases h0 : 0 < delay
  · simp only [h0, if_true]
    have h2 := inv_insertSegment h1 0 Fn.waitSpecial [.num delay] (.str "waituntil") .none
    generalize BP.insertSegment { b with segs := b.segs.map (Element.shiftWait delay) } 0 Fn.waitSpecial
      [.num delay] (.str "waituntil") .none = r2 at h2
    split
    · exact h2
    · split
      · exact inv_insertSegment h2 _ _ _ _ _
      · exact h2
  · simp only [h0, if_false]
    split
    · exact inv_insertSegment h1 _ _ _ _ _
    · exact h1

theorem elInv_withBP (e : Element) (ch : Chan) (f : BP → Res BP) (hf : ∀ b, BP.Inv b → BP.Inv (f b).st)
    (h : ElInv e) : ElInv (e.withBP ch f).st := by
  unfold Element.withBP
  split
  · exact h
  · rename_i ent hget
    split
    · rename_i b hb
      intro x hx b' hb'
      simp only at hx
      rcases g4_mem_upsert_cases _ _ _ _ hx with hx | hx
      · rw [hx] at hb'
        simp only [ChData.bp.injEq] at hb'
        rw [← hb']
        exact hf b (h (ch, ent) (Dict.mem_of_get?_eq_some ch ent hget) b hb)
      · exact h x hx b' hb'
    · exact h

/-- **names stay canonical through the element API**: every blueprint on a channel of an element
    built with `addBluePrint` (which stores a copy), `addArray`, `addFlags`, `Element.changeArg`,
    `Element.changeDuration`, `validateDurations`, `_applyDelays` and `copy` satisfies `BP.Inv` -
    whatever blueprint values were handed to `addBluePrint` -/
theorem apiBuilt_elInv {e : Element} (h : Element.ApiBuilt e) : ElInv e := by
  induction h with
  | empty => intro x hx; cases hx
  | addBluePrint e ch b _ ih =>
    unfold Element.addBluePrint
    split
    · exact ih
    · intro x hx b' hb'
      simp only at hx
      rcases g4_mem_upsert_cases _ _ _ _ hx with hx | hx
      · rw [hx] at hb'
        simp only [ChData.bp.injEq] at hb'
        rw [← hb']
        exact inv_copy b
      · exact ih x hx b' hb'
  | addArray e ch wfm sr kw _ ih =>
    unfold Element.addArray
    split
    · intro x hx b' hb'
      simp only at hx
      rcases g4_mem_upsert_cases _ _ _ _ hx with hx | hx
      · rw [hx] at hb'; cases hb'
      · exact ih x hx b' hb'
    · intro x hx b' hb'
      simp only at hx
      rcases g4_mem_upsert_cases _ _ _ _ hx with hx | hx
      · rw [hx] at hb'; cases hb'
      · exact ih x hx b' hb'
  | addFlags e ch fl _ ih =>
    unfold Element.addFlags
    split
    · exact ih
    · split
      · exact ih
      · split
        · exact ih
        · rename_i ent hget
          intro x hx b' hb'
          simp only at hx
          rcases g4_mem_upsert_cases _ _ _ _ hx with hx | hx
          · rw [hx] at hb'
            exact ih (ch, ent) (Dict.mem_of_get?_eq_some ch ent hget) b' hb'
          · exact ih x hx b' hb'
  | changeArg e ch name arg value all _ ih =>
    exact elInv_withBP e ch _ (fun b hb => inv_changeArg hb name arg value all) ih
  | changeDuration e ch name dur all _ ih =>
    exact elInv_withBP e ch _ (fun b hb => inv_changeDuration hb name dur all) ih
  | validateDurations e _ ih =>
    unfold Element.validateDurations
    split <;> exact ih
  | applyDelays e ds _ ih =>
    rcases Element.g4_applyDelays_err_or_same e ds with herr | hsame
    · obtain ⟨m, sr, _, _, hlen, hl, hall⟩ := g4_applyDelays_getElem e ds herr
      intro x hx b' hb'
      obtain ⟨k, hk, rfl⟩ := List.getElem_of_mem hx
      obtain ⟨_, hde⟩ := hall k (by omega) hk (by omega)
      obtain ⟨hbp, harr, hnb⟩ := g4_dEnt_data _ _ _ _ _ hde
      cases hdat : (e.chans[k]'(by omega)).2.data with
      | bp b0 =>
        rw [hbp b0 hdat] at hb'
        simp only [ChData.bp.injEq] at hb'
        rw [← hb']
        exact inv_delayBP (ih _ (List.getElem_mem _) b0 hdat) _ _
      | arr a0 s0 => rw [harr a0 s0 hdat] at hb'; cases hb'
      | broken => exact absurd hdat hnb
    · intro x hx
      rw [hsame] at hx
      exact ih x hx
  | copy e _ ih => exact ih

/-- **... and through the sequence API**: every blueprint inside an element that an API-built
    sequence stores - at an element position or inside a stored subsequence - satisfies `BP.Inv` -/
theorem apiBuilt_seq_elInv {s : Sequence} (h : Sequence.ApiBuilt s) : Inner ElInv s :=
  apiBuilt_inner ElInv (fun _ _ h => h) (fun _ he => apiBuilt_elInv he) h

/-! ### ... including edits of a stored element through `sequence.element(pos)` -/

/-- the sequences the public API can build when stored elements may also be edited in place
    through `sequence.element(pos).changeArg / changeDuration` (`Tools.modifyElement`): everything
    `Sequence.ApiBuilt` has, closed under those two edits (accepted or rejected) -/
inductive SeqBuiltE : Sequence → Prop
  | empty : SeqBuiltE {}
  | addElement (s : Sequence) (pos : Int) (e : Element) : SeqBuiltE s → Element.ApiBuilt e → SeqBuiltE (s.addElement pos e).st
  | addSubSequence (s : Sequence) (pos : Int) (sub : Sequence) : SeqBuiltE s → SeqBuiltE sub → SeqBuiltE (s.addSubSequence pos sub).st
  | setSpec (s : Sequence) (k : String) (v : Spec) : SeqBuiltE s → SeqBuiltE (s.setSpec k v)
  | setFilter (s : Sequence) (ch : Chan) (kind : String) (order : Int) (isInt : Bool) (fc tau : Val) :
      SeqBuiltE s → SeqBuiltE (s.setChannelFilterCompensation ch kind order isInt fc tau).st
  | setSequencing (s : Sequence) (pos : Int) (f : SeqSet → SeqSet) : SeqBuiltE s → SeqBuiltE (s.setSequencing pos f).st
  | copy (s : Sequence) : SeqBuiltE s → SeqBuiltE s.copy
  | add (a b c : Sequence) : SeqBuiltE a → SeqBuiltE b → a.add b = .ok c → SeqBuiltE c
  | elementChangeArg (s : Sequence) (pos : Int) (ch : Chan) (name : String) (arg value : Val) (all : Bool) :
      SeqBuiltE s → SeqBuiltE (Tools.modifyElement s pos (fun e => e.changeArg ch name arg value all)).st
  | elementChangeDuration (s : Sequence) (pos : Int) (ch : Chan) (name : String) (dur : Val) (all : Bool) :
      SeqBuiltE s → SeqBuiltE (Tools.modifyElement s pos (fun e => e.changeDuration ch name dur all)).st

/-- everything `Sequence.ApiBuilt` builds is in `SeqBuiltE` -/
theorem SeqBuiltE.of_apiBuilt {s : Sequence} (h : Sequence.ApiBuilt s) : SeqBuiltE s := by
  induction h with
  | empty => exact .empty
  | addElement s pos e _ he ih => exact .addElement s pos e ih he
  | addSubSequence s pos sub _ _ ih ihsub => exact .addSubSequence s pos sub ih ihsub
  | setSpec s k v _ ih => exact .setSpec s k v ih
  | setFilter s ch kind order isInt fc tau _ ih => exact .setFilter s ch kind order isInt fc tau ih
  | setSequencing s pos f _ ih => exact .setSequencing s pos f ih
  | copy s _ ih => exact .copy s ih
  | add a b c _ _ hadd iha ihb => exact .add a b c iha ihb hadd

/-- **names stay canonical also under in-place edits of stored elements** -/
theorem seqBuiltE_elInv {s : Sequence} (h : SeqBuiltE s) : Inner ElInv s := by
  induction h with
  | empty => exact inner_empty _
  | addElement s pos e _ he ih => exact inner_addElement ElInv (fun _ _ h => h) ih pos e (apiBuilt_elInv he)
  | addSubSequence s pos sub _ _ ih ihsub => exact inner_addSubSequence ElInv ih ihsub pos
  | setSpec s k v _ ih => exact ih
  | setFilter s ch kind order isInt fc tau _ ih => exact inner_setFilter ElInv ih ch kind order isInt fc tau
  | setSequencing s pos f _ ih => exact inner_setSequencing ElInv ih pos f
  | copy s _ ih => exact ih
  | add a b c _ _ hadd iha ihb => exact inner_add ElInv iha ihb hadd
  | elementChangeArg s pos ch name arg value all _ ih =>
    exact inner_modifyElement ElInv ih pos _
      (fun e he => elInv_withBP e ch _ (fun b hb => inv_changeArg hb name arg value all) he)
  | elementChangeDuration s pos ch name dur all _ ih =>
    exact inner_modifyElement ElInv ih pos _
      (fun e he => elInv_withBP e ch _ (fun b hb => inv_changeDuration hb name dur all) he)

end BB.G12
