/-
  BB.Proofs.G9Ex — concrete sequences, built through the public API only, on which both `forge`
  and an output method succeed *with* a channel delay (and, in the `…F` variants, a declared filter
  compensation): the non-vacuity witnesses of the capstone theorems of C14 / C15 / C11.

  They extend the example of `BB.G4Ex` (the 10-sample ramp `exBP` on channel 1, delayed by two
  samples; a raw array on channel "A"): the raw channel gets the two marker arrays the output
  methods ask for, the sequence gets the offsets the AWG5014 path asks for, and — for the SEQX
  path — every waveform gets 2400 points.
-/
import BB.Proofs.G4Example
import BB.Proofs.G4Built
import BB.Proofs.G3Check

namespace BB.G9Ex
open BB

/-- helper: a Deferred result that carries a package -/
theorem ok_pkg_of_isSome {α : Type} (x : Except Err (Sequence.Deferred α))
    (h : (x.toOption.bind (·.pkg)).isSome = true) : ∃ d pkg, x = .ok d ∧ d.pkg = some pkg := by
  cases x with
  | error e => simp [Except.toOption] at h
  | ok d =>
    cases hp : d.pkg with
    | none => simp [Except.toOption, hp] at h
    | some pkg => exact ⟨d, pkg, rfl, hp⟩

/-- helper: a store lookup that finds a given element (`Entry` has no decidable equality) -/
theorem get_el_of_check (d : Dict Int Entry) (k : Int) (e : Element)
    (h : (match Dict.get? d k with | some (.el e') => decide (e' = e) | _ => false) = true) :
    Dict.get? d k = some (.el e) := by
  split at h
  · rename_i e' he'
    rw [he', of_decide_eq_true h]
  · cases h

/-! ### AWG5014: 10-sample waveforms -/

/-- channel 1: the ramp 0 → 1 V (10 samples); channel "A": 10 samples at 1/4 V, marker 1 off, marker 2 on -/
def awgEl : Element :=
  ((({} : Element).addBluePrint (.int 1) G4Ex.exBP).st.addArray (.str "A") (List.replicate 10 (1/4)) (.num 10)
    [("m1", List.replicate 10 0), ("m2", List.replicate 10 1)]).st

theorem awgEl_built : Element.ApiBuilt awgEl := .addArray _ _ _ _ _ (.addBluePrint _ _ _ .empty)

def awg0 : Sequence := SeqCore.setSR {} (.num 10)
def awg1 : Sequence := (Sequence.addElement awg0 1 awgEl).st
def awg2 : Sequence := (Sequence.addElement awg1 2 awgEl).st
def awg3 : Sequence := SeqCore.setChannelDelay awg2 (.int 1) (.num (1/5))
def awg4 : Sequence := SeqCore.setChannelAmplitude awg3 (.int 1) (.num 2)
def awg5 : Sequence := SeqCore.setChannelOffset awg4 (.int 1) (.num (1/2))
def awg6 : Sequence := SeqCore.setChannelAmplitude awg5 (.str "A") (.num 1)
/-- two positions; channel 1 (range [-1/2, 3/2]) delayed by 1/5 s = 2 samples; channel "A" (range [-1/2, 1/2]) -/
def awgSeq : Sequence := SeqCore.setChannelOffset awg6 (.str "A") (.num 0)
/-- the same with a first-order high-pass compensation (cut-off 1 Hz) declared for channel "A" -/
def awgSeqF : Sequence := (SeqCore.setChannelFilterCompensation awgSeq (.str "A") "HP" 1 true (.num 1) .none).st

theorem awgSeq_built : Sequence.ApiBuilt awgSeq :=
  .setSpec _ _ _ (.setSpec _ _ _ (.setSpec _ _ _ (.setSpec _ _ _ (.setSpec _ _ _
    (.addElement _ _ _ (.addElement _ _ _ (.setSpec _ _ _ .empty) awgEl_built) awgEl_built)))))

theorem awgSeqF_built : Sequence.ApiBuilt awgSeqF := .setFilter _ _ _ _ _ _ _ awgSeq_built

/-- what `addElement` stored: the element with the cache written by `validateDurations` -/
def awgStored : Element := { awgEl with cache := some (.num 10, 1) }
theorem awgSeq_pos1 : Dict.get? awgSeq.data ((0 + 1 : Nat) : Int) = some (.el awgStored) :=
  get_el_of_check _ _ _ (by decide +kernel)
theorem awgSeq_pos2 : Dict.get? awgSeq.data ((1 + 1 : Nat) : Int) = some (.el awgStored) :=
  get_el_of_check _ _ _ (by decide +kernel)

theorem awgSeq_forge_ok : ∃ out, awgSeq.forge true true false = .ok out :=
  G3.isSome_toOption _ (by decide +kernel)
theorem awgSeq_awg_ok : ∃ d pkg, awgSeq.outputForAWGFile = .ok d ∧ d.pkg = some pkg :=
  ok_pkg_of_isSome _ (by decide +kernel)
theorem awgSeqF_forge_ok : ∃ out, awgSeqF.forge true true false = .ok out :=
  G3.isSome_toOption _ (by decide +kernel)
theorem awgSeqF_awg_ok : ∃ d pkg, awgSeqF.outputForAWGFile = .ok d ∧ d.pkg = some pkg :=
  ok_pkg_of_isSome _ (by decide +kernel)

/-! ### SEQX: 2400-sample waveforms -/

/-- the ramp 0 → 1 V (1 s = 10 samples) followed by `waituntil` 240 s: 2400 samples at 10 Sa/s -/
def longBP : BP :=
  { segs := [ { name := "ramp", fn := Fn.rampFn, args := [.num 0, .num 1], dur := .num 1 },
              { name := "waituntil", fn := Fn.waitSpecial, args := [.num 240], dur := .str "waituntil" } ],
    SR := .num 10 }

def seqxEl : Element :=
  ((({} : Element).addBluePrint (.int 1) longBP).st.addArray (.str "A") (List.replicate 2400 (1/4)) (.num 10)
    [("m1", List.replicate 2400 0), ("m2", List.replicate 2400 1)]).st

theorem seqxEl_built : Element.ApiBuilt seqxEl := .addArray _ _ _ _ _ (.addBluePrint _ _ _ .empty)

def seqx0 : Sequence := SeqCore.setSR {} (.num 10)
def seqx1 : Sequence := (Sequence.addElement seqx0 1 seqxEl).st
def seqx2 : Sequence := (Sequence.addElement seqx1 2 seqxEl).st
def seqx3 : Sequence := SeqCore.setChannelDelay seqx2 (.int 1) (.num (1/5))
def seqx4 : Sequence := SeqCore.setChannelAmplitude seqx3 (.int 1) (.num 2)
/-- two positions of 2400 (+ 2) samples; channel 1 (± 1 V) delayed by 2 samples; channel "A" (± 1/2 V) -/
def seqxSeq : Sequence := SeqCore.setChannelAmplitude seqx4 (.str "A") (.num 1)
/-- the same with a first-order high-pass compensation (cut-off 1 Hz) declared for channel "A" -/
def seqxSeqF : Sequence := (SeqCore.setChannelFilterCompensation seqxSeq (.str "A") "HP" 1 true (.num 1) .none).st

theorem seqxSeq_built : Sequence.ApiBuilt seqxSeq :=
  .setSpec _ _ _ (.setSpec _ _ _ (.setSpec _ _ _
    (.addElement _ _ _ (.addElement _ _ _ (.setSpec _ _ _ .empty) seqxEl_built) seqxEl_built)))

theorem seqxSeqF_built : Sequence.ApiBuilt seqxSeqF := .setFilter _ _ _ _ _ _ _ seqxSeq_built

/-- what `addElement` stored: the element with the cache written by `validateDurations` -/
def seqxStored : Element := { seqxEl with cache := some (.num 10, 240) }
theorem seqxSeqF_pos1 : Dict.get? seqxSeqF.data ((0 + 1 : Nat) : Int) = some (.el seqxStored) :=
  get_el_of_check _ _ _ (by decide +kernel)

theorem seqxSeq_forge_ok : ∃ out, seqxSeq.forge true true false = .ok out :=
  G3.isSome_toOption _ (by decide +kernel)
theorem seqxSeqF_forge_ok : ∃ out, seqxSeqF.forge true true false = .ok out :=
  G3.isSome_toOption _ (by decide +kernel)
set_option maxRecDepth 100000 in
theorem seqxSeqF_seqx_ok : ∃ d pkg, seqxSeqF.outputForSEQXFile = .ok d ∧ d.pkg = some pkg :=
  ok_pkg_of_isSome _ (by decide +kernel)

end BB.G9Ex
