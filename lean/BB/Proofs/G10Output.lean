/-
  BB.Proofs.G10Output — `_prepareForOutputting` and the output methods built on it
  (`outputForAWGFile`, `outputForSEQXFile`, `outputForSEQXFileWithFlags`) read the AWG settings and
  the sequencing only through look-ups (plus the key set of the sequencing), the stored elements
  only through their channel stores, and the name.  Hence a congruence like `Sequence.forge_congr`:
  sequences that agree in these respects deliver the same packages, or raise the same exception.
-/
import BB.Proofs.G6Forge

namespace BB.G10
open BB BB.Sequence

theorem specNum_congr {E E' : Type} (a : SeqCore E) (b : SeqCore E') (hs : LookEq a.awgspecs b.awgspecs) (k : String) :
    a.specNum k = b.specNum k := by
  unfold SeqCore.specNum; rw [hs]

theorem has_congr {E E' : Type} (a : SeqCore E) (b : SeqCore E') (hs : LookEq a.awgspecs b.awgspecs) (k : String) :
    Dict.has a.awgspecs k = Dict.has b.awgspecs k := by
  rw [Dict.has_eq_isSome, Dict.has_eq_isSome, hs]

/-- the delay loop for one element: same channel store, same outcome (up to the cache) -/
theorem prepDelayElement_rel (sr : Val) {e e' : Element} (h : ElRel e e') (chans : List Chan) (delays : List Rat) :
    ExRel ElRel (prepDelayElement sr e chans delays) (prepDelayElement sr e' chans delays) := by
  unfold prepDelayElement
  rw [show e.chans = e'.chans from h]
  generalize (chans.zip delays).foldlM (prepStep sr (maxR delays)) e'.chans = r
  cases r <;> simp [Except.map, ExRel, ElRel]

section congr
variable (a b : Sequence) (hd : Dict.Rel EntRel a.data b.data) (hs : LookEq a.awgspecs b.awgspecs)
  (hq : LookEq a.sequencing b.sequencing) (hqk : (Dict.keys a.sequencing).Perm (Dict.keys b.sequencing))

include hd in
theorem prepElements_rel (chans : List Chan) (delays : List Rat) :
    ExRel (List.Forall₂ ElRel) (a.prepElements chans delays) (b.prepElements chans delays) := by
  unfold prepElements
  rw [hd.length]
  refine mapM_rel (· = ·) ElRel _ _ ?_ (forall2_refl _ _ (fun _ _ => rfl))
  rintro i _ rfl
  rcases hd.get? ((i + 1 : Nat) : Int) with ⟨h1, h2⟩ | ⟨x, y, h1, h2, hR⟩
  · rw [h1, h2]; simp [ExRel]
  · rw [h1, h2]
    cases x <;> cases y <;> simp only [EntRel] at hR
    · rename_i e e'
      simp only
      rw [ElRel.getSR hR]
      cases e'.getSR with
      | error er => simp [ExRel]
      | ok sr => exact prepDelayElement_rel sr hR chans delays
    · simp [ExRel]

include hs in
theorem prepFilters_congr (chans : List Chan) : a.prepFilters chans = b.prepFilters chans := by
  funext d
  unfold prepFilters
  congr 1
  funext x
  rw [filterOf_congr a b hs]

include hd hs hqk in
/-- **`_prepareForOutputting` congruence**: stores that agree position by position up to validation
    caches, settings that answer every look-up alike, sequencing entries under the same keys -/
theorem prepareForOutputting_congr : a.prepareForOutputting = b.prepareForOutputting := by
  unfold prepareForOutputting
  rw [checkConsistency_congr a b hd hs]
  cases b.checkConsistency with
  | error e => rfl
  | ok c =>
    cases c with
    | false => rfl
    | true =>
      simp only
      rcases hd.get? 1 with ⟨h1, h2⟩ | ⟨x, y, h1, h2, hR⟩
      · rw [h1, h2]
      · rw [h1, h2]
        simp only
        rw [hR.channels]
        cases y.channels with
        | error e => rfl
        | ok chans =>
          simp only
          rw [sortBy_of_perm hqk, hd.length]
          have hany : chans.any (fun ch => !(Dict.has a.awgspecs (keyOf ch "amplitude"))) =
              chans.any (fun ch => !(Dict.has b.awgspecs (keyOf ch "amplitude"))) := by
            congr 1; funext ch; rw [has_congr a b hs]
          have hdel : chans.mapM a.delayOf = chans.mapM b.delayOf :=
            mapM_congr_mem _ _ _ (fun ch _ => delayOf_congr a b hs ch)
          rw [hany, hdel, prepFilters_congr a b hs chans]
          by_cases h1 : sortBy (fun a b => decide (a ≤ b)) (Dict.keys b.sequencing) ≠ oneTo b.data.length
          · rw [if_pos h1, if_pos h1]
          · rw [if_neg h1, if_neg h1]
            by_cases h2 : chans.any (fun ch => !(Dict.has b.awgspecs (keyOf ch "amplitude"))) = true
            · rw [if_pos h2, if_pos h2]
            · rw [if_neg h2, if_neg h2]
              cases chans.mapM b.delayOf with
              | error e => rfl
              | ok delays =>
                simp only
                have hrel := prepElements_rel a b hd chans delays
                cases ha : a.prepElements chans delays with
                | error e =>
                  cases hb : b.prepElements chans delays with
                  | error e' => rw [ha, hb] at hrel; simp only [ExRel] at hrel; rw [hrel]
                  | ok _ => rw [ha, hb] at hrel; simp [ExRel] at hrel
                | ok els =>
                  cases hb : b.prepElements chans delays with
                  | error e' => rw [ha, hb] at hrel; simp [ExRel] at hrel
                  | ok els' =>
                    rw [ha, hb] at hrel
                    simp only [ExRel] at hrel
                    simp only
                    rw [mapM_forall2_eq ElRel _ _ (fun _ _ h => h.getArrays false) hrel]

include hs in
theorem awgCheckWave_congr : awgCheckWave a = awgCheckWave b := by
  funext pos el ch
  unfold awgCheckWave
  rw [specNum_congr a b hs, specNum_congr a b hs]

include hq in
theorem awgRow_congr : awgRow a = awgRow b := by
  funext chans seqlen p
  unfold awgRow
  rw [hq]

include hq in
theorem seqxRow_congr : seqxRow a = seqxRow b := by
  funext chans seqlen p
  unfold seqxRow
  rw [hq]

include hd hs hq hqk in
/-- **`outputForAWGFile` congruence**: the same package with the same deferred range obligations, or
    the same exception -/
theorem outputForAWGFile_congr : a.outputForAWGFile = b.outputForAWGFile := by
  unfold outputForAWGFile
  rw [prepareForOutputting_congr a b hd hs hqk, awgCheckWave_congr a b hs, awgRow_congr a b hq,
    channels_congr a b hd hs]
  cases b.prepareForOutputting with
  | error e => rfl
  | ok elements =>
    simp only
    rcases hd.get? 1 with ⟨h1, h2⟩ | ⟨x, y, h1, h2, hR⟩
    · rw [h1, h2]
    · rw [h1, h2]
      simp only
      rw [hR.channels]
      cases y.channels with
      | error e => rfl
      | ok chans =>
        simp only
        have hany : chans.any (fun ch => !(Dict.has a.awgspecs (keyOf ch "offset"))) =
            chans.any (fun ch => !(Dict.has b.awgspecs (keyOf ch "offset"))) := by
          congr 1; funext ch; rw [has_congr a b hs]
        rw [hany]

include hd hs hq hqk in
/-- **`outputForSEQXFile` congruence** (the sequence name goes into the package, so it must agree) -/
theorem outputForSEQXFile_congr (hn : a.name = b.name) : a.outputForSEQXFile = b.outputForSEQXFile := by
  unfold outputForSEQXFile
  have hpkg : seqxPackage a = seqxPackage b := by
    funext nCh amps rows
    unfold seqxPackage
    rw [hn]
  rw [prepareForOutputting_congr a b hd hs hqk, seqxRow_congr a b hq, hpkg,
    show SeqCore.specNum a = SeqCore.specNum b from funext (specNum_congr a b hs)]
  cases b.prepareForOutputting with
  | error e => rfl
  | ok elements =>
    simp only
    rcases hd.get? 1 with ⟨h1, h2⟩ | ⟨x, y, h1, h2, hR⟩
    · rw [h1, h2]
    · rw [h1, h2]
      simp only
      rw [hR.channels]

include hd hs hq hqk in
/-- **`outputForSEQXFileWithFlags` congruence** -/
theorem outputForSEQXFileWithFlags_congr (hn : a.name = b.name) :
    a.outputForSEQXFileWithFlags = b.outputForSEQXFileWithFlags := by
  unfold outputForSEQXFileWithFlags
  rw [prepareForOutputting_congr a b hd hs hqk, outputForSEQXFile_congr a b hd hs hq hqk hn]
  cases b.prepareForOutputting with
  | error e => rfl
  | ok elements =>
    simp only
    rcases hd.get? 1 with ⟨h1, h2⟩ | ⟨x, y, h1, h2, hR⟩
    · rw [h1, h2]
    · rw [h1, h2]
      simp only
      rw [hR.channels]

end congr

end BB.G10
