/-
  BB.Proofs.G8Main — a guarded library call on a shaped state neither faults nor breaks the
  shape; hence no history of guarded library calls ever faults.
-/
import BB.Proofs.G8Lib

namespace BB.Heap

/-! ### helpers -/

theorem root_low {h h' : Heap} (kp : Keeps h h') {x : Addr} {c : Cell} (hc : h[x]? = some c)
    (hk : c.kind = .bpObj ∨ c.kind = .elObj) : Root h' x := by
  obtain ⟨c', hc', hk', _⟩ := kp x c hc
  refine ⟨c', hc', ?_⟩
  rw [hk']
  rcases hk with hk | hk
  · exact Or.inl hk
  · exact Or.inr (Or.inl hk)

theorem root_seq {r : Owner} {P : Addr → Kind → Bool} {h h' : Heap} (e : Evo r P h h') (hg : Good h)
    (hP : ∀ a k, k.isSeq = true → P a k = false) {x : Addr} {c : Cell} (hc : h[x]? = some c)
    (hk : c.kind = .sqObj) (hf : SubsFlat h x) : Root h' x :=
  ⟨c, e.only x c hc (hP x _ (by rw [hk]; rfl)), Or.inr (Or.inr ⟨hk, SubsFlat.keep e hg hP ⟨c, hc, hk⟩ hf⟩)⟩

theorem Shaped.subsFlat {st : State} (hs : Shaped st) {name : String} {x : Addr} {c : Cell}
    (hl : st.vars.lookup name = some x) (hc : st.heap[x]? = some c) (hk : c.kind = .sqObj) : SubsFlat st.heap x := by
  obtain ⟨c0, hc0, hk0⟩ := hs.roots (name, x) (mem_of_lookup hl)
  rw [hc] at hc0; cases hc0
  rcases hk0 with h1 | h1 | ⟨_, hf⟩
  · rw [hk] at h1; cases h1
  · rw [hk] at h1; cases h1
  · exact hf

theorem act_low {st : State} (hs : Shaped st) {t : String} {x : Addr} {c : Cell} {p : Addr → Prog Unit}
    {P : Addr → Kind → Bool} (hl : st.vars.lookup t = some x) (hc : st.heap[x]? = some c)
    (hk : c.kind = .bpObj ∨ c.kind = .elObj)
    (hr : Runs 0 c.owner (p x) st.heap (fun _ h' => Evo c.owner P st.heap h')) : Shaped (st.call (.act t p)) :=
  shaped_act hs t p hl hc (runs_mono hr (fun _ _ e => ⟨e.good.typed, root_low e.keeps hc hk⟩))

theorem act_seq {st : State} (hs : Shaped st) {t : String} {x : Addr} {c : Cell} {p : Addr → Prog Unit}
    {P : Addr → Kind → Bool} (hl : st.vars.lookup t = some x) (hc : st.heap[x]? = some c) (hk : c.kind = .sqObj)
    (hP : ∀ a k, k.isSeq = true → P a k = false)
    (hr : Runs 0 c.owner (p x) st.heap (fun _ h' => Evo c.owner P st.heap h')) : Shaped (st.call (.act t p)) :=
  shaped_act hs t p hl hc (runs_mono hr (fun _ _ e =>
    ⟨e.good.typed, root_seq e hs.good hP hc hk (hs.subsFlat hl hc hk)⟩))

/-- renaming a sequence keeps its stored subsequences flat -/
theorem subsFlat_setName {r : Owner} {h h' : Heap} {s : Addr} {cs : Cell} {tok : Nat}
    (e : Evo r (fun a _ => a == s) h h') (hg : Good h) (hcs : h[s]? = some cs) (hks : cs.kind = .sqObj)
    (hcs' : h'[s]? = some { cs with slots := upsertSlot cs.slots "_name" (.imm tok) }) (hf : SubsFlat h s) :
    SubsFlat h' s := by
  have hne : ∀ (a : Addr) (c : Cell), h[a]? = some c → c.kind ≠ Kind.sqObj → h'[a]? = some c := by
    intro a c hc hk
    apply e.only a c hc
    have : a ≠ s := by intro heq; subst heq; rw [hcs] at hc; cases hc; exact hk hks
    simpa using this
  intro cs2 d cd' hcs2 hm hcd' ks hks' b cb' hb hcb' hkb'
  rw [hcs'] at hcs2; cases hcs2
  have hm0 : ("_data", Slot.ref d) ∈ cs.slots := by
    rcases mem_upsertSlot hm with hnew | hold
    · simp at hnew
    · exact hold
  obtain ⟨cd, hcd, hkd⟩ := sq_data_kind hg hcs hks hm0
  rw [hne d cd hcd (by rw [hkd]; decide)] at hcd'; cases hcd'
  have hmb : (ks.1, Slot.ref b) ∈ cd'.slots := by rw [← hb]; exact hks'
  obtain ⟨cb, hcb, _, _⟩ := good_ref hg hcd hmb
  obtain ⟨cb2, x1, x2, _⟩ := e.keeps b cb hcb
  rw [hcb'] at x1; cases x1
  have hkb : cb.kind = .sqObj := by rw [← x2]; exact hkb'
  have hfb : FlatSeq h b := hf cs d cd' hcs hm0 hcd ks hks' b cb hb hcb hkb
  have hbs : b ≠ s := by
    intro heq
    have hcb0 : h[s]? = some cb := by rw [← heq]; exact hcb
    have hcc : cb = cs := by rw [hcs] at hcb0; exact (Option.some.inj hcb0).symm
    have := hfb cb d cd' hcb (by rw [hcc]; exact hm0) hcd ks hks' b cb hb hcb
    rw [hkb] at this; cases this
  have hcb2 : h'[b]? = some cb := e.only b cb hcb (by simpa using hbs)
  rw [hcb'] at hcb2; cases hcb2
  apply hfb.keep e.keeps hg hcb hcb'
  intro db cdb hmdb hcdb
  obtain ⟨cdb2, y1, y2⟩ := sq_data_kind hg hcb hkb hmdb
  rw [hcdb] at y1; cases y1
  exact hne db cdb hcdb (by rw [y2]; decide)

/-! ### one call -/

/-- **a guarded library call keeps the state shaped** — in particular it does not fault.
    Every method program of the vocabulary, run through `derive` / `act` / `query` on live,
    correctly-kinded variables (and existing channels / positions where the Python raises
    `KeyError`, a flat argument where `addSubSequence` raises `ValueError`). -/
theorem lib_step (st : State) (c : LibCall) (hs : Shaped st) (hok : c.ok st = true) : Shaped (c.run st) := by
  cases c with
  | bpNew to =>
    show Shaped (st.derive to Heap.bpNew)
    apply shaped_derive hs
    apply runs_mono (bpNew_spec hs.good)
    intro b h' ⟨h1, e, c, hc, hk, _⟩
    exact ⟨h1, e.good.typed, c, hc, Or.inl hk⟩
  | bpMutate tok b =>
    obtain ⟨x, c, hl, hc, hk⟩ := isVar_spec hok
    exact act_low hs hl hc (Or.inl hk) (bpMutate_spec tok hs.good hc hk rfl)
  | bpSetMarker tok b which =>
    simp only [LibCall.ok, Bool.and_eq_true] at hok
    obtain ⟨x, c, hl, hc, hk⟩ := isVar_spec hok.1
    exact act_low hs hl hc (Or.inl hk) (bpSetMarker_spec tok which hs.good hc hk rfl hok.2)
  | bpCopy b to =>
    obtain ⟨x, c, hl, hc, hk⟩ := isVar_spec hok
    simp only [LibCall.run, LibCall.toCall, hl, Option.map_some, State.call]
    apply shaped_derive hs
    apply runs_mono (bpCopy_spec hs.good hc hk)
    intro b' h' ⟨h1, e, hcopy⟩
    obtain ⟨c0, c', x1, x2, x3⟩ := hcopy.kind
    rw [e.sub x c hc] at x1; cases x1
    exact ⟨h1, e.good.typed, c', x2, Or.inl (x3.trans hk)⟩
  | bpAdd a b to =>
    simp only [LibCall.ok, Bool.and_eq_true] at hok
    obtain ⟨x, cx, hlx, hcx, hkx⟩ := isVar_spec hok.1
    obtain ⟨y, cy, hly, hcy, hky⟩ := isVar_spec hok.2
    simp only [LibCall.run, LibCall.toCall, hlx, hly, State.call]
    apply shaped_derive hs
    apply runs_mono (bpAdd_spec hs.good hcx hkx hcy hky)
    intro z h' ⟨h1, e, c, hc, hk, _⟩
    exact ⟨h1, e.good.typed, c, hc, Or.inl hk⟩
  | elNew to =>
    show Shaped (st.derive to Heap.elNew)
    apply shaped_derive hs
    apply runs_mono (elNew_spec hs.good)
    intro b h' ⟨h1, e, c, hc, hk, _⟩
    exact ⟨h1, e.good.typed, c, hc, Or.inr (Or.inl hk)⟩
  | elAddBP e ch b =>
    simp only [LibCall.ok, Bool.and_eq_true] at hok
    obtain ⟨x, cx, hlx, hcx, hkx⟩ := isVar_spec hok.1
    obtain ⟨y, cy, hly, hcy, hky⟩ := isVar_spec hok.2
    simp only [LibCall.run, LibCall.toCall, hly, Option.map_some]
    exact act_low hs hlx hcx (Or.inr hkx) (elAddBP_spec ch hs.good ⟨cx, hcx, hkx, rfl⟩ ⟨cy, hcy, hky⟩)
  | elAddArray tok e ch names =>
    obtain ⟨x, cx, hlx, hcx, hkx⟩ := isVar_spec hok
    exact act_low hs hlx hcx (Or.inr hkx) (elAddArray_spec tok ch names hs.good ⟨cx, hcx, hkx, rfl⟩)
  | elAddArrayBroken e ch =>
    obtain ⟨x, cx, hlx, hcx, hkx⟩ := isVar_spec hok
    exact act_low hs hlx hcx (Or.inr hkx) (elAddArrayBroken_spec ch hs.good ⟨cx, hcx, hkx, rfl⟩)
  | elAddFlags tok e ch =>
    simp only [LibCall.ok, Bool.and_eq_true] at hok
    obtain ⟨x, cx, hlx, hcx, hkx⟩ := isVar_spec hok.1
    have hch := hok.2
    rw [hlx] at hch
    simp only [Option.isSome_iff_exists] at hch
    exact act_low hs hlx hcx (Or.inr hkx) (elAddFlags_spec tok ch hs.good ⟨cx, hcx, hkx, rfl⟩ hch)
  | elCopy e to =>
    obtain ⟨x, c, hl, hc, hk⟩ := isVar_spec hok
    simp only [LibCall.run, LibCall.toCall, hl, Option.map_some, State.call]
    apply shaped_derive hs
    apply runs_mono (elCopy_spec hs.good ⟨c, hc, hk⟩)
    intro e' h' ⟨h1, ev, ⟨c', hc', hk', _⟩, _⟩
    exact ⟨h1, ev.good.typed, c', hc', Or.inr (Or.inl hk')⟩
  | elMutateBP tok e ch =>
    simp only [LibCall.ok, Bool.and_eq_true] at hok
    obtain ⟨x, cx, hlx, hcx, hkx⟩ := isVar_spec hok.1
    have hch := hok.2
    rw [hlx] at hch
    exact act_low hs hlx hcx (Or.inr hkx)
      (elMutateBP_spec tok ch hs.good ⟨cx, hcx, hkx, rfl⟩ (hasBpB_spec hch))
  | elValidate tok e =>
    obtain ⟨x, c, hl, hc, hk⟩ := isVar_spec hok
    exact shaped_query hs e _ hl hc
      (runs_mono (elValidate_spec tok hs.good ⟨c, hc, hk⟩) (fun _ _ ev => ev.good.typed))
  | sqNew to =>
    show Shaped (st.derive to Heap.sqNew)
    apply shaped_derive hs
    apply runs_mono (sqNew_spec hs.good)
    intro s h' ⟨h1, e, his, d, hd, _, hcd⟩
    obtain ⟨c, hc, hk, ho⟩ := his
    refine ⟨h1, e.good.typed, c, hc, Or.inr (Or.inr ⟨hk, ?_⟩)⟩
    apply subsFlat_of_data e.good ⟨c, hc, hk, ho⟩ hd
    intro cd hcd2 ks hks
    rw [hcd] at hcd2; cases hcd2
    simp at hks
  | sqSetSpec tok s key =>
    obtain ⟨x, c, hl, hc, hk⟩ := isVar_spec hok
    exact act_seq hs hl hc hk pLeaf_seq (sqSetSpec_spec tok key hs.good ⟨c, hc, hk, rfl⟩)
  | sqSetFilter tok s key =>
    obtain ⟨x, c, hl, hc, hk⟩ := isVar_spec hok
    exact act_seq hs hl hc hk pLeaf_seq (sqSetFilter_spec tok key hs.good ⟨c, hc, hk, rfl⟩)
  | sqSetSeq tok s pos field =>
    simp only [LibCall.ok, Bool.and_eq_true] at hok
    obtain ⟨x, c, hl, hc, hk⟩ := isVar_spec hok.1
    have hpos := hok.2
    rw [hl] at hpos
    simp only [Option.isSome_iff_exists] at hpos
    exact act_seq hs hl hc hk pLeaf_seq (sqSetSeq_spec tok pos field hs.good ⟨c, hc, hk, rfl⟩ hpos)
  | sqSetSeqSettings tok s pos =>
    obtain ⟨x, c, hl, hc, hk⟩ := isVar_spec hok
    exact act_seq hs hl hc hk pLeaf_seq (sqSetSeqSettings_spec tok pos hs.good ⟨c, hc, hk, rfl⟩)
  | sqSetName tok s =>
    obtain ⟨x, c, hl, hc, hk⟩ := isVar_spec hok
    apply shaped_act hs s _ hl hc
    apply runs_mono (sqSetName_spec tok hs.good hc hk rfl)
    intro _ h' ⟨e, hc'⟩
    exact ⟨e.good.typed, _, hc', Or.inr (Or.inr ⟨hk, subsFlat_setName e hs.good hc hk hc' (hs.subsFlat hl hc hk)⟩)⟩
  | sqAddElement tok s pos e =>
    simp only [LibCall.ok, Bool.and_eq_true] at hok
    obtain ⟨x, cx, hlx, hcx, hkx⟩ := isVar_spec hok.1
    obtain ⟨y, cy, hly, hcy, hky⟩ := isVar_spec hok.2
    simp only [LibCall.run, LibCall.toCall, hly, Option.map_some]
    have hisx : Is st.heap x .sqObj cx.owner := ⟨cx, hcx, hkx, rfl⟩
    obtain ⟨d, q, w, m, p⟩ := sq_parts hs.good hisx
    obtain ⟨cd, hcd, _, _⟩ := p.isData
    apply shaped_act hs s _ hlx hcx
    apply runs_mono (sqAddElement_spec tok pos hs.good hisx ⟨cy, hcy, hky⟩ p.data hcd)
    intro _ h' ⟨ev, e', _, hie', hd', _⟩
    refine ⟨ev.good.typed, cx, ev.only x cx hcx (by simp [hkx, Kind.isPath]), Or.inr (Or.inr ⟨hkx, ?_⟩)⟩
    apply subsFlat_store ev hs.good hisx p.data hcd hd' (hs.subsFlat hlx hcx hkx)
    intro cobj hcobj hkobj
    obtain ⟨c2, hc2, hk2, _⟩ := hie'
    rw [hcobj] at hc2; cases hc2
    rw [hkobj] at hk2; cases hk2
  | sqAddSub s pos sub =>
    simp only [LibCall.ok, Bool.and_eq_true] at hok
    obtain ⟨x, cx, hlx, hcx, hkx⟩ := isVar_spec hok.1.1
    obtain ⟨y, cy, hly, hcy, hky⟩ := isVar_spec hok.1.2
    have hflat := hok.2
    rw [hly] at hflat
    simp only [LibCall.run, LibCall.toCall, hly, Option.map_some]
    have hisx : Is st.heap x .sqObj cx.owner := ⟨cx, hcx, hkx, rfl⟩
    obtain ⟨d, q, w, m, p⟩ := sq_parts hs.good hisx
    obtain ⟨cd, hcd, _, _⟩ := p.isData
    apply shaped_act hs s _ hlx hcx
    apply runs_mono (sqAddSub_spec pos hs.good hisx ⟨cy, hcy, hky⟩ (flatB_spec hs.good ⟨cy, hcy, hky⟩ hflat)
      (hs.subsFlat hlx hcx hkx) p.data hcd)
    intro _ h' ⟨ev, hf'⟩
    exact ⟨ev.good.typed, cx, ev.only x cx hcx (by simp [hkx, Kind.isPath]), Or.inr (Or.inr ⟨hkx, hf'⟩)⟩
  | sqCopy s to =>
    obtain ⟨x, c, hl, hc, hk⟩ := isVar_spec hok
    simp only [LibCall.run, LibCall.toCall, hl, Option.map_some, State.call]
    apply shaped_derive hs
    have hf := hs.subsFlat hl hc hk
    apply runs_mono (sqCopy_spec hs.good ⟨c, hc, hk⟩ hf)
    intro s' h' ⟨h1, e, d, d', _, hcop⟩
    obtain ⟨c', hc', hk', _⟩ := hcop.isNew
    exact ⟨h1, e.good.typed, c', hc', Or.inr (Or.inr ⟨hk', (sqCopied_flat e hs.good ⟨c, hc, hk⟩ hcop).1 hf⟩)⟩
  | sqAdd a b to =>
    simp only [LibCall.ok, Bool.and_eq_true] at hok
    obtain ⟨x, cx, hlx, hcx, hkx⟩ := isVar_spec hok.1
    obtain ⟨y, cy, hly, hcy, hky⟩ := isVar_spec hok.2
    simp only [LibCall.run, LibCall.toCall, hlx, hly, State.call]
    apply shaped_derive hs
    apply runs_mono (sqAdd_spec hs.good ⟨cx, hcx, hkx⟩ ⟨cy, hcy, hky⟩ (hs.subsFlat hlx hcx hkx)
      (hs.subsFlat hly hcy hky))
    intro z h' ⟨h1, e, ⟨c', hc', hk', _⟩, hf'⟩
    exact ⟨h1, e.good.typed, c', hc', Or.inr (Or.inr ⟨hk', hf'⟩)⟩
  | sqElMutate tok s pos ch =>
    simp only [LibCall.ok, Bool.and_eq_true] at hok
    obtain ⟨x, c, hl, hc, hk⟩ := isVar_spec hok.1
    have hb := hok.2
    rw [hl] at hb
    exact act_seq hs hl hc hk pLeaf_seq
      (sqElMutate_spec tok pos ch hs.good ⟨c, hc, hk, rfl⟩ (sqBpB_spec hb))
  | sqForge tok s =>
    obtain ⟨x, c, hl, hc, hk⟩ := isVar_spec hok
    exact shaped_query hs s _ hl hc
      (runs_mono (sqForge_spec tok (Nat.le_refl _) hs.good ⟨c, hc, hk⟩ (hs.subsFlat hl hc hk))
        (fun _ _ ev => ev.good.typed))
  | tlLinVary tok base ch poss to =>
    simp only [LibCall.ok, Bool.and_eq_true] at hok
    obtain ⟨x, c, hl, hc, hk⟩ := isVar_spec hok.1
    have hb := hok.2
    rw [hl] at hb
    simp only [LibCall.run, LibCall.toCall, hl, Option.map_some, State.call]
    apply shaped_derive hs
    apply runs_mono (tlLinVary_spec tok ch poss hs.good ⟨c, hc, hk⟩ (hasBpB_spec hb))
    intro z h' ⟨h1, hg', _, ⟨c', hc', hk', _⟩, hf'⟩
    exact ⟨h1, hg'.typed, c', hc', Or.inr (Or.inr ⟨hk', hf'⟩)⟩
  | tlVary tok base poss edits to =>
    simp only [LibCall.ok, Bool.and_eq_true] at hok
    obtain ⟨x, c, hl, hc, hk⟩ := isVar_spec hok.1
    have hb := hok.2
    rw [hl] at hb
    simp only [List.all_eq_true, Bool.and_eq_true] at hb
    simp only [LibCall.run, LibCall.toCall, hl, Option.map_some, State.call]
    apply shaped_derive hs
    apply runs_mono (tlVary_spec tok poss edits hs.good ⟨c, hc, hk⟩
      (fun pe hpe => ⟨by simpa using (hb pe hpe).1, hasBpB_spec (hb pe hpe).2⟩))
    intro z h' ⟨h1, hg', _, ⟨c', hc', hk', _⟩, hf'⟩
    exact ⟨h1, hg'.typed, c', hc', Or.inr (Or.inr ⟨hk', hf'⟩)⟩
  | tlRepVary tok seq steps edits to =>
    simp only [LibCall.ok, Bool.and_eq_true] at hok
    obtain ⟨x, c, hl, hc, hk⟩ := isVar_spec hok.1
    have hb := hok.2
    rw [hl] at hb
    simp only [List.all_eq_true] at hb
    simp only [LibCall.run, LibCall.toCall, hl, Option.map_some, State.call]
    apply shaped_derive hs
    apply runs_mono (tlRepVary_spec tok steps edits hs.good ⟨c, hc, hk⟩ (hs.subsFlat hl hc hk)
      (fun pe hpe => sqBpB_spec (hb pe hpe)))
    intro z h' ⟨h1, hg', _, ⟨c', hc', hk', _⟩, hf'⟩
    exact ⟨h1, hg'.typed, c', hc', Or.inr (Or.inr ⟨hk', hf'⟩)⟩

/-! ### histories -/

/-- running a history of library calls -/
def runLib (st : State) (cs : List LibCall) : State := cs.foldl LibCall.run st

/-- every call of the history meets its guard in the state it is made in -/
def guarded : State → List LibCall → Bool
  | _, [] => true
  | st, c :: cs => c.ok st && guarded (c.run st) cs

theorem shaped_runLib (cs : List LibCall) : ∀ (st : State), Shaped st → guarded st cs = true →
    Shaped (runLib st cs) := by
  induction cs with
  | nil => intro st hs _; exact hs
  | cons c cs ih =>
    intro st hs hg
    simp only [guarded, Bool.and_eq_true] at hg
    exact ih (c.run st) (lib_step st c hs hg.1) hg.2

/-- **no history of guarded library calls ever faults**, and the state stays shaped -/
theorem lib_history (cs : List LibCall) (hg : guarded {} cs = true) :
    Shaped (runLib {} cs) ∧ (runLib {} cs).fault = false :=
  ⟨shaped_runLib cs {} shaped_init hg, (shaped_runLib cs {} shaped_init hg).nofault⟩

end BB.Heap
