/-
  BB.Proofs.Heap — what the ownership discipline of BB.Model.Heap guarantees.

  * `exec_ext`    : whatever a program for owner `r` does, it only appends cells owned by `r`
                    and rewrites slots of `r`'s own non-frozen cells (or validation caches);
  * `exec_closed` : references never leave the owner (except to frozen cells);
  * `frame`       : hence everything observable (`unfold`) of any cell of another owner is
                    exactly what it was.
-/
import BB.Model.Heap

namespace BB.Heap

theorem lt_of_get {h : Heap} {a : Nat} {c : Cell} (hc : h[a]? = some c) : a < h.length := by
  rcases Nat.lt_or_ge a h.length with h1 | h1
  · exact h1
  · rw [List.getElem?_eq_none h1] at hc; cases hc

/-- every reference held by a cell points into its own owner's cells or to a frozen cell
    (frozen cells: to frozen cells only) -/
def Closed (h : Heap) : Prop := ∀ (a : Addr) (c : Cell), h[a]? = some c → slotsOk h c.kind c.owner c.slots = true

/-- `h'` is what a program for owner `r` can make of `h` -/
structure Ext (r : Owner) (h h' : Heap) : Prop where
  len : h.length ≤ h'.length
  old : ∀ (a : Addr) (c : Cell), h[a]? = some c → ∃ c' : Cell, h'[a]? = some c' ∧ c'.kind = c.kind ∧ c'.owner = c.owner ∧
          (writable r c = false → c'.slots = c.slots)
  new : ∀ (a : Addr) (c' : Cell), h.length ≤ a → h'[a]? = some c' → c'.owner = r

theorem Ext.refl (r : Owner) (h : Heap) : Ext r h h :=
  ⟨Nat.le_refl _, fun _ c hc => ⟨c, hc, rfl, rfl, fun _ => rfl⟩, fun _ _ hl hc =>
    absurd (lt_of_get hc) (Nat.not_lt.mpr hl)⟩

theorem writable_congr (r : Owner) (c c' : Cell) (hk : c'.kind = c.kind) (ho : c'.owner = c.owner) :
    writable r c' = writable r c := by
  unfold writable; rw [hk, ho]

theorem Ext.trans {r : Owner} {h1 h2 h3 : Heap} (a : Ext r h1 h2) (b : Ext r h2 h3) : Ext r h1 h3 := by
  refine ⟨Nat.le_trans a.len b.len, ?_, ?_⟩
  · intro x c hc
    obtain ⟨c2, h2, k2, o2, s2⟩ := a.old x c hc
    obtain ⟨c3, h3, k3, o3, s3⟩ := b.old x c2 h2
    refine ⟨c3, h3, k3.trans k2, o3.trans o2, ?_⟩
    intro hw
    rw [s3 (by rw [writable_congr r c c2 k2 o2]; exact hw), s2 hw]
  · intro x c3 hl hc3
    rcases Nat.lt_or_ge x h2.length with hx | hx
    · have : ∃ c2, h2[x]? = some c2 := ⟨h2[x], List.getElem?_eq_getElem hx⟩
      obtain ⟨c2, hc2⟩ := this
      obtain ⟨c3', h3', _, o3, _⟩ := b.old x c2 hc2
      rw [hc3] at h3'
      cases h3'
      rw [o3]
      exact a.new x c2 hl hc2
    · exact b.new x c3 hx hc3

/-- appending a cell owned by `r` -/
theorem Ext.alloc (r : Owner) (h : Heap) (k : Kind) (slots : List (String × Slot)) :
    Ext r h (h ++ [⟨k, r, slots⟩]) := by
  refine ⟨by simp, ?_, ?_⟩
  · intro a c hc
    have ha : a < h.length := by
      rcases Nat.lt_or_ge a h.length with h1 | h1
      · exact h1
      · rw [List.getElem?_eq_none h1] at hc; cases hc
    exact ⟨c, by rw [List.getElem?_append_left ha]; exact hc, rfl, rfl, fun _ => rfl⟩
  · intro a c' hl hc'
    have h1 := lt_of_get hc'
    rw [List.length_append, List.length_singleton] at h1
    have : a = h.length := Nat.le_antisymm (Nat.le_of_lt_succ h1) hl
    subst this
    simp at hc'
    rw [← hc']

/-- rewriting the slots of a writable cell -/
theorem Ext.write (r : Owner) (h : Heap) (a : Addr) (c : Cell) (slots : List (String × Slot))
    (hc : h[a]? = some c) (hw : writable r c = true) : Ext r h (h.set a { c with slots := slots }) := by
  refine ⟨by simp, ?_, ?_⟩
  · intro x cx hx
    by_cases hxa : x = a
    · subst hxa
      rw [hc] at hx
      cases hx
      have hl : x < h.length := by
        rcases Nat.lt_or_ge x h.length with h1 | h1
        · exact h1
        · rw [List.getElem?_eq_none h1] at hc; cases hc
      refine ⟨{ c with slots := slots }, by simp [hl], rfl, rfl, ?_⟩
      intro hf; rw [hw] at hf; cases hf
    · exact ⟨cx, by rw [List.getElem?_set_ne (Ne.symm hxa)]; exact hx, rfl, rfl, fun _ => rfl⟩
  · intro x c' hl hc'
    have := lt_of_get hc'
    rw [List.length_set] at this
    exact absurd this (Nat.not_lt.mpr hl)

/-- **frame of a program**: a program for owner `r` only appends cells of `r` and only rewrites
    slots of writable cells -/
theorem execB_ext {α : Type} (base : Nat) (r : Owner) (p : Prog α) :
    ∀ (h h' : Heap) (x : α), execB base r p h = some (x, h') → Ext r h h' := by
  induction p with
  | pure a =>
    intro h h' x hx
    simp only [execB, Option.some.injEq, Prod.mk.injEq] at hx
    rw [← hx.2]; exact Ext.refl r h
  | alloc k slots cont ih =>
    intro h h' x hx
    simp only [execB] at hx
    split at hx
    · exact (Ext.alloc r h k slots).trans (ih _ _ _ _ hx)
    · cases hx
  | write a slots cont ih =>
    intro h h' x hx
    simp only [execB] at hx
    split at hx
    · rename_i c hc
      split at hx
      · rename_i hw
        simp only [Bool.and_eq_true] at hw
        exact (Ext.write r h a c slots hc hw.1.1).trans (ih _ _ _ _ hx)
      · cases hx
    · cases hx
  | read a cont ih =>
    intro h h' x hx
    simp only [execB] at hx
    exact ih _ _ _ _ hx
  | fail =>
    intro h h' x hx
    simp [execB] at hx

theorem exec_ext {α : Type} (r : Owner) (p : Prog α) (h h' : Heap) (x : α) (hx : exec r p h = some (x, h')) : Ext r h h' :=
  execB_ext 0 r p h h' x hx

/-! ### references stay inside the owner -/

/-- kinds and owners of existing cells are kept -/
def Keeps (h h' : Heap) : Prop :=
  ∀ (a : Addr) (c : Cell), h[a]? = some c → ∃ c' : Cell, h'[a]? = some c' ∧ c'.kind = c.kind ∧ c'.owner = c.owner

theorem Ext.keeps {r : Owner} {h h' : Heap} (e : Ext r h h') : Keeps h h' :=
  fun a c hc => let ⟨c', h1, h2, h3, _⟩ := e.old a c hc; ⟨c', h1, h2, h3⟩

theorem refOk_keeps {h h' : Heap} (k : Keeps h h') (r : Owner) (s : Slot) (hs : refOk h r s = true) : refOk h' r s = true := by
  cases s with
  | imm t => rfl
  | ref b =>
    simp only [refOk] at hs ⊢
    split at hs
    · rename_i c hc
      obtain ⟨c', h1, h2, h3⟩ := k b c hc
      simp only [h1, h2, h3]
      exact hs
    · cases hs

theorem refOkFrozen_keeps {h h' : Heap} (k : Keeps h h') (s : Slot) (hs : refOkFrozen h s = true) : refOkFrozen h' s = true := by
  cases s with
  | imm t => rfl
  | ref b =>
    simp only [refOkFrozen] at hs ⊢
    split at hs
    · rename_i c hc
      obtain ⟨c', h1, h2, _⟩ := k b c hc
      simp only [h1, h2]
      exact hs
    · cases hs

theorem slotsOk_keeps {h h' : Heap} (k : Keeps h h') (kd : Kind) (r : Owner) (slots : List (String × Slot))
    (hs : slotsOk h kd r slots = true) : slotsOk h' kd r slots = true := by
  unfold slotsOk at hs ⊢
  split
  · rename_i hf
    simp only [hf, if_true, List.all_eq_true] at hs ⊢
    exact fun s hm => refOkFrozen_keeps k s.2 (hs s hm)
  · rename_i hf
    simp only [hf, Bool.false_eq_true, if_false, List.all_eq_true] at hs ⊢
    exact fun s hm => refOk_keeps k r s.2 (hs s hm)

theorem closed_alloc (r : Owner) (h : Heap) (k : Kind) (slots : List (String × Slot)) (hc : Closed h)
    (hs : slotsOk h k r slots = true) : Closed (h ++ [⟨k, r, slots⟩]) := by
  have kp := (Ext.alloc r h k slots).keeps
  intro a c hac
  rcases Nat.lt_or_ge a h.length with h1 | h1
  · rw [List.getElem?_append_left h1] at hac
    exact slotsOk_keeps kp _ _ _ (hc a c hac)
  · have h2 := lt_of_get hac
    rw [List.length_append, List.length_singleton] at h2
    have : a = h.length := Nat.le_antisymm (Nat.le_of_lt_succ h2) h1
    subst this
    simp at hac
    rw [← hac]
    exact slotsOk_keeps kp _ _ _ hs

theorem closed_write (r : Owner) (h : Heap) (a : Addr) (c : Cell) (slots : List (String × Slot)) (hcl : Closed h)
    (hc : h[a]? = some c) (hw : writable r c = true) (hs : slotsOk h c.kind c.owner slots = true) :
    Closed (h.set a { c with slots := slots }) := by
  have kp := (Ext.write r h a c slots hc hw).keeps
  intro x cx hx
  by_cases hxa : x = a
  · subst hxa
    have hl : x < h.length := by
      rcases Nat.lt_or_ge x h.length with h1 | h1
      · exact h1
      · rw [List.getElem?_eq_none h1] at hc; cases hc
    simp [hl] at hx
    rw [← hx]
    exact slotsOk_keeps kp _ _ _ hs
  · rw [List.getElem?_set_ne (Ne.symm hxa)] at hx
    exact slotsOk_keeps kp _ _ _ (hcl x cx hx)

/-- **programs keep the heap closed** -/
theorem execB_closed {α : Type} (base : Nat) (r : Owner) (p : Prog α) :
    ∀ (h h' : Heap) (x : α), Closed h → execB base r p h = some (x, h') → Closed h' := by
  induction p with
  | pure a =>
    intro h h' x hc hx
    simp only [execB, Option.some.injEq, Prod.mk.injEq] at hx
    rw [← hx.2]; exact hc
  | alloc k slots cont ih =>
    intro h h' x hc hx
    simp only [execB] at hx
    split at hx
    · rename_i hs
      exact ih _ _ _ _ (closed_alloc r h k slots hc hs) hx
    · cases hx
  | write a slots cont ih =>
    intro h h' x hcl hx
    simp only [execB] at hx
    split at hx
    · rename_i c hc
      split at hx
      · rename_i hw
        simp only [Bool.and_eq_true] at hw
        exact ih _ _ _ _ (closed_write r h a c slots hcl hc hw.1.1 hw.2) hx
      · cases hx
    · cases hx
  | read a cont ih =>
    intro h h' x hc hx
    simp only [execB] at hx
    exact ih _ _ _ _ hc hx
  | fail =>
    intro h h' x _ hx
    simp [execB] at hx

theorem exec_closed {α : Type} (r : Owner) (p : Prog α) (h h' : Heap) (x : α) (hc : Closed h)
    (hx : exec r p h = some (x, h')) : Closed h' :=
  execB_closed 0 r p h h' x hc hx

/-! ### the frame: other owners' objects are untouched -/

/-- **frame**: whatever a program for owner `r` does, everything observable of a cell that is
    frozen or belongs to another owner is exactly what it was -/
theorem frame (r : Owner) (h h' : Heap) (e : Ext r h h') (hcl : Closed h) :
    ∀ (n : Nat) (a : Addr) (c : Cell), h[a]? = some c → (c.kind.frozen = true ∨ c.owner ≠ r) → unfold n h a = unfold n h' a := by
  intro n
  induction n with
  | zero => intro a c _ _; rfl
  | succ n ih =>
    intro a c hc hside
    obtain ⟨c', hc', hk, ho, hs⟩ := e.old a c hc
    simp only [unfold, hc, hc', hk]
    by_cases hcache : c.kind = .cache
    · simp [hcache]
    · simp only [hcache, if_false]
      have hnw : writable r c = false := by
        unfold writable
        rcases hside with hf | hne
        · simp [hf]
        · have : (c.owner == r) = false := by simpa using hne
          simp [this, hcache]
      rw [hs hnw]
      congr 1
      apply List.map_congr_left
      intro ks hks
      congr 1
      cases hslot : ks.2 with
      | imm t => rfl
      | ref b =>
        simp only
        have hok := hcl a c hc
        unfold slotsOk at hok
        rcases hside with hf | hne
        · simp only [hf, if_true, List.all_eq_true] at hok
          have := hok ks hks
          rw [hslot] at this
          simp only [refOkFrozen] at this
          split at this
          · rename_i cb hcb
            exact ih b cb hcb (Or.inl this)
          · cases this
        · by_cases hf : c.kind.frozen = true
          · simp only [hf, if_true, List.all_eq_true] at hok
            have := hok ks hks
            rw [hslot] at this
            simp only [refOkFrozen] at this
            split at this
            · rename_i cb hcb
              exact ih b cb hcb (Or.inl this)
            · cases this
          · simp only [hf, Bool.false_eq_true, if_false, List.all_eq_true] at hok
            have := hok ks hks
            rw [hslot] at this
            simp only [refOk] at this
            split at this
            · rename_i cb hcb
              simp only [Bool.or_eq_true, beq_iff_eq] at this
              rcases this with h1 | h1
              · exact ih b cb hcb (Or.inl h1)
              · exact ih b cb hcb (Or.inr (by rw [h1]; exact hne))
            · cases this

/-! ### user-held objects: every history keeps them apart -/

/-- the owner of the cell at `a` -/
def ownerAt (h : Heap) (a : Addr) : Option Owner := (h[a]?).map (·.owner)

structure Inv (st : State) : Prop where
  closed : Closed st.heap
  owners : ∀ (a : Addr) (c : Cell), st.heap[a]? = some c → c.owner < st.nroots
  live : ∀ p ∈ st.vars, ∃ c : Cell, st.heap[p.2]? = some c
  /-- differently named user-held objects have different owners -/
  apart : ∀ p ∈ st.vars, ∀ q ∈ st.vars, p.1 ≠ q.1 → ownerAt st.heap p.2 ≠ ownerAt st.heap q.2

theorem inv_init : Inv {} :=
  ⟨fun a c hc => by simp at hc, fun a c hc => by simp at hc, fun p hp => by simp at hp, fun p hp => by simp at hp⟩

theorem mem_setVar {vars : List (String × Addr)} {k : String} {v : Addr} {p : String × Addr}
    (hp : p ∈ setVar vars k v) : p = (k, v) ∨ (p ∈ vars ∧ p.1 ≠ k) := by
  unfold setVar at hp
  rw [List.mem_append] at hp
  rcases hp with h | h
  · rw [List.mem_filter] at h
    exact Or.inr ⟨h.1, by simpa using h.2⟩
  · simp only [List.mem_singleton] at h
    exact Or.inl h

theorem ownerAt_keeps {h h' : Heap} (k : Keeps h h') (a : Addr) (c : Cell) (hc : h[a]? = some c) :
    ownerAt h' a = ownerAt h a := by
  obtain ⟨c', h1, _, h3⟩ := k a c hc
  simp [ownerAt, hc, h1, h3]

/-- a deriving call keeps the invariant -/
theorem inv_derive (st : State) (name : String) (p : Prog Addr) (hi : Inv st) :
    Inv (st.derive name p) := by
  unfold State.derive
  split
  · rename_i a h' hx
    split
    case isFalse => exact ⟨hi.closed, hi.owners, hi.live, hi.apart⟩
    rename_i hfresh
    have e := exec_ext _ p _ _ _ hx
    have hcl := exec_closed _ p _ _ _ hi.closed hx
    have hnew := hfresh.1
    obtain ⟨cnew, hcnew⟩ : ∃ c : Cell, h'[a]? = some c := ⟨_, List.getElem?_eq_getElem hfresh.2⟩
    refine ⟨hcl, ?_, ?_, ?_⟩
    · intro x c hc
      show c.owner < st.nroots + 1
      rcases Nat.lt_or_ge x st.heap.length with hlt | hge
      · have : ∃ c0, st.heap[x]? = some c0 := ⟨_, List.getElem?_eq_getElem hlt⟩
        obtain ⟨c0, hc0⟩ := this
        obtain ⟨c', h1, _, h3, _⟩ := e.old x c0 hc0
        rw [hc] at h1; cases h1
        rw [h3]
        exact Nat.lt_succ_of_lt (hi.owners x c0 hc0)
      · rw [e.new x c hge hc]; exact Nat.lt_succ_self _
    · intro q hq
      rcases mem_setVar hq with h | h
      · subst h; exact ⟨cnew, hcnew⟩
      · obtain ⟨c, hc⟩ := hi.live q h.1
        obtain ⟨c', h1, _⟩ := e.old q.2 c hc
        exact ⟨c', h1⟩
    · intro q1 hq1 q2 hq2 hne
      have hnewOwner : ownerAt h' a = some st.nroots := by
        simp [ownerAt, hcnew, e.new a cnew hnew hcnew]
      have hold : ∀ q ∈ st.vars, ∃ o, ownerAt h' q.2 = some o ∧ o < st.nroots := by
        intro q hq
        obtain ⟨c, hc⟩ := hi.live q hq
        rw [ownerAt_keeps e.keeps q.2 c hc]
        exact ⟨c.owner, by simp [ownerAt, hc], hi.owners q.2 c hc⟩
      rcases mem_setVar hq1 with h1 | h1 <;> rcases mem_setVar hq2 with h2 | h2
      · subst h1; subst h2; exact absurd rfl hne
      · subst h1
        obtain ⟨o, ho, hlt⟩ := hold q2 h2.1
        show ownerAt h' a ≠ ownerAt h' q2.2
        rw [hnewOwner, ho]
        intro heq; cases heq; exact Nat.lt_irrefl _ hlt
      · subst h2
        obtain ⟨o, ho, hlt⟩ := hold q1 h1.1
        show ownerAt h' q1.2 ≠ ownerAt h' a
        rw [hnewOwner, ho]
        intro heq; cases heq; exact Nat.lt_irrefl _ hlt
      · obtain ⟨c1, hc1⟩ := hi.live q1 h1.1
        obtain ⟨c2, hc2⟩ := hi.live q2 h2.1
        show ownerAt h' q1.2 ≠ ownerAt h' q2.2
        rw [ownerAt_keeps e.keeps q1.2 c1 hc1, ownerAt_keeps e.keeps q2.2 c2 hc2]
        exact hi.apart q1 h1.1 q2 h2.1 hne
  · exact ⟨hi.closed, hi.owners, hi.live, hi.apart⟩

/-- a call on an existing object keeps the invariant -/
theorem inv_act (st : State) (x : Addr) (p : Prog Unit) (hi : Inv st) : Inv (st.act x p) := by
  unfold State.act
  split
  · rename_i c hc
    split
    · rename_i u h' hx
      have e := exec_ext _ p _ _ _ hx
      have hcl := exec_closed _ p _ _ _ hi.closed hx
      refine ⟨hcl, ?_, ?_, ?_⟩
      · intro y cy hcy
        show cy.owner < st.nroots
        rcases Nat.lt_or_ge y st.heap.length with hlt | hge
        · obtain ⟨c0, hc0⟩ : ∃ c0, st.heap[y]? = some c0 := ⟨_, List.getElem?_eq_getElem hlt⟩
          obtain ⟨c', h1, _, h3, _⟩ := e.old y c0 hc0
          rw [hcy] at h1; cases h1
          rw [h3]; exact hi.owners y c0 hc0
        · rw [e.new y cy hge hcy]; exact hi.owners x c hc
      · intro q hq
        obtain ⟨cq, hcq⟩ := hi.live q hq
        obtain ⟨c', h1, _⟩ := e.old q.2 cq hcq
        exact ⟨c', h1⟩
      · intro q1 hq1 q2 hq2 hne
        obtain ⟨c1, hc1⟩ := hi.live q1 hq1
        obtain ⟨c2, hc2⟩ := hi.live q2 hq2
        show ownerAt h' q1.2 ≠ ownerAt h' q2.2
        rw [ownerAt_keeps e.keeps q1.2 c1 hc1, ownerAt_keeps e.keeps q2.2 c2 hc2]
        exact hi.apart q1 hq1 q2 hq2 hne
    · exact ⟨hi.closed, hi.owners, hi.live, hi.apart⟩
  · exact ⟨hi.closed, hi.owners, hi.live, hi.apart⟩

/-- a read-only call keeps the invariant -/
theorem inv_query (st : State) (x : Addr) (p : Prog Unit) (hi : Inv st) : Inv (st.query x p) := by
  unfold State.query
  split
  · rename_i c hc
    split
    · rename_i u h' hx
      have e := execB_ext _ _ p _ _ _ hx
      have hcl := execB_closed _ _ p _ _ _ hi.closed hx
      refine ⟨hcl, ?_, ?_, ?_⟩
      · intro y cy hcy
        show cy.owner < st.nroots
        rcases Nat.lt_or_ge y st.heap.length with hlt | hge
        · obtain ⟨c0, hc0⟩ : ∃ c0, st.heap[y]? = some c0 := ⟨_, List.getElem?_eq_getElem hlt⟩
          obtain ⟨c', h1, _, h3, _⟩ := e.old y c0 hc0
          rw [hcy] at h1; cases h1
          rw [h3]; exact hi.owners y c0 hc0
        · rw [e.new y cy hge hcy]; exact hi.owners x c hc
      · intro q hq
        obtain ⟨cq, hcq⟩ := hi.live q hq
        obtain ⟨c', h1, _⟩ := e.old q.2 cq hcq
        exact ⟨c', h1⟩
      · intro q1 hq1 q2 hq2 hne
        obtain ⟨c1, hc1⟩ := hi.live q1 hq1
        obtain ⟨c2, hc2⟩ := hi.live q2 hq2
        show ownerAt h' q1.2 ≠ ownerAt h' q2.2
        rw [ownerAt_keeps e.keeps q1.2 c1 hc1, ownerAt_keeps e.keeps q2.2 c2 hc2]
        exact hi.apart q1 hq1 q2 hq2 hne
    · exact ⟨hi.closed, hi.owners, hi.live, hi.apart⟩
  · exact ⟨hi.closed, hi.owners, hi.live, hi.apart⟩

theorem inv_call (st : State) (c : Call) (hi : Inv st) : Inv (st.call c) := by
  cases c with
  | derive name p => exact inv_derive st name p hi
  | act target p =>
    simp only [State.call]
    split
    · exact inv_act st _ _ hi
    · exact ⟨hi.closed, hi.owners, hi.live, hi.apart⟩
  | query target p =>
    simp only [State.call]
    split
    · exact inv_query st _ _ hi
    · exact ⟨hi.closed, hi.owners, hi.live, hi.apart⟩

/-- every history of public calls keeps user-held objects apart -/
theorem inv_history (calls : List Call) : Inv (calls.foldl State.call {}) := by
  have : ∀ (st : State), Inv st → Inv (calls.foldl State.call st) := by
    induction calls with
    | nil => intro st h; exact h
    | cons c cs ih => intro st h; exact ih _ (inv_call st c h)
  exact this {} inv_init

/-! ### independence -/

/-- **a call on `x` leaves every other user-held object exactly as it was** — whatever the
    method does, as long as it obeys the ownership discipline (else: fault, nothing changes) -/
theorem act_frame (st : State) (hi : Inv st) (x : Addr) (p : Prog Unit) (y : Addr)
    (cy : Cell) (hy : st.heap[y]? = some cy) (hxy : ownerAt st.heap x ≠ some cy.owner) (n : Nat) :
    unfold n (st.act x p).heap y = unfold n st.heap y := by
  unfold State.act
  split
  · rename_i c hc
    split
    · rename_i u h' hx
      have e := exec_ext _ p _ _ _ hx
      show unfold n h' y = unfold n st.heap y
      symm
      apply frame c.owner st.heap h' e hi.closed n y cy hy
      right
      intro heq
      apply hxy
      simp [ownerAt, hc, heq]
    · rfl
  · rfl

theorem mem_of_lookup {l : List (String × Addr)} {k : String} {v : Addr} (h : l.lookup k = some v) : (k, v) ∈ l := by
  induction l with
  | nil => simp [List.lookup] at h
  | cons p ps ih =>
    obtain ⟨k', v'⟩ := p
    simp only [List.lookup] at h
    split at h
    · rename_i heq
      have : k = k' := by simpa using heq
      cases h
      simp [this]
    · exact List.mem_cons_of_mem _ (ih h)

/-- … in terms of variable names: a call on the object named `tx` changes nothing observable of
    the object named `ty ≠ tx` -/
theorem call_act_frame (st : State) (hi : Inv st) (tx ty : String) (p : Addr → Prog Unit) (y : Addr)
    (hne : tx ≠ ty) (hy : (ty, y) ∈ st.vars) (n : Nat) :
    unfold n (st.call (.act tx p)).heap y = unfold n st.heap y := by
  simp only [State.call]
  split
  · rename_i x hx
    obtain ⟨cy, hcy⟩ := hi.live (ty, y) hy
    have hxm : (tx, x) ∈ st.vars := mem_of_lookup hx
    apply act_frame st hi x (p x) y cy hcy _ n
    have := hi.apart (tx, x) hxm (ty, y) hy hne
    simpa [ownerAt, hcy] using this
  · rfl

/-- a deriving call (constructor, copy, `+`, sweep tool) leaves every existing user-held object
    exactly as it was -/
theorem derive_frame (st : State) (hi : Inv st) (name : String) (p : Prog Addr) (y : Addr)
    (cy : Cell) (hy : st.heap[y]? = some cy) (n : Nat) :
    unfold n (st.derive name p).heap y = unfold n st.heap y := by
  unfold State.derive
  split
  · rename_i a h' hx
    split
    · have e := exec_ext _ p _ _ _ hx
      show unfold n h' y = unfold n st.heap y
      symm
      apply frame st.nroots st.heap h' e hi.closed n y cy hy
      right
      exact Nat.ne_of_lt (hi.owners y cy hy)
    · rfl
  · rfl

/-! ### read-only calls -/

/-- what a read-only program (no writes below `base` except into validation caches) makes of `h` -/
def PureExt (base : Nat) (h h' : Heap) : Prop :=
  ∀ (a : Addr) (c : Cell), h[a]? = some c → a < base →
    ∃ c' : Cell, h'[a]? = some c' ∧ c'.kind = c.kind ∧ c'.owner = c.owner ∧ (c.kind ≠ .cache → c'.slots = c.slots)

theorem PureExt.trans {base : Nat} {h1 h2 h3 : Heap} (a : PureExt base h1 h2) (b : PureExt base h2 h3) : PureExt base h1 h3 := by
  intro x c hc hx
  obtain ⟨c2, h2, k2, o2, s2⟩ := a x c hc hx
  obtain ⟨c3, h3', k3, o3, s3⟩ := b x c2 h2 hx
  exact ⟨c3, h3', k3.trans k2, o3.trans o2, fun hne => by rw [s3 (by rw [k2]; exact hne), s2 hne]⟩

theorem execB_pure {α : Type} (base : Nat) (r : Owner) (p : Prog α) :
    ∀ (h h' : Heap) (x : α), execB base r p h = some (x, h') → PureExt base h h' := by
  induction p with
  | pure a =>
    intro h h' x hx
    simp only [execB, Option.some.injEq, Prod.mk.injEq] at hx
    rw [← hx.2]
    exact fun a c hc _ => ⟨c, hc, rfl, rfl, fun _ => rfl⟩
  | alloc k slots cont ih =>
    intro h h' x hx
    simp only [execB] at hx
    split at hx
    · refine PureExt.trans ?_ (ih _ _ _ _ hx)
      intro a c hc _
      exact ⟨c, by rw [List.getElem?_append_left (lt_of_get hc)]; exact hc, rfl, rfl, fun _ => rfl⟩
    · cases hx
  | write a slots cont ih =>
    intro h h' x hx
    simp only [execB] at hx
    split at hx
    · rename_i c hc
      split at hx
      · rename_i hw
        simp only [Bool.and_eq_true, Bool.or_eq_true, decide_eq_true_eq, beq_iff_eq] at hw
        refine PureExt.trans ?_ (ih _ _ _ _ hx)
        intro y cy hcy hy
        by_cases hya : y = a
        · subst hya
          rw [hc] at hcy; cases hcy
          refine ⟨{ c with slots := slots }, by simp [lt_of_get hc], rfl, rfl, ?_⟩
          intro hne
          rcases hw.1.2 with h1 | h1
          · exact absurd hy (Nat.not_lt.mpr h1)
          · exact absurd h1 hne
        · exact ⟨cy, by rw [List.getElem?_set_ne (Ne.symm hya)]; exact hcy, rfl, rfl, fun _ => rfl⟩
      · cases hx
    · cases hx
  | read a cont ih =>
    intro h h' x hx
    simp only [execB] at hx
    exact ih _ _ _ _ hx
  | fail =>
    intro h h' x hx
    simp [execB] at hx

/-- a read-only program changes nothing observable of any cell that existed before -/
theorem pure_frame (h h' : Heap) (e : PureExt h.length h h') (hcl : Closed h) :
    ∀ (n : Nat) (a : Addr) (c : Cell), h[a]? = some c → unfold n h a = unfold n h' a := by
  intro n
  induction n with
  | zero => intro a c _; rfl
  | succ n ih =>
    intro a c hc
    obtain ⟨c', hc', hk, _, hs⟩ := e a c hc (lt_of_get hc)
    simp only [unfold, hc, hc', hk]
    by_cases hcache : c.kind = .cache
    · simp [hcache]
    · simp only [hcache, if_false]
      rw [hs hcache]
      congr 1
      apply List.map_congr_left
      intro ks hks
      congr 1
      cases hslot : ks.2 with
      | imm t => rfl
      | ref b =>
        simp only
        have hok := hcl a c hc
        unfold slotsOk at hok
        have hb : ∃ cb : Cell, h[b]? = some cb := by
          by_cases hf : c.kind.frozen = true
          · simp only [hf, if_true, List.all_eq_true] at hok
            have := hok ks hks
            rw [hslot] at this
            simp only [refOkFrozen] at this
            split at this
            · rename_i cb hcb; exact ⟨cb, hcb⟩
            · cases this
          · simp only [hf, Bool.false_eq_true, if_false, List.all_eq_true] at hok
            have := hok ks hks
            rw [hslot] at this
            simp only [refOk] at this
            split at this
            · rename_i cb hcb; exact ⟨cb, hcb⟩
            · cases this
        obtain ⟨cb, hcb⟩ := hb
        exact ih b cb hcb

/-- **a read-only call leaves every user-held object — its own receiver included — exactly as it
    was** (or faults, and then nothing changes) -/
theorem query_frame (st : State) (hi : Inv st) (x : Addr) (p : Prog Unit) (y : Addr)
    (cy : Cell) (hy : st.heap[y]? = some cy) (n : Nat) :
    unfold n (st.query x p).heap y = unfold n st.heap y := by
  unfold State.query
  split
  · split
    · rename_i u h' hx
      show unfold n h' y = unfold n st.heap y
      exact (pure_frame st.heap h' (execB_pure _ _ p _ _ _ hx) hi.closed n y cy hy).symm
    · rfl
  · rfl

/-- **independence over histories**: after any history of public calls, any further sequence of
    calls made on other objects (deriving calls included) leaves everything observable of the
    object named `ty` unchanged — "no sequence of public mutations on one side changes the other" -/
theorem independent (hist later : List Call) (ty : String) (y : Addr)
    (hy : (ty, y) ∈ (hist.foldl State.call {}).vars)
    (hother : ∀ c ∈ later, match c with | .act tx _ => tx ≠ ty | .derive nm _ => nm ≠ ty | .query _ _ => True) (n : Nat) :
    unfold n (later.foldl State.call (hist.foldl State.call {})).heap y = unfold n (hist.foldl State.call {}).heap y := by
  have key : ∀ (st : State), Inv st → (ty, y) ∈ st.vars →
      unfold n (later.foldl State.call st).heap y = unfold n st.heap y := by
    induction later with
    | nil => intro st _ _; rfl
    | cons c cs ih =>
      intro st hi hmem
      simp only [List.foldl_cons]
      have hc := hother c (by simp)
      have hi' := inv_call st c hi
      obtain ⟨cy, hcy⟩ := hi.live (ty, y) hmem
      have hmem' : (ty, y) ∈ (st.call c).vars := by
        cases c with
        | act tx p =>
          simp only [State.call]
          split
          · simp only [State.act]; split
            · split <;> exact hmem
            · exact hmem
          · exact hmem
        | derive nm p =>
          simp only [State.call, State.derive]
          split
          · split
            · show (ty, y) ∈ setVar st.vars nm _
              unfold setVar
              rw [List.mem_append]; left
              rw [List.mem_filter]
              exact ⟨hmem, by simpa using fun h => hc h.symm⟩
            · exact hmem
          · exact hmem
        | query tx p =>
          simp only [State.call]
          split
          · simp only [State.query]; split
            · split <;> exact hmem
            · exact hmem
          · exact hmem
      rw [ih (fun c' hc' => hother c' (by simp [hc'])) (st.call c) hi' hmem']
      cases c with
      | act tx p => exact call_act_frame st hi tx ty p y hc hmem n
      | derive nm p => exact derive_frame st hi nm p y cy hcy n
      | query tx p =>
        simp only [State.call]
        split
        · exact query_frame st hi _ _ y cy hcy n
        · rfl
  exact key _ (inv_history hist) hy

/-- **read-only histories** (C08 at the reference level): after any history, any sequence of
    read-only calls — on whichever objects, in whichever order — leaves everything observable of
    every user-held object unchanged -/
theorem readonly_unobservable (hist later : List Call) (ty : String) (y : Addr)
    (hy : (ty, y) ∈ (hist.foldl State.call {}).vars)
    (hro : ∀ c ∈ later, ∃ t p, c = Call.query t p) (n : Nat) :
    unfold n (later.foldl State.call (hist.foldl State.call {})).heap y = unfold n (hist.foldl State.call {}).heap y := by
  apply independent hist later ty y hy
  intro c hc
  obtain ⟨t, p, rfl⟩ := hro c hc
  trivial

end BB.Heap
