/-
  BB.Proofs.G3Prep — what a successful `_prepareForOutputting` establishes: the consistency gate,
  the sequencing keys, the amplitude settings, and — position by position, channel by channel —
  that the forged element holds the channel, with the flags stored on the element's channel and the
  filter declared for the channel.
-/
import BB.Proofs.Sequence
import BB.Proofs.Consistent
import BB.Proofs.DictEq

namespace BB
namespace G3
open Sequence Element

/-! ### generic: `mapM` over a dictionary that keeps the keys -/

theorem dict_mapM_lookup {κ α β : Type} [DecidableEq κ] (f : κ × α → Except Err (κ × β))
    (hk : ∀ x y, f x = .ok y → y.1 = x.1) (d : Dict κ α) (d' : Dict κ β) (h : d.mapM f = .ok d') (k : κ) :
    (∀ v, Dict.get? d k = some v → ∃ w, f (k, v) = .ok (k, w) ∧ Dict.get? d' k = some w) ∧
    (Dict.get? d k = none → Dict.get? d' k = none) := by
  induction d generalizing d' with
  | nil =>
    simp only [List.mapM_nil, pure, Except.pure, Except.ok.injEq] at h
    subst h
    simp [Dict.get?]
  | cons x rest ih =>
    obtain ⟨k0, v0⟩ := x
    rw [mapM_cons_eq] at h
    cases hf : f (k0, v0) with
    | error e => rw [hf] at h; cases h
    | ok y =>
      rw [hf] at h
      simp only at h
      cases hr : rest.mapM f with
      | error e => rw [hr] at h; cases h
      | ok ys =>
        rw [hr] at h
        simp only [Except.ok.injEq] at h
        subst h
        obtain ⟨k1, w1⟩ := y
        have hk1 : k1 = k0 := hk _ _ hf
        subst hk1
        obtain ⟨ih1, ih2⟩ := ih ys hr
        by_cases hkk : k1 = k
        · subst hkk
          constructor
          · intro v hv
            simp only [Dict.get?, List.find?_cons, decide_true, Option.map_some, Option.some.injEq] at hv
            subst hv
            exact ⟨w1, hf, by simp [Dict.get?]⟩
          · intro hn
            simp [Dict.get?] at hn
        · have e1 : Dict.get? ((k1, v0) :: rest) k = Dict.get? rest k := by
            simp [Dict.get?, hkk]
          have e2 : Dict.get? ((k1, w1) :: ys) k = Dict.get? ys k := by
            simp [Dict.get?, hkk]
          rw [e1, e2]
          exact ⟨ih1, ih2⟩

/-! ### inversion of `_prepareForOutputting` -/

theorem prepare_inv (s : Sequence) (P : List (Dict Chan ChOutF)) (h : s.prepareForOutputting = .ok P) :
    ∃ en chans delays els forged,
      s.checkConsistency = .ok true ∧ Dict.get? s.data 1 = some en ∧ en.channels = .ok chans ∧
      sortBy (fun a b => decide (a ≤ b)) (Dict.keys s.sequencing) = oneTo s.data.length ∧
      (∀ ch ∈ chans, Dict.has s.awgspecs (keyOf ch "amplitude") = true) ∧
      chans.mapM s.delayOf = .ok delays ∧ s.prepElements chans delays = .ok els ∧
      els.mapM (fun (e : Element) => e.getArrays false) = .ok forged ∧
      forged.mapM (s.prepFilters chans) = .ok P := by
  unfold prepareForOutputting at h
  split at h
  · cases h
  · cases h
  · rename_i hcc
    split at h
    · cases h
    · rename_i en hen
      split at h
      · cases h
      · rename_i chans hchans
        split at h
        · cases h
        · rename_i hseq
          split at h
          · cases h
          · rename_i hamp
            split at h
            · cases h
            · rename_i delays hdel
              split at h
              · cases h
              · rename_i els hels
                split at h
                · cases h
                · rename_i forged hforged
                  refine ⟨en, chans, delays, els, forged, hcc, hen, hchans, by simpa using hseq, ?_, hdel, hels,
                    hforged, h⟩
                  intro ch hch
                  simp only [List.any_eq_true, not_exists, not_and, Bool.not_eq_true'] at hamp
                  simpa using hamp ch hch

/-- `Sequence.channels` of a consistent sequence is the channel list of the entry at position 1 -/
theorem channels_of_consistent (s : Sequence) (en : Entry) (hcc : s.checkConsistency = .ok true)
    (hen : Dict.get? s.data 1 = some en) : s.channels = en.channels := by
  simp [Sequence.channels, hcc, hen, bind, Except.bind]

theorem channels_inv (s : Sequence) (chs : List Chan) (h : s.channels = .ok chs) :
    s.checkConsistency = .ok true ∧ ∃ en, Dict.get? s.data 1 = some en ∧ en.channels = .ok chs := by
  unfold Sequence.channels at h
  cases hcc : s.checkConsistency with
  | error e => simp [hcc, bind, Except.bind] at h
  | ok b =>
    cases b with
    | false => simp [hcc, bind, Except.bind, throw, throwThe, MonadExceptOf.throw] at h
    | true =>
      refine ⟨rfl, ?_⟩
      cases hen : Dict.get? s.data 1 with
      | none => simp [hcc, hen, bind, Except.bind, throw, throwThe, MonadExceptOf.throw] at h
      | some en =>
        refine ⟨en, rfl, ?_⟩
        simpa [hcc, hen, bind, Except.bind, pure, Except.pure] using h

/-- a prepared sequence has a sequencing entry for every position -/
theorem prepare_sequencing_lookup (s : Sequence) (P : List (Dict Chan ChOutF)) (h : s.prepareForOutputting = .ok P)
    (k : Int) (h1 : 1 ≤ k) (h2 : k ≤ (s.data.length : Int)) : ∃ q, Dict.get? s.sequencing k = some q := by
  obtain ⟨_, _, _, _, _, _, _, _, hseq, _⟩ := prepare_inv s P h
  have hm : k ∈ oneTo s.data.length := by
    unfold oneTo
    simp only [List.mem_map, List.mem_range]
    exact ⟨(k - 1).toNat, by omega, by omega⟩
  rw [← hseq] at hm
  have hk : k ∈ Dict.keys s.sequencing := (sortBy_perm _).subset hm
  have := (Dict.get?_isSome_iff s.sequencing k).mpr hk
  cases hg : Dict.get? s.sequencing k with
  | none => rw [hg] at this; cases this
  | some q => exact ⟨q, rfl⟩

/-! ### the delay loop keeps every channel and its flags -/

theorem prepStep_flags (sr : Val) (M : Rat) (cs cs' : Dict Chan ChEntry) (x : Chan × Rat)
    (h : prepStep sr M cs x = .ok cs') :
    (∃ ent, Dict.get? cs x.1 = some ent) ∧
    ∀ ch, (Dict.get? cs' ch).map (·.flags) = (Dict.get? cs ch).map (·.flags) := by
  unfold prepStep at h
  split at h
  · cases h
  · rename_i ent hent
    refine ⟨⟨ent, hent⟩, ?_⟩
    have key : ∀ (ent' : ChEntry), ent'.flags = ent.flags → ∀ ch,
        (Dict.get? (Dict.upsert cs x.1 ent') ch).map (·.flags) = (Dict.get? cs ch).map (·.flags) := by
      intro ent' hfl ch
      by_cases hc : ch = x.1
      · subst hc
        rw [Dict.get?_upsert_self, hent]
        simp [hfl]
      · rw [Dict.get?_upsert_other _ _ _ _ hc]
    split at h
    · split at h
      · cases h
      · split at h
        · cases h
        · simp only [Except.ok.injEq] at h
          subst h
          exact key _ rfl
    · split at h
      · simp only [Except.ok.injEq] at h
        subst h
        exact key _ rfl
      · cases h
    · cases h

theorem foldlM_prepStep_flags (sr : Val) (M : Rat) (l : List (Chan × Rat)) (cs0 cs : Dict Chan ChEntry)
    (h : l.foldlM (prepStep sr M) cs0 = .ok cs) :
    (∀ x ∈ l, ∃ ent, Dict.get? cs0 x.1 = some ent) ∧
    ∀ ch, (Dict.get? cs ch).map (·.flags) = (Dict.get? cs0 ch).map (·.flags) := by
  induction l generalizing cs0 with
  | nil =>
    simp only [List.foldlM_nil, pure, Except.pure, Except.ok.injEq] at h
    subst h
    exact ⟨by intro x hx; simp at hx, fun _ => rfl⟩
  | cons x rest ih =>
    simp only [List.foldlM_cons, bind, Except.bind] at h
    cases hs : prepStep sr M cs0 x with
    | error er => rw [hs] at h; cases h
    | ok cs1 =>
      rw [hs] at h
      simp only at h
      obtain ⟨hx, hfl⟩ := prepStep_flags sr M cs0 cs1 x hs
      obtain ⟨ih1, ih2⟩ := ih cs1 h
      constructor
      · intro y hy
        rcases List.mem_cons.mp hy with rfl | hy
        · exact hx
        · obtain ⟨ent, hent⟩ := ih1 y hy
          have := hfl y.1
          rw [hent] at this
          cases hg : Dict.get? cs0 y.1 with
          | none => rw [hg] at this; simp at this
          | some e0 => exact ⟨e0, rfl⟩
      · intro ch
        rw [ih2 ch, hfl ch]

/-! ### flags through `getArrays` and the filter pass -/

/-- the flags `getArrays` delivers for a channel -/
def outFlags : ChOut → Option (List Nat)
  | .forged _ fl _ => fl
  | .arrays _ fl _ => fl

theorem chFlags_eq (c : ChOutF) : chFlags c = outFlags c.out := by
  unfold chFlags outFlags
  cases c.out <;> rfl

theorem chanOut_flags (t : Bool) (ent : ChEntry) (o : ChOut) (h : chanOut t ent = .ok o) :
    outFlags o = ent.flags := by
  unfold chanOut at h
  split at h
  · cases hf : forgeBP _ with
    | error e => rw [hf] at h; simp [Except.map] at h
    | ok f =>
      rw [hf] at h
      simp only [Except.map, Except.ok.injEq] at h
      subst h; rfl
  · split at h
    · split at h
      · split at h
        · cases h
        · simp only [Except.ok.injEq] at h; subst h; rfl
      · cases h
    · simp only [Except.ok.injEq] at h; subst h; rfl
  · cases h

theorem getArrays_lookup (e : Element) (t : Bool) (arr : Dict Chan ChOut) (h : e.getArrays t = .ok arr)
    (ch : Chan) (ent : ChEntry) (hent : Dict.get? e.chans ch = some ent) :
    ∃ o, chanOut t ent = .ok o ∧ Dict.get? arr ch = some o := by
  unfold Element.getArrays at h
  have := (dict_mapM_lookup _ (by
    intro x y hxy
    obtain ⟨c, en⟩ := x
    simp only at hxy
    cases hc : chanOut t en with
    | error e => rw [hc] at hxy; simp [Except.map] at hxy
    | ok o =>
      rw [hc] at hxy
      simp only [Except.map, Except.ok.injEq] at hxy
      rw [← hxy]) e.chans arr h ch).1 ent hent
  obtain ⟨w, hw, hg⟩ := this
  simp only at hw
  cases hc : chanOut t ent with
  | error e => rw [hc] at hw; simp [Except.map] at hw
  | ok o =>
    rw [hc] at hw
    simp only [Except.map, Except.ok.injEq, Prod.mk.injEq, true_and] at hw
    subst hw
    exact ⟨o, rfl, hg⟩

theorem prepFilters_lookup (s : Sequence) (chans : List Chan) (d : Dict Chan ChOut) (d' : Dict Chan ChOutF)
    (h : s.prepFilters chans d = .ok d') (ch : Chan) (o : ChOut) (ho : Dict.get? d ch = some o) :
    ∃ c, Dict.get? d' ch = some c ∧ c.out = o ∧ (ch ∈ chans → s.filterOf ch = .ok c.filt) ∧
      (ch ∉ chans → c.filt = none) := by
  unfold prepFilters at h
  have := (dict_mapM_lookup _ (by
    intro x y hxy
    split at hxy
    · cases hf : s.filterOf x.1 with
      | error e => rw [hf] at hxy; simp [Except.map] at hxy
      | ok f =>
        rw [hf] at hxy
        simp only [Except.map, Except.ok.injEq] at hxy
        rw [← hxy]
    · simp only [Except.ok.injEq] at hxy
      rw [← hxy]) d d' h ch).1 o ho
  obtain ⟨c, hc, hg⟩ := this
  refine ⟨c, hg, ?_⟩
  split at hc
  · rename_i hin
    cases hf : s.filterOf ch with
    | error e => rw [hf] at hc; simp [Except.map] at hc
    | ok f =>
      rw [hf] at hc
      simp only [Except.map, Except.ok.injEq, Prod.mk.injEq, true_and] at hc
      subst hc
      refine ⟨rfl, fun _ => rfl, ?_⟩
      intro hn
      exact absurd (by simpa using hin) hn
  · rename_i hin
    simp only [Except.ok.injEq, Prod.mk.injEq, true_and] at hc
    subst hc
    refine ⟨rfl, ?_, fun _ => rfl⟩
    intro hm
    exact absurd (by simpa using hm) hin

/-! ### the cells of a prepared sequence -/

/-- **the forged elements of `_prepareForOutputting`**: there is one per position; the entry at
    every position is an element; and for every channel `ch` of `Sequence.channels` the forged
    element of position `p + 1` holds `ch`, with the flags stored on that channel of the element
    and the filter the sequence declares for `ch` -/
theorem prepare_cells (s : Sequence) (P : List (Dict Chan ChOutF)) (h : s.prepareForOutputting = .ok P) :
    ∃ chans, s.channels = .ok chans ∧ P.length = s.data.length ∧ 0 < P.length ∧
      ∀ p, (hp : p < P.length) → ∃ e, Dict.get? s.data ((p + 1 : Nat) : Int) = some (.el e) ∧
        ∀ ch ∈ chans, ∃ ent c, Dict.get? e.chans ch = some ent ∧ lookupCh P[p] ch = .ok c ∧
          chFlags c = ent.flags ∧ s.filterOf ch = .ok c.filt := by
  obtain ⟨en, chans, delays, els, forged, hcc, hen, hchans, _, _, hdel, hels, hforged, hP⟩ := prepare_inv s P h
  have hch : s.channels = .ok chans := by rw [channels_of_consistent s en hcc hen, hchans]
  unfold prepElements at hels
  have l0 := mapM_ok_length _ _ _ hdel
  have l1 := mapM_ok_length _ _ _ hels
  have l2 := mapM_ok_length _ _ _ hforged
  have l3 := mapM_ok_length _ _ _ hP
  simp only [List.length_range] at l1
  have hpos : 0 < s.data.length := by
    have := Dict.mem_of_get?_eq_some _ _ hen
    exact List.length_pos_of_mem this
  refine ⟨chans, hch, by omega, by omega, ?_⟩
  intro p hp
  have i0 : p < (List.range s.data.length).length := by simp; omega
  have i1 : p < els.length := by omega
  have i2 : p < forged.length := by omega
  have ee := mapM_ok_getElem _ _ _ hels p i0 i1
  rw [List.getElem_range] at ee
  have ef := mapM_ok_getElem _ _ _ hforged p i1 i2
  have ep := mapM_ok_getElem _ _ _ hP p i2 hp
  cases hg : Dict.get? s.data ((p + 1 : Nat) : Int) with
  | none => rw [hg] at ee; cases ee
  | some eni =>
    rw [hg] at ee
    cases eni with
    | sub _ => cases ee
    | el e =>
      refine ⟨e, rfl, ?_⟩
      simp only at ee
      cases hsr : e.getSR with
      | error er => rw [hsr] at ee; cases ee
      | ok srv =>
        rw [hsr] at ee
        simp only at ee
        unfold prepDelayElement at ee
        cases hfold : (chans.zip delays).foldlM (prepStep srv (maxR delays)) e.chans with
        | error er => rw [hfold] at ee; simp [Except.map] at ee
        | ok cs =>
          rw [hfold] at ee
          simp only [Except.map, Except.ok.injEq] at ee
          obtain ⟨hall, hfl⟩ := foldlM_prepStep_flags _ _ _ _ _ hfold
          intro ch hchm
          -- `ch` occurs in the zipped list
          obtain ⟨k, hk, rfl⟩ := List.getElem_of_mem hchm
          have hkz : k < (chans.zip delays).length := by simp; omega
          have hmem : (chans.zip delays)[k] ∈ chans.zip delays := List.getElem_mem hkz
          obtain ⟨ent, hent⟩ := hall _ hmem
          simp only [List.getElem_zip] at hent
          refine ⟨ent, ?_⟩
          -- the delayed element holds the channel with the same flags
          have hfl' := hfl chans[k]
          rw [hent] at hfl'
          cases hcs : Dict.get? cs chans[k] with
          | none => rw [hcs] at hfl'; simp at hfl'
          | some ent' =>
            rw [hcs] at hfl'
            simp only [Option.map_some, Option.some.injEq] at hfl'
            have hels_p : (els[p]).chans = cs := by rw [← ee]
            obtain ⟨o, ho, hgo⟩ := getArrays_lookup els[p] false forged[p] ef chans[k] ent' (by rw [hels_p]; exact hcs)
            obtain ⟨c, hc, hco, hfi, _⟩ := prepFilters_lookup s chans forged[p] P[p] ep chans[k] o hgo
            refine ⟨c, hent, by simp [lookupCh, hc], ?_, hfi hchm⟩
            rw [chFlags_eq, hco, chanOut_flags false ent' o ho, hfl']

end G3
end BB
