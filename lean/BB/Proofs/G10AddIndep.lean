/-
  BB.Proofs.G10AddIndep — property C16, clause "concatenation leaves both operands unchanged", at
  the reference level: the instance of `C09.heap_lib_independent` for `Sequence.__add__`
  (`Heap.LibCall.sqAdd`).  Nothing is re-proved here; the file exists because C09 imports C16 and
  the instance therefore cannot live in `Properties/C16.lean` (see `C16.add_operands_unchanged`
  for the value-level statement).
-/
import BB.Properties.C09
import BB.Properties.C16

namespace BB.G10
open BB BB.Heap

/-- **`u = a + b` leaves both operands unchanged, and so does everything done to the sum afterwards**:
    after any guarded history of library calls, computing `u = a + b` (bound to a name other than
    the operand looked at) and then making any further guarded calls that do not target that operand
    — every public mutator of the sum `u` and of the elements it holds, reads of anything, further
    deriving calls — leaves everything observable of the operand (the object the variable `ty` names:
    `ty = a` or `ty = b`) unchanged, to every depth; no call faults.
    Instance of `C09.heap_lib_independent` with `later := sqAdd a b u :: later'`. -/
theorem add_operands_independent_heap (hist later : List LibCall) (a b u : String)
    (hg : guarded {} (hist ++ LibCall.sqAdd a b u :: later) = true)
    (ty : String) (y : Addr) (hy : (ty, y) ∈ (runLib {} hist).vars) (hu : u ≠ ty)
    (hother : ∀ c ∈ later, c.target ≠ some ty) (n : Nat) :
    (runLib {} (hist ++ LibCall.sqAdd a b u :: later)).fault = false ∧
    unfold n (runLib {} (hist ++ LibCall.sqAdd a b u :: later)).heap y = unfold n (runLib {} hist).heap y := by
  refine C09.heap_lib_independent hist (LibCall.sqAdd a b u :: later) hg ty y hy ?_ n
  intro c hc
  rcases List.mem_cons.mp hc with rfl | hc
  · simp only [LibCall.target, ne_eq, Option.some.injEq]
    exact hu
  · exact hother c hc

/-- non-vacuity: in the example history `u = lv + v` is computed from two swept sequences; the call
    and the calls after it (a sweep of `lv`, a forge) are guarded, do not target the operand `v`,
    and `v` is bound when `+` is called -/
example : guarded {} exLibD = true ∧
    exLibD = [ .bpNew "b", .elNew "e", .elAddBP "e" "1" "b", .tlLinVary 1 "e" "1" ["1", "2"] "lv",
      .tlVary 2 "e" ["1", "2"] [("1", "1"), ("2", "1")] "v" ] ++
      LibCall.sqAdd "lv" "v" "u" :: [ .tlRepVary 3 "lv" 2 [("1", "1")] "rv", .sqForge 4 "rv" ] ∧
    (∀ c ∈ [LibCall.tlRepVary 3 "lv" 2 [("1", "1")] "rv", .sqForge 4 "rv"], c.target ≠ some "v") ∧
    ((runLib {} [ .bpNew "b", .elNew "e", .elAddBP "e" "1" "b", .tlLinVary 1 "e" "1" ["1", "2"] "lv",
      .tlVary 2 "e" ["1", "2"] [("1", "1"), ("2", "1")] "v" ]).vars.lookup "v").isSome = true :=
  ⟨exLibD_guarded, rfl, by decide +kernel, by decide +kernel⟩

end BB.G10
