/-  BB.Proofs.Basic — generic lemmas (core only). -/
import BB.Model.Element
namespace BB
theorem mapM_ok_length {α β} (f : α → Except Err β) (l : List α) (r : List β) (h : l.mapM f = .ok r) :
    r.length = l.length := by
  induction l generalizing r with
  | nil => simp [List.mapM_nil, pure, Except.pure] at h; subst h; rfl
  | cons a t ih =>
    rw [List.mapM_cons] at h
    cases hfa : f a with
    | error e => simp [hfa, bind, Except.bind] at h
    | ok b =>
      cases ht : t.mapM f with
      | error e => simp [hfa, ht, bind, Except.bind] at h
      | ok bs =>
        simp [hfa, ht, bind, Except.bind, pure, Except.pure] at h
        subst h
        simp [ih bs ht]

theorem mapM_ok_getElem {α β} (f : α → Except Err β) (l : List α) (r : List β) (h : l.mapM f = .ok r)
    (i : Nat) (hi : i < l.length) (hr : i < r.length) : f l[i] = .ok r[i] := by
  induction l generalizing r i with
  | nil => simp at hi
  | cons a t ih =>
    rw [List.mapM_cons] at h
    cases hfa : f a with
    | error e => simp [hfa, bind, Except.bind] at h
    | ok b =>
      cases ht : t.mapM f with
      | error e => simp [hfa, ht, bind, Except.bind] at h
      | ok bs =>
        simp [hfa, ht, bind, Except.bind, pure, Except.pure] at h
        subst h
        cases i with
        | zero => simpa using hfa
        | succ i => simpa using ih bs ht i (by simpa using hi) (by simpa using hr)
end BB

namespace BB
namespace Dict
variable {κ α : Type} [DecidableEq κ]

theorem get?_upsert_self (d : Dict κ α) (k : κ) (v : α) : get? (upsert d k v) k = some v := by
  induction d with
  | nil => simp [upsert, get?]
  | cons kv rest ih =>
    obtain ⟨k', w⟩ := kv
    unfold upsert
    by_cases h : k' = k
    · simp [h, get?]
    · simp only [h, if_false]
      simp only [get?, List.find?_cons, h, decide_false] at ih ⊢
      exact ih

theorem get?_upsert_other (d : Dict κ α) (k k2 : κ) (v : α) (hne : k2 ≠ k) :
    get? (upsert d k v) k2 = get? d k2 := by
  induction d with
  | nil => simp [upsert, get?, Ne.symm hne]
  | cons kv rest ih =>
    obtain ⟨k', w⟩ := kv
    unfold upsert
    by_cases h : k' = k
    · subst h
      simp [get?, List.find?_cons, Ne.symm hne]
    · simp only [h, if_false]
      by_cases h2 : k' = k2
      · simp [get?, List.find?_cons, h2]
      · simp only [get?, List.find?_cons, h2, decide_false] at ih ⊢
        exact ih

theorem keys_upsert_of_mem (d : Dict κ α) (k : κ) (v : α) (h : k ∈ keys d) : keys (upsert d k v) = keys d := by
  induction d with
  | nil => simp [keys] at h
  | cons kv rest ih =>
    obtain ⟨k', w⟩ := kv
    unfold upsert
    by_cases hk : k' = k
    · simp [hk, keys]
    · simp only [hk, if_false, keys, List.map_cons]
      have : k ∈ keys rest := by
        simp only [keys, List.map_cons, List.mem_cons] at h
        rcases h with h | h
        · exact absurd h.symm hk
        · exact h
      have := ih this
      simp only [keys] at this
      rw [this]

theorem keys_upsert_of_not_mem (d : Dict κ α) (k : κ) (v : α) (h : k ∉ keys d) : keys (upsert d k v) = keys d ++ [k] := by
  induction d with
  | nil => simp [upsert, keys]
  | cons kv rest ih =>
    obtain ⟨k', w⟩ := kv
    unfold upsert
    have hk : k' ≠ k := by
      intro e; apply h; simp [keys, e]
    simp only [hk, if_false, keys, List.map_cons, List.cons_append]
    have : k ∉ keys rest := by
      intro hm; apply h; simp only [keys, List.map_cons, List.mem_cons]; right; exact hm
    have := ih this
    simp only [keys] at this
    rw [this]

end Dict
end BB

namespace BB
theorem mapM_cons_eq {α β : Type} (f : α → Except Err β) (a : α) (t : List α) :
    (a :: t).mapM f =
      match f a with
      | .error e => .error e
      | .ok b => match t.mapM f with
        | .error e => .error e
        | .ok bs => .ok (b :: bs) := by
  rw [List.mapM_cons]
  cases f a <;> simp [bind, Except.bind]
  cases t.mapM f <;> simp [pure, Except.pure]

theorem mapM_ok_of_forall {α β} (f : α → Except Err β) (g : α → β) (l : List α)
    (h : ∀ x ∈ l, f x = .ok (g x)) : l.mapM f = .ok (l.map g) := by
  induction l with
  | nil => simp [List.mapM_nil, pure, Except.pure]
  | cons a t ih =>
    rw [List.mapM_cons, h a (by simp), ih (fun x hx => h x (by simp [hx]))]
    simp [bind, Except.bind, pure, Except.pure]
end BB
