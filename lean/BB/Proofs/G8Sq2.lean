/-
  BB.Proofs.G8Sq2 — nesting (stored subsequences are flat), heights of sequences, what copies
  inherit, and `Sequence.addElement`.
-/
import BB.Proofs.G8Sq

namespace BB.Heap

/-! ### going back and forth along an evolution -/

theorem follow_congr {h h' : Heap} {a : Addr} {key : String} (hc : h'[a]? = h[a]?) :
    follow h' a key = follow h a key := by simp [follow, hc]

theorem Evo.same {r : Owner} {P : Addr → Kind → Bool} {h h' : Heap} (e : Evo r P h h') {a : Addr} {c : Cell}
    (hc : h[a]? = some c) (hp : P a c.kind = false) : h'[a]? = h[a]? := by rw [e.only a c hc hp, hc]

/-- the element store of a sequence and the cells on the paths into elements were not rewritten -/
def KeptEl (h h' : Heap) : Prop :=
  ∀ (a : Addr) (c : Cell), h[a]? = some c → (c.kind = .elObj ∨ c.kind = .elData ∨ c.kind = .elChan) → h'[a]? = some c

/-- no cell on a path (sequence objects and their stores included) was rewritten -/
def Kept (h h' : Heap) : Prop := ∀ (a : Addr) (c : Cell), h[a]? = some c → c.kind.isPath = true → h'[a]? = some c

theorem Kept.el {h h' : Heap} (k : Kept h h') : KeptEl h h' := by
  intro a c hc hk
  apply k a c hc
  rcases hk with hk | hk | hk <;> rw [hk] <;> rfl

theorem Evo.kept {r : Owner} {h h' : Heap} (e : Evo r pLeaf h h') : Kept h h' :=
  fun a c hc hk => e.only a c hc (by simp [hk])

theorem Evo.keptEl_store {r : Owner} {d : Addr} {h h' : Heap} (e : Evo r (pStore d) h h') : KeptEl h h' := by
  intro a c hc hk
  apply e.only a c hc
  rcases hk with hk | hk | hk <;> simp [hk, Kind.isPath]

theorem KeptEl.trans {h1 h2 h3 : Heap} (a : KeptEl h1 h2) (b : KeptEl h2 h3) : KeptEl h1 h3 :=
  fun x c hc hk => b x c (a x c hc hk) hk

theorem Kept.trans {h1 h2 h3 : Heap} (a : Kept h1 h2) (b : Kept h2 h3) : Kept h1 h3 :=
  fun x c hc hk => b x c (a x c hc hk) hk

theorem Sub.kept {h h' : Heap} (s : Sub h h') : Kept h h' := fun a c hc _ => s a c hc

theorem Sub.keeps {h h' : Heap} (s : Sub h h') : Keeps h h' := fun a c hc => ⟨c, s a c hc, rfl, rfl⟩

/-! ### blueprint channels, seen from an element and from a sequence position -/

/-- channel `ch` of the element at `e` holds a blueprint -/
def HasBp (h : Heap) (e : Addr) (ch : String) : Prop := ∃ b, followPath h e ["_data", ch, "blueprint"] = some b

/-- position `pos` of the sequence at `s` holds an element whose channel `ch` holds a blueprint -/
def SqBp (h : Heap) (s : Addr) (pos ch : String) : Prop :=
  ∃ e, followPath h s ["_data", pos] = some e ∧ IsK h e .elObj ∧ HasBp h e ch

theorem followPath3 {h : Heap} {a b c d : Addr} {k1 k2 k3 : String} (h1 : follow h a k1 = some b)
    (h2 : follow h b k2 = some c) (h3 : follow h c k3 = some d) : followPath h a [k1, k2, k3] = some d := by
  simp [followPath, h1, h2, h3]

theorem followPath2 {h : Heap} {a b c : Addr} {k1 k2 : String} (h1 : follow h a k1 = some b)
    (h2 : follow h b k2 = some c) : followPath h a [k1, k2] = some c := by
  simp [followPath, h1, h2]

theorem HasBp.keep {h h' : Heap} (hg : Good h) (k : KeptEl h h') {e : Addr} {o : Owner} (he : Is h e .elObj o)
    {ch : String} (hb : HasBp h e ch) : HasBp h' e ch := by
  obtain ⟨b, hp⟩ := hb
  obtain ⟨d, chan, hd, hc, hbp, _⟩ := el_bp hg he hp
  have hid : Is h d .elData o := is_follow hg he hd (fun kk hal => by simpa [allowed] using hal) rfl
  have hic : Is h chan .elChan o := is_follow hg hid hc (fun kk hal => by simpa [allowed] using hal) rfl
  obtain ⟨ce, hce, hke, _⟩ := he
  obtain ⟨cd, hcd, hkd, _⟩ := hid
  obtain ⟨cc, hcc, hkc, _⟩ := hic
  refine ⟨b, followPath3 (b := d) (c := chan) ?_ ?_ ?_⟩
  · rw [follow_congr (h := h) (h' := h') (by rw [k e ce hce (Or.inl hke), hce])]; exact hd
  · rw [follow_congr (h := h) (h' := h') (by rw [k d cd hcd (Or.inr (Or.inl hkd)), hcd])]; exact hc
  · rw [follow_congr (h := h) (h' := h') (by rw [k chan cc hcc (Or.inr (Or.inr hkc)), hcc])]; exact hbp

theorem SqBp.keep {h h' : Heap} (hg : Good h) (kp : Keeps h h') (k : Kept h h') {s : Addr} {r : Owner}
    (hs : Is h s .sqObj r) {pos ch : String} (hb : SqBp h s pos ch) : SqBp h' s pos ch := by
  obtain ⟨e, hp, hie, hbp⟩ := hb
  obtain ⟨d, hd, hp2⟩ := followPath_cons hp
  obtain ⟨e', he, hp3⟩ := followPath_cons hp2
  cases followPath_nil hp3
  have hid : Is h d .sqData r := is_follow hg hs hd (fun kk hal => by simpa [allowed] using hal) rfl
  obtain ⟨cs, hcs, hks, _⟩ := hs
  obtain ⟨cd, hcd, hkd, _⟩ := hid
  obtain ⟨ce, hce, hke⟩ := hie
  refine ⟨e, followPath2 (b := d) ?_ ?_, IsK.keeps kp ⟨ce, hce, hke⟩, HasBp.keep hg k.el ⟨ce, hce, hke, rfl⟩ hbp⟩
  · rw [follow_congr (h := h) (h' := h') (by rw [k s cs hcs (by rw [hks]; rfl), hcs])]; exact hd
  · rw [follow_congr (h := h) (h' := h') (by rw [k d cd hcd (by rw [hkd]; rfl), hcd])]; exact he

/-! ### what a copy inherits -/

theorem follow_copy {h : Heap} {n : Nat} {a a' : Addr} {key : String} {b : Addr} (hc : CopyRel h n a a')
    (hf : follow h a key = some b) : ∃ b', follow h a' key = some b' ∧ CopyRel h (n - 1) b b' := by
  cases n with
  | zero => cases hc
  | succ n =>
    obtain ⟨c, c', h1, h2, _, hrel⟩ := hc
    obtain ⟨c0, hc0, hl⟩ := follow_some hf
    rw [h1] at hc0; cases hc0
    obtain ⟨s', hs', hrel'⟩ := hrel.lookup key _ hl
    obtain ⟨b', hb', hR⟩ := hrel'
    subst hb'
    exact ⟨b', follow_of h2 hs', hR⟩

theorem followPath_copy {h : Heap} : ∀ (path : List String) {n : Nat} {a a' x : Addr}, CopyRel h n a a' →
    followPath h a path = some x → ∃ x', followPath h a' path = some x' ∧ CopyRel h (n - path.length) x x' := by
  intro path
  induction path with
  | nil =>
    intro n a a' x hc hp
    cases followPath_nil hp
    exact ⟨a', rfl, by simpa using hc⟩
  | cons k ks ih =>
    intro n a a' x hc hp
    obtain ⟨b, hb, hp2⟩ := followPath_cons hp
    obtain ⟨b', hb', hc'⟩ := follow_copy hc hb
    obtain ⟨x', hx', hcx⟩ := ih hc' hp2
    refine ⟨x', by simp [followPath, hb', hx'], ?_⟩
    have : n - (k :: ks).length = n - 1 - ks.length := by simp; omega
    rw [this]; exact hcx

theorem HasBp.copy {h : Heap} {n : Nat} {e e' : Addr} (hc : CopyRel h n e e') {ch : String} (hb : HasBp h e ch) :
    HasBp h e' ch := by
  obtain ⟨b, hp⟩ := hb
  obtain ⟨b', hp', _⟩ := followPath_copy _ hc hp
  exact ⟨b', hp'⟩

/-! ### flat stores -/

/-- the element store at `d` holds elements only -/
def DataEl (h : Heap) (d : Addr) : Prop :=
  ∀ cd : Cell, h[d]? = some cd → ∀ ks ∈ cd.slots, ∀ (e : Addr) (ce : Cell), ks.2 = .ref e → h[e]? = some ce → ce.kind = .elObj

/-- every subsequence held by the element store at `d` is flat -/
def DataFlat (h : Heap) (d : Addr) : Prop :=
  ∀ cd : Cell, h[d]? = some cd → ∀ ks ∈ cd.slots, ∀ (b : Addr) (cb : Cell), ks.2 = .ref b → h[b]? = some cb →
    cb.kind = .sqObj → FlatSeq h b

theorem flatSeq_iff {h : Heap} {b : Addr} :
    FlatSeq h b ↔ ∀ (cb : Cell) (db : Addr), h[b]? = some cb → ("_data", Slot.ref db) ∈ cb.slots → DataEl h db :=
  ⟨fun hf cb db h1 h2 cdb h3 => hf cb db cdb h1 h2 h3, fun hf cb db cdb h1 h2 h3 => hf cb db h1 h2 cdb h3⟩

theorem subsFlat_iff {h : Heap} {s : Addr} :
    SubsFlat h s ↔ ∀ (cs : Cell) (d : Addr), h[s]? = some cs → ("_data", Slot.ref d) ∈ cs.slots → DataFlat h d :=
  ⟨fun hf cs d h1 h2 cd h3 => hf cs d cd h1 h2 h3, fun hf cs d cd h1 h2 h3 => hf cs d h1 h2 cd h3⟩

/-- a flat sequence holds no subsequence, hence none that is not flat -/
theorem DataEl.flat {h : Heap} {d : Addr} (hd : DataEl h d) : DataFlat h d := by
  intro cd hcd ks hks b cb hb hcb hk
  have := hd cd hcd ks hks b cb hb hcb
  rw [this] at hk; cases hk

theorem FlatSeq.subsFlat {h : Heap} {s : Addr} (hf : FlatSeq h s) : SubsFlat h s :=
  subsFlat_iff.mpr (fun cs d h1 h2 => (flatSeq_iff.mp hf cs d h1 h2).flat)

theorem DataEl.copy {h : Heap} {n : Nat} {d d' : Addr} (hc : CopyRel h n d d') (hd : DataEl h d) : DataEl h d' := by
  intro cd' hcd' ks' hks' e' ce' he' hce'
  cases n with
  | zero => cases hc
  | succ n =>
    obtain ⟨cd, cd2, h1, h2, _, hrel⟩ := hc
    rw [hcd'] at h2; cases h2
    obtain ⟨ks, hks, _, hsr⟩ := hrel.mem_right ks' hks'
    rw [he'] at hsr
    cases hk : ks.2 with
    | imm t => rw [hk] at hsr; simp [SlotRel] at hsr
    | ref e =>
      rw [hk] at hsr
      obtain ⟨e2, he2, hR⟩ := hsr
      cases he2
      obtain ⟨ce, ce2, x1, x2, x3⟩ := hR.kind
      rw [hce'] at x2; cases x2
      rw [x3]; exact hd cd h1 ks hks e ce hk x1

theorem FlatSeq.copy {h : Heap} {n : Nat} {b b' : Addr} (hc : CopyRel h n b b') (hf : FlatSeq h b) : FlatSeq h b' := by
  rw [flatSeq_iff] at hf ⊢
  intro cb' db' hcb' hm'
  cases n with
  | zero => cases hc
  | succ n =>
    obtain ⟨cb, cb2, h1, h2, _, hrel⟩ := hc
    rw [hcb'] at h2; cases h2
    obtain ⟨ks, hks, hkey, hsr⟩ := hrel.mem_right _ hm'
    cases hk : ks.2 with
    | imm t => rw [hk] at hsr; simp [SlotRel] at hsr
    | ref db =>
      rw [hk] at hsr
      obtain ⟨d2, hd2, hR⟩ := hsr
      cases hd2
      have hm : ("_data", Slot.ref db) ∈ cb.slots := by
        have : ks = ("_data", Slot.ref db) := by
          obtain ⟨k0, s0⟩ := ks
          simp only at hkey hk
          rw [← hkey, hk]
        rw [← this]; exact hks
      exact (hf cb db h1 hm).copy hR

theorem DataFlat.copy {h : Heap} {n : Nat} {d d' : Addr} (hc : CopyRel h n d d') (hd : DataFlat h d) : DataFlat h d' := by
  intro cd' hcd' ks' hks' b' cb' hb' hcb' hkb'
  cases n with
  | zero => cases hc
  | succ n =>
    obtain ⟨cd, cd2, h1, h2, _, hrel⟩ := hc
    rw [hcd'] at h2; cases h2
    obtain ⟨ks, hks, _, hsr⟩ := hrel.mem_right ks' hks'
    rw [hb'] at hsr
    cases hk : ks.2 with
    | imm t => rw [hk] at hsr; simp [SlotRel] at hsr
    | ref b =>
      rw [hk] at hsr
      obtain ⟨b2, hb2, hR⟩ := hsr
      cases hb2
      obtain ⟨cb, cb2, x1, x2, x3⟩ := hR.kind
      rw [hcb'] at x2; cases x2
      exact (hd cd h1 ks hks b cb hk x1 (by rw [← x3]; exact hkb')).copy hR

/-! ### flatness survives evolutions that leave sequence objects and their stores alone -/

theorem DataEl.keep {h h' : Heap} (kp : Keeps h h') (hg : Good h) {d : Addr} {cd : Cell} (hcd : h[d]? = some cd)
    (hcd' : h'[d]? = some cd) (hd : DataEl h d) : DataEl h' d := by
  intro cd2 hcd2 ks hks e ce' he hce'
  rw [hcd'] at hcd2; cases hcd2
  have hm : (ks.1, Slot.ref e) ∈ cd.slots := by rw [← he]; exact hks
  obtain ⟨ce, hce, _, _⟩ := good_ref hg hcd hm
  obtain ⟨ce2, x1, x2, _⟩ := kp e ce hce
  rw [hce'] at x1; cases x1
  rw [x2]; exact hd cd hcd ks hks e ce he hce

theorem FlatSeq.keep {h h' : Heap} (kp : Keeps h h') (hg : Good h) {b : Addr} {cb : Cell} (hcb : h[b]? = some cb)
    (hcb' : h'[b]? = some cb)
    (hdb : ∀ db cdb, ("_data", Slot.ref db) ∈ cb.slots → h[db]? = some cdb → h'[db]? = some cdb)
    (hf : FlatSeq h b) : FlatSeq h' b := by
  rw [flatSeq_iff] at hf ⊢
  intro cb2 db hcb2 hm
  rw [hcb'] at hcb2; cases hcb2
  obtain ⟨cdb, hcdb, _, _⟩ := good_ref hg hcb hm
  exact (hf cb db hcb hm).keep kp hg hcdb (hdb db cdb hm hcdb)

/-- the `_data` attribute of a sequence object leads to a store -/
theorem sq_data_kind {h : Heap} (hg : Good h) {s : Addr} {cs : Cell} (hcs : h[s]? = some cs) (hk : cs.kind = .sqObj)
    {d : Addr} (hm : ("_data", Slot.ref d) ∈ cs.slots) : ∃ cd : Cell, h[d]? = some cd ∧ cd.kind = .sqData := by
  obtain ⟨cd, hcd, hal, _⟩ := good_ref hg hcs hm
  rw [hk] at hal
  exact ⟨cd, hcd, by simpa [allowed] using hal⟩

theorem DataFlat.keep {r : Owner} {P : Addr → Kind → Bool} {h h' : Heap} (e : Evo r P h h') (hg : Good h)
    (hP : ∀ a k, k.isSeq = true → P a k = false) {d : Addr} {cd : Cell} (hcd : h[d]? = some cd)
    (hcd' : h'[d]? = some cd) (hd : DataFlat h d) : DataFlat h' d := by
  intro cd2 hcd2 ks hks b cb' hb hcb' hkb'
  rw [hcd'] at hcd2; cases hcd2
  have hm : (ks.1, Slot.ref b) ∈ cd.slots := by rw [← hb]; exact hks
  obtain ⟨cb, hcb, _, _⟩ := good_ref hg hcd hm
  obtain ⟨cb2, x1, x2, _⟩ := e.keeps b cb hcb
  rw [hcb'] at x1; cases x1
  have hkb : cb.kind = .sqObj := by rw [← x2]; exact hkb'
  have hsame : h'[b]? = some cb := e.only b cb hcb (hP b _ (by rw [hkb]; rfl))
  rw [hcb'] at hsame; cases hsame
  apply (hd cd hcd ks hks b cb' hb hcb hkb).keep e.keeps hg hcb hcb'
  intro db cdb hmdb hcdb
  obtain ⟨cdb2, y1, y2⟩ := sq_data_kind hg hcb hkb hmdb
  rw [hcdb] at y1; cases y1
  exact e.only db cdb hcdb (hP db _ (by rw [y2]; rfl))

theorem SubsFlat.keep {r : Owner} {P : Addr → Kind → Bool} {h h' : Heap} (e : Evo r P h h') (hg : Good h)
    (hP : ∀ a k, k.isSeq = true → P a k = false) {s : Addr} (hs : IsK h s .sqObj) (hf : SubsFlat h s) :
    SubsFlat h' s := by
  rw [subsFlat_iff] at hf ⊢
  obtain ⟨cs, hcs, hks⟩ := hs
  intro cs2 d hcs2 hm
  have hsame : h'[s]? = some cs := e.only s cs hcs (hP s _ (by rw [hks]; rfl))
  rw [hsame] at hcs2; cases hcs2
  obtain ⟨cd, hcd, hkd⟩ := sq_data_kind hg hcs hks hm
  exact (hf cs d hcs hm).keep e hg hP hcd (e.only d cd hcd (hP d _ (by rw [hkd]; rfl)))

/-! ### heights of sequences -/

theorem fits_dataEl {h : Heap} (hg : Good h) {d : Addr} {cd : Cell} (hcd : h[d]? = some cd) (hd : DataEl h d) :
    Fits 6 h d := by
  refine ⟨cd, hcd, ?_⟩
  intro ks hks e he
  have hm : (ks.1, Slot.ref e) ∈ cd.slots := by rw [← he]; exact hks
  obtain ⟨ce, hce, _, _⟩ := good_ref hg hcd hm
  have hk := hd cd hcd ks hks e ce he hce
  exact fits_of_rank hg.typed 5 e ce hce (by rw [hk]; rfl) (by rw [hk]; decide)

theorem fits_flatSeq {h : Heap} (hg : Good h) {b : Addr} {cb : Cell} (hcb : h[b]? = some cb) (hk : cb.kind = .sqObj)
    (hf : FlatSeq h b) : Fits 7 h b := by
  refine ⟨cb, hcb, ?_⟩
  intro ks hks x hx
  have hm : (ks.1, Slot.ref x) ∈ cb.slots := by rw [← hx]; exact hks
  obtain ⟨cx, hcx, hal, _⟩ := good_ref hg hcb hm
  rw [hk] at hal
  by_cases hseq : cx.kind.isSeq = true
  · have hkey : ks.1 = "_data" ∧ cx.kind = .sqData := by
      revert hal hseq
      cases cx.kind <;> simp [allowed, Kind.isSeq]
    have hm' : ("_data", Slot.ref x) ∈ cb.slots := by rw [← hkey.1]; exact hm
    exact fits_dataEl hg hcx (flatSeq_iff.mp hf cb x hcb hm')
  · have hseq' : cx.kind.isSeq = false := by simpa using hseq
    apply fits_of_rank hg.typed 6 x cx hcx hseq'
    revert hseq'
    cases cx.kind <;> simp [rank, Kind.isSeq]

theorem fits_dataFlat {h : Heap} (hg : Good h) {d : Addr} {cd : Cell} (hcd : h[d]? = some cd) (hkd : cd.kind = .sqData)
    (hd : DataFlat h d) : Fits depth h d := by
  apply Fits.mono (n := 8) _ (by decide)
  refine ⟨cd, hcd, ?_⟩
  intro ks hks b hb
  have hm : (ks.1, Slot.ref b) ∈ cd.slots := by rw [← hb]; exact hks
  obtain ⟨cb, hcb, hal, _⟩ := good_ref hg hcd hm
  rw [hkd] at hal
  simp only [allowed, Bool.or_eq_true, beq_iff_eq] at hal
  rcases hal with hal | hal
  · exact Fits.mono (fits_of_rank hg.typed 5 b cb hcb (by rw [hal]; rfl) (by rw [hal]; decide)) (by decide)
  · exact fits_flatSeq hg hcb hal (hd cd hcd ks hks b cb hb hcb hal)

end BB.Heap
