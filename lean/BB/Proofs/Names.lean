/-
  BB.Proofs.Names — lemmas about `basename`, `render`, `makeNamesUnique` (core + Std only).
-/
import Std.Data.String.ToNat
import BB.Model.Names

namespace BB

def NoTrailingDigit (b : List Char) : Prop := ∀ c, b.getLast? = some c → c.isDigit = false

theorem dropWhile_digits_append (ds b : List Char) (hd : ∀ c ∈ ds, c.isDigit = true)
    (hb : ∀ c, b.head? = some c → c.isDigit = false) :
    (ds ++ b).dropWhile Char.isDigit = b := by
  induction ds with
  | nil =>
    cases b with
    | nil => rfl
    | cons c t =>
      have := hb c rfl
      simp [List.dropWhile, this]
  | cons d ds ih =>
    have h1 := hd d (by simp)
    simp only [List.cons_append, List.dropWhile_cons, h1, if_true]
    exact ih (fun c hc => hd c (by simp [hc]))

theorem basenameL_append_digits (b ds : List Char) (hb : NoTrailingDigit b)
    (hd : ∀ c ∈ ds, c.isDigit = true) : basenameL (b ++ ds) = b := by
  unfold basenameL
  rw [List.reverse_append, dropWhile_digits_append]
  · simp
  · intro c hc; exact hd c (by simpa using hc)
  · intro c hc
    apply hb c
    simpa [List.head?_reverse] using hc

theorem dropWhile_head_not (p : Char → Bool) (l : List Char) :
    ∀ c, (l.dropWhile p).head? = some c → p c = false := by
  induction l with
  | nil => intro c h; simp at h
  | cons a t ih =>
    intro c h
    by_cases ha : p a = true
    · simp only [List.dropWhile_cons, ha, if_true] at h; exact ih c h
    · simp only [List.dropWhile_cons, ha] at h
      simp at h
      subst h; simpa using ha

/-- a base name never ends in a digit -/
theorem basenameL_noTrailing (s : List Char) : NoTrailingDigit (basenameL s) := by
  intro c hc
  unfold basenameL at hc
  rw [List.getLast?_reverse] at hc
  exact dropWhile_head_not _ _ c hc

theorem repr_digits (k : Nat) : ∀ c ∈ (Nat.repr k).toList, c.isDigit = true := by
  intro c hc
  rw [Nat.toList_repr] at hc
  exact Nat.isDigit_of_mem_toDigits (by decide) (by decide) hc

theorem basenameL_render (b : List Char) (r : Nat) (hb : NoTrailingDigit b) :
    basenameL (renderL b r) = b := by
  unfold renderL
  split
  · have := basenameL_append_digits b [] hb (by simp); simpa using this
  · exact basenameL_append_digits b _ hb (repr_digits _)

/-- `basename` is idempotent -/
theorem basenameL_idem (s : List Char) : basenameL (basenameL s) = basenameL s := by
  have := basenameL_append_digits (basenameL s) [] (basenameL_noTrailing s) (by simp)
  simpa using this

theorem renderL_inj (b b' : List Char) (r r' : Nat) (hb : NoTrailingDigit b)
    (hb' : NoTrailingDigit b') (h : renderL b r = renderL b' r') : b = b' ∧ r = r' := by
  have e : b = b' := by
    have := congrArg basenameL h
    rwa [basenameL_render b r hb, basenameL_render b' r' hb'] at this
  subst e
  refine ⟨rfl, ?_⟩
  unfold renderL at h
  split at h <;> split at h
  · omega
  · have := congrArg List.length h
    have hpos : 0 < ((r' + 1).repr).toList.length := by
      rw [Nat.toList_repr]; exact Nat.length_toDigits_pos
    simp at this
  · have := congrArg List.length h
    have hpos : 0 < ((r + 1).repr).toList.length := by
      rw [Nat.toList_repr]; exact Nat.length_toDigits_pos
    simp at this
  · have h2 := List.append_cancel_left h
    have : (r+1).repr = (r'+1).repr := String.ext (by simpa using h2)
    have := Nat.repr_injective this
    omega

/-! ### the single-pass uniquifier -/

theorem mnuGo_length (ns seen : List (List Char)) : (mnuGo ns seen).length = ns.length := by
  induction ns generalizing seen with
  | nil => rfl
  | cons n ns ih => simp [mnuGo, ih]

/-- the renamed list depends on the input only through the base names -/
theorem mnuGo_congr (ns ms seen : List (List Char)) (h : ns.map basenameL = ms.map basenameL) :
    mnuGo ns seen = mnuGo ms seen := by
  induction ns generalizing ms seen with
  | nil => cases ms with
    | nil => rfl
    | cons m ms => simp at h
  | cons n ns ih =>
    cases ms with
    | nil => simp at h
    | cons m ms =>
      simp only [List.map_cons, List.cons.injEq] at h
      simp only [mnuGo, h.1]
      rw [ih ms _ h.2]

/-- closed form: entry `i` is its base rendered with the number of earlier occurrences -/
theorem mnuGo_getElem (ns seen : List (List Char)) (i : Nat) (h : i < ns.length) :
    (mnuGo ns seen)[i]'(by rw [mnuGo_length]; exact h) =
      renderL (basenameL ns[i])
        (seen.count (basenameL ns[i]) + ((ns.map basenameL).take i).count (basenameL ns[i])) := by
  induction ns generalizing seen i with
  | nil => simp at h
  | cons n ns ih =>
    cases i with
    | zero => simp [mnuGo]
    | succ i =>
      simp only [mnuGo, List.getElem_cons_succ, List.map_cons, List.take_succ_cons]
      rw [ih (basenameL n :: seen) i (by simpa using h)]
      congr 1
      simp only [List.count_cons]
      omega

theorem mnuGo_bases (ns seen : List (List Char)) :
    (mnuGo ns seen).map basenameL = ns.map basenameL := by
  induction ns generalizing seen with
  | nil => rfl
  | cons n ns ih =>
    simp only [mnuGo, List.map_cons, ih]
    rw [basenameL_render _ _ (basenameL_noTrailing n)]

theorem makeNamesUniqueL_length (ns : List (List Char)) :
    (makeNamesUniqueL ns).length = ns.length := mnuGo_length ns []

/-- property C05, the naming rule: the k-th segment (k = rank + 1) sharing a base is called
    `base` for k = 1 and `base ++ str(k)` otherwise -/
theorem makeNamesUniqueL_getElem (ns : List (List Char)) (i : Nat) (h : i < ns.length) :
    (makeNamesUniqueL ns)[i]'(by rw [makeNamesUniqueL_length]; exact h) =
      renderL (basenameL ns[i]) (((ns.map basenameL).take i).count (basenameL ns[i])) := by
  unfold makeNamesUniqueL
  rw [mnuGo_getElem ns [] i h]; simp

theorem makeNamesUniqueL_idem (ns : List (List Char)) :
    makeNamesUniqueL (makeNamesUniqueL ns) = makeNamesUniqueL ns := by
  unfold makeNamesUniqueL
  exact mnuGo_congr _ _ _ (mnuGo_bases ns [])

theorem count_take_lt {α} [BEq α] [LawfulBEq α] (l : List α) (i j : Nat) (hij : i < j) (hj : j < l.length)
    (e : l[i]'(by omega) = l[j]) :
    (l.take i).count l[j] < (l.take j).count l[j] := by
  have hsplit : l.take j = l.take i ++ (l.drop i).take (j - i) := by
    rw [← List.take_add]; congr 1; omega
  rw [hsplit, List.count_append]
  have : 0 < ((l.drop i).take (j - i)).count l[j] := by
    apply List.count_pos_iff.mpr
    rw [List.mem_iff_getElem]
    refine ⟨0, by simp; omega, ?_⟩
    simp [e]
  omega

/-- property C05: after uniquifying, names are pairwise distinct -/
theorem makeNamesUniqueL_nodup (ns : List (List Char)) : (makeNamesUniqueL ns).Nodup := by
  rw [List.Nodup, List.pairwise_iff_getElem]
  intro i j hi hj hij heq
  have hi' : i < ns.length := by rw [makeNamesUniqueL_length] at hi; exact hi
  have hj' : j < ns.length := by rw [makeNamesUniqueL_length] at hj; exact hj
  rw [makeNamesUniqueL_getElem ns i hi', makeNamesUniqueL_getElem ns j hj'] at heq
  obtain ⟨hb, hr⟩ := renderL_inj _ _ _ _ (basenameL_noTrailing _) (basenameL_noTrailing _) heq
  have hlen : j < (ns.map basenameL).length := by simpa using hj'
  have key := count_take_lt (ns.map basenameL) i j hij hlen (by simpa using hb)
  simp only [List.getElem_map] at key
  rw [hb] at hr
  omega

/-! ### the `String` wrappers used by the model -/

theorem map_toList_ofList (l : List (List Char)) : (l.map String.ofList).map String.toList = l := by
  induction l with
  | nil => rfl
  | cons a t ih => simp [String.toList_ofList]

theorem makeNamesUnique_length (ns : List String) : (makeNamesUnique ns).length = ns.length := by
  simp [makeNamesUnique, makeNamesUniqueL_length]

theorem makeNamesUnique_idem (ns : List String) :
    makeNamesUnique (makeNamesUnique ns) = makeNamesUnique ns := by
  unfold makeNamesUnique
  rw [map_toList_ofList, makeNamesUniqueL_idem]

theorem ofList_injective : Function.Injective String.ofList := by
  intro a b h
  have := congrArg String.toList h
  simpa [String.toList_ofList] using this

theorem makeNamesUnique_nodup (ns : List String) : (makeNamesUnique ns).Nodup := by
  unfold makeNamesUnique
  exact List.Pairwise.map String.ofList (fun a b hab h => hab (ofList_injective h)) (makeNamesUniqueL_nodup _)

/-- uniquifying depends on the input only through the base names -/
theorem makeNamesUnique_congr (ns ms : List String) (h : ns.map basename = ms.map basename) :
    makeNamesUnique ns = makeNamesUnique ms := by
  unfold makeNamesUnique makeNamesUniqueL
  congr 1
  apply mnuGo_congr
  have h2 := congrArg (List.map String.toList) h
  simpa [basename, List.map_map, Function.comp_def, String.toList_ofList] using h2

/-- the base names are unchanged by uniquifying -/
theorem makeNamesUnique_bases (ns : List String) :
    (makeNamesUnique ns).map basename = ns.map basename := by
  have h := mnuGo_bases (ns.map String.toList) []
  have h2 := congrArg (List.map String.ofList) h
  unfold basename
  simpa [makeNamesUnique, makeNamesUniqueL, List.map_map, Function.comp_def,
    String.toList_ofList] using h2

end BB
