/-
  BB.Proofs.G8Sq3 — `Sequence.addElement`, `copy`, `addSubSequence`, element edits through a
  sequence, and `forge` never fault on well-formed heaps.
-/
import BB.Proofs.G8Sq2

namespace BB.Heap

theorem defaultSetting_imm : ∀ ks ∈ defaultSetting, ∃ t, ks.2 = Slot.imm t :=
  imm5 0 1 0 0 0 "twait" "nrep" "jump_input" "jump_target" "goto"

/-! ### storing under a position -/

/-- `self._data[pos] = obj` plus the default sequencing entry, for a fresh `obj` of the owner -/
theorem sqStore_spec {r : Owner} {h : Heap} {s obj : Addr} {k : Kind} (pos : String) (hg : Good h)
    (hs : Is h s .sqObj r) (hobj : Is h obj k r) (hk : k = .elObj ∨ k = .sqObj) {d : Addr} {cd : Cell}
    (hd : follow h s "_data" = some d) (hcd : h[d]? = some cd) :
    Runs 0 r (sqStore s pos obj) h (fun _ h' => Evo r (pStore d) h h' ∧
      h'[d]? = some { cd with slots := upsertSlot cd.slots pos (.ref obj) }) := by
  unfold sqStore
  have hid : Is h d .sqData r := is_follow hg hs hd (fun kk hal => by simpa [allowed] using hal) rfl
  obtain ⟨cd0, hcd0, hkd, hod⟩ := hid
  rw [hcd] at hcd0; cases hcd0
  apply runs_bind
  apply runs_follow hd
  apply runs_bind
  apply runs_upsert (P := pStore d) hg hcd (Is.writable hcd ⟨cd, hcd, hkd, hod⟩ rfl) (Or.inl (Nat.zero_le _))
  · rw [hkd, hod]; exact slotsOk_one_own rfl hobj
  · rw [hkd]; exact slotOkT_is hobj (by rcases hk with rfl | rfl <;> simp [allowed])
  · left; rw [hkd]; rfl
  · simp [hkd, Kind.isPath]
  intro h1 e1 hd1 _
  apply runs_bind
  apply runs_new e1.good (slotsOk_imm defaultSetting_imm) (cellOk_flat rfl defaultSetting_imm)
  intro h2 e2 hst
  apply runs_mono (storeSetting_spec pos e2.good ((hs.keeps e1.keeps).sub e2.sub) (is_new hst))
  intro _ h3 e3
  refine ⟨(e1.trans e2.low_of_none).trans e3.store_of_leaf, ?_⟩
  exact e3.only d _ (e2.sub d _ hd1) (by simp [hkd, Kind.isPath])

/-- storing a fresh element, or a fresh flat subsequence, keeps the stored subsequences flat -/
theorem subsFlat_store {r : Owner} {h h' : Heap} {s d : Addr} {cd : Cell} {pos : String} {obj : Addr}
    (e : Evo r (pStore d) h h') (hg : Good h) (hs : Is h s .sqObj r) (hd : follow h s "_data" = some d)
    (hcd : h[d]? = some cd) (hcd' : h'[d]? = some { cd with slots := upsertSlot cd.slots pos (.ref obj) })
    (hf : SubsFlat h s) (hobj : ∀ cobj, h'[obj]? = some cobj → cobj.kind = .sqObj → FlatSeq h' obj) :
    SubsFlat h' s := by
  obtain ⟨d0, q, w, m, p⟩ := sq_parts hg hs
  have hdd : d0 = d := by have := p.data; rw [hd] at this; cases this; rfl
  subst hdd
  obtain ⟨cs, hcs, hks, hos⟩ := hs
  obtain ⟨t, hslots⟩ := sq_slots hg hcs hks p
  intro cs2 d2 cd2 hcs2 hm hcd2 ks hks' b cb' hb hcb' hkb'
  have hsame : h'[s]? = some cs := e.only s cs hcs (by simp [hks, Kind.isPath])
  rw [hsame] at hcs2; cases hcs2
  have hd2 : d2 = d0 := by rw [hslots] at hm; simpa using hm
  subst hd2
  rw [hcd'] at hcd2; cases hcd2
  rcases mem_upsertSlot hks' with hnew | hold
  · subst hnew
    cases hb
    exact hobj cb' hcb' hkb'
  · have hmb : (ks.1, Slot.ref b) ∈ cd.slots := by rw [← hb]; exact hold
    obtain ⟨cb, hcb, _, _⟩ := good_ref hg hcd hmb
    obtain ⟨cb2, x1, x2, _⟩ := e.keeps b cb hcb
    rw [hcb'] at x1; cases x1
    have hkb : cb.kind = .sqObj := by rw [← x2]; exact hkb'
    have hsameb : h'[b]? = some cb := e.only b cb hcb (by simp [hkb, Kind.isPath])
    rw [hcb'] at hsameb; cases hsameb
    have hfb : FlatSeq h b := hf cs d2 cd hcs (by rw [hslots]; simp) hcd ks hold b cb' hb hcb hkb
    apply hfb.keep e.keeps hg hcb hcb'
    intro db cdb hmdb hcdb
    obtain ⟨cdb2, y1, y2⟩ := sq_data_kind hg hcb hkb hmdb
    rw [hcdb] at y1; cases y1
    apply e.only db cdb hcdb
    have hne : db ≠ d2 := by
      intro heq; subst heq
      rw [hcd] at hcdb; cases hcdb
      have := hfb cb' db cd hcb hmdb hcd ks hold b cb' hb hcb
      rw [hkb] at this; cases this
    simp [y2, Kind.isPath, hne]

/-! ### `Sequence.addElement` -/

/-- **`Sequence.addElement` never faults**: the argument's cache is filled, a deep copy of it is
    stored; the stored copy has the blueprint channels of the argument -/
theorem sqAddElement_spec {r : Owner} {h : Heap} {s e : Addr} (tok : Nat) (pos : String) (hg : Good h)
    (hs : Is h s .sqObj r) (he : IsK h e .elObj) {d : Addr} {cd : Cell}
    (hd : follow h s "_data" = some d) (hcd : h[d]? = some cd) :
    Runs 0 r (sqAddElement tok s pos e) h (fun _ h' => Evo r (pStore d) h h' ∧
      ∃ e', h.length ≤ e' ∧ Is h' e' .elObj r ∧
        h'[d]? = some { cd with slots := upsertSlot cd.slots pos (.ref e') } ∧
        (∀ ch, HasBp h e ch → HasBp h' e' ch)) := by
  unfold sqAddElement
  have hid : Is h d .sqData r := is_follow hg hs hd (fun kk hal => by simpa [allowed] using hal) rfl
  obtain ⟨cd0, hcd0, hkd, _⟩ := hid
  rw [hcd] at hcd0; cases hcd0
  obtain ⟨cs, hcs, hks, hos⟩ := hs
  obtain ⟨ce, hce, hke⟩ := he
  apply runs_bind
  apply runs_mono (elValidate_spec tok hg ⟨ce, hce, hke⟩)
  intro _ h1 e1
  apply runs_bind
  apply runs_mono (elCopy_spec e1.good (IsK.keeps e1.keeps ⟨ce, hce, hke⟩))
  intro e' h2 ⟨hfresh, e2, hie', hcopy⟩
  have hcs2 : h2[s]? = some cs := e2.sub s cs (e1.only s cs hcs (by simp [hks, Kind.isPath]))
  have hcd2 : h2[d]? = some cd := e2.sub d cd (e1.only d cd hcd (by simp [hkd, Kind.isPath]))
  have hd2 : follow h2 s "_data" = some d := by
    rw [follow_congr (h := h) (h' := h2) (by rw [hcs2, hcs])]; exact hd
  apply runs_mono (sqStore_spec pos e2.good ⟨cs, hcs2, hks, hos⟩ hie' (Or.inl rfl) hd2 hcd2)
  intro _ h3 ⟨e3, hd3⟩
  refine ⟨(e1.store_of_leaf.trans e2.low_of_none).trans e3, e', Nat.le_trans e1.len hfresh,
    hie'.keeps e3.keeps, hd3, ?_⟩
  intro ch hb
  have hb1 : HasBp h1 e ch := hb.keep hg e1.kept.el ⟨ce, hce, hke, rfl⟩
  have hb2 : HasBp h2 e ch := hb1.keep e1.good e2.sub.kept.el (Is.keeps e1.keeps ⟨ce, hce, hke, rfl⟩)
  exact (hb2.copy hcopy).keep e2.good e3.keptEl_store hie'

/-! ### `Sequence.copy()` -/

/-- what `Sequence.copy()` made: a new object over deep copies of the stores -/
structure SqCopied (h' : Heap) (r : Owner) (s s' d d' : Addr) : Prop where
  isNew : Is h' s' .sqObj r
  srcData : follow h' s "_data" = some d
  dataCopy : CopyRel h' depth d d'
  seqnCopy : ∃ q q', follow h' s "_sequencing" = some q ∧ follow h' s' "_sequencing" = some q' ∧ CopyRel h' depth q q'
  specsCopy : ∃ w w', follow h' s "_awgspecs" = some w ∧ follow h' s' "_awgspecs" = some w' ∧ CopyRel h' depth w w'
  slots : ∃ q' w' m', h'[s']? = some ⟨.sqObj, r, [("_data", .ref d'), ("_sequencing", .ref q'),
    ("_awgspecs", .ref w'), ("_meta", .ref m'), ("_name", .imm 0)]⟩

theorem SqCopied.data {h' : Heap} {r : Owner} {s s' d d' : Addr} (c : SqCopied h' r s s' d d') :
    follow h' s' "_data" = some d' := by
  obtain ⟨q', w', m', hs⟩ := c.slots
  exact follow_of hs (by simp [lookupSlot, List.lookup])

theorem SqCopied.subsFlat {h' : Heap} {r : Owner} {s s' d d' : Addr} (c : SqCopied h' r s s' d d')
    (hd : DataFlat h' d) : SubsFlat h' s' := by
  rw [subsFlat_iff]
  intro cs x hcs hm
  obtain ⟨q', w', m', hs⟩ := c.slots
  rw [hs] at hcs; cases hcs
  have : x = d' := by simpa using hm
  subst this
  exact hd.copy c.dataCopy

theorem SqCopied.flatSeq {h' : Heap} {r : Owner} {s s' d d' : Addr} (c : SqCopied h' r s s' d d')
    (hd : DataEl h' d) : FlatSeq h' s' := by
  rw [flatSeq_iff]
  intro cs x hcs hm
  obtain ⟨q', w', m', hs⟩ := c.slots
  rw [hs] at hcs; cases hcs
  have : x = d' := by simpa using hm
  subst this
  exact hd.copy c.dataCopy

theorem is_of_copy {r : Owner} {h0 h : Heap} {k : Kind} {n : Nat} {a a' : Addr} (e : Evo r pNone h0 h)
    (hf : h0.length ≤ a') (hk : IsK h a k) (hc : CopyRel h n a a') : Is h a' k r := by
  obtain ⟨c, c', x1, x2, x3⟩ := hc.kind
  obtain ⟨c0, y1, y2⟩ := hk
  rw [x1] at y1; cases y1
  exact ⟨c', x2, x3.trans y2, e.new a' c' hf x2⟩

/-- the element store of a sequence whose subsequences are flat fits into `depth` -/
theorem sq_data_flat {h : Heap} {s : Addr} {r : Owner} {d q w m : Addr} (p : SqParts h s r d q w m)
    (hf : SubsFlat h s) : DataFlat h d := by
  obtain ⟨cs, hcs, hl⟩ := follow_some p.data
  exact subsFlat_iff.mp hf cs d hcs (mem_of_lookupSlot hl)

/-- **`Sequence.copy()` never faults** on a sequence whose stored subsequences are flat -/
theorem sqCopy_spec {base : Nat} {r : Owner} {h : Heap} {s : Addr} (hg : Good h) (hs : IsK h s .sqObj)
    (hf : SubsFlat h s) :
    Runs base r (sqCopy s) h (fun s' h' => h.length ≤ s' ∧ Evo r pNone h h' ∧
      ∃ d d', h.length ≤ d' ∧ SqCopied h' r s s' d d') := by
  unfold sqCopy
  obtain ⟨cs, hcs, hks⟩ := hs
  obtain ⟨d, q, w, m, p⟩ := sq_parts hg (r := cs.owner) ⟨cs, hcs, hks, rfl⟩
  obtain ⟨cd, hcd, hkd, _⟩ := p.isData
  apply runs_bind
  apply runs_follow p.data
  apply runs_bind
  apply runs_mono (deepCopyAddr_spec h d hg (fits_dataFlat hg hcd hkd (sq_data_flat p hf)))
  intro d' h1 ⟨hfd, e1, hcd'⟩
  apply runs_bind
  apply runs_follow (follow_sub e1.sub p.seqn)
  apply runs_bind
  apply runs_mono (deepCopyAddr_spec h1 q e1.good (fits_low e1.good (p.isSeqn.sub e1.sub).isK rfl))
  intro q' h2 ⟨hfq, e2, hcq'⟩
  apply runs_bind
  apply runs_follow (follow_sub e2.sub (follow_sub e1.sub p.specs))
  apply runs_bind
  apply runs_mono (deepCopyAddr_spec h2 w e2.good (fits_low e2.good ((p.isSpecs.sub e1.sub).sub e2.sub).isK rfl))
  intro w' h3 ⟨hfw, e3, hcw'⟩
  apply runs_bind
  apply runs_follow (follow_sub e3.sub (follow_sub e2.sub (follow_sub e1.sub p.cache)))
  apply runs_bind
  apply runs_mono (deepCopyAddr_spec h3 m e3.good
    (fits_low e3.good (((p.isCache.sub e1.sub).sub e2.sub).sub e3.sub).isK rfl))
  intro m' h4 ⟨hfm, e4, hcm'⟩
  have s14 : Sub h1 h4 := (e2.sub.trans e3.sub).trans e4.sub
  have s04 : Sub h h4 := e1.sub.trans s14
  have e04 : Evo r pNone h h4 := ((e1.trans e2).trans e3).trans e4
  have hd4 : Is h4 d' .sqData r := is_of_copy e04 hfd (p.isData.sub s04).isK (hcd'.sub s14)
  have hq4 : Is h4 q' .sqSeqn r :=
    is_of_copy e04 (Nat.le_trans e1.len hfq) (p.isSeqn.sub s04).isK (hcq'.sub (e3.sub.trans e4.sub))
  have hw4 : Is h4 w' .awgspecs r :=
    is_of_copy e04 (Nat.le_trans e1.len (Nat.le_trans e2.len hfw)) (p.isSpecs.sub s04).isK (hcw'.sub e4.sub)
  have hm4 : Is h4 m' .cache r :=
    is_of_copy e04 (Nat.le_trans e1.len (Nat.le_trans e2.len (Nat.le_trans e3.len hfm))) (p.isCache.sub s04).isK hcm'
  obtain ⟨hso, hco⟩ := sqObj_ok 0 hd4 hq4 hw4 hm4
  apply runs_new e4.good hso hco
  intro h5 e5 hnew
  have s05 : Sub h h5 := s04.trans e5.sub
  refine ⟨Nat.le_trans e04.len (Nat.le_refl _), e04.trans e5, d, d', hfd, ?_⟩
  refine ⟨is_new hnew, follow_sub s05 p.data, (hcd'.sub s14).sub e5.sub, ?_, ?_, ⟨q', w', m', hnew⟩⟩
  · exact ⟨q, q', follow_sub s05 p.seqn, follow_of hnew (by simp [lookupSlot, List.lookup]),
      (hcq'.sub (e3.sub.trans e4.sub)).sub e5.sub⟩
  · exact ⟨w, w', follow_sub s05 p.specs, follow_of hnew (by simp [lookupSlot, List.lookup]),
      (hcw'.sub e4.sub).sub e5.sub⟩

/-- the copy of a sequence has flat subsequences, and is flat if the source is -/
theorem sqCopied_flat {r : Owner} {h h' : Heap} {s s' d d' : Addr} (e : Evo r pNone h h') (hg : Good h)
    (hs : IsK h s .sqObj) (c : SqCopied h' r s s' d d') :
    (SubsFlat h s → SubsFlat h' s') ∧ (FlatSeq h s → FlatSeq h' s') := by
  obtain ⟨cs, hcs, hks⟩ := hs
  have hd0 : follow h s "_data" = some d := by
    rw [← follow_congr (h := h) (h' := h') (by rw [e.sub s cs hcs, hcs])]; exact c.srcData
  obtain ⟨cs0, hcs0, hl⟩ := follow_some hd0
  rw [hcs] at hcs0; cases hcs0
  have hm := mem_of_lookupSlot hl
  obtain ⟨cd, hcd, hkd⟩ := sq_data_kind hg hcs hks hm
  constructor
  · intro hf
    apply c.subsFlat
    exact (subsFlat_iff.mp hf cs d hcs hm).keep e hg (fun _ _ _ => rfl) hcd (e.sub d cd hcd)
  · intro hf
    apply c.flatSeq
    exact (flatSeq_iff.mp hf cs d hcs hm).keep e.keeps hg hcd (e.sub d cd hcd)

/-! ### `Sequence.addSubSequence` -/

/-- **`Sequence.addSubSequence` never faults** when the argument holds no subsequences (the case
    in which the Python does not raise): a deep copy is stored, the stored subsequences stay flat -/
theorem sqAddSub_spec {r : Owner} {h : Heap} {s sub : Addr} (pos : String) (hg : Good h)
    (hs : Is h s .sqObj r) (hsub : IsK h sub .sqObj) (hflat : FlatSeq h sub) (hf : SubsFlat h s)
    {d : Addr} {cd : Cell} (hd : follow h s "_data" = some d) (hcd : h[d]? = some cd) :
    Runs 0 r (sqAddSub s pos sub) h (fun _ h' => Evo r (pStore d) h h' ∧ SubsFlat h' s) := by
  unfold sqAddSub
  apply runs_bind
  apply runs_mono (sqCopy_spec hg hsub hflat.subsFlat)
  intro sub' h1 ⟨hfresh, e1, ds, ds', hfds, hcopied⟩
  have hflat' : FlatSeq h1 sub' := (sqCopied_flat e1 hg hsub hcopied).2 hflat
  obtain ⟨cs, hcs, hks, hos⟩ := hs
  have hcs1 := e1.sub s cs hcs
  have hd1 : follow h1 s "_data" = some d := follow_sub e1.sub hd
  have hcd1 := e1.sub d cd hcd
  apply runs_mono (sqStore_spec pos e1.good ⟨cs, hcs1, hks, hos⟩ hcopied.isNew (Or.inr rfl) hd1 hcd1)
  intro _ h2 ⟨e2, hd2⟩
  refine ⟨e1.low_of_none.trans e2, ?_⟩
  apply subsFlat_store e2 e1.good ⟨cs, hcs1, hks, hos⟩ hd1 hcd1 hd2
    (SubsFlat.keep e1 hg (fun _ _ _ => rfl) ⟨cs, hcs, hks⟩ hf)
  intro cobj hcobj _
  obtain ⟨csub', hcsub', hksub', _⟩ := hcopied.isNew
  have hsame : h2[sub']? = some csub' := e2.only sub' csub' hcsub' (by simp [hksub', Kind.isPath])
  apply hflat'.keep e2.keeps e1.good hcsub' hsame
  intro db cdb hmdb hcdb
  obtain ⟨q', w', m', hslots⟩ := hcopied.slots
  rw [hslots] at hcsub'; cases hcsub'
  have hdb : db = ds' := by simpa using hmdb
  subst hdb
  obtain ⟨cdb2, y1, y2⟩ := sq_data_kind e1.good hslots rfl hmdb
  rw [hcdb] at y1; cases y1
  apply e2.only db cdb hcdb
  have hne : db ≠ d := by
    intro heq; subst heq
    exact absurd (lt_of_get hcd) (Nat.not_lt.mpr hfds)
  simp [y2, Kind.isPath, hne]

/-! ### editing a stored element, forging -/

/-- **`seq.element(pos).changeArg / changeDuration` never fault** when the position holds an
    element whose channel holds a blueprint -/
theorem sqElMutate_spec {r : Owner} {h : Heap} {s : Addr} (tok : Nat) (pos ch : String) (hg : Good h)
    (hs : Is h s .sqObj r) (hb : SqBp h s pos ch) :
    Runs 0 r (sqElMutate tok s pos ch) h (fun _ h' => Evo r pLeaf h h') := by
  unfold sqElMutate
  obtain ⟨e, hp, hie, hbp⟩ := hb
  obtain ⟨d, hd, hp2⟩ := followPath_cons hp
  obtain ⟨e', he, hp3⟩ := followPath_cons hp2
  cases followPath_nil hp3
  have hid : Is h d .sqData r := is_follow hg hs hd (fun kk hal => by simpa [allowed] using hal) rfl
  have hie' : Is h e .elObj r := by
    obtain ⟨cd, ce, hcd, hce, _, hown⟩ := good_follow hg he
    obtain ⟨ce0, hce0, hke⟩ := hie
    rw [hce] at hce0; cases hce0
    obtain ⟨cd0, hcd0, _, hod⟩ := hid
    rw [hcd] at hcd0; cases hcd0
    refine ⟨ce, hce, hke, ?_⟩
    rcases hown with hfz | ho
    · rw [hke] at hfz; cases hfz
    · rw [ho, hod]
  apply runs_bind
  apply runs_follow hd
  apply runs_bind
  apply runs_follow he
  exact elMutateBP_spec tok ch hg hie' hbp

/-- **`forge()` and the output methods never fault**, run read-only on anybody's sequence whose
    stored subsequences are flat: a deep copy of the element store is edited, nothing that existed
    is written -/
theorem sqForge_spec {base : Nat} {r : Owner} {h : Heap} {s : Addr} (tok : Nat) (hbase : base ≤ h.length)
    (hg : Good h) (hs : IsK h s .sqObj) (hf : SubsFlat h s) :
    Runs base r (sqForge tok s) h (fun _ h' => Evo r pNone h h') := by
  unfold sqForge
  obtain ⟨cs, hcs, hks⟩ := hs
  obtain ⟨d, q, w, m, p⟩ := sq_parts hg (r := cs.owner) ⟨cs, hcs, hks, rfl⟩
  obtain ⟨cd, hcd, hkd, _⟩ := p.isData
  apply runs_bind
  apply runs_follow p.data
  apply runs_bind
  apply runs_mono (deepCopyAddr_spec h d hg (fits_dataFlat hg hcd hkd (sq_data_flat p hf)))
  intro d' h1 ⟨hfd, e1, hcopy⟩
  obtain ⟨cd', hcd', hkd', hod'⟩ := is_of_copy e1 hfd (p.isData.sub e1.sub).isK hcopy
  apply runs_bind
  apply runs_cellAt hcd'
  apply runs_put (P := pFrom h.length) e1.good hcd' (by simp [writable, hkd', Kind.frozen, hod'])
    (Or.inl (Nat.le_trans hbase hfd)) (slotsOk_retoken tok (e1.good.closed d' cd' hcd'))
    (cellOk_retoken tok (e1.good.typed d' cd' hcd')) (by simp [hfd])
  intro h2 e2 _ _
  exact (e1.low_of_none.trans e2).weaken (fun a k ha _ => by simp; omega)

end BB.Heap
