/-
  BB.Proofs.G9Cells — the channel a *lookup by channel id* finds in what `forge` (delays on)
  delivers at an element position, when that channel is a delayed blueprint / raw-array channel:
  C10's `forge_delayed_bp_channel` / `forge_delayed_raw_channel` (which speak about the channel by
  its index in the stored element) restated for `lookupCh`, the access the output methods use.
  Needs "no channel id twice" in the stored element.
-/
import BB.Properties.C10
import BB.Proofs.G9Capstone

namespace BB
namespace G9
open BB BB.Sequence Element

/-- the content dictionary `forge` delivers at an element position lists no channel id twice when
    the stored element does not, and looking up the id of the stored element's `k`-th channel
    finds its `k`-th entry -/
theorem forged_lookup_index (s : Sequence) (fl t : Bool) (out : List (Nat × ForgedPos))
    (h : s.forge true fl t = .ok out) (p : Nat) (hp : p < out.length) (e : Element)
    (he : Dict.get? s.data ((p + 1 : Nat) : Int) = some (.el e)) (hwf : Dict.WF e.chans)
    (sq : SeqSet) (cont : Dict Chan ChOutF)
    (hout : out[p] = (p + 1, { sequencing := sq, isSub := false, content := [(1, cont, none)] }))
    (k : Nat) (hk : k < e.chans.length) (c : ChOutF) (hc : lookupCh cont (e.chans[k]).1 = .ok c) :
    ∃ (hkc : k < cont.length), (cont[k]).1 = (e.chans[k]).1 ∧ c = (cont[k]).2 := by
  obtain ⟨c3, sq3, hout3, hkeys⟩ := forge_element_keys s fl t out h p hp e he
  rw [hout] at hout3
  simp only [Prod.mk.injEq, ForgedPos.mk.injEq, List.cons.injEq, and_true, true_and] at hout3
  obtain ⟨_, rfl⟩ := hout3
  have hl : cont.length = e.chans.length := by
    have := congrArg List.length hkeys
    simpa [Dict.keys] using this
  have hkc : k < cont.length := by omega
  have hkey : (cont[k]).1 = (e.chans[k]).1 := by
    have h1 : (Dict.keys cont)[k]'(by simpa [Dict.keys] using hkc) = (Dict.keys e.chans)[k]'(by simpa [Dict.keys] using hk) := by
      simp only [hkeys]
    simpa [Dict.keys] using h1
  have hwfc : Dict.WF cont := by
    unfold Dict.WF at *
    rw [hkeys]; exact hwf
  have := lookup_of_getElem cont hwfc k hkc
  rw [hkey, hc] at this
  exact ⟨hkc, hkey, Except.ok.inj this⟩

/-- **a delayed blueprint channel, found by its id** in what `forge(apply_delays=True)` delivers at
    an element position: it is the forged delayed blueprint `f'` (the stored flags, the time
    option), `f'` has `f.N + M` samples and evaluates to `D` zeros, the undelayed samples, `M − D`
    zeros; the delay is the one declared for that channel id -/
theorem cell_delayed_bp (s : Sequence) (fl t : Bool) (out : List (Nat × ForgedPos))
    (h : s.forge true fl t = .ok out) (p : Nat) (hp : p < out.length) (e : Element)
    (he : Dict.get? s.data ((p + 1 : Nat) : Int) = some (.el e)) (hwf : Dict.WF e.chans)
    (ds : List Rat) (hds : e.channels.mapM s.delayOf = .ok ds)
    (sr : Rat) (hsr : e.getSR = .ok (.num sr)) (hsr0 : 0 < sr)
    (k : Nat) (hk : k < e.chans.length) (hkd : k < ds.length) (b : BP) (hb : (e.chans[k]).2.data = .bp b)
    (f : Forged) (hf : forgeBP b = .ok f) (ys : List Rat) (hev : Wave.eval? { blocks := f.blocks } = some ys)
    (D M : Nat) (hD : ds[k] * sr = D) (hM : maxR ds * sr = M)
    (hfront : D = 0 ∨ 2 ≤ D) (hback : M - D = 0 ∨ 2 ≤ M - D)
    (sq : SeqSet) (cont : Dict Chan ChOutF)
    (hout : out[p] = (p + 1, { sequencing := sq, isSub := false, content := [(1, cont, none)] }))
    (c : ChOutF) (hc : lookupCh cont (e.chans[k]).1 = .ok c) :
    s.delayOf (e.chans[k]).1 = .ok ds[k] ∧ D ≤ M ∧
    ∃ f', c.out = ChOut.forged f' (e.chans[k]).2.flags t ∧ f'.N = f.N + M ∧
      Wave.eval? { blocks := f'.blocks } = some (List.replicate D 0 ++ ys ++ List.replicate (M - D) 0) := by
  obtain ⟨hdel, c2, sq2, f', hout2, hN, hE, hc2, _, hco⟩ :=
    C10.forge_delayed_bp_channel s fl t out h p hp e he ds hds sr hsr hsr0 k hk hkd b hb f hf ys hev D M hD hM hfront hback
  rw [hout] at hout2
  simp only [Prod.mk.injEq, ForgedPos.mk.injEq, List.cons.injEq, and_true, true_and] at hout2
  obtain ⟨_, rfl⟩ := hout2
  obtain ⟨_, _, rfl⟩ := forged_lookup_index s fl t out h p hp e he hwf sq cont hout k hk c hc
  have hle : D ≤ M := by
    have h1 : ds[k] ≤ maxR ds := Paths.le_maxR ds _ (List.getElem_mem hkd)
    have : ds[k] * sr ≤ maxR ds * sr := mul_le_mul_of_nonneg_right h1 hsr0.le
    rw [hD, hM] at this
    exact_mod_cast this
  exact ⟨hdel, hle, f', hco, hN, hE⟩

/-- **a delayed raw-array channel, found by its id**: every array of the forged channel (waveform
    and markers) is the stored array with `D` zeros in front and `M − D` zeros behind -/
theorem cell_delayed_raw (s : Sequence) (fl t : Bool) (out : List (Nat × ForgedPos))
    (h : s.forge true fl t = .ok out) (p : Nat) (hp : p < out.length) (e : Element)
    (he : Dict.get? s.data ((p + 1 : Nat) : Int) = some (.el e)) (hwf : Dict.WF e.chans)
    (ds : List Rat) (hds : e.channels.mapM s.delayOf = .ok ds)
    (sr : Rat) (hsr : e.getSR = .ok (.num sr)) (hsr0 : 0 < sr)
    (k : Nat) (hk : k < e.chans.length) (hkd : k < ds.length) (a : Dict String (List Rat)) (sv : Val)
    (ha : (e.chans[k]).2.data = .arr a sv) (D M : Nat) (hD : ds[k] * sr = D) (hM : maxR ds * sr = M)
    (sq : SeqSet) (cont : Dict Chan ChOutF)
    (hout : out[p] = (p + 1, { sequencing := sq, isSub := false, content := [(1, cont, none)] }))
    (c : ChOutF) (hc : lookupCh cont (e.chans[k]).1 = .ok c) :
    s.delayOf (e.chans[k]).1 = .ok ds[k] ∧
    ∃ a' tm, c.out = ChOut.arrays a' (e.chans[k]).2.flags tm ∧
      ∀ key, Dict.get? a' key = (Dict.get? a key).map (padArr D (M - D)) := by
  obtain ⟨c2, sq2, hout2, hc2, a', tm, _, hco, _, hget⟩ :=
    C10.forge_delayed_raw_channel s fl t out h p hp e he ds hds sr hsr hsr0 k hk hkd a sv ha D M hD hM
  rw [hout] at hout2
  simp only [Prod.mk.injEq, ForgedPos.mk.injEq, List.cons.injEq, and_true, true_and] at hout2
  obtain ⟨_, rfl⟩ := hout2
  obtain ⟨_, _, rfl⟩ := forged_lookup_index s fl t out h p hp e he hwf sq cont hout k hk c hc
  refine ⟨?_, a', tm, hco, hget⟩
  have := C10.delays_by_channel_id s e ds hds k (by simpa [Element.channels, Dict.keys] using hk) hkd
  simpa [Element.channels, Dict.keys] using this

end G9
end BB
