/-
  BB.Proofs.Forge — lemmas about the forger model: sample counts, block structure, lengths,
  marker painting, wait resolution.
-/
import BB.Proofs.Round
import BB.Proofs.Blueprint
import BB.Model.Forge

namespace BB

/-! ### the rounding loop -/

theorem countsGo_ok (sr : Rat) (ds : List Rat) (ns : List Nat) (h : countsGo sr ds = .ok ns) :
    (∀ d ∈ ds, 2 ≤ segCount d sr) ∧ ns = ds.map (fun d => (segCount d sr).toNat) := by
  induction ds generalizing ns with
  | nil => simp [countsGo] at h; subst h; simp
  | cons d ds ih =>
    unfold countsGo at h
    by_cases hc : segCount d sr < 2
    · simp [Gen.segTooShort, hc] at h
    · cases hrec : countsGo sr ds with
      | error e => simp [Gen.segTooShort, hc, hrec] at h
      | ok ms =>
        simp only [Gen.segTooShort, hc, hrec, decide_false, Bool.false_eq_true, if_false, Except.ok.injEq] at h
        obtain ⟨h1, h2⟩ := ih ms hrec
        subst h
        refine ⟨?_, by simp [h2]⟩
        intro x hx
        simp only [List.mem_cons] at hx
        rcases hx with rfl | hx
        · omega
        · exact h1 x hx

theorem countsGo_error (sr : Rat) (ds : List Rat) (e : Err) (h : countsGo sr ds = .error e) :
    e = .segdur ∧ ∃ d ∈ ds, segCount d sr < 2 := by
  induction ds with
  | nil => simp [countsGo] at h
  | cons d ds ih =>
    unfold countsGo at h
    by_cases hc : segCount d sr < 2
    · simp [Gen.segTooShort, hc] at h
      exact ⟨h.symm, d, by simp, hc⟩
    · cases hrec : countsGo sr ds with
      | error e' =>
        simp only [Gen.segTooShort, hc, hrec, decide_false, Bool.false_eq_true, if_false, Except.error.injEq] at h
        subst h
        obtain ⟨h1, d', hd', hlt⟩ := ih hrec
        exact ⟨h1, d', by simp [hd'], hlt⟩
      | ok ms => simp [Gen.segTooShort, hc, hrec] at h

/-- the loop succeeds exactly when every segment gets at least two samples -/
theorem countsGo_isOk_iff (sr : Rat) (ds : List Rat) :
    (∃ ns, countsGo sr ds = .ok ns) ↔ ∀ d ∈ ds, 2 ≤ segCount d sr := by
  constructor
  · rintro ⟨ns, h⟩; exact (countsGo_ok sr ds ns h).1
  · intro h
    cases hc : countsGo sr ds with
    | ok ns => exact ⟨ns, rfl⟩
    | error e =>
      obtain ⟨_, d, hd, hlt⟩ := countsGo_error sr ds e hc
      have := h d hd
      omega

theorem countsGo_length (sr : Rat) (ds : List Rat) (ns : List Nat) (h : countsGo sr ds = .ok ns) :
    ns.length = ds.length := by
  rw [(countsGo_ok sr ds ns h).2]; simp

/-! ### wait resolution -/

theorem consOk_ok (d : Rat) (r : Except Err (List Rat)) (ds : List Rat) (h : BP.consOk d r = .ok ds) :
    ∃ ms, r = .ok ms ∧ ds = d :: ms := by
  cases r with
  | error e => simp [BP.consOk] at h
  | ok ms => simp [BP.consOk] at h; exact ⟨ms, rfl, h.symm⟩

theorem resolveGo_length (segs : List Seg) (el : Rat) (ds : List Rat) (h : BP.resolveGo segs el = .ok ds) :
    ds.length = segs.length := by
  induction segs generalizing el ds with
  | nil => simp [BP.resolveGo] at h; subst h; rfl
  | cons s rest ih =>
    unfold BP.resolveGo at h
    by_cases hw : s.fn.isWait = true
    · rw [if_pos hw] at h
      split at h
      · rename_i t _ _
        by_cases hneg : t - el < 0
        · simp [hneg] at h
        · simp only [hneg, if_false] at h
          obtain ⟨ms, hr, rfl⟩ := consOk_ok _ _ _ h
          simp [ih _ _ hr]
      · simp at h
    · rw [if_neg hw] at h
      split at h
      · obtain ⟨ms, hr, rfl⟩ := consOk_ok _ _ _ h
        simp [ih _ _ hr]
      · simp at h

/-! ### blocks and lengths -/

theorem mkBlocks_length (sr : Rat) (segs : List Seg) (ns : List Nat) (h : ns.length = segs.length) :
    (mkBlocks sr segs ns).length = segs.length := by
  induction segs generalizing ns with
  | nil => cases ns <;> simp [mkBlocks]
  | cons s ss ih =>
    cases ns with
    | nil => simp at h
    | cons n ns => simp [mkBlocks, ih ns (by simpa using h)]

/-- every block is its segment's own pulse function called with (args, SR, n_i), in order -/
theorem mkBlocks_getElem (sr : Rat) (segs : List Seg) (ns : List Nat) (i : Nat)
    (h1 : i < segs.length) (h2 : i < ns.length) (h3 : i < (mkBlocks sr segs ns).length) :
    (mkBlocks sr segs ns)[i] = Blk.call (forgeFn segs[i].fn) segs[i].args sr ns[i] := by
  induction segs generalizing ns i with
  | nil => simp at h1
  | cons s ss ih =>
    cases ns with
    | nil => simp at h2
    | cons n ns =>
      cases i with
      | zero => simp [mkBlocks]
      | succ i => simp only [mkBlocks, List.getElem_cons_succ]; exact ih ns i _ _ _

theorem mkBlocks_lens (sr : Rat) (segs : List Seg) (ns : List Nat) (h : ns.length = segs.length) :
    (mkBlocks sr segs ns).map Blk.len = ns := by
  induction segs generalizing ns with
  | nil => cases ns with
    | nil => rfl
    | cons n ns => simp at h
  | cons s ss ih =>
    cases ns with
    | nil => simp at h
    | cons n ns => simp [mkBlocks, Blk.len, ih ns (by simpa using h)]

theorem paint_length (N : Nat) (ws : List (Nat × Nat)) : (paint N ws).length = N := by
  simp [paint]

theorem paint_getElem (N : Nat) (ws : List (Nat × Nat)) (k : Nat) (h : k < (paint N ws).length) :
    (paint N ws)[k] = if ws.any (inWindow k) then 1 else 0 := by
  simp only [paint, List.getElem_map, List.getElem_range]

/-- a marker sample is 0 or 1 -/
theorem paint_bool (N : Nat) (ws : List (Nat × Nat)) : ∀ x ∈ paint N ws, x = 0 ∨ x = 1 := by
  intro x hx
  simp only [paint, List.mem_map] at hx
  obtain ⟨k, _, rfl⟩ := hx
  split <;> simp

/-- ON exactly on the union of the windows -/
theorem paint_on_iff (N : Nat) (ws : List (Nat × Nat)) (k : Nat) (h : k < (paint N ws).length) :
    (paint N ws)[k] = 1 ↔ ∃ w ∈ ws, w.1 ≤ k ∧ k < w.2 := by
  rw [paint_getElem]
  constructor
  · intro h1
    split at h1
    · rename_i hany
      simp only [List.any_eq_true, inWindow, Bool.and_eq_true, decide_eq_true_eq] at hany
      exact hany
    · simp at h1
  · rintro ⟨w, hw, h1, h2⟩
    have : ws.any (inWindow k) = true := by
      simp only [List.any_eq_true, inWindow, Bool.and_eq_true, decide_eq_true_eq]
      exact ⟨w, hw, h1, h2⟩
    simp [this]

/-- a window never reaches beyond the waveform (clipping) -/
theorem sliceStop_le (N : Nat) (stop : Int) : sliceStop N stop ≤ N := by
  unfold sliceStop
  split
  · omega
  · exact Nat.min_le_right _ _

theorem window_clipped (N : Nat) (sr : Rat) (m : Mark) : (window N sr m).2 ≤ N :=
  sliceStop_le _ _

/-- a marker of rounded length 0 paints nothing -/
theorem window_empty_of_zero_chunk (N : Nat) (sr : Rat) (m : Mark) (k : Nat)
    (h : rhe (m.2 * sr) = 0) : inWindow k (window N sr m) = false := by
  unfold window inWindow
  simp only [h, Int.add_zero]
  unfold sliceStop
  have hnn : ¬ ((nearestIdx N (m.1 * sr) : Nat) : Int) < 0 := by omega
  simp only [hnn, if_false, Int.toNat_natCast]
  by_cases h1 : nearestIdx N (m.1 * sr) ≤ k
  · have : ¬ k < min (nearestIdx N (m.1 * sr)) N := by omega
    simp [h1, this]
  · simp [h1]

/-! ### the forger as a whole -/

theorem forge_ok_iff (b : BP) (f : Forged) :
    forgeBP b = .ok f ↔ ∃ sr durs ns, b.SR = .num sr ∧ b.resolveWaits = .ok durs ∧
      countsGo sr durs = .ok ns ∧ badSpecial b = false ∧ f = assemble b sr ns := by
  unfold forgeBP
  constructor
  · intro h
    split at h
    · rename_i sr hsr
      split at h
      · simp at h
      · rename_i durs hd
        split at h
        · simp at h
        · rename_i ns hn
          split at h
          · simp at h
          · rename_i hb
            simp only [Except.ok.injEq] at h
            exact ⟨sr, durs, ns, hsr, hd, hn, by simpa using hb, h.symm⟩
    · simp at h
  · rintro ⟨sr, durs, ns, hsr, hd, hn, hb, rfl⟩
    simp [hsr, hd, hn, hb]

theorem assemble_lengths (b : BP) (sr : Rat) (ns : List Nat) (h : ns.length = b.segs.length) :
    let f := assemble b sr ns
    f.N = sumN ns ∧ f.m1.length = f.N ∧ f.m2.length = f.N ∧
      sumN (f.blocks.map Blk.len) = f.N ∧ f.blocks.length = b.segs.length ∧
      f.newdurations.length = b.segs.length := by
  simp only [assemble, paint_length, mkBlocks_lens sr b.segs ns h, mkBlocks_length sr b.segs ns h,
    List.length_map, h, and_self]

end BB

namespace BB

/-! ### nearest sample, segment starts, segment-bound markers -/

/-- `argmin |k/SR - t|` is the integer within half a sample of `t·SR` (away from ties), as long as
    it lies on the time axis -/
theorem nearestIdx_spec (N : Nat) (x : ℚ) (n : Nat) (hn : n < N) (h : |x - n| < 1/2) :
    nearestIdx N x = n := by
  rw [abs_lt] at h
  unfold nearestIdx
  by_cases hx : x ≤ 0
  · simp only [hx, if_true]
    have : (n : ℚ) < 1/2 := by linarith [h.1]
    have : (n : ℚ) < 1 := by linarith
    have : n < 1 := by exact_mod_cast this
    omega
  · simp only [hx, if_false]
    have hx0 : 0 < x := not_le.mp hx
    have hfl : (x.floor : ℚ) ≤ x := Int.floor_le x
    have hfu : x < x.floor + 1 := Int.lt_floor_add_one x
    have hf0 : 0 ≤ x.floor := Int.floor_nonneg.mpr hx0.le
    have hcast : ((x.floor.toNat : Nat) : ℚ) = (x.floor : ℚ) := by
      have : ((x.floor.toNat : Nat) : ℤ) = x.floor := Int.toNat_of_nonneg hf0
      exact_mod_cast this
    have hN : N ≠ 0 := by omega
    simp only [hN, if_false]
    rw [hcast]
    -- n is floor or floor + 1
    have hn1 : (x.floor : ℚ) - 1/2 < n ∧ (n : ℚ) < x.floor + 3/2 := by constructor <;> linarith [h.1, h.2]
    have hcases : (n : ℤ) = x.floor ∨ (n : ℤ) = x.floor + 1 := by
      have a : (x.floor : ℚ) - 1 < (n : ℤ) := by push_cast; linarith [hn1.1]
      have b : ((n : ℤ) : ℚ) < x.floor + 2 := by push_cast; linarith [hn1.2]
      have a' : x.floor - 1 < (n : ℤ) := by exact_mod_cast a
      have b' : (n : ℤ) < x.floor + 2 := by exact_mod_cast b
      omega
    rcases hcases with hc | hc
    · have hq : (n : ℚ) = x.floor := by exact_mod_cast hc
      have : x - (x.floor : ℚ) ≤ (x.floor : ℚ) + 1 - x := by linarith [h.1, h.2]
      simp only [this, if_true]
      have : x.floor.toNat = n := by omega
      omega
    · have hq : (n : ℚ) = x.floor + 1 := by exact_mod_cast hc
      have : ¬ (x - (x.floor : ℚ) ≤ (x.floor : ℚ) + 1 - x) := by
        push_neg; linarith [h.1, h.2]
      simp only [this, if_false]
      have : x.floor.toNat + 1 = n := by omega
      omega

theorem starts_length (ns : List Nat) (acc : Nat) : (starts ns acc).length = ns.length := by
  induction ns generalizing acc with
  | nil => rfl
  | cons n ns ih => simp [starts, ih]

/-- the start sample of segment `i` is the sum of the (rounded) counts before it -/
theorem starts_getElem (ns : List Nat) (acc i : Nat) (h : i < (starts ns acc).length) :
    (starts ns acc)[i] = acc + sumN (ns.take i) := by
  induction ns generalizing acc i with
  | nil => simp [starts] at h
  | cons n ns ih =>
    cases i with
    | zero => simp [starts, sumN]
    | succ i =>
      simp only [starts, List.getElem_cons_succ, List.take_succ_cons, sumN]
      rw [ih]; omega

/-- segment-bound markers: exactly the segments with a non-zero marker length contribute, each
    the absolute marker `(start_i/SR + delay, len)` -/
theorem segMarks_mem (sr : ℚ) (sel : Seg → Mark) (segs : List Seg) (sts : List Nat)
    (hl : sts.length = segs.length) (m : Mark) :
    m ∈ segMarks sr sel segs sts ↔
      ∃ (i : Nat) (h1 : i < segs.length) (h2 : i < sts.length), (sel segs[i]).2 ≠ 0 ∧
        m = (((sts[i] : Int) : ℚ) / sr + (sel segs[i]).1, (sel segs[i]).2) := by
  induction segs generalizing sts with
  | nil => cases sts <;> simp [segMarks]
  | cons s ss ih =>
    cases sts with
    | nil => simp at hl
    | cons st sts =>
      have hl' : sts.length = ss.length := by simpa using hl
      simp only [segMarks]
      constructor
      · intro hm
        split at hm
        · rename_i hne
          simp only [List.mem_cons] at hm
          rcases hm with rfl | hm
          · exact ⟨0, by simp, by simp, hne, rfl⟩
          · obtain ⟨i, h1, h2, h3, h4⟩ := (ih sts hl').mp hm
            exact ⟨i + 1, by simp; omega, by simp; omega, by simpa using h3, by simpa using h4⟩
        · obtain ⟨i, h1, h2, h3, h4⟩ := (ih sts hl').mp hm
          exact ⟨i + 1, by simp; omega, by simp; omega, by simpa using h3, by simpa using h4⟩
      · rintro ⟨i, h1, h2, h3, h4⟩
        cases i with
        | zero =>
          simp only [List.getElem_cons_zero] at h3 h4
          simp [h3, h4]
        | succ i =>
          simp only [List.getElem_cons_succ] at h3 h4
          have : m ∈ segMarks sr sel ss sts :=
            (ih sts hl').mpr ⟨i, by simpa using h1, by simpa using h2, h3, h4⟩
          split
          · exact List.mem_cons_of_mem _ this
          · exact this

/-- a zero-length (or removed) segment marker contributes nothing -/
theorem segMarks_all_zero (sr : ℚ) (sel : Seg → Mark) (segs : List Seg) (sts : List Nat)
    (h : ∀ s ∈ segs, (sel s).2 = 0) : segMarks sr sel segs sts = [] := by
  induction segs generalizing sts with
  | nil => cases sts <;> rfl
  | cons s ss ih =>
    cases sts with
    | nil => rfl
    | cons st sts =>
      simp only [segMarks]
      have : (sel s).2 = 0 := h s (by simp)
      simp only [this, ne_eq, not_true_eq_false, if_false]
      exact ih sts (fun x hx => h x (by simp [hx]))

end BB

namespace BB

/-! ### waituntil -/

theorem sumR_append (a b : List ℚ) : sumR (a ++ b) = sumR a + sumR b := by
  induction a with
  | nil => simp [sumR]
  | cons x xs ih => simp [sumR, ih]; ring

theorem sumN_append (a b : List Nat) : sumN (a ++ b) = sumN a + sumN b := by
  induction a with
  | nil => simp [sumN]
  | cons x xs ih => simp [sumN, ih]; omega

/-- resolving waits: if segment `k` is a `waituntil(t)`, the resolved durations of segments
    `0..k` add up to `t - elapsed₀`: the wait ends exactly at absolute time `t` -/
theorem resolveGo_wait_sum (pre : List Seg) (w : Seg) (post : List Seg) (el t : ℚ) (ds : List ℚ) (tl : List Val)
    (hw : w.fn.isWait = true) (ha : w.args = .num t :: tl)
    (h : BP.resolveGo (pre ++ w :: post) el = .ok ds) :
    sumR (ds.take (pre.length + 1)) = t - el := by
  induction pre generalizing el ds with
  | nil =>
    simp only [List.nil_append, BP.resolveGo, hw, if_true, ha] at h
    by_cases hneg : t - el < 0
    · simp [hneg] at h
    · simp only [hneg, if_false] at h
      obtain ⟨ms, _, rfl⟩ := consOk_ok _ _ _ h
      simp [sumR]
  | cons s rest ih =>
    simp only [List.cons_append, BP.resolveGo] at h
    by_cases hs : s.fn.isWait = true
    · rw [if_pos hs] at h
      split at h
      · rename_i t' _ _
        by_cases hneg : t' - el < 0
        · simp [hneg] at h
        · simp only [hneg, if_false] at h
          obtain ⟨ms, hr, rfl⟩ := consOk_ok _ _ _ h
          have := ih t' ms hr
          simp only [List.length_cons, List.take_succ_cons, sumR, this]
          ring
      · simp at h
    · rw [if_neg hs] at h
      split at h
      · rename_i d _
        obtain ⟨ms, hr, rfl⟩ := consOk_ok _ _ _ h
        have := ih (el + d) ms hr
        simp only [List.length_cons, List.take_succ_cons, sumR, this]
        ring
      · simp at h

/-- the numeric duration of a segment, if it has one -/
def durOf? (s : Seg) : Option ℚ := match s.dur with | .num d => some d | _ => none

/-- an overrun (the preceding segments already extend beyond `t`) is an error -/
theorem resolveGo_overrun (pre : List Seg) (w : Seg) (post : List Seg) (el t : ℚ) (tl : List Val)
    (hw : w.fn.isWait = true) (ha : w.args = .num t :: tl)
    (hpre : ∀ s ∈ pre, s.fn.isWait = false ∧ ∃ d, s.dur = .num d)
    (hover : t < el + sumR (pre.filterMap durOf?)) :
    BP.resolveGo (pre ++ w :: post) el = .error .value := by
  induction pre generalizing el with
  | nil =>
    simp only [List.filterMap_nil, sumR, add_zero] at hover
    simp only [List.nil_append, BP.resolveGo, hw, if_true, ha]
    have : t - el < 0 := by linarith
    simp [this]
  | cons s rest ih =>
    obtain ⟨hs, d, hd⟩ := hpre s (by simp)
    simp only [List.cons_append, BP.resolveGo, hs, Bool.false_eq_true, if_false, hd]
    have hover' : t < (el + d) + sumR (rest.filterMap durOf?) := by
      simp only [List.filterMap_cons, durOf?, hd, sumR] at hover
      linarith
    rw [ih (el + d) (fun x hx => hpre x (by simp [hx])) hover']
    rfl

/-- counts of sample-aligned durations add up exactly -/
theorem aligned_counts (sr : ℚ) (ds : List ℚ) (hal : ∀ d ∈ ds, ∃ m : ℕ, d * sr = m) :
    ((sumN (ds.map (fun d => (rhe (d * sr)).toNat)) : ℕ) : ℚ) = sumR ds * sr := by
  induction ds with
  | nil => simp [sumN, sumR]
  | cons d ds ih =>
    obtain ⟨m, hm⟩ := hal d (by simp)
    have ih' := ih (fun x hx => hal x (by simp [hx]))
    simp only [List.map_cons, sumN, sumR]
    have : rhe (d * sr) = (m : ℤ) := by rw [hm]; exact_mod_cast rhe_int (m : ℤ)
    rw [this]
    push_cast
    rw [ih']
    simp only [Int.toNat_natCast]
    rw [add_mul, hm]

end BB
