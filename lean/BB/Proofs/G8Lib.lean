/-
  BB.Proofs.G8Lib — the vocabulary of library calls (every method program of BB.Model.Heap, made on
  user-held variables), the guard under which the Python method does not raise, and the theorem
  that a guarded library call on a shaped state neither faults nor breaks the shape.
-/
import BB.Proofs.G8Shaped

namespace BB.Heap

/-! ### decidable guards -/

def kindAt (h : Heap) (a : Addr) : Option Kind := (h[a]?).map (·.kind)

/-- the variable `name` is bound to a live object of kind `k` -/
def State.isVar (st : State) (name : String) (k : Kind) : Bool :=
  match st.vars.lookup name with
  | some x => kindAt st.heap x == some k
  | none => false

/-- the sequence object at `b` holds elements only (no subsequences) -/
def flatB (h : Heap) (b : Addr) : Bool :=
  match follow h b "_data" with
  | some db =>
    match h[db]? with
    | some cdb => cdb.slots.all (fun ks => match ks.2 with
      | .ref e => kindAt h e == some .elObj
      | .imm _ => true)
    | none => false
  | none => false

/-- channel `ch` of the element at `e` holds a blueprint -/
def hasBpB (h : Heap) (e : Addr) (ch : String) : Bool := (followPath h e ["_data", ch, "blueprint"]).isSome

/-- position `pos` of the sequence at `s` holds an element whose channel `ch` holds a blueprint -/
def sqBpB (h : Heap) (s : Addr) (pos ch : String) : Bool :=
  match followPath h s ["_data", pos] with
  | some e => kindAt h e == some .elObj && hasBpB h e ch
  | none => false

theorem isVar_spec {st : State} {name : String} {k : Kind} (hv : st.isVar name k = true) :
    ∃ (x : Addr) (c : Cell), st.vars.lookup name = some x ∧ st.heap[x]? = some c ∧ c.kind = k := by
  unfold State.isVar at hv
  split at hv
  · rename_i x hx
    unfold kindAt at hv
    cases hc : st.heap[x]? with
    | none => rw [hc] at hv; simp at hv
    | some c =>
      rw [hc] at hv
      exact ⟨x, c, hx, hc, by simpa using hv⟩
  · cases hv

theorem hasBpB_spec {h : Heap} {e : Addr} {ch : String} (hb : hasBpB h e ch = true) : HasBp h e ch := by
  unfold hasBpB at hb
  cases hp : followPath h e ["_data", ch, "blueprint"] with
  | none => rw [hp] at hb; cases hb
  | some b => exact ⟨b, hp⟩

theorem sqBpB_spec {h : Heap} {s : Addr} {pos ch : String} (hb : sqBpB h s pos ch = true) : SqBp h s pos ch := by
  unfold sqBpB at hb
  split at hb
  · rename_i e he
    simp only [Bool.and_eq_true] at hb
    refine ⟨e, he, ?_, hasBpB_spec hb.2⟩
    have := hb.1
    unfold kindAt at this
    cases hc : h[e]? with
    | none => rw [hc] at this; simp at this
    | some c => rw [hc] at this; exact ⟨c, hc, by simpa using this⟩
  · cases hb

theorem subsFlat_of_data {h : Heap} (hg : Good h) {s : Addr} {r : Owner} (hs : Is h s .sqObj r) {d : Addr}
    (hd : follow h s "_data" = some d) (hf : DataFlat h d) : SubsFlat h s := by
  obtain ⟨d0, q, w, m, p⟩ := sq_parts hg hs
  have hdd : d0 = d := by have := p.data; rw [hd] at this; cases this; rfl
  subst hdd
  obtain ⟨cs, hcs, hks, _⟩ := hs
  obtain ⟨t, hslots⟩ := sq_slots hg hcs hks p
  rw [subsFlat_iff]
  intro cs2 x hcs2 hm
  rw [hcs] at hcs2; cases hcs2
  have hx : x = d0 := by rw [hslots] at hm; simpa using hm
  subst hx
  exact hf

theorem flatB_spec {h : Heap} (hg : Good h) {b : Addr} (hb : IsK h b .sqObj) (hf : flatB h b = true) : FlatSeq h b := by
  obtain ⟨cb, hcb, hkb⟩ := hb
  obtain ⟨d0, q, w, m, p⟩ := sq_parts hg (r := cb.owner) ⟨cb, hcb, hkb, rfl⟩
  obtain ⟨t, hslots⟩ := sq_slots hg hcb hkb p
  unfold flatB at hf
  rw [p.data] at hf
  simp only at hf
  rw [flatSeq_iff]
  intro cb2 db hcb2 hm
  rw [hcb] at hcb2; cases hcb2
  have hx : db = d0 := by rw [hslots] at hm; simpa using hm
  subst hx
  intro cdb hcdb ks hks e ce he hce
  rw [hcdb] at hf
  simp only [List.all_eq_true] at hf
  have := hf ks hks
  rw [he] at this
  simpa [kindAt, hce] using this

/-! ### the vocabulary -/

/-- one public library call, made on user-held variables -/
inductive LibCall where
  | bpNew (to : String)
  | bpMutate (tok : Nat) (b : String)
  | bpSetMarker (tok : Nat) (b which : String)
  | bpCopy (b to : String)
  | bpAdd (a b to : String)
  | elNew (to : String)
  | elAddBP (e ch b : String)
  | elAddArray (tok : Nat) (e ch : String) (names : List String)
  | elAddArrayBroken (e ch : String)
  | elAddFlags (tok : Nat) (e ch : String)
  | elCopy (e to : String)
  | elMutateBP (tok : Nat) (e ch : String)
  | elValidate (tok : Nat) (e : String)
  | sqNew (to : String)
  | sqSetSpec (tok : Nat) (s key : String)
  | sqSetFilter (tok : Nat) (s key : String)
  | sqSetSeq (tok : Nat) (s pos field : String)
  | sqSetSeqSettings (tok : Nat) (s pos : String)
  | sqSetName (tok : Nat) (s : String)
  | sqAddElement (tok : Nat) (s pos e : String)
  | sqAddSub (s pos sub : String)
  | sqCopy (s to : String)
  | sqAdd (a b to : String)
  | sqElMutate (tok : Nat) (s pos ch : String)
  | sqForge (tok : Nat) (s : String)
  | tlLinVary (tok : Nat) (base ch : String) (poss : List String) (to : String)
  | tlVary (tok : Nat) (base : String) (poss : List String) (edits : List (String × String)) (to : String)
  | tlRepVary (tok : Nat) (seq : String) (steps : Nat) (edits : List (String × String)) (to : String)

/-- the call of the state machine a library call is (arguments that name other objects are
    resolved to their addresses; `none`: such a name is unbound, nothing is called) -/
def LibCall.toCall (st : State) : LibCall → Option Call
  | .bpNew to => some (.derive to Heap.bpNew)
  | .bpMutate tok b => some (.act b (Heap.bpMutate tok))
  | .bpSetMarker tok b which => some (.act b (fun x => Heap.bpSetMarker tok x which))
  | .bpCopy b to => (st.vars.lookup b).map (fun x => .derive to (Heap.bpCopy x))
  | .bpAdd a b to =>
    match st.vars.lookup a, st.vars.lookup b with
    | some x, some y => some (.derive to (Heap.bpAdd x y))
    | _, _ => none
  | .elNew to => some (.derive to Heap.elNew)
  | .elAddBP e ch b => (st.vars.lookup b).map (fun y => .act e (fun x => Heap.elAddBP x ch y))
  | .elAddArray tok e ch names => some (.act e (fun x => Heap.elAddArray tok x ch names))
  | .elAddArrayBroken e ch => some (.act e (fun x => Heap.elAddArrayBroken x ch))
  | .elAddFlags tok e ch => some (.act e (fun x => Heap.elAddFlags tok x ch))
  | .elCopy e to => (st.vars.lookup e).map (fun x => .derive to (Heap.elCopy x))
  | .elMutateBP tok e ch => some (.act e (fun x => Heap.elMutateBP tok x ch))
  | .elValidate tok e => some (.query e (Heap.elValidate tok))
  | .sqNew to => some (.derive to Heap.sqNew)
  | .sqSetSpec tok s key => some (.act s (fun x => Heap.sqSetSpec tok x key))
  | .sqSetFilter tok s key => some (.act s (fun x => Heap.sqSetFilter tok x key))
  | .sqSetSeq tok s pos field => some (.act s (fun x => Heap.sqSetSeq tok x pos field))
  | .sqSetSeqSettings tok s pos => some (.act s (fun x => Heap.sqSetSeqSettings tok x pos))
  | .sqSetName tok s => some (.act s (Heap.sqSetName tok))
  | .sqAddElement tok s pos e => (st.vars.lookup e).map (fun y => .act s (fun x => Heap.sqAddElement tok x pos y))
  | .sqAddSub s pos sub => (st.vars.lookup sub).map (fun y => .act s (fun x => Heap.sqAddSub x pos y))
  | .sqCopy s to => (st.vars.lookup s).map (fun x => .derive to (Heap.sqCopy x))
  | .sqAdd a b to =>
    match st.vars.lookup a, st.vars.lookup b with
    | some x, some y => some (.derive to (Heap.sqAdd x y))
    | _, _ => none
  | .sqElMutate tok s pos ch => some (.act s (fun x => Heap.sqElMutate tok x pos ch))
  | .sqForge tok s => some (.query s (Heap.sqForge tok))
  | .tlLinVary tok base ch poss to => (st.vars.lookup base).map (fun x => .derive to (Heap.tlLinVary tok x ch poss))
  | .tlVary tok base poss edits to => (st.vars.lookup base).map (fun x => .derive to (Heap.tlVary tok x poss edits))
  | .tlRepVary tok seq steps edits to =>
    (st.vars.lookup seq).map (fun x => .derive to (Heap.tlRepVary tok x steps edits))

/-- making the call -/
def LibCall.run (st : State) (c : LibCall) : State :=
  match c.toCall st with
  | some call => st.call call
  | none => st

/-- the guard of a call: the variables it names are bound to live objects of the right class,
    and the keys the Python method would raise on (`KeyError` for a missing channel / position,
    `ValueError` for a nested subsequence, an unknown marker list) exist -/
def LibCall.ok (st : State) : LibCall → Bool
  | .bpNew _ => true
  | .bpMutate _ b => st.isVar b .bpObj
  | .bpSetMarker _ b which => st.isVar b .bpObj && bpListKeys.contains which
  | .bpCopy b _ => st.isVar b .bpObj
  | .bpAdd a b _ => st.isVar a .bpObj && st.isVar b .bpObj
  | .elNew _ => true
  | .elAddBP e _ b => st.isVar e .elObj && st.isVar b .bpObj
  | .elAddArray _ e _ _ => st.isVar e .elObj
  | .elAddArrayBroken e _ => st.isVar e .elObj
  | .elAddFlags _ e ch => st.isVar e .elObj &&
      (match st.vars.lookup e with | some x => (followPath st.heap x ["_data", ch]).isSome | none => false)
  | .elCopy e _ => st.isVar e .elObj
  | .elMutateBP _ e ch => st.isVar e .elObj &&
      (match st.vars.lookup e with | some x => hasBpB st.heap x ch | none => false)
  | .elValidate _ e => st.isVar e .elObj
  | .sqNew _ => true
  | .sqSetSpec _ s _ => st.isVar s .sqObj
  | .sqSetFilter _ s _ => st.isVar s .sqObj
  | .sqSetSeq _ s pos _ => st.isVar s .sqObj &&
      (match st.vars.lookup s with | some x => (followPath st.heap x ["_sequencing", pos]).isSome | none => false)
  | .sqSetSeqSettings _ s _ => st.isVar s .sqObj
  | .sqSetName _ s => st.isVar s .sqObj
  | .sqAddElement _ s _ e => st.isVar s .sqObj && st.isVar e .elObj
  | .sqAddSub s _ sub => st.isVar s .sqObj && st.isVar sub .sqObj &&
      (match st.vars.lookup sub with | some y => flatB st.heap y | none => false)
  | .sqCopy s _ => st.isVar s .sqObj
  | .sqAdd a b _ => st.isVar a .sqObj && st.isVar b .sqObj
  | .sqElMutate _ s pos ch => st.isVar s .sqObj &&
      (match st.vars.lookup s with | some x => sqBpB st.heap x pos ch | none => false)
  | .sqForge _ s => st.isVar s .sqObj
  | .tlLinVary _ base ch _ _ => st.isVar base .elObj &&
      (match st.vars.lookup base with | some x => hasBpB st.heap x ch | none => false)
  | .tlVary _ base poss edits _ => st.isVar base .elObj &&
      (match st.vars.lookup base with
       | some x => edits.all (fun pe => poss.contains pe.1 && hasBpB st.heap x pe.2)
       | none => false)
  | .tlRepVary _ seq _ edits _ => st.isVar seq .sqObj &&
      (match st.vars.lookup seq with
       | some x => edits.all (fun pe => sqBpB st.heap x pe.1 pe.2)
       | none => false)

end BB.Heap
