/-
  BB.Proofs.G8Hist — histories of library calls: they are histories of `State.call`, so the
  read-only and independence theorems of BB.Proofs.Heap apply, now with "no call faults" as a
  conclusion instead of a silent assumption; and what the copying calls return unfolds to the
  same tree as their source.
-/
import BB.Proofs.G8Main

namespace BB.Heap

/-! ### library histories are call histories -/

/-- the calls of the state machine a history of library calls makes -/
def libCalls : State → List LibCall → List Call
  | _, [] => []
  | st, c :: cs => (match c.toCall st with | some k => [k] | none => []) ++ libCalls (c.run st) cs

theorem runLib_eq (cs : List LibCall) : ∀ st : State, runLib st cs = (libCalls st cs).foldl State.call st := by
  induction cs with
  | nil => intro st; rfl
  | cons c cs ih =>
    intro st
    simp only [runLib, List.foldl_cons, libCalls, List.foldl_append]
    have := ih (c.run st)
    unfold runLib at this
    rw [this]
    congr 1
    unfold LibCall.run
    cases c.toCall st <;> rfl

theorem runLib_append (st : State) (a b : List LibCall) : runLib st (a ++ b) = runLib (runLib st a) b := by
  simp [runLib, List.foldl_append]

theorem guarded_append (a b : List LibCall) : ∀ st : State, guarded st (a ++ b) = true →
    guarded st a = true ∧ guarded (runLib st a) b = true := by
  induction a with
  | nil => intro st h; exact ⟨rfl, h⟩
  | cons c cs ih =>
    intro st h
    simp only [List.cons_append, guarded, Bool.and_eq_true] at h ⊢
    obtain ⟨h1, h2⟩ := ih (c.run st) h.2
    exact ⟨⟨h.1, h1⟩, h2⟩

/-- the read-only library calls: the queries / validation, forging and the output methods -/
def LibCall.isQuery : LibCall → Bool
  | .elValidate _ _ => true
  | .sqForge _ _ => true
  | _ => false

/-- the variable a library call may change: the receiver of a mutator, the name a new object is
    bound to; none for a read-only call -/
def LibCall.target : LibCall → Option String
  | .bpNew to => some to
  | .bpMutate _ b => some b
  | .bpSetMarker _ b _ => some b
  | .bpCopy _ to => some to
  | .bpAdd _ _ to => some to
  | .elNew to => some to
  | .elAddBP e _ _ => some e
  | .elAddArray _ e _ _ => some e
  | .elAddArrayBroken e _ => some e
  | .elAddFlags _ e _ => some e
  | .elCopy _ to => some to
  | .elMutateBP _ e _ => some e
  | .elValidate _ _ => none
  | .sqNew to => some to
  | .sqSetSpec _ s _ => some s
  | .sqSetFilter _ s _ => some s
  | .sqSetSeq _ s _ _ => some s
  | .sqSetSeqSettings _ s _ => some s
  | .sqSetName _ s => some s
  | .sqAddElement _ s _ _ => some s
  | .sqAddSub s _ _ => some s
  | .sqCopy _ to => some to
  | .sqAdd _ _ to => some to
  | .sqElMutate _ s _ _ => some s
  | .sqForge _ _ => none
  | .tlLinVary _ _ _ _ to => some to
  | .tlVary _ _ _ _ to => some to
  | .tlRepVary _ _ _ _ to => some to

/-- the call is one the independence theorem allows: it is not made on `ty` and binds no `ty` -/
def Call.avoids (ty : String) : Call → Prop
  | .act tx _ => tx ≠ ty
  | .derive nm _ => nm ≠ ty
  | .query _ _ => True

/-- a call of a library call that does not target `ty` is a call the independence theorem allows -/
theorem toCall_other {st : State} {c : LibCall} {k : Call} {ty : String} (hk : c.toCall st = some k)
    (ht : c.target ≠ some ty) : k.avoids ty := by
  cases c <;> simp only [LibCall.toCall, Option.map_eq_some_iff, Option.some.injEq] at hk <;>
    simp only [LibCall.target, ne_eq, Option.some.injEq] at ht
  all_goals first
    | (subst hk; first | exact ht | trivial)
    | (obtain ⟨_, _, hk⟩ := hk; subst hk; first | exact ht | trivial)
    | (split at hk
       · simp only [Option.some.injEq] at hk; subst hk; exact ht
       · cases hk)

theorem libCalls_other (later : List LibCall) (ty : String) (hother : ∀ c ∈ later, c.target ≠ some ty) :
    ∀ st : State, ∀ k ∈ libCalls st later, k.avoids ty := by
  induction later with
  | nil => intro st k hk; simp [libCalls] at hk
  | cons c cs ih =>
    intro st k hk
    simp only [libCalls, List.mem_append] at hk
    rcases hk with hk | hk
    · cases hc : c.toCall st with
      | none => rw [hc] at hk; simp at hk
      | some k' =>
        rw [hc] at hk
        simp only [List.mem_singleton] at hk
        subst hk
        exact toCall_other hc (hother c (by simp))
    · exact ih (fun c' hc' => hother c' (by simp [hc'])) (c.run st) k hk

/-- **independence over library histories**: after any guarded history of library calls, any
    further guarded library calls that do not target the variable `ty` — mutators of other
    objects, deriving calls bound to other names, read-only calls on anything — leave everything
    observable of the object `ty` names unchanged, and *no call of either history faults* -/
theorem lib_independent (hist later : List LibCall) (hg : guarded {} (hist ++ later) = true)
    (ty : String) (y : Addr) (hy : (ty, y) ∈ (runLib {} hist).vars)
    (hother : ∀ c ∈ later, c.target ≠ some ty) (n : Nat) :
    (runLib {} (hist ++ later)).fault = false ∧
    unfold n (runLib {} (hist ++ later)).heap y = unfold n (runLib {} hist).heap y := by
  refine ⟨(lib_history _ hg).2, ?_⟩
  rw [runLib_append, runLib_eq later, runLib_eq hist]
  rw [runLib_eq hist] at hy
  exact independent (libCalls {} hist) (libCalls _ later) ty y hy
    (fun k hk => by
      have := libCalls_other later ty hother _ k hk
      cases k <;> exact this) n

/-- **read-only library histories** (C08): after any guarded history, any guarded sequence of
    read-only library calls — on whichever objects, in whichever order — leaves everything
    observable of every user-held object unchanged, and no call faults -/
theorem lib_readonly (hist later : List LibCall) (hg : guarded {} (hist ++ later) = true)
    (hro : ∀ c ∈ later, c.isQuery = true) (ty : String) (y : Addr) (hy : (ty, y) ∈ (runLib {} hist).vars) (n : Nat) :
    (runLib {} (hist ++ later)).fault = false ∧
    unfold n (runLib {} (hist ++ later)).heap y = unfold n (runLib {} hist).heap y := by
  apply lib_independent hist later hg ty y hy _ n
  intro c hc
  have := hro c hc
  cases c <;> simp_all [LibCall.isQuery, LibCall.target]

/-! ### what a deriving call returns -/

theorem lookup_setVar_self (vars : List (String × Addr)) (k : String) (v : Addr) :
    (setVar vars k v).lookup k = some v := by
  unfold setVar
  induction vars with
  | nil => simp
  | cons p ps ih =>
    obtain ⟨k', v'⟩ := p
    simp only [List.filter_cons]
    split
    · rename_i hne
      have hne' : k' ≠ k := by simpa using hne
      have : (k == k') = false := by simpa using fun h => hne' h.symm
      simp only [List.cons_append, List.lookup, this]
      exact ih
    · exact ih

/-- the state after a deriving call whose program runs to a fresh live cell -/
theorem derive_result {st : State} (name : String) (p : Prog Addr) {Q : Addr → Heap → Prop}
    (hr : Runs 0 st.nroots p st.heap (fun a h' => st.heap.length ≤ a ∧ a < h'.length ∧ Q a h')) :
    ∃ (a : Addr) (h' : Heap), (st.derive name p).heap = h' ∧ (st.derive name p).vars.lookup name = some a ∧
      Ext st.nroots st.heap h' ∧ Q a h' := by
  obtain ⟨a, h', hx, hfresh, ha, hq⟩ := hr
  have hst : st.derive name p = { st with heap := h', nroots := st.nroots + 1, vars := setVar st.vars name a } := by
    unfold State.derive
    have hx' : exec st.nroots p st.heap = some (a, h') := hx
    simp only [hx']
    rw [if_pos ⟨hfresh, ha⟩]
  rw [hst]
  exact ⟨a, h', rfl, lookup_setVar_self _ _ _, exec_ext _ p _ _ _ hx, hq⟩

/-- **`BluePrint.copy()` returns an object that unfolds to the same tree as its source**
    (and the call does not fault) -/
theorem lib_bpCopy_same (st : State) (hs : Shaped st) (b to : String) (hok : (LibCall.bpCopy b to).ok st = true) :
    ∃ x y : Addr, st.vars.lookup b = some x ∧ ((LibCall.bpCopy b to).run st).vars.lookup to = some y ∧
      ((LibCall.bpCopy b to).run st).fault = false ∧
      ∀ n, unfold n ((LibCall.bpCopy b to).run st).heap y = unfold n st.heap x := by
  have hnf := (lib_step st _ hs hok).nofault
  obtain ⟨x, c, hl, hc, hk⟩ := isVar_spec hok
  simp only [LibCall.run, LibCall.toCall, hl, Option.map_some, State.call] at hnf ⊢
  obtain ⟨a, h', hh, hv, _, e, hcopy⟩ := derive_result (st := st) to (Heap.bpCopy x)
    (Q := fun a h' => Evo st.nroots pNone st.heap h' ∧ CopyRel h' 2 x a)
    (runs_mono (bpCopy_spec hs.good hc hk) (fun b' h' ⟨h1, e, hcopy⟩ => by
      obtain ⟨_, c', _, x2, _⟩ := hcopy.kind
      exact ⟨h1, lt_of_get x2, e, hcopy⟩))
  refine ⟨x, a, rfl, hv, hnf, ?_⟩
  intro n
  rw [hh, hcopy.unfold_eq n, unfold_sub e.sub hs.inv.closed n x c hc]

/-- **`Element.copy()` returns an object that unfolds to the same tree as its source** -/
theorem lib_elCopy_same (st : State) (hs : Shaped st) (e to : String) (hok : (LibCall.elCopy e to).ok st = true) :
    ∃ x y : Addr, st.vars.lookup e = some x ∧ ((LibCall.elCopy e to).run st).vars.lookup to = some y ∧
      ((LibCall.elCopy e to).run st).fault = false ∧
      ∀ n, unfold n ((LibCall.elCopy e to).run st).heap y = unfold n st.heap x := by
  have hnf := (lib_step st _ hs hok).nofault
  obtain ⟨x, c, hl, hc, hk⟩ := isVar_spec hok
  simp only [LibCall.run, LibCall.toCall, hl, Option.map_some, State.call] at hnf ⊢
  obtain ⟨a, h', hh, hv, _, ev, hcopy⟩ := derive_result (st := st) to (Heap.elCopy x)
    (Q := fun a h' => Evo st.nroots pNone st.heap h' ∧ CopyRel h' (depth + 1) x a)
    (runs_mono (elCopy_spec hs.good ⟨c, hc, hk⟩) (fun e' h' ⟨h1, ev, ⟨c', hc', _, _⟩, hcopy⟩ =>
      ⟨h1, lt_of_get hc', ev, hcopy⟩))
  refine ⟨x, a, rfl, hv, hnf, ?_⟩
  intro n
  rw [hh, hcopy.unfold_eq n, unfold_sub ev.sub hs.inv.closed n x c hc]

/-- **`Sequence.copy()` returns an object whose element store, sequencing and settings unfold
    to the same trees as the source's** (the name is not copied) -/
theorem lib_sqCopy_same (st : State) (hs : Shaped st) (s to : String) (hok : (LibCall.sqCopy s to).ok st = true) :
    ∃ x y : Addr, st.vars.lookup s = some x ∧ ((LibCall.sqCopy s to).run st).vars.lookup to = some y ∧
      ((LibCall.sqCopy s to).run st).fault = false ∧
      ∀ key ∈ ["_data", "_sequencing", "_awgspecs"], ∃ a a' : Addr, follow st.heap x key = some a ∧
        follow ((LibCall.sqCopy s to).run st).heap y key = some a' ∧
        ∀ n, unfold n ((LibCall.sqCopy s to).run st).heap a' = unfold n st.heap a := by
  have hnf := (lib_step st _ hs hok).nofault
  obtain ⟨x, c, hl, hc, hk⟩ := isVar_spec hok
  simp only [LibCall.run, LibCall.toCall, hl, Option.map_some, State.call] at hnf ⊢
  obtain ⟨a, h', hh, hv, _, ev, d, d', hcop⟩ := derive_result (st := st) to (Heap.sqCopy x)
    (Q := fun a h' => Evo st.nroots pNone st.heap h' ∧ ∃ d d', SqCopied h' st.nroots x a d d')
    (runs_mono (sqCopy_spec hs.good ⟨c, hc, hk⟩ (hs.subsFlat hl hc hk)) (fun s' h' ⟨h1, ev, d, d', _, hcop⟩ => by
      obtain ⟨c', hc', _, _⟩ := hcop.isNew
      exact ⟨h1, lt_of_get hc', ev, d, d', hcop⟩))
  refine ⟨x, a, rfl, hv, hnf, ?_⟩
  -- a followed key of the source, seen before the call
  have back : ∀ key b, follow h' x key = some b → follow st.heap x key = some b ∧
      ∀ n, unfold n h' b = unfold n st.heap b := by
    intro key b hf
    have hf0 : follow st.heap x key = some b := by
      rw [← follow_congr (h := st.heap) (h' := h') (by rw [ev.sub x c hc, hc])]; exact hf
    obtain ⟨_, cb, _, hcb, _, _⟩ := good_follow hs.good hf0
    exact ⟨hf0, fun n => unfold_sub ev.sub hs.inv.closed n b cb hcb⟩
  intro key hkey
  rw [hh]
  simp only [List.mem_cons, List.mem_nil_iff, or_false] at hkey
  rcases hkey with rfl | rfl | rfl
  · obtain ⟨hf0, hu⟩ := back _ _ hcop.srcData
    exact ⟨d, d', hf0, hcop.data, fun n => by rw [hcop.dataCopy.unfold_eq n, hu n]⟩
  · obtain ⟨q, q', h1, h2, h3⟩ := hcop.seqnCopy
    obtain ⟨hf0, hu⟩ := back _ _ h1
    exact ⟨q, q', hf0, h2, fun n => by rw [h3.unfold_eq n, hu n]⟩
  · obtain ⟨w, w', h1, h2, h3⟩ := hcop.specsCopy
    obtain ⟨hf0, hu⟩ := back _ _ h1
    exact ⟨w, w', hf0, h2, fun n => by rw [h3.unfold_eq n, hu n]⟩

/-- **`deepCopy` is correct**: on a closed, well-typed heap, the deep copy of a graph that is at
    most `depth` cells high does not fault, allocates only cells of the running owner, returns a
    fresh cell that unfolds (to every depth) to the same tree as the source, and leaves
    everything that existed exactly as it was -/
theorem deepCopy_correct (r : Owner) (h : Heap) (a : Addr) (hg : Good h) (hf : Fits depth h a) :
    ∃ (a' : Addr) (h' : Heap), exec r (deepCopyAddr a) h = some (a', h') ∧ h.length ≤ a' ∧
      (∀ (x : Addr) (c : Cell), h.length ≤ x → h'[x]? = some c → c.owner = r) ∧
      (∀ (x : Addr) (c : Cell), h[x]? = some c → h'[x]? = some c) ∧
      (∀ n, unfold n h' a' = unfold n h a) ∧
      (∀ (n : Nat) (x : Addr) (c : Cell), h[x]? = some c → unfold n h' x = unfold n h x) := by
  obtain ⟨a', h', hx, hfresh, e, hcopy⟩ := deepCopyAddr_spec (base := 0) (r := r) h a hg hf
  obtain ⟨c, _, hc, _, _⟩ := hcopy.kind
  have hc0 : ∃ c0, h[a]? = some c0 := by
    cases hf' : depth with
    | zero => simp [depth] at hf'
    | succ n => rw [hf'] at hf; obtain ⟨c0, h0, _⟩ := hf; exact ⟨c0, h0⟩
  obtain ⟨c0, hc0⟩ := hc0
  refine ⟨a', h', hx, hfresh, e.new, e.sub, ?_, fun n x cx hcx => unfold_sub e.sub hg.closed n x cx hcx⟩
  intro n
  rw [hcopy.unfold_eq n, unfold_sub e.sub hg.closed n a c0 hc0]

end BB.Heap
