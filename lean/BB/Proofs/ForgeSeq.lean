/-
  BB.Proofs.ForgeSeq — `Sequence.forge` position by position.
-/
import BB.Proofs.Basic
import BB.Proofs.DictEq
import BB.Model.Sequence

namespace BB
namespace Sequence

/-- what `forge` delivers at one position, as a function of the entry stored there: delays,
    arrays, filters -/
def forgePos (s : Sequence) (d f t : Bool) (pos : Nat) (en : Entry) : Except Err (Nat × ForgedPos) :=
  match s.delayEntry d en with
  | .error e => .error e
  | .ok en' =>
    match s.forgeEntry t (pos, en') with
    | .error e => .error e
    | .ok x => s.filterEntry f x

theorem entriesInOrder_spec (s : Sequence) (ents : List (Nat × Entry)) (h : s.entriesInOrder = .ok ents) :
    ents.length = s.data.length ∧
    ∀ i (hi : i < ents.length), (ents[i]).1 = i + 1 ∧ Dict.get? s.data ((i + 1 : Nat) : Int) = some (ents[i]).2 := by
  unfold entriesInOrder at h
  have hl := mapM_ok_length _ _ _ h
  simp only [List.length_range] at hl
  refine ⟨hl, fun i hi => ?_⟩
  have := mapM_ok_getElem _ _ _ h i (by simpa using hl ▸ hi) hi
  simp only [List.getElem_range] at this
  split at this
  · cases this
  · rename_i en hen
    simp only [Except.ok.injEq] at this
    rw [← this]
    exact ⟨rfl, hen⟩

/-- **`forge` is position-wise**: it returns one entry per position 1..N, in order, and the entry
    at position `i+1` is `forgePos` of what is stored there -/
theorem forge_pos (s : Sequence) (d f t : Bool) (out : List (Nat × ForgedPos)) (h : s.forge d f t = .ok out) :
    out.length = s.data.length ∧
    ∀ i (hi : i < out.length), ∃ en, Dict.get? s.data ((i + 1 : Nat) : Int) = some en ∧
      s.forgePos d f t (i + 1) en = .ok out[i] := by
  unfold forge at h
  split at h
  · cases h
  · cases h
  · split at h
    · cases h
    · split at h
      · cases h
      · rename_i ents hents
        split at h
        · cases h
        · rename_i delayed hdel
          split at h
          · cases h
          · rename_i forged hfor
            obtain ⟨hl0, hents'⟩ := entriesInOrder_spec s ents hents
            have hl1 := mapM_ok_length _ _ _ hdel
            have hl2 := mapM_ok_length _ _ _ hfor
            have hl3 := mapM_ok_length _ _ _ h
            refine ⟨by omega, fun i hi => ?_⟩
            have i0 : i < ents.length := by omega
            have i1 : i < delayed.length := by omega
            have i2 : i < forged.length := by omega
            obtain ⟨hp, hget⟩ := hents' i i0
            refine ⟨(ents[i]).2, hget, ?_⟩
            have e1 := mapM_ok_getElem _ _ _ hdel i i0 i1
            have e2 := mapM_ok_getElem _ _ _ hfor i i1 i2
            have e3 := mapM_ok_getElem _ _ _ h i i2 hi
            unfold forgePos
            cases hd : s.delayEntry d (ents[i]).2 with
            | error er => simp [hd, Except.map] at e1
            | ok en' =>
              simp only [hd, Except.map, Except.ok.injEq] at e1
              simp only
              rw [← hp, e1, e2]
              exact e3

/-! ### what one position looks like -/

/-- the positions are labelled 1..N -/
theorem forge_labels (s : Sequence) (d f t : Bool) (out : List (Nat × ForgedPos)) (h : s.forge d f t = .ok out)
    (i : Nat) (hi : i < out.length) : (out[i]).1 = i + 1 := by
  obtain ⟨_, hpos⟩ := forge_pos s d f t out h
  obtain ⟨en, _, he⟩ := hpos i hi
  unfold forgePos at he
  split at he
  · cases he
  · split at he
    · cases he
    · rename_i en' _ x hx
      unfold filterEntry at he
      unfold forgeEntry at hx
      split at hx
      · cases hx
      · split at hx
        · simp only [Except.map] at hx
          split at hx
          · cases hx
          · cases hx
            simp only [Except.map] at he
            split at he
            · cases he
            · simp only [Except.ok.injEq] at he
              rw [← he]
        · simp only [Except.map] at hx
          split at hx
          · cases hx
          · cases hx
            simp only [Except.map] at he
            split at he
            · cases he
            · simp only [Except.ok.injEq] at he
              rw [← he]

/-- the element an entry holds after the delay pass -/
def delayedEl (s : Sequence) (d : Bool) (e : Element) : Except Err Element :=
  if d then s.delayElement e else .ok e

/-- **an element position**: the position's sequencing entry, type 'element', and exactly one
    content entry (numbered 1, without a sequencing of its own) holding the arrays of the
    (delayed) element with the declared filters attached -/
theorem forgePos_element (s : Sequence) (d f t : Bool) (pos : Nat) (e : Element) (r : Nat × ForgedPos)
    (h : s.forgePos d f t pos (.el e) = .ok r) :
    ∃ e' arr c sq, delayedEl s d e = .ok e' ∧ e'.getArrays t = .ok arr ∧ s.withFilters f arr = .ok c ∧
      Dict.get? s.sequencing (pos : Int) = some sq ∧
      r = (pos, { sequencing := sq, isSub := false, content := [(1, c, none)] }) := by
  unfold forgePos delayEntry at h
  by_cases hd : d = true
  · simp only [hd, if_true] at h
    cases hde : s.delayElement e with
    | error er => simp [hde, Except.map] at h
    | ok e' =>
      simp only [hde, Except.map] at h
      unfold forgeEntry at h
      simp only at h
      cases hsq : Dict.get? s.sequencing (pos : Int) with
      | none => simp [hsq] at h
      | some sq =>
        simp only [hsq] at h
        cases ha : e'.getArrays t with
        | error er => simp [ha, Except.map] at h
        | ok arr =>
          simp only [ha, Except.map] at h
          unfold filterEntry at h
          simp only [List.mapM_cons, List.mapM_nil, bind, Except.bind, pure, Except.pure] at h
          cases hw : s.withFilters f arr with
          | error er => simp [hw, Except.map] at h
          | ok c =>
            simp only [hw, Except.map, Except.ok.injEq] at h
            exact ⟨e', arr, c, sq, by simp [delayedEl, hd, hde], ha, hw, rfl, h.symm⟩
  · have hd' : d = false := by simpa using hd
    simp only [hd', Bool.false_eq_true, if_false] at h
    unfold forgeEntry at h
    simp only at h
    cases hsq : Dict.get? s.sequencing (pos : Int) with
    | none => simp [hsq] at h
    | some sq =>
      simp only [hsq] at h
      cases ha : e.getArrays t with
      | error er => simp [ha, Except.map] at h
      | ok arr =>
        simp only [ha, Except.map] at h
        unfold filterEntry at h
        simp only [List.mapM_cons, List.mapM_nil, bind, Except.bind, pure, Except.pure] at h
        cases hw : s.withFilters f arr with
        | error er => simp [hw, Except.map] at h
        | ok c =>
          simp only [hw, Except.map, Except.ok.injEq] at h
          exact ⟨e, arr, c, sq, by simp [delayedEl, hd'], ha, hw, rfl, h.symm⟩

/-- and conversely: that is all it takes for an element position to forge -/
theorem forgePos_element_intro (s : Sequence) (d f t : Bool) (pos : Nat) (e e' : Element)
    (arr : Dict Chan Element.ChOut) (c : Dict Chan ChOutF) (sq : SeqSet)
    (h1 : delayedEl s d e = .ok e') (h2 : e'.getArrays t = .ok arr) (h3 : s.withFilters f arr = .ok c)
    (h4 : Dict.get? s.sequencing (pos : Int) = some sq) :
    s.forgePos d f t pos (.el e) = .ok (pos, { sequencing := sq, isSub := false, content := [(1, c, none)] }) := by
  unfold forgePos delayEntry
  unfold delayedEl at h1
  by_cases hd : d = true
  · simp only [hd, if_true] at h1 ⊢
    simp only [h1, Except.map, forgeEntry, h4, h2, filterEntry, List.mapM_cons, List.mapM_nil, bind, Except.bind, h3,
      pure, Except.pure]
  · have hd' : d = false := by simpa using hd
    simp only [hd', Bool.false_eq_true, if_false] at h1 ⊢
    cases h1
    simp only [forgeEntry, h4, h2, Except.map, filterEntry, List.mapM_cons, List.mapM_nil, bind, Except.bind, h3,
      pure, Except.pure]

/-- an element position of `forge(True, True, False)` -/
theorem forge_element_position' (s : Sequence) (out : List (Nat × ForgedPos)) (h : s.forge true true false = .ok out)
    (i : Nat) (hi : i < out.length) (e : Element) (he : Dict.get? s.data ((i + 1 : Nat) : Int) = some (.el e)) :
    ∃ e' arr c sq, delayedEl s true e = .ok e' ∧ e'.getArrays false = .ok arr ∧ s.withFilters true arr = .ok c ∧
      Dict.get? s.sequencing ((i + 1 : Nat) : Int) = some sq ∧
      out[i] = (i + 1, { sequencing := sq, isSub := false, content := [(1, c, none)] }) := by
  obtain ⟨en, hen, hpos⟩ := (forge_pos s true true false out h).2 i hi
  rw [he] at hen
  cases hen
  exact forgePos_element s true true false (i + 1) e _ hpos

/-! ### a subsequence position -/

/-- mapping a fallible function over the values of a dictionary keeps its keys -/
theorem mapM_vals_get? {α β : Type} (d : Dict Int α) (g : α → Except Err β) (d' : Dict Int β)
    (h : d.mapM (fun pe => (g pe.2).map (fun v => (pe.1, v))) = .ok d') :
    d'.length = d.length ∧ Dict.keys d' = Dict.keys d ∧
    ∀ k v, Dict.get? d k = some v → ∃ v', g v = .ok v' ∧ Dict.get? d' k = some v' := by
  induction d generalizing d' with
  | nil =>
    simp only [List.mapM_nil, pure, Except.pure, Except.ok.injEq] at h
    subst h
    exact ⟨rfl, rfl, fun k v hk => by simp [Dict.get?] at hk⟩
  | cons x xs ih =>
    obtain ⟨k0, v0⟩ := x
    rw [mapM_cons_eq] at h
    simp only at h
    cases hg : g v0 with
    | error er => rw [hg] at h; simp [Except.map] at h
    | ok w0 =>
      rw [hg] at h
      cases hxs : xs.mapM (fun pe => (g pe.2).map (fun v => (pe.1, v))) with
      | error er => rw [hxs] at h; simp [Except.map] at h
      | ok ys =>
        rw [hxs] at h
        simp only [Except.map, Except.ok.injEq] at h
        subst h
        obtain ⟨il, ik, ig⟩ := ih ys hxs
        refine ⟨by simp [il], by simp [Dict.keys] at ik ⊢; exact ik, fun k v hk => ?_⟩
        unfold Dict.get? at hk ⊢
        simp only [List.find?_cons] at hk ⊢
        by_cases hk0 : k0 = k
        · simp only [hk0, decide_true, Option.map_some, Option.some.injEq] at hk ⊢
          subst hk
          exact ⟨w0, hg, rfl⟩
        · simp only [hk0, decide_false] at hk ⊢
          exact ig k v hk

/-- **a subsequence position**: the position's own sequencing entry, type 'subsequence', and one
    content entry per subsequence position 1..n, each holding the arrays of that (delayed) element
    with the filters attached, together with the subsequence's own sequencing entry for it -/
theorem forgePos_sub (s : Sequence) (d f t : Bool) (pos : Nat) (sub : SubSeq) (r : Nat × ForgedPos)
    (h : s.forgePos d f t pos (.sub sub) = .ok r) :
    ∃ sq, Dict.get? s.sequencing (pos : Int) = some sq ∧ r.1 = pos ∧ r.2.sequencing = sq ∧ r.2.isSub = true ∧
      r.2.content.length = sub.data.length ∧
      ∀ j (hj : j < r.2.content.length), ∃ e e' arr c q2,
        Dict.get? sub.data ((j + 1 : Nat) : Int) = some e ∧ delayedEl s d e = .ok e' ∧ e'.getArrays t = .ok arr ∧
        s.withFilters f arr = .ok c ∧ Dict.get? sub.sequencing ((j + 1 : Nat) : Int) = some q2 ∧
        r.2.content[j] = (j + 1, c, some q2) := by
  -- the delayed subsequence: same keys, same sequencing, every element delayed
  have key : ∃ sub' : SubSeq, s.delayEntry d (.sub sub) = .ok (.sub sub') ∧ sub'.sequencing = sub.sequencing ∧
      sub'.data.length = sub.data.length ∧ Dict.keys sub'.data = Dict.keys sub.data ∧
      ∀ k e, Dict.get? sub.data k = some e → ∃ e', delayedEl s d e = .ok e' ∧ Dict.get? sub'.data k = some e' := by
    by_cases hd : d = true
    · cases hm : sub.data.mapM (fun pe => (s.delayElement pe.2).map (fun e' => (pe.1, e'))) with
      | error er =>
        exfalso
        unfold forgePos delayEntry at h
        simp only [hd, if_true] at h
        rw [hm] at h
        simp [Except.map] at h
      | ok d' =>
        obtain ⟨hl, hk, hg⟩ := mapM_vals_get? sub.data s.delayElement d' hm
        refine ⟨{ sub with data := d' }, ?_, rfl, hl, hk, fun k e hk => ?_⟩
        · unfold delayEntry
          simp only [hd, if_true]
          rw [hm]; rfl
        · obtain ⟨e', he', hk'⟩ := hg k e hk
          exact ⟨e', by simp [delayedEl, hd, he'], hk'⟩
    · have hd' : d = false := by simpa using hd
      exact ⟨sub, by simp [delayEntry, hd'], rfl, rfl, rfl, fun k e hk => ⟨e, by simp [delayedEl, hd'], hk⟩⟩
  obtain ⟨sub', hdel, hsq', hlen', hkeys', hget'⟩ := key
  unfold forgePos at h
  rw [hdel] at h
  simp only at h
  unfold forgeEntry at h
  simp only at h
  cases hsq : Dict.get? s.sequencing (pos : Int) with
  | none => simp [hsq] at h
  | some sq =>
    simp only [hsq] at h
    cases hin : forgeInner t sub' with
    | error er => rw [hin] at h; simp [Except.map] at h
    | ok inner =>
      rw [hin] at h
      simp only [Except.map] at h
      unfold filterEntry at h
      simp only at h
      cases hfil : inner.mapM (fun c => (s.withFilters f c.2.1).map (fun a => (c.1, a, c.2.2))) with
      | error er => rw [hfil] at h; simp [Except.map] at h
      | ok content =>
        rw [hfil] at h
        simp only [Except.map, Except.ok.injEq] at h
        subst h
        have hl1 := mapM_ok_length _ _ _ hfil
        unfold forgeInner at hin
        have hl2 := mapM_ok_length _ _ _ hin
        simp only [List.length_range] at hl2
        refine ⟨sq, rfl, rfl, rfl, rfl, by simp only; omega, fun j hj => ?_⟩
        simp only at hj
        have j1 : j < inner.length := by omega
        have j2 : j < (List.range sub'.data.length).length := by simp; omega
        have e1 := mapM_ok_getElem _ _ _ hin j j2 j1
        have e2 := mapM_ok_getElem _ _ _ hfil j j1 hj
        rw [List.getElem_range] at e1
        cases hg : Dict.get? sub'.data ((j + 1 : Nat) : Int) with
        | none => simp only [hg] at e1; cases e1
        | some e' =>
          simp only [hg] at e1
          cases ha : e'.getArrays t with
          | error er => simp only [ha] at e1; cases e1
          | ok arr =>
            simp only [ha] at e1
            cases hq : Dict.get? sub'.sequencing ((j + 1 : Nat) : Int) with
            | none => simp only [hq] at e1; cases e1
            | some q2 =>
              simp only [hq, Except.ok.injEq] at e1
              rw [← e1] at e2
              simp only at e2
              cases hw : s.withFilters f arr with
              | error er => simp [hw, Except.map] at e2
              | ok c =>
                simp only [hw, Except.map, Except.ok.injEq] at e2
                -- the undelayed element at that position
                have hpos : ((j + 1 : Nat) : Int) ∈ Dict.keys sub.data := by
                  rw [← hkeys']
                  exact (Dict.get?_isSome_iff _ _).mp (by rw [hg]; rfl)
                obtain ⟨e, he⟩ := Option.isSome_iff_exists.mp ((Dict.get?_isSome_iff _ _).mpr hpos)
                obtain ⟨e'', hde'', hk''⟩ := hget' _ e he
                rw [hg] at hk''
                cases hk''
                rw [hsq'] at hq
                exact ⟨e, e', arr, c, q2, he, hde'', ha, hw, hq, e2.symm⟩

/-- the subsequence as a sequence of its own, under the parent's AWG settings -/
def asSequence (s : Sequence) (sub : SubSeq) : Sequence :=
  { data := sub.data.map (fun pe => (pe.1, Entry.el pe.2)), sequencing := sub.sequencing, awgspecs := s.awgspecs, name := "" }

/-- **a subsequence forges like a stand-alone sequence**: content entry `j` of a subsequence
    position — arrays and own sequencing — is exactly what forging the subsequence on its own,
    under the parent's delay and filter settings, delivers at its position `j+1` -/
theorem sub_content_standalone (s : Sequence) (d f t : Bool) (pos : Nat) (sub : SubSeq) (r : Nat × ForgedPos)
    (h : s.forgePos d f t pos (.sub sub) = .ok r) (j : Nat) (hj : j < r.2.content.length) :
    ∃ e c q2, Dict.get? sub.data ((j + 1 : Nat) : Int) = some e ∧ r.2.content[j] = (j + 1, c, some q2) ∧
      (asSequence s sub).forgePos d f t (j + 1) (.el e) =
        .ok (j + 1, { sequencing := q2, isSub := false, content := [(1, c, none)] }) := by
  obtain ⟨sq, _, _, _, _, _, hall⟩ := forgePos_sub s d f t pos sub r h
  obtain ⟨e, e', arr, c, q2, he, hde, ha, hw, hq, hc⟩ := hall j hj
  refine ⟨e, c, q2, he, hc, ?_⟩
  exact forgePos_element_intro (asSequence s sub) d f t (j + 1) e e' arr c q2 hde ha hw hq

end Sequence
end BB
