/-
  BB.Proofs.G12Loop — what a *rejected* `changeArg(..., replaceeverywhere=True)` leaves behind:
  the loop over the segments sharing the base name stops at the first segment that does not take
  the argument; the addressed segments in front of it keep their new value.
-/
import BB.Proofs.G2Blueprint
import Mathlib.Data.Nat.Find

namespace BB.G12
open BB BB.BP BB.G2

theorem changeArgLoop_cons_ok (b b' : BP) (nm : String) (rest : List String) (arg value : Val)
    (h : b.changeArgOne nm arg value = ⟨b', none⟩) :
    b.changeArgLoop (nm :: rest) arg value = b'.changeArgLoop rest arg value := by
  conv => lhs; unfold changeArgLoop
  rw [h]

theorem changeArgLoop_cons_err (b : BP) (nm : String) (rest : List String) (arg value : Val)
    (h : (b.changeArgOne nm arg value).err ≠ none) :
    b.changeArgLoop (nm :: rest) arg value = b.changeArgOne nm arg value := by
  conv => lhs; unfold changeArgLoop
  generalize b.changeArgOne nm arg value = r at *
  obtain ⟨st, err⟩ := r
  cases err with
  | none => exact absurd rfl h
  | some e => rfl

/-- a loop whose first part runs through continues on the state the first part left -/
theorem changeArgLoop_append (b : BP) (pre rest : List String) (arg value : Val)
    (h : (b.changeArgLoop pre arg value).err = none) :
    b.changeArgLoop (pre ++ rest) arg value =
      (b.changeArgLoop pre arg value).st.changeArgLoop rest arg value := by
  induction pre generalizing b with
  | nil => simp [changeArgLoop]
  | cons nm pre ih =>
    cases hone : b.changeArgOne nm arg value with
    | mk st err =>
      cases err with
      | none =>
        rw [List.cons_append, changeArgLoop_cons_ok b st nm _ arg value hone,
          changeArgLoop_cons_ok b st nm _ arg value hone]
        rw [changeArgLoop_cons_ok b st nm _ arg value hone] at h
        exact ih st h
      | some e =>
        have hne : (b.changeArgOne nm arg value).err ≠ none := by rw [hone]; simp
        rw [changeArgLoop_cons_err b nm _ arg value hne, hone] at h
        cases h

/-- the error and the no-change of one loop step only depend on the name list and the addressed segment -/
theorem changeArgOne_err_congr (b b1 : BP) (nm : String) (arg value : Val) (hn : b1.names = b.names)
    (hseg : ∀ i, b.indexOf? nm = some i → b1.segs[i]? = b.segs[i]?) :
    (b1.changeArgOne nm arg value).err = (b.changeArgOne nm arg value).err := by
  have hidx : b1.indexOf? nm = b.indexOf? nm := by
    unfold indexOf?
    have hl : b1.segs.length = b.segs.length := by rw [← names_length, ← names_length, hn]
    rw [hn, hl]
  unfold changeArgOne
  rw [hidx]
  cases hi : b.indexOf? nm with
  | none => rfl
  | some i =>
    simp only
    rw [hseg i hi]
    cases b.segs[i]? with
    | none => rfl
    | some seg =>
      simp only
      split
      · rfl
      · split
        · rfl
        · split <;> rfl

/-- **the loop that stops**: the names in `pre` all take the argument, `nm` does not - the loop raises
    what the step on `nm` raises, and exactly the segments named in `pre` carry the new value -/
theorem changeArgLoop_rejected (b : BP) (hnd : b.names.Nodup) (pre : List String) (nm : String)
    (post : List String) (hl : (pre ++ nm :: post).Nodup) (hsub : ∀ n ∈ pre ++ nm :: post, n ∈ b.names)
    (arg value : Val) (hpre : ∀ s ∈ b.segs, s.name ∈ pre → argOk arg s = true)
    (hbad : ∀ s ∈ b.segs, s.name = nm → argOk arg s = false) :
    (b.changeArgLoop (pre ++ nm :: post) arg value).err ≠ none ∧
    (b.changeArgLoop (pre ++ nm :: post) arg value).err = (b.changeArgOne nm arg value).err ∧
    (b.changeArgLoop (pre ++ nm :: post) arg value).st =
      { b with segs := b.segs.map (fun s => if s.name ∈ pre then setArgOf arg value s else s) } := by
  have hlpre : pre.Nodup := (List.nodup_append.mp hl).1
  have hnm_pre : nm ∉ pre := by
    intro hm
    have := (List.nodup_append.mp hl).2.2 nm hm nm (by simp)
    exact this rfl
  have hspec := changeArgLoop_spec b hnd pre hlpre (fun n hn => hsub n (by simp [hn])) arg value
  have hok := hspec.1.mpr hpre
  have hst := hspec.2 hok
  obtain ⟨b1, hb1⟩ : ∃ b1, b1 = (b.changeArgLoop pre arg value).st := ⟨_, rfl⟩
  rw [changeArgLoop_append b pre _ arg value hok, ← hb1]
  rw [← hb1] at hst
  have hn1 : b1.names = b.names := by
    rw [hst]
    unfold names
    simp only [List.map_map]
    apply List.map_congr_left
    intro s _
    simp only [Function.comp]
    split
    · exact setArgOf_name _ _ _
    · rfl
  obtain ⟨i, hidx⟩ := (mem_names_iff_indexOf? b nm).mp (hsub nm (by simp))
  obtain ⟨hi, hname⟩ := indexOf?_some b nm i hidx
  have hidx1 : b1.indexOf? nm = some i := by
    unfold indexOf? at hidx ⊢
    have hlen : b1.segs.length = b.segs.length := by rw [← names_length, ← names_length, hn1]
    rw [hn1, hlen]; exact hidx
  have hi1 : i < b1.segs.length := by rw [← names_length, hn1, names_length]; exact hi
  have hseg1 : b1.segs[i] = b.segs[i] := by
    simp only [hst, List.getElem_map]
    rw [hname]
    simp [hnm_pre]
  have hbad1 : argOk arg b1.segs[i] = false := by
    rw [hseg1]; exact hbad _ (List.getElem_mem _) hname
  obtain ⟨herr, hsame⟩ := (changeArgOne_of_index b1 nm arg value i hi1 hidx1).2 hbad1
  rw [changeArgLoop_cons_err b1 nm post arg value herr]
  refine ⟨herr, ?_, by rw [hsame, hst]⟩
  apply changeArgOne_err_congr b b1 nm arg value hn1
  intro j hj
  rw [hidx] at hj
  cases hj
  rw [List.getElem?_eq_getElem hi1, List.getElem?_eq_getElem hi, hseg1]

/-- helper: in a list without repetitions, `l[i]` is among the first `j` entries iff `i < j` -/
theorem getElem_mem_take_iff {α : Type} (l : List α) (hnd : l.Nodup) (i j : Nat) (hi : i < l.length) :
    l[i] ∈ l.take j ↔ i < j := by
  constructor
  · intro h
    obtain ⟨k, hk, e⟩ := List.getElem_of_mem h
    have hk' : k < min j l.length := by simpa [List.length_take] using hk
    rw [List.getElem_take] at e
    have := (List.getElem_inj hnd).mp e
    omega
  · intro h
    have : i < (l.take j).length := by simp [List.length_take]; omega
    have e : (l.take j)[i] = l[i] := List.getElem_take
    rw [← e]
    exact List.getElem_mem _

/-- **a rejected `changeArg(name, arg, value, replaceeverywhere=True)`** on a blueprint with pairwise
    distinct names: either the base name is no segment name and nothing changed, or there is a first
    segment `j` (in blueprint order) with `name`'s base name that does not take the argument; the
    exception is the one the step on segment `j` raises, and the blueprint is the old one in which
    exactly the segments *in front of* `j` sharing the base name carry the new value - segment `j`
    and everything behind it are untouched. -/
theorem changeArg_all_rejected (b : BP) (hnd : b.names.Nodup) (name : String) (arg value : Val)
    (hrej : (b.changeArg name arg value true).err ≠ none) :
    (basename name ∉ b.names ∧ (b.changeArg name arg value true).st = b) ∨
    ∃ (j : Nat) (hj : j < b.segs.length),
      basename (b.segs[j]).name = basename name ∧ argOk arg b.segs[j] = false ∧
      (∀ i (hi : i < b.segs.length), i < j → basename (b.segs[i]).name = basename name → argOk arg b.segs[i] = true) ∧
      (b.changeArg name arg value true).err = (b.changeArgOne (b.segs[j]).name arg value).err ∧
      (b.changeArg name arg value true).st =
        { b with segs := b.segs.map (fun s =>
            if s.name ∈ (b.names.take j).filter (fun nm => basename nm == basename name)
            then setArgOf arg value s else s) } := by
  by_cases hm : basename name ∈ b.names
  · right
    have htg : (b.targets name true) = (basename name, b.names.filter (fun nm => basename nm == basename name)) := rfl
    have hca : b.changeArg name arg value true =
        b.changeArgLoop (b.names.filter (fun nm => basename nm == basename name)) arg value := by
      unfold changeArg
      rw [htg]
      simp [hm]
    rw [hca] at hrej ⊢
    have hlnd : (b.names.filter (fun nm => basename nm == basename name)).Nodup := hnd.filter _
    have hsub : ∀ nm ∈ b.names.filter (fun nm => basename nm == basename name), nm ∈ b.names :=
      fun nm hmm => (List.mem_filter.mp hmm).1
    have hspec := (changeArgLoop_spec b hnd _ hlnd hsub arg value).1
    have hex : ∃ j, ∃ hj : j < b.segs.length,
        basename (b.segs[j]).name = basename name ∧ argOk arg b.segs[j] = false := by
      apply Classical.byContradiction
      intro hno
      apply hrej
      rw [hspec]
      intro s hs hmem
      obtain ⟨j, hj, rfl⟩ := List.getElem_of_mem hs
      have hb : basename (b.segs[j]).name = basename name := by simpa using (List.mem_filter.mp hmem).2
      cases hok : argOk arg b.segs[j] with
      | true => rfl
      | false => exact absurd ⟨j, hj, hb, hok⟩ hno
    have hsp := Nat.find_spec hex
    have hmn : ∀ i, i < Nat.find hex → ¬ ∃ hi : i < b.segs.length,
        basename (b.segs[i]).name = basename name ∧ argOk arg b.segs[i] = false :=
      fun i hi => Nat.find_min hex hi
    generalize Nat.find hex = j at hsp hmn
    obtain ⟨hj, hbase, hbadj⟩ := hsp
    have hmin : ∀ i (hi : i < b.segs.length), i < j → basename (b.segs[i]).name = basename name →
        argOk arg b.segs[i] = true := by
      intro i hi hij hb
      cases hok : argOk arg b.segs[i] with
      | true => rfl
      | false => exact absurd ⟨hi, hb, hok⟩ (hmn i hij)
    have hjn : j < b.names.length := by rw [names_length]; exact hj
    have hnj : b.names[j] = (b.segs[j]).name := by simp [names]
    have hsplit : b.names = b.names.take j ++ (b.segs[j]).name :: b.names.drop (j + 1) := by
      rw [← hnj, List.getElem_cons_drop, List.take_append_drop]
    have hfil : b.names.filter (fun nm => basename nm == basename name) =
        (b.names.take j).filter (fun nm => basename nm == basename name) ++ (b.segs[j]).name ::
          (b.names.drop (j + 1)).filter (fun nm => basename nm == basename name) := by
      conv_lhs => rw [hsplit]
      rw [List.filter_append, List.filter_cons]
      simp [hbase]
    refine ⟨j, hj, hbase, hbadj, hmin, ?_⟩
    have hpre : ∀ s ∈ b.segs, s.name ∈ (b.names.take j).filter (fun nm => basename nm == basename name) →
        argOk arg s = true := by
      intro s hs hmem
      obtain ⟨i, hi, rfl⟩ := List.getElem_of_mem hs
      obtain ⟨hmt, hb⟩ := List.mem_filter.mp hmem
      have hin : i < b.names.length := by rw [names_length]; exact hi
      have hni : b.names[i] = (b.segs[i]).name := by simp [names]
      rw [← hni] at hmt
      exact hmin i hi ((getElem_mem_take_iff b.names hnd i j hin).mp hmt) (by simpa using hb)
    have hbad : ∀ s ∈ b.segs, s.name = (b.segs[j]).name → argOk arg s = false := by
      intro s hs he
      obtain ⟨i, hi, rfl⟩ := List.getElem_of_mem hs
      have hin : i < b.names.length := by rw [names_length]; exact hi
      have : i = j := by
        have ej : b.names[i] = b.names[j] := by
          simp only [names, List.getElem_map]
          exact he
        exact (List.getElem_inj hnd).mp ej
      subst this
      exact hbadj
    have := changeArgLoop_rejected b hnd _ _ _ (hfil ▸ hlnd) (fun n hn => hsub n (hfil ▸ hn)) arg value hpre hbad
    rw [← hfil] at this
    exact ⟨this.2.1, this.2.2⟩
  · left
    refine ⟨hm, ?_⟩
    unfold changeArg
    have htg : (b.targets name true).1 = basename name := rfl
    rw [htg]
    simp [hm]

end BB.G12
