/-
  BB.Proofs.G4Wave — evaluating the blocks `_applyDelays` inserts (both are all-zero), and how
  marker windows move when every segment starts `D` samples later on a longer time axis.
-/
import BB.Proofs.G4Zero
import Mathlib.Tactic.Ring
import Mathlib.Tactic.FieldSimp

namespace BB
open BP Element

/-! ### the inserted blocks evaluate to zeros -/

theorem g4_eval_wait_block (args : List Val) (sr : Rat) (n : Nat) :
    (Blk.call Fn.waitCallable args sr n).eval? = some (List.replicate n 0) := by
  have hs : Fn.waitCallable.shape = .zeros := rfl
  have : (Blk.call Fn.waitCallable args sr n).eval? =
      some ((List.range n).map (fun k => Gen.waituntil 0 sr ((n : Int) : Rat) k)) := by
    simp only [Blk.eval?, hs]
  rw [this]
  congr 1
  apply List.ext_getElem
  · simp
  · intro i h1 h2
    simp [Gen.waituntil]

theorem g4_eval_zero_ramp_block (sr : Rat) (n : Nat) :
    (Blk.call Fn.rampFn [.num 0, .num 0] sr n).eval? = some (List.replicate n 0) := by
  have hs : Fn.rampFn.shape = .ramp := rfl
  simp only [Blk.eval?, hs]
  congr 1
  apply List.ext_getElem
  · simp
  · intro i h1 h2
    simp [Gen.ramp]

/-! ### `mapM` in `Option` -/

theorem g4_mapM_option_congr {α β : Type} (f : α → Option β) (l l' : List α) (h : l.map f = l'.map f) :
    l.mapM f = l'.mapM f := by
  induction l generalizing l' with
  | nil => cases l' with
    | nil => rfl
    | cons _ _ => simp at h
  | cons a t ih =>
    cases l' with
    | nil => simp at h
    | cons b u =>
      simp only [List.map_cons, List.cons.injEq] at h
      rw [List.mapM_cons, List.mapM_cons, h.1, ih u h.2]

/-- the delayed original blocks evaluate to what the original blocks evaluate to -/
theorem eval_shifted_blocks (sr dl : Rat) (segs : List Seg) (ns : List Nat) :
    (mkBlocks sr (segs.map (shiftWait dl)) ns).mapM Blk.eval? = (mkBlocks sr segs ns).mapM Blk.eval? := by
  apply g4_mapM_option_congr
  have := congrArg (List.map Blk.eval?) (mkBlocks_shift_norm sr dl segs ns)
  simp only [List.map_map] at this
  have hn : Blk.eval? ∘ Blk.norm = Blk.eval? := by funext b; exact Blk.norm_eval b
  rwa [hn] at this

/-! ### segment starts and segment-bound markers under concatenation -/

theorem g4_starts_append (a c : List Nat) (acc : Nat) : starts (a ++ c) acc = starts a acc ++ starts c (acc + sumN a) := by
  induction a generalizing acc with
  | nil => simp [starts, sumN]
  | cons n ns ih =>
    simp only [List.cons_append, starts, ih, sumN, List.cons.injEq, true_and]
    congr 2
    omega

theorem g4_starts_shift (ns : List Nat) (acc D : Nat) : starts ns (acc + D) = (starts ns acc).map (· + D) := by
  induction ns generalizing acc with
  | nil => rfl
  | cons n ns ih =>
    simp only [starts, List.map_cons, List.cons.injEq, true_and]
    rw [show acc + D + n = acc + n + D by omega, ih]

theorem g4_segMarks_append (sr : Rat) (sel : Seg → Mark) (a c : List Seg) (sa sc : List Nat) (h : sa.length = a.length) :
    segMarks sr sel (a ++ c) (sa ++ sc) = segMarks sr sel a sa ++ segMarks sr sel c sc := by
  induction a generalizing sa with
  | nil =>
    cases sa with
    | nil => cases c <;> cases sc <;> simp [segMarks]
    | cons _ _ => simp at h
  | cons s ss ih =>
    cases sa with
    | nil => simp at h
    | cons st sts =>
      simp only [List.cons_append, segMarks, ih sts (by simpa using h)]
      split <;> simp

/-! ### the nearest sample on a longer axis -/

/-- moving a time on the axis `D` whole samples later moves its nearest sample by `D`, and a longer
    axis does not matter as long as the time lay on the original one -/
theorem g4_nearestIdx_add (N M D : Nat) (x : Rat) (h0 : 0 ≤ x) (hx : x ≤ (N : Rat) - 1) (hD : D ≤ M) :
    nearestIdx (N + M) (x + D) = nearestIdx N x + D := by
  have hN : 1 ≤ N := by
    have : (0 : Rat) ≤ (N : Rat) - 1 := le_trans h0 hx
    have : (1 : Rat) ≤ N := by linarith
    exact_mod_cast this
  by_cases hx0 : x ≤ 0
  · have hxz : x = 0 := le_antisymm hx0 h0
    subst hxz
    simp only [zero_add]
    have e1 : nearestIdx N 0 = 0 := by simp [nearestIdx]
    rw [e1, zero_add]
    unfold nearestIdx
    by_cases hd0 : (D : Rat) ≤ 0
    · simp only [hd0, if_true]
      have : (D : Rat) = 0 := le_antisymm hd0 (by exact_mod_cast Nat.zero_le D)
      exact_mod_cast this.symm
    · simp only [hd0, if_false]
      have hfl : (D : Rat).floor = (D : Int) := Int.floor_natCast (R := ℚ) D
      rw [hfl]
      simp only [Int.toNat_natCast, sub_self, add_sub_cancel_left, zero_le_one, if_true]
      have : N + M ≠ 0 := by omega
      simp only [this, if_false]
      omega
  · have hxpos : 0 < x := not_le.mp hx0
    have hxD : ¬ (x + D ≤ 0) := by
      have : (0 : Rat) ≤ D := by exact_mod_cast Nat.zero_le D
      linarith
    unfold nearestIdx
    simp only [hx0, hxD, if_false]
    have hfl : (x + (D : Rat)).floor = x.floor + (D : Int) := Int.floor_add_natCast x D
    have hf0 : 0 ≤ x.floor := Int.floor_nonneg.mpr h0
    have hfle : (x.floor : Rat) ≤ x := Int.floor_le x
    have hflt : x < x.floor + 1 := Int.lt_floor_add_one x
    rw [hfl]
    have htn : (x.floor + (D : Int)).toNat = x.floor.toNat + D := by omega
    rw [htn]
    have hcast : ((x.floor.toNat : Nat) : Rat) = (x.floor : Rat) := by
      have : ((x.floor.toNat : Nat) : Int) = x.floor := Int.toNat_of_nonneg hf0
      exact_mod_cast this
    have hcond : (x + (D : Rat) - ((x.floor.toNat + D : Nat) : Rat) ≤ ((x.floor.toNat + D : Nat) : Rat) + 1 - (x + D)) ↔
        (x - ((x.floor.toNat : Nat) : Rat) ≤ ((x.floor.toNat : Nat) : Rat) + 1 - x) := by
      push_cast
      constructor <;> intro h <;> linarith
    have hN0 : N ≠ 0 := by omega
    have hNM0 : N + M ≠ 0 := by omega
    simp only [hN0, hNM0, if_false]
    -- the candidate index lies on the original axis
    have hfN : x.floor.toNat ≤ N - 1 := by
      have : (x.floor : Rat) ≤ (N : Rat) - 1 := le_trans hfle hx
      have : (x.floor : Rat) ≤ ((N - 1 : Nat) : Rat) := by
        rw [Nat.cast_sub hN]; simpa using this
      have : ((x.floor.toNat : Nat) : Rat) ≤ ((N - 1 : Nat) : Rat) := by rw [hcast]; exact this
      exact_mod_cast this
    by_cases hc : x - ((x.floor.toNat : Nat) : Rat) ≤ ((x.floor.toNat : Nat) : Rat) + 1 - x
    · have hc' := hcond.mpr hc
      simp only [hc, hc', if_true]
      omega
    · have hc' : ¬ _ := fun h => hc (hcond.mp h)
      simp only [hc, hc', if_false]
      -- floor < x ≤ N - 1, so floor + 1 ≤ N - 1
      have hlt : (x.floor : Rat) < x := by
        rw [hcast] at hc
        have := not_le.mp hc
        linarith
      have : (x.floor : Rat) < (N : Rat) - 1 := lt_of_lt_of_le hlt hx
      have : ((x.floor.toNat : Nat) : Rat) < ((N - 1 : Nat) : Rat) := by
        rw [hcast, Nat.cast_sub hN]; simpa using this
      have : x.floor.toNat < N - 1 := by exact_mod_cast this
      omega

/-! ### marker windows -/

/-- the ON-window of a marker lies on the undelayed waveform: it starts on the time axis, has a
    non-negative length and does not reach beyond the last sample -/
def MarkInside (N : Nat) (sr : Rat) (m : Mark) : Prop :=
  0 ≤ m.1 * sr ∧ m.1 * sr ≤ (N : Rat) - 1 ∧ 0 ≤ rhe (m.2 * sr) ∧ (nearestIdx N (m.1 * sr) : Int) + rhe (m.2 * sr) ≤ N

instance (N : Nat) (sr : Rat) (m : Mark) : Decidable (MarkInside N sr m) := by unfold MarkInside; infer_instance

/-- a window inside the waveform is just `[nearest sample, nearest sample + rounded length)` -/
theorem g4_window_inside (N : Nat) (sr : Rat) (m : Mark) (h : MarkInside N sr m) :
    window N sr m = (nearestIdx N (m.1 * sr), nearestIdx N (m.1 * sr) + (rhe (m.2 * sr)).toNat) := by
  obtain ⟨_, _, h3, h4⟩ := h
  unfold window sliceStop
  have : ¬ ((nearestIdx N (m.1 * sr) : Int) + rhe (m.2 * sr) < 0) := by omega
  simp only [this, if_false, Prod.mk.injEq, true_and]
  omega

/-- **a segment-bound marker moves with the waveform**: its window on the delayed waveform
    (`M` samples longer, the segment `D ≤ M` samples later) is the old window moved by `D` -/
theorem g4_window_shift (N M D : Nat) (sr : Rat) (hsr : sr ≠ 0) (m : Mark) (h : MarkInside N sr m) (hD : D ≤ M) :
    window (N + M) sr (m.1 + ((D : Int) : Rat) / sr, m.2) = ((window N sr m).1 + D, (window N sr m).2 + D) := by
  rw [g4_window_inside N sr m h]
  obtain ⟨h1, h2, h3, h4⟩ := h
  have hx : (m.1 + ((D : Int) : Rat) / sr) * sr = m.1 * sr + (D : Rat) := by
    field_simp
    push_cast
    ring
  unfold window sliceStop
  simp only [hx, g4_nearestIdx_add N M D (m.1 * sr) h1 h2 hD]
  have : ¬ (((nearestIdx N (m.1 * sr) + D : Nat) : Int) + rhe (m.2 * sr) < 0) := by omega
  simp only [this, if_false, Prod.mk.injEq, true_and]
  omega

/-- **an absolute-time marker keeps its absolute time**: on the longer delayed waveform its window
    is the very same index range -/
theorem g4_window_longer (N M : Nat) (sr : Rat) (m : Mark) (h : MarkInside N sr m) :
    window (N + M) sr m = window N sr m := by
  rw [g4_window_inside N sr m h]
  obtain ⟨h1, h2, h3, h4⟩ := h
  have := g4_nearestIdx_add N M 0 (m.1 * sr) h1 h2 (Nat.zero_le M)
  simp only [Nat.cast_zero, add_zero] at this
  unfold window sliceStop
  simp only [this]
  have : ¬ ((nearestIdx N (m.1 * sr) : Int) + rhe (m.2 * sr) < 0) := by omega
  simp only [this, if_false, Prod.mk.injEq, true_and]
  omega

end BB
