/-
  BB.Proofs.G1Flat — the forged waveform as a flat list of samples:
  evaluation of blocks (`Blk.eval?`), the flat sample list `Forged.flat?` (all blocks evaluated and
  joined in order), where every block's samples sit in it, and the `newdurations` field.
-/
import BB.Proofs.Forge
import BB.Proofs.Basic
import Mathlib.Tactic.FieldSimp
import Mathlib.Tactic.Ring

namespace BB

/-! ### evaluating one block -/

/-- an evaluated block has as many samples as the block says -/
theorem Blk.evalLength (blk : Blk) (xs : List ℚ) (h : blk.eval? = some xs) : xs.length = blk.len := by
  cases blk with
  | raw ys => simp only [Blk.eval?, Option.some.injEq] at h; subst h; rfl
  | call fn args sr n =>
    simp only [Blk.eval?] at h
    split at h
    · simp only [Option.some.injEq] at h; subst h; simp [Blk.len]
    · simp only [Option.some.injEq] at h; subst h; simp [Blk.len]
    · simp at h

/-- a block of a function of shape `zeros` (`PulseAtoms.waituntil`) evaluates to `n` zeros -/
theorem Blk.evalZeros (fn : Fn) (args : List Val) (sr : ℚ) (n : ℕ) (h : fn.shape = .zeros) :
    Blk.eval? (.call fn args sr n) = some (List.replicate n 0) := by
  simp only [Blk.eval?, h, Gen.waituntil]
  congr 1
  apply List.ext_getElem <;> simp

/-- a block of a function of shape `ramp` with two numeric arguments evaluates to the generated
    `PulseAtoms.ramp` kernel on the points `0..n-1` -/
theorem Blk.evalRamp (fn : Fn) (a c sr : ℚ) (n : ℕ) (h : fn.shape = .ramp) :
    Blk.eval? (.call fn [.num a, .num c] sr n) =
      some ((List.range n).map (fun k => Gen.ramp a c sr ((n : ℤ) : ℚ) k)) := by
  simp only [Blk.eval?, h]

theorem forgeFn_wait (fn : Fn) (h : fn.isWait = true) : forgeFn fn = Fn.waitCallable := by
  simp [forgeFn, h]

theorem forgeFn_nonwait (fn : Fn) (h : fn.isWait = false) : forgeFn fn = fn := by
  simp [forgeFn, h]

/-! ### all blocks evaluated, joined in order -/

/-- all blocks evaluated (`none` if one of them is a symbolic call the model cannot evaluate) -/
def evalBlocks (l : List Blk) : Option (List (List ℚ)) := l.mapM Blk.eval?

/-- the flat waveform: the evaluated blocks joined in block order -/
def Forged.flat? (f : Forged) : Option (List ℚ) := (evalBlocks f.blocks).map List.flatten

theorem evalBlocks_nil : evalBlocks [] = some [] := by
  simp [evalBlocks, List.mapM_nil]

theorem evalBlocks_cons (b : Blk) (t : List Blk) :
    evalBlocks (b :: t) =
      match b.eval? with
      | none => none
      | some x => match evalBlocks t with
        | none => none
        | some xs => some (x :: xs) := by
  unfold evalBlocks
  rw [List.mapM_cons]
  cases b.eval? <;> simp
  cases List.mapM Blk.eval? t <;> simp

/-- `evalBlocks` succeeds exactly with the list of the individual evaluations -/
theorem evalBlocks_some (l : List Blk) (xss : List (List ℚ)) (h : evalBlocks l = some xss) :
    xss.length = l.length ∧ ∀ i (hi : i < l.length) (hx : i < xss.length), l[i].eval? = some xss[i] := by
  induction l generalizing xss with
  | nil =>
    rw [evalBlocks_nil] at h
    simp only [Option.some.injEq] at h
    subst h
    exact ⟨rfl, fun i hi => by simp at hi⟩
  | cons b t ih =>
    rw [evalBlocks_cons] at h
    cases hb : b.eval? with
    | none => simp [hb] at h
    | some x =>
      cases ht : evalBlocks t with
      | none => simp [hb, ht] at h
      | some xs =>
        simp only [hb, ht, Option.some.injEq] at h
        subst h
        obtain ⟨h1, h2⟩ := ih xs ht
        refine ⟨by simp [h1], ?_⟩
        intro i hi hx
        cases i with
        | zero => simpa using hb
        | succ i => simpa using h2 i (by simpa using hi) (by simpa using hx)

/-- ... and it does succeed when every block can be evaluated -/
theorem evalBlocks_isSome (l : List Blk) (h : ∀ b ∈ l, b.eval?.isSome = true) :
    (evalBlocks l).isSome = true := by
  induction l with
  | nil => simp [evalBlocks_nil]
  | cons b t ih =>
    rw [evalBlocks_cons]
    have hb := h b (by simp)
    have ht := ih (fun x hx => h x (by simp [hx]))
    cases hbe : b.eval? with
    | none => simp [hbe] at hb
    | some x =>
      cases hte : evalBlocks t with
      | none => simp [hte] at ht
      | some xs => simp

theorem evalBlocks_lengths (l : List Blk) (xss : List (List ℚ)) (h : evalBlocks l = some xss) :
    xss.map List.length = l.map Blk.len := by
  obtain ⟨hl, hget⟩ := evalBlocks_some l xss h
  apply List.ext_getElem
  · simp [hl]
  · intro i h1 h2
    simp only [List.getElem_map]
    have hi : i < l.length := by simpa using h2
    have hx : i < xss.length := by simpa using h1
    exact Blk.evalLength _ _ (hget i hi hx)

/-! ### where the samples of block `i` sit in the joined list -/

theorem sumN_map_length_flatten {α} (xss : List (List α)) :
    xss.flatten.length = sumN (xss.map List.length) := by
  induction xss with
  | nil => rfl
  | cons x xs ih => simp [sumN, ih]

/-- sample `j` of the `i`-th list sits at position `Σ_{k<i} |xss[k]| + j` of the joined list -/
theorem flatten_getElem_offset {α} (xss : List (List α)) (i : ℕ) (hi : i < xss.length) (j : ℕ)
    (hj : j < xss[i].length) :
    ∃ h : sumN ((xss.map List.length).take i) + j < xss.flatten.length,
      xss.flatten[sumN ((xss.map List.length).take i) + j] = xss[i][j] := by
  induction xss generalizing i with
  | nil => simp at hi
  | cons x xs ih =>
    cases i with
    | zero =>
      simp only [List.getElem_cons_zero] at hj
      refine ⟨by simp [sumN]; omega, ?_⟩
      simp only [List.take_zero, sumN, Nat.zero_add, List.flatten_cons, List.getElem_cons_zero]
      rw [List.getElem_append_left hj]
    | succ i =>
      simp only [List.getElem_cons_succ] at hj
      obtain ⟨h1, h2⟩ := ih i (by simpa using hi) hj
      refine ⟨by simp [sumN] at h1 ⊢; omega, ?_⟩
      simp only [List.map_cons, List.take_succ_cons, sumN, List.flatten_cons, List.getElem_cons_succ]
      rw [List.getElem_append_right (by omega)]
      rw [← h2]
      congr 1
      omega

/-! ### `newdurations` -/

theorem sumR_counts_div (ns : List ℕ) (sr : ℚ) :
    sumR (ns.map (fun (n : ℕ) => ((n : ℤ) : ℚ) / sr)) = ((sumN ns : ℕ) : ℚ) / sr := by
  induction ns with
  | nil => simp [sumR, sumN]
  | cons n ns ih =>
    simp only [List.map_cons, sumR, sumN, ih]
    push_cast
    ring

/-! ### the blocks of a forged blueprint -/

/-- block `i` of a forged blueprint is a call of segment `i`'s (forging) function on segment `i`'s
    arguments at the blueprint's sample rate -/
theorem forge_block_call (b : BP) (f : Forged) (h : forgeBP b = .ok f) (i : ℕ) (hi : i < b.segs.length) :
    ∃ (hb : i < f.blocks.length) (n : ℕ),
      f.blocks[i] = Blk.call (forgeFn b.segs[i].fn) b.segs[i].args f.SR n := by
  obtain ⟨sr, durs, ns, hsr, hd, hn, _, rfl⟩ := (forge_ok_iff b f).mp h
  have hlen := resolveGo_length _ _ _ hd
  have hnl : ns.length = b.segs.length := by rw [countsGo_length sr durs ns hn, hlen]
  have hbl : (mkBlocks sr b.segs ns).length = b.segs.length := mkBlocks_length sr b.segs ns hnl
  refine ⟨by simp only [assemble]; omega, ns[i]'(by omega), ?_⟩
  simp only [assemble]
  exact mkBlocks_getElem sr b.segs ns i hi (by omega) (by omega)

/-- the block of a waituntil segment evaluates to zeros -/
theorem forge_wait_block_zeros (b : BP) (f : Forged) (h : forgeBP b = .ok f) (i : ℕ)
    (hi : i < b.segs.length) (hw : b.segs[i].fn.isWait = true) :
    ∃ hb : i < f.blocks.length, f.blocks[i].eval? = some (List.replicate f.blocks[i].len 0) := by
  obtain ⟨hb, n, hblk⟩ := forge_block_call b f h i hi
  refine ⟨hb, ?_⟩
  rw [hblk, forgeFn_wait _ hw]
  exact Blk.evalZeros _ _ _ _ rfl

end BB
