/-
  BB.Proofs.G13C20 — the sequence-level part of property C20 "equal objects forge identically, up
  to the order in which the channels are listed" (continuation of `Properties/C20.lean`, section
  G13, same namespace `BB.C20`).  It lives here only because its proofs need `Proofs/G13Perm`
  (delay step, `forge` position by position), whose import closure contains Mathlib's ring
  structure on `Rat`; importing that into `Properties/C20.lean` would change the simp set of
  `Properties/C19.lean`.
-/
import BB.Properties.C20
import BB.Proofs.G13Perm
import BB.Proofs.G11Elem

namespace BB.C20
open BB BB.BP

/-- **equal sequences forge to the same content, whatever the insertion orders** - of the
    positions, of the positions inside subsequences, and of the channels inside every element:
    if `a == b`, every common channel has the same sample rate on both sides (`EntSR`, D23) and
    `validateDurations` gives the same verdict on corresponding elements (`EntVerdict`), then
    whenever `a.forge(...)` succeeds, `b.forge(...)` succeeds with the same options, and the two
    results agree position by position (same sequencing entry, same type), content entry by content
    entry (same inner position, same inner sequencing), channel by channel: the per-channel
    dictionaries hold the same channel ids with the same arrays, flags, time option and filter
    annotation, listed in possibly different orders (`ForgedSame`).

    `…_partial`: `EntSR` is the D23 hypothesis.  The proviso `EntVerdict` cannot be dropped
    (`seq_eq_forge_verdict_counterexample`); the statement is for the successful case because
    *which* exception a failing forge raises depends on the orders. -/
theorem seq_eq_forge_content_anyorder_partial (a b : Sequence) (ha : SeqWF a) (hb : SeqWF b) (h : a.beq b = true)
    (hsr : ∀ pos x y, Dict.get? a.data pos = some x → Dict.get? b.data pos = some y → EntSR x y)
    (hv : ∀ pos x y, Dict.get? a.data pos = some x → Dict.get? b.data pos = some y → EntVerdict x y)
    (d f t : Bool) (out : List (Nat × ForgedPos)) (hout : a.forge d f t = .ok out) :
    ∃ out', b.forge d f t = .ok out' ∧ ForgedSame out out' := by
  obtain ⟨h1, h2, h3⟩ := (seq_eq_iff a b).mp h
  obtain ⟨g, hperm, hg⟩ := Dict.eqBy_perm Entry.beq ha.data hb.data h1
  let c : Sequence := { b with data := a.data.map (fun p => (p.1, g p)) }
  have hcwf : Dict.WF c.data := by
    show Dict.WF (a.data.map (fun p => (p.1, g p)))
    unfold Dict.WF Dict.keys
    rw [List.map_map]
    exact ha.data
  have hrel : Dict.Rel (EntLook ElPV) a.data c.data := by
    apply rel_map_right (EntLook ElPV) g a.data ?_ a.data (fun _ hp => hp)
    intro p hp
    have hq : (p.1, g p) ∈ b.data := hperm.mem_iff.mp (List.mem_map.mpr ⟨p, hp, rfl⟩)
    have hx := Dict.get?_eq_some_of_mem ha.data p.1 p.2 hp
    have hy := Dict.get?_eq_some_of_mem hb.data p.1 (g p) hq
    exact entry_eq_look_partial p.2 (g p) (ha.entries _ (Dict.mem_vals_of_get? hx)) (hb.entries _ (Dict.mem_vals_of_get? hy))
      (hg p hp) (hsr p.1 p.2 (g p) hx hy) (hv p.1 p.2 (g p) hx hy)
  obtain ⟨out', hc', hS⟩ := Sequence.forge_look a c (Dict.eqBy_beq_get? ha.specs hb.specs h2)
    (Dict.eqBy_beq_get? ha.sequencing hb.sequencing h3) hrel d f t out hout
  exact ⟨out', Sequence.forge_perm_ok c b hperm hcwf rfl rfl d f t out' hc', hS⟩

/-- **... in both directions**: under the same hypotheses, `a.forge(...)` succeeds iff
    `b.forge(...)` does, and the two results are `ForgedSame` -/
theorem seq_eq_forge_content_anyorder_iff_partial (a b : Sequence) (ha : SeqWF a) (hb : SeqWF b) (h : a.beq b = true)
    (hsr : ∀ pos x y, Dict.get? a.data pos = some x → Dict.get? b.data pos = some y → EntSR x y)
    (hv : ∀ pos x y, Dict.get? a.data pos = some x → Dict.get? b.data pos = some y → EntVerdict x y)
    (d f t : Bool) :
    (∀ out, a.forge d f t = .ok out → ∃ out', b.forge d f t = .ok out' ∧ ForgedSame out out') ∧
    (∀ out', b.forge d f t = .ok out' → ∃ out, a.forge d f t = .ok out ∧ ForgedSame out out') := by
  refine ⟨fun out hout => seq_eq_forge_content_anyorder_partial a b ha hb h hsr hv d f t out hout, fun out' hout' => ?_⟩
  obtain ⟨out, ho, hS⟩ := seq_eq_forge_content_anyorder_partial b a hb ha (seq_eq_symm a b ha hb h)
    (fun pos x y hx hy => entSR_symm (hsr pos y x hy hx)) (fun pos x y hx hy => entVerdict_symm (hv pos y x hy hx)) d f t out' hout'
  exact ⟨out, ho, forgedSame_symm hS⟩

/-- the theorem applied to the pair -/
example (out : List (Nat × ForgedPos)) (h : (perm_seq true).forge true false false = .ok out) :
    ∃ out', (perm_seq false).forge true false false = .ok out' ∧ ForgedSame out out' :=
  seq_eq_forge_content_anyorder_partial _ _ (perm_seq_wf true) (perm_seq_wf false) perm_seq_hyps.1 perm_seq_hyps.2.1
    perm_seq_hyps.2.2 true false false out h


/-! #### ... as a look-up statement: same position, same channel id → same output -/

/-- helper: a dictionary with the keys of a dictionary that lists no key twice lists no key twice -/
theorem wf_of_same_keys {α β : Type} (c : Dict Chan α) (d : Dict Chan β) (hl : c.length = d.length)
    (hk : ∀ k (hk : k < d.length) (hc : k < c.length), (c[k]).1 = (d[k]).1) (hwf : Dict.WF d) : Dict.WF c := by
  have : Dict.keys c = Dict.keys d := by
    apply List.ext_getElem
    · simp [Dict.keys, hl]
    · intro k h1 h2
      simp only [Dict.keys, List.length_map] at h1 h2
      simp only [Dict.keys, List.getElem_map]
      exact hk k h2 h1
  unfold Dict.WF
  rw [this]
  exact hwf

/-- **the channel dictionaries `forge` delivers list no channel twice** (for a sequence whose
    dictionaries hold every key once, `SeqWF` - what `dict` assignment maintains): so "the same
    (channel, output) pairs in any order" is the same as "every channel id gives the same output" -/
theorem forge_channel_dicts_wf (s : Sequence) (hs : SeqWF s) (d f t : Bool) (out : List (Nat × ForgedPos))
    (h : s.forge d f t = .ok out) (i : Nat) (hi : i < out.length) (j : Nat) (hj : j < (out[i]).2.content.length) :
    Dict.WF ((out[i]).2.content[j]).2.1 := by
  obtain ⟨en, hen, hpos⟩ := (Sequence.forge_pos s d f t out h).2 i hi
  have hwf := hs.entries en (Dict.mem_vals_of_get? hen)
  cases en with
  | el e =>
    obtain ⟨e', arr, c, sq, h1, h2, h3, _, h5⟩ := Sequence.forgePos_element s d f t (i + 1) e _ hpos
    obtain ⟨hl, hall⟩ := Sequence.element_output_frame s d f t e e' arr c h1 h2 h3
    have hc : (out[i]).2.content = [(1, c, none)] := by rw [h5]
    have hj0 : j = 0 := by rw [hc] at hj; simpa using hj
    subst hj0
    simp only [hc, List.getElem_cons_zero]
    exact wf_of_same_keys c e.chans hl (fun k hk hc => (hall k hk hc).1) hwf
  | sub sub =>
    obtain ⟨_, _, _, _, _, _, hall⟩ := Sequence.forgePos_sub s d f t (i + 1) sub _ hpos
    obtain ⟨e, e', arr, c, q2, hge, h1, h2, h3, _, hcj⟩ := hall j hj
    obtain ⟨hl, hfr⟩ := Sequence.element_output_frame s d f t e e' arr c h1 h2 h3
    rw [hcj]
    exact wf_of_same_keys c e.chans hl (fun k hk hc => (hfr k hk hc).1) (hwf.2.2.2 e (Dict.mem_vals_of_get? hge))

/-- **equal sequences forge to the same content - look-up form**: under the hypotheses of
    `seq_eq_forge_content_anyorder_partial`, whenever `a.forge(...)` succeeds so does
    `b.forge(...)`, with equally many positions; at every position the same position number,
    sequencing entry, type and number of content entries; at every content entry the same inner
    position and inner sequencing, and **every channel id gives the same output** (arrays, flags,
    time option, filter annotation) in both - whatever the orders in which positions, inner
    positions and channels were added -/
theorem seq_eq_forge_lookup_anyorder_partial (a b : Sequence) (ha : SeqWF a) (hb : SeqWF b) (h : a.beq b = true)
    (hsr : ∀ pos x y, Dict.get? a.data pos = some x → Dict.get? b.data pos = some y → EntSR x y)
    (hv : ∀ pos x y, Dict.get? a.data pos = some x → Dict.get? b.data pos = some y → EntVerdict x y)
    (d f t : Bool) (out : List (Nat × ForgedPos)) (hout : a.forge d f t = .ok out) :
    ∃ out', b.forge d f t = .ok out' ∧ out.length = out'.length ∧
      ∀ i (hi : i < out.length) (hi' : i < out'.length),
        (out[i]).1 = (out'[i]).1 ∧ (out[i]).2.sequencing = (out'[i]).2.sequencing ∧
        (out[i]).2.isSub = (out'[i]).2.isSub ∧ (out[i]).2.content.length = (out'[i]).2.content.length ∧
        ∀ j (hj : j < (out[i]).2.content.length) (hj' : j < (out'[i]).2.content.length),
          ((out[i]).2.content[j]).1 = ((out'[i]).2.content[j]).1 ∧
          ((out[i]).2.content[j]).2.2 = ((out'[i]).2.content[j]).2.2 ∧
          ∀ ch, Dict.get? ((out[i]).2.content[j]).2.1 ch = Dict.get? ((out'[i]).2.content[j]).2.1 ch := by
  obtain ⟨out', ho', hS⟩ := seq_eq_forge_content_anyorder_partial a b ha hb h hsr hv d f t out hout
  obtain ⟨hl, hall⟩ := forgedSame_lookup out out' hS
  refine ⟨out', ho', hl, fun i hi hi' => ?_⟩
  obtain ⟨p1, p2, p3, p4, hc⟩ := hall i hi hi'
  refine ⟨p1, p2, p3, p4, fun j hj hj' => ?_⟩
  obtain ⟨c1, c2, _, c4⟩ := hc j hj hj'
  exact ⟨c1, c2, c4 (forge_channel_dicts_wf a ha d f t out hout i hi j hj)⟩

/-- the look-up form applied to the example pair -/
example (out : List (Nat × ForgedPos)) (h : (perm_seq true).forge true false false = .ok out) :
    ∃ out', (perm_seq false).forge true false false = .ok out' ∧ out.length = out'.length :=
  let ⟨out', h1, h2, _⟩ := seq_eq_forge_lookup_anyorder_partial _ _ (perm_seq_wf true) (perm_seq_wf false) perm_seq_hyps.1
    perm_seq_hyps.2.1 perm_seq_hyps.2.2 true false false out h
  ⟨out', h1, h2⟩

/-! #### sequences built through the public API: the proviso holds automatically -/

/-- **the D23 hypothesis in terms of the elements' sample rates**: two elements that both validate,
    with the same `Element.SR`, have the same sample rate on every channel -/
theorem elSR_of_validate (e e' : Element) (m m' : Val × Rat) (hv : e.validate = .ok m) (hv' : e'.validate = .ok m')
    (heq : m.1 = m'.1) : ElSR e e' := by
  intro ch x y hx hy
  have h1 := (g4_validate_SR e m hv).2 _ (Dict.mem_of_get?_eq_some ch x hx)
  have h2 := (g4_validate_SR e' m' hv').2 _ (Dict.mem_of_get?_eq_some ch y hy)
  simp only at h1 h2
  rw [h1, h2, heq]

/-- **for two sequences built through the public API the validation proviso holds automatically**:
    every stored element (top level and inside subsequences) passed `validateDurations` when it was
    added, so corresponding elements get the same verdict -/
theorem built_same_verdict (a b : Sequence) (hA : Sequence.ApiBuilt a) (hB : Sequence.ApiBuilt b) :
    ∀ pos x y, Dict.get? a.data pos = some x → Dict.get? b.data pos = some y → EntVerdict x y := by
  intro pos x y hx hy
  have ia := G11.apiBuilt_innerValidated hA _ (Dict.mem_of_get?_eq_some pos x hx)
  have ib := G11.apiBuilt_innerValidated hB _ (Dict.mem_of_get?_eq_some pos y hy)
  cases x <;> cases y <;> simp only [EntVerdict]
  · exact ⟨fun _ => ib.1 _ rfl, fun _ => ia.1 _ rfl⟩
  · exact fun k e e' he he' => ⟨fun _ => ib.2 _ rfl _ (Dict.mem_of_get?_eq_some k e' he'),
      fun _ => ia.2 _ rfl _ (Dict.mem_of_get?_eq_some k e he)⟩

/-- **equal API-built sequences forge to the same content whatever the insertion orders**: for two
    sequences built through the public API (`Sequence.ApiBuilt`) that compare equal and agree in the
    channel sample rates, one forges iff the other does, and the results are `ForgedSame` - no
    validation proviso.  (`…_partial`: `EntSR` is the D23 hypothesis.) -/
theorem seq_eq_forge_content_anyorder_built_partial (a b : Sequence) (hA : Sequence.ApiBuilt a) (hB : Sequence.ApiBuilt b)
    (ha : SeqWF a) (hb : SeqWF b) (h : a.beq b = true)
    (hsr : ∀ pos x y, Dict.get? a.data pos = some x → Dict.get? b.data pos = some y → EntSR x y) (d f t : Bool) :
    (∀ out, a.forge d f t = .ok out → ∃ out', b.forge d f t = .ok out' ∧ ForgedSame out out') ∧
    (∀ out', b.forge d f t = .ok out' → ∃ out, a.forge d f t = .ok out ∧ ForgedSame out out') :=
  seq_eq_forge_content_anyorder_iff_partial a b ha hb h hsr (built_same_verdict a b hA hB) d f t

/-- an element built by two `addBluePrint` calls, channel `i` first -/
def built_el (i j : Int) : Element :=
  ((({} : Element).addBluePrint (.int i) (d23_bp 10)).st.addBluePrint (.int j) (d23_bp 10)).st

/-- a sequence built by `setSR` and `addElement` -/
def built_seq (o : Bool) : Sequence :=
  (Sequence.addElement (SeqCore.setSR {} (.num 10)) 1 (if o then built_el 1 2 else built_el 2 1)).st

/-- non-vacuity (C20, API-built sequences): the example element is built through the public API -/
theorem built_el_built (i j : Int) : Element.ApiBuilt (built_el i j) := .addBluePrint _ _ _ (.addBluePrint _ _ _ .empty)

/-- non-vacuity (C20, API-built sequences): the example sequences are built through the public API -/
theorem built_seq_built (o : Bool) : Sequence.ApiBuilt (built_seq o) := by
  cases o
  · exact .addElement _ _ _ (.setSpec _ _ _ .empty) (built_el_built 2 1)
  · exact .addElement _ _ _ (.setSpec _ _ _ .empty) (built_el_built 1 2)

/-- non-vacuity (C20, API-built sequences): ... and well-formed -/
theorem built_seq_wf (o : Bool) : SeqWF (built_seq o) :=
  seqwf_addElement _ (seqwf_setSpec _ seqwf_empty _ _) 1 _ (by
    cases o <;> exact wf_addBluePrint _ (wf_addBluePrint _ Dict.wf_nil _ _) _ _)

/-- non-vacuity of `seq_eq_forge_content_anyorder_built_partial`: the two API-built sequences hold
    the same two channels added in either order; they compare equal, both elements validate at
    10 Sa/s (so `EntSR` holds by `elSR_of_validate`), and forging succeeds -/
example : (built_seq true).beq (built_seq false) = true ∧
    (∀ pos x y, Dict.get? (built_seq true).data pos = some x → Dict.get? (built_seq false).data pos = some y → EntSR x y) ∧
    ((built_seq true).forge true true true).toOption.isSome = true := by
  have hv12 : (built_el 1 2).validate = .ok (.num 10, 1) := by decide +kernel
  have hv21 : (built_el 2 1).validate = .ok (.num 10, 1) := by decide +kernel
  have hd : ∀ (e : Element) m, e.validate = .ok m →
      (Sequence.addElement (SeqCore.setSR {} (.num 10)) 1 e).st.data = [(1, .el { e with cache := some m })] := by
    intro e m hv
    unfold Sequence.addElement
    rw [hv]
    rfl
  refine ⟨by decide +kernel, ?_, by decide +kernel⟩
  intro pos x y hx hy
  have h1 := Dict.mem_of_get?_eq_some pos x hx
  have h2 := Dict.mem_of_get?_eq_some pos y hy
  simp only [built_seq, if_true, Bool.false_eq_true, if_false] at h1 h2
  rw [hd _ _ hv12] at h1
  rw [hd _ _ hv21] at h2
  simp only [List.mem_singleton, Prod.mk.injEq] at h1 h2
  obtain ⟨_, rfl⟩ := h1
  obtain ⟨_, rfl⟩ := h2
  exact elSR_of_validate (built_el 1 2) (built_el 2 1) _ _ hv12 hv21 rfl

end BB.C20
