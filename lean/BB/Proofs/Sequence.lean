/-
  BB.Proofs.Sequence — lemmas about the sequence model: position check (order-insensitive),
  consistency gate.
-/
import Mathlib.Data.List.Sort
import Mathlib.Data.List.Perm.Basic
import BB.Model.Sequence
import BB.Proofs.Basic

namespace BB

theorem insertSorted_eq (x : ℤ) (l : List ℤ) :
    insertSorted (fun a b => decide (a ≤ b)) x l = l.orderedInsert (· ≤ ·) x := by
  induction l with
  | nil => rfl
  | cons y ys ih =>
    simp only [insertSorted, List.orderedInsert_cons, decide_eq_true_eq]
    split
    · rfl
    · rw [ih]

theorem sortBy_eq (l : List ℤ) : sortBy (fun a b => decide (a ≤ b)) l = l.insertionSort (· ≤ ·) := by
  induction l with
  | nil => rfl
  | cons x xs ih =>
    simp only [sortBy, List.foldr_cons, List.insertionSort_cons] at *
    rw [ih, insertSorted_eq]

theorem sortBy_perm (l : List ℤ) : (sortBy (fun a b => decide (a ≤ b)) l).Perm l := by
  rw [sortBy_eq]; exact List.perm_insertionSort _ l

theorem sortBy_sorted (l : List ℤ) : (sortBy (fun a b => decide (a ≤ b)) l).Pairwise (· ≤ ·) := by
  rw [sortBy_eq]; exact List.pairwise_insertionSort _ l

/-- sorting is insensitive to the order of its input -/
theorem sortBy_of_perm {l₁ l₂ : List ℤ} (h : l₁.Perm l₂) :
    sortBy (fun a b => decide (a ≤ b)) l₁ = sortBy (fun a b => decide (a ≤ b)) l₂ := by
  apply List.Perm.eq_of_pairwise' (r := (· ≤ ·)) (sortBy_sorted _) (sortBy_sorted _)
  exact (sortBy_perm l₁).trans (h.trans (sortBy_perm l₂).symm)

theorem oneTo_sorted (n : ℕ) : (oneTo n).Pairwise (· ≤ ·) := by
  unfold oneTo
  rw [List.pairwise_map]
  have : (List.range n).Pairwise (· < ·) := List.pairwise_lt_range
  exact this.imp (by intro a b h; omega)

theorem oneTo_length (n : ℕ) : (oneTo n).length = n := by simp [oneTo]

/-- `gapFree`: the keys are exactly 1..N, in whatever order they were inserted -/
theorem gapFree_iff (keys : List ℤ) (hne : keys ≠ []) :
    gapFree keys = true ↔ keys.Perm (oneTo keys.length) := by
  unfold gapFree
  have hlen : (sortBy (fun a b => decide (a ≤ b)) keys).length = keys.length := (sortBy_perm keys).length_eq
  have hne' : (sortBy (fun a b => decide (a ≤ b)) keys).isEmpty = false := by
    cases h : sortBy (fun a b => decide (a ≤ b)) keys with
    | nil => rw [h] at hlen; simp at hlen; exact absurd (List.eq_nil_of_length_eq_zero hlen.symm) hne
    | cons _ _ => rfl
  simp only [hne', Bool.false_eq_true, if_false, beq_iff_eq, hlen]
  constructor
  · intro h
    rw [← h]; exact (sortBy_perm keys).symm
  · intro h
    apply List.Perm.eq_of_pairwise' (r := (· ≤ ·)) (sortBy_sorted _) (oneTo_sorted _)
    exact (sortBy_perm keys).trans h

/-- the position check does not depend on the order in which positions were added -/
theorem gapFree_of_perm {k₁ k₂ : List ℤ} (h : k₁.Perm k₂) : gapFree k₁ = gapFree k₂ := by
  unfold gapFree
  rw [sortBy_of_perm h]

theorem gapFree_nil : gapFree [] = true := by decide

end BB
