/-
  BB.Proofs.Add — the dictionary algebra behind `Sequence.__add__`: re-keying the right operand's
  entries behind the left operand's is an append when the new keys are fresh, and appends
  associate.
-/
import Mathlib.Tactic.Ring
import Mathlib.Tactic.Linarith
import BB.Proofs.DictEq
import BB.Proofs.Sequence

namespace BB
namespace Dict
variable {κ α β : Type} [DecidableEq κ]

theorem upsert_fresh (d : Dict κ α) (k : κ) (v : α) (h : k ∉ keys d) : upsert d k v = d ++ [(k, v)] := by
  induction d with
  | nil => rfl
  | cons p rest ih =>
    obtain ⟨k', v'⟩ := p
    simp only [keys, List.map_cons, List.mem_cons, not_or] at h
    unfold upsert
    rw [if_neg (fun e => h.1 e.symm)]
    simp only [List.cons_append, List.cons.injEq, true_and]
    exact ih h.2

theorem keys_append (a b : Dict κ α) : keys (a ++ b) = keys a ++ keys b := by simp [keys]

/-- re-keying and storing a list of entries whose new keys are pairwise distinct and not yet
    present is an append -/
theorem foldl_upsert_fresh (l : List (κ × β)) (f : κ → κ) (g : β → α) (step : Dict κ α → κ × β → Dict κ α)
    (hstep : ∀ d p, step d p = upsert d (f p.1) (g p.2)) (d0 : Dict κ α)
    (hnd : (l.map (fun p => f p.1)).Nodup) (hfresh : ∀ p ∈ l, f p.1 ∉ keys d0) :
    l.foldl step d0 = d0 ++ l.map (fun p => (f p.1, g p.2)) := by
  induction l generalizing d0 with
  | nil => simp
  | cons p rest ih =>
    simp only [List.foldl_cons, hstep]
    simp only [List.map_cons, List.nodup_cons] at hnd
    rw [upsert_fresh _ _ _ (hfresh p (by simp))]
    rw [ih _ hnd.2]
    · simp
    · intro p' hp'
      rw [keys_append]
      simp only [List.mem_append, not_or]
      refine ⟨hfresh p' (by simp [hp']), ?_⟩
      simp only [keys, List.map_cons, List.map_nil, List.mem_singleton]
      intro e
      exact hnd.1 (List.mem_map.mpr ⟨p', hp', e⟩)

theorem get?_append_left (a b : Dict κ α) (k : κ) (h : k ∈ keys a) : get? (a ++ b) k = get? a k := by
  unfold get?
  rw [List.find?_append]
  obtain ⟨v, hv⟩ := Option.isSome_iff_exists.mp ((get?_isSome_iff a k).mpr h)
  unfold get? at hv
  cases hf : List.find? (fun x => decide (x.1 = k)) a with
  | none => simp [hf] at hv
  | some p => simp

theorem get?_append_right (a b : Dict κ α) (k : κ) (h : k ∉ keys a) : get? (a ++ b) k = get? b k := by
  unfold get?
  rw [List.find?_append]
  have : List.find? (fun x => decide (x.1 = k)) a = none := by
    rw [List.find?_eq_none]
    intro p hp
    simp only [decide_eq_true_eq]
    intro e
    exact h (List.mem_map.mpr ⟨p, hp, e⟩)
  simp [this]

theorem get?_map_key_val (d : Dict κ β) (f : κ → κ) (hf : Function.Injective f) (g : β → α) (k : κ) :
    get? (d.map (fun p => (f p.1, g p.2))) (f k) = (get? d k).map g := by
  induction d with
  | nil => rfl
  | cons p rest ih =>
    obtain ⟨k', v'⟩ := p
    unfold get? at *
    simp only [List.map_cons, List.find?_cons]
    by_cases e : k' = k
    · subst e; simp
    · have : ¬ f k' = f k := fun h => e (hf h)
      simp only [this, e, decide_false]
      exact ih

end Dict

/-! ### positions of a consistent sequence -/

theorem mem_oneTo (n : ℕ) (k : ℤ) : k ∈ oneTo n ↔ 1 ≤ k ∧ k ≤ n := by
  unfold oneTo
  simp only [List.mem_map, List.mem_range]
  constructor
  · rintro ⟨i, hi, rfl⟩; omega
  · rintro ⟨h1, h2⟩
    exact ⟨(k - 1).toNat, by omega, by omega⟩

theorem oneTo_nodup (n : ℕ) : (oneTo n).Nodup := by
  unfold oneTo
  apply List.Nodup.map _ List.nodup_range
  intro a b h
  simpa using h

theorem oneTo_append (n m : ℕ) : oneTo (n + m) = oneTo n ++ (oneTo m).map (· + (n : ℤ)) := by
  unfold oneTo
  rw [List.range_add, List.map_append, List.map_map, List.map_map]
  congr 1
  apply List.map_congr_left
  intro i _
  simp only [Function.comp]
  push_cast
  ring

/-- the positions of a dictionary are exactly `1..N` (in some order) -/
def Positions {α : Type} (d : Dict ℤ α) : Prop := (Dict.keys d).Perm (oneTo d.length)

theorem positions_of_gapFree {α : Type} (d : Dict ℤ α) (h : gapFree (Dict.keys d) = true) : Positions d := by
  unfold Positions
  by_cases hne : Dict.keys d = []
  · have : d = [] := by simpa [Dict.keys] using hne
    subst this; simp [Dict.keys, oneTo]
  · have := (gapFree_iff _ hne).mp h
    simpa [Dict.keys] using this

theorem Positions.wf {α : Type} {d : Dict ℤ α} (h : Positions d) : Dict.WF d :=
  (List.Perm.nodup_iff h).mpr (oneTo_nodup _)

theorem Positions.mem {α : Type} {d : Dict ℤ α} (h : Positions d) (k : ℤ) :
    k ∈ Dict.keys d ↔ 1 ≤ k ∧ k ≤ d.length := by
  rw [h.mem_iff, mem_oneTo]

end BB
