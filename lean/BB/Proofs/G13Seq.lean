/-
  BB.Proofs.G13Seq — helper lemmas for C18 (`Sequence.points`, `Sequence.duration`):
  * summation with `foldlM`, read backwards (a successful sum means every summand succeeded);
  * "every stored position has a sequencing entry" (top level and inside stored subsequences) as an
    invariant of everything the public sequence API builds;
  * `Element.points` / `Element.duration` succeed on every element that validates.
-/
import BB.Proofs.G11Elem
import BB.Proofs.G2Element

namespace BB.G13
open BB BB.Element

/-! ### summation, read backwards -/

/-- a successful `foldlM` sum means every summand succeeded (Int) -/
theorem foldlM_add_int_inv {α : Type} (f : α → Except Err Int) (l : List α) (acc r : Int)
    (g : Int → α → Except Err Int) (hg : ∀ a x, g a x = (f x).map (fun v => a + v))
    (h : l.foldlM g acc = .ok r) : ∃ vals, l.mapM f = .ok vals := by
  induction l generalizing acc with
  | nil => exact ⟨[], rfl⟩
  | cons x xs ih =>
    simp only [List.foldlM_cons, bind, Except.bind, hg] at h
    cases hx : f x with
    | error e => rw [hx] at h; simp [Except.map] at h
    | ok v =>
      rw [hx] at h
      simp only [Except.map] at h
      obtain ⟨vs, hvs⟩ := ih _ h
      exact ⟨v :: vs, by rw [mapM_cons_eq, hx, hvs]⟩

/-- a successful `foldlM` sum means every summand succeeded (Rat) -/
theorem foldlM_add_rat_inv {α : Type} (f : α → Except Err Rat) (l : List α) (acc r : Rat)
    (g : Rat → α → Except Err Rat) (hg : ∀ a x, g a x = (f x).map (fun v => a + v))
    (h : l.foldlM g acc = .ok r) : ∃ vals, l.mapM f = .ok vals := by
  induction l generalizing acc with
  | nil => exact ⟨[], rfl⟩
  | cons x xs ih =>
    simp only [List.foldlM_cons, bind, Except.bind, hg] at h
    cases hx : f x with
    | error e => rw [hx] at h; simp [Except.map] at h
    | ok v =>
      rw [hx] at h
      simp only [Except.map] at h
      obtain ⟨vs, hvs⟩ := ih _ h
      exact ⟨v :: vs, by rw [mapM_cons_eq, hx, hvs]⟩

/-! ### validated elements have points and a duration -/

/-- an element that validates has points and a duration -/
theorem validated_points_duration (e : Element) (m : Val × ℚ) (h : e.validate = .ok m) :
    (∃ p, e.points = .ok p) ∧ e.duration = .ok m.2 := by
  obtain ⟨v, d⟩ := m
  obtain ⟨p, _, hp, _⟩ := G2.validate_ok_channels e v d h
  exact ⟨⟨p, hp⟩, by simp [Element.duration, h, Except.map]⟩

/-- `Element.points` and `Element.duration` succeed only on elements that validate -/
theorem points_ok_validated (e : Element) (p : ℤ) (h : e.points = .ok p) : ∃ m, e.validate = .ok m := by
  unfold Element.points at h
  cases hv : e.validate with
  | error er => rw [hv] at h; simp [bind, Except.bind] at h
  | ok m => exact ⟨m, rfl⟩

theorem duration_ok_validated (e : Element) (d : ℚ) (h : e.duration = .ok d) : ∃ m, e.validate = .ok m := by
  unfold Element.duration at h
  cases hv : e.validate with
  | error er => rw [hv] at h; simp [Except.map] at h
  | ok m => exact ⟨m, rfl⟩

/-! ### every stored position has a sequencing entry -/

/-- every stored position — at the top level and inside every stored subsequence — has an entry
    in the sequencing table next to it -/
def Sequenced (s : Sequence) : Prop :=
  ∀ x ∈ s.data, (Dict.get? s.sequencing x.1).isSome = true ∧
    ∀ sub : SubSeq, x.2 = .sub sub → ∀ y ∈ sub.data, (Dict.get? sub.sequencing y.1).isSome = true

theorem isSome_upsert_mono {κ α : Type} [DecidableEq κ] (d : Dict κ α) (k k2 : κ) (v : α)
    (h : (Dict.get? d k2).isSome = true) : (Dict.get? (Dict.upsert d k v) k2).isSome = true := by
  by_cases hk : k2 = k
  · subst hk; rw [Dict.get?_upsert_self]; rfl
  · rw [Dict.get?_upsert_other _ _ _ _ hk]; exact h

theorem isSome_foldl_upsert_mono {κ α β : Type} [DecidableEq κ] (l : List β) (kf : β → κ) (vf : β → α)
    (d0 : Dict κ α) (k2 : κ) (h : (Dict.get? d0 k2).isSome = true) :
    (Dict.get? (l.foldl (fun d x => Dict.upsert d (kf x) (vf x)) d0) k2).isSome = true := by
  induction l generalizing d0 with
  | nil => exact h
  | cons x xs ih =>
    simp only [List.foldl_cons]
    exact ih _ (isSome_upsert_mono d0 (kf x) k2 (vf x) h)

theorem isSome_foldl_upsert_mem {κ α β : Type} [DecidableEq κ] (l : List β) (kf : β → κ) (vf : β → α)
    (d0 : Dict κ α) (x : β) (hx : x ∈ l) :
    (Dict.get? (l.foldl (fun d x => Dict.upsert d (kf x) (vf x)) d0) (kf x)).isSome = true := by
  induction l generalizing d0 with
  | nil => cases hx
  | cons y ys ih =>
    simp only [List.foldl_cons]
    rcases List.mem_cons.mp hx with rfl | hx
    · apply isSome_foldl_upsert_mono
      rw [Dict.get?_upsert_self]; rfl
    · exact ih _ hx

/-- what `+` stores: an entry of the left operand under its own position, or an entry of the right
    operand under its position plus `N` -/
theorem foldl_upsert_mem_keyed (N : Int) (l : Dict Int Entry) (d0 : Dict Int Entry) (x : Int × Entry)
    (h : x ∈ l.foldl (fun d (p : Int × Entry) => Dict.upsert d (p.1 + N) (Sequence.copyEntry p.2)) d0) :
    x ∈ d0 ∨ ∃ y ∈ l, x = (y.1 + N, Sequence.copyEntry y.2) := by
  induction l generalizing d0 with
  | nil => exact Or.inl h
  | cons y ys ih =>
    simp only [List.foldl_cons] at h
    rcases ih _ h with h | ⟨z, hz, hx⟩
    · rcases g4_mem_upsert_cases _ _ _ _ h with h | h
      · exact Or.inr ⟨y, by simp, h⟩
      · exact Or.inl h
    · exact Or.inr ⟨z, by simp [hz], hx⟩

theorem sequenced_copyEntry_inner (en : Entry)
    (h : ∀ sub : SubSeq, en = .sub sub → ∀ y ∈ sub.data, (Dict.get? sub.sequencing y.1).isSome = true) :
    ∀ sub : SubSeq, Sequence.copyEntry en = .sub sub → ∀ y ∈ sub.data, (Dict.get? sub.sequencing y.1).isSome = true := by
  cases en with
  | el e0 => intro sub hs; simp [Sequence.copyEntry] at hs
  | sub s0 =>
    intro sub hs
    simp only [Sequence.copyEntry, Entry.sub.injEq] at hs
    subst hs
    exact h s0 rfl

/-- **every position of a sequence the public API builds has a sequencing entry** - at the top
    level (`addElement` / `addSubSequence` write both tables, the setters only overwrite, `+` re-keys
    both tables alike) and inside every stored subsequence (whose positions were filled by
    `addElement` on the argument) -/
theorem apiBuilt_sequenced {s : Sequence} (h : Sequence.ApiBuilt s) : Sequenced s := by
  induction h with
  | empty => intro x hx; cases hx
  | addElement s pos e _ _ ih =>
    unfold Sequence.addElement
    split
    · exact ih
    · intro x hx
      simp only at hx ⊢
      rcases g4_mem_upsert_cases _ _ _ _ hx with h | h
      · rw [h]
        refine ⟨by rw [Dict.get?_upsert_self]; rfl, fun sub hs => by cases hs⟩
      · exact ⟨isSome_upsert_mono _ _ _ _ (ih x h).1, (ih x h).2⟩
  | addSubSequence s pos sub _ _ ih ihsub =>
    unfold Sequence.addSubSequence
    split
    · exact ih
    · rename_i d hd
      split
      · exact ih
      · intro x hx
        simp only at hx ⊢
        rcases g4_mem_upsert_cases _ _ _ _ hx with h | h
        · rw [h]
          refine ⟨by rw [Dict.get?_upsert_self]; rfl, fun sub' hs y hy => ?_⟩
          simp only [Entry.sub.injEq] at hs
          subst hs
          simp only [Sequence.storedSub] at hy ⊢
          exact (ihsub _ (G11.elementsOnly_mem sub.data d hd y hy)).1
        · exact ⟨isSome_upsert_mono _ _ _ _ (ih x h).1, (ih x h).2⟩
  | setSpec s k v _ ih => exact ih
  | setFilter s ch kind order isInt fc tau _ ih =>
    unfold SeqCore.setChannelFilterCompensation
    split
    · exact ih
    · split
      · exact ih
      · split <;> exact ih
  | setSequencing s pos f _ ih =>
    unfold SeqCore.setSequencing
    split
    · exact ih
    · intro x hx
      simp only at hx ⊢
      exact ⟨isSome_upsert_mono _ _ _ _ (ih x hx).1, (ih x hx).2⟩
  | copy s _ ih => exact ih
  | add a b c _ _ hadd iha ihb =>
    unfold Sequence.add at hadd
    split at hadd
    · cases hadd
    · cases hadd
    · split at hadd
      · cases hadd
      · cases hadd
      · split at hadd
        · simp only [Except.ok.injEq] at hadd
          subst hadd
          intro x hx
          unfold Sequence.addCore at hx ⊢
          simp only at hx ⊢
          have hx' : x ∈ b.data.foldl (fun d (p : Int × Entry) => Dict.upsert d (p.1 + (a.data.length : Int)) (Sequence.copyEntry p.2))
              (a.data.map (fun (p : Int × Entry) => (p.1, Sequence.copyEntry p.2))) := hx
          have hgoal : ∀ k : Int, ((Dict.get? a.sequencing k).isSome = true ∨
              ∃ q, (k - (a.data.length : Int), q) ∈ b.sequencing) →
              (Dict.get? (b.sequencing.foldl (fun d (p : Int × SeqSet) =>
                Dict.upsert d (p.1 + (a.data.length : Int)) (Sequence.retargetSeq (a.data.length : Int) p.2)) a.sequencing) k).isSome = true := by
            intro k hk
            rcases hk with hk | ⟨q, hq⟩
            · exact isSome_foldl_upsert_mono b.sequencing (fun p => p.1 + (a.data.length : Int))
                (fun p => Sequence.retargetSeq (a.data.length : Int) p.2) a.sequencing k hk
            · have := isSome_foldl_upsert_mem b.sequencing (fun p => p.1 + (a.data.length : Int))
                (fun p => Sequence.retargetSeq (a.data.length : Int) p.2) a.sequencing _ hq
              simp only [sub_add_cancel] at this
              exact this
          rcases foldl_upsert_mem_keyed _ _ _ _ hx' with h | ⟨y, hy, hxy⟩
          · obtain ⟨z, hz, rfl⟩ := List.mem_map.mp h
            exact ⟨hgoal _ (Or.inl (iha z hz).1), sequenced_copyEntry_inner z.2 (iha z hz).2⟩
          · rw [hxy]
            refine ⟨hgoal _ (Or.inr ?_), sequenced_copyEntry_inner y.2 (ihb y hy).2⟩
            have h1 := (ihb y hy).1
            cases hq : Dict.get? b.sequencing y.1 with
            | none => rw [hq] at h1; cases h1
            | some q =>
              refine ⟨q, ?_⟩
              simp only [add_sub_cancel_right]
              exact Dict.mem_of_get?_eq_some _ _ hq
        · cases hadd

end BB.G13
