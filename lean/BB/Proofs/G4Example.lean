/-
  BB.Proofs.G4Example — concrete sequences used as non-vacuity witnesses by the property files
  C10, C11 and C18: an element with a blueprint channel (with flags) and a raw-array channel, a
  two-position subsequence of it, a sequence holding the element and the subsequence, and a flat
  two-position sequence with the amplitudes the AWG output paths ask for.  Channel 1 is delayed
  by two samples, channel "A" has a declared high-pass compensation.
-/
import BB.Model.Sequence

namespace BB.G4Ex
open BB

def exBP : BP :=
  { segs := [ { name := "ramp", fn := Fn.rampFn, args := [.num 0, .num 1], dur := .num 1 } ], SR := .num 10 }

def exEl : Element :=
  { chans := [(.int 1, { data := .bp exBP, flags := some [1, 0, 0, 1] }),
              (.str "A", { data := .arr [("wfm", List.replicate 10 0)] (.num 10) })] }

/-- the same channels listed in the other order -/
def exElSwapped : Element :=
  { chans := [(.str "A", { data := .arr [("wfm", List.replicate 10 0)] (.num 10) }),
              (.int 1, { data := .bp exBP, flags := some [1, 0, 0, 1] })] }

def exSub : SubSeq :=
  { data := [(1, exEl), (2, exEl)], sequencing := [(1, ⟨0, 2, 0, 0, 0⟩), (2, ⟨0, 4, 0, 0, 1⟩)],
    awgspecs := [("SR", .val (.num 10))] }

def exSpecs : Dict String Spec :=
  [("SR", .val (.num 10)), ("channel1_delay", .val (.num (1/5))),
   ("channelA_filtercompensation", .filt ⟨"HP", 1, .num 1, .none⟩),
   ("channel1_amplitude", .val (.num 2)), ("channelA_amplitude", .val (.num 2))]

/-- an element at position 1, a subsequence at position 2 -/
def exSeq : Sequence :=
  { data := [(1, .el exEl), (2, .sub exSub)],
    sequencing := [(1, ⟨0, 1, 0, 0, 0⟩), (2, ⟨0, 3, 0, 0, 1⟩)],
    awgspecs := exSpecs }

/-- two element positions (the second lists its channels in the other order) -/
def exFlat : Sequence :=
  { data := [(1, .el exEl), (2, .el exElSwapped)],
    sequencing := [(1, ⟨0, 1, 0, 0, 0⟩), (2, ⟨0, 3, 0, 0, 1⟩)],
    awgspecs := exSpecs }

/-- the same without any delay setting -/
def exFlatNoDelay : Sequence :=
  { exFlat with awgspecs := [("SR", .val (.num 10)), ("channelA_filtercompensation", .filt ⟨"HP", 1, .num 1, .none⟩)] }

end BB.G4Ex
