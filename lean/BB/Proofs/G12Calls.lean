/-
  BB.Proofs.G12Calls — the forged waveform as a list of pulse-function calls: one
  `(callable, stored arguments, SR, sample count)` per segment, in segment order.
-/
import BB.Proofs.Forge

namespace BB.G12
open BB

/-- the pulse-function calls a forged channel stands for: one `(callable, arguments, SR, npts)` per
    symbolic block, in block order (a raw block is not a call) -/
def callsOf (f : Forged) : List (Fn × List Val × ℚ × ℕ) :=
  f.blocks.filterMap (fun blk => match blk with
    | .call fn args sr n => some (fn, args, sr, n)
    | .raw _ => none)

/-- the block list the forger builds, as a `zip` -/
theorem mkBlocks_eq_zip (sr : ℚ) (segs : List Seg) (ns : List ℕ) :
    mkBlocks sr segs ns = (segs.zip ns).map (fun p => Blk.call (forgeFn p.1.fn) p.1.args sr p.2) := by
  induction segs generalizing ns with
  | nil => cases ns <;> simp [mkBlocks]
  | cons s ss ih =>
    cases ns with
    | nil => simp [mkBlocks]
    | cons n ns => simp [mkBlocks, ih]

/-- reading the calls off a list of call blocks -/
theorem filterMap_calls {α : Type} (l : List α) (g : α → Fn × List Val × ℚ × ℕ) :
    (l.map (fun p => Blk.call (g p).1 (g p).2.1 (g p).2.2.1 (g p).2.2.2)).filterMap (fun blk => match blk with
      | .call fn args sr n => some (fn, args, sr, n)
      | .raw _ => none) = l.map g := by
  induction l with
  | nil => rfl
  | cons a t ih => simp [ih]

/-- a segment that is not a 'waituntil' keeps its stored duration when the waits are resolved -/
theorem resolveGo_plain_getElem (segs : List Seg) (el : ℚ) (ds : List ℚ) (h : BP.resolveGo segs el = .ok ds)
    (i : ℕ) (hi : i < segs.length) (hd : i < ds.length) (hw : (segs[i]).fn.isWait = false) :
    (segs[i]).dur = .num ds[i] := by
  induction segs generalizing el ds i with
  | nil => simp at hi
  | cons s rest ih =>
    unfold BP.resolveGo at h
    by_cases hsw : s.fn.isWait = true
    · rw [if_pos hsw] at h
      split at h
      · rename_i t _ _
        by_cases hneg : t - el < 0
        · simp [hneg] at h
        · simp only [hneg, if_false] at h
          obtain ⟨ms, hr, rfl⟩ := consOk_ok _ _ _ h
          cases i with
          | zero => simp only [List.getElem_cons_zero] at hw; rw [hsw] at hw; cases hw
          | succ k =>
            simp only [List.getElem_cons_succ] at hw ⊢
            exact ih _ _ hr k (by simpa using hi) (by simpa using hd) hw
      · simp at h
    · rw [if_neg hsw] at h
      split at h
      · rename_i d hdur
        obtain ⟨ms, hr, rfl⟩ := consOk_ok _ _ _ h
        cases i with
        | zero => simpa using hdur
        | succ k =>
          simp only [List.getElem_cons_succ] at hw ⊢
          exact ih _ _ hr k (by simpa using hi) (by simpa using hd) hw
      · simp at h

/-- what the forger runs is always a callable when forging succeeds -/
theorem forgeFn_not_special (b : BP) (hb : badSpecial b = false) (s : Seg) (hs : s ∈ b.segs) :
    (forgeFn s.fn).special = false := by
  unfold forgeFn
  by_cases hw : s.fn.isWait = true
  · rw [if_pos hw]; rfl
  · rw [if_neg hw]
    unfold badSpecial at hb
    have := (List.any_eq_false.mp hb) s hs
    have hw' : s.fn.isWait = false := by simpa using hw
    simpa [hw'] using this

end BB.G12
