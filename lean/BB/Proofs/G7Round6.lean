/-
  BB.Proofs.G7Round6 — `numpy.round(x, 6)` in exact arithmetic and the axis validation of
  `applyCustomTransferFunction` (`np.diff(tf_freqs).round(6) > 0` everywhere).
-/
import BB.Proofs.Round
import Mathlib.Tactic.FieldSimp
import Mathlib.Data.List.Pairwise

namespace BB.G7

/-- `numpy.round(x, 6)`: `rint(x · 10⁶) / 10⁶` with round-half-to-even -/
def round6 (q : ℚ) : ℚ := (BB.rhe (q * 1000000) : ℚ) / 1000000

theorem rhe_half : BB.rhe (1 / 2) = 0 := by decide +kernel

/-- round-half-even gives a positive integer exactly above one half (the tie 1/2 goes to 0) -/
theorem rhe_pos_iff (x : ℚ) : 0 < BB.rhe x ↔ 1 / 2 < x := by
  constructor
  · intro h
    by_contra hle
    have := BB.rhe_mono (not_lt.mp hle)
    rw [rhe_half] at this
    omega
  · intro h
    have e := BB.rhe_err x
    rw [abs_le] at e
    have : (0 : ℚ) < BB.rhe x := by linarith [e.2]
    exact_mod_cast this

/-- a difference survives the rounding to six decimals exactly when it exceeds half a unit of the
    sixth decimal -/
theorem round6_pos_iff (d : ℚ) : 0 < round6 d ↔ 1 / 2000000 < d := by
  unfold round6
  rw [div_pos_iff_of_pos_right (by norm_num : (0 : ℚ) < 1000000)]
  have : (0 : ℚ) < BB.rhe (d * 1000000) ↔ 0 < BB.rhe (d * 1000000) := by exact_mod_cast Iff.rfl
  rw [this, rhe_pos_iff]
  constructor <;> intro h <;> linarith

/-- a non-positive difference never survives -/
theorem round6_nonpos (d : ℚ) (h : d ≤ 0) : round6 d ≤ 0 := by
  by_contra hc
  have := (round6_pos_iff d).mp (not_le.mp hc)
  linarith

/-- consecutive strict increase implies pairwise strict increase -/
theorem pairwise_of_consecutive (l : List ℚ) (h : ∀ p ∈ l.zip l.tail, p.1 < p.2) : l.Pairwise (· < ·) := by
  induction l with
  | nil => simp
  | cons a l ih =>
    cases l with
    | nil => simp
    | cons b r =>
      have hab : a < b := h (a, b) (by simp)
      have hbr : (b :: r).Pairwise (· < ·) := ih (fun p hp => h p (by
        simp only [List.tail_cons, List.zip_cons_cons] at hp ⊢
        exact List.mem_cons_of_mem _ hp))
      refine List.pairwise_cons.mpr ⟨fun c hc => ?_, hbr⟩
      rcases List.mem_cons.mp hc with e | e
      · rw [e]; exact hab
      · exact lt_trans hab ((List.pairwise_cons.mp hbr).1 c e)

end BB.G7
