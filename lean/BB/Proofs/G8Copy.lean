/-
  BB.Proofs.G8Copy — `shallowCopy` and `deepCopy` never fault on well-formed graphs, allocate
  only, and the copy unfolds to the same tree as the source.
-/
import BB.Proofs.G8Typed

namespace BB.Heap

/-! ### heaps that agree on the cells of the smaller one -/

def Sub (h h' : Heap) : Prop := ∀ (a : Addr) (c : Cell), h[a]? = some c → h'[a]? = some c

theorem Sub.refl (h : Heap) : Sub h h := fun _ _ hc => hc
theorem Sub.trans {h1 h2 h3 : Heap} (a : Sub h1 h2) (b : Sub h2 h3) : Sub h1 h3 := fun x c hc => b x c (a x c hc)
theorem Evo.sub {r : Owner} {h h' : Heap} (e : Evo r pNone h h') : Sub h h' := fun a c hc => e.only a c hc rfl
theorem sub_append (h : Heap) (ext : List Cell) : Sub h (h ++ ext) :=
  fun a c hc => by rw [List.getElem?_append_left (lt_of_get hc)]; exact hc

theorem Fits.sub {h h' : Heap} (s : Sub h h') : ∀ {n : Nat} {a : Addr}, Fits n h a → Fits n h' a := by
  intro n
  induction n with
  | zero => intro a hf; cases hf
  | succ n ih =>
    intro a hf
    obtain ⟨c, hc, hk⟩ := hf
    exact ⟨c, s a c hc, fun ks hks b hb => ih (hk ks hks b hb)⟩

theorem Sub.pureExt {h h' : Heap} (s : Sub h h') (base : Nat) : PureExt base h h' :=
  fun a c hc _ => ⟨c, s a c hc, rfl, rfl, fun _ => rfl⟩

/-- cells that existed unfold to the same tree in an extension that rewrote nothing -/
theorem unfold_sub {h h' : Heap} (s : Sub h h') (hcl : Closed h) (n : Nat) (a : Addr) (c : Cell)
    (hc : h[a]? = some c) : unfold n h' a = unfold n h a :=
  (pure_frame h h' (s.pureExt _) hcl n a c hc).symm

/-! ### the copy relation -/

def SlotRel (R : Addr → Addr → Prop) : Slot → Slot → Prop
  | .imm t, s' => s' = .imm t
  | .ref b, s' => ∃ b' : Addr, s' = .ref b' ∧ R b b'

def SlotsRel (R : Addr → Addr → Prop) : List (String × Slot) → List (String × Slot) → Prop
  | [], [] => True
  | ks :: l, ks' :: l' => ks'.1 = ks.1 ∧ SlotRel R ks.2 ks'.2 ∧ SlotsRel R l l'
  | _, _ => False

/-- the graph hanging from `a'` is a copy, cell by cell, of the one hanging from `a` -/
def CopyRel (h : Heap) : Nat → Addr → Addr → Prop
  | 0, _, _ => False
  | n + 1, a, a' => ∃ c c' : Cell, h[a]? = some c ∧ h[a']? = some c' ∧ c'.kind = c.kind ∧
      SlotsRel (CopyRel h n) c.slots c'.slots

theorem SlotRel.mono {R R' : Addr → Addr → Prop} (hr : ∀ b b', R b b' → R' b b') {s s' : Slot}
    (h : SlotRel R s s') : SlotRel R' s s' := by
  cases s with
  | imm t => exact h
  | ref b => obtain ⟨b', h1, h2⟩ := h; exact ⟨b', h1, hr b b' h2⟩

theorem SlotsRel.mono {R R' : Addr → Addr → Prop} (hr : ∀ b b', R b b' → R' b b') :
    ∀ {l l' : List (String × Slot)}, SlotsRel R l l' → SlotsRel R' l l' := by
  intro l
  induction l with
  | nil => intro l' h; cases l' <;> simp_all [SlotsRel]
  | cons ks l ih =>
    intro l' h
    cases l' with
    | nil => simp [SlotsRel] at h
    | cons ks' l' =>
      simp only [SlotsRel] at h ⊢
      exact ⟨h.1, h.2.1.mono hr, ih h.2.2⟩

theorem SlotsRel.snoc {R : Addr → Addr → Prop} : ∀ {l l' : List (String × Slot)} {ks ks' : String × Slot},
    SlotsRel R l l' → ks'.1 = ks.1 → SlotRel R ks.2 ks'.2 → SlotsRel R (l ++ [ks]) (l' ++ [ks']) := by
  intro l
  induction l with
  | nil =>
    intro l' ks ks' h h1 h2
    cases l' with
    | nil => simp only [List.nil_append, SlotsRel]; exact ⟨h1, h2, trivial⟩
    | cons _ _ => simp [SlotsRel] at h
  | cons x l ih =>
    intro l' ks ks' h h1 h2
    cases l' with
    | nil => simp [SlotsRel] at h
    | cons x' l' =>
      simp only [SlotsRel, List.cons_append] at h ⊢
      exact ⟨h.1, h.2.1, ih h.2.2 h1 h2⟩

theorem SlotsRel.append {R : Addr → Addr → Prop} : ∀ {l1 l1' l2 l2' : List (String × Slot)},
    SlotsRel R l1 l1' → SlotsRel R l2 l2' → SlotsRel R (l1 ++ l2) (l1' ++ l2') := by
  intro l1
  induction l1 with
  | nil =>
    intro l1' l2 l2' h h2
    cases l1' with
    | nil => exact h2
    | cons _ _ => simp [SlotsRel] at h
  | cons x l ih =>
    intro l1' l2 l2' h h2
    cases l1' with
    | nil => simp [SlotsRel] at h
    | cons x' l' =>
      simp only [SlotsRel, List.cons_append] at h ⊢
      exact ⟨h.1, h.2.1, ih h.2.2 h2⟩

theorem SlotsRel.keys {R : Addr → Addr → Prop} : ∀ {l l' : List (String × Slot)}, SlotsRel R l l' →
    l'.map (·.1) = l.map (·.1) := by
  intro l
  induction l with
  | nil => intro l' h; cases l' <;> simp_all [SlotsRel]
  | cons ks l ih =>
    intro l' h
    cases l' with
    | nil => simp [SlotsRel] at h
    | cons ks' l' =>
      simp only [SlotsRel] at h
      simp only [List.map_cons, h.1, ih h.2.2]

/-- every slot of the copy comes from a slot of the source -/
theorem SlotsRel.mem_right {R : Addr → Addr → Prop} : ∀ {l l' : List (String × Slot)}, SlotsRel R l l' →
    ∀ ks' ∈ l', ∃ ks ∈ l, ks'.1 = ks.1 ∧ SlotRel R ks.2 ks'.2 := by
  intro l
  induction l with
  | nil => intro l' h; cases l' <;> simp_all [SlotsRel]
  | cons ks l ih =>
    intro l' h
    cases l' with
    | nil => simp [SlotsRel] at h
    | cons x' l' =>
      simp only [SlotsRel] at h
      intro ks' hm
      simp only [List.mem_cons] at hm
      rcases hm with hm | hm
      · subst hm; exact ⟨ks, List.mem_cons_self, h.1, h.2.1⟩
      · obtain ⟨y, hy, h3⟩ := ih h.2.2 ks' hm
        exact ⟨y, List.mem_cons_of_mem _ hy, h3⟩

theorem SlotsRel.mem_left {R : Addr → Addr → Prop} : ∀ {l l' : List (String × Slot)}, SlotsRel R l l' →
    ∀ ks ∈ l, ∃ ks' ∈ l', ks'.1 = ks.1 ∧ SlotRel R ks.2 ks'.2 := by
  intro l
  induction l with
  | nil => intro l' _ ks hm; simp at hm
  | cons x l ih =>
    intro l' h
    cases l' with
    | nil => simp [SlotsRel] at h
    | cons x' l' =>
      simp only [SlotsRel] at h
      intro ks hm
      simp only [List.mem_cons] at hm
      rcases hm with hm | hm
      · subst hm; exact ⟨x', List.mem_cons_self, h.1, h.2.1⟩
      · obtain ⟨y, hy, h3⟩ := ih h.2.2 ks hm
        exact ⟨y, List.mem_cons_of_mem _ hy, h3⟩

/-- the copy's first slot under a key is the copy of the source's first slot under that key -/
theorem SlotsRel.lookup {R : Addr → Addr → Prop} : ∀ {l l' : List (String × Slot)}, SlotsRel R l l' →
    ∀ (k : String) (s : Slot), lookupSlot l k = some s → ∃ s', lookupSlot l' k = some s' ∧ SlotRel R s s' := by
  intro l
  induction l with
  | nil => intro l' _ k s hs; simp [lookupSlot, List.lookup] at hs
  | cons x l ih =>
    intro l' h k s hs
    cases l' with
    | nil => simp [SlotsRel] at h
    | cons x' l' =>
      obtain ⟨k1, v1⟩ := x
      obtain ⟨k1', v1'⟩ := x'
      simp only [SlotsRel] at h
      obtain ⟨hk, hv, hrest⟩ := h
      subst hk
      unfold lookupSlot at hs ⊢
      simp only [List.lookup] at hs ⊢
      split at hs
      · cases hs; exact ⟨v1', rfl, hv⟩
      · exact ih hrest k s hs

theorem CopyRel.sub {h h' : Heap} (s : Sub h h') : ∀ {n : Nat} {a a' : Addr}, CopyRel h n a a' → CopyRel h' n a a' := by
  intro n
  induction n with
  | zero => intro a a' hc; cases hc
  | succ n ih =>
    intro a a' hc
    obtain ⟨c, c', h1, h2, h3, h4⟩ := hc
    exact ⟨c, c', s a c h1, s a' c' h2, h3, h4.mono (fun b b' hb => ih hb)⟩

theorem CopyRel.mono {h : Heap} : ∀ {n m : Nat} {a a' : Addr}, CopyRel h n a a' → n ≤ m → CopyRel h m a a' := by
  intro n
  induction n with
  | zero => intro m a a' hc; cases hc
  | succ n ih =>
    intro m a a' hc hle
    cases m with
    | zero => omega
    | succ m =>
      obtain ⟨c, c', h1, h2, h3, h4⟩ := hc
      exact ⟨c, c', h1, h2, h3, h4.mono (fun b b' hb => ih hb (by omega))⟩

theorem CopyRel.kind {h : Heap} {n : Nat} {a a' : Addr} (hc : CopyRel h n a a') :
    ∃ c c' : Cell, h[a]? = some c ∧ h[a']? = some c' ∧ c'.kind = c.kind := by
  cases n with
  | zero => cases hc
  | succ n => obtain ⟨c, c', h1, h2, h3, _⟩ := hc; exact ⟨c, c', h1, h2, h3⟩

theorem unfold_slots_copy {h : Heap} {R : Addr → Addr → Prop} {m : Nat}
    (hr : ∀ b b', R b b' → unfold m h b' = unfold m h b) :
    ∀ {l l' : List (String × Slot)}, SlotsRel R l l' →
      l'.map (fun ks => (ks.1, match ks.2 with | .imm t => Tree.leaf t | .ref b => unfold m h b)) =
      l.map (fun ks => (ks.1, match ks.2 with | .imm t => Tree.leaf t | .ref b => unfold m h b)) := by
  intro l
  induction l with
  | nil => intro l' hs; cases l' <;> simp_all [SlotsRel]
  | cons ks l ih =>
    intro l' hs
    cases l' with
    | nil => simp [SlotsRel] at hs
    | cons ks' l' =>
      simp only [SlotsRel] at hs
      obtain ⟨h1, h2, h3⟩ := hs
      simp only [List.map_cons, ih h3, h1]
      congr 2
      cases hk : ks.2 with
      | imm t => rw [hk] at h2; simp only [SlotRel] at h2; rw [h2]
      | ref b =>
        rw [hk] at h2
        obtain ⟨b', hb', hR⟩ := h2
        rw [hb']
        exact hr b b' hR

/-- **a copy unfolds to the same tree as its source**, to every depth -/
theorem CopyRel.unfold_eq {h : Heap} : ∀ (m n : Nat) (a a' : Addr), CopyRel h n a a' → unfold m h a' = unfold m h a := by
  intro m
  induction m with
  | zero => intro n a a' _; rfl
  | succ m ih =>
    intro n a a' hc
    cases n with
    | zero => cases hc
    | succ n =>
      obtain ⟨c, c', h1, h2, h3, h4⟩ := hc
      simp only [unfold, h1, h2, h3]
      split
      · rfl
      · congr 1
        exact unfold_slots_copy (fun b b' hb => ih n b b' hb) h4

/-- a copy is as high as its source -/
theorem CopyRel.fits {h : Heap} : ∀ (n : Nat) (a a' : Addr), CopyRel h n a a' → Fits n h a' := by
  intro n
  induction n with
  | zero => intro a a' hc; cases hc
  | succ n ih =>
    intro a a' hc
    obtain ⟨c, c', h1, h2, h3, h4⟩ := hc
    refine ⟨c', h2, ?_⟩
    intro ks' hks' b' hb'
    obtain ⟨ks, _, _, hrel⟩ := h4.mem_right ks' hks'
    rw [hb'] at hrel
    cases hk : ks.2 with
    | imm t => rw [hk] at hrel; simp [SlotRel] at hrel
    | ref b =>
      rw [hk] at hrel
      obtain ⟨b2, hb2, hR⟩ := hrel
      cases hb2
      exact ih b b' hR

/-! ### typing and ownership of copied slots -/

theorem slotTy_copy {h : Heap} {R : Addr → Addr → Prop}
    (hr : ∀ b b', R b b' → ∃ c c' : Cell, h[b]? = some c ∧ h[b']? = some c' ∧ c'.kind = c.kind)
    {s s' : Slot} (hs : SlotRel R s s') : slotTy h s' = slotTy h s := by
  cases s with
  | imm t => simp only [SlotRel] at hs; rw [hs]
  | ref b =>
    obtain ⟨b', hb', hR⟩ := hs
    obtain ⟨c, c', h1, h2, h3⟩ := hr b b' hR
    rw [hb']
    simp [slotTy, h1, h2, h3]

theorem cellOk_copy {h : Heap} {R : Addr → Addr → Prop}
    (hr : ∀ b b', R b b' → ∃ c c' : Cell, h[b]? = some c ∧ h[b']? = some c' ∧ c'.kind = c.kind)
    {k : Kind} {l l' : List (String × Slot)} (hs : SlotsRel R l l') (hc : cellOk h k l = true) :
    cellOk h k l' = true := by
  unfold cellOk at hc ⊢
  simp only [Bool.and_eq_true, List.all_eq_true] at hc ⊢
  refine ⟨?_, ?_⟩
  · unfold keysOk at hc ⊢
    rw [hs.keys]; exact hc.1
  · intro ks' hks'
    obtain ⟨ks, hks, h1, h2⟩ := hs.mem_right ks' hks'
    have := hc.2 ks hks
    unfold slotOkT at this ⊢
    rw [slotTy_copy hr h2, h1]
    exact this

/-- the slots of a copy may be stored in a cell of the running owner `r`: copies of frozen
    cells are frozen, everything else that was copied belongs to `r` -/
theorem slotsOk_copy {h : Heap} {R : Addr → Addr → Prop} {r o : Owner} {k : Kind} {l l' : List (String × Slot)}
    (hr : ∀ b b', R b b' → ∃ c c' : Cell, h[b]? = some c ∧ h[b']? = some c' ∧ c'.kind = c.kind ∧ c'.owner = r)
    (hs : SlotsRel R l l') (hc : slotsOk h k o l = true) : slotsOk h k r l' = true := by
  unfold slotsOk at hc ⊢
  split
  · rename_i hf
    simp only [hf, if_true, List.all_eq_true] at hc ⊢
    intro ks' hks'
    obtain ⟨ks, hks, _, h2⟩ := hs.mem_right ks' hks'
    have := hc ks hks
    cases hk : ks.2 with
    | imm t => rw [hk] at h2; simp only [SlotRel] at h2; rw [h2]; rfl
    | ref b =>
      rw [hk] at h2 this
      obtain ⟨b', hb', hR⟩ := h2
      obtain ⟨c, c', h1, h2', h3, _⟩ := hr b b' hR
      rw [hb']
      simp only [refOkFrozen, h1, h2', h3] at this ⊢
      exact this
  · rename_i hf
    simp only [hf, Bool.false_eq_true, if_false, List.all_eq_true] at hc ⊢
    intro ks' hks'
    obtain ⟨ks, hks, _, h2⟩ := hs.mem_right ks' hks'
    cases hk : ks.2 with
    | imm t => rw [hk] at h2; simp only [SlotRel] at h2; rw [h2]; rfl
    | ref b =>
      rw [hk] at h2
      obtain ⟨b', hb', hR⟩ := h2
      obtain ⟨c, c', h1, h2', h3, h4⟩ := hr b b' hR
      rw [hb']
      simp [refOk, h2', h4]

/-! ### `deepCopy` -/

/-- the invariant of the loop over the slots of the cell being copied -/
structure DCInv (r : Owner) (h : Heap) (n : Nat) (done acc : List (String × Slot)) (h1 : Heap) : Prop where
  evo : Evo r pNone h h1
  rel : SlotsRel (fun b b' => CopyRel h1 n b b' ∧ h.length ≤ b') done acc

/-- **`deepCopy` of a graph that is at most `n` cells high does not fault**, rewrites nothing,
    and returns a fresh cell from which a cell-by-cell copy of the graph hangs -/
theorem deepCopy_spec {base : Nat} {r : Owner} : ∀ (n : Nat) (h : Heap) (a : Addr), Good h → Fits n h a →
    Runs base r (deepCopy n a) h (fun s h' => ∃ a' : Addr, s = .ref a' ∧ h.length ≤ a' ∧ Evo r pNone h h' ∧
      CopyRel h' n a a') := by
  intro n
  induction n with
  | zero => intro h a _ hf; cases hf
  | succ n ih =>
    intro h a hg hf
    obtain ⟨c, hc, hk⟩ := hf
    unfold deepCopy
    apply runs_bind
    apply runs_cellAt hc
    apply runs_bind
    refine runs_mono (runs_foldlM _ (fun done acc h1 => DCInv r h n done acc h1) c.slots [] [] h
      ⟨Evo.refl hg, trivial⟩ ?_) ?_
    · intro d x rest acc h1 heq hI
      have hx : x ∈ c.slots := by
        have : x ∈ d ++ x :: rest := by simp
        rw [← heq] at this; simpa using this
      split
      · rename_i t ht
        apply runs_pure
        refine ⟨hI.evo, hI.rel.snoc rfl ?_⟩
        rw [ht]; rfl
      · rename_i b hb
        apply runs_bind
        have hfb : Fits n h1 b := (hk x hx b hb).sub hI.evo.sub
        apply runs_mono (ih h1 b hI.evo.good hfb)
        intro s h2 ⟨b', hs, hfresh, hevo, hcopy⟩
        apply runs_pure
        refine ⟨hI.evo.trans hevo, ?_⟩
        refine SlotsRel.snoc (hI.rel.mono (fun y y' hy => ⟨hy.1.sub hevo.sub, hy.2⟩)) rfl ?_
        rw [hb, hs]
        exact ⟨b', rfl, hcopy, Nat.le_trans hI.evo.len hfresh⟩
    · intro slots h1 hI
      simp only [List.nil_append] at hI
      have hc1 : h1[a]? = some c := hI.evo.sub a c hc
      have hkind : ∀ b b', (CopyRel h1 n b b' ∧ h.length ≤ b') →
          ∃ cb cb' : Cell, h1[b]? = some cb ∧ h1[b']? = some cb' ∧ cb'.kind = cb.kind ∧ cb'.owner = r := by
        intro b b' hb
        obtain ⟨cb, cb', h1', h2', h3'⟩ := hb.1.kind
        exact ⟨cb, cb', h1', h2', h3', hI.evo.new b' cb' hb.2 h2'⟩
      have hso : slotsOk h1 c.kind r slots = true :=
        slotsOk_copy hkind hI.rel (hI.evo.good.closed a c hc1)
      have hco : cellOk h1 c.kind slots = true :=
        cellOk_copy (fun b b' hb => let ⟨cb, cb', x1, x2, x3, _⟩ := hkind b b' hb; ⟨cb, cb', x1, x2, x3⟩)
          hI.rel (hI.evo.good.typed a c hc1)
      apply runs_bind
      apply runs_alloc hso
      apply runs_pure
      have hevo2 : Evo r pNone h1 (h1 ++ [⟨c.kind, r, slots⟩]) := evo_alloc hI.evo.good hso hco
      refine ⟨h1.length, rfl, hI.evo.len, hI.evo.trans hevo2, ?_⟩
      refine ⟨c, ⟨c.kind, r, slots⟩, hevo2.sub a c hc1, by simp, rfl, ?_⟩
      exact hI.rel.mono (fun b b' hb => hb.1.sub hevo2.sub)

/-- `deepCopyAddr` (the depth every broadbean object fits in) -/
theorem deepCopyAddr_spec {base : Nat} {r : Owner} (h : Heap) (a : Addr) (hg : Good h) (hf : Fits depth h a) :
    Runs base r (deepCopyAddr a) h (fun a' h' => h.length ≤ a' ∧ Evo r pNone h h' ∧ CopyRel h' depth a a') := by
  unfold deepCopyAddr
  apply runs_bind
  apply runs_mono (deepCopy_spec depth h a hg hf)
  intro s h' ⟨a', hs, h1, h2, h3⟩
  subst hs
  exact runs_pure ⟨h1, h2, h3⟩

/-! ### `shallowCopy` -/

/-- kinds whose cells hold immediate values and references to frozen cells only: a shallow copy
    of such a cell may belong to anybody -/
def Kind.leafy : Kind → Bool
  | .bpList => true | .flags => true | .ndarray => true | .cache => true | .seqSetting => true
  | .filterDict => true | .arrDict => true | .awgspecs => true
  | _ => false

theorem slotsOk_leafy {h : Heap} {k : Kind} {slots : List (String × Slot)} (r : Owner)
    (hc : cellOk h k slots = true) (hl : k.leafy = true) : slotsOk h k r slots = true := by
  have key : ∀ ks ∈ slots, refOkFrozen h ks.2 = true := by
    intro ks hks
    cases hs : ks.2 with
    | imm t => rfl
    | ref b =>
      have hm : (ks.1, Slot.ref b) ∈ slots := by rw [← hs]; exact hks
      obtain ⟨cb, hcb, hal⟩ := cellOk_ref hc hm
      simp only [refOkFrozen, hcb]
      revert hal hl
      cases k <;> cases cb.kind <;> simp [allowed, Kind.leafy, Kind.frozen]
  unfold slotsOk
  split
  · simp only [List.all_eq_true]; exact key
  · simp only [List.all_eq_true]
    intro ks hks
    have := key ks hks
    cases hs : ks.2 with
    | imm t => rfl
    | ref b =>
      rw [hs] at this
      simp only [refOkFrozen, refOk] at this ⊢
      split at this
      · rename_i cb hcb; simp [this]
      · cases this

/-- `shallowCopy` of a live leafy cell does not fault: one new cell with the same slots -/
theorem shallowCopy_spec {base : Nat} {r : Owner} {h : Heap} {a : Addr} {c : Cell} (hg : Good h)
    (hc : h[a]? = some c) (hl : c.kind.leafy = true) {Q : Addr → Heap → Prop}
    (hq : Evo r pNone h (h ++ [⟨c.kind, r, c.slots⟩]) → Q h.length (h ++ [⟨c.kind, r, c.slots⟩])) :
    Runs base r (shallowCopy a) h Q := by
  unfold shallowCopy
  apply runs_bind
  apply runs_cellAt hc
  have hso := slotsOk_leafy r (hg.typed a c hc) hl
  apply runs_alloc hso
  exact hq (evo_alloc hg hso (hg.typed a c hc))

end BB.Heap
