/-
  BB.Proofs.G4Elem — `Element._applyDelays` and `Element.getArrays` channel by channel
  (by index in the element's own channel order).
-/
import BB.Proofs.Paths
import BB.Proofs.G4Seq

namespace BB
open Element

/-! ### `getArrays`, channel by channel -/

theorem g4_getArrays_getElem (e : Element) (t : Bool) (arr : Dict Chan ChOut) (h : e.getArrays t = .ok arr) :
    arr.length = e.chans.length ∧
    ∀ k (hk : k < e.chans.length) (hk' : k < arr.length),
      (arr[k]).1 = (e.chans[k]).1 ∧ chanOut t (e.chans[k]).2 = .ok (arr[k]).2 := by
  unfold Element.getArrays at h
  refine ⟨mapM_ok_length _ _ _ h, fun k hk hk' => ?_⟩
  have := mapM_ok_getElem _ _ _ h k hk hk'
  simp only at this
  cases hc : chanOut t (e.chans[k]).2 with
  | error er => rw [hc] at this; simp [Except.map] at this
  | ok o =>
    rw [hc] at this
    simp only [Except.map, Except.ok.injEq] at this
    rw [← this]
    exact ⟨rfl, rfl⟩

/-- and conversely: if every channel delivers, `getArrays` delivers the list of the results -/
theorem g4_getArrays_intro (e : Element) (t : Bool) (arr : Dict Chan ChOut) (hl : arr.length = e.chans.length)
    (h : ∀ k (hk : k < e.chans.length) (hk' : k < arr.length),
      (arr[k]).1 = (e.chans[k]).1 ∧ chanOut t (e.chans[k]).2 = .ok (arr[k]).2) :
    e.getArrays t = .ok arr := by
  unfold Element.getArrays
  apply g4_mapM_ok_of_getElem _ _ _ hl
  intro k hk hk'
  obtain ⟨h1, h2⟩ := h k hk hk'
  simp only
  rw [h2]
  simp only [Except.map, Except.ok.injEq]
  rw [← h1]

/-! ### `_applyDelays`, channel by channel -/

/-- a successful `_applyDelays`: the element validates with a numeric sample rate `sr`, and channel
    `k` (same id, same place) now holds `dEnt sr max(delays) (old entry) delays[k]` -/
theorem g4_applyDelays_getElem (e : Element) (ds : List Rat) (h : (e.applyDelays ds).err = none) :
    ∃ m sr, e.validate = .ok m ∧ m.1 = .num sr ∧ ds.length = e.chans.length ∧
      (e.applyDelays ds).st.chans.length = e.chans.length ∧
      ∀ k (hk : k < e.chans.length) (hk' : k < (e.applyDelays ds).st.chans.length) (hd : k < ds.length),
        ((e.applyDelays ds).st.chans[k]).1 = (e.chans[k]).1 ∧
        Paths.dEnt sr (maxR ds) (e.chans[k]).2 ds[k] = .ok ((e.applyDelays ds).st.chans[k]).2 := by
  obtain ⟨m, sr, hv, hm, hlen, hmap⟩ := Paths.applyDelays_ok e ds h
  have hl := mapM_ok_length _ _ _ hmap
  have hz : (e.chans.zip ds).length = e.chans.length := by simp [hlen]
  refine ⟨m, sr, hv, hm, hlen, by omega, fun k hk hk' hd => ?_⟩
  have := mapM_ok_getElem _ _ _ hmap k (by omega) hk'
  simp only [List.getElem_zip] at this
  cases hx : Paths.dEnt sr (maxR ds) (e.chans[k]).2 ds[k] with
  | error er => rw [hx] at this; simp [Except.map] at this
  | ok x =>
    rw [hx] at this
    simp only [Except.map, Except.ok.injEq] at this
    rw [← this]
    exact ⟨rfl, rfl⟩

namespace Sequence

/-- `forge`'s delay step on one element: the delays are looked up by the element's own channel ids
    and handed to `_applyDelays`, which succeeds -/
theorem g4_delayElement_ok (s : Sequence) (e e' : Element) (h : s.delayElement e = .ok e') :
    ∃ ds, e.channels.mapM s.delayOf = .ok ds ∧ (e.applyDelays ds).err = none ∧ (e.applyDelays ds).st = e' := by
  unfold delayElement at h
  simp only [bind, Except.bind, delaysFor] at h
  cases hds : e.channels.mapM s.delayOf with
  | error er => rw [hds] at h; cases h
  | ok ds =>
    rw [hds] at h
    simp only at h
    cases herr : (e.applyDelays ds).err with
    | some er => rw [herr] at h; simp [throw, throwThe, MonadExceptOf.throw] at h
    | none =>
      rw [herr] at h
      simp only [pure, Except.pure, Except.ok.injEq] at h
      exact ⟨ds, rfl, herr, h⟩

theorem g4_delayElement_intro (s : Sequence) (e : Element) (ds : List Rat) (h1 : e.channels.mapM s.delayOf = .ok ds)
    (h2 : (e.applyDelays ds).err = none) : s.delayElement e = .ok (e.applyDelays ds).st := by
  unfold delayElement
  simp only [bind, Except.bind, delaysFor, h1, h2, pure, Except.pure]

end Sequence

/-! ### what the delay step keeps -/

theorem g4_dEnt_flags (sr M : Rat) (ent : ChEntry) (dl : Rat) (y : ChEntry) (h : Paths.dEnt sr M ent dl = .ok y) :
    y.flags = ent.flags := by
  unfold Paths.dEnt at h
  obtain ⟨d, fl⟩ := ent
  cases d with
  | bp b => simp only at h; cases h; rfl
  | arr a s => simp only at h; cases h; rfl
  | broken => simp at h

/-- the delay step keeps the kind of a channel: a blueprint stays a blueprint (the delayed one), a
    raw-array channel keeps its keys and sample rate and gets every array padded -/
theorem g4_dEnt_data (sr M : Rat) (ent : ChEntry) (dl : Rat) (y : ChEntry) (h : Paths.dEnt sr M ent dl = .ok y) :
    (∀ b, ent.data = .bp b → y.data = .bp (delayBP b dl M).st) ∧
    (∀ a sv, ent.data = .arr a sv →
      y.data = .arr (Paths.padAll (rhe (dl * sr)).toNat (rhe ((M - dl) * sr)).toNat a) sv) ∧
    ent.data ≠ .broken := by
  unfold Paths.dEnt at h
  obtain ⟨d, fl⟩ := ent
  cases d with
  | bp b =>
    simp only at h; cases h
    refine ⟨fun b' hb => ?_, fun a sv ha => ?_, by simp⟩
    · simp only [ChData.bp.injEq] at hb; subst hb; rfl
    · cases ha
  | arr a s =>
    simp only at h; cases h
    refine ⟨fun b' hb => ?_, fun a' sv ha => ?_, by simp⟩
    · cases hb
    · simp only [ChData.arr.injEq] at ha
      obtain ⟨rfl, rfl⟩ := ha
      rfl
  | broken => simp at h

end BB
