/-
  BB.Proofs.G2Element — helper lemmas for property C06: what an accepted validation says about
  every channel, the `atol` of a common numeric sample rate, `getArrays` channel by channel,
  the dictionary `addArray` stores.
-/
import BB.Proofs.Element
import BB.Proofs.DictEq

namespace BB.G2
open BB BB.Element BB.Dict

theorem mapM_ok_of_forall_exists {α β : Type} (f : α → Except Err β) (l : List α)
    (h : ∀ x ∈ l, ∃ y, f x = .ok y) : ∃ r, l.mapM f = .ok r := by
  induction l with
  | nil => exact ⟨[], by simp [List.mapM_nil, pure, Except.pure]⟩
  | cons a t ih =>
    obtain ⟨y, hy⟩ := h a (by simp)
    obtain ⟨r, hr⟩ := ih (fun x hx => h x (by simp [hx]))
    exact ⟨y :: r, by rw [mapM_cons_eq, hy, hr]⟩

/-- element by element: a successful `mapM` applied `f` to every member -/
theorem mapM_ok_mem {α β} (f : α → Except Err β) (l : List α) (r : List β) (h : l.mapM f = .ok r)
    (x : α) (hx : x ∈ l) : ∃ y ∈ r, f x = .ok y := by
  obtain ⟨i, hi, rfl⟩ := List.getElem_of_mem hx
  have hl := mapM_ok_length f l r h
  exact ⟨r[i]'(by omega), List.getElem_mem _, mapM_ok_getElem f l r h i hi (by omega)⟩


theorem allSame_mem {α} [DecidableEq α] (l : List α) (h : allSame l = true) (d : α) (x : α) (hx : x ∈ l) :
    x = l.headD d := by
  cases l with
  | nil => simp at hx
  | cons a t =>
    simp only [List.headD_cons]
    rcases List.mem_cons.mp hx with e | e
    · exact e
    · exact (allSame_iff a t).mp h x e

theorem allSame_of_forall {α} [DecidableEq α] (l : List α) (c : α) (h : ∀ x ∈ l, x = c) : allSame l = true := by
  cases l with
  | nil => rfl
  | cons a t =>
    rw [allSame_iff]
    intro y hy
    rw [h y (by simp [hy]), h a (by simp)]

/-- a successful `mapM` whose results are all the same: every member maps to that value -/
theorem mapM_allSame {α β} [DecidableEq β] (f : α → Except Err β) (l : List α) (r : List β)
    (h : l.mapM f = .ok r) (hs : allSame r = true) (d : β) (x : α) (hx : x ∈ l) :
    f x = .ok (r.headD d) := by
  obtain ⟨y, hy, hf⟩ := mapM_ok_mem f l r h x hx
  rw [hf, allSame_mem r hs d y hy]

/-- the stages of an accepted `validateDurations` -/
theorem validate_ok_unfold (e : Element) (m : Val × ℚ) (h : e.validate = .ok m) :
    ∃ srs durs atol npts, (Dict.vals e.chans).isEmpty = false ∧
      (Dict.vals e.chans).mapM chanSR = .ok srs ∧ allSame srs = true ∧
      (Dict.vals e.chans).mapM chanDuration = .ok durs ∧ atolOf srs = .ok atol ∧
      allClose durs atol = true ∧
      (Dict.vals e.chans).mapM chanPoints = .ok npts ∧ allSame npts = true ∧
      m = (srs.headD .none, durs.headD 0) := by
  unfold validate at h
  split at h
  · simp at h
  · rename_i hne
    split at h
    · simp at h
    · rename_i srs h1
      split at h
      · simp at h
      · rename_i hs
        split at h
        · simp at h
        · rename_i durs h2
          split at h
          · simp at h
          · rename_i atol h3
            split at h
            · simp at h
            · rename_i hc
              split at h
              · simp at h
              · rename_i npts h4
                split at h
                · simp at h
                · rename_i hp
                  simp only [Except.ok.injEq] at h
                  exact ⟨srs, durs, atol, npts, by simpa using hne, h1, by simpa using hs, h2, h3,
                    by simpa using hc, h4, by simpa using hp, h.symm⟩

/-- an accepted validation: every channel reports the returned sample rate and one common point
    count, which is `Element.points`; the returned duration is the first channel's -/
theorem validate_ok_channels (e : Element) (v : Val) (d : ℚ) (h : e.validate = .ok (v, d)) :
    ∃ p : ℤ, (∀ ent ∈ Dict.vals e.chans, chanSR ent = .ok v ∧ chanPoints ent = .ok p) ∧
      e.points = .ok p ∧
      ∃ ent0, (Dict.vals e.chans).head? = some ent0 ∧ chanDuration ent0 = .ok d := by
  obtain ⟨srs, durs, atol, npts, hne, h1, hs, h2, _, _, h4, hp, hm⟩ := validate_ok_unfold e _ h
  simp only [Prod.mk.injEq] at hm
  obtain ⟨hv, hd⟩ := hm
  cases hvals : Dict.vals e.chans with
  | nil => simp [hvals] at hne
  | cons ent0 rest =>
    refine ⟨npts.headD 0, ?_, ?_, ent0, rfl, ?_⟩
    · intro ent hent
      rw [← hvals] at hent
      exact ⟨hv ▸ mapM_allSame chanSR _ srs h1 hs .none ent hent,
        mapM_allSame chanPoints _ npts h4 hp 0 ent hent⟩
    · have := mapM_allSame chanPoints _ npts h4 hp 0 ent0 (by rw [hvals]; simp)
      unfold points
      simp [h, hvals, this, bind, Except.bind]
    · have hl := mapM_ok_length _ _ _ h2
      rw [hvals] at h2 hl
      cases durs with
      | nil => simp at hl
      | cons d0 ds =>
        have := mapM_ok_getElem chanDuration _ _ h2 0 (by simp) (by simp)
        simp only [List.getElem_cons_zero] at this
        rw [this, hd]
        rfl

/-! ### the `atol` of a common numeric sample rate -/

theorem minR_replicate (n : Nat) (s : ℚ) : minR (List.replicate (n + 1) s) = s := by
  induction n with
  | zero => rfl
  | succ n ih =>
    rw [List.replicate_succ]
    cases hr : List.replicate (n + 1) s with
    | nil => simp at hr
    | cons a t =>
      simp only [minR]
      rw [← hr, ih]
      simp

theorem numsOf_replicate (f : Val → Option ℚ) (n : Nat) (s : ℚ) (hf : f (.num s) = some s) :
    (List.replicate n (Val.num s)).mapM f = some (List.replicate n s) := by
  induction n with
  | zero => rfl
  | succ n ih => simp [List.replicate_succ, List.mapM_cons, ih, hf]

theorem atolOf_replicate (n : Nat) (s : ℚ) : atolOf (List.replicate (n + 1) (.num s)) = .ok s := by
  unfold atolOf
  have : (List.replicate (n + 1) (Val.num s)).contains .none = false := by
    simp [List.contains_eq_mem]
  rw [this, numsOf_replicate _ _ _ rfl]
  simp only [Bool.false_eq_true, if_false]
  rw [minR_replicate]

section DictLemmas
variable {κ α : Type} [DecidableEq κ]

theorem mem_upsert (d : Dict κ α) (k : κ) (v : α) (p : κ × α) (h : p ∈ upsert d k v) :
    p = (k, v) ∨ p ∈ d := by
  induction d with
  | nil => simp [upsert] at h; exact Or.inl h
  | cons kv rest ih =>
    obtain ⟨k', w⟩ := kv
    unfold upsert at h
    by_cases hk : k' = k
    · simp only [hk, if_true, List.mem_cons] at h
      rcases h with h | h
      · exact Or.inl h
      · exact Or.inr (List.mem_cons_of_mem _ h)
    · simp only [hk, if_false, List.mem_cons] at h
      rcases h with h | h
      · exact Or.inr (by simp [h])
      · rcases ih h with h' | h'
        · exact Or.inl h'
        · exact Or.inr (List.mem_cons_of_mem _ h')

theorem mem_vals_upsert (d : Dict κ α) (k : κ) (v x : α) (h : x ∈ vals (upsert d k v)) :
    x = v ∨ x ∈ vals d := by
  unfold vals at *
  obtain ⟨p, hp, rfl⟩ := List.mem_map.mp h
  rcases mem_upsert d k v p hp with e | e
  · exact Or.inl (by rw [e])
  · exact Or.inr (List.mem_map_of_mem e)

theorem mem_foldl_upsert (kw : List (κ × α)) (d0 : Dict κ α) (p : κ × α)
    (h : p ∈ kw.foldl (fun d (x : κ × α) => upsert d x.1 x.2) d0) : p ∈ d0 ∨ p ∈ kw := by
  induction kw generalizing d0 with
  | nil => exact Or.inl h
  | cons x rest ih =>
    simp only [List.foldl_cons] at h
    rcases ih _ h with h1 | h1
    · rcases mem_upsert d0 x.1 x.2 p h1 with e | e
      · exact Or.inr (by simp [e])
      · exact Or.inl e
    · exact Or.inr (List.mem_cons_of_mem _ h1)

theorem get?_foldl_upsert_of_not_mem (kw : List (κ × α)) (d0 : Dict κ α) (k : κ) (h : k ∉ keys kw) :
    get? (kw.foldl (fun d (x : κ × α) => upsert d x.1 x.2) d0) k = get? d0 k := by
  induction kw generalizing d0 with
  | nil => rfl
  | cons x rest ih =>
    simp only [keys, List.map_cons, List.mem_cons, not_or] at h
    simp only [List.foldl_cons]
    rw [ih _ (by simpa [keys] using h.2)]
    exact get?_upsert_other _ _ _ _ h.1

/-- building a dict from keyword arguments with pairwise distinct keys: every argument is found
    under its key -/
theorem get?_foldl_upsert (kw : List (κ × α)) (d0 : Dict κ α) (hnd : (keys kw).Nodup) (k : κ) (v : α)
    (h : (k, v) ∈ kw) :
    get? (kw.foldl (fun d (x : κ × α) => upsert d x.1 x.2) d0) k = some v := by
  induction kw generalizing d0 with
  | nil => simp at h
  | cons x rest ih =>
    simp only [keys, List.map_cons, List.nodup_cons] at hnd
    simp only [List.foldl_cons]
    rcases List.mem_cons.mp h with e | e
    · subst e
      rw [get?_foldl_upsert_of_not_mem rest _ _ (by simpa [keys] using hnd.1)]
      exact get?_upsert_self _ _ _
    · exact ih _ (by simpa [keys] using hnd.2) e

end DictLemmas

/-! ### `getArrays` channel by channel -/

theorem getArrays_pointwise (e : Element) (t : Bool) (out : Dict Chan ChOut) (h : e.getArrays t = .ok out) :
    out.length = e.chans.length ∧
    ∀ i (hi : i < e.chans.length) (ho : i < out.length),
      (out[i]).1 = (e.chans[i]).1 ∧ chanOut t (e.chans[i]).2 = .ok (out[i]).2 := by
  unfold getArrays at h
  refine ⟨mapM_ok_length _ _ _ h, ?_⟩
  intro i hi ho
  have := mapM_ok_getElem _ _ _ h i hi ho
  rcases hp : e.chans[i] with ⟨ch, ent⟩
  simp only [hp] at this
  cases hc : chanOut t ent with
  | error er => simp [hc, Except.map] at this
  | ok o =>
    simp only [hc, Except.map, Except.ok.injEq] at this
    rw [← this]
    exact ⟨rfl, rfl⟩

theorem getArrays_channels (e : Element) (t : Bool) (out : Dict Chan ChOut) (h : e.getArrays t = .ok out) :
    Dict.keys out = e.channels := by
  obtain ⟨hl, hp⟩ := getArrays_pointwise e t out h
  unfold Dict.keys channels Dict.keys
  apply List.ext_getElem (by simp [hl])
  intro i h1 h2
  simp only [List.getElem_map]
  exact (hp i (by simpa using h2) (by simpa using h1)).1

theorem getArrays_get? (t : Bool) (l : Dict Chan ChEntry) (c : Option (Val × ℚ)) (out : Dict Chan ChOut)
    (h : Element.getArrays ⟨l, c⟩ t = .ok out) (ch : Chan) (ent : ChEntry)
    (hget : Dict.get? l ch = some ent) :
    ∃ o, chanOut t ent = .ok o ∧ Dict.get? out ch = some o := by
  induction l generalizing out with
  | nil => simp [Dict.get?] at hget
  | cons kv rest ih =>
    obtain ⟨k1, a1⟩ := kv
    unfold getArrays at h ih
    simp only at h ih
    rw [mapM_cons_eq] at h
    simp only at h
    cases hc : chanOut t a1 with
    | error er => simp [hc, Except.map] at h
    | ok o1 =>
      simp only [hc, Except.map] at h
      split at h
      · simp at h
      · rename_i outs houts
        simp only [Except.ok.injEq] at h
        subst h
        by_cases hk : k1 = ch
        · subst hk
          have : a1 = ent := by simpa [Dict.get?] using hget
          subst this
          exact ⟨o1, hc, by simp [Dict.get?]⟩
        · have hget' : Dict.get? rest ch = some ent := by
            simpa [Dict.get?, List.find?_cons, hk] using hget
          obtain ⟨o, ho1, ho2⟩ := ih outs houts hget'
          exact ⟨o, ho1, by simpa [Dict.get?, List.find?_cons, hk] using ho2⟩

/-! ### raw-array channels whose arrays all have the waveform's length -/

/-- the stored dict of a raw-array channel holds a waveform, and every stored array has its length
    (what `addArray` checks before storing) -/
def ArrWF (a : Dict String (List ℚ)) : Prop :=
  (∃ w, Dict.get? a "wfm" = some w) ∧ ∀ p ∈ a, p.2.length = arrLen a

/-- every raw-array channel of the element is as `addArray` builds it -/
def RawWF (e : Element) : Prop :=
  ∀ ent ∈ Dict.vals e.chans, ∀ a sr, ent.data = .arr a sr → ArrWF a

theorem rawWF_empty : RawWF ({} : Element) := by
  intro ent hent; simp [Dict.vals] at hent

/-- the dict `addArray` stores -/
def storedArrays (wfm : List ℚ) (kw : Dict String (List ℚ)) : Dict String (List ℚ) :=
  Dict.upsert (kw.foldl (fun d (x : String × List ℚ) => Dict.upsert d x.1 x.2) ([] : Dict String (List ℚ))) "wfm" wfm

theorem addArray_accepted (e : Element) (ch : Chan) (wfm : List ℚ) (sr : Val) (kw : Dict String (List ℚ))
    (h : ∀ p ∈ kw, p.2.length = wfm.length) :
    e.addArray ch wfm sr kw =
      ⟨{ e with chans := Dict.upsert e.chans ch { data := .arr (storedArrays wfm kw) sr } }, none⟩ := by
  unfold addArray
  have : kw.all (fun (_, a) => a.length == wfm.length) = true := by
    rw [List.all_eq_true]
    intro p hp
    simpa using h p hp
  rw [if_pos this]
  rfl

theorem addArray_accepts_iff_aux (e : Element) (ch : Chan) (wfm : List ℚ) (sr : Val) (kw : Dict String (List ℚ)) :
    (e.addArray ch wfm sr kw).err = none ↔ ∀ p ∈ kw, p.2.length = wfm.length := by
  constructor
  · intro h p hp
    apply Classical.byContradiction
    intro hne
    have : (e.addArray ch wfm sr kw).err = some .value := by
      unfold addArray
      have : kw.all (fun (_, a) => a.length == wfm.length) = false := by
        rw [Bool.eq_false_iff]
        intro hall
        rw [List.all_eq_true] at hall
        have := hall p hp
        simp at this
        exact hne this
      simp [this]
    rw [this] at h
    simp at h
  · intro h
    rw [addArray_accepted e ch wfm sr kw h]

theorem storedArrays_wf (wfm : List ℚ) (kw : Dict String (List ℚ)) (h : ∀ p ∈ kw, p.2.length = wfm.length) :
    ArrWF (storedArrays wfm kw) ∧ arrLen (storedArrays wfm kw) = wfm.length := by
  have hlen : arrLen (storedArrays wfm kw) = wfm.length := by
    unfold arrLen storedArrays
    rw [Dict.get?_upsert_self]
    rfl
  refine ⟨⟨⟨wfm, Dict.get?_upsert_self _ _ _⟩, ?_⟩, hlen⟩
  intro p hp
  rw [hlen]
  unfold storedArrays at hp
  rcases mem_upsert _ _ _ p hp with e | e
  · rw [e]
  · rcases mem_foldl_upsert kw [] p e with e1 | e1
    · simp at e1
    · exact h p e1

theorem rawWF_upsert (e : Element) (ch : Chan) (ent : ChEntry) (h : RawWF e)
    (hent : ∀ a sr, ent.data = .arr a sr → ArrWF a) (c : Option (Val × ℚ)) :
    RawWF { chans := Dict.upsert e.chans ch ent, cache := c } := by
  intro x hx a sr hd
  rcases mem_vals_upsert _ _ _ x hx with e1 | e1
  · subst e1; exact hent a sr hd
  · exact h x e1 a sr hd

/-- `addArray` (accepted or refused) keeps every raw-array channel well formed -/
theorem rawWF_addArray (e : Element) (ch : Chan) (wfm : List ℚ) (sr : Val) (kw : Dict String (List ℚ))
    (h : RawWF e) : RawWF (e.addArray ch wfm sr kw).st := by
  by_cases hall : ∀ p ∈ kw, p.2.length = wfm.length
  · rw [addArray_accepted e ch wfm sr kw hall]
    apply rawWF_upsert e ch _ h
    intro a s hd
    simp only [ChData.arr.injEq] at hd
    rw [← hd.1]
    exact (storedArrays_wf wfm kw hall).1
  · unfold addArray
    split
    · apply rawWF_upsert e ch _ h
      intro a s hd
      simp only [ChData.arr.injEq] at hd
      rename_i hc
      exfalso
      apply hall
      intro p hp
      rw [List.all_eq_true] at hc
      simpa using hc p hp
    · apply rawWF_upsert e ch _ h
      intro a s hd
      simp at hd

theorem rawWF_addBluePrint (e : Element) (ch : Chan) (b : BP) (h : RawWF e) :
    RawWF (e.addBluePrint ch b).st := by
  unfold addBluePrint
  split
  · exact h
  · apply rawWF_upsert e ch _ h
    intro a s hd
    simp at hd

theorem rawWF_addFlags (e : Element) (ch : Chan) (fl : List Val) (h : RawWF e) :
    RawWF (e.addFlags ch fl).st := by
  unfold addFlags
  split
  · exact h
  · split
    · exact h
    · split
      · exact h
      · rename_i ent hget
        apply rawWF_upsert e ch _ h
        intro a s hd
        have hm : ent ∈ Dict.vals e.chans := by
          have := Dict.mem_of_get?_eq_some ch ent hget
          exact List.mem_map_of_mem (f := (·.2)) this
        exact h ent hm a s hd

theorem rawWF_withBP (e : Element) (ch : Chan) (f : BP → Res BP) (h : RawWF e) :
    RawWF (e.withBP ch f).st := by
  unfold withBP
  split
  · exact h
  · split
    · apply rawWF_upsert e ch _ h
      intro a s hd
      simp at hd
    · exact h

end BB.G2
