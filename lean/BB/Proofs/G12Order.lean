/-
  BB.Proofs.G12Order — the order of `d[k] = v` assignments to pairwise distinct keys does not
  matter for the resulting dictionary up to order; lifted to `addElement` / `addSubSequence`
  histories of a sequence.
-/
import BB.Proofs.G6Forge
import BB.Proofs.G12Inner

namespace BB.G12
open BB

section dict
variable {κ α : Type} [DecidableEq κ]

/-- for a dictionary without duplicate keys, `d[k] = v` is, up to order, "drop `k`, add `(k, v)`" -/
theorem upsert_perm_cons_erase (d : Dict κ α) (h : Dict.WF d) (k : κ) (v : α) :
    (Dict.upsert d k v).Perm ((k, v) :: d.filter (fun p => decide (p.1 ≠ k))) := by
  induction d with
  | nil => simp [Dict.upsert]
  | cons x xs ih =>
    obtain ⟨k', v'⟩ := x
    have hnd : k' ∉ Dict.keys xs ∧ (Dict.keys xs).Nodup := List.nodup_cons.mp h
    unfold Dict.upsert
    by_cases hk : k' = k
    · subst hk
      have hf : xs.filter (fun p => decide (p.1 ≠ k')) = xs := by
        apply List.filter_eq_self.mpr
        intro p hp
        simp only [ne_eq, decide_not, Bool.not_eq_eq_eq_not, Bool.not_true, decide_eq_false_iff_not]
        intro e
        exact hnd.1 (e ▸ List.mem_map_of_mem (f := fun p : κ × α => p.1) hp)
      rw [if_pos rfl, List.filter_cons_of_neg (by simp), hf]
    · have := ih hnd.2
      simp only [hk, if_false, List.filter_cons, ne_eq, not_false_eq_true, decide_true, if_true]
      exact (this.cons _).trans (List.Perm.swap _ _ _)

/-- `d[k] = v` respects "equal up to order" (no key twice) -/
theorem upsert_perm_congr {d d' : Dict κ α} (h : Dict.WF d) (hp : d.Perm d') (k : κ) (v : α) :
    (Dict.upsert d k v).Perm (Dict.upsert d' k v) :=
  (upsert_perm_cons_erase d h k v).trans
    (((hp.filter _).cons _).trans (upsert_perm_cons_erase d' (Dict.wf_of_perm h hp) k v).symm)

/-- assignments to two different keys commute up to order -/
theorem upsert_swap (d : Dict κ α) (h : Dict.WF d) (k1 k2 : κ) (hne : k1 ≠ k2) (v1 v2 : α) :
    (Dict.upsert (Dict.upsert d k1 v1) k2 v2).Perm (Dict.upsert (Dict.upsert d k2 v2) k1 v1) := by
  have key : ∀ (a b : κ) (va vb : α), a ≠ b →
      (Dict.upsert (Dict.upsert d a va) b vb).Perm
        ((b, vb) :: (a, va) :: (d.filter (fun p => decide (p.1 ≠ a))).filter (fun p => decide (p.1 ≠ b))) := by
    intro a b va vb hab
    refine (upsert_perm_cons_erase _ (Dict.wf_upsert h a va) b vb).trans (List.Perm.cons _ ?_)
    refine ((upsert_perm_cons_erase d h a va).filter _).trans ?_
    simp [hab]
  refine (key k1 k2 v1 v2 hne).trans (List.Perm.trans ?_ (key k2 k1 v2 v1 (Ne.symm hne)).symm)
  rw [List.filter_comm]
  exact List.Perm.swap _ _ _

/-- an assignment that may have been refused (`none`: nothing stored) -/
def up (d : Dict κ α) (x : κ × Option α) : Dict κ α :=
  match x.2 with
  | none => d
  | some v => Dict.upsert d x.1 v

theorem wf_up {d : Dict κ α} (h : Dict.WF d) (x : κ × Option α) : Dict.WF (up d x) := by
  unfold up; split
  · exact h
  · exact Dict.wf_upsert h _ _

theorem up_perm_congr {d d' : Dict κ α} (h : Dict.WF d) (hp : d.Perm d') (x : κ × Option α) :
    (up d x).Perm (up d' x) := by
  unfold up; split
  · exact hp
  · exact upsert_perm_congr h hp _ _

theorem up_swap (d : Dict κ α) (h : Dict.WF d) (x y : κ × Option α) (hne : x.1 ≠ y.1) :
    (up (up d x) y).Perm (up (up d y) x) := by
  unfold up
  cases hx : x.2 <;> cases hy : y.2 <;> simp only
  · exact List.Perm.refl _
  · exact List.Perm.refl _
  · exact List.Perm.refl _
  · exact upsert_swap d h _ _ hne _ _

theorem wf_foldl_up {d : Dict κ α} (h : Dict.WF d) (l : List (κ × Option α)) : Dict.WF (l.foldl up d) := by
  induction l generalizing d with
  | nil => exact h
  | cons x xs ih => exact ih (wf_up h x)

theorem foldl_up_congr {d d' : Dict κ α} (h : Dict.WF d) (hp : d.Perm d') (l : List (κ × Option α)) :
    (l.foldl up d).Perm (l.foldl up d') := by
  induction l generalizing d d' with
  | nil => exact hp
  | cons x xs ih => exact ih (wf_up h x) (up_perm_congr h hp x)

/-- **assignments to pairwise distinct keys, in any order, give the same dictionary up to order** -/
theorem foldl_up_perm {l l' : List (κ × Option α)} (hp : l.Perm l') (hnd : (l.map (·.1)).Nodup)
    (d : Dict κ α) (h : Dict.WF d) : (l.foldl up d).Perm (l'.foldl up d) := by
  induction hp generalizing d with
  | nil => exact List.Perm.refl _
  | cons x _ ih =>
    simp only [List.map_cons, List.nodup_cons] at hnd
    exact ih hnd.2 _ (wf_up h x)
  | swap x y l =>
    simp only [List.map_cons, List.nodup_cons, List.mem_cons, not_or] at hnd
    simp only [List.foldl_cons]
    exact foldl_up_congr (wf_up (wf_up h y) x) (up_swap d h y x (fun e => hnd.1.1 e)) l
  | trans h1 _ ih1 ih2 =>
    exact (ih1 hnd d h).trans (ih2 ((h1.map _).nodup_iff.mp hnd) d h)

end dict

/-! ### histories of `addElement` / `addSubSequence` calls -/

/-- one call that fills a position -/
inductive AddOp where
  | el (pos : Int) (e : Element)
  | sub (pos : Int) (sub : Sequence)

def AddOp.pos : AddOp → Int
  | .el p _ => p
  | .sub p _ => p

/-- the arguments were themselves built through the public API -/
def AddOp.Built : AddOp → Prop
  | .el _ e => Element.ApiBuilt e
  | .sub _ sq => Sequence.ApiBuilt sq

/-- the sequence after the call (accepted or refused) -/
def applyAdd (s : Sequence) : AddOp → Sequence
  | .el p e => (s.addElement p e).st
  | .sub p sq => (s.addSubSequence p sq).st

/-- the sequence after a list of calls, in list order -/
def addAll (s : Sequence) (ops : List AddOp) : Sequence := ops.foldl applyAdd s

/-- what an accepted call stores (`none`: refused) -/
def AddOp.entry (s : Sequence) : AddOp → Option Entry
  | .el _ e =>
    match e.validate with
    | .error _ => none
    | .ok m => some (.el { e with cache := some m })
  | .sub _ sq =>
    match Sequence.elementsOnly sq.data with
    | none => none
    | some d => if sq.getSR ≠ s.getSR then none else some (.sub (Sequence.storedSub sq d))

theorem entry_congr (s s' : Sequence) (h : s.awgspecs = s'.awgspecs) (op : AddOp) : op.entry s = op.entry s' := by
  cases op with
  | el p e => rfl
  | sub p sq =>
    have : s.getSR = s'.getSR := by unfold SeqCore.getSR; rw [h]
    simp only [AddOp.entry, this]

theorem applyAdd_data (s : Sequence) (op : AddOp) : (applyAdd s op).data = up s.data (op.pos, op.entry s) := by
  cases op with
  | el p e =>
    simp only [applyAdd, Sequence.addElement, AddOp.entry, up, AddOp.pos]
    cases e.validate <;> rfl
  | sub p sq =>
    simp only [applyAdd, Sequence.addSubSequence, AddOp.entry, up, AddOp.pos]
    cases Sequence.elementsOnly sq.data with
    | none => rfl
    | some d =>
      by_cases hsr : sq.getSR = s.getSR
      · simp [hsr]
      · simp [hsr]

theorem applyAdd_specs (s : Sequence) (op : AddOp) : (applyAdd s op).awgspecs = s.awgspecs := by
  cases op with
  | el p e =>
    simp only [applyAdd, Sequence.addElement]
    cases e.validate <;> rfl
  | sub p sq =>
    simp only [applyAdd, Sequence.addSubSequence]
    cases Sequence.elementsOnly sq.data with
    | none => rfl
    | some d =>
      by_cases hsr : sq.getSR = s.getSR
      · simp [hsr]
      · simp [hsr]

theorem addAll_specs (s : Sequence) (ops : List AddOp) : (addAll s ops).awgspecs = s.awgspecs := by
  induction ops generalizing s with
  | nil => rfl
  | cons op ops ih =>
    show (addAll (applyAdd s op) ops).awgspecs = _
    rw [ih, applyAdd_specs]

theorem addAll_data (s : Sequence) (ops : List AddOp) :
    (addAll s ops).data = (ops.map (fun op => (op.pos, op.entry s))).foldl up s.data := by
  induction ops generalizing s with
  | nil => rfl
  | cons op ops ih =>
    show (addAll (applyAdd s op) ops).data = _
    rw [ih, applyAdd_data]
    simp only [List.map_cons, List.foldl_cons]
    congr 1
    apply List.map_congr_left
    intro o _
    rw [entry_congr _ _ (applyAdd_specs s op)]

/-- **filling pairwise distinct positions in another order gives the same store up to order** -/
theorem addAll_data_perm (s : Sequence) (hwf : Dict.WF s.data) {ops ops' : List AddOp} (hp : ops.Perm ops')
    (hnd : (ops.map AddOp.pos).Nodup) : (addAll s ops).data.Perm (addAll s ops').data := by
  rw [addAll_data, addAll_data]
  apply foldl_up_perm (hp.map _) _ _ hwf
  simpa [List.map_map, Function.comp_def] using hnd

theorem applyAdd_built (s : Sequence) (hs : Sequence.ApiBuilt s) (op : AddOp) (hop : op.Built) :
    Sequence.ApiBuilt (applyAdd s op) := by
  cases op with
  | el p e => exact .addElement s p e hs hop
  | sub p sq => exact .addSubSequence s p sq hs hop

theorem addAll_built (s : Sequence) (hs : Sequence.ApiBuilt s) (ops : List AddOp) (hops : ∀ op ∈ ops, op.Built) :
    Sequence.ApiBuilt (addAll s ops) := by
  induction ops generalizing s with
  | nil => exact hs
  | cons op ops ih =>
    exact ih (applyAdd s op) (applyAdd_built s hs op (hops op (by simp))) (fun o ho => hops o (by simp [ho]))

end BB.G12
