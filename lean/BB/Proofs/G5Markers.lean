/-
  BB.Proofs.G5Markers — helper lemmas for the marker part of blueprint concatenation (C16):
  segment starts and segment-bound marker specifications over an append, ON-windows shifted by a
  whole number of samples, painting of two juxtaposed window sets.
-/
import Mathlib.Tactic.Ring
import Mathlib.Tactic.FieldSimp
import Mathlib.Tactic.Linarith
import BB.Proofs.Forge

namespace BB.G5
open BB

theorem starts_shift (ns : List ℕ) (acc D : ℕ) : starts ns (acc + D) = (starts ns acc).map (· + D) := by
  induction ns generalizing acc with
  | nil => rfl
  | cons n ns ih =>
    simp only [starts, List.map_cons, List.cons.injEq, true_and]
    rw [← ih (acc + n)]
    congr 1
    omega

theorem starts_append (na nb : List ℕ) (acc : ℕ) :
    starts (na ++ nb) acc = starts na acc ++ starts nb (acc + sumN na) := by
  induction na generalizing acc with
  | nil => simp [starts, sumN]
  | cons n ns ih =>
    simp only [List.cons_append, starts, sumN, List.cons.injEq, true_and]
    rw [ih (acc + n)]
    congr 2
    omega

theorem segMarks_append (sr : ℚ) (sel : Seg → Mark) (a b : List Seg) (stsA stsB : List ℕ)
    (h : stsA.length = a.length) :
    segMarks sr sel (a ++ b) (stsA ++ stsB) = segMarks sr sel a stsA ++ segMarks sr sel b stsB := by
  induction a generalizing stsA with
  | nil =>
    have : stsA = [] := List.eq_nil_of_length_eq_zero (by simpa using h)
    subst this
    cases b <;> simp [segMarks]
  | cons s ss ih =>
    cases stsA with
    | nil => simp at h
    | cons st sts =>
      simp only [List.cons_append, segMarks]
      rw [ih sts (by simpa using h)]
      split <;> simp

/-- the segment-bound marker specifications of a segment list whose first segment starts `D`
    samples later: every ON time later by `D/SR` -/
theorem segMarks_starts_shift (sr : ℚ) (sel : Seg → Mark) (segs : List Seg) (ns : List ℕ) (D : ℕ) :
    segMarks sr sel segs (starts ns D) =
      (segMarks sr sel segs (starts ns 0)).map (fun m => (m.1 + ((D : ℤ) : ℚ) / sr, m.2)) := by
  have h := starts_shift ns 0 D
  rw [Nat.zero_add] at h
  rw [h]
  induction segs generalizing ns with
  | nil => cases (starts ns 0) <;> simp [segMarks]
  | cons s ss ih =>
    generalize starts ns 0 = sts
    clear ih h
    induction ss generalizing s sts with
    | nil =>
      cases sts with
      | nil => simp [segMarks]
      | cons st sts =>
        cases sts <;>
        · simp only [List.map_cons, segMarks]
          split
          · simp only [List.map_cons, List.map_nil, List.cons.injEq, Prod.mk.injEq, and_true]
            push_cast; ring
          · rfl
    | cons s2 ss ih2 =>
      cases sts with
      | nil => simp [segMarks]
      | cons st sts =>
        simp only [List.map_cons]
        rw [segMarks, segMarks]
        have := ih2 s2 sts
        rw [this]
        split
        · simp only [List.map_cons, List.cons.injEq, Prod.mk.injEq, and_true]
          push_cast; ring
        · rfl

/-! ### ON-windows shifted by whole samples -/

theorem rhe_nonneg (x : ℚ) (h : 0 ≤ x) : 0 ≤ rhe x := by
  have hf : 0 ≤ x.floor := Int.floor_nonneg.mpr h
  unfold rhe
  simp only
  split
  · exact hf
  · split
    · omega
    · split <;> omega

/-- the sample nearest to `x + Na` on an axis `Na` samples longer is `Na` past the sample nearest
    to `x` (for `x ≥ 0`, i.e. an ON time at or after the start of the second blueprint) -/
theorem nearestIdx_shift (Na Nb : ℕ) (x : ℚ) (hx : 0 ≤ x) (hNb : 0 < Nb) :
    nearestIdx (Na + Nb) (x + (Na : ℚ)) = Na + nearestIdx Nb x := by
  have hN : Na + Nb ≠ 0 := by omega
  have hNb' : Nb ≠ 0 := by omega
  have hfl : (x + (Na : ℚ)).floor = x.floor + (Na : ℤ) := Int.floor_add_natCast x Na
  have hf0 : 0 ≤ x.floor := Int.floor_nonneg.mpr hx
  have htn : (x.floor + (Na : ℤ)).toNat = x.floor.toNat + Na := by omega
  have hcast : ((x.floor.toNat : ℕ) : ℚ) = (x.floor : ℚ) := by
    have : ((x.floor.toNat : ℕ) : ℤ) = x.floor := Int.toNat_of_nonneg hf0
    exact_mod_cast this
  by_cases hx0 : x ≤ 0
  · have hxz : x = 0 := le_antisymm hx0 hx
    subst hxz
    unfold nearestIdx
    simp only [le_refl, if_true, zero_add, Nat.add_zero]
    by_cases hNa : Na = 0
    · subst hNa; simp
    · have : ¬ ((Na : ℚ) ≤ 0) := by
        rw [not_le]
        exact_mod_cast Nat.pos_of_ne_zero hNa
      simp only [this, if_false, hN]
      have hfl2 : ((Na : ℚ)).floor = (Na : ℤ) := Int.floor_natCast (R := ℚ) Na
      rw [hfl2]
      simp only [Int.toNat_natCast, sub_self, add_sub_cancel_left, zero_le_one, if_true]
      omega
  · have hpos : ¬ (x + (Na : ℚ) ≤ 0) := by
      rw [not_le]
      have : (0 : ℚ) ≤ (Na : ℚ) := Nat.cast_nonneg Na
      have : 0 < x := not_le.mp hx0
      linarith
    unfold nearestIdx
    simp only [hx0, hpos, if_false, hN, hNb', hfl, htn]
    have e1 : x + (Na : ℚ) - (((x.floor.toNat + Na : ℕ)) : ℚ) = x - ((x.floor.toNat : ℕ) : ℚ) := by
      push_cast; ring
    have e2 : (((x.floor.toNat + Na : ℕ)) : ℚ) + 1 - (x + (Na : ℚ)) = ((x.floor.toNat : ℕ) : ℚ) + 1 - x := by
      push_cast; ring
    rw [e1, e2]
    split <;> omega

theorem sliceStop_shift (Na Nb : ℕ) (stop : ℤ) (h : 0 ≤ stop) :
    sliceStop (Na + Nb) ((Na : ℤ) + stop) = sliceStop Nb stop + Na := by
  unfold sliceStop
  have h1 : ¬ ((Na : ℤ) + stop < 0) := by omega
  have h2 : ¬ (stop < 0) := by omega
  simp only [h1, h2, if_false]
  omega

/-- **a window of the second blueprint inside the sum**: an ON time `Na/SR` later on an axis `Na`
    samples longer gives the same window `Na` samples later (ON time not before the blueprint's
    start, window end not before it either — true of every marker with non-negative delay and
    duration) -/
theorem window_shift (Na Nb : ℕ) (sr : ℚ) (hsr : sr ≠ 0) (m : Mark) (hNb : 0 < Nb) (ht : 0 ≤ m.1 * sr)
    (hstop : 0 ≤ ((nearestIdx Nb (m.1 * sr) : ℕ) : ℤ) + rhe (m.2 * sr)) :
    window (Na + Nb) sr (m.1 + ((Na : ℤ) : ℚ) / sr, m.2) =
      ((window Nb sr m).1 + Na, (window Nb sr m).2 + Na) := by
  unfold window
  simp only
  have e : (m.1 + ((Na : ℤ) : ℚ) / sr) * sr = m.1 * sr + (Na : ℚ) := by
    field_simp
    push_cast
    ring
  rw [e, nearestIdx_shift Na Nb _ ht hNb]
  refine Prod.ext (by simp only; omega) ?_
  simp only
  have : (((Na + nearestIdx Nb (m.1 * sr) : ℕ)) : ℤ) + rhe (m.2 * sr) =
      (Na : ℤ) + (((nearestIdx Nb (m.1 * sr) : ℕ) : ℤ) + rhe (m.2 * sr)) := by push_cast; ring
  rw [this, sliceStop_shift Na Nb _ hstop]

/-! ### painting two juxtaposed sets of windows -/

theorem paint_juxtaposed (Na Nb : ℕ) (WA WB : List (ℕ × ℕ)) (hA : ∀ w ∈ WA, w.2 ≤ Na) :
    paint (Na + Nb) (WA ++ WB.map (fun w => (w.1 + Na, w.2 + Na))) = paint Na WA ++ paint Nb WB := by
  apply List.ext_getElem
  · simp [paint_length]
  · intro k h1 h2
    rw [paint_getElem]
    rw [paint_length] at h1
    by_cases hk : k < Na
    · rw [List.getElem_append_left (by rw [paint_length]; exact hk), paint_getElem]
      have : (WB.map (fun w => (w.1 + Na, w.2 + Na))).any (inWindow k) = false := by
        rw [List.any_eq_false]
        intro w hw
        obtain ⟨w0, _, rfl⟩ := List.mem_map.mp hw
        simp only [inWindow, Bool.and_eq_true, decide_eq_true_eq, not_and]
        intro h; omega
      rw [List.any_append, this, Bool.or_false]
    · have hk' : Na ≤ k := not_lt.mp hk
      rw [List.getElem_append_right (by rw [paint_length]; exact hk')]
      rw [paint_getElem]
      simp only [paint_length]
      have hAf : WA.any (inWindow k) = false := by
        rw [List.any_eq_false]
        intro w hw
        have := hA w hw
        simp only [inWindow, Bool.and_eq_true, decide_eq_true_eq, not_and]
        intro _; omega
      have hB : (WB.map (fun w => (w.1 + Na, w.2 + Na))).any (inWindow k) = WB.any (inWindow (k - Na)) := by
        rw [List.any_map]
        congr 1
        funext w
        simp only [Function.comp, inWindow]
        have a1 : decide (w.1 + Na ≤ k) = decide (w.1 ≤ k - Na) := by
          apply decide_eq_decide.mpr; omega
        have a2 : decide (k < w.2 + Na) = decide (k - Na < w.2) := by
          apply decide_eq_decide.mpr; omega
        rw [a1, a2]
      rw [List.any_append, hAf, Bool.false_or, hB]

end BB.G5
