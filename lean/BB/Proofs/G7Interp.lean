/-
  BB.Proofs.G7Interp — `numpy.interp(x, xp, fp)` in exact arithmetic (`interpQ`) and its
  specification: through the knots, affine between adjacent knots, clamped at both ends.

  numpy's compiled `arr_interp` does, for one abscissa `x` and increasing `xp`:
  `x < xp[0]` → `fp[0]`; `x > xp[-1]` → `fp[-1]`; otherwise `j` = the index with
  `xp[j] ≤ x < xp[j+1]` (binary search), `j = len−1` → `fp[j]`, else
  `(fp[j+1] − fp[j]) / (xp[j+1] − xp[j]) · (x − xp[j]) + fp[j]`.
  `interpQ` walks the segments from the left instead of bisecting; for strictly increasing `xp`
  the segment found is the same.
-/
import Mathlib.Tactic.FieldSimp
import Mathlib.Tactic.Ring
import Mathlib.Tactic.Linarith
import Mathlib.Data.List.Pairwise

namespace BB.G7

/-- the value on the segment from knot `p` to knot `q` -/
def seg (p q : ℚ × ℚ) (x : ℚ) : ℚ := (q.2 - p.2) / (q.1 - p.1) * (x - p.1) + p.2

/-- walk the knots `(x_i, f_i)` from the left: on `[x_j, x_{j+1})` the value on segment `j`;
    at and after the last knot its ordinate -/
def interpK : List (ℚ × ℚ) → ℚ → ℚ
  | [], _ => 0
  | [p], _ => p.2
  | p :: q :: rest, x => if x < q.1 then seg p q x else interpK (q :: rest) x

/-- `numpy.interp(x, xp, fp)` (default `left`/`right`, no `period`) for `len(xp) = len(fp) ≥ 1`.
    (For an empty `xp` numpy raises; the total function returns 0 — the public operation checks
    that case before it interpolates.) -/
def interpQ (xp fp : List ℚ) (x : ℚ) : ℚ :=
  match xp.zip fp with
  | [] => 0
  | p :: rest => if x ≤ p.1 then p.2 else interpK (p :: rest) x

/-- knots with strictly increasing abscissae -/
def Incr (ks : List (ℚ × ℚ)) : Prop := ks.Pairwise (fun p q => p.1 < q.1)

theorem seg_left (p q : ℚ × ℚ) : seg p q p.1 = p.2 := by simp [seg]

theorem seg_right (p q : ℚ × ℚ) (h : p.1 < q.1) : seg p q q.1 = q.2 := by
  unfold seg
  have : q.1 - p.1 ≠ 0 := ne_of_gt (sub_pos.mpr h)
  field_simp
  ring

theorem Incr.head_le {p : ℚ × ℚ} {ks : List (ℚ × ℚ)} (h : Incr (p :: ks)) (j : ℕ) (hj : j < (p :: ks).length) :
    p.1 ≤ ((p :: ks)[j]).1 := by
  cases j with
  | zero => simp
  | succ j =>
    have := (List.pairwise_cons.mp h).1 (ks[j]'(by simpa using hj)) (List.getElem_mem _)
    simpa using this.le

theorem Incr.tail {p : ℚ × ℚ} {ks : List (ℚ × ℚ)} (h : Incr (p :: ks)) : Incr ks :=
  (List.pairwise_cons.mp h).2

/-- at its first knot the walk returns the first ordinate -/
theorem interpK_head (p : ℚ × ℚ) (ks : List (ℚ × ℚ)) (h : Incr (p :: ks)) : interpK (p :: ks) p.1 = p.2 := by
  cases ks with
  | nil => rfl
  | cons q rest =>
    have hpq : p.1 < q.1 := (List.pairwise_cons.mp h).1 q (by simp)
    simp [interpK, hpq, seg_left]

/-- **affine between adjacent knots** (closed interval, both end points included) -/
theorem interpK_segment (ks : List (ℚ × ℚ)) (h : Incr ks) (i : ℕ) (hi : i + 1 < ks.length) (x : ℚ)
    (h1 : (ks[i]).1 ≤ x) (h2 : x ≤ (ks[i + 1]).1) : interpK ks x = seg ks[i] ks[i + 1] x := by
  induction ks generalizing i with
  | nil => simp at hi
  | cons p ks ih =>
    cases ks with
    | nil => simp at hi
    | cons q rest =>
      have hpq : p.1 < q.1 := (List.pairwise_cons.mp h).1 q (by simp)
      cases i with
      | zero =>
        simp only [List.getElem_cons_zero, List.getElem_cons_succ] at h1 h2 ⊢
        rcases lt_or_eq_of_le h2 with hlt | heq
        · simp [interpK, hlt]
        · subst heq
          simp only [interpK, lt_irrefl, if_false]
          rw [interpK_head q rest h.tail, seg_right p q hpq]
      | succ j =>
        have hj : j < (q :: rest).length := by simp at hi ⊢; omega
        have hq : q.1 ≤ ((q :: rest)[j]).1 := h.tail.head_le j hj
        have hx : ¬ x < q.1 := by
          simp only [List.getElem_cons_succ] at h1
          exact not_lt.mpr (le_trans hq h1)
        simp only [interpK, hx, if_false, List.getElem_cons_succ]
        exact ih h.tail j (by simp at hi ⊢; omega) h1 h2

/-- **clamped on the right**: at and beyond the last knot the value is the last ordinate -/
theorem interpK_right (ks : List (ℚ × ℚ)) (h : Incr ks) (l : ℚ × ℚ) (hl : ks.getLast? = some l) (x : ℚ)
    (hx : l.1 ≤ x) : interpK ks x = l.2 := by
  induction ks with
  | nil => simp at hl
  | cons p ks ih =>
    cases ks with
    | nil => simp at hl; subst hl; rfl
    | cons q rest =>
      have hl2 : (q :: rest).getLast? = some l := by simpa [List.getLast?_cons_cons] using hl
      have hmem : l ∈ q :: rest := List.mem_of_getLast? hl2
      have hql : q.1 ≤ l.1 := by
        rcases List.mem_cons.mp hmem with e | e
        · rw [e]
        · exact ((List.pairwise_cons.mp h.tail).1 l e).le
      have : ¬ x < q.1 := not_lt.mpr (le_trans hql hx)
      simp only [interpK, this, if_false]
      exact ih h.tail hl2

/-! ### the same statements for `interpQ xp fp` (the two arrays numpy is given) -/

theorem zip_incr (xp fp : List ℚ) (h : xp.Pairwise (· < ·)) : Incr (xp.zip fp) := by
  induction xp generalizing fp with
  | nil => simp [Incr]
  | cons a xs ih =>
    cases fp with
    | nil => simp [Incr]
    | cons b fs =>
      rw [List.zip_cons_cons]
      refine List.pairwise_cons.mpr ⟨fun q hq => ?_, ih fs (List.pairwise_cons.mp h).2⟩
      exact (List.pairwise_cons.mp h).1 q.1 (List.of_mem_zip (a := q.1) (b := q.2) hq).1

theorem zip_getElem (xp fp : List ℚ) (i : ℕ) (hi : i < (xp.zip fp).length) :
    (xp.zip fp)[i] = (xp[i]'(by simp at hi; omega), fp[i]'(by simp at hi; omega)) := by
  simp

theorem zip_getLast (xp fp : List ℚ) (hlen : xp.length = fp.length) (xl fl : ℚ)
    (hx : xp.getLast? = some xl) (hf : fp.getLast? = some fl) : (xp.zip fp).getLast? = some (xl, fl) := by
  rw [List.getLast?_eq_getElem?] at hx hf ⊢
  rw [List.getElem?_zip_eq_some]
  simp only [List.length_zip, ← hlen, Nat.min_self]
  exact ⟨hx, by rw [hlen]; exact hf⟩

/-- at or to the right of the first knot `interpQ` is the walk over the knots -/
theorem interpQ_eq_interpK (xp fp : List ℚ) (hs : xp.Pairwise (· < ·)) (x0 : ℚ) (h0 : xp.head? = some x0)
    (x : ℚ) (hx : x0 ≤ x) : interpQ xp fp x = interpK (xp.zip fp) x := by
  unfold interpQ
  cases xp with
  | nil => simp at h0
  | cons a xs =>
    simp only [List.head?_cons, Option.some.injEq] at h0; subst h0
    cases fp with
    | nil => simp [interpK]
    | cons b fs =>
      simp only [List.zip_cons_cons]
      split
      · rename_i hle
        have : x = a := le_antisymm hle hx
        subst this
        have := interpK_head (x, b) (xs.zip fs) (by simpa [List.zip_cons_cons] using zip_incr (x :: xs) (b :: fs) hs)
        exact this.symm
      · rfl

/-- **clamped on the left**: at and below the first knot the value is the first ordinate -/
theorem interpQ_left (xp fp : List ℚ) (x0 f0 : ℚ) (h0 : xp.head? = some x0) (hf : fp.head? = some f0) (x : ℚ)
    (hx : x ≤ x0) : interpQ xp fp x = f0 := by
  cases xp with
  | nil => simp at h0
  | cons a xs =>
    cases fp with
    | nil => simp at hf
    | cons b fs =>
      simp only [List.head?_cons, Option.some.injEq] at h0 hf; subst h0 hf
      simp [interpQ, hx]

/-- **clamped on the right**: at and above the last knot the value is the last ordinate -/
theorem interpQ_right (xp fp : List ℚ) (hs : xp.Pairwise (· < ·)) (hlen : xp.length = fp.length) (xl fl : ℚ)
    (hxl : xp.getLast? = some xl) (hfl : fp.getLast? = some fl) (x : ℚ) (hx : xl ≤ x) :
    interpQ xp fp x = fl := by
  cases xp with
  | nil => simp at hxl
  | cons a xs =>
    have hal : a ≤ xl := by
      have hmem : xl ∈ a :: xs := List.mem_of_getLast? hxl
      rcases List.mem_cons.mp hmem with e | e
      · rw [e]
      · exact ((List.pairwise_cons.mp hs).1 xl e).le
    rw [interpQ_eq_interpK (a :: xs) fp hs a rfl x (le_trans hal hx)]
    exact interpK_right _ (zip_incr _ _ hs) (xl, fl) (zip_getLast _ _ hlen xl fl hxl hfl) x hx

/-- **affine between adjacent knots**: for `xp[i] ≤ x ≤ xp[i+1]` the value is the chord through
    `(xp[i], fp[i])` and `(xp[i+1], fp[i+1])` -/
theorem interpQ_segment (xp fp : List ℚ) (hs : xp.Pairwise (· < ·)) (hlen : xp.length = fp.length) (i : ℕ)
    (hi : i + 1 < xp.length) (x : ℚ) (h1 : xp[i] ≤ x) (h2 : x ≤ xp[i + 1]) :
    interpQ xp fp x =
      (fp[i + 1]'(by omega) - fp[i]'(by omega)) / (xp[i + 1] - xp[i]) * (x - xp[i]) + fp[i]'(by omega) := by
  cases xp with
  | nil => simp at hi
  | cons a xs =>
    have ha : a ≤ (a :: xs)[i] := by
      cases i with
      | zero => simp
      | succ j =>
        have := (List.pairwise_cons.mp hs).1 (xs[j]'(by simp at hi; omega)) (List.getElem_mem _)
        simpa using this.le
    rw [interpQ_eq_interpK (a :: xs) fp hs a rfl x (le_trans ha h1)]
    have hz : i + 1 < ((a :: xs).zip fp).length := by simp [← hlen]; simpa using hi
    rw [interpK_segment _ (zip_incr _ _ hs) i hz x (by simpa using h1) (by simpa using h2)]
    simp [seg]

/-- **through the knots**: `interp(xp[i]) = fp[i]` for every knot -/
theorem interpQ_knot (xp fp : List ℚ) (hs : xp.Pairwise (· < ·)) (hlen : xp.length = fp.length) (i : ℕ)
    (hi : i < xp.length) : interpQ xp fp xp[i] = fp[i]'(by omega) := by
  by_cases h : i + 1 < xp.length
  · rw [interpQ_segment xp fp hs hlen i h xp[i] le_rfl
      ((List.pairwise_iff_getElem.mp hs) i (i + 1) (by omega) h (by omega)).le]
    simp
  · have hl : i = xp.length - 1 := by omega
    have hxl : xp.getLast? = some xp[i] := by
      rw [List.getLast?_eq_getElem?]; subst hl; simp
    have hfl : fp.getLast? = some (fp[i]'(by omega)) := by
      rw [List.getLast?_eq_getElem?]
      have : fp.length - 1 = i := by omega
      rw [this]; simp
    exact interpQ_right xp fp hs hlen _ _ hxl hfl _ le_rfl

/-- the interpolant of positive ordinates is positive on the whole line (so `invert=True`
    never divides by zero for a positive transfer function) -/
theorem interpK_pos (ks : List (ℚ × ℚ)) (h : Incr ks) (hne : ks ≠ []) (hp : ∀ p ∈ ks, 0 < p.2) (x : ℚ)
    (hx : ∀ p, ks.head? = some p → p.1 ≤ x) : 0 < interpK ks x := by
  induction ks with
  | nil => exact absurd rfl hne
  | cons p ks ih =>
    cases ks with
    | nil => simpa [interpK] using hp p (by simp)
    | cons q rest =>
      have hpq : p.1 < q.1 := (List.pairwise_cons.mp h).1 q (by simp)
      have hpx : p.1 ≤ x := hx p rfl
      simp only [interpK]
      split
      · rename_i hlt
        -- convex combination of two positive ordinates
        have hd : 0 < q.1 - p.1 := sub_pos.mpr hpq
        have e : seg p q x = ((q.1 - x) * p.2 + (x - p.1) * q.2) / (q.1 - p.1) := by
          unfold seg; field_simp; ring
        rw [e]
        apply div_pos _ hd
        have h1 : 0 < (q.1 - x) * p.2 := mul_pos (sub_pos.mpr hlt) (hp p (by simp))
        have h2 : 0 ≤ (x - p.1) * q.2 := mul_nonneg (sub_nonneg.mpr hpx) (hp q (by simp)).le
        linarith
      · rename_i hge
        exact ih h.tail (by simp) (fun r hr => hp r (List.mem_cons_of_mem _ hr))
          (fun r hr => by simp at hr; subst hr; exact not_lt.mp hge)

theorem interpQ_pos (xp fp : List ℚ) (hs : xp.Pairwise (· < ·)) (hlen : xp.length = fp.length) (hne : xp ≠ [])
    (hp : ∀ f ∈ fp, 0 < f) (x : ℚ) : 0 < interpQ xp fp x := by
  cases xp with
  | nil => exact absurd rfl hne
  | cons a xs =>
    cases fp with
    | nil => simp at hlen
    | cons b fs =>
      by_cases hx : x ≤ a
      · rw [interpQ_left (a :: xs) (b :: fs) a b rfl rfl x hx]; exact hp b (by simp)
      · rw [interpQ_eq_interpK (a :: xs) (b :: fs) hs a rfl x (not_le.mp hx).le]
        refine interpK_pos _ (zip_incr _ _ hs) (by simp) (fun p hpm => ?_) x (fun p hh => ?_)
        · exact hp p.2 (List.of_mem_zip (a := p.1) (b := p.2) hpm).2
        · simp at hh; subst hh; exact (not_le.mp hx).le

end BB.G7
