/-
  BB.Proofs.G8Tools — the sweep tools (`makeLinearlyVaryingSequence`, `makeVaryingSequence`,
  `repeatAndVarySequence`) never fault on well-formed heaps.
-/
import BB.Proofs.G8Sq4

namespace BB.Heap

/-! ### the state of a sweep: a sequence being filled with edited copies of a base element -/

structure SweepInv (r : Owner) (base : Addr) (h0 : Heap) (s d : Addr) (done : List String) (h1 : Heap) : Prop where
  good : Good h1
  keeps : Keeps h0 h1
  keptEl : KeptEl h0 h1
  isS : Is h1 s .sqObj r
  data : follow h1 s "_data" = some d
  dataEl : DataEl h1 d
  live : ∃ cd, h1[d]? = some cd
  stored : ∀ pos ∈ done, ∃ e', follow h1 d pos = some e' ∧ Is h1 e' .elObj r ∧
    ∀ ch, HasBp h0 base ch → HasBp h1 e' ch

theorem KeptEl.refl (h : Heap) : KeptEl h h := fun _ _ hc _ => hc

/-- the sweep state survives whatever rewrites no cell on a path -/
theorem SweepInv.leaf {r : Owner} {base : Addr} {h0 : Heap} {s d : Addr} {done : List String} {h1 h2 : Heap}
    (inv : SweepInv r base h0 s d done h1) (e : Evo r pLeaf h1 h2) : SweepInv r base h0 s d done h2 := by
  obtain ⟨cd, hcd⟩ := inv.live
  obtain ⟨cs, hcs, hks, hos⟩ := inv.isS
  have hkd : cd.kind = .sqData := by
    obtain ⟨c, hc, hk, _⟩ := is_follow inv.good ⟨cs, hcs, hks, hos⟩ inv.data
      (fun kk hal => by simpa [allowed] using hal) (k' := .sqData) rfl
    rw [hcd] at hc; cases hc; exact hk
  have hcd2 : h2[d]? = some cd := e.kept d cd hcd (by rw [hkd]; rfl)
  have hcs2 : h2[s]? = some cs := e.kept s cs hcs (by rw [hks]; rfl)
  refine ⟨e.good, inv.keeps.trans e.keeps, inv.keptEl.trans e.kept.el, ⟨cs, hcs2, hks, hos⟩, ?_,
    inv.dataEl.keep e.keeps inv.good hcd hcd2, ⟨cd, hcd2⟩, ?_⟩
  · rw [follow_congr (h := h1) (h' := h2) (by rw [hcs2, hcs])]; exact inv.data
  · intro pos hpos
    obtain ⟨e', h1', h2', h3'⟩ := inv.stored pos hpos
    refine ⟨e', ?_, h2'.keeps e.keeps, fun ch hb => (h3' ch hb).keep inv.good e.kept.el h2'⟩
    rw [follow_congr (h := h1) (h' := h2) (by rw [hcd2, hcd])]; exact h1'

theorem dataEl_store {h h' : Heap} (kp : Keeps h h') (hg : Good h) {d : Addr} {cd : Cell} {pos : String} {e' : Addr}
    (hcd : h[d]? = some cd) (hcd' : h'[d]? = some { cd with slots := upsertSlot cd.slots pos (.ref e') })
    (he' : IsK h' e' .elObj) (hd : DataEl h d) : DataEl h' d := by
  intro cd2 hcd2 ks hks e ce' he hce'
  rw [hcd'] at hcd2; cases hcd2
  rcases mem_upsertSlot hks with hnew | hold
  · subst hnew
    cases he
    obtain ⟨c, hc, hk⟩ := he'
    rw [hce'] at hc; cases hc; exact hk
  · have hm : (ks.1, Slot.ref e) ∈ cd.slots := by rw [← he]; exact hold
    obtain ⟨ce, hce, _, _⟩ := good_ref hg hcd hm
    obtain ⟨ce2, x1, x2, _⟩ := kp e ce hce
    rw [hce'] at x1; cases x1
    rw [x2]; exact hd cd hcd ks hold e ce he hce

/-- adding (a validated copy of) a fresh element that has the base's blueprint channels -/
theorem sweep_add {r : Owner} {base : Addr} {h0 : Heap} {s d : Addr} {done : List String} {h2 : Heap} {e : Addr}
    (tok : Nat) (pos : String) (inv : SweepInv r base h0 s d done h2) (he : Is h2 e .elObj r)
    (hbp : ∀ ch, HasBp h0 base ch → HasBp h2 e ch) :
    Runs 0 r (sqAddElement tok s pos e) h2 (fun _ h3 => SweepInv r base h0 s d (done ++ [pos]) h3) := by
  obtain ⟨cd, hcd⟩ := inv.live
  apply runs_mono (sqAddElement_spec tok pos inv.good inv.isS he.isK inv.data hcd)
  intro _ h3 ⟨e3, e'', _, hie'', hd3, hbp3⟩
  obtain ⟨cs, hcs, hks, hos⟩ := inv.isS
  have hcs3 : h3[s]? = some cs := e3.only s cs hcs (by simp [hks, Kind.isPath])
  refine ⟨e3.good, inv.keeps.trans e3.keeps, inv.keptEl.trans e3.keptEl_store, ⟨cs, hcs3, hks, hos⟩, ?_,
    dataEl_store e3.keeps inv.good hcd hd3 hie''.isK inv.dataEl, ⟨_, hd3⟩, ?_⟩
  · rw [follow_congr (h := h2) (h' := h3) (by rw [hcs3, hcs])]; exact inv.data
  · intro p hp
    by_cases hpp : p = pos
    · subst hpp
      refine ⟨e'', follow_of hd3 (lookup_upsertSlot_self _ _ _), hie'', fun ch hb => hbp3 ch (hbp ch hb)⟩
    · have hp' : p ∈ done := by
        simp only [List.mem_append, List.mem_singleton] at hp
        rcases hp with hp | hp
        · exact hp
        · exact absurd hp hpp
      obtain ⟨e', h1', h2', h3'⟩ := inv.stored p hp'
      obtain ⟨cd0, hcd0, hl⟩ := follow_some h1'
      rw [hcd] at hcd0; cases hcd0
      refine ⟨e', follow_of hd3 ?_, h2'.keeps e3.keeps, fun ch hb => (h3' ch hb).keep inv.good e3.keptEl_store h2'⟩
      show lookupSlot (upsertSlot cd.slots pos (.ref e'')) p = some (.ref e')
      rw [lookup_upsertSlot_other _ _ _ _ hpp]; exact hl

/-- the sweep state right after `Sequence()` and `setSR` -/
theorem sweep_inv_new {r : Owner} {base : Addr} {h0 h1 h2 h3 : Heap} {s d : Addr} (kp : Keeps h0 h1)
    (ke : KeptEl h0 h1) (e1 : Evo r pNone h1 h2) (his : Is h2 s .sqObj r) (hd : follow h2 s "_data" = some d)
    (hcd : h2[d]? = some ⟨.sqData, r, []⟩) (e2 : Evo r pLeaf h2 h3) : SweepInv r base h0 s d [] h3 := by
  have inv1 : SweepInv r base h0 s d [] h2 := by
    refine ⟨e1.good, kp.trans e1.keeps, ke.trans e1.sub.kept.el, his, hd, ?_, ⟨_, hcd⟩, by simp⟩
    intro cd hcd2 ks hks
    rw [hcd] at hcd2; cases hcd2
    simp at hks
  exact inv1.leaf e2

/-- what the finished sweep state says about the sequence -/
theorem SweepInv.result {r : Owner} {base : Addr} {h0 : Heap} {s d : Addr} {done : List String} {h1 : Heap}
    (inv : SweepInv r base h0 s d done h1) : SubsFlat h1 s := by
  obtain ⟨d0, q, w, m, p⟩ := sq_parts inv.good inv.isS
  have hdd : d0 = d := by have := p.data; rw [inv.data] at this; cases this; rfl
  subst hdd
  obtain ⟨cs, hcs, hks, _⟩ := inv.isS
  obtain ⟨t, hslots⟩ := sq_slots inv.good hcs hks p
  rw [subsFlat_iff]
  intro cs2 x hcs2 hm
  rw [hcs] at hcs2; cases hcs2
  have hx : x = d0 := by rw [hslots] at hm; simpa using hm
  subst hx
  exact inv.dataEl.flat

/-- the base element's blueprint channels, seen from a later heap of the sweep -/
theorem SweepInv.base {r : Owner} {base : Addr} {h0 : Heap} {s d : Addr} {done : List String} {h1 : Heap}
    (inv : SweepInv r base h0 s d done h1) (hg : Good h0) (hb : IsK h0 base .elObj) :
    IsK h1 base .elObj ∧ ∀ ch, HasBp h0 base ch → HasBp h1 base ch := by
  obtain ⟨c, hc, hk⟩ := hb
  exact ⟨IsK.keeps inv.keeps ⟨c, hc, hk⟩, fun ch hbp => hbp.keep hg inv.keptEl ⟨c, hc, hk, rfl⟩⟩

/-- a fresh copy of the base element, as the sweep sees it -/
theorem sweep_copy {base0 : Nat} {r : Owner} {base : Addr} {h0 : Heap} {s d : Addr} {done : List String} {h1 : Heap}
    (inv : SweepInv r base h0 s d done h1) (hg : Good h0) (hb : IsK h0 base .elObj) :
    Runs base0 r (elCopy base) h1 (fun e h2 => SweepInv r base h0 s d done h2 ∧ Is h2 e .elObj r ∧
      ∀ ch, HasBp h0 base ch → HasBp h2 e ch) := by
  obtain ⟨hb1, hbp1⟩ := inv.base hg hb
  apply runs_mono (elCopy_spec inv.good hb1)
  intro e h2 ⟨_, e2, hie, hcopy⟩
  refine ⟨inv.leaf e2.low_of_none, hie, ?_⟩
  intro ch hbp
  obtain ⟨c1, hc1, hk1⟩ := hb1
  exact ((hbp1 ch hbp).keep inv.good e2.sub.kept.el ⟨c1, hc1, hk1, rfl⟩).copy hcopy

/-! ### `makeLinearlyVaryingSequence` -/

/-- **`makeLinearlyVaryingSequence` never faults** when the base element's channel holds a
    blueprint: per value a copy of the base element is edited and added -/
theorem tlLinVary_spec {r : Owner} {h : Heap} {base : Addr} (tok : Nat) (ch : String) (poss : List String)
    (hg : Good h) (hbase : IsK h base .elObj) (hch : HasBp h base ch) :
    Runs 0 r (tlLinVary tok base ch poss) h (fun s h' => h.length ≤ s ∧ Good h' ∧ Keeps h h' ∧
      Is h' s .sqObj r ∧ SubsFlat h' s) := by
  unfold tlLinVary
  apply runs_bind
  apply runs_mono (sqNew_spec hg)
  intro s h1 ⟨hfresh, e1, his, d, hd, _, hcd⟩
  apply runs_bind
  apply runs_mono (sqSetSpec_spec tok "SR" e1.good his)
  intro _ h2 e2
  have inv0 : SweepInv r base h s d [] h2 :=
    sweep_inv_new (keeps_refl h) (KeptEl.refl h) e1 his hd hcd e2
  apply runs_bind
  refine runs_mono (runs_forIn _ (fun done hx => SweepInv r base h s d done hx) poss [] h2 inv0 ?_) ?_
  · intro dn pos rest hx _ inv
    apply runs_bind
    apply runs_mono (sweep_copy inv hg hbase)
    intro e hy ⟨inv2, hie, hbp2⟩
    apply runs_bind
    apply runs_mono (elMutateBP_spec tok ch inv2.good hie (hbp2 ch hch))
    intro _ hz e3
    apply runs_bind
    apply runs_mono (sweep_add tok pos (inv2.leaf e3) (hie.keeps e3.keeps)
      (fun ch' hb => (hbp2 ch' hb).keep inv2.good e3.kept.el hie))
    intro _ hw inv4
    exact runs_pure ⟨rfl, inv4⟩
  · intro _ hx inv
    apply runs_pure
    exact ⟨hfresh, inv.good, inv.keeps, inv.isS, inv.result⟩

/-! ### `makeVaryingSequence` -/

/-- **`makeVaryingSequence` never faults** when every edited position is one of those added and
    every edited channel holds a blueprint in the base element -/
theorem tlVary_spec {r : Owner} {h : Heap} {base : Addr} (tok : Nat) (poss : List String)
    (edits : List (String × String)) (hg : Good h) (hbase : IsK h base .elObj)
    (hed : ∀ pe ∈ edits, pe.1 ∈ poss ∧ HasBp h base pe.2) :
    Runs 0 r (tlVary tok base poss edits) h (fun s h' => h.length ≤ s ∧ Good h' ∧ Keeps h h' ∧
      Is h' s .sqObj r ∧ SubsFlat h' s) := by
  unfold tlVary
  apply runs_bind
  apply runs_mono (elValidate_spec tok hg hbase)
  intro _ h0 e0
  apply runs_bind
  apply runs_mono (sqNew_spec e0.good)
  intro s h1 ⟨hfresh, e1, his, d, hd, _, hcd⟩
  apply runs_bind
  apply runs_mono (sqSetSpec_spec tok "SR" e1.good his)
  intro _ h2 e2
  have inv0 : SweepInv r base h s d [] h2 := sweep_inv_new e0.keeps e0.kept.el e1 his hd hcd e2
  apply runs_bind
  refine runs_mono (runs_forIn _ (fun done hx => SweepInv r base h s d done hx) poss [] h2 inv0 ?_) ?_
  · intro dn pos rest hx _ inv
    apply runs_bind
    apply runs_mono (sweep_copy inv hg hbase)
    intro e hy ⟨inv2, hie, hbp2⟩
    apply runs_bind
    apply runs_mono (sweep_add tok pos inv2 hie hbp2)
    intro _ hw inv4
    exact runs_pure ⟨rfl, inv4⟩
  · intro _ h3 inv
    simp only [List.nil_append] at inv
    -- every edit finds its blueprint
    have hsq : ∀ pe ∈ edits, SqBp h3 s pe.1 pe.2 := by
      intro pe hpe
      obtain ⟨hpos, hbp⟩ := hed pe hpe
      obtain ⟨e', h1', h2', h3'⟩ := inv.stored pe.1 hpos
      exact ⟨e', followPath2 inv.data h1', h2'.isK, h3' pe.2 hbp⟩
    apply runs_bind
    refine runs_mono (runs_forIn _ (fun _ hx => Evo r pLeaf h3 hx) edits [] h3 (Evo.refl inv.good) ?_) ?_
    · intro dn pe rest hx heq ex
      have hpe : pe ∈ edits := by
        have : pe ∈ dn ++ pe :: rest := by simp
        rw [← heq] at this; simpa using this
      apply runs_bind
      apply runs_mono (sqElMutate_spec tok pe.1 pe.2 ex.good (inv.isS.keeps ex.keeps)
        ((hsq pe hpe).keep inv.good ex.keeps ex.kept inv.isS))
      intro _ hy ey
      exact runs_pure ⟨rfl, ex.trans ey⟩
    · intro _ h4 e4
      apply runs_pure
      refine ⟨Nat.le_trans e0.len hfresh, e4.good, inv.keeps.trans e4.keeps, inv.isS.keeps e4.keeps, ?_⟩
      exact SubsFlat.keep e4 inv.good (fun a k hk => by revert hk; cases k <;> simp [Kind.isSeq, Kind.isPath])
        inv.isS.isK inv.result

end BB.Heap
