/-
  BB.Proofs.G3Cells — the forged elements of `_prepareForOutputting` hold a waveform and both markers
  on every channel whose stored entry is a blueprint or a raw-array set with 'wfm', 'm1', 'm2':
  the delay loop, `getArrays` and the filter pass keep the kind of entry and the array names.
-/
import BB.Proofs.G3Prep

namespace BB
namespace G3
open Sequence Element

/-- a channel entry from which the output methods can take the waveform and both markers: a blueprint,
    or raw arrays given with 'm1' and 'm2' ('wfm' is always stored by `addArray`) -/
def entOkB (ent : ChEntry) : Bool :=
  match ent.data with
  | .bp _ => true
  | .arr a _ => (Dict.get? a "wfm").isSome && (Dict.get? a "m1").isSome && (Dict.get? a "m2").isSome
  | .broken => false

theorem get?_map_vals {α β : Type} (a : Dict String α) (f : α → β) (k : String) :
    Dict.get? (a.map (fun (x : String × α) => (x.1, f x.2))) k = (Dict.get? a k).map f := by
  induction a with
  | nil => rfl
  | cons x rest ih =>
    obtain ⟨k0, v0⟩ := x
    by_cases hk : k0 = k
    · simp [Dict.get?, hk]
    · simp only [Dict.get?, List.map_cons, List.find?_cons, hk, decide_false] at ih ⊢
      exact ih

theorem prepStep_entOk (sr : Val) (M : Rat) (cs cs' : Dict Chan ChEntry) (x : Chan × Rat)
    (h : prepStep sr M cs x = .ok cs') :
    ∀ ch, (Dict.get? cs' ch).map entOkB = (Dict.get? cs ch).map entOkB := by
  unfold prepStep at h
  split at h
  · cases h
  · rename_i ent hent
    have key : ∀ (ent' : ChEntry), entOkB ent' = entOkB ent → ∀ ch,
        (Dict.get? (Dict.upsert cs x.1 ent') ch).map entOkB = (Dict.get? cs ch).map entOkB := by
      intro ent' hfl ch
      by_cases hc : ch = x.1
      · subst hc
        rw [Dict.get?_upsert_self, hent]
        simp [hfl]
      · rw [Dict.get?_upsert_other _ _ _ _ hc]
    split at h
    · rename_i b hb
      split at h
      · cases h
      · split at h
        · cases h
        · simp only [Except.ok.injEq] at h
          subst h
          apply key
          simp [entOkB, hb]
    · rename_i a s' ha
      split at h
      · rename_i srq
        simp only [Except.ok.injEq] at h
        subst h
        apply key
        simp only [entOkB, ha]
        have e : ∀ k, (Dict.get? (a.map (fun (x_1 : String × List Rat) =>
            match x_1 with
            | (k, xs) => (k, padArr (rhe (x.2 * srq)).toNat (rhe ((M - x.2) * srq)).toNat xs))) k).isSome =
            (Dict.get? a k).isSome := by
          intro k
          have := get?_map_vals a (padArr (rhe (x.2 * srq)).toNat (rhe ((M - x.2) * srq)).toNat) k
          have e2 : (a.map (fun (x_1 : String × List Rat) =>
              match x_1 with
              | (k, xs) => (k, padArr (rhe (x.2 * srq)).toNat (rhe ((M - x.2) * srq)).toNat xs))) =
              a.map (fun (x_1 : String × List Rat) => (x_1.1, padArr (rhe (x.2 * srq)).toNat (rhe ((M - x.2) * srq)).toNat x_1.2)) := by
            apply List.map_congr_left
            intro y _
            obtain ⟨k', xs'⟩ := y
            rfl
          rw [e2, this]
          cases Dict.get? a k <;> rfl
        rw [e "wfm", e "m1", e "m2"]
      · cases h
    · cases h

theorem foldlM_prepStep_entOk (sr : Val) (M : Rat) (l : List (Chan × Rat)) (cs0 cs : Dict Chan ChEntry)
    (h : l.foldlM (prepStep sr M) cs0 = .ok cs) :
    ∀ ch, (Dict.get? cs ch).map entOkB = (Dict.get? cs0 ch).map entOkB := by
  induction l generalizing cs0 with
  | nil =>
    simp only [List.foldlM_nil, pure, Except.pure, Except.ok.injEq] at h
    subst h
    exact fun _ => rfl
  | cons x rest ih =>
    simp only [List.foldlM_cons, bind, Except.bind] at h
    cases hs : prepStep sr M cs0 x with
    | error er => rw [hs] at h; cases h
    | ok cs1 =>
      rw [hs] at h
      simp only at h
      intro ch
      rw [ih cs1 h ch, prepStep_entOk sr M cs0 cs1 x hs ch]

/-- what `getArrays` delivers for an entry that is a blueprint or has 'wfm', 'm1', 'm2' yields a waveform
    and both markers, whatever filter is attached -/
theorem chanOut_entOk (ent : ChEntry) (o : ChOut) (f : Option FiltCall) (h : chanOut false ent = .ok o)
    (hok : entOkB ent = true) :
    (∃ w, chWave { out := o, filt := f } = .ok w) ∧ (∃ m, chMarker { out := o, filt := f } 1 = .ok m) ∧
      (∃ m, chMarker { out := o, filt := f } 2 = .ok m) := by
  unfold chanOut at h
  unfold entOkB at hok
  split at h
  · cases hf : forgeBP _ with
    | error e => rw [hf] at h; simp [Except.map] at h
    | ok fg =>
      rw [hf] at h
      simp only [Except.map, Except.ok.injEq] at h
      subst h
      simp [chWave, chMarker]
  · rename_i a sr ha
    rw [ha] at hok
    simp only [Bool.and_eq_true] at hok
    simp only [Bool.false_and, Bool.false_eq_true, if_false, Except.ok.injEq] at h
    subst h
    obtain ⟨⟨h1, h2⟩, h3⟩ := hok
    obtain ⟨w, hw⟩ := Option.isSome_iff_exists.mp h1
    obtain ⟨m1, hm1⟩ := Option.isSome_iff_exists.mp h2
    obtain ⟨m2, hm2⟩ := Option.isSome_iff_exists.mp h3
    refine ⟨⟨{ blocks := [.raw w], filt := f }, ?_⟩, ⟨m1, ?_⟩, ⟨m2, ?_⟩⟩
    · simp only [chWave, hw]
    · simp only [chMarker, if_true, hm1]
    · simp [chMarker, hm2]
  · cases h

theorem getArrays_lookup_none (e : Element) (t : Bool) (arr : Dict Chan ChOut) (h : e.getArrays t = .ok arr)
    (ch : Chan) (hent : Dict.get? e.chans ch = none) : Dict.get? arr ch = none := by
  unfold Element.getArrays at h
  exact (dict_mapM_lookup _ (by
    intro x y hxy
    obtain ⟨c, en⟩ := x
    simp only at hxy
    cases hc : chanOut t en with
    | error e => rw [hc] at hxy; simp [Except.map] at hxy
    | ok o =>
      rw [hc] at hxy
      simp only [Except.map, Except.ok.injEq] at hxy
      rw [← hxy]) e.chans arr h ch).2 hent

theorem prepFilters_lookup_none (s : Sequence) (chans : List Chan) (d : Dict Chan ChOut) (d' : Dict Chan ChOutF)
    (h : s.prepFilters chans d = .ok d') (ch : Chan) (ho : Dict.get? d ch = none) : Dict.get? d' ch = none := by
  unfold prepFilters at h
  exact (dict_mapM_lookup _ (by
    intro x y hxy
    split at hxy
    · cases hf : s.filterOf x.1 with
      | error e => rw [hf] at hxy; simp [Except.map] at hxy
      | ok f =>
        rw [hf] at hxy
        simp only [Except.map, Except.ok.injEq] at hxy
        rw [← hxy]
    · simp only [Except.ok.injEq] at hxy
      rw [← hxy]) d d' h ch).2 ho

/-- **every cell of a prepared sequence holds waveform and markers** when every channel of every stored
    element is a blueprint or a raw-array set with 'wfm', 'm1', 'm2' -/
theorem prepare_cells_ok (s : Sequence) (P : List (Dict Chan ChOutF)) (h : s.prepareForOutputting = .ok P)
    (hst : ∀ p e ch ent, Dict.get? s.data p = some (.el e) → Dict.get? e.chans ch = some ent → entOkB ent = true) :
    ∀ el ∈ P, ∀ ch, ∀ c, lookupCh el ch = .ok c →
      (∃ w, chWave c = .ok w) ∧ (∃ m, chMarker c 1 = .ok m) ∧ (∃ m, chMarker c 2 = .ok m) := by
  obtain ⟨en, chans, delays, els, forged, hcc, hen, hchans, _, _, hdel, hels, hforged, hP⟩ := prepare_inv s P h
  unfold prepElements at hels
  have l1 := mapM_ok_length _ _ _ hels
  have l2 := mapM_ok_length _ _ _ hforged
  have l3 := mapM_ok_length _ _ _ hP
  simp only [List.length_range] at l1
  intro el hel ch c hc
  obtain ⟨p, hp, rfl⟩ := List.getElem_of_mem hel
  have i0 : p < (List.range s.data.length).length := by simp; omega
  have i1 : p < els.length := by omega
  have i2 : p < forged.length := by omega
  have ee := mapM_ok_getElem _ _ _ hels p i0 i1
  rw [List.getElem_range] at ee
  have ef := mapM_ok_getElem _ _ _ hforged p i1 i2
  have ep := mapM_ok_getElem _ _ _ hP p i2 hp
  cases hg : Dict.get? s.data ((p + 1 : Nat) : Int) with
  | none => rw [hg] at ee; cases ee
  | some eni =>
    rw [hg] at ee
    cases eni with
    | sub _ => cases ee
    | el e =>
      simp only at ee
      cases hsr : e.getSR with
      | error er => rw [hsr] at ee; cases ee
      | ok srv =>
        rw [hsr] at ee
        simp only at ee
        unfold prepDelayElement at ee
        cases hfold : (chans.zip delays).foldlM (prepStep srv (maxR delays)) e.chans with
        | error er => rw [hfold] at ee; simp [Except.map] at ee
        | ok cs =>
          rw [hfold] at ee
          simp only [Except.map, Except.ok.injEq] at ee
          have hinv := foldlM_prepStep_entOk _ _ _ _ _ hfold ch
          have hels_p : (els[p]).chans = cs := by rw [← ee]
          -- the cell comes from the delayed element's entry for `ch`
          unfold lookupCh at hc
          split at hc
          · rename_i c' hc'
            simp only [Except.ok.injEq] at hc
            subst hc
            -- trace back through the filter pass and getArrays
            cases hcs : Dict.get? cs ch with
            | none =>
              exfalso
              have hn1 := getArrays_lookup_none els[p] false forged[p] ef ch (by rw [hels_p]; exact hcs)
              have hn2 := prepFilters_lookup_none s chans forged[p] P[p] ep ch hn1
              rw [hn2] at hc'; cases hc'
            | some ent' =>
              obtain ⟨o, ho, hgo⟩ := getArrays_lookup els[p] false forged[p] ef ch ent' (by rw [hels_p]; exact hcs)
              obtain ⟨c2, hc2, hco, _, _⟩ := prepFilters_lookup s chans forged[p] P[p] ep ch o hgo
              rw [hc2] at hc'
              simp only [Option.some.injEq] at hc'
              subst hc'
              rw [hcs] at hinv
              cases he : Dict.get? e.chans ch with
              | none => rw [he] at hinv; simp at hinv
              | some ent =>
                rw [he] at hinv
                simp only [Option.map_some, Option.some.injEq] at hinv
                have hok : entOkB ent' = true := by rw [hinv]; exact hst _ e ch ent hg he
                have := chanOut_entOk ent' o c2.filt ho hok
                have hceq : ({ out := o, filt := c2.filt } : ChOutF) = c2 := by
                  cases c2; simp only at hco; subst hco; rfl
                rw [hceq] at this
                exact this
          · cases hc

/-- decidable form of "every channel of every stored element is a blueprint or has 'wfm', 'm1', 'm2'" -/
def storedOkB (s : Sequence) : Bool :=
  s.data.all (fun x => match x.2 with
    | .el e => e.chans.all (fun y => entOkB y.2)
    | .sub _ => true)

theorem storedOkB_spec (s : Sequence) (h : storedOkB s = true) :
    ∀ p e ch ent, Dict.get? s.data p = some (.el e) → Dict.get? e.chans ch = some ent → entOkB ent = true := by
  intro p e ch ent hp hent
  unfold storedOkB at h
  rw [List.all_eq_true] at h
  have h1 := h (p, .el e) (Dict.mem_of_get?_eq_some _ _ hp)
  simp only at h1
  rw [List.all_eq_true] at h1
  exact h1 (ch, ent) (Dict.mem_of_get?_eq_some _ _ hent)

end G3
end BB
