/-
  BB.Proofs.G8El2 — the Element programs never fault on well-formed heaps.
-/
import BB.Proofs.G8El

namespace BB.Heap

/-! ### allocation and writes with the new heap kept abstract -/

theorem runs_new {base : Nat} {r : Owner} {h : Heap} {k : Kind} {slots : List (String × Slot)}
    {Q : Addr → Heap → Prop} (hg : Good h) (hso : slotsOk h k r slots = true) (hco : cellOk h k slots = true)
    (hq : ∀ h' : Heap, Evo r pNone h h' → h'[h.length]? = some ⟨k, r, slots⟩ → Q h.length h') :
    Runs base r (palloc k slots) h Q := by
  apply runs_alloc hso
  exact hq _ (evo_alloc hg hso hco) (by simp)

theorem runs_put {base : Nat} {r : Owner} {h : Heap} {a : Addr} {c : Cell} {slots : List (String × Slot)}
    {P : Addr → Kind → Bool} {Q : Unit → Heap → Prop} (hg : Good h) (hc : h[a]? = some c)
    (hw : writable r c = true) (hb : base ≤ a ∨ c.kind = .cache) (hso : slotsOk h c.kind c.owner slots = true)
    (hco : cellOk h c.kind slots = true) (hp : P a c.kind = true)
    (hq : ∀ h' : Heap, Evo r P h h' → h'[a]? = some { c with slots := slots } →
      (∀ x, x ≠ a → h'[x]? = h[x]?) → Q () h') :
    Runs base r (pwrite a slots) h Q := by
  apply runs_write hc hw hb hso
  refine hq _ (evo_write hg hc hw hso hco hp) (by simp [lt_of_get hc]) ?_
  intro x hx
  rw [List.getElem?_set_ne (Ne.symm hx)]

theorem runs_upsert {base : Nat} {r : Owner} {h : Heap} {a : Addr} {c : Cell} {k : String} {v : Slot}
    {P : Addr → Kind → Bool} {Q : Unit → Heap → Prop} (hg : Good h) (hc : h[a]? = some c)
    (hw : writable r c = true) (hb : base ≤ a ∨ c.kind = .cache)
    (hso : slotsOk h c.kind c.owner [(k, v)] = true) (hco : slotOkT h c.kind (k, v) = true)
    (hk : fixedKeys c.kind = none ∨ k ∈ c.slots.map (·.1)) (hp : P a c.kind = true)
    (hq : ∀ h' : Heap, Evo r P h h' → h'[a]? = some { c with slots := upsertSlot c.slots k v } →
      (∀ x, x ≠ a → h'[x]? = h[x]?) → Q () h') :
    Runs base r (setKey a k v) h Q := by
  unfold setKey
  apply runs_bind
  apply runs_cellAt hc
  exact runs_put hg hc hw hb (slotsOk_upsertSlot (hg.closed a c hc) hso)
    (cellOk_upsertSlot (hg.typed a c hc) hco hk) hp hq

theorem is_new {h : Heap} {a : Addr} {k : Kind} {r : Owner} {slots : List (String × Slot)}
    (hc : h[a]? = some ⟨k, r, slots⟩) : Is h a k r := ⟨_, hc, rfl, rfl⟩

theorem Is.sub {h h' : Heap} (s : Sub h h') {a : Addr} {k : Kind} {r : Owner} (hi : Is h a k r) : Is h' a k r :=
  let ⟨c, h1, h2, h3⟩ := hi; ⟨c, s a c h1, h2, h3⟩

theorem Is.writable {h : Heap} {a : Addr} {k : Kind} {r : Owner} {c : Cell} (hc : h[a]? = some c) (hi : Is h a k r)
    (hf : k.frozen = false) : writable r c = true := by
  obtain ⟨c', h1, h2, h3⟩ := hi
  rw [hc] at h1; cases h1
  simp [BB.Heap.writable, h2, hf, h3]

theorem slotsOk_one_own {h : Heap} {k : Kind} {r : Owner} {key : String} {b : Addr} {kb : Kind}
    (hf : k.frozen = false) (hb : Is h b kb r) : slotsOk h k r [(key, .ref b)] = true := by
  obtain ⟨cb, h1, _, h3⟩ := hb
  apply slotsOk_intro hf
  intro ks hks
  simp only [List.mem_singleton] at hks
  subst hks
  exact refOk_own h1 h3

theorem slotOkT_is {h : Heap} {k : Kind} {key : String} {b : Addr} {kb : Kind} {r : Owner} (hb : Is h b kb r)
    (ha : allowed k key (some kb) = true) : slotOkT h k (key, .ref b) = true := by
  obtain ⟨cb, h1, h2, _⟩ := hb
  exact slotOkT_ref h1 (by rw [h2]; exact ha)

theorem slotsOk_nil (h : Heap) (k : Kind) (r : Owner) : slotsOk h k r [] = true := by simp [slotsOk]

/-- an element object over its two parts -/
theorem elObj_ok {h : Heap} {r : Owner} {d m : Addr} (hd : Is h d .elData r) (hm : Is h m .cache r) :
    slotsOk h .elObj r [("_data", .ref d), ("_meta", .ref m)] = true ∧
    cellOk h .elObj [("_data", .ref d), ("_meta", .ref m)] = true := by
  constructor
  · apply slotsOk_intro rfl
    intro ks hks
    simp only [List.mem_cons, List.mem_nil_iff, or_false] at hks
    obtain ⟨cd, hd1, _, hd3⟩ := hd
    obtain ⟨cm, hm1, _, hm3⟩ := hm
    rcases hks with hks | hks
    · subst hks; exact refOk_own hd1 hd3
    · subst hks; exact refOk_own hm1 hm3
  · apply cellOk_intro (by simp [keysOk, fixedKeys])
    intro ks hks
    simp only [List.mem_cons, List.mem_nil_iff, or_false] at hks
    rcases hks with hks | hks
    · subst hks; exact slotOkT_is hd (by simp [allowed])
    · subst hks; exact slotOkT_is hm (by simp [allowed])

/-! ### `Element()` -/

/-- **`Element()` never faults** -/
theorem elNew_spec {base : Nat} {r : Owner} {h : Heap} (hg : Good h) :
    Runs base r elNew h (fun e h' => h.length ≤ e ∧ Evo r pNone h h' ∧ Is h' e .elObj r) := by
  unfold elNew
  apply runs_bind
  apply runs_new hg (slotsOk_nil _ _ _) (by simp [cellOk, keysOk, fixedKeys])
  intro h1 e1 hd
  apply runs_bind
  apply runs_new e1.good (slotsOk_nil _ _ _) (by simp [cellOk, keysOk, fixedKeys])
  intro h2 e2 hm
  have hd2 : Is h2 h.length .elData r := (is_new hd).sub e2.sub
  obtain ⟨hso, hco⟩ := elObj_ok hd2 (is_new hm)
  apply runs_new e2.good hso hco
  intro h3 e3 he
  exact ⟨Nat.le_trans e1.len e2.len, (e1.trans e2).trans e3, is_new he⟩

/-! ### storing a channel -/

/-- `self._data[ch] = chan` for a fresh channel dict -/
theorem storeChan_spec {r : Owner} {h : Heap} {e : Addr} (ch : String) {chan : Addr} (hg : Good h)
    (he : Is h e .elObj r) (hchan : Is h chan .elChan r) :
    Runs 0 r (do let d ← refAt e "_data"; setKey d ch (.ref chan)) h (fun _ h' => Evo r pLow h h') := by
  obtain ⟨d, m, parts⟩ := el_parts hg he
  apply runs_bind
  apply runs_follow parts.data
  obtain ⟨cd, hcd, hkd, hod⟩ := parts.isData
  apply runs_upsert (P := pLow) hg hcd (Is.writable hcd parts.isData rfl) (Or.inl (Nat.zero_le _))
  · rw [hkd, hod]; exact slotsOk_one_own rfl hchan
  · rw [hkd]; exact slotOkT_is hchan (by simp [allowed])
  · left; rw [hkd]; rfl
  · simp [hkd, Kind.isSeq]
  · intro h' e' _ _; exact e'

/-- **`Element.addBluePrint` never faults**: a copy of the blueprint in a new channel dict -/
theorem elAddBP_spec {r : Owner} {h : Heap} {e b : Addr} (ch : String) (hg : Good h)
    (he : Is h e .elObj r) (hb : IsK h b .bpObj) :
    Runs 0 r (elAddBP e ch b) h (fun _ h' => Evo r pLow h h') := by
  unfold elAddBP
  obtain ⟨cb, hcb, hkb⟩ := hb
  apply runs_bind
  apply runs_mono (bpCopy_spec hg hcb hkb)
  intro b' h1 ⟨hfresh, e1, hcopy⟩
  obtain ⟨cb0, cb', hcb0, hcb', hkb'⟩ := hcopy.kind
  have hcb1 : h1[b]? = some cb := e1.sub b cb hcb
  rw [hcb1] at hcb0; cases hcb0
  have hb' : Is h1 b' .bpObj r := ⟨cb', hcb', hkb'.trans hkb, e1.new b' cb' hfresh hcb'⟩
  apply runs_bind
  apply runs_new e1.good (slotsOk_one_own rfl hb')
    (cellOk_intro (by simp [keysOk, fixedKeys]) (fun ks hks => by
      simp only [List.mem_singleton] at hks; subst hks; exact slotOkT_is hb' (by simp [allowed])))
  intro h2 e2 hchan
  have he2 : Is h2 e .elObj r := (he.sub e1.sub).sub e2.sub
  apply runs_mono (storeChan_spec ch e2.good he2 (is_new hchan))
  intro _ h3 e3
  exact (e1.low_of_none.trans e2.low_of_none).trans e3

/-- **`Element.addArray` never faults**: new arrays, a new array dict, a new channel dict -/
theorem elAddArray_spec {r : Owner} {h : Heap} {e : Addr} (tok : Nat) (ch : String) (names : List String)
    (hg : Good h) (he : Is h e .elObj r) :
    Runs 0 r (elAddArray tok e ch names) h (fun _ h' => Evo r pLow h h') := by
  unfold elAddArray
  apply runs_bind
  refine runs_mono (runs_foldlM _ (fun _ acc h1 => Evo r pNone h h1 ∧
      (∀ ks ∈ acc, ∃ a, ks.2 = Slot.ref a ∧ Is h1 a .ndarray r)) names [] [] h ⟨Evo.refl hg, by simp⟩ ?_) ?_
  · intro d x rest acc h1 _ ⟨hevo, hslots⟩
    apply runs_bind
    have himm : ∀ ks ∈ [("", Slot.imm tok)], ∃ t, ks.2 = Slot.imm t := by
      intro ks hks; simp only [List.mem_singleton] at hks; subst hks; exact ⟨tok, rfl⟩
    apply runs_new hevo.good (slotsOk_imm himm) (cellOk_flat rfl himm)
    intro h2 e2 ha
    apply runs_pure
    refine ⟨hevo.trans e2, ?_⟩
    intro ks hks
    simp only [List.mem_append, List.mem_singleton] at hks
    rcases hks with hks | hks
    · obtain ⟨a, h1', h2'⟩ := hslots ks hks
      exact ⟨a, h1', h2'.sub e2.sub⟩
    · subst hks; exact ⟨h1.length, rfl, is_new ha⟩
  · intro arrs h1 ⟨e1, hslots⟩
    apply runs_bind
    have hso : slotsOk h1 .arrDict r arrs = true := by
      apply slotsOk_intro rfl
      intro ks hks
      obtain ⟨a, ha, ca, hca, hka, _⟩ := hslots ks hks
      rw [ha]; exact refOk_frozen hca (by rw [hka]; rfl)
    have hco : cellOk h1 .arrDict arrs = true := by
      apply cellOk_intro (by simp [keysOk, fixedKeys])
      intro ks hks
      obtain ⟨a, ha, hia⟩ := hslots ks hks
      obtain ⟨key, s⟩ := ks
      simp only at ha; subst ha
      exact slotOkT_is hia (by simp [allowed])
    apply runs_new e1.good hso hco
    intro h2 e2 had
    apply runs_bind
    have had' : Is h2 h1.length .arrDict r := is_new had
    have hso2 : slotsOk h2 .elChan r [("array", .ref h1.length), ("SR", .imm tok)] = true := by
      apply slotsOk_intro rfl
      intro ks hks
      simp only [List.mem_cons, List.mem_nil_iff, or_false] at hks
      rcases hks with hks | hks
      · subst hks; exact refOk_own had rfl
      · subst hks; rfl
    have hco2 : cellOk h2 .elChan [("array", .ref h1.length), ("SR", .imm tok)] = true := by
      apply cellOk_intro (by simp [keysOk, fixedKeys])
      intro ks hks
      simp only [List.mem_cons, List.mem_nil_iff, or_false] at hks
      rcases hks with hks | hks
      · subst hks; exact slotOkT_is had' (by simp [allowed])
      · subst hks; exact slotOkT_imm (by simp [allowed])
    apply runs_new e2.good hso2 hco2
    intro h3 e3 hchan
    have he3 : Is h3 e .elObj r := ((he.sub e1.sub).sub e2.sub).sub e3.sub
    apply runs_mono (storeChan_spec ch e3.good he3 (is_new hchan))
    intro _ h4 e4
    exact ((e1.low_of_none.trans e2.low_of_none).trans e3.low_of_none).trans e4

/-- a refused `addArray` (the channel was wiped before the length check) never faults either -/
theorem elAddArrayBroken_spec {r : Owner} {h : Heap} {e : Addr} (ch : String) (hg : Good h) (he : Is h e .elObj r) :
    Runs 0 r (elAddArrayBroken e ch) h (fun _ h' => Evo r pLow h h') := by
  unfold elAddArrayBroken
  apply runs_bind
  apply runs_new hg (slotsOk_nil _ _ _) (by simp [cellOk, keysOk, fixedKeys])
  intro h1 e1 had
  have had' : Is h1 h.length .arrDict r := is_new had
  apply runs_bind
  apply runs_new e1.good (slotsOk_one_own rfl had')
    (cellOk_intro (by simp [keysOk, fixedKeys]) (fun ks hks => by
      simp only [List.mem_singleton] at hks; subst hks; exact slotOkT_is had' (by simp [allowed])))
  intro h2 e2 hchan
  have he2 : Is h2 e .elObj r := (he.sub e1.sub).sub e2.sub
  apply runs_mono (storeChan_spec ch e2.good he2 (is_new hchan))
  intro _ h3 e3
  exact (e1.low_of_none.trans e2.low_of_none).trans e3

/-! ### paths -/

theorem followPath_cons {h : Heap} {a : Addr} {k : String} {ks : List String} {x : Addr}
    (hp : followPath h a (k :: ks) = some x) : ∃ b, follow h a k = some b ∧ followPath h b ks = some x := by
  simp only [followPath] at hp
  split at hp
  · rename_i b hb; exact ⟨b, hb, hp⟩
  · cases hp

theorem followPath_nil {h : Heap} {a x : Addr} (hp : followPath h a [] = some x) : x = a := by
  simp only [followPath, Option.some.injEq] at hp; exact hp.symm

/-- the channel dict of an element's channel -/
theorem el_chan {h : Heap} (hg : Good h) {e : Addr} {r : Owner} (he : Is h e .elObj r) {ch : String} {chan : Addr}
    (hp : followPath h e ["_data", ch] = some chan) :
    ∃ d, follow h e "_data" = some d ∧ follow h d ch = some chan ∧ Is h d .elData r ∧ Is h chan .elChan r := by
  obtain ⟨d, hd, hp2⟩ := followPath_cons hp
  obtain ⟨c2, hc2, hp3⟩ := followPath_cons hp2
  cases followPath_nil hp3
  have hid : Is h d .elData r := is_follow hg he hd (fun kk hal => by simpa [allowed] using hal) rfl
  exact ⟨d, hd, hc2, hid, is_follow hg hid hc2 (fun kk hal => by simpa [allowed] using hal) rfl⟩

/-- **`Element.addFlags` never faults** on an existing channel -/
theorem elAddFlags_spec {r : Owner} {h : Heap} {e : Addr} (tok : Nat) (ch : String) (hg : Good h)
    (he : Is h e .elObj r) (hch : ∃ chan, followPath h e ["_data", ch] = some chan) :
    Runs 0 r (elAddFlags tok e ch) h (fun _ h' => Evo r pLow h h') := by
  unfold elAddFlags
  obtain ⟨chan, hp⟩ := hch
  obtain ⟨d, hd, hc, _, hichan⟩ := el_chan hg he hp
  apply runs_bind
  apply runs_follow hd
  apply runs_bind
  apply runs_follow hc
  apply runs_bind
  have himm : ∀ ks ∈ [("", Slot.imm tok)], ∃ t, ks.2 = Slot.imm t := by
    intro ks hks; simp only [List.mem_singleton] at hks; subst hks; exact ⟨tok, rfl⟩
  apply runs_new hg (slotsOk_imm himm) (cellOk_flat rfl himm)
  intro h1 e1 hfl
  have hfl' : Is h1 h.length .flags r := is_new hfl
  have hichan1 := hichan.sub e1.sub
  obtain ⟨cc, hcc, hkc, hoc⟩ := hichan1
  apply runs_upsert (P := pLow) e1.good hcc (Is.writable hcc ⟨cc, hcc, hkc, hoc⟩ rfl) (Or.inl (Nat.zero_le _))
  · rw [hkc, hoc]; exact slotsOk_one_own rfl hfl'
  · rw [hkc]; exact slotOkT_is hfl' (by simp [allowed])
  · left; rw [hkc]; rfl
  · simp [hkc, Kind.isSeq]
  · intro h2 e2 _ _
    exact e1.low_of_none.trans e2

/-! ### `Element.copy()` -/

theorem fits_low {h : Heap} (hg : Good h) {a : Addr} {k : Kind} (hi : IsK h a k) (hs : k.isSeq = false) :
    Fits depth h a := by
  obtain ⟨c, hc, hk⟩ := hi
  apply fits_of_rank hg.typed depth a c hc (by rw [hk]; exact hs)
  rw [hk]
  revert hs
  cases k <;> simp [rank, depth, Kind.isSeq]

/-- **`Element.copy()` never faults**: deep copies of the channel store and of the cache under
    a new object; the copy unfolds to the same tree as the source -/
theorem elCopy_spec {base : Nat} {r : Owner} {h : Heap} {e : Addr} (hg : Good h) (he : IsK h e .elObj) :
    Runs base r (elCopy e) h (fun e' h' => h.length ≤ e' ∧ Evo r pNone h h' ∧ Is h' e' .elObj r ∧
      CopyRel h' (depth + 1) e e') := by
  unfold elCopy
  obtain ⟨ce, hce, hke⟩ := he
  obtain ⟨d, m, parts⟩ := el_parts hg (r := ce.owner) ⟨ce, hce, hke, rfl⟩
  apply runs_bind
  apply runs_follow parts.data
  apply runs_bind
  apply runs_follow parts.cache
  apply runs_bind
  apply runs_mono (deepCopyAddr_spec h d hg (fits_low hg parts.isData.isK rfl))
  intro d' h1 ⟨hfd, e1, hcd⟩
  apply runs_bind
  apply runs_mono (deepCopyAddr_spec h1 m e1.good (fits_low e1.good (parts.isCache.sub e1.sub).isK rfl))
  intro m' h2 ⟨hfm, e2, hcm⟩
  have hd' : Is h2 d' .elData r := by
    obtain ⟨c0, c0', x1, x2, x3⟩ := hcd.kind
    obtain ⟨c1, y1, y2, _⟩ := parts.isData.sub e1.sub
    rw [x1] at y1; cases y1
    exact (Is.sub e2.sub ⟨c0', x2, x3.trans y2, e1.new d' c0' hfd x2⟩)
  have hm' : Is h2 m' .cache r := by
    obtain ⟨c0, c0', x1, x2, x3⟩ := hcm.kind
    obtain ⟨c1, y1, y2, _⟩ := (parts.isCache.sub e1.sub).sub e2.sub
    rw [x1] at y1; cases y1
    exact ⟨c0', x2, x3.trans y2, e2.new m' c0' hfm x2⟩
  obtain ⟨hso, hco⟩ := elObj_ok hd' hm'
  apply runs_new e2.good hso hco
  intro h3 e3 hnew
  refine ⟨Nat.le_trans e1.len e2.len, (e1.trans e2).trans e3, is_new hnew, ?_⟩
  have hce3 : h3[e]? = some ce := e3.sub e ce (e2.sub e ce (e1.sub e ce hce))
  refine ⟨ce, _, hce3, hnew, hke.symm, ?_⟩
  rw [el_slots hg hce hke parts.data parts.cache]
  simp only [SlotsRel]
  exact ⟨trivial, ⟨d', rfl, (hcd.sub e2.sub).sub e3.sub⟩, trivial, ⟨m', rfl, hcm.sub e3.sub⟩, trivial⟩

/-! ### mutating a stored blueprint, validating -/

/-- the blueprint of an element's blueprint channel -/
theorem el_bp {h : Heap} (hg : Good h) {e : Addr} {r : Owner} (he : Is h e .elObj r) {ch : String} {b : Addr}
    (hp : followPath h e ["_data", ch, "blueprint"] = some b) :
    ∃ d chan, follow h e "_data" = some d ∧ follow h d ch = some chan ∧ follow h chan "blueprint" = some b ∧
      Is h b .bpObj r := by
  obtain ⟨d, hd, hp2⟩ := followPath_cons hp
  obtain ⟨chan, hc2, hp3⟩ := followPath_cons hp2
  obtain ⟨b', hb, hp4⟩ := followPath_cons hp3
  cases followPath_nil hp4
  have hid : Is h d .elData r := is_follow hg he hd (fun kk hal => by simpa [allowed] using hal) rfl
  have hic : Is h chan .elChan r := is_follow hg hid hc2 (fun kk hal => by simpa [allowed] using hal) rfl
  exact ⟨d, chan, hd, hc2, hb, is_follow hg hic hb (fun kk hal => by simpa [allowed] using hal) rfl⟩

/-- **`Element.changeArg / changeDuration` never fault** on a blueprint channel -/
theorem elMutateBP_spec {r : Owner} {h : Heap} {e : Addr} (tok : Nat) (ch : String) (hg : Good h)
    (he : Is h e .elObj r) (hch : ∃ b, followPath h e ["_data", ch, "blueprint"] = some b) :
    Runs 0 r (elMutateBP tok e ch) h (fun _ h' => Evo r pLeaf h h') := by
  unfold elMutateBP
  obtain ⟨b, hp⟩ := hch
  obtain ⟨d, chan, hd, hc, hb, ⟨cb, hcb, hkb, hob⟩⟩ := el_bp hg he hp
  apply runs_bind
  apply runs_follow hd
  apply runs_bind
  apply runs_follow hc
  apply runs_bind
  apply runs_follow hb
  exact runs_mono (bpMutate_spec tok hg hcb hkb hob) (fun _ _ e1 => e1.leaf_of_bp)

/-- **`validateDurations()` and the queries that call it never fault**, on anybody's element:
    only the validation cache is written -/
theorem elValidate_spec {base : Nat} {r : Owner} {h : Heap} {e : Addr} (tok : Nat) (hg : Good h)
    (he : IsK h e .elObj) : Runs base r (elValidate tok e) h (fun _ h' => Evo r pLeaf h h') := by
  unfold elValidate
  obtain ⟨ce, hce, hke⟩ := he
  obtain ⟨d, m, parts⟩ := el_parts hg (r := ce.owner) ⟨ce, hce, hke, rfl⟩
  apply runs_bind
  apply runs_follow parts.cache
  obtain ⟨cm, hcm, hkm, _⟩ := parts.isCache
  have himm : ∀ ks ∈ [("SR", Slot.imm tok), ("duration", Slot.imm tok)], ∃ t, ks.2 = Slot.imm t := by
    intro ks hks
    simp only [List.mem_cons, List.mem_nil_iff, or_false] at hks
    rcases hks with hks | hks <;> subst hks <;> exact ⟨tok, rfl⟩
  apply runs_put (P := pLeaf) hg hcm (by simp [writable, hkm, Kind.frozen]) (Or.inr hkm) (slotsOk_imm himm)
    (by rw [hkm]; exact cellOk_flat rfl himm) (by simp [hkm, Kind.isPath])
  intro h' e' _ _
  exact e'

end BB.Heap
