/-
  BB.Proofs.G3Sort — `sortBy` over any linear order is insertion sort, hence insensitive to the
  order of its input; `_channelListSorter` compares two channel lists equal exactly when they are
  permutations of each other.
-/
import Mathlib.Data.List.Sort
import Mathlib.Data.List.Perm.Basic
import Mathlib.Data.String.Basic
import BB.Proofs.Consistent

namespace BB
namespace G3

theorem insertSorted_eq_lin {α : Type} [LinearOrder α] (x : α) (l : List α) :
    insertSorted (fun a b => decide (a ≤ b)) x l = l.orderedInsert (· ≤ ·) x := by
  induction l with
  | nil => rfl
  | cons y ys ih =>
    simp only [insertSorted, List.orderedInsert_cons, decide_eq_true_eq]
    split
    · rfl
    · rw [ih]

theorem sortBy_eq_lin {α : Type} [LinearOrder α] (l : List α) :
    sortBy (fun a b => decide (a ≤ b)) l = l.insertionSort (· ≤ ·) := by
  induction l with
  | nil => rfl
  | cons x xs ih =>
    simp only [sortBy, List.foldr_cons, List.insertionSort_cons] at *
    rw [ih, insertSorted_eq_lin]

theorem sortBy_sorted_lin {α : Type} [LinearOrder α] (l : List α) :
    (sortBy (fun a b => decide (a ≤ b)) l).Pairwise (· ≤ ·) := by
  rw [sortBy_eq_lin]; exact List.pairwise_insertionSort _ l

/-- sorting (ints or strings) is insensitive to the order of its input -/
theorem sortBy_of_perm_lin {α : Type} [LinearOrder α] {l₁ l₂ : List α} (h : l₁.Perm l₂) :
    sortBy (fun a b => decide (a ≤ b)) l₁ = sortBy (fun a b => decide (a ≤ b)) l₂ := by
  apply List.Perm.eq_of_pairwise' (r := (· ≤ ·)) (sortBy_sorted_lin _) (sortBy_sorted_lin _)
  exact (sortBy_perm' _ l₁).trans (h.trans (sortBy_perm' _ l₂).symm)

/-- `_channelListSorter` gives the same list for two channel lists that are permutations of each
    other -/
theorem channelListSorter_of_perm {a b : List Chan} (h : a.Perm b) :
    channelListSorter a = channelListSorter b := by
  unfold channelListSorter
  simp only
  rw [sortBy_of_perm_lin (h.filterMap _), sortBy_of_perm_lin (α := String) (h.filterMap _)]

/-- ... and only for those -/
theorem perm_of_channelListSorter_eq {a b : List Chan} (h : channelListSorter a = channelListSorter b) :
    a.Perm b :=
  (channelListSorter_perm a).symm.trans (h ▸ channelListSorter_perm b)

end G3
end BB
