/-
  BB.Proofs.G2Blueprint — helper lemmas for property C05: name lookup, the `changeArg` loop with
  `replaceeverywhere`, single-target edits as `List.set`.
-/
import BB.Proofs.Blueprint

namespace BB.G2
open BB BB.BP

theorem names_length (b : BP) : b.names.length = b.segs.length := by simp [names]

theorem mem_names_of_mem_segs (b : BP) (s : Seg) (h : s ∈ b.segs) : s.name ∈ b.names := by
  unfold names
  exact List.mem_map_of_mem h

/-- `_namelist.index(name)` raises exactly when the name is absent -/
theorem indexOf?_eq_none_iff (b : BP) (name : String) : b.indexOf? name = none ↔ name ∉ b.names := by
  unfold indexOf?
  simp only
  rw [← names_length]
  constructor
  · intro h hm
    have := List.idxOf_lt_length_iff.mpr hm
    simp [this] at h
  · intro h
    have : ¬ (List.idxOf name b.names < b.names.length) := fun hc => h (List.idxOf_lt_length_iff.mp hc)
    simp [this]

/-- `_namelist.index(name)` returns a position holding that name -/
theorem indexOf?_some (b : BP) (name : String) (i : Nat) (h : b.indexOf? name = some i) :
    ∃ hi : i < b.segs.length, (b.segs[i]).name = name := by
  unfold indexOf? at h
  simp only at h
  split at h
  · rename_i hlt
    simp only [Option.some.injEq] at h
    subst h
    refine ⟨hlt, ?_⟩
    have hl : List.idxOf name b.names < b.names.length := by rw [names_length]; exact hlt
    have h1 : b.names[List.idxOf name b.names]'hl = name := List.getElem_idxOf hl
    rw [← names_getElem b _ hlt]; exact h1
  · simp at h

/-- with pairwise distinct names, `_namelist.index` finds exactly the segment of that name -/
theorem indexOf?_of_nodup (b : BP) (hnd : b.names.Nodup) (i : Nat) (hi : i < b.segs.length) :
    b.indexOf? (b.segs[i]).name = some i := by
  unfold indexOf?
  simp only
  have hi' : i < b.names.length := by rw [names_length]; exact hi
  have e : b.names[i] = (b.segs[i]).name := by simp [names]
  have := hnd.idxOf_getElem i hi'
  rw [e] at this
  simp [this, hi]

theorem indexOf?_iff_of_nodup (b : BP) (hnd : b.names.Nodup) (name : String) (i : Nat) :
    b.indexOf? name = some i ↔ ∃ hi : i < b.segs.length, (b.segs[i]).name = name := by
  constructor
  · exact indexOf?_some b name i
  · rintro ⟨hi, rfl⟩
    exact indexOf?_of_nodup b hnd i hi

theorem mem_names_iff_indexOf? (b : BP) (name : String) :
    name ∈ b.names ↔ ∃ i, b.indexOf? name = some i := by
  constructor
  · intro h
    cases hx : b.indexOf? name with
    | none => exact absurd h ((indexOf?_eq_none_iff b name).mp hx)
    | some i => exact ⟨i, rfl⟩
  · rintro ⟨i, hi⟩
    apply Classical.byContradiction
    intro hn
    rw [(indexOf?_eq_none_iff b name).mpr hn] at hi
    simp at hi

/-! ### a name-keyed `modify` is a `map` when names are distinct -/

theorem modify_eq_map_of_nodup (l : List Seg) (hnd : (l.map (·.name)).Nodup) (i : Nat) (hi : i < l.length)
    (f : Seg → Seg) :
    l.modify i f = l.map (fun s => if s.name = (l[i]).name then f s else s) := by
  induction l generalizing i with
  | nil => simp at hi
  | cons a t ih =>
    simp only [List.map_cons, List.nodup_cons, List.mem_map, not_exists, not_and] at hnd
    cases i with
    | zero =>
      simp only [List.modify_zero_cons, List.getElem_cons_zero, List.map_cons, if_true, List.cons.injEq,
        true_and]
      symm
      calc t.map (fun s => if s.name = a.name then f s else s)
          = t.map (fun s => s) := by
            apply List.map_congr_left
            intro s hs
            have : s.name ≠ a.name := hnd.1 s hs
            simp [this]
        _ = t := by simp
    | succ i =>
      have hi' : i < t.length := by simpa using hi
      have hne : a.name ≠ (t[i]).name := fun e => hnd.1 (t[i]) (List.getElem_mem _) e.symm
      simp only [List.modify_succ_cons, List.getElem_cons_succ, List.map_cons, hne, if_false,
        List.cons.injEq, true_and]
      exact ih hnd.2 i hi'

theorem modify_eq_set (l : List Seg) (i : Nat) (hi : i < l.length) (f : Seg → Seg) :
    l.modify i f = l.set i (f l[i]) := by
  induction l generalizing i with
  | nil => simp at hi
  | cons a t ih =>
    cases i with
    | zero => simp
    | succ i => simp [ih i (by simpa using hi)]

/-! ### `changeArg` on several segments -/

/-- what `changeArg` does to one addressed segment: resolve `arg` against the segment's own
    signature and overwrite that argument -/
def setArgOf (arg value : Val) (s : Seg) : Seg :=
  match argIndex s arg with
  | .ok k => setArg k value s
  | .error _ => s

/-- the loop body of `changeArg` does not raise on this segment: the function is a callable,
    the argument resolves against its signature and the position exists in the argument tuple -/
def argOk (arg : Val) (s : Seg) : Bool :=
  !s.fn.special && (match argIndex s arg with
    | .ok k => decide (k < s.args.length)
    | .error _ => false)

theorem setArgOf_name (arg value : Val) (s : Seg) : (setArgOf arg value s).name = s.name := by
  unfold setArgOf; split <;> rfl

theorem argOk_iff (arg : Val) (s : Seg) :
    argOk arg s = true ↔ s.fn.special = false ∧ ∃ k, argIndex s arg = .ok k ∧ k < s.args.length := by
  unfold argOk
  cases h : argIndex s arg with
  | ok k => simp
  | error e => simp

/-- one loop step on an existing name -/
theorem changeArgOne_of_index (b : BP) (nm : String) (arg value : Val) (i : Nat) (hi : i < b.segs.length)
    (hidx : b.indexOf? nm = some i) :
    (argOk arg b.segs[i] = true →
        b.changeArgOne nm arg value = ⟨b.modifySeg i (setArgOf arg value), none⟩) ∧
    (argOk arg b.segs[i] = false →
        (b.changeArgOne nm arg value).err ≠ none ∧ (b.changeArgOne nm arg value).st = b) := by
  have hget : b.segs[i]? = some b.segs[i] := List.getElem?_eq_getElem hi
  constructor
  · intro hok
    obtain ⟨hsp, k, hk, hlt⟩ := (argOk_iff arg _).mp hok
    unfold changeArgOne
    simp only [hidx, hget, hsp, Bool.false_eq_true, if_false, hk, hlt, if_true]
    unfold modifySeg
    congr 2
    rw [modify_eq_set _ _ hi, modify_eq_set _ _ hi]
    simp [setArgOf, hk]
  · intro hbad
    unfold changeArgOne
    simp only [hidx, hget]
    unfold argOk at hbad
    by_cases hsp : (b.segs[i]).fn.special = true
    · simp [hsp]
    · have hsp' : (b.segs[i]).fn.special = false := by simpa using hsp
      simp only [hsp', Bool.false_eq_true, if_false]
      cases hk : argIndex b.segs[i] arg with
      | error e => simp
      | ok k =>
        simp only [hsp', Bool.not_false, hk, Bool.true_and, decide_eq_false_iff_not] at hbad
        simp [hbad]

/-- the whole loop over pairwise distinct existing names: it runs through iff every addressed
    segment passes, and then every addressed segment (and no other) had its argument set -/
theorem changeArgLoop_spec (b : BP) (hnd : b.names.Nodup) (l : List String) (hl : l.Nodup)
    (hsub : ∀ nm ∈ l, nm ∈ b.names) (arg value : Val) :
    ((b.changeArgLoop l arg value).err = none ↔ ∀ s ∈ b.segs, s.name ∈ l → argOk arg s = true) ∧
    ((b.changeArgLoop l arg value).err = none →
      (b.changeArgLoop l arg value).st =
        { b with segs := b.segs.map (fun s => if s.name ∈ l then setArgOf arg value s else s) }) := by
  induction l generalizing b with
  | nil => simp [changeArgLoop]
  | cons nm rest ih =>
    obtain ⟨i, hidx⟩ := (mem_names_iff_indexOf? b nm).mp (hsub nm (by simp))
    obtain ⟨hi, hname⟩ := indexOf?_some b nm i hidx
    have hstep := changeArgOne_of_index b nm arg value i hi hidx
    have hnr : nm ∉ rest := (List.nodup_cons.mp hl).1
    cases hok : argOk arg b.segs[i] with
    | false =>
      obtain ⟨herr, _⟩ := hstep.2 hok
      have hloop : (b.changeArgLoop (nm :: rest) arg value).err ≠ none := by
        unfold changeArgLoop
        generalize b.changeArgOne nm arg value = r at herr
        obtain ⟨st, err⟩ := r
        cases err with
        | none => exact absurd rfl herr
        | some e => simp
      constructor
      · constructor
        · intro h; exact absurd h hloop
        · intro h
          have := h b.segs[i] (List.getElem_mem _) (by simp [hname])
          rw [hok] at this
          exact absurd this (by simp)
      · intro h; exact absurd h hloop
    | true =>
      have hone := hstep.1 hok
      have hloop : b.changeArgLoop (nm :: rest) arg value =
          (b.modifySeg i (setArgOf arg value)).changeArgLoop rest arg value := by
        conv => lhs; unfold changeArgLoop
        rw [hone]
      obtain ⟨b1, hb1⟩ : ∃ b1, b1 = b.modifySeg i (setArgOf arg value) := ⟨_, rfl⟩
      rw [← hb1] at hloop
      have hsegs1 : b1.segs = b.segs.map (fun s => if s.name = nm then setArgOf arg value s else s) := by
        rw [hb1]
        unfold modifySeg
        simp only
        rw [modify_eq_map_of_nodup b.segs (by simpa [names] using hnd) i hi, hname]
      have hnames1 : b1.names = b.names := by
        unfold names
        rw [hb1]
        exact modify_names _ _ _ (setArgOf_name arg value)
      have ih1 := ih b1 (by rw [hnames1]; exact hnd) (List.nodup_cons.mp hl).2
        (by intro n hn; rw [hnames1]; exact hsub n (by simp [hn]))
      rw [hloop]
      have hcond : (∀ s ∈ b1.segs, s.name ∈ rest → argOk arg s = true) ↔
          (∀ s ∈ b.segs, s.name ∈ nm :: rest → argOk arg s = true) := by
        rw [hsegs1]
        constructor
        · intro h s hs hmem
          by_cases e : s.name = nm
          · -- the segment called nm is segment i
            have hi' : i < b.names.length := by rw [names_length]; exact hi
            obtain ⟨j, hj, rfl⟩ := List.getElem_of_mem hs
            have : j = i := by
              have ej : b.names[j]'(by rw [names_length]; exact hj) = b.names[i] := by
                simp only [names, List.getElem_map]
                rw [e, hname]
              exact (List.getElem_inj hnd).mp ej
            subst this
            exact hok
          · have hr : s.name ∈ rest := by
              rcases List.mem_cons.mp hmem with h1 | h1
              · exact absurd h1 e
              · exact h1
            have := h s (by
              rw [List.mem_map]
              exact ⟨s, hs, by simp [e]⟩) hr
            exact this
        · intro h s hs hmem
          rw [List.mem_map] at hs
          obtain ⟨s0, hs0, rfl⟩ := hs
          by_cases e : s0.name = nm
          · simp only [e, if_true] at hmem
            rw [setArgOf_name, e] at hmem
            exact absurd hmem hnr
          · simp only [e, if_false] at hmem ⊢
            exact h s0 hs0 (by simp [hmem])
      constructor
      · rw [ih1.1, hcond]
      · intro hacc
        rw [ih1.2 hacc, hsegs1]
        have : b1.marker1 = b.marker1 ∧ b1.marker2 = b.marker2 ∧ b1.SR = b.SR := by
          rw [hb1]; exact ⟨rfl, rfl, rfl⟩
        obtain ⟨e1, e2, e3⟩ := this
        have hlist : (b.segs.map (fun s => if s.name = nm then setArgOf arg value s else s)).map
              (fun s => if s.name ∈ rest then setArgOf arg value s else s) =
            b.segs.map (fun s => if s.name ∈ nm :: rest then setArgOf arg value s else s) := by
          rw [List.map_map]
          apply List.map_congr_left
          intro s _
          by_cases e : s.name = nm
          · simp only [Function.comp, e, if_true, List.mem_cons, true_or]
            rw [setArgOf_name, e]
            simp [hnr]
          · simp [Function.comp, e]
        rw [hlist]
        cases b1
        cases b
        simp_all

/-! ### the bare base name is always a name -/

theorem count_take_idxOf {α} [BEq α] [LawfulBEq α] (l : List α) (a : α) :
    (l.take (l.idxOf a)).count a = 0 := by
  induction l with
  | nil => simp
  | cons x t ih =>
    rw [List.idxOf_cons]
    by_cases hx : (x == a) = true
    · simp [hx]
    · simp only [hx, cond_false, List.take_succ_cons]
      rw [List.count_cons_of_ne (by simpa using hx)]
      exact ih

/-- in a canonically numbered name list the bare base name of every name is itself a name
    (it is what the first segment of that base is called) -/
theorem base_mem_names {b : BP} (hinv : BP.Inv b) (nm : String) (h : nm ∈ b.names) :
    basename nm ∈ b.names := by
  unfold BP.Inv at hinv
  generalize b.names = names at *
  obtain ⟨ns, hns⟩ : ∃ ns, ns = names.map String.toList := ⟨_, rfl⟩
  have hb : basenameL nm.toList ∈ ns.map basenameL := by
    rw [hns]
    simp only [List.map_map, List.mem_map, Function.comp]
    exact ⟨nm, h, rfl⟩
  have hi : (ns.map basenameL).idxOf (basenameL nm.toList) < (ns.map basenameL).length :=
    List.idxOf_lt_length_iff.mpr hb
  have hbi := List.getElem_idxOf hi
  generalize hidef : (ns.map basenameL).idxOf (basenameL nm.toList) = i at *
  have hi' : i < ns.length := by simpa using hi
  have key := makeNamesUniqueL_getElem ns i hi'
  have e1 : basenameL ns[i] = basenameL nm.toList := by simpa using hbi
  have hc : ((ns.map basenameL).take i).count (basenameL nm.toList) = 0 := by
    rw [← hidef]; exact count_take_idxOf _ _
  rw [e1, hc] at key
  simp only [renderL, if_true] at key
  rw [← hinv]
  unfold makeNamesUnique
  rw [← hns]
  exact List.mem_map.mpr ⟨_, List.getElem_mem _, by rw [key]; rfl⟩

end BB.G2
