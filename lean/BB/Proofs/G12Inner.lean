/-
  BB.Proofs.G12Inner — lifting element invariants to sequences: a property of elements that holds
  for everything the public element API builds (and does not look at the validation cache) holds
  for every element stored in a sequence the public sequence API builds — at an element position
  and inside every stored subsequence.  Also: the position store of an API-built sequence holds
  no position twice.
-/
import BB.Proofs.G11Elem
import BB.Model.Tools

namespace BB.G12
open BB

/-- every stored element - at an element position or inside a stored subsequence - satisfies `P` -/
def Inner (P : Element → Prop) (s : Sequence) : Prop :=
  ∀ x ∈ s.data, (∀ e, x.2 = .el e → P e) ∧ (∀ sub : SubSeq, x.2 = .sub sub → ∀ y ∈ sub.data, P y.2)

/-- helper: copying an entry (`+`) keeps its elements -/
theorem inner_copyEntry (P : Element → Prop) (en : Entry)
    (h : (∀ e, en = .el e → P e) ∧ (∀ sub : SubSeq, en = .sub sub → ∀ y ∈ sub.data, P y.2)) :
    (∀ e, Sequence.copyEntry en = .el e → P e) ∧
      (∀ sub : SubSeq, Sequence.copyEntry en = .sub sub → ∀ y ∈ sub.data, P y.2) := by
  cases en with
  | el e0 =>
    refine ⟨fun e he => ?_, fun sub hs => ?_⟩
    · simp only [Sequence.copyEntry] at he
      exact h.1 e he
    · simp [Sequence.copyEntry] at hs
  | sub s0 =>
    refine ⟨fun e he => ?_, fun sub hs => ?_⟩
    · simp [Sequence.copyEntry] at he
    · simp only [Sequence.copyEntry, Entry.sub.injEq] at hs
      subst hs
      exact h.2 s0 rfl

/-! ### one step of the public sequence API at a time -/

theorem inner_empty (P : Element → Prop) : Inner P ({} : Sequence) := by
  intro x hx; cases hx

/-- `addElement` (accepted or refused) of an element with `P` -/
theorem inner_addElement (P : Element → Prop) (hc : ∀ (e : Element) (c : Option (Val × ℚ)), P e → P { e with cache := c })
    {s : Sequence} (h : Inner P s) (pos : Int) (e : Element) (he : P e) : Inner P (s.addElement pos e).st := by
  unfold Sequence.addElement
  split
  · exact h
  · intro x hx
    simp only at hx
    rcases g4_mem_upsert_cases _ _ _ _ hx with hx | hx
    · rw [hx]
      refine ⟨fun e' he' => ?_, fun sub hs => by cases hs⟩
      simp only [Entry.el.injEq] at he'
      rw [← he']
      exact hc e _ he
    · exact h x hx

/-- `addSubSequence` (accepted or refused) of a sequence whose elements have `P` -/
theorem inner_addSubSequence (P : Element → Prop) {s sub : Sequence} (h : Inner P s) (hsub : Inner P sub)
    (pos : Int) : Inner P (s.addSubSequence pos sub).st := by
  unfold Sequence.addSubSequence
  split
  · exact h
  · rename_i d hd
    split
    · exact h
    · intro x hx
      simp only at hx
      rcases g4_mem_upsert_cases _ _ _ _ hx with hx | hx
      · rw [hx]
        refine ⟨fun e' he' => (by cases he'), fun sub' hs y hy => ?_⟩
        simp only [Entry.sub.injEq] at hs
        subst hs
        simp only [Sequence.storedSub] at hy
        have := G11.elementsOnly_mem sub.data d hd y hy
        exact (hsub _ this).1 y.2 rfl
      · exact h x hx

theorem inner_setFilter (P : Element → Prop) {s : Sequence} (h : Inner P s) (ch : Chan) (kind : String)
    (order : Int) (isInt : Bool) (fc tau : Val) :
    Inner P (s.setChannelFilterCompensation ch kind order isInt fc tau).st := by
  unfold SeqCore.setChannelFilterCompensation
  split
  · exact h
  · split
    · exact h
    · split <;> exact h

theorem inner_setSequencing (P : Element → Prop) {s : Sequence} (h : Inner P s) (pos : Int) (f : SeqSet → SeqSet) :
    Inner P (s.setSequencing pos f).st := by
  unfold SeqCore.setSequencing
  split <;> exact h

/-- `a + b` -/
theorem inner_add (P : Element → Prop) {a b c : Sequence} (ha : Inner P a) (hb : Inner P b)
    (hadd : a.add b = .ok c) : Inner P c := by
  unfold Sequence.add at hadd
  split at hadd
  · cases hadd
  · cases hadd
  · split at hadd
    · cases hadd
    · cases hadd
    · split at hadd
      · simp only [Except.ok.injEq] at hadd
        subst hadd
        intro x hx
        unfold Sequence.addCore at hx
        simp only at hx
        have hx' : x ∈ b.data.foldl (fun d (p : Int × Entry) => Dict.upsert d (p.1 + (a.data.length : Int)) (Sequence.copyEntry p.2))
            (a.data.map (fun (p : Int × Entry) => (p.1, Sequence.copyEntry p.2))) := hx
        rcases Sequence.g4_foldl_upsert_mem _ _ _ _ hx' with h | ⟨y, hy, hxy⟩
        · obtain ⟨z, hz, rfl⟩ := List.mem_map.mp h
          exact inner_copyEntry P z.2 (ha z hz)
        · rw [hxy]
          exact inner_copyEntry P y.2 (hb y hy)
      · cases hadd

/-- an edit of the stored element itself through `sequence.element(pos)` (`Tools.modifyElement`),
    by an element operation that keeps `P` -/
theorem inner_modifyElement (P : Element → Prop) {s : Sequence} (h : Inner P s) (pos : Int)
    (f : Element → Res Element) (hf : ∀ e, P e → P (f e).st) : Inner P (Tools.modifyElement s pos f).st := by
  unfold Tools.modifyElement
  split
  · rename_i e hg
    intro x hx
    simp only at hx
    rcases g4_mem_upsert_cases _ _ _ _ hx with hx | hx
    · rw [hx]
      refine ⟨fun e' he' => ?_, fun sub hs => by cases hs⟩
      simp only [Entry.el.injEq] at he'
      rw [← he']
      exact hf e ((h _ (Dict.mem_of_get?_eq_some pos _ hg)).1 e rfl)
    · exact h x hx
  · exact h
  · exact h

/-- **lifting**: a cache-blind property of API-built elements holds for every element stored
    (directly or inside a subsequence) in an API-built sequence -/
theorem apiBuilt_inner (P : Element → Prop) (hc : ∀ (e : Element) (c : Option (Val × ℚ)), P e → P { e with cache := c })
    (hP : ∀ e, Element.ApiBuilt e → P e) {s : Sequence} (h : Sequence.ApiBuilt s) : Inner P s := by
  induction h with
  | empty => exact inner_empty P
  | addElement s pos e _ he ih => exact inner_addElement P hc ih pos e (hP e he)
  | addSubSequence s pos sub _ _ ih ihsub => exact inner_addSubSequence P ih ihsub pos
  | setSpec s k v _ ih => exact ih
  | setFilter s ch kind order isInt fc tau _ ih => exact inner_setFilter P ih ch kind order isInt fc tau
  | setSequencing s pos f _ ih => exact inner_setSequencing P ih pos f
  | copy s _ ih => exact ih
  | add a b c _ _ hadd iha ihb => exact inner_add P iha ihb hadd

/-- helper: a fold of `upsert`s keeps "no key twice" -/
theorem wf_foldl_upsert {α β : Type} (l : List β) (k : β → Int) (v : β → α) (d : Dict Int α) (h : Dict.WF d) :
    Dict.WF (l.foldl (fun d p => Dict.upsert d (k p) (v p)) d) := by
  induction l generalizing d with
  | nil => exact h
  | cons x xs ih => exact ih _ (Dict.wf_upsert h _ _)

/-- **no position twice**: the store of a sequence the public API builds holds every position once -/
theorem apiBuilt_data_wf {s : Sequence} (h : Sequence.ApiBuilt s) : Dict.WF s.data := by
  induction h with
  | empty => exact Dict.wf_nil
  | addElement s pos e _ _ ih =>
    unfold Sequence.addElement
    split
    · exact ih
    · exact Dict.wf_upsert ih _ _
  | addSubSequence s pos sub _ _ ih _ =>
    unfold Sequence.addSubSequence
    split
    · exact ih
    · split
      · exact ih
      · exact Dict.wf_upsert ih _ _
  | setSpec s k v _ ih => exact ih
  | setFilter s ch kind order isInt fc tau _ ih =>
    unfold SeqCore.setChannelFilterCompensation
    split
    · exact ih
    · split
      · exact ih
      · split <;> exact ih
  | setSequencing s pos f _ ih =>
    unfold SeqCore.setSequencing
    split <;> exact ih
  | copy s _ ih => exact ih
  | add a b c _ _ hadd iha _ =>
    unfold Sequence.add at hadd
    split at hadd
    · cases hadd
    · cases hadd
    · split at hadd
      · cases hadd
      · cases hadd
      · split at hadd
        · simp only [Except.ok.injEq] at hadd
          subst hadd
          unfold Sequence.addCore
          simp only
          have h0 : Dict.WF (a.data.map (fun (p : Int × Entry) => (p.1, Sequence.copyEntry p.2))) := by
            unfold Dict.WF Dict.keys at *
            simpa [List.map_map, Function.comp_def] using iha
          exact wf_foldl_upsert b.data (fun p => p.1 + (a.data.length : Int)) (fun p => Sequence.copyEntry p.2) _ h0
        · cases hadd

end BB.G12
