/-
  BB.Proofs.G12Consistency — `Sequence.checkConsistency` characterised by what the stored entries
  answer (no hypotheses about intermediate `mapM`s), and when it raises on an API-built sequence.
-/
import BB.Proofs.G6Forge
import BB.Proofs.G3Awg
import BB.Proofs.G3Sort
import BB.Proofs.G12Inner

namespace BB.G12
open BB

/-! ### the three conditions, stated on the stored entries -/

/-- all entries report the same sample rate -/
def SameSR (s : Sequence) : Prop := ∃ v, ∀ x ∈ s.data, x.2.getSR = .ok v

/-- all entries define the same channels (as lists up to order) -/
def SameChannels (s : Sequence) : Prop := ∃ chs, ∀ x ∈ s.data, ∃ c, x.2.channels = .ok c ∧ c.Perm chs

/-- all entries define the same *set* of channels -/
def SameChannelSet (s : Sequence) : Prop :=
  ∃ chs : List Chan, ∀ x ∈ s.data, ∃ c, x.2.channels = .ok c ∧ ∀ ch, ch ∈ c ↔ ch ∈ chs

/-- positions 1..N all filled, no gap, in whatever order -/
def Filled (s : Sequence) : Prop := (Dict.keys s.data).Perm (oneTo s.data.length)

/-- every stored subsequence answers its own `channels` query -/
def SubsAnswer (s : Sequence) : Prop :=
  ∀ x ∈ s.data, ∀ sub : SubSeq, x.2 = .sub sub → ∃ chs, sub.channels = .ok chs

/-! ### generic list lemmas -/

theorem mapM_allSame_iff {α β : Type} [DecidableEq β] [Inhabited β] (f : α → Except Err β) (l : List α) :
    (∃ r, l.mapM f = .ok r ∧ Element.allSame r = true) ↔ ∃ v, ∀ x ∈ l, f x = .ok v := by
  constructor
  · rintro ⟨r, hr, hs⟩
    cases l with
    | nil => exact ⟨default, fun x hx => by cases hx⟩
    | cons a t =>
      obtain ⟨b, hb, hfa⟩ := mapM_mem f _ r hr a (by simp)
      refine ⟨b, fun x hx => ?_⟩
      obtain ⟨y, hy, hfx⟩ := mapM_mem f _ r hr x hx
      rw [hfx, (allSame_iff_forall r).mp hs y hy b hb]
  · rintro ⟨v, hv⟩
    refine ⟨l.map (fun _ => v), mapM_ok_of_forall f (fun _ => v) l hv, ?_⟩
    rw [allSame_iff_forall]
    intro x hx y hy
    obtain ⟨_, _, rfl⟩ := List.mem_map.mp hx
    obtain ⟨_, _, rfl⟩ := List.mem_map.mp hy
    rfl

theorem mapM_sameChannels_iff {α : Type} (f : α → Except Err (List Chan)) (l : List α) :
    (∃ r, l.mapM f = .ok r ∧ allEqLast (r.map channelListSorter) = true) ↔
      ∃ chs, ∀ x ∈ l, ∃ c, f x = .ok c ∧ c.Perm chs := by
  constructor
  · rintro ⟨r, hr, hs⟩
    cases l with
    | nil => exact ⟨[], fun x hx => by cases hx⟩
    | cons a t =>
      obtain ⟨b, hb, hfa⟩ := mapM_mem f _ r hr a (by simp)
      refine ⟨b, fun x hx => ?_⟩
      obtain ⟨y, hy, hfx⟩ := mapM_mem f _ r hr x hx
      refine ⟨y, hfx, ?_⟩
      apply G3.perm_of_channelListSorter_eq
      exact (allEqLast_iff_forall _).mp hs _ (List.mem_map_of_mem hy) _ (List.mem_map_of_mem hb)
  · rintro ⟨chs, hv⟩
    obtain ⟨r, hr⟩ := G3.mapM_ok_of_forall_ex f l (fun x hx => (hv x hx).imp (fun c hc => hc.1))
    refine ⟨r, hr, ?_⟩
    rw [allEqLast_iff_forall]
    intro x hx y hy
    obtain ⟨c1, hc1, rfl⟩ := List.mem_map.mp hx
    obtain ⟨c2, hc2, rfl⟩ := List.mem_map.mp hy
    obtain ⟨a1, ha1, hf1⟩ := G3.mapM_result_mem f l r hr c1 hc1
    obtain ⟨a2, ha2, hf2⟩ := G3.mapM_result_mem f l r hr c2 hc2
    obtain ⟨d1, hd1, hp1⟩ := hv a1 ha1
    obtain ⟨d2, hd2, hp2⟩ := hv a2 ha2
    rw [hf1] at hd1; rw [hf2] at hd2
    cases hd1; cases hd2
    exact G3.channelListSorter_of_perm (hp1.trans hp2.symm)

theorem gapFree_iff_perm (keys : List ℤ) : gapFree keys = true ↔ keys.Perm (oneTo keys.length) := by
  cases keys with
  | nil => simp [gapFree_nil, oneTo]
  | cons a t => exact gapFree_iff _ (by simp)

/-! ### the characterisation, for every sequence -/

/-- `checkConsistency` returns True exactly when a sample rate is set and the stored entries agree
    on sample rate and channels and fill the positions 1..N -/
theorem checkConsistency_true_iff_entries (s : Sequence) :
    s.checkConsistency = .ok true ↔
      Dict.has s.awgspecs "SR" = true ∧ SameSR s ∧ SameChannels s ∧ Filled s := by
  rw [Sequence.checkConsistency_true_iff]
  have hA := mapM_allSame_iff Entry.getSR (Dict.vals s.data)
  have hB := mapM_sameChannels_iff Entry.channels (Dict.vals s.data)
  have hk : (Dict.keys s.data).length = s.data.length := by simp [Dict.keys]
  constructor
  · rintro ⟨h0, srs, h1, h2, chans, h3, h4, h5⟩
    obtain ⟨v, hv⟩ := hA.mp ⟨srs, h1, h2⟩
    obtain ⟨chs, hc⟩ := hB.mp ⟨chans, h3, h4⟩
    refine ⟨h0, ⟨v, fun x hx => hv _ (List.mem_map_of_mem hx)⟩,
      ⟨chs, fun x hx => hc _ (List.mem_map_of_mem hx)⟩, ?_⟩
    unfold Filled
    rw [← hk]
    exact (gapFree_iff_perm _).mp h5
  · rintro ⟨h0, ⟨v, hv⟩, ⟨chs, hc⟩, h5⟩
    obtain ⟨srs, h1, h2⟩ := hA.mpr ⟨v, fun en hen => by
      obtain ⟨x, hx, rfl⟩ := List.mem_map.mp hen
      exact hv x hx⟩
    obtain ⟨chans, h3, h4⟩ := hB.mpr ⟨chs, fun en hen => by
      obtain ⟨x, hx, rfl⟩ := List.mem_map.mp hen
      exact hc x hx⟩
    refine ⟨h0, srs, h1, h2, chans, h3, h4, ?_⟩
    rw [gapFree_iff_perm, hk]
    exact h5

/-! ### positions -/

theorem mem_oneTo (n : ℕ) (k : ℤ) : k ∈ oneTo n ↔ 1 ≤ k ∧ k ≤ n := by
  unfold oneTo
  simp only [List.mem_map, List.mem_range]
  constructor
  · rintro ⟨i, hi, rfl⟩
    omega
  · rintro ⟨h1, h2⟩
    exact ⟨(k - 1).toNat, by omega, by omega⟩

theorem oneTo_nodup (n : ℕ) : (oneTo n).Nodup := by
  unfold oneTo
  apply List.Nodup.map
  · intro a b h
    simp only at h
    omega
  · exact List.nodup_range

/-- with no position stored twice, "the positions are a permutation of 1..N" says: position `k` is
    filled exactly for `1 ≤ k ≤ N`, `N` the number of stored entries -/
theorem filled_iff_positions {s : Sequence} (hwf : Dict.WF s.data) :
    Filled s ↔ ∀ k : ℤ, (Dict.get? s.data k).isSome = true ↔ (1 ≤ k ∧ k ≤ s.data.length) := by
  unfold Filled
  rw [List.perm_ext_iff_of_nodup hwf (oneTo_nodup _)]
  constructor
  · intro h k
    rw [Dict.get?_isSome_iff, h k, mem_oneTo]
  · intro h k
    rw [← Dict.get?_isSome_iff, h k, mem_oneTo]

/-! ### when it raises -/

/-- the entries of a validated store all report a sample rate -/
theorem getSR_ok_of_validated {s : Sequence} (hv : G11.InnerValidated s) :
    ∀ x ∈ s.data, ∃ v, x.2.getSR = .ok v := by
  intro x hx
  cases hx2 : x.2 with
  | el e =>
    obtain ⟨m, hm⟩ := (hv x hx).1 e hx2
    exact ⟨m.1, by simp [Entry.getSR, Element.getSR, hm, Except.map]⟩
  | sub sub => exact ⟨_, rfl⟩

/-- with every subsequence answering, every entry reports channels -/
theorem channels_ok_of_subsAnswer {s : Sequence} (ha : SubsAnswer s) :
    ∀ x ∈ s.data, ∃ c, x.2.channels = .ok c := by
  intro x hx
  cases hx2 : x.2 with
  | el e => exact ⟨_, rfl⟩
  | sub sub => exact ha x hx sub hx2

/-- the sample rates differ: False -/
theorem checkConsistency_of_not_allSame (s : Sequence) (srs : List Val) (hSR : Dict.has s.awgspecs "SR" = true)
    (h1 : (Dict.vals s.data).mapM Entry.getSR = .ok srs) (hs : Element.allSame srs = false) :
    s.checkConsistency = .ok false := by
  unfold Sequence.checkConsistency
  simp [hSR, h1, hs]

/-- the sample rates agree and a `channels` query raises: False for SequenceConsistencyError (an
    inconsistent stored subsequence) and for KeyError (an empty one, or one without a sample rate),
    that exception otherwise -/
theorem checkConsistency_of_channels_error (s : Sequence) (srs : List Val) (er : Err)
    (hSR : Dict.has s.awgspecs "SR" = true)
    (h1 : (Dict.vals s.data).mapM Entry.getSR = .ok srs) (hs : Element.allSame srs = true)
    (h2 : (Dict.vals s.data).mapM Entry.channels = .error er) :
    s.checkConsistency = if er = .consistency ∨ er = .key then .ok false else .error er := by
  unfold Sequence.checkConsistency
  by_cases he : er = .consistency ∨ er = .key <;> simp only [hSR, h1, hs, h2, he, Bool.not_true, Bool.false_eq_true, if_false, if_true]

/-- the sample rates agree and every `channels` query answers: a boolean -/
theorem checkConsistency_of_channels_ok (s : Sequence) (srs : List Val) (chans : List (List Chan))
    (hSR : Dict.has s.awgspecs "SR" = true)
    (h1 : (Dict.vals s.data).mapM Entry.getSR = .ok srs) (hs : Element.allSame srs = true)
    (h2 : (Dict.vals s.data).mapM Entry.channels = .ok chans) :
    s.checkConsistency = .ok (allEqLast (chans.map channelListSorter) && gapFree (Dict.keys s.data)) := by
  unfold Sequence.checkConsistency
  cases hc : allEqLast (chans.map channelListSorter) <;> simp [hSR, h1, hs, h2, hc]

/-- no stored subsequence's `channels` query raises anything but SequenceConsistencyError or KeyError -/
def NoHardError (s : Sequence) : Prop :=
  ∀ x ∈ s.data, ∀ (sub : SubSeq) (er : Err), x.2 = .sub sub → sub.channels = .error er →
    er = .consistency ∨ er = .key

/-- every stored subsequence has a sample rate and at least one element -/
def SubsSound (s : Sequence) : Prop :=
  ∀ x ∈ s.data, ∀ sub : SubSeq, x.2 = .sub sub → Dict.has sub.awgspecs "SR" = true ∧ sub.data ≠ []

/-- on a validated store with a sample rate set: `checkConsistency` returns a boolean, or the
    sample rates agree and it raises what a stored subsequence's `channels` query raises - which is
    then neither SequenceConsistencyError nor KeyError -/
theorem checkConsistency_cases {s : Sequence} (hv : G11.InnerValidated s)
    (hSR : Dict.has s.awgspecs "SR" = true) :
    (∃ b, s.checkConsistency = .ok b) ∨
      (SameSR s ∧ ∃ x ∈ s.data, ∃ (sub : SubSeq) (er : Err), x.2 = .sub sub ∧ sub.channels = .error er ∧
        ¬ (er = .consistency ∨ er = .key) ∧ s.checkConsistency = .error er) := by
  obtain ⟨srs, h1⟩ := G3.mapM_ok_of_forall_ex Entry.getSR (Dict.vals s.data) (fun en hen => by
    obtain ⟨x, hx, rfl⟩ := List.mem_map.mp hen
    exact getSR_ok_of_validated hv x hx)
  by_cases hs : Element.allSame srs = true
  · cases h2 : (Dict.vals s.data).mapM Entry.channels with
    | ok chans => exact .inl ⟨_, checkConsistency_of_channels_ok s srs chans hSR h1 hs h2⟩
    | error er =>
      have hcc := checkConsistency_of_channels_error s srs er hSR h1 hs h2
      by_cases he : er = .consistency ∨ er = .key
      · left
        rw [if_pos he] at hcc
        exact ⟨false, hcc⟩
      · right
        rw [if_neg he] at hcc
        obtain ⟨v, hvv⟩ := (mapM_allSame_iff Entry.getSR (Dict.vals s.data)).mp ⟨srs, h1, hs⟩
        refine ⟨⟨v, fun x hx => hvv _ (List.mem_map_of_mem hx)⟩, ?_⟩
        obtain ⟨en, hen, herr⟩ := G3.mapM_error_mem _ _ _ h2
        obtain ⟨x, hx, rfl⟩ := List.mem_map.mp hen
        cases hx2 : x.2 with
        | el e => rw [hx2] at herr; cases herr
        | sub sub =>
          rw [hx2] at herr
          exact ⟨x, hx, sub, er, hx2, herr, he, hcc⟩
  · exact .inl ⟨false, checkConsistency_of_not_allSame s srs hSR h1 (by simpa using hs)⟩

/-- it never raises when no stored subsequence raises anything but SequenceConsistencyError / KeyError -/
theorem checkConsistency_ok_of_noHardError {s : Sequence} (hv : G11.InnerValidated s)
    (hSR : Dict.has s.awgspecs "SR" = true) (ha : NoHardError s) : ∃ b, s.checkConsistency = .ok b := by
  rcases checkConsistency_cases hv hSR with h | ⟨_, x, hx, sub, er, hx2, herr, hne, _⟩
  · exact h
  · exact absurd (ha x hx sub er hx2 herr) hne

theorem noHardError_of_subsAnswer {s : Sequence} (ha : SubsAnswer s) : NoHardError s := by
  intro x hx sub er hx2 herr
  obtain ⟨chs, hc⟩ := ha x hx sub hx2
  rw [hc] at herr; cases herr

/-- ... in particular when every stored subsequence answers its `channels` query -/
theorem checkConsistency_ok_of_subsAnswer {s : Sequence} (hv : G11.InnerValidated s)
    (hSR : Dict.has s.awgspecs "SR" = true) (ha : SubsAnswer s) : ∃ b, s.checkConsistency = .ok b :=
  checkConsistency_ok_of_noHardError hv hSR (noHardError_of_subsAnswer ha)

/-- what the `channels` query of a stored subsequence with validated elements can raise:
    SequenceConsistencyError (it is inconsistent), or KeyError - and the latter only when it has no
    sample rate or no element at all -/
theorem subChannels_error_cases (sub : SubSeq) (hval : ∀ y ∈ sub.data, ∃ m, y.2.validate = .ok m) (er : Err)
    (h : sub.channels = .error er) :
    er = .consistency ∨ (er = .key ∧ (Dict.has sub.awgspecs "SR" = false ∨ sub.data = [])) := by
  unfold SubSeq.channels at h
  cases hcc : sub.checkConsistency with
  | error e =>
    rw [hcc] at h
    simp only [bind, Except.bind, Except.error.injEq] at h
    subst h
    unfold SubSeq.checkConsistency at hcc
    by_cases hsr : Dict.has sub.awgspecs "SR" = true
    · exfalso
      simp only [hsr, Bool.not_true, Bool.false_eq_true, if_false] at hcc
      obtain ⟨srs, h1⟩ := G3.mapM_ok_of_forall_ex (fun e : Element => e.getSR) (Dict.vals sub.data) (fun e he => by
        obtain ⟨y, hy, rfl⟩ := List.mem_map.mp he
        obtain ⟨m, hm⟩ := hval y hy
        exact ⟨m.1, by simp [Element.getSR, hm, Except.map]⟩)
      rw [h1] at hcc
      simp only at hcc
      split at hcc
      · cases hcc
      · split at hcc <;> cases hcc
    · have hsr' : Dict.has sub.awgspecs "SR" = false := by simpa using hsr
      simp only [hsr', Bool.not_false, if_true, Except.error.injEq] at hcc
      exact .inr ⟨hcc.symm, .inl hsr'⟩
  | ok v =>
    rw [hcc] at h
    cases v with
    | false =>
      simp only [bind, Except.bind, throw, throwThe, MonadExceptOf.throw, Bool.not_false, if_true,
        Except.error.injEq] at h
      exact .inl h.symm
    | true =>
      cases hg : Dict.get? sub.data 1 with
      | some e => rw [hg] at h; simp [bind, Except.bind, pure, Except.pure] at h
      | none =>
        rw [hg] at h
        simp only [bind, Except.bind, throw, throwThe, MonadExceptOf.throw, Bool.not_true, Bool.false_eq_true,
          if_false, Except.error.injEq] at h
        refine .inr ⟨h.symm, .inr ?_⟩
        -- a consistent subsequence without position 1 is empty
        unfold SubSeq.checkConsistency at hcc
        split at hcc
        · cases hcc
        · split at hcc
          · cases hcc
          · split at hcc
            · cases hcc
            · split at hcc
              · cases hcc
              · simp only [Except.ok.injEq] at hcc
                have hperm := (gapFree_iff_perm _).mp hcc
                cases hd : sub.data with
                | nil => rfl
                | cons y ys =>
                  exfalso
                  have h1 : (1 : ℤ) ∈ Dict.keys sub.data := by
                    rw [hperm.mem_iff, mem_oneTo]
                    simp [Dict.keys, hd]
                  rw [← Dict.get?_isSome_iff, hg] at h1
                  cases h1

/-- stored subsequences with validated elements raise nothing but SequenceConsistencyError or
    KeyError (D28: no side condition on the subsequences is needed any more) -/
theorem noHardError_of_validated {s : Sequence} (hv : G11.InnerValidated s) : NoHardError s := by
  intro x hx sub er hx2 herr
  rcases subChannels_error_cases sub ((hv x hx).2 sub hx2) er herr with h | ⟨h, _⟩
  · exact .inl h
  · exact .inr h

theorem noHardError_of_subsSound {s : Sequence} (hv : G11.InnerValidated s) (_ha : SubsSound s) : NoHardError s :=
  noHardError_of_validated hv

/-- a validated store with a sample rate: `checkConsistency` answers a boolean - it never raises -/
theorem checkConsistency_ok_of_validated {s : Sequence} (hv : G11.InnerValidated s)
    (hSR : Dict.has s.awgspecs "SR" = true) : ∃ b, s.checkConsistency = .ok b :=
  checkConsistency_ok_of_noHardError hv hSR (noHardError_of_validated hv)

/-- exactly when it raises: the sample rates agree (so the channel queries are reached) and the
    first `channels` query that fails (in store order) raises something other than
    SequenceConsistencyError / KeyError - which a validated store never does
    (`checkConsistency_ok_of_validated`), so the right-hand side is in fact unsatisfiable there -/
theorem checkConsistency_raises_iff {s : Sequence} (hv : G11.InnerValidated s)
    (hSR : Dict.has s.awgspecs "SR" = true) :
    (∃ er, s.checkConsistency = .error er) ↔
      SameSR s ∧ ∃ er, ¬ (er = .consistency ∨ er = .key) ∧ (Dict.vals s.data).mapM Entry.channels = .error er := by
  obtain ⟨srs, h1⟩ := G3.mapM_ok_of_forall_ex Entry.getSR (Dict.vals s.data) (fun en hen => by
    obtain ⟨x, hx, rfl⟩ := List.mem_map.mp hen
    exact getSR_ok_of_validated hv x hx)
  constructor
  · rintro ⟨er, he⟩
    by_cases hs : Element.allSame srs = true
    · obtain ⟨v, hvv⟩ := (mapM_allSame_iff Entry.getSR (Dict.vals s.data)).mp ⟨srs, h1, hs⟩
      refine ⟨⟨v, fun x hx => hvv _ (List.mem_map_of_mem hx)⟩, ?_⟩
      cases h2 : (Dict.vals s.data).mapM Entry.channels with
      | ok chans => rw [checkConsistency_of_channels_ok s srs chans hSR h1 hs h2] at he; cases he
      | error er' =>
        rw [checkConsistency_of_channels_error s srs er' hSR h1 hs h2] at he
        by_cases hc : er' = .consistency ∨ er' = .key
        · rw [if_pos hc] at he; cases he
        · exact ⟨er', hc, rfl⟩
    · rw [checkConsistency_of_not_allSame s srs hSR h1 (by simpa using hs)] at he; cases he
  · rintro ⟨⟨v, hvv⟩, er, hne, h2⟩
    obtain ⟨srs', h1', hs⟩ := (mapM_allSame_iff Entry.getSR (Dict.vals s.data)).mpr ⟨v, fun en hen => by
      obtain ⟨x, hx, rfl⟩ := List.mem_map.mp hen
      exact hvv x hx⟩
    refine ⟨er, ?_⟩
    rw [checkConsistency_of_channels_error s srs' er hSR h1' hs h2, if_neg hne]

/-! ### channel *sets* -/

/-- a stored subsequence answers its `channels` query exactly when it is itself consistent and its
    position 1 is filled; the answer is the channel list of its first element -/
theorem subChannels_ok_iff (sub : SubSeq) (chs : List Chan) :
    sub.channels = .ok chs ↔
      sub.checkConsistency = .ok true ∧ ∃ e, Dict.get? sub.data 1 = some e ∧ e.channels = chs := by
  unfold SubSeq.channels
  cases hcc : sub.checkConsistency with
  | error er => simp [bind, Except.bind]
  | ok v =>
    cases v with
    | false => simp [bind, Except.bind, throw, throwThe, MonadExceptOf.throw]
    | true =>
      cases hg : Dict.get? sub.data 1 with
      | none => simp [bind, Except.bind, throw, throwThe, MonadExceptOf.throw]
      | some e => simp [bind, Except.bind, pure, Except.pure]

/-- no stored element (direct or inside a subsequence) lists a channel twice -/
def InnerWF (s : Sequence) : Prop := Inner (fun e => Dict.WF e.chans) s

theorem apiBuilt_innerWF {s : Sequence} (h : Sequence.ApiBuilt s) : InnerWF s :=
  apiBuilt_inner (fun e => Dict.WF e.chans) (fun _ _ h => h) (fun _ he => he.wf) h

/-- the channel list an entry reports holds no channel twice -/
theorem channels_nodup {s : Sequence} (hw : InnerWF s) (x : Int × Entry) (hx : x ∈ s.data) (c : List Chan)
    (hc : x.2.channels = .ok c) : c.Nodup := by
  cases hx2 : x.2 with
  | el e =>
    rw [hx2] at hc
    simp only [Entry.channels, Except.ok.injEq] at hc
    subst hc
    exact (hw x hx).1 e hx2
  | sub sub =>
    rw [hx2] at hc
    obtain ⟨_, e, hg, rfl⟩ := (subChannels_ok_iff sub c).mp hc
    exact (hw x hx).2 sub hx2 (1, e) (Dict.mem_of_get?_eq_some 1 e hg)

/-- without repeated channels, "the same channels up to order" is "the same set of channels" -/
theorem sameChannels_iff_set {s : Sequence} (hw : InnerWF s) : SameChannels s ↔ SameChannelSet s := by
  constructor
  · rintro ⟨chs, h⟩
    refine ⟨chs, fun x hx => ?_⟩
    obtain ⟨c, hc, hp⟩ := h x hx
    exact ⟨c, hc, fun ch => hp.mem_iff⟩
  · rintro ⟨chs, h⟩
    cases hd : s.data with
    | nil => exact ⟨[], fun x hx => by rw [hd] at hx; cases hx⟩
    | cons x0 rest =>
      have hx0 : x0 ∈ s.data := by rw [hd]; simp
      obtain ⟨c0, hc0, hm0⟩ := h x0 hx0
      refine ⟨c0, fun x hx => ?_⟩
      obtain ⟨c, hc, hm⟩ := h x hx
      refine ⟨c, hc, ?_⟩
      rw [List.perm_ext_iff_of_nodup (channels_nodup hw x hx c hc) (channels_nodup hw x0 hx0 c0 hc0)]
      intro ch
      rw [hm ch, hm0 ch]

/-- a store of elements only: there is no subsequence that could fail to answer -/
theorem subsAnswer_of_elementsOnly {s : Sequence} (h : ∀ x ∈ s.data, ∃ e, x.2 = .el e) : SubsAnswer s := by
  intro x hx sub hs
  obtain ⟨e, he⟩ := h x hx
  rw [he] at hs; cases hs

/-! ### order of insertion -/

theorem sameSR_perm {a b : Sequence} (hp : a.data.Perm b.data) : SameSR a ↔ SameSR b := by
  unfold SameSR
  constructor
  · rintro ⟨v, h⟩; exact ⟨v, fun x hx => h x (hp.mem_iff.mpr hx)⟩
  · rintro ⟨v, h⟩; exact ⟨v, fun x hx => h x (hp.mem_iff.mp hx)⟩

theorem sameChannels_perm {a b : Sequence} (hp : a.data.Perm b.data) : SameChannels a ↔ SameChannels b := by
  unfold SameChannels
  constructor
  · rintro ⟨v, h⟩; exact ⟨v, fun x hx => h x (hp.mem_iff.mpr hx)⟩
  · rintro ⟨v, h⟩; exact ⟨v, fun x hx => h x (hp.mem_iff.mp hx)⟩

theorem subsAnswer_perm {a b : Sequence} (hp : a.data.Perm b.data) : SubsAnswer a ↔ SubsAnswer b := by
  unfold SubsAnswer
  constructor
  · intro h x hx; exact h x (hp.mem_iff.mpr hx)
  · intro h x hx; exact h x (hp.mem_iff.mp hx)

theorem filled_perm {a b : Sequence} (hp : a.data.Perm b.data) : Filled a ↔ Filled b := by
  unfold Filled
  have hk : (Dict.keys a.data).Perm (Dict.keys b.data) := hp.map _
  rw [hp.length_eq]
  exact ⟨fun h => hk.symm.trans h, fun h => hk.trans h⟩

theorem innerValidated_perm {a b : Sequence} (hp : a.data.Perm b.data) (h : G11.InnerValidated a) :
    G11.InnerValidated b := fun x hx => h x (hp.mem_iff.mpr hx)

theorem noHardError_perm {a b : Sequence} (hp : a.data.Perm b.data) : NoHardError a ↔ NoHardError b := by
  unfold NoHardError
  constructor
  · intro h x hx; exact h x (hp.mem_iff.mpr hx)
  · intro h x hx; exact h x (hp.mem_iff.mp hx)

/-- the verdict does not depend on the order of the store - as long as no stored subsequence raises
    anything but SequenceConsistencyError (with such a subsequence the first failing query in store
    order decides between False and that exception) -/
theorem checkConsistency_perm {a b : Sequence} (hp : a.data.Perm b.data) (hv : G11.InnerValidated a)
    (ha : Dict.has a.awgspecs "SR" = true) (hb : Dict.has b.awgspecs "SR" = true) (hn : NoHardError a) :
    a.checkConsistency = b.checkConsistency := by
  have hvb := innerValidated_perm hp hv
  have ht : a.checkConsistency = .ok true ↔ b.checkConsistency = .ok true := by
    rw [checkConsistency_true_iff_entries, checkConsistency_true_iff_entries, sameSR_perm hp,
      sameChannels_perm hp, filled_perm hp]
    simp [ha, hb]
  obtain ⟨va, hca⟩ := checkConsistency_ok_of_noHardError hv ha hn
  obtain ⟨vb, hcb⟩ := checkConsistency_ok_of_noHardError hvb hb ((noHardError_perm hp).mp hn)
  rw [hca, hcb] at ht ⊢
  cases va <;> cases vb <;> simp_all

end BB.G12
