/-
  BB.Proofs.G8Bp — the BluePrint programs of BB.Model.Heap never fault on well-formed heaps.
-/
import BB.Proofs.G8Copy

namespace BB.Heap

/-! ### helpers: building well-typed slots -/

theorem cellOk_intro {h : Heap} {k : Kind} {slots : List (String × Slot)} (hk : keysOk k slots = true)
    (hs : ∀ ks ∈ slots, slotOkT h k ks = true) : cellOk h k slots = true := by
  unfold cellOk
  simp only [Bool.and_eq_true, List.all_eq_true]
  exact ⟨hk, hs⟩

theorem cellOk_slot {h : Heap} {k : Kind} {slots : List (String × Slot)} (hc : cellOk h k slots = true)
    {ks : String × Slot} (hm : ks ∈ slots) : slotOkT h k ks = true := by
  unfold cellOk at hc
  simp only [Bool.and_eq_true, List.all_eq_true] at hc
  exact hc.2 ks hm

theorem slotOkT_ref {h : Heap} {k : Kind} {key : String} {b : Addr} {cb : Cell} (hb : h[b]? = some cb)
    (ha : allowed k key (some cb.kind) = true) : slotOkT h k (key, .ref b) = true := by
  simp [slotOkT, slotTy, hb, ha]

theorem slotOkT_imm {h : Heap} {k : Kind} {key : String} {t : Nat}
    (ha : allowed k key none = true) : slotOkT h k (key, .imm t) = true := by
  simp [slotOkT, slotTy, ha]

theorem refOk_own {h : Heap} {r : Owner} {b : Addr} {cb : Cell} (hb : h[b]? = some cb) (ho : cb.owner = r) :
    refOk h r (.ref b) = true := by
  simp [refOk, hb, ho]

theorem refOk_frozen {h : Heap} {r : Owner} {b : Addr} {cb : Cell} (hb : h[b]? = some cb) (hf : cb.kind.frozen = true) :
    refOk h r (.ref b) = true := by
  simp [refOk, hb, hf]

theorem slotsOk_intro {h : Heap} {k : Kind} {r : Owner} {slots : List (String × Slot)} (hf : k.frozen = false)
    (hs : ∀ ks ∈ slots, refOk h r ks.2 = true) : slotsOk h k r slots = true := by
  unfold slotsOk
  simp only [hf, Bool.false_eq_true, if_false, List.all_eq_true]
  exact hs

theorem slotsOk_slot {h : Heap} {k : Kind} {r : Owner} {slots : List (String × Slot)} (hf : k.frozen = false)
    (hc : slotsOk h k r slots = true) {ks : String × Slot} (hm : ks ∈ slots) : refOk h r ks.2 = true := by
  unfold slotsOk at hc
  simp only [hf, Bool.false_eq_true, if_false, List.all_eq_true] at hc
  exact hc ks hm

/-- a slot that holds immediate values only may be stored anywhere -/
theorem slotsOk_imm {h : Heap} {k : Kind} {r : Owner} {slots : List (String × Slot)}
    (hs : ∀ ks ∈ slots, ∃ t, ks.2 = Slot.imm t) : slotsOk h k r slots = true := by
  unfold slotsOk
  split
  · simp only [List.all_eq_true]
    intro ks hks; obtain ⟨t, ht⟩ := hs ks hks; rw [ht]; rfl
  · simp only [List.all_eq_true]
    intro ks hks; obtain ⟨t, ht⟩ := hs ks hks; rw [ht]; rfl

/-- kinds that hold immediate values only -/
def Kind.flat : Kind → Bool
  | .bpList => true | .flags => true | .ndarray => true | .cache => true | .seqSetting => true
  | .filterDict => true
  | _ => false

theorem flat_imm {h : Heap} {k : Kind} {slots : List (String × Slot)} (hc : cellOk h k slots = true)
    (hf : k.flat = true) : ∀ ks ∈ slots, ∃ t, ks.2 = Slot.imm t := by
  intro ks hks
  cases hs : ks.2 with
  | imm t => exact ⟨t, rfl⟩
  | ref b =>
    have hm : (ks.1, Slot.ref b) ∈ slots := by rw [← hs]; exact hks
    obtain ⟨cb, _, hal⟩ := cellOk_ref hc hm
    revert hal hf
    cases k <;> simp [allowed, Kind.flat]

theorem cellOk_flat {h : Heap} {k : Kind} {slots : List (String × Slot)} (hf : k.flat = true)
    (hs : ∀ ks ∈ slots, ∃ t, ks.2 = Slot.imm t) : cellOk h k slots = true := by
  apply cellOk_intro
  · revert hf; cases k <;> simp [Kind.flat, keysOk, fixedKeys]
  · intro ks hks
    obtain ⟨t, ht⟩ := hs ks hks
    obtain ⟨key, s⟩ := ks
    simp only at ht
    subst ht
    apply slotOkT_imm
    revert hf; cases k <;> simp [Kind.flat, allowed]

/-- what a live reference held by a well-formed cell points to -/
theorem good_ref {h : Heap} (hg : Good h) {a : Addr} {c : Cell} (hc : h[a]? = some c) {key : String} {b : Addr}
    (hm : (key, Slot.ref b) ∈ c.slots) :
    ∃ cb : Cell, h[b]? = some cb ∧ allowed c.kind key (some cb.kind) = true ∧
      (cb.kind.frozen = true ∨ cb.owner = c.owner) := by
  obtain ⟨cb, hcb, hal⟩ := cellOk_ref (hg.typed a c hc) hm
  refine ⟨cb, hcb, hal, ?_⟩
  have hcl := hg.closed a c hc
  unfold slotsOk at hcl
  split at hcl
  · simp only [List.all_eq_true] at hcl
    have := hcl _ hm
    simp only [refOkFrozen, hcb] at this
    exact Or.inl this
  · simp only [List.all_eq_true] at hcl
    have := hcl _ hm
    simp only [refOk, hcb, Bool.or_eq_true, beq_iff_eq] at this
    exact this

/-! ### `retoken` -/

theorem mem_retoken {tok : Nat} {slots : List (String × Slot)} {ks : String × Slot} (h : ks ∈ retoken tok slots) :
    (∃ t, ks.2 = .imm t ∧ ∃ t0, (ks.1, Slot.imm t0) ∈ slots) ∨ (∃ b, ks.2 = .ref b ∧ ks ∈ slots) := by
  unfold retoken at h
  rw [List.mem_map] at h
  obtain ⟨x, hx, hxe⟩ := h
  obtain ⟨k, s⟩ := x
  cases s with
  | imm t0 => subst hxe; exact Or.inl ⟨tok, rfl, t0, hx⟩
  | ref b => subst hxe; exact Or.inr ⟨b, rfl, hx⟩

theorem keys_retoken (tok : Nat) (slots : List (String × Slot)) : (retoken tok slots).map (·.1) = slots.map (·.1) := by
  unfold retoken
  rw [List.map_map]
  apply List.map_congr_left
  intro ks _
  obtain ⟨k, s⟩ := ks
  cases s <;> rfl

theorem lookup_retoken_ref (tok : Nat) (slots : List (String × Slot)) (k : String) (b : Addr)
    (h : lookupSlot slots k = some (.ref b)) : lookupSlot (retoken tok slots) k = some (.ref b) := by
  unfold lookupSlot retoken at *
  induction slots with
  | nil => simp [List.lookup] at h
  | cons p ps ih =>
    obtain ⟨k', s⟩ := p
    cases hkk : (k == k') with
    | true =>
      cases s with
      | imm t => simp [List.lookup, hkk] at h
      | ref b' => simpa [List.lookup, hkk] using h
    | false =>
      have := ih (by simpa [List.lookup, hkk] using h)
      cases s <;> simpa [List.lookup, hkk] using this

theorem cellOk_retoken {h : Heap} {k : Kind} {slots : List (String × Slot)} (tok : Nat)
    (hc : cellOk h k slots = true) : cellOk h k (retoken tok slots) = true := by
  apply cellOk_intro
  · unfold cellOk at hc
    simp only [Bool.and_eq_true] at hc
    unfold keysOk at hc ⊢
    rw [keys_retoken]; exact hc.1
  · intro ks hks
    rcases mem_retoken hks with ⟨t, ht, t0, hm⟩ | ⟨b, _, hm⟩
    · obtain ⟨key, s⟩ := ks
      simp only at ht hm
      subst ht
      exact slotOkT_imm (cellOk_imm hc hm)
    · exact cellOk_slot hc hm

theorem slotsOk_retoken {h : Heap} {k : Kind} {r : Owner} {slots : List (String × Slot)} (tok : Nat)
    (hc : slotsOk h k r slots = true) : slotsOk h k r (retoken tok slots) = true := by
  unfold slotsOk at hc ⊢
  split
  · rename_i hf
    simp only [hf, if_true, List.all_eq_true] at hc ⊢
    intro ks hks
    rcases mem_retoken hks with ⟨t, ht, _⟩ | ⟨b, _, hm⟩
    · rw [ht]; rfl
    · exact hc ks hm
  · rename_i hf
    simp only [hf, Bool.false_eq_true, if_false, List.all_eq_true] at hc ⊢
    intro ks hks
    rcases mem_retoken hks with ⟨t, ht, _⟩ | ⟨b, _, hm⟩
    · rw [ht]; rfl
    · exact hc ks hm

/-! ### `BluePrint()` -/

/-- which old cells a blueprint mutator may rewrite: the blueprint's lists and the object -/
abbrev pBp : Addr → Kind → Bool := fun _ k => k == .bpList || k == .bpObj

/-- the slot may be held by a blueprint object of owner `r` -/
def BpSlot (r : Owner) (h : Heap) (ks : String × Slot) : Prop :=
  slotOkT h .bpObj ks = true ∧ refOk h r ks.2 = true

theorem BpSlot.keeps {r : Owner} {h h' : Heap} (k : Keeps h h') {ks : String × Slot} (hb : BpSlot r h ks) :
    BpSlot r h' ks := ⟨slotOkT_keeps k _ _ hb.1, refOk_keeps k r _ hb.2⟩

theorem bpSlot_new {r : Owner} {h : Heap} {key : String} {slots : List (String × Slot)}
    (hk : bpListKeys.contains key = true) :
    BpSlot r (h ++ [⟨.bpList, r, slots⟩]) (key, .ref h.length) := by
  constructor
  · exact slotOkT_ref (cb := ⟨.bpList, r, slots⟩) (by simp)
      (by have : key ∈ bpListKeys := by simpa using hk
          simp [allowed, this])
  · exact refOk_own (cb := ⟨.bpList, r, slots⟩) (by simp) rfl

/-- a fresh blueprint object from slots that are fit for one -/
theorem runs_bpObj {base : Nat} {r : Owner} {h0 h : Heap} {slots : List (String × Slot)}
    (he : Evo r pNone h0 h) (hk : slots.map (·.1) = bpListKeys ++ ["_SR"]) (hs : ∀ ks ∈ slots, BpSlot r h ks)
    {Q : Addr → Heap → Prop}
    (hq : ∀ h', Evo r pNone h0 h' → h' = h ++ [⟨.bpObj, r, slots⟩] → Q h.length h') :
    Runs base r (palloc .bpObj slots) h Q := by
  have hso : slotsOk h .bpObj r slots = true := slotsOk_intro rfl (fun ks hks => (hs ks hks).2)
  have hco : cellOk h .bpObj slots = true :=
    cellOk_intro (by simp [keysOk, fixedKeys, hk]) (fun ks hks => (hs ks hks).1)
  apply runs_alloc hso
  exact hq _ (he.trans (evo_alloc he.good hso hco)) rfl

/-- **`BluePrint()` never faults**: eight new lists and a new object, nothing else touched -/
theorem bpNew_spec {base : Nat} {r : Owner} {h : Heap} (hg : Good h) :
    Runs base r bpNew h (fun b h' => h.length ≤ b ∧ Evo r pNone h h' ∧
      ∃ c : Cell, h'[b]? = some c ∧ c.kind = .bpObj ∧ c.owner = r) := by
  unfold bpNew
  apply runs_bind
  refine runs_mono (runs_foldlM _ (fun done acc h1 => Evo r pNone h h1 ∧ acc.map (·.1) = done ∧
      (∀ ks ∈ acc, BpSlot r h1 ks ∧ bpListKeys.contains ks.1 = true)) bpListKeys [] [] h
    ⟨Evo.refl hg, rfl, by simp⟩ ?_) ?_
  · intro d x rest acc h1 heq ⟨hevo, hkeys, hslots⟩
    have hx : bpListKeys.contains x = true := by
      have : x ∈ d ++ x :: rest := by simp
      rw [← heq] at this
      simpa using this
    apply runs_bind
    have hso : slotsOk h1 .bpList r [] = true := by simp [slotsOk]
    have hco : cellOk h1 .bpList [] = true := by simp [cellOk, keysOk, fixedKeys]
    apply runs_alloc hso
    apply runs_pure
    have hevo2 : Evo r pNone h1 (h1 ++ [⟨.bpList, r, []⟩]) := evo_alloc hevo.good hso hco
    refine ⟨hevo.trans hevo2, by simp [hkeys], ?_⟩
    intro ks hks
    simp only [List.mem_append, List.mem_singleton] at hks
    rcases hks with hks | hks
    · exact ⟨(hslots ks hks).1.keeps hevo2.keeps, (hslots ks hks).2⟩
    · subst hks; exact ⟨bpSlot_new hx, hx⟩
  · intro lists h1 ⟨hevo, hkeys, hslots⟩
    simp only [List.nil_append] at hkeys
    apply runs_bpObj hevo
    · simp [hkeys]
    · intro ks hks
      simp only [List.mem_append, List.mem_singleton] at hks
      rcases hks with hks | hks
      · exact (hslots ks hks).1
      · subst hks
        exact ⟨slotOkT_imm (by simp [allowed]), rfl⟩
    · intro h' hevo' hh'
      refine ⟨hevo.len, hevo', ⟨.bpObj, r, lists ++ [("_SR", .imm 0)]⟩, ?_, rfl, rfl⟩
      rw [hh']; simp

end BB.Heap
