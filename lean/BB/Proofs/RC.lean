/-
  BB.Proofs.RC — the RC transfer function on the `fftfreq` grid, built from the kernels
  regenerated from `ripasso._rcFilter` (`BB.Gen.Real.rcHP/rcLP/rcPatch/rcPow`).
-/
import Mathlib.Tactic.FieldSimp
import Mathlib.Tactic.Ring
import Mathlib.Tactic.Linarith
import BB.Proofs.DFT
import BB.Gen.KReal

namespace BB.RC
open ZMod Complex ComplexConjugate BB.Gen.Real BB.DFT

/-- `numpy.fft.fftfreq(N, 1/SR)[j] · N / SR`: `j` for `j < (N+1)/2`, `j − N` above -/
def fftIdx (N j : ℕ) : ℤ := if j < (N + 1) / 2 then (j : ℤ) else (j : ℤ) - N

/-- the frequency of bin `k` -/
noncomputable def freq (N : ℕ) (SR : ℝ) (k : ZMod N) : ℝ := (fftIdx N k.val : ℝ) * SR / N

variable {N : ℕ} [NeZero N]

theorem fftIdx_zero : fftIdx N 0 = 0 := by
  unfold fftIdx
  have : 0 < N := Nat.pos_of_ne_zero (NeZero.ne N)
  have : 0 < (N + 1) / 2 := by omega
  simp [this]

/-- the bin `-k` (= `N − k`) carries the opposite frequency, except at DC and Nyquist -/
theorem fftIdx_neg (k : ZMod N) (hk : k ≠ 0) (hny : 2 * k.val ≠ N) :
    fftIdx N (-k).val = - fftIdx N k.val := by
  have hv : (-k).val = N - k.val := by
    rw [ZMod.neg_val]; simp [hk]
  have hlt : k.val < N := ZMod.val_lt k
  have hpos : 0 < k.val := by
    rcases Nat.eq_zero_or_pos k.val with h | h
    · exact absurd ((ZMod.val_eq_zero k).mp h) hk
    · exact h
  rw [hv]
  unfold fftIdx
  by_cases h1 : k.val < (N + 1) / 2
  · have h2 : ¬ (N - k.val < (N + 1) / 2) := by omega
    simp only [h1, h2, if_true, if_false]
    push_cast [Nat.cast_sub hlt.le]; ring
  · have h2 : N - k.val < (N + 1) / 2 := by omega
    simp only [h1, h2, if_true, if_false]
    push_cast [Nat.cast_sub hlt.le]; ring

theorem freq_zero (SR : ℝ) : freq N SR (0 : ZMod N) = 0 := by
  unfold freq; simp [ZMod.val_zero, fftIdx_zero]

theorem freq_neg (SR : ℝ) (k : ZMod N) (hk : k ≠ 0) (hny : 2 * k.val ≠ N) :
    freq N SR (-k) = - freq N SR k := by
  unfold freq
  rw [fftIdx_neg k hk hny]
  push_cast; ring

/-- away from DC the frequency is not zero -/
theorem freq_ne_zero (SR : ℝ) (hSR : SR ≠ 0) (k : ZMod N) (hk : k ≠ 0) : freq N SR k ≠ 0 := by
  unfold freq
  have hN : (N : ℝ) ≠ 0 := by exact_mod_cast NeZero.ne N
  have hlt : k.val < N := ZMod.val_lt k
  have hpos : 0 < k.val := by
    rcases Nat.eq_zero_or_pos k.val with h | h
    · exact absurd ((ZMod.val_eq_zero k).mp h) hk
    · exact h
  have : fftIdx N k.val ≠ 0 := by
    unfold fftIdx; split <;> omega
  have h2 : ((fftIdx N k.val : ℤ) : ℝ) ≠ 0 := by exact_mod_cast this
  exact div_ne_zero (mul_ne_zero h2 hSR) hN

/-! ### the first-order transfer functions at a real frequency -/

/-- HP: `i·2πfτ / (1 + i·2πfτ)` with `τ = 1/f_cut` — the documented formula -/
theorem rcHP_value (SR fc f : ℝ) :
    rcHP SR fc f = (I * (2 * Real.pi * f * (1 / fc) : ℝ)) / (1 + I * (2 * Real.pi * f * (1 / fc) : ℝ)) := by
  unfold rcHP
  push_cast
  ring_nf

/-- LP: `1 / (1 + i·2πfτ)` with `τ = 1/f_cut` -/
theorem rcLP_value (SR fc f : ℝ) :
    rcLP SR fc f = 1 / (1 + I * (2 * Real.pi * f * (1 / fc) : ℝ)) := by
  unfold rcLP
  push_cast
  ring_nf

theorem one_add_I_mul_ne_zero (y : ℝ) : (1 : ℂ) + I * (y : ℂ) ≠ 0 := by
  intro h
  have := congrArg Complex.re h
  simp at this

theorem rcHP_conj (SR fc f : ℝ) : conj (rcHP SR fc f) = rcHP SR fc ((-f : ℝ) : ℂ) := by
  rw [rcHP_value, rcHP_value]
  simp only [map_div₀, map_mul, map_add, map_one, conj_I, conj_ofReal]
  push_cast
  ring_nf

theorem rcLP_conj (SR fc f : ℝ) : conj (rcLP SR fc f) = rcLP SR fc ((-f : ℝ) : ℂ) := by
  rw [rcLP_value, rcLP_value]
  simp only [map_div₀, map_mul, map_add, map_one, conj_I, conj_ofReal]
  push_cast
  ring_nf

theorem rcHP_at_zero (SR fc : ℝ) : rcHP SR fc ((0 : ℝ) : ℂ) = 0 := by
  rw [rcHP_value]; simp

theorem rcHP_eq_zero_iff (SR fc f : ℝ) (hfc : fc ≠ 0) : rcHP SR fc f = 0 ↔ f = 0 := by
  rw [rcHP_value]
  rw [div_eq_zero_iff]
  constructor
  · rintro (h | h)
    · have : (2 * Real.pi * f * (1 / fc) : ℝ) = 0 := by
        have := mul_eq_zero.mp h
        rcases this with h1 | h1
        · exact absurd h1 I_ne_zero
        · exact_mod_cast h1
      have hpi : (2 * Real.pi : ℝ) ≠ 0 := by positivity
      have h3 : (1 / fc : ℝ) ≠ 0 := one_div_ne_zero hfc
      rcases mul_eq_zero.mp this with h4 | h4
      · rcases mul_eq_zero.mp h4 with h5 | h5
        · exact absurd h5 hpi
        · exact h5
      · exact absurd h4 h3
    · exact absurd h (one_add_I_mul_ne_zero _)
  · intro h; left; rw [h]; simp

theorem rcLP_ne_zero (SR fc f : ℝ) : rcLP SR fc f ≠ 0 := by
  rw [rcLP_value]
  exact div_ne_zero one_ne_zero (one_add_I_mul_ne_zero _)

/-! ### the transfer function of `_rcFilter` on the grid -/

/-- first-order HP on the grid with the DC patch `tf[tf == 0] = DCgain` -/
noncomputable def baseHP (SR fc DCgain : ℝ) (k : ZMod N) : ℂ :=
  rcPatch (rcHP SR fc (freq N SR k : ℝ)) (DCgain : ℂ)

/-- first-order LP on the grid -/
noncomputable def baseLP (SR fc : ℝ) (k : ZMod N) : ℂ := rcLP SR fc (freq N SR k : ℝ)

/-- `_rcFilter(SR, N, f_cut, kind='HP', order, DCgain)` -/
noncomputable def gridHP (SR fc DCgain : ℝ) (order : ℤ) (k : ZMod N) : ℂ := rcPow (baseHP SR fc DCgain k) order

/-- `_rcFilter(SR, N, f_cut, kind='LP', order)` -/
noncomputable def gridLP (SR fc : ℝ) (order : ℤ) (k : ZMod N) : ℂ := rcPow (baseLP (N := N) SR fc k) order

/-- the DC bin of the high pass carries the stated DC gain -/
theorem baseHP_dc (SR fc DCgain : ℝ) : baseHP (N := N) SR fc DCgain 0 = DCgain := by
  unfold baseHP rcPatch
  rw [freq_zero, rcHP_at_zero]; simp

/-- every other bin carries the documented HP response -/
theorem baseHP_value (SR fc DCgain : ℝ) (hSR : SR ≠ 0) (hfc : fc ≠ 0) (k : ZMod N) (hk : k ≠ 0) :
    baseHP SR fc DCgain k = rcHP SR fc (freq N SR k : ℝ) := by
  unfold baseHP rcPatch
  have : rcHP SR fc (freq N SR k : ℝ) ≠ 0 := by
    rw [Ne, rcHP_eq_zero_iff _ _ _ hfc]; exact freq_ne_zero SR hSR k hk
  simp [this]

theorem baseHP_ne_zero (SR fc DCgain : ℝ) (hd : DCgain ≠ 0) (k : ZMod N) : baseHP SR fc DCgain k ≠ 0 := by
  unfold baseHP rcPatch
  split
  · exact_mod_cast hd
  · assumption

theorem baseLP_ne_zero (SR fc : ℝ) (k : ZMod N) : baseLP (N := N) SR fc k ≠ 0 := rcLP_ne_zero _ _ _

theorem rcPatch_conj (z : ℂ) (d : ℝ) : conj (rcPatch z d) = rcPatch (conj z) d := by
  unfold rcPatch
  by_cases h : z = 0
  · simp [h]
  · have : conj z ≠ 0 := by simpa using h
    simp [h, this]

/-- the grid is Hermitian at every bin except Nyquist -/
theorem baseHP_herm (SR fc DCgain : ℝ) (k : ZMod N) (hny : 2 * k.val ≠ N) :
    conj (baseHP SR fc DCgain (-k)) = baseHP SR fc DCgain k := by
  by_cases hk : k = 0
  · subst hk; simp only [neg_zero, baseHP_dc, conj_ofReal]
  · unfold baseHP
    rw [rcPatch_conj, rcHP_conj, freq_neg SR k hk hny]
    simp

theorem baseLP_herm (SR fc : ℝ) (k : ZMod N) (hny : 2 * k.val ≠ N) :
    conj (baseLP (N := N) SR fc (-k)) = baseLP SR fc k := by
  by_cases hk : k = 0
  · subst hk
    unfold baseLP
    rw [neg_zero, rcLP_conj, freq_zero]; simp
  · unfold baseLP
    rw [rcLP_conj, freq_neg SR k hk hny]
    simp

theorem gridHP_herm (SR fc DCgain : ℝ) (order : ℤ) (k : ZMod N) (hny : 2 * k.val ≠ N) :
    conj (gridHP SR fc DCgain order (-k)) = gridHP SR fc DCgain order k := by
  unfold gridHP rcPow
  rw [map_zpow₀, baseHP_herm SR fc DCgain k hny]

theorem gridLP_herm (SR fc : ℝ) (order : ℤ) (k : ZMod N) (hny : 2 * k.val ≠ N) :
    conj (gridLP (N := N) SR fc order (-k)) = gridLP SR fc order k := by
  unfold gridLP rcPow
  rw [map_zpow₀, baseLP_herm SR fc k hny]

end BB.RC
