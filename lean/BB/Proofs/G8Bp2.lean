/-
  BB.Proofs.G8Bp2 — `BluePrint.copy()`, `+`, and the blueprint mutators never fault.
-/
import BB.Proofs.G8Bp

namespace BB.Heap

/-! ### `BluePrint.copy()` -/

theorem SlotsRel.refl_imm {R : Addr → Addr → Prop} : ∀ {l : List (String × Slot)},
    (∀ ks ∈ l, ∃ t, ks.2 = Slot.imm t) → SlotsRel R l l := by
  intro l
  induction l with
  | nil => intro _; trivial
  | cons x l ih =>
    intro hl
    simp only [SlotsRel]
    refine ⟨trivial, ?_, ih (fun ks hks => hl ks (List.mem_cons_of_mem _ hks))⟩
    obtain ⟨t, ht⟩ := hl x List.mem_cons_self
    rw [ht]; rfl

theorem bpObj_ref {h : Heap} (hg : Good h) {b : Addr} {cb : Cell} (hb : h[b]? = some cb) (hk : cb.kind = .bpObj)
    {key : String} {l : Addr} (hm : (key, Slot.ref l) ∈ cb.slots) :
    ∃ cl : Cell, h[l]? = some cl ∧ cl.kind = .bpList ∧ cl.owner = cb.owner ∧ bpListKeys.contains key = true := by
  obtain ⟨cl, hcl, hal, hown⟩ := good_ref hg hb hm
  rw [hk] at hal
  simp only [allowed, Bool.and_eq_true, beq_iff_eq] at hal
  refine ⟨cl, hcl, hal.1, ?_, hal.2⟩
  rcases hown with hf | ho
  · rw [hal.1] at hf; cases hf
  · exact ho

/-- **`BluePrint.copy()` never faults**: new lists, a new object, and the copy unfolds to the
    same tree as the source -/
theorem bpCopy_spec {base : Nat} {r : Owner} {h : Heap} {b : Addr} {cb : Cell} (hg : Good h)
    (hb : h[b]? = some cb) (hk : cb.kind = .bpObj) :
    Runs base r (bpCopy b) h (fun b' h' => h.length ≤ b' ∧ Evo r pNone h h' ∧ CopyRel h' 2 b b') := by
  unfold bpCopy
  apply runs_bind
  apply runs_cellAt hb
  apply runs_bind
  refine runs_mono (runs_foldlM _ (fun done acc h1 => DCInv r h 1 done acc h1) cb.slots [] [] h
    ⟨Evo.refl hg, trivial⟩ ?_) ?_
  · intro d x rest acc h1 heq hI
    have hx : x ∈ cb.slots := by
      have : x ∈ d ++ x :: rest := by simp
      rw [← heq] at this; simpa using this
    split
    · rename_i t ht
      apply runs_pure
      refine ⟨hI.evo, hI.rel.snoc rfl ?_⟩
      rw [ht]; rfl
    · rename_i l hl
      have hm : (x.1, Slot.ref l) ∈ cb.slots := by rw [← hl]; exact hx
      obtain ⟨cl, hcl, hkl, _, _⟩ := bpObj_ref hg hb hk hm
      have hcl1 : h1[l]? = some cl := hI.evo.sub l cl hcl
      apply runs_bind
      apply shallowCopy_spec hI.evo.good hcl1 (by rw [hkl]; rfl)
      intro hevo
      apply runs_pure
      refine ⟨hI.evo.trans hevo, ?_⟩
      refine SlotsRel.snoc (hI.rel.mono (fun y y' hy => ⟨hy.1.sub hevo.sub, hy.2⟩)) rfl ?_
      rw [hl]
      refine ⟨h1.length, rfl, ?_, hI.evo.len⟩
      refine ⟨cl, ⟨cl.kind, r, cl.slots⟩, hevo.sub l cl hcl1, by simp, rfl, ?_⟩
      exact SlotsRel.refl_imm (flat_imm (hg.typed l cl hcl) (by rw [hkl]; rfl))
  · intro slots h1 hI
    simp only [List.nil_append] at hI
    have hc1 : h1[b]? = some cb := hI.evo.sub b cb hb
    have hkind : ∀ x x', (CopyRel h1 1 x x' ∧ h.length ≤ x') →
        ∃ cx cx' : Cell, h1[x]? = some cx ∧ h1[x']? = some cx' ∧ cx'.kind = cx.kind ∧ cx'.owner = r := by
      intro x x' hx
      obtain ⟨cx, cx', h1', h2', h3'⟩ := hx.1.kind
      exact ⟨cx, cx', h1', h2', h3', hI.evo.new x' cx' hx.2 h2'⟩
    have hso : slotsOk h1 .bpObj r slots = true := by
      have := slotsOk_copy hkind hI.rel (hI.evo.good.closed b cb hc1)
      rwa [hk] at this
    have hco : cellOk h1 .bpObj slots = true := by
      have := cellOk_copy (fun x x' hx => let ⟨cx, cx', x1, x2, x3, _⟩ := hkind x x' hx; ⟨cx, cx', x1, x2, x3⟩)
        hI.rel (hI.evo.good.typed b cb hc1)
      rwa [hk] at this
    apply runs_alloc hso
    have hevo2 : Evo r pNone h1 (h1 ++ [⟨.bpObj, r, slots⟩]) := evo_alloc hI.evo.good hso hco
    refine ⟨hI.evo.len, hI.evo.trans hevo2, ?_⟩
    refine ⟨cb, ⟨.bpObj, r, slots⟩, hevo2.sub b cb hc1, by simp, hk.symm, ?_⟩
    exact hI.rel.mono (fun x x' hx => hx.1.sub hevo2.sub)

/-! ### `a + b` on blueprints -/

/-- **`bp1 + bp2` never faults**: new lists and a new object, the operands untouched -/
theorem bpAdd_spec {base : Nat} {r : Owner} {h : Heap} {a b : Addr} {ca cb : Cell} (hg : Good h)
    (ha : h[a]? = some ca) (hka : ca.kind = .bpObj) (hb : h[b]? = some cb) (hkb : cb.kind = .bpObj) :
    Runs base r (bpAdd a b) h (fun x h' => h.length ≤ x ∧ Evo r pNone h h' ∧
      ∃ c : Cell, h'[x]? = some c ∧ c.kind = .bpObj ∧ c.owner = r) := by
  unfold bpAdd
  apply runs_bind
  apply runs_cellAt ha
  apply runs_bind
  apply runs_cellAt hb
  apply runs_bind
  have hkeysA : ca.slots.map (·.1) = bpListKeys ++ ["_SR"] :=
    cellOk_keys (hg.typed a ca ha) (by rw [hka]; rfl)
  have hkeysB : cb.slots.map (·.1) = bpListKeys ++ ["_SR"] :=
    cellOk_keys (hg.typed b cb hb) (by rw [hkb]; rfl)
  refine runs_mono (runs_foldlM _ (fun done acc h1 => Evo r pNone h h1 ∧ acc.map (·.1) = done.map (·.1) ∧
      (∀ ks ∈ acc, BpSlot r h1 ks)) ca.slots [] [] h ⟨Evo.refl hg, rfl, by simp⟩ ?_) ?_
  · intro d x rest acc h1 heq ⟨hevo, hkeys, hslots⟩
    have hx : x ∈ ca.slots := by
      have : x ∈ d ++ x :: rest := by simp
      rw [← heq] at this; simpa using this
    split
    · rename_i la lb hla hlb
      have hma : (x.1, Slot.ref la) ∈ ca.slots := by rw [← hla]; exact hx
      obtain ⟨cla, hcla, hkla, _, hcont⟩ := bpObj_ref hg ha hka hma
      obtain ⟨clb, hclb, hklb, _, _⟩ := bpObj_ref hg hb hkb (mem_of_lookupSlot hlb)
      apply runs_bind
      apply runs_cellAt (hevo.sub la cla hcla)
      apply runs_bind
      apply runs_cellAt (hevo.sub lb clb hclb)
      apply runs_bind
      have himm : ∀ ks ∈ cla.slots ++ clb.slots, ∃ t, ks.2 = Slot.imm t := by
        intro ks hks
        rw [List.mem_append] at hks
        rcases hks with hks | hks
        · exact flat_imm (hg.typed la cla hcla) (by rw [hkla]; rfl) ks hks
        · exact flat_imm (hg.typed lb clb hclb) (by rw [hklb]; rfl) ks hks
      have hso : slotsOk h1 .bpList r (cla.slots ++ clb.slots) = true := slotsOk_imm himm
      have hco : cellOk h1 .bpList (cla.slots ++ clb.slots) = true := cellOk_flat rfl himm
      apply runs_alloc hso
      apply runs_pure
      have hevo2 : Evo r pNone h1 (h1 ++ [⟨.bpList, r, cla.slots ++ clb.slots⟩]) := evo_alloc hevo.good hso hco
      refine ⟨hevo.trans hevo2, by simp [hkeys], ?_⟩
      intro ks hks
      simp only [List.mem_append, List.mem_singleton] at hks
      rcases hks with hks | hks
      · exact (hslots ks hks).keeps hevo2.keeps
      · subst hks; exact bpSlot_new hcont
    · rename_i hno
      -- the slot is an immediate value: a referencing slot of `a` has a referencing partner in `b`
      cases hs : x.2 with
      | ref la =>
        exfalso
        have hma : (x.1, Slot.ref la) ∈ ca.slots := by rw [← hs]; exact hx
        obtain ⟨_, _, _, _, hcont⟩ := bpObj_ref hg ha hka hma
        have hmem : x.1 ∈ bpListKeys := by simpa using hcont
        have hkeyB : x.1 ∈ cb.slots.map (·.1) := by rw [hkeysB]; simp [hmem]
        have hnone : allowed cb.kind x.1 none = false := by
          rw [hkb]
          simp only [allowed, beq_eq_false_iff_ne, ne_eq]
          intro heq; rw [heq] at hmem; revert hmem; decide
        obtain ⟨lb, _, hlook, _, _⟩ := cellOk_lookup_ref (hg.typed b cb hb) hkeyB hnone
        exact hno la lb hs hlook
      | imm t =>
        apply runs_pure
        refine ⟨hevo, by simp [hkeys], ?_⟩
        intro ks hks
        simp only [List.mem_append, List.mem_singleton] at hks
        rcases hks with hks | hks
        · exact hslots ks hks
        · subst hks
          have h1' : slotOkT h .bpObj x = true := by
            have := cellOk_slot (hg.typed a ca ha) hx
            rwa [hka] at this
          refine ⟨slotOkT_keeps hevo.keeps _ _ (by rw [← hs]; exact h1'), rfl⟩
  · intro slots h1 ⟨hevo, hkeys, hslots⟩
    simp only [List.nil_append] at hkeys
    apply runs_bpObj hevo (by rw [hkeys, hkeysA]) hslots
    intro h' hevo' hh'
    refine ⟨hevo.len, hevo', ⟨.bpObj, r, slots⟩, ?_, rfl, rfl⟩
    rw [hh']; simp

/-! ### blueprint mutators -/

/-- **any public mutator of a blueprint never faults** when called on a live blueprint of the
    running owner; only that blueprint's lists and its object are rewritten -/
theorem bpMutate_spec {r : Owner} {h : Heap} {b : Addr} {cb : Cell} (tok : Nat) (hg : Good h)
    (hb : h[b]? = some cb) (hk : cb.kind = .bpObj) (ho : cb.owner = r) :
    Runs 0 r (bpMutate tok b) h (fun _ h' => Evo r pBp h h') := by
  unfold bpMutate
  apply runs_bind
  apply runs_cellAt hb
  apply runs_bind
  refine runs_mono (runs_forIn _ (fun _ h1 => Evo r pBp h h1 ∧ h1[b]? = some cb) cb.slots [] h
    ⟨Evo.refl hg, hb⟩ ?_) ?_
  · intro d x rest h1 heq ⟨hevo, hb1⟩
    have hx : x ∈ cb.slots := by
      have : x ∈ d ++ x :: rest := by simp
      rw [← heq] at this; simpa using this
    split
    · rename_i l hl
      have hm : (x.1, Slot.ref l) ∈ cb.slots := by rw [← hl]; exact hx
      obtain ⟨cl, hcl, hkl, hol, _⟩ := bpObj_ref hevo.good hb1 hk hm
      apply runs_bind
      apply runs_cellAt hcl
      apply runs_bind
      have himm : ∀ ks ∈ cl.slots ++ [("", Slot.imm tok)], ∃ t, ks.2 = Slot.imm t := by
        intro ks hks
        simp only [List.mem_append, List.mem_singleton] at hks
        rcases hks with hks | hks
        · exact flat_imm (hevo.good.typed l cl hcl) (by rw [hkl]; rfl) ks hks
        · subst hks; exact ⟨tok, rfl⟩
      have hw : writable r cl = true := by simp [writable, hkl, Kind.frozen, hol, ho]
      have hco : cellOk h1 cl.kind (cl.slots ++ [("", Slot.imm tok)]) = true := by
        rw [hkl]; exact cellOk_flat rfl himm
      apply runs_write hcl hw (Or.inl (Nat.zero_le _)) (slotsOk_imm himm)
      apply runs_pure
      refine ⟨rfl, hevo.trans (evo_write hevo.good hcl hw (slotsOk_imm himm) hco (by simp [hkl])), ?_⟩
      have hne : l ≠ b := by
        intro heq; subst heq; rw [hb1] at hcl; cases hcl; rw [hk] at hkl; cases hkl
      rw [List.getElem?_set_ne hne]; exact hb1
    · apply runs_pure
      exact ⟨rfl, hevo, hb1⟩
  · intro _ h1 ⟨hevo, hb1⟩
    have hw : writable r cb = true := by simp [writable, hk, Kind.frozen, ho]
    have hso := slotsOk_retoken tok (hevo.good.closed b cb hb1)
    have hco := cellOk_retoken tok (hevo.good.typed b cb hb1)
    apply runs_write hb1 hw (Or.inl (Nat.zero_le _)) hso
    exact hevo.trans (evo_write hevo.good hb1 hw hso hco (by simp [hk]))

/-- **marker list assignment never faults** (`which` names one of the blueprint's lists) -/
theorem bpSetMarker_spec {r : Owner} {h : Heap} {b : Addr} {cb : Cell} (tok : Nat) (which : String) (hg : Good h)
    (hb : h[b]? = some cb) (hk : cb.kind = .bpObj) (ho : cb.owner = r) (hwhich : bpListKeys.contains which = true) :
    Runs 0 r (bpSetMarker tok b which) h (fun _ h' => Evo r pBp h h') := by
  unfold bpSetMarker
  apply runs_bind
  have himm : ∀ ks ∈ [("", Slot.imm tok)], ∃ t, ks.2 = Slot.imm t := by
    intro ks hks; simp only [List.mem_singleton] at hks; subst hks; exact ⟨tok, rfl⟩
  have hso : slotsOk h .bpList r [("", Slot.imm tok)] = true := slotsOk_imm himm
  have hco : cellOk h .bpList [("", Slot.imm tok)] = true := cellOk_flat rfl himm
  apply runs_alloc hso
  have hevo : Evo r pBp h (h ++ [⟨.bpList, r, [("", Slot.imm tok)]⟩]) := evo_alloc hg hso hco
  have hb1 : (h ++ [⟨.bpList, r, [("", Slot.imm tok)]⟩])[b]? = some cb := by
    rw [List.getElem?_append_left (lt_of_get hb)]; exact hb
  have hw : writable r cb = true := by simp [writable, hk, Kind.frozen, ho]
  have hnew : BpSlot r (h ++ [⟨.bpList, r, [("", Slot.imm tok)]⟩]) (which, .ref h.length) := bpSlot_new hwhich
  have hkey : which ∈ cb.slots.map (·.1) := by
    rw [cellOk_keys (hg.typed b cb hb) (by rw [hk]; rfl)]
    have : which ∈ bpListKeys := by simpa using hwhich
    simp [this]
  have hso2 : slotsOk (h ++ [⟨.bpList, r, [("", Slot.imm tok)]⟩]) cb.kind cb.owner
      (upsertSlot cb.slots which (.ref h.length)) = true := by
    apply slotsOk_upsertSlot (hevo.good.closed b cb hb1)
    rw [hk, ho]
    exact slotsOk_intro rfl (fun ks hks => by simp only [List.mem_singleton] at hks; subst hks; exact hnew.2)
  have hco2 : cellOk (h ++ [⟨.bpList, r, [("", Slot.imm tok)]⟩]) cb.kind
      (upsertSlot cb.slots which (.ref h.length)) = true := by
    apply cellOk_upsertSlot (hevo.good.typed b cb hb1) _ (Or.inr hkey)
    rw [hk]; exact hnew.1
  apply runs_setKey hb1 hw (Or.inl (Nat.zero_le _)) hso2
  exact hevo.trans (evo_write hevo.good hb1 hw hso2 hco2 (by simp [hk]))

end BB.Heap
