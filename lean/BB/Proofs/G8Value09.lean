/-
  BB.Proofs.G8Value09 — value-level statements for property C09 ("copies and stored/derived
  objects are independent of their source"): what `addSubSequence`, `+` and the loops of the sweep
  tools store, position by position, stated about the public model operations for all inputs.
-/
import BB.Model.Describe
import BB.Model.Tools
import BB.Proofs.Basic
import BB.Proofs.DictEq
import BB.Proofs.G5Add
import BB.Proofs.G5Sweep
import BB.Proofs.G5Repeat
import BB.Properties.C16

namespace BB.C09V
open BB BB.Sequence BB.Tools

/-! ### item 3 — `addSubSequence` stores `storedSub` and leaves the other positions alone -/

/-- a store holds elements only exactly when it is the element store `d` with every element
    wrapped as an entry (`elementsOnly` is the guard of `addSubSequence` against nesting) -/
theorem elementsOnly_some_iff (data : Dict Int Entry) (d : Dict Int Element) :
    elementsOnly data = some d ↔ data = d.map (fun pe => (pe.1, Entry.el pe.2)) := by
  induction data generalizing d with
  | nil =>
    cases d with
    | nil => simp [elementsOnly]
    | cons x xs => simp [elementsOnly]
  | cons x xs ih =>
    obtain ⟨p, en⟩ := x
    cases en with
    | sub sb =>
      simp only [elementsOnly, reduceCtorEq, false_iff]
      intro h
      cases d with
      | nil => cases h
      | cons y ys => simp at h
    | el e =>
      simp only [elementsOnly, Option.map_eq_some_iff]
      constructor
      · rintro ⟨l, hl, rfl⟩
        simp [(ih l).mp hl]
      · intro h
        cases d with
        | nil => cases h
        | cons y ys =>
          simp only [List.map_cons, List.cons.injEq, Prod.mk.injEq, Entry.el.injEq] at h
          obtain ⟨⟨rfl, rfl⟩, h2⟩ := h
          exact ⟨ys, (ih ys).mpr h2, rfl⟩

example : elementsOnly [(1, Entry.el {}), (2, Entry.el {})] = some [(1, {}), (2, {})] := by decide

/-- C09, "adding a subsequence to a sequence … yields an object that initially has the same
    description and forged output as its source": an accepted subsequence (elements only, same
    sample rate) is stored as `storedSub sub d` — its elements, its sequencing, its settings, not its
    name — under the position, with the default sequencing entry of a subsequence; every other
    position of the store and of the sequencing table, the AWG settings and the name are untouched;
    nothing is raised -/
theorem addSubSequence_stores (s : Sequence) (pos : Int) (sub : Sequence) (d : Dict Int Element)
    (hd : elementsOnly sub.data = some d) (hsr : sub.getSR = s.getSR) :
    (s.addSubSequence pos sub).err = none ∧
    Dict.get? (s.addSubSequence pos sub).st.data pos = some (.sub (storedSub sub d)) ∧
    Dict.get? (s.addSubSequence pos sub).st.sequencing pos = some defaultSeqSub ∧
    (∀ p, p ≠ pos → Dict.get? (s.addSubSequence pos sub).st.data p = Dict.get? s.data p) ∧
    (∀ p, p ≠ pos → Dict.get? (s.addSubSequence pos sub).st.sequencing p = Dict.get? s.sequencing p) ∧
    (s.addSubSequence pos sub).st.awgspecs = s.awgspecs ∧
    (s.addSubSequence pos sub).st.name = s.name := by
  unfold Sequence.addSubSequence
  simp only [hd, hsr, ne_eq, not_true_eq_false, if_false]
  exact ⟨trivial, Dict.get?_upsert_self _ _ _, Dict.get?_upsert_self _ _ _,
    fun p hp => Dict.get?_upsert_other _ _ _ _ hp, fun p hp => Dict.get?_upsert_other _ _ _ _ hp, trivial, trivial⟩

/-- the exact new state of an accepted `addSubSequence` (one `d[pos] = …` on the store and one on
    the sequencing table) -/
theorem addSubSequence_state (s : Sequence) (pos : Int) (sub : Sequence) (d : Dict Int Element)
    (hd : elementsOnly sub.data = some d) (hsr : sub.getSR = s.getSR) :
    (s.addSubSequence pos sub).st =
      { s with data := Dict.upsert s.data pos (.sub (storedSub sub d))
               sequencing := Dict.upsert s.sequencing pos defaultSeqSub } := by
  unfold Sequence.addSubSequence
  simp only [hd, hsr, ne_eq, not_true_eq_false, if_false]

/-- the order of the positions after an accepted `addSubSequence`: an occupied position keeps its
    place, a new one goes to the end (Python dict order) -/
theorem addSubSequence_keys (s : Sequence) (pos : Int) (sub : Sequence) (d : Dict Int Element)
    (hd : elementsOnly sub.data = some d) (hsr : sub.getSR = s.getSR) :
    Dict.keys (s.addSubSequence pos sub).st.data =
      if pos ∈ Dict.keys s.data then Dict.keys s.data else Dict.keys s.data ++ [pos] := by
  rw [addSubSequence_state s pos sub d hd hsr]
  simp only
  split
  · rename_i h; exact Dict.keys_upsert_of_mem _ _ _ h
  · rename_i h; exact Dict.keys_upsert_of_not_mem _ _ _ h

/-- the element of the non-vacuity examples: one raw-array channel of two samples at SR 1 -/
def exEl : Element := ⟨[(.int 1, { data := .arr [("wfm", [1, 2])] (.num 1) })], none⟩

/-- the argument used in the non-vacuity examples: a sequence of one element at SR 1 -/
def exSub : Sequence :=
  { data := [(1, .el exEl)], sequencing := [(1, ⟨0, 3, 0, 0, 0⟩)], awgspecs := [("SR", .val (.num 1))], name := "sub" }

/-- the receiving sequence of the non-vacuity examples: SR 1, one element at position 1 -/
def exHost : Sequence :=
  { data := [(1, .el exEl)], sequencing := [(1, defaultSeqEl)], awgspecs := [("SR", .val (.num 1))], name := "host" }

example : elementsOnly exSub.data = some [(1, exEl)] ∧ exSub.getSR = exHost.getSR := by decide

example : Dict.get? (exHost.addSubSequence 2 exSub).st.data 2 = some (.sub (storedSub exSub [(1, exEl)])) ∧
    Dict.get? (exHost.addSubSequence 2 exSub).st.data 1 = some (.el exEl) := by
  refine ⟨(addSubSequence_stores exHost 2 exSub [(1, exEl)] (by decide) (by decide)).2.1, ?_⟩
  rw [(addSubSequence_stores exHost 2 exSub [(1, exEl)] (by decide) (by decide)).2.2.2.1 1 (by decide)]
  rfl

/-- C09, refusal 1: an argument that itself holds a subsequence (nesting) is refused with a
    ValueError and the receiving sequence is exactly what it was -/
theorem addSubSequence_nested_refused (s : Sequence) (pos : Int) (sub : Sequence)
    (hd : elementsOnly sub.data = none) :
    (s.addSubSequence pos sub).st = s ∧ (s.addSubSequence pos sub).err = some .value := by
  unfold Sequence.addSubSequence
  simp only [hd]
  exact ⟨trivial, trivial⟩

example : elementsOnly ({ data := [(1, .sub {})] } : Sequence).data = none := by decide

/-- C09, refusal 2: an argument with another sample rate is refused with a ValueError and the
    receiving sequence is exactly what it was -/
theorem addSubSequence_SR_refused (s : Sequence) (pos : Int) (sub : Sequence) (hsr : sub.getSR ≠ s.getSR) :
    (s.addSubSequence pos sub).st = s ∧ (s.addSubSequence pos sub).err = some .value := by
  unfold Sequence.addSubSequence
  split
  · exact ⟨rfl, rfl⟩
  · simp only [hsr, ne_eq, not_false_eq_true, if_true]
    exact ⟨trivial, trivial⟩

example : exSub.getSR ≠ ({} : Sequence).getSR := by decide

/-- `addSubSequence` is accepted exactly when the argument holds elements only and has the
    receiver's sample rate (no other guard: the model, like the code, does not validate the
    subsequence) -/
theorem addSubSequence_ok_iff (s : Sequence) (pos : Int) (sub : Sequence) :
    (s.addSubSequence pos sub).err = none ↔ (∃ d, elementsOnly sub.data = some d) ∧ sub.getSR = s.getSR := by
  constructor
  · intro h
    cases hd : elementsOnly sub.data with
    | none => rw [(addSubSequence_nested_refused s pos sub hd).2] at h; cases h
    | some d =>
      refine ⟨⟨d, rfl⟩, ?_⟩
      by_contra hsr
      rw [(addSubSequence_SR_refused s pos sub hsr).2] at h; cases h
  · rintro ⟨⟨d, hd⟩, hsr⟩
    exact (addSubSequence_stores s pos sub d hd hsr).1

example : (exHost.addSubSequence 2 exSub).err = none :=
  (addSubSequence_ok_iff exHost 2 exSub).mpr ⟨⟨[(1, exEl)], by decide⟩, by decide⟩

/-! #### what is stored is a faithful copy of the source -/

/-- the stored copy has the source's sequencing table and AWG settings, no name, and holds at
    every position exactly the element the source holds there -/
theorem storedSub_fields (sub : Sequence) (d : Dict Int Element) (hd : elementsOnly sub.data = some d) :
    (storedSub sub d).sequencing = sub.sequencing ∧ (storedSub sub d).awgspecs = sub.awgspecs ∧
    (storedSub sub d).name = "" ∧ Dict.keys (storedSub sub d).data = Dict.keys sub.data ∧
    (storedSub sub d).getSR = sub.getSR ∧
    ∀ p, (Dict.get? (storedSub sub d).data p).map Entry.el = Dict.get? sub.data p := by
  have hdat := (elementsOnly_some_iff _ _).mp hd
  refine ⟨rfl, rfl, rfl, ?_, rfl, fun p => ?_⟩
  · rw [hdat]; simp [storedSub, Dict.keys, List.map_map, Function.comp_def]
  · rw [hdat]
    have := Dict.get?_map_key_val d id (fun _ _ h => h) Entry.el p
    simpa [storedSub] using this.symm

example : (Dict.get? (storedSub exSub [(1, exEl)]).data 1).map Entry.el = Dict.get? exSub.data 1 := rfl

/-- the stored copy describes itself exactly as the source sequence does (same fields, same
    error if an element cannot be described) -/
theorem storedSub_toDesc (sub : Sequence) (d : Dict Int Element) (hd : elementsOnly sub.data = some d) :
    subToDesc (storedSub sub d) = sub.toDesc := by
  have hdat := (elementsOnly_some_iff _ _).mp hd
  unfold Sequence.toDesc subToDesc
  rw [hdat, G5.mapM_map_ok]
  have hfun : (fun x : Int × Element => posField sub (x.1, Entry.el x.2)) =
      (fun x : Int × Element =>
        match x with
        | (pos, e) => ((do
          let sq := match Dict.get? (storedSub sub d).sequencing pos with | some q => seqSetJ q | none => J.str "Not set"
          pure (toString pos, J.obj [("channels", ← e.toDesc), ("sequencing", sq)])) : Except Err (String × J))) := by
    funext x
    obtain ⟨p, e⟩ := x
    unfold posField seqnJ
    simp only [storedSub]
    cases e.toDesc <;> rfl
  rw [hfun]
  simp only [storedSub]
  generalize List.mapM (m := Except Err) (β := String × J) _ d = r
  cases r <;> rfl

example : subToDesc (storedSub exSub [(1, exEl)]) = exSub.toDesc := storedSub_toDesc exSub _ (by decide)

/-- the stored copy passes / fails `checkConsistency` exactly as the source does -/
theorem storedSub_checkConsistency (sub : Sequence) (d : Dict Int Element) (hd : elementsOnly sub.data = some d) :
    SubSeq.checkConsistency (storedSub sub d) = sub.checkConsistency := by
  have hdat := (elementsOnly_some_iff _ _).mp hd
  unfold Sequence.checkConsistency SubSeq.checkConsistency
  have hv : Dict.vals sub.data = (Dict.vals d).map Entry.el := by
    rw [hdat]; simp [Dict.vals, List.map_map, Function.comp_def]
  have hk : Dict.keys sub.data = Dict.keys d := by
    rw [hdat]; simp [Dict.keys, List.map_map, Function.comp_def]
  rw [hv, hk, G5.mapM_map_ok, G5.mapM_map_ok]
  have hch : (Dict.vals d).mapM (fun x => Entry.channels (Entry.el x)) = .ok ((Dict.vals d).map Element.channels) :=
    mapM_ok_of_forall _ _ _ (fun x _ => rfl)
  rw [hch]
  simp only [storedSub, Entry.getSR, List.map_map, Function.comp_def]
  cases List.mapM (fun e : Element => e.getSR) (Dict.vals d) <;> rfl

example : SubSeq.checkConsistency (storedSub exSub [(1, exEl)]) = exSub.checkConsistency :=
  storedSub_checkConsistency exSub _ (by decide)

/-- the stored copy reports the channels, the number of points and the duration of the source -/
theorem storedSub_queries (sub : Sequence) (d : Dict Int Element) (hd : elementsOnly sub.data = some d) :
    SubSeq.channels (storedSub sub d) = sub.channels ∧
    SubSeq.points (storedSub sub d) = sub.points ∧
    SubSeq.duration (storedSub sub d) = sub.duration := by
  have hdat := (elementsOnly_some_iff _ _).mp hd
  refine ⟨?_, ?_, ?_⟩
  · unfold Sequence.channels SubSeq.channels
    rw [storedSub_checkConsistency sub d hd]
    have hg : Dict.get? sub.data 1 = (Dict.get? (storedSub sub d).data 1).map Entry.el :=
      ((storedSub_fields sub d hd).2.2.2.2.2 1).symm
    rw [hg]
    cases sub.checkConsistency with
    | error e => rfl
    | ok b =>
      cases b
      · rfl
      · cases Dict.get? (storedSub sub d).data 1 <;> rfl
  · unfold Sequence.points SubSeq.points
    have hv : Dict.vals sub.data = (Dict.vals d).map Entry.el := by
      rw [hdat]; simp [Dict.vals, List.map_map, Function.comp_def]
    rw [hv, List.foldlM_map]
    rfl
  · unfold Sequence.duration SubSeq.duration
    rw [hdat, List.foldlM_map]
    simp only [storedSub]
    congr 1
    funext acc x
    unfold posDuration
    simp only [Entry.duration]
    cases Dict.get? sub.sequencing x.1 with
    | none => rfl
    | some q => cases x.2.duration <;> rfl

example : SubSeq.duration (storedSub exSub [(1, exEl)]) = exSub.duration :=
  (storedSub_queries exSub _ (by decide)).2.2

/-! ### item 4 — the entries of `a + b` are copies of the operands' entries -/

/-- storing re-keyed, transformed entries of a duplicate-free dictionary `l` into `d0` one after
    the other (`d[k + N] = g v`): afterwards key `key` holds `g` of what `l` holds at `key - N`,
    and what `d0` held where `l` has nothing -/
theorem get_foldl_upsert_shift {α β : Type} (l : Dict Int β) (N : Int) (g : β → α) (d0 : Dict Int α)
    (hl : Dict.WF l) (key : Int) :
    Dict.get? (l.foldl (fun d (p : Int × β) => Dict.upsert d (p.1 + N) (g p.2)) d0) key =
      ((Dict.get? l (key - N)).map g).or (Dict.get? d0 key) := by
  induction l generalizing d0 with
  | nil => rfl
  | cons x xs ih =>
    obtain ⟨k1, v1⟩ := x
    have hnd : k1 ∉ Dict.keys xs ∧ Dict.WF xs := by
      unfold Dict.WF at hl
      simp only [Dict.keys, List.map_cons, List.nodup_cons] at hl
      exact hl
    simp only [List.foldl_cons]
    rw [ih _ hnd.2]
    by_cases hk : k1 = key - N
    · have hnone : Dict.get? xs (key - N) = none := by
        cases hg : Dict.get? xs (key - N) with
        | none => rfl
        | some v =>
          exfalso
          apply hnd.1
          rw [hk]
          exact (Dict.get?_isSome_iff xs (key - N)).mp (by simp [hg])
      have hkey : k1 + N = key := by omega
      rw [hnone]
      rw [hkey, Dict.get?_upsert_self]
      simp [Dict.get?, hk]
    · have hne : key ≠ k1 + N := by omega
      rw [Dict.get?_upsert_other _ _ _ _ hne]
      have : Dict.get? ((k1, v1) :: xs) (key - N) = Dict.get? xs (key - N) := by
        simp [Dict.get?, hk]
      rw [this]

/-- the exact guard of `+`: it returns a sequence iff both operands pass `checkConsistency` and
    carry equal AWG settings (dict equality); the result then is `addCore a b` -/
theorem add_guard (a b c : Sequence) :
    a.add b = .ok c ↔ a.checkConsistency = .ok true ∧ b.checkConsistency = .ok true ∧
      Dict.eqBy (· == ·) a.awgspecs b.awgspecs = true ∧ c = addCore a b := C16.add_ok_iff a b c

/-- the store of `addCore a b`, key by key, whenever `b` lists no position twice -/
theorem addCore_data_get (a b : Sequence) (hwf : Dict.WF b.data) (k : Int) :
    Dict.get? (addCore a b).data k =
      ((Dict.get? b.data (k - (a.data.length : Int))).map copyEntry).or ((Dict.get? a.data k).map copyEntry) := by
  have h1 := Dict.get?_map_key_val a.data id (fun _ _ h => h) copyEntry k
  simp only [id] at h1
  rw [← h1]
  exact get_foldl_upsert_shift b.data (a.data.length : Int) copyEntry
    (a.data.map (fun (x : Int × Entry) => (x.1, copyEntry x.2))) hwf k

/-- **C09 for `+` (store)**: when `a + b` returns `c`, every position of `c` holds a `copyEntry` of an
    operand's entry — for ANY key `k`: `a`'s entry at `k` if `k` is a position of `a`, else `b`'s entry
    at `k - len(a)` (nothing if `b` has none there); nothing else is in `c` -/
theorem add_entries (a b c : Sequence) (h : a.add b = .ok c) (k : Int) :
    Dict.get? c.data k =
      if k ∈ Dict.keys a.data then (Dict.get? a.data k).map copyEntry
      else (Dict.get? b.data (k - (a.data.length : Int))).map copyEntry := by
  obtain ⟨ha, hb, _, rfl⟩ := (C16.add_ok_iff a b c).mp h
  have hpa := C16.positions_of_consistent a ha
  have hpb := C16.positions_of_consistent b hb
  split
  · rename_i hk
    exact C16.addCore_get_left a b hpa hpb k hk
  · rename_i hk
    rw [addCore_data_get a b hpb.wf k]
    have hnone : Dict.get? a.data k = none := by
      cases hg : Dict.get? a.data k with
      | none => rfl
      | some v => exact absurd ((Dict.get?_isSome_iff a.data k).mp (by simp [hg])) hk
    rw [hnone]
    cases Dict.get? b.data (k - (a.data.length : Int)) <;> rfl

/-- C09 for `+`, the two halves in the wording of the clause: `a`'s positions hold copies of `a`'s
    entries, position `k + len(a)` holds a copy of `b`'s entry at `k`; the result has
    `len(a) + len(b)` positions (so there is nothing else) -/
theorem add_entries_split (a b c : Sequence) (h : a.add b = .ok c) :
    (∀ k en, Dict.get? a.data k = some en → Dict.get? c.data k = some (copyEntry en)) ∧
    (∀ k en, Dict.get? b.data k = some en → Dict.get? c.data (k + (a.data.length : Int)) = some (copyEntry en)) ∧
    c.data.length = a.data.length + b.data.length ∧
    c.data = a.data.map (fun p => (p.1, copyEntry p.2)) ++
      b.data.map (fun p => (p.1 + (a.data.length : Int), copyEntry p.2)) := by
  obtain ⟨hlen, _, hdat, hl, hr⟩ := C16.add_positions a b c h
  refine ⟨fun k en hk => ?_, fun k en hk => ?_, hlen, hdat⟩
  · rw [hl k ((Dict.get?_isSome_iff _ _).mp (by simp [hk])), hk]; rfl
  · rw [hr k ((Dict.get?_isSome_iff _ _).mp (by simp [hk])), hk]; rfl

/-- **C09 for `+` (sequencing)**: for ANY key `k`, the sequencing table of `a + b` holds `b`'s entry
    for `k - len(a)` with goto / jump target retargeted if `b` has one there, else `a`'s own entry
    for `k`, untouched.  (`Dict.WF b.sequencing`: no position listed twice — true of every sequence
    built through the public interface.) -/
theorem add_sequencing_get (a b c : Sequence) (h : a.add b = .ok c) (hwf : Dict.WF b.sequencing) (k : Int) :
    Dict.get? c.sequencing k =
      ((Dict.get? b.sequencing (k - (a.data.length : Int))).map (retargetSeq (a.data.length : Int))).or
        (Dict.get? a.sequencing k) := by
  obtain ⟨_, _, _, rfl⟩ := (C16.add_ok_iff a b c).mp h
  exact get_foldl_upsert_shift b.sequencing (a.data.length : Int) (retargetSeq (a.data.length : Int)) a.sequencing hwf k

/-- C09 for `+` (sequencing), for operands whose sequencing tables list exactly their positions
    (`Aligned`, an invariant of the public interface, `C16.built_aligned`): `a`'s positions keep
    their sequencing entry, position `k + len(a)` gets `b`'s entry for `k`, retargeted -/
theorem add_sequencing_split (a b c : Sequence) (h : a.add b = .ok c) (ia : C16.Aligned a) (ib : C16.Aligned b) :
    (∀ k ∈ Dict.keys a.data, Dict.get? c.sequencing k = Dict.get? a.sequencing k) ∧
    (∀ k ∈ Dict.keys b.data, Dict.get? c.sequencing (k + (a.data.length : Int)) =
      (Dict.get? b.sequencing k).map (retargetSeq (a.data.length : Int))) := by
  obtain ⟨ha, hb, _, rfl⟩ := (C16.add_ok_iff a b c).mp h
  have hpa := C16.positions_of_consistent a ha
  have hpb := C16.positions_of_consistent b hb
  exact ⟨fun k hk => C16.addCore_seq_left a b hpa hpb ia ib k hk,
    fun k hk => C16.addCore_seq_right a b hpa hpb ia ib k hk⟩

/-- C09 for `+` (settings, name): the sum carries the right operand's AWG settings — which are
    dict-equal to the left operand's — and no name -/
theorem add_settings (a b c : Sequence) (h : a.add b = .ok c) :
    c.awgspecs = b.awgspecs ∧ Dict.eqBy (· == ·) a.awgspecs c.awgspecs = true ∧ c.name = "" := by
  obtain ⟨_, _, h3, rfl⟩ := (C16.add_ok_iff a b c).mp h
  exact ⟨rfl, h3, rfl⟩

/-- the copy `+` stores is the entry itself for an element, and the subsequence without its name
    for a subsequence: same elements, sequencing, settings -/
theorem copyEntry_spec (en : Entry) :
    (∀ e, en = .el e → copyEntry en = .el e) ∧
    (∀ sub, en = .sub sub → copyEntry en = .sub { sub with name := "" }) :=
  ⟨fun _ h => by rw [h]; rfl, fun _ h => by rw [h]; rfl⟩

/-- non-vacuity: `exHost + exHost` is accepted -/
example : (exHost.add exHost).toOption.isSome = true := by decide +kernel

example : Dict.WF exHost.sequencing ∧ C16.Aligned exHost := by
  refine ⟨?_, rfl⟩
  unfold Dict.WF
  decide

/-! ### item 5 — the loops of the sweep tools store changed copies, position by position -/

/-- **C09 for `makeLinearlyVaryingSequence` (its loop)**, from ANY starting sequence and index:
    position `ind + j + 1` of the result holds the base element — `baseelement.copy()`, the same
    value — with `applyChange` applied for the `j`-th value (the change was accepted, the changed
    element validated: its cache is set) under the default sequencing entry; every position outside
    `ind+1 … ind+len(vals)`, the AWG settings and the name are what they were -/
theorem linLoop_positions (base : Element) (ch : Chan) (name : String) (arg : Val) (vals : List Rat) (ind : Nat)
    (s r : Sequence) (h : linLoop base ch name arg vals ind s = .ok r) :
    (∀ j (hj : j < vals.length), ∃ m,
      (applyChange base.copy ch name arg (.num vals[j])).err = none ∧
      (applyChange base.copy ch name arg (.num vals[j])).st.validate = .ok m ∧
      Dict.get? r.data ((ind + j + 1 : Nat) : Int) =
        some (.el { (applyChange base.copy ch name arg (.num vals[j])).st with cache := some m }) ∧
      Dict.get? r.sequencing ((ind + j + 1 : Nat) : Int) = some defaultSeqEl) ∧
    (∀ p : Int, (p ≤ (ind : Int) ∨ ((ind + vals.length : Nat) : Int) < p) →
      Dict.get? r.data p = Dict.get? s.data p ∧ Dict.get? r.sequencing p = Dict.get? s.sequencing p) ∧
    r.awgspecs = s.awgspecs ∧ r.name = s.name := by
  induction vals generalizing ind s with
  | nil =>
    simp only [linLoop, Except.ok.injEq] at h
    subst h
    exact ⟨fun j hj => by simp at hj, fun p _ => ⟨rfl, rfl⟩, rfl, rfl⟩
  | cons v vs ih =>
    unfold linLoop at h
    cases hc : (applyChange base ch name arg (.num v)).toExcept with
    | error er => rw [hc] at h; cases h
    | ok e =>
      rw [hc] at h
      simp only at h
      have herr : (applyChange base ch name arg (.num v)).err = none ∧ e = (applyChange base ch name arg (.num v)).st := by
        unfold Res.toExcept at hc
        split at hc
        · cases hc
        · rename_i hn; cases hc; exact ⟨hn, rfl⟩
      cases ha : (s.addElement ((ind + 1 : Nat) : Int) e).toExcept with
      | error er => rw [ha] at h; cases h
      | ok s1 =>
        rw [ha] at h
        simp only at h
        obtain ⟨m, hv, hs1⟩ := G5.addElement_toExcept_ok s s1 _ e ha
        obtain ⟨ih1, ih2, ih3, ih4⟩ := ih (ind + 1) s1 h
        have hd1 : Dict.get? s1.data ((ind + 1 : Nat) : Int) = some (.el { e with cache := some m }) := by
          rw [hs1]; exact Dict.get?_upsert_self _ _ _
        have hq1 : Dict.get? s1.sequencing ((ind + 1 : Nat) : Int) = some defaultSeqEl := by
          rw [hs1]; exact Dict.get?_upsert_self _ _ _
        refine ⟨?_, ?_, by rw [ih3, hs1], by rw [ih4, hs1]⟩
        · intro j hj
          cases j with
          | zero =>
            obtain ⟨k1, k2⟩ := ih2 ((ind + 1 : Nat) : Int) (Or.inl (by push_cast; omega))
            refine ⟨m, herr.1, herr.2 ▸ hv, ?_, ?_⟩
            · simp only [Nat.add_zero, List.getElem_cons_zero]
              rw [k1, hd1, herr.2]; rfl
            · simp only [Nat.add_zero]
              rw [k2, hq1]
          | succ j =>
            obtain ⟨m2, h1, h2, h3, h4⟩ := ih1 j (by simpa using hj)
            have e1 : ind + (j + 1) + 1 = ind + 1 + j + 1 := by omega
            refine ⟨m2, by simpa using h1, by simpa using h2, ?_, ?_⟩
            · rw [e1]; simpa using h3
            · rw [e1]; exact h4
        · intro p hp
          have hp1 : p ≤ ((ind + 1 : Nat) : Int) ∨ ((ind + 1 + vs.length : Nat) : Int) < p := by
            rcases hp with hp | hp
            · left; push_cast; omega
            · right; simp only [List.length_cons] at hp; push_cast at hp ⊢; omega
          obtain ⟨k1, k2⟩ := ih2 p hp1
          have hne : p ≠ ((ind + 1 : Nat) : Int) := by
            rcases hp with hp | hp
            · push_cast; omega
            · simp only [List.length_cons] at hp; push_cast at hp ⊢; omega
          rw [k1, k2, hs1]
          exact ⟨Dict.get?_upsert_other _ _ _ _ hne, Dict.get?_upsert_other _ _ _ _ hne⟩

/-- the base element of the sweep examples: a one-segment ramp blueprint on channel 1 -/
def exRampBP : BP :=
  { segs := [{ name := "ramp", fn := Fn.rampFn, args := [.num 0, .num 1], dur := .num 1 }], SR := .num 10 }

/-- the base element of the sweep examples: the ramp blueprint on channel 1 -/
def exBase : Element := ⟨[(.int 1, { data := .bp exRampBP })], none⟩

example : (linLoop exBase (.int 1) "ramp" (.str "stop") [1, 2] 0 (({} : Sequence).setSR (.num 10))).toOption.isSome = true := by
  decide +kernel

/-- **C09 for `makeLinearlyVaryingSequence`**: the returned sequence has exactly the positions
    `1 … n` (`n` the number of swept values), position `j + 1` holding a copy of the base element with
    the `j`-th value applied (change accepted, element validated), default sequencing everywhere,
    and the base element's sample rate as its only AWG setting -/
theorem makeLinearly_positions (base : Element) (ch : Chan) (name : String) (arg : Val) (start stop step : Rat)
    (r : Sequence) (h : makeLinearlyVaryingSequence base ch name arg start stop step = .ok r) :
    ∃ sr, base.getSR = .ok sr ∧ r.awgspecs = [("SR", .val sr)] ∧
      Dict.keys r.data = oneTo (linspace start stop (linCount start stop step).toNat).length ∧
      ∀ j (hj : j < (linspace start stop (linCount start stop step).toNat).length), ∃ m,
        (applyChange base.copy ch name arg (.num (linspace start stop (linCount start stop step).toNat)[j])).err = none ∧
        (applyChange base.copy ch name arg (.num (linspace start stop (linCount start stop step).toNat)[j])).st.validate = .ok m ∧
        Dict.get? r.data ((j + 1 : Nat) : Int) =
          some (.el { (applyChange base.copy ch name arg
            (.num (linspace start stop (linCount start stop step).toNat)[j])).st with cache := some m }) ∧
        Dict.get? r.sequencing ((j + 1 : Nat) : Int) = some defaultSeqEl := by
  unfold makeLinearlyVaryingSequence at h
  cases hsr : base.getSR with
  | error er => rw [hsr] at h; cases h
  | ok sr =>
    rw [hsr] at h
    simp only at h
    split at h
    · cases h
    · split at h
      · cases h
      · obtain ⟨hf, _, _, _⟩ := G5.linLoop_spec base ch name arg _ 0 _ r (G5.filled_empty _) h
        obtain ⟨h1, _, h3, _⟩ := linLoop_positions base ch name arg _ 0 _ r h
        refine ⟨sr, rfl, h3, by simpa using hf.1, fun j hj => ?_⟩
        obtain ⟨m, a1, a2, a3, a4⟩ := h1 j hj
        exact ⟨m, a1, a2, by simpa using a3, by simpa using a4⟩

example : (makeLinearlyVaryingSequence exBase (.int 1) "ramp" (.str "stop") 1 2 1).toOption.isSome = true := by
  decide +kernel

/-- **C09 for `repeatAndVarySequence` (its loop)**: block `i` of the result — the positions
    `len(acc) + i·len(seq) + p`, `p` a position of `seq` — consists of `copyEntry` of the entries of
    `seq.copy()` with the changes of step `steps[i]` applied (`G5.stepEntry`: every variation addressed
    to `p`, in order, through `applyChange`; subsequence entries are left alone); the settings are
    the accumulator's -/
theorem repeatLoop_blocks (seq : Sequence) (pv : List (Int × Variation)) (steps : List Nat) (acc r : Sequence)
    (h : repeatLoop seq pv steps acc = .ok r) (hsp : acc.awgspecs = seq.awgspecs) :
    r.data.length = acc.data.length + steps.length * seq.data.length ∧ r.awgspecs = acc.awgspecs ∧
    ∀ i (hi : i < steps.length) (p : Int) (en : Entry), Dict.get? seq.copy.data p = some en →
      Dict.get? r.data (p + ((acc.data.length + i * seq.data.length : Nat) : Int)) =
        some (copyEntry (G5.stepEntry steps[i] pv p en)) := by
  obtain ⟨temps, hl, hall, hfold⟩ := G5.repeatLoop_spec seq pv steps acc r h
  have hspec : ∀ i (hi : i < temps.length),
      Dict.keys temps[i].data = Dict.keys seq.data ∧ temps[i].awgspecs = seq.awgspecs ∧
      ∀ p en, Dict.get? seq.data p = some en →
        Dict.get? temps[i].data p = some (G5.stepEntry (steps[i]'(by omega)) pv p en) := by
    intro i hi
    obtain ⟨a1, _, a3, a4⟩ := G5.applyStep_spec _ pv seq.copy temps[i] (hall i (by omega) hi)
    exact ⟨a1, a3, a4⟩
  have hN : ∀ t ∈ temps, t.data.length = seq.data.length := by
    intro t ht
    obtain ⟨i, hi, rfl⟩ := List.getElem_of_mem ht
    have := congrArg List.length (hspec i hi).1
    simpa [Dict.keys] using this
  have hS : ∀ t ∈ temps, t.awgspecs = acc.awgspecs := by
    intro t ht
    obtain ⟨i, hi, rfl⟩ := List.getElem_of_mem ht
    rw [(hspec i hi).2.1, hsp]
  obtain ⟨_, e2, e3, e4⟩ := G5.foldAdd_spec temps acc r seq.data.length hfold hN hS
  refine ⟨by rw [e2, hl], e3, fun i hi p en hp => ?_⟩
  have hi' : i < temps.length := by omega
  have hp' : Dict.get? seq.data p = some en := hp
  have hmem : p ∈ Dict.keys temps[i].data := by
    rw [(hspec i hi').1]
    exact (Dict.get?_isSome_iff _ _).mp (by simp [hp'])
  rw [e4 i hi' p hmem, (hspec i hi').2.2 p en hp']
  rfl

/-- **C09 for `repeatAndVarySequence`**: the returned sequence has `n·len(seq)` positions (`n` the
    number of steps) and the settings of `seq`; position `i·len(seq) + p` holds `copyEntry` of the
    entry of `seq.copy()` at `p` with the changes of step `i` applied -/
theorem repeatAndVary_blocks (seq : Sequence) (lens : List Nat) (poss : List Int) (vars : List Variation)
    (r : Sequence) (h : repeatAndVarySequence seq lens poss vars = .ok r) :
    ∃ n, sweepSteps lens vars = .ok n ∧ seq.checkConsistency = .ok true ∧
      r.data.length = n * seq.data.length ∧ r.awgspecs = seq.awgspecs ∧
      ∀ i (_ : i < n) (p : Int) (en : Entry), Dict.get? seq.copy.data p = some en →
        Dict.get? r.data (p + ((i * seq.data.length : Nat) : Int)) =
          some (copyEntry (G5.stepEntry i (poss.zip vars) p en)) := by
  unfold repeatAndVarySequence at h
  cases hc : seq.checkConsistency with
  | error er => rw [hc] at h; cases h
  | ok b =>
    cases b with
    | false => rw [hc] at h; cases h
    | true =>
      rw [hc] at h
      simp only at h
      cases hn : sweepSteps lens vars with
      | error er => rw [hn] at h; cases h
      | ok n =>
        rw [hn] at h
        simp only at h
        obtain ⟨b1, b2, b3⟩ := repeatLoop_blocks seq (poss.zip vars) (List.range n) { awgspecs := seq.awgspecs } r h rfl
        refine ⟨n, rfl, rfl, by simpa using b1, b2, fun i hi p en hp => ?_⟩
        have := b3 i (by simpa using hi) p en hp
        simpa using this

/-- the sequence repeated in the non-vacuity example: the ramp element at positions 1 and 2, SR 10 -/
def exRepSeq : Sequence :=
  (Sequence.addElement (Sequence.addElement (SeqCore.setSR ({} : Sequence) (.num 10)) 1 exBase).st 2 exBase).st

/-- non-vacuity: the loop and the tool return a sequence (two steps, the `stop` of the ramp at
    position 2 varied), with `2·2` positions; the accumulator carries `seq`'s settings -/
example :
    (repeatAndVarySequence exRepSeq [1, 1, 1, 1, 1] [2] [⟨.int 1, "ramp", .str "stop", [.num 2, .num 3]⟩]).map
      (fun s => Dict.keys s.data) = .ok [1, 2, 3, 4] ∧
    (repeatLoop exRepSeq [(2, ⟨.int 1, "ramp", .str "stop", [.num 2, .num 3]⟩)] [0, 1]
      { awgspecs := exRepSeq.awgspecs }).toOption.isSome = true ∧
    ({ awgspecs := exRepSeq.awgspecs } : Sequence).awgspecs = exRepSeq.awgspecs := by decide +kernel

end BB.C09V
