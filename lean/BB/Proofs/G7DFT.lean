/-
  BB.Proofs.G7DFT — more algebra of the pipeline `real(ifft(fft(x)·H))`:
  a spectrum supported on the DC bin is a constant signal; the Nyquist bin after two passes;
  powers of the transfer function compose additively.
-/
import BB.Proofs.DFT
import Mathlib.Tactic.FieldSimp
import Mathlib.Tactic.Ring
import Mathlib.Tactic.Linarith

namespace BB.G7
open ZMod Complex ComplexConjugate BB.DFT
variable {N : ℕ} [NeZero N]

/-- a signal whose spectrum vanishes away from the DC bin is constant, with value `𝓕 d 0 / N` -/
theorem const_of_dft_support (d : ZMod N → ℂ) (h : ∀ k, k ≠ 0 → 𝓕 d k = 0) (j : ZMod N) :
    d j = (N : ℂ)⁻¹ * 𝓕 d 0 := by
  have e : d = 𝓕⁻ (𝓕 d) := ((dft (N := N)).symm_apply_apply d).symm
  conv_lhs => rw [e]
  rw [invDFT_apply, Finset.sum_eq_single 0]
  · simp
  · intro k _ hk; rw [h k hk]; simp
  · intro h0; exact absurd (Finset.mem_univ _) h0

/-- two real signals whose spectra agree away from the DC bin differ by a real constant -/
theorem offset_of_dft_eq (x z : ZMod N → ℂ) (hx : IsReal x) (hz : IsReal z)
    (h : ∀ k, k ≠ 0 → 𝓕 z k = 𝓕 x k) : ∃ c : ℝ, ∀ j, z j = x j + (c : ℂ) := by
  have hd : ∀ k, k ≠ 0 → 𝓕 (z - x) k = 0 := by
    intro k hk
    rw [map_sub]; simp [h k hk]
  have hc := const_of_dft_support (z - x) hd
  refine ⟨((N : ℂ)⁻¹ * 𝓕 (z - x) 0).re, fun j => ?_⟩
  have hj := hc j
  have hreal : conj ((z - x) j) = (z - x) j := by
    simp only [Pi.sub_apply, map_sub, hx j, hz j]
  have : (((N : ℂ)⁻¹ * 𝓕 (z - x) 0).re : ℂ) = (z - x) j := by
    rw [← hj]
    exact (Complex.conj_eq_iff_re.mp hreal)
  rw [this]; simp

/-- the Nyquist bin (`−k = k`) after two passes: multiplied by the two real parts -/
theorem dft_applyTF_twice_nyquist (x H1 H2 : ZMod N → ℂ) (hx : IsReal x) (k : ZMod N) (hk : -k = k) :
    𝓕 (applyTF (applyTF x H1) H2) k = 𝓕 x k * (((H1 k).re * (H2 k).re : ℝ) : ℂ) := by
  rw [dft_applyTF_nyquist _ H2 (applyTF_real _ _) k hk, dft_applyTF_nyquist x H1 hx k hk]
  push_cast; ring

/-- `Re(w)·Re(w⁻¹) = Re(w)² / |w|²` — the factor a filter/compensation pair leaves on the
    Nyquist bin (`= cos²(arg w)`, `< 1` unless `w` is real) -/
theorem re_mul_re_inv (w : ℂ) : w.re * (w⁻¹).re = w.re ^ 2 / Complex.normSq w := by
  rw [Complex.inv_re]; ring

/-- powers compose additively also for a zero base when both exponents are positive -/
theorem zpow_add_of_pos (z : ℂ) (m n : ℤ) (hm : 0 < m) (hn : 0 < n) : z ^ m * z ^ n = z ^ (m + n) := by
  by_cases hz : z = 0
  · subst hz
    rw [zero_zpow m hm.ne', zero_zpow (m + n) (by omega)]; simp
  · rw [zpow_add₀ hz]

/-- `|1 + i·a|² = 1 + a²` -/
theorem normSq_one_add_I_mul (a : ℝ) : Complex.normSq (1 + I * (a : ℂ)) = 1 + a ^ 2 := by
  rw [Complex.normSq_apply]; simp; ring

/-- the first-order high pass `i·a/(1+i·a)`: real part and squared modulus are both `a²/(1+a²)` -/
theorem hp_re_normSq (a : ℝ) :
    ((I * (a : ℂ)) / (1 + I * (a : ℂ))).re = a ^ 2 / (1 + a ^ 2) ∧
    Complex.normSq ((I * (a : ℂ)) / (1 + I * (a : ℂ))) = a ^ 2 / (1 + a ^ 2) := by
  have hpos : (0 : ℝ) < 1 + a ^ 2 := by positivity
  constructor
  · rw [Complex.div_re, normSq_one_add_I_mul]
    simp
    field_simp
  · rw [map_div₀, normSq_one_add_I_mul, Complex.normSq_apply]
    simp
    ring

/-- the first-order low pass `1/(1+i·a)`: real part and squared modulus are both `1/(1+a²)` -/
theorem lp_re_normSq (a : ℝ) :
    ((1 : ℂ) / (1 + I * (a : ℂ))).re = 1 / (1 + a ^ 2) ∧
    Complex.normSq ((1 : ℂ) / (1 + I * (a : ℂ))) = 1 / (1 + a ^ 2) := by
  have hpos : (0 : ℝ) < 1 + a ^ 2 := by positivity
  constructor
  · rw [Complex.div_re, normSq_one_add_I_mul]
    simp
  · rw [map_div₀, normSq_one_add_I_mul]; simp

end BB.G7
