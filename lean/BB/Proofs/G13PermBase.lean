/-
  BB.Proofs.G13PermBase — light-weight part of the C20 "any insertion order" development (no
  Mathlib tactics in the import closure, so that `Properties/C20.lean` - imported by C19 - keeps its
  simp set): ok-direction relations, dictionaries with the same keys in any order (`DictLook`),
  elements holding the same channel entries in any order (`ElPerm`), the verdict proviso
  (`SameVerdict`), and the comparison of forged results up to the order of the channel
  dictionaries (`ForgedSame`).
-/
import BB.Proofs.G6Forge

namespace BB
open Element

/-! ### ok-direction relations -/

/-- if the left-hand side succeeds, the right-hand side succeeds with a related result -/
def OkRel {α β : Type} (S : α → β → Prop) (x : Except Err α) (y : Except Err β) : Prop :=
  ∀ u, x = .ok u → ∃ v, y = .ok v ∧ S u v

theorem mapM_okrel {α β γ δ : Type} (R : α → β → Prop) (S : γ → δ → Prop)
    (F : α → Except Err γ) (F' : β → Except Err δ) (hF : ∀ x y, R x y → OkRel S (F x) (F' y))
    {l : List α} {l' : List β} (h : List.Forall₂ R l l') :
    OkRel (List.Forall₂ S) (l.mapM F) (l'.mapM F') := by
  induction h with
  | nil =>
    intro u hu
    rw [mapM_nil_ok_iff] at hu
    subst hu
    exact ⟨[], rfl, List.Forall₂.nil⟩
  | @cons x y xs ys hxy _ ih =>
    intro u hu
    obtain ⟨b, bs, hb, hbs, rfl⟩ := (mapM_cons_ok_iff F _ _ _).mp hu
    obtain ⟨v, hv, hS⟩ := hF x y hxy b hb
    obtain ⟨vs, hvs, hSs⟩ := ih bs hbs
    exact ⟨v :: vs, (mapM_cons_ok_iff F' _ _ _).mpr ⟨v, vs, hv, hvs, rfl⟩, List.Forall₂.cons hS hSs⟩

/-- a list from pointwise existence -/
theorem exists_list_of_pointwise {β : Type} (n : Nat) (P : Nat → β → Prop) (h : ∀ i, i < n → ∃ y, P i y) :
    ∃ l : List β, l.length = n ∧ ∀ i (hi : i < l.length), P i l[i] := by
  induction n with
  | zero => exact ⟨[], rfl, fun i hi => by simp at hi⟩
  | succ n ih =>
    obtain ⟨l, hl, hP⟩ := ih (fun i hi => h i (by omega))
    obtain ⟨y, hy⟩ := h n (by omega)
    refine ⟨l ++ [y], by simp [hl], fun i hi => ?_⟩
    by_cases hin : i < l.length
    · rw [List.getElem_append_left hin]; exact hP i hin
    · have : i = n := by simp at hi; omega
      subst this
      rw [List.getElem_append_right (by omega)]
      simpa [hl] using hy

theorem forall2_of_getElem {α β : Type} (R : α → β → Prop) (l : List α) (l' : List β) (hl : l.length = l'.length)
    (h : ∀ i (h1 : i < l.length) (h2 : i < l'.length), R l[i] l'[i]) : List.Forall₂ R l l' := by
  induction l generalizing l' with
  | nil => cases l' with
    | nil => exact List.Forall₂.nil
    | cons _ _ => simp at hl
  | cons x xs ih =>
    cases l' with
    | nil => simp at hl
    | cons y ys =>
      refine List.Forall₂.cons (h 0 (by simp) (by simp)) (ih ys (by simpa using hl) (fun i h1 h2 => ?_))
      have := h (i + 1) (by simpa using h1) (by simpa using h2)
      simpa using this

theorem zip_map_self {α β : Type} (l : List α) (g : α → β) : l.zip (l.map g) = l.map (fun x => (x, g x)) := by
  induction l with
  | nil => rfl
  | cons a t ih => simp [ih]

/-! ### dictionaries with the same keys in any order -/

/-- dictionaries (each key once) with the same keys - in any order - and related values under equal keys -/
structure DictLook {κ α : Type} [DecidableEq κ] (R : α → α → Prop) (d d' : Dict κ α) : Prop where
  wf : Dict.WF d
  wf' : Dict.WF d'
  keys : (Dict.keys d).Perm (Dict.keys d')
  rel : ∀ k x y, Dict.get? d k = some x → Dict.get? d' k = some y → R x y

namespace DictLook
variable {κ α : Type} [DecidableEq κ] {R : α → α → Prop} {d d' : Dict κ α}

theorem length (h : DictLook R d d') : d.length = d'.length := by
  have := h.keys.length_eq
  simpa [Dict.keys] using this

theorem get (h : DictLook R d d') (k : κ) (x : α) (hx : Dict.get? d k = some x) :
    ∃ y, Dict.get? d' k = some y ∧ R x y := by
  have hk : k ∈ Dict.keys d := (Dict.get?_isSome_iff d k).mp (by rw [hx]; rfl)
  have hk' : k ∈ Dict.keys d' := h.keys.mem_iff.mp hk
  have := (Dict.get?_isSome_iff d' k).mpr hk'
  cases hy : Dict.get? d' k with
  | none => rw [hy] at this; cases this
  | some y => exact ⟨y, rfl, h.rel k x y hx hy⟩

theorem mono {S : α → α → Prop} (h : DictLook R d d') (hRS : ∀ x y, R x y → S x y) : DictLook S d d' :=
  ⟨h.wf, h.wf', h.keys, fun k x y hx hy => hRS x y (h.rel k x y hx hy)⟩

/-- the second dictionary reordered to the key order of the first -/
theorem mid (h : DictLook R d d') : ∃ m : Dict κ α, Dict.Rel R d m ∧ m.Perm d' := by
  refine ⟨d.map (fun p => (p.1, (Dict.get? d' p.1).getD p.2)), ?_, ?_⟩
  · have : ∀ A : Dict κ α, (∀ p ∈ A, p ∈ d) →
        Dict.Rel R A (A.map (fun p => (p.1, (Dict.get? d' p.1).getD p.2))) := by
      intro A
      induction A with
      | nil => intro _; exact List.Forall₂.nil
      | cons x xs ih =>
        intro hsub
        refine List.Forall₂.cons ⟨rfl, ?_⟩ (ih (fun p hp => hsub p (by simp [hp])))
        have hx := Dict.get?_eq_some_of_mem h.wf x.1 x.2 (hsub x (by simp))
        obtain ⟨y, hy, hR⟩ := h.get x.1 x.2 hx
        simp only [hy, Option.getD_some]
        exact hR
    exact this d (fun _ hp => hp)
  · have hk : Dict.keys (d.map (fun p => (p.1, (Dict.get? d' p.1).getD p.2))) = Dict.keys d := by
      simp [Dict.keys, List.map_map, Function.comp_def]
    have hwf : Dict.WF (d.map (fun p => (p.1, (Dict.get? d' p.1).getD p.2))) := by
      unfold Dict.WF; rw [hk]; exact h.wf
    refine (List.perm_ext_iff_of_nodup (Dict.wf_nodup hwf) (Dict.wf_nodup h.wf')).mpr ?_
    rintro ⟨k, w⟩
    constructor
    · intro hm
      obtain ⟨⟨k', v⟩, hp, he⟩ := List.mem_map.mp hm
      simp only [Prod.mk.injEq] at he
      obtain ⟨rfl, he⟩ := he
      obtain ⟨w', hw', _⟩ := h.get k' v (Dict.get?_eq_some_of_mem h.wf k' v hp)
      rw [hw'] at he
      simp only [Option.getD_some] at he
      subst he
      exact Dict.mem_of_get?_eq_some k' w' hw'
    · intro hm
      have hkb : k ∈ Dict.keys d' := Dict.mem_keys_of_mem hm
      have hka : k ∈ Dict.keys d := h.keys.mem_iff.mpr hkb
      obtain ⟨p, hp, rfl⟩ := List.mem_map.mp hka
      refine List.mem_map.mpr ⟨p, hp, ?_⟩
      rw [Dict.get?_eq_some_of_mem h.wf' p.1 w hm]
      rfl

theorem of_rel_perm {m : Dict κ α} (hwf : Dict.WF d) (hr : Dict.Rel R d m) (hp : m.Perm d') : DictLook R d d' := by
  have hwm : Dict.WF m := by unfold Dict.WF; rw [← hr.keys]; exact hwf
  refine ⟨hwf, Dict.wf_of_perm hwm hp, ?_, ?_⟩
  · rw [hr.keys]; exact hp.map _
  · intro k x y hx hy
    rw [← Dict.get?_perm hwm hp] at hy
    rcases hr.get? k with ⟨h1, _⟩ | ⟨x', y', h1, h2, hR⟩
    · rw [h1] at hx; cases hx
    · rw [h1] at hx; rw [h2] at hy
      cases hx; cases hy
      exact hR

end DictLook

/-- a key-preserving `mapM` keeps the keys -/
theorem mapM_keyed_keys {κ α β : Type} (F : κ × α → Except Err β) (d : Dict κ α) (r : Dict κ β)
    (h : d.mapM (fun p => (F p).map (fun y => (p.1, y))) = .ok r) : Dict.keys r = Dict.keys d := by
  induction d generalizing r with
  | nil =>
    rw [mapM_nil_ok_iff] at h
    subst h; rfl
  | cons p ps ih =>
    obtain ⟨b, bs, hb, hbs, rfl⟩ := (mapM_cons_ok_iff _ _ _ _).mp h
    cases hF : F p with
    | error e => rw [hF] at hb; simp [Except.map] at hb
    | ok y =>
      rw [hF] at hb
      simp only [Except.map, Except.ok.injEq] at hb
      subst hb
      simp only [Dict.keys, List.map_cons]
      rw [show List.map (fun x => x.1) bs = Dict.keys bs from rfl, ih bs hbs]
      rfl

/-! ### elements whose channel stores are permutations of each other -/

/-- the two elements hold the same channel entries, listed in any order -/
def ElPerm (e e' : Element) : Prop := e.chans.Perm e'.chans

/-- `validateDurations` gives the same verdict on both elements: it accepts both or neither -/
def SameVerdict (e e' : Element) : Prop := (∃ m, e.validate = .ok m) ↔ (∃ m', e'.validate = .ok m')

/-- same channel entries in any order, same verdict of `validateDurations` -/
def ElPV (e e' : Element) : Prop := ElPerm e e' ∧ SameVerdict e e'

theorem ElPerm.channels {e e' : Element} (h : ElPerm e e') : e.channels.Perm e'.channels := List.Perm.map _ h

theorem ElPerm.getArrays {e e' : Element} (h : ElPerm e e') (t : Bool) :
    OkRel List.Perm (e.getArrays t) (e'.getArrays t) := fun u hu => mapM_perm_ok _ h u hu


/-! ### entries and subsequences, channels and inner positions in any order -/

/-- subsequences holding related elements under the same positions (filled in any order), with
    settings and sequencing that answer every look-up alike -/
def SubLook (R : Element → Element → Prop) (s s' : SubSeq) : Prop :=
  DictLook R s.data s'.data ∧ LookEq s.awgspecs s'.awgspecs ∧ LookEq s.sequencing s'.sequencing

/-- stored entries of the same kind holding related elements -/
def EntLook (R : Element → Element → Prop) : Entry → Entry → Prop
  | .el e, .el e' => R e e'
  | .sub s, .sub s' => SubLook R s s'
  | _, _ => False

theorem SubLook.mono {R S : Element → Element → Prop} {s s' : SubSeq} (h : SubLook R s s')
    (hRS : ∀ x y, R x y → S x y) : SubLook S s s' := ⟨h.1.mono hRS, h.2.1, h.2.2⟩

theorem EntLook.mono {R S : Element → Element → Prop} {x y : Entry} (h : EntLook R x y)
    (hRS : ∀ x y, R x y → S x y) : EntLook S x y := by
  cases x <;> cases y <;> simp only [EntLook] at h ⊢
  · exact hRS _ _ h
  · exact h.mono hRS

/-! ### the forged output up to the order of the channel dictionaries -/

/-- one content entry: same inner position, the same channels with the same outputs (listed in any
    order), the same inner sequencing -/
def ContentSame {α : Type} (x y : Nat × Dict Chan α × Option SeqSet) : Prop :=
  x.1 = y.1 ∧ x.2.1.Perm y.2.1 ∧ x.2.2 = y.2.2

/-- one forged position: same position number, sequencing, type, and content entry by content entry
    the same channels with the same outputs -/
def PosSame (x y : Nat × ForgedPos) : Prop :=
  x.1 = y.1 ∧ x.2.sequencing = y.2.sequencing ∧ x.2.isSub = y.2.isSub ∧
    List.Forall₂ ContentSame x.2.content y.2.content

/-- **two forged sequences agree up to the order in which the channels are listed**: position by
    position the same sequencing entry and type, content entry by content entry the same channel
    ids with the same arrays / flags / filter annotation (the per-channel dictionaries are
    permutations of each other - Python's `dict.__eq__`) -/
def ForgedSame (out out' : List (Nat × ForgedPos)) : Prop := List.Forall₂ PosSame out out'

end BB
