/-
  BB.Proofs.G6Forge — `Sequence.forge` reads the AWG settings and the sequencing only through
  look-ups, and the stored elements only through their channel stores (never the validation
  cache).  Hence a congruence: sequences whose stores agree position by position up to caches and
  whose settings / sequencing answer every look-up alike forge alike (same arrays or same error).
-/
import BB.Proofs.DictEq
import BB.Proofs.G6Eq
import BB.Proofs.Sequence
import BB.Model.Sequence

namespace BB

/-! ### generic: relations on `Except`, lists and dictionaries -/

/-- both fail with the same exception, or both succeed with related results -/
def ExRel {α β : Type} (S : α → β → Prop) : Except Err α → Except Err β → Prop
  | .ok x, .ok y => S x y
  | .error e, .error e' => e = e'
  | _, _ => False

theorem ExRel.of_eq {α : Type} {x y : Except Err α} (h : x = y) : ExRel (· = ·) x y := by
  subst h
  cases x <;> simp [ExRel]

theorem ExRel.eq {α : Type} {x y : Except Err α} (h : ExRel (· = ·) x y) : x = y := by
  cases x <;> cases y <;> simp_all [ExRel]

theorem mapM_rel {α β γ δ : Type} (R : α → β → Prop) (S : γ → δ → Prop)
    (F : α → Except Err γ) (F' : β → Except Err δ) (hF : ∀ x y, R x y → ExRel S (F x) (F' y))
    {l : List α} {l' : List β} (h : List.Forall₂ R l l') :
    ExRel (List.Forall₂ S) (l.mapM F) (l'.mapM F') := by
  induction h with
  | nil => simp [List.mapM_nil, pure, Except.pure, ExRel]
  | @cons x y xs ys hxy _ ih =>
    rw [mapM_cons_eq, mapM_cons_eq]
    have h1 := hF x y hxy
    cases hx : F x with
    | error e =>
      cases hy : F' y with
      | error e' => rw [hx, hy] at h1; simpa [ExRel] using h1
      | ok _ => rw [hx, hy] at h1; simp [ExRel] at h1
    | ok u =>
      cases hy : F' y with
      | error e' => rw [hx, hy] at h1; simp [ExRel] at h1
      | ok v =>
        rw [hx, hy] at h1
        simp only [ExRel] at h1
        cases hxs : xs.mapM F with
        | error e =>
          cases hys : ys.mapM F' with
          | error e' => rw [hxs, hys] at ih; simpa [ExRel] using ih
          | ok _ => rw [hxs, hys] at ih; simp [ExRel] at ih
        | ok us =>
          cases hys : ys.mapM F' with
          | error e' => rw [hxs, hys] at ih; simp [ExRel] at ih
          | ok vs =>
            rw [hxs, hys] at ih
            simp only [ExRel] at ih ⊢
            exact List.Forall₂.cons h1 ih

/-- `mapM` of functions that agree on related arguments, over related lists -/
theorem mapM_forall2_eq {α β γ : Type} (R : α → β → Prop)
    (F : α → Except Err γ) (F' : β → Except Err γ) (hF : ∀ x y, R x y → F x = F' y)
    {l : List α} {l' : List β} (h : List.Forall₂ R l l') : l.mapM F = l'.mapM F' := by
  induction h with
  | nil => rfl
  | cons hxy _ ih => rw [mapM_cons_eq, mapM_cons_eq, hF _ _ hxy, ih]

theorem forall2_refl {α : Type} (R : α → α → Prop) (l : List α) (h : ∀ x ∈ l, R x x) : List.Forall₂ R l l := by
  induction l with
  | nil => exact List.Forall₂.nil
  | cons x xs ih => exact List.Forall₂.cons (h x (by simp)) (ih (fun y hy => h y (by simp [hy])))

theorem forall2_eq {α : Type} {l l' : List α} (h : List.Forall₂ (· = ·) l l') : l = l' := by
  induction h with
  | nil => rfl
  | cons hxy _ ih => rw [hxy, ih]

theorem forall2_length {α β : Type} {R : α → β → Prop} {l : List α} {l' : List β} (h : List.Forall₂ R l l') :
    l.length = l'.length := by
  induction h with
  | nil => rfl
  | cons _ _ ih => simp [ih]

theorem forall2_map_eq {α β γ : Type} {R : α → β → Prop} (g : α → γ) (g' : β → γ) (hg : ∀ x y, R x y → g x = g' y)
    {l : List α} {l' : List β} (h : List.Forall₂ R l l') : l.map g = l'.map g' := by
  induction h with
  | nil => rfl
  | cons hxy _ ih => simp [hg _ _ hxy, ih]

namespace Dict
variable {κ α β : Type} [DecidableEq κ]

theorem has_eq_isSome (d : Dict κ α) (k : κ) : has d k = (get? d k).isSome := by
  induction d with
  | nil => rfl
  | cons p ps ih =>
    simp only [has, List.any_cons, get?, List.find?_cons] at ih ⊢
    by_cases he : p.1 = k
    · simp [he]
    · simp only [he, decide_false, Bool.false_or]
      exact ih

/-- dictionaries with the same keys in the same order and related values -/
def Rel (R : α → β → Prop) (d : Dict κ α) (d' : Dict κ β) : Prop :=
  List.Forall₂ (fun x y => x.1 = y.1 ∧ R x.2 y.2) d d'

omit [DecidableEq κ] in
theorem Rel.length {R : α → β → Prop} {d : Dict κ α} {d' : Dict κ β} (h : Rel R d d') : d.length = d'.length :=
  forall2_length h

omit [DecidableEq κ] in
theorem Rel.keys {R : α → β → Prop} {d : Dict κ α} {d' : Dict κ β} (h : Rel R d d') : keys d = keys d' :=
  forall2_map_eq _ _ (fun _ _ hxy => hxy.1) h

omit [DecidableEq κ] in
theorem Rel.vals {R : α → β → Prop} {d : Dict κ α} {d' : Dict κ β} (h : Rel R d d') :
    List.Forall₂ R (vals d) (vals d') := by
  induction h with
  | nil => exact List.Forall₂.nil
  | cons hxy _ ih => exact List.Forall₂.cons hxy.2 ih

theorem Rel.get? {R : α → β → Prop} {d : Dict κ α} {d' : Dict κ β} (h : Rel R d d') (k : κ) :
    (Dict.get? d k = none ∧ Dict.get? d' k = none) ∨
    ∃ x y, Dict.get? d k = some x ∧ Dict.get? d' k = some y ∧ R x y := by
  induction h with
  | nil => left; exact ⟨rfl, rfl⟩
  | @cons x y xs ys hxy _ ih =>
    obtain ⟨k1, v1⟩ := x
    obtain ⟨k2, v2⟩ := y
    simp only at hxy
    obtain ⟨rfl, hR⟩ := hxy
    by_cases hk : k1 = k
    · right
      exact ⟨v1, v2, by simp [Dict.get?, hk], by simp [Dict.get?, hk], hR⟩
    · simp only [Dict.get?, List.find?_cons, hk, decide_false] at ih ⊢
      exact ih

omit [DecidableEq κ] in
theorem Rel.refl (R : α → α → Prop) (d : Dict κ α) (h : ∀ x ∈ Dict.vals d, R x x) : Rel R d d :=
  forall2_refl _ d (fun p hp => ⟨rfl, h p.2 (List.mem_map.mpr ⟨p, hp, rfl⟩)⟩)

end Dict

/-! ### what is read of the settings, the sequencing and the elements -/

/-- two dictionaries that answer every look-up alike -/
def LookEq {κ α : Type} [DecidableEq κ] (A B : Dict κ α) : Prop := ∀ k, Dict.get? A k = Dict.get? B k

section specs
variable {E E' : Type} (a : SeqCore E) (b : SeqCore E') (hs : LookEq a.awgspecs b.awgspecs)
include hs

theorem getSR_congr : a.getSR = b.getSR := by
  unfold SeqCore.getSR; rw [hs]

theorem delayOf_congr (ch : Chan) : a.delayOf ch = b.delayOf ch := by
  unfold SeqCore.delayOf; rw [hs]

theorem filterOf_congr (ch : Chan) : a.filterOf ch = b.filterOf ch := by
  unfold SeqCore.filterOf; rw [hs, getSR_congr a b hs]

theorem hasSR_congr : Dict.has a.awgspecs "SR" = Dict.has b.awgspecs "SR" := by
  rw [Dict.has_eq_isSome, Dict.has_eq_isSome, hs]

end specs

/-- elements with the same channel store (their validation caches may differ) -/
def ElRel (e e' : Element) : Prop := e.chans = e'.chans

theorem ElRel.eq_cache {e e' : Element} (h : ElRel e e') : e = { e' with cache := e.cache } := by
  obtain ⟨c, m⟩ := e
  obtain ⟨c', m'⟩ := e'
  simp only [ElRel] at h
  subst h
  rfl

theorem validate_cache (e : Element) (c : Option (Val × Rat)) : Element.validate { e with cache := c } = e.validate := rfl
theorem getSR_cache (e : Element) (c : Option (Val × Rat)) : Element.getSR { e with cache := c } = e.getSR := rfl
theorem getArrays_cache (e : Element) (c : Option (Val × Rat)) (t : Bool) :
    Element.getArrays { e with cache := c } t = e.getArrays t := rfl
theorem channels_cache (e : Element) (c : Option (Val × Rat)) : Element.channels { e with cache := c } = e.channels := rfl

theorem ElRel.getSR {e e' : Element} (h : ElRel e e') : e.getSR = e'.getSR := by rw [h.eq_cache, getSR_cache]
theorem ElRel.getArrays {e e' : Element} (h : ElRel e e') (t : Bool) : e.getArrays t = e'.getArrays t := by
  rw [h.eq_cache, getArrays_cache]
theorem ElRel.channels {e e' : Element} (h : ElRel e e') : e.channels = e'.channels := by
  rw [h.eq_cache, channels_cache]

/-- `_applyDelays` raises alike and, when accepted, yields the same element -/
theorem applyDelays_cache (e : Element) (c : Option (Val × Rat)) (ds : List Rat) :
    (Element.applyDelays { e with cache := c } ds).err = (e.applyDelays ds).err ∧
    ((e.applyDelays ds).err = none → (Element.applyDelays { e with cache := c } ds).st = (e.applyDelays ds).st) := by
  unfold Element.applyDelays
  simp only [validate_cache]
  split
  · exact ⟨rfl, fun h => by simp at h⟩
  · split
    · exact ⟨rfl, fun h => by simp at h⟩
    · split
      · exact ⟨rfl, fun h => by simp at h⟩
      · split
        · split
          · exact ⟨rfl, fun _ => rfl⟩
          · exact ⟨rfl, fun h => by simp at h⟩
        · exact ⟨rfl, fun h => by simp at h⟩

namespace Sequence

theorem delayElement_congr (a b : Sequence) (hs : LookEq a.awgspecs b.awgspecs) {e e' : Element} (h : ElRel e e') :
    a.delayElement e = b.delayElement e' := by
  have hd : a.delaysFor e = b.delaysFor e' := by
    unfold delaysFor
    rw [h.channels]
    exact mapM_congr_mem _ _ _ (fun ch _ => delayOf_congr a b hs ch)
  unfold delayElement
  rw [hd, h.eq_cache]
  cases b.delaysFor e' with
  | error er => rfl
  | ok ds =>
    obtain ⟨h1, h2⟩ := applyDelays_cache e' e.cache ds
    simp only [bind, Except.bind]
    rw [h1]
    cases hr : (e'.applyDelays ds).err with
    | some er => rfl
    | none => simp only [h2 hr]

end Sequence

/-! ### entries and subsequences up to caches and look-ups -/

/-- subsequences whose element stores agree up to caches and whose settings and sequencing answer
    every look-up alike -/
def SubRel (s s' : SubSeq) : Prop :=
  Dict.Rel ElRel s.data s'.data ∧ LookEq s.awgspecs s'.awgspecs ∧ LookEq s.sequencing s'.sequencing

/-- stored entries that agree up to caches (and, inside a subsequence, up to the order of settings) -/
def EntRel : Entry → Entry → Prop
  | .el e, .el e' => ElRel e e'
  | .sub s, .sub s' => SubRel s s'
  | _, _ => False

theorem SubSeq.checkConsistency_congr {s s' : SubSeq} (h : SubRel s s') : s.checkConsistency = s'.checkConsistency := by
  obtain ⟨hd, hs, _⟩ := h
  unfold SubSeq.checkConsistency
  rw [hasSR_congr s s' hs, mapM_forall2_eq ElRel _ _ (fun _ _ h => h.getSR) hd.vals,
    forall2_map_eq (R := ElRel) (fun e => channelListSorter e.channels) (fun e => channelListSorter e.channels)
      (fun _ _ h => by rw [h.channels]) hd.vals, hd.keys]

theorem SubSeq.channels_congr {s s' : SubSeq} (h : SubRel s s') : s.channels = s'.channels := by
  unfold SubSeq.channels
  rw [SubSeq.checkConsistency_congr h]
  rcases h.1.get? 1 with ⟨h1, h2⟩ | ⟨x, y, h1, h2, hR⟩
  · rw [h1, h2]
  · rw [h1, h2]; simp only; rw [hR.channels]

theorem EntRel.getSR {x y : Entry} (h : EntRel x y) : x.getSR = y.getSR := by
  cases x <;> cases y <;> simp only [EntRel] at h
  · exact ElRel.getSR h
  · simp only [Entry.getSR]; rw [getSR_congr _ _ h.2.1]

theorem EntRel.channels {x y : Entry} (h : EntRel x y) : x.channels = y.channels := by
  cases x <;> cases y <;> simp only [EntRel] at h
  · simp only [Entry.channels]; rw [ElRel.channels h]
  · exact SubSeq.channels_congr h

namespace Sequence

section congr
variable (a b : Sequence) (hd : Dict.Rel EntRel a.data b.data) (hs : LookEq a.awgspecs b.awgspecs)
  (hq : LookEq a.sequencing b.sequencing)

include hd hs in
theorem checkConsistency_congr : a.checkConsistency = b.checkConsistency := by
  unfold checkConsistency
  rw [hasSR_congr a b hs, mapM_forall2_eq EntRel _ _ (fun _ _ h => h.getSR) hd.vals,
    mapM_forall2_eq EntRel _ _ (fun _ _ h => h.channels) hd.vals, hd.keys]

include hd hs in
theorem channels_congr : a.channels = b.channels := by
  unfold channels
  rw [checkConsistency_congr a b hd hs]
  rcases hd.get? 1 with ⟨h1, h2⟩ | ⟨x, y, h1, h2, hR⟩
  · rw [h1, h2]
  · rw [h1, h2]; simp only; rw [hR.channels]

include hd in
theorem entriesInOrder_rel :
    ExRel (List.Forall₂ (fun (x y : Nat × Entry) => x.1 = y.1 ∧ EntRel x.2 y.2)) a.entriesInOrder b.entriesInOrder := by
  unfold entriesInOrder
  rw [hd.length]
  refine mapM_rel (· = ·) _ _ _ ?_ (forall2_refl _ _ (fun _ _ => rfl))
  rintro i _ rfl
  rcases hd.get? ((i + 1 : Nat) : Int) with ⟨h1, h2⟩ | ⟨x, y, h1, h2, hR⟩
  · rw [h1, h2]; simp [ExRel]
  · rw [h1, h2]; exact ⟨rfl, hR⟩

include hs in
theorem delayEntry_rel (d : Bool) {x y : Entry} (h : EntRel x y) :
    ExRel EntRel (a.delayEntry d x) (b.delayEntry d y) := by
  cases x <;> cases y <;> simp only [EntRel] at h
  · rename_i e e'
    unfold delayEntry
    cases d
    · simpa [ExRel, EntRel] using h
    · simp only [if_true]
      rw [delayElement_congr a b hs h]
      cases b.delayElement e' <;> simp [Except.map, ExRel, EntRel, ElRel]
  · rename_i s s'
    unfold delayEntry
    cases d
    · simpa [ExRel, EntRel] using h
    · simp only [if_true]
      have : s.data.mapM (fun pe => (a.delayElement pe.2).map (fun e' => (pe.1, e'))) =
          s'.data.mapM (fun pe => (b.delayElement pe.2).map (fun e' => (pe.1, e'))) :=
        mapM_forall2_eq _ _ _ (fun p q hpq => by rw [delayElement_congr a b hs hpq.2, hpq.1]) h.1
      rw [this]
      cases s'.data.mapM (fun pe => (b.delayElement pe.2).map (fun e' => (pe.1, e'))) with
      | error er => simp [Except.map, ExRel]
      | ok dd =>
        simp only [Except.map, ExRel, EntRel, SubRel]
        exact ⟨Dict.Rel.refl _ _ (fun _ _ => rfl), h.2.1, h.2.2⟩

theorem forgeInner_congr (t : Bool) {s s' : SubSeq} (h : SubRel s s') : forgeInner t s = forgeInner t s' := by
  unfold forgeInner
  rw [h.1.length]
  apply mapM_congr_mem
  intro j _
  rw [h.2.2]
  rcases h.1.get? ((j + 1 : Nat) : Int) with ⟨h1, h2⟩ | ⟨x, y, h1, h2, hR⟩
  · rw [h1, h2]
  · rw [h1, h2]; simp only; rw [hR.getArrays]

include hq in
theorem forgeEntry_congr (t : Bool) {x y : Nat × Entry} (h1 : x.1 = y.1) (h2 : EntRel x.2 y.2) :
    a.forgeEntry t x = b.forgeEntry t y := by
  obtain ⟨p, en⟩ := x
  obtain ⟨p', en'⟩ := y
  simp only at h1 h2
  subst h1
  unfold forgeEntry
  simp only
  rw [hq]
  cases en <;> cases en' <;> simp only [EntRel] at h2
  · simp only; rw [ElRel.getArrays h2]
  · simp only; rw [forgeInner_congr t h2]

include hs in
theorem filterEntry_congr (f : Bool) : a.filterEntry f = b.filterEntry f := by
  funext x
  unfold filterEntry withFilters
  have : a.attach f = b.attach f := by
    funext c
    unfold attach
    rw [filterOf_congr a b hs]
  rw [this]

include hd hs hq in
/-- **forge congruence**: sequences whose stores agree position by position up to validation
    caches, and whose AWG settings and sequencing answer every look-up alike, forge alike — the
    same arrays, or the same exception -/
theorem forge_congr (d f t : Bool) : a.forge d f t = b.forge d f t := by
  unfold forge
  rw [checkConsistency_congr a b hd hs, channels_congr a b hd hs, filterEntry_congr a b hs]
  have h1 := entriesInOrder_rel a b hd
  cases he : a.entriesInOrder with
  | error e =>
    cases he' : b.entriesInOrder with
    | error e' => rw [he, he'] at h1; simp only [ExRel] at h1; rw [h1]
    | ok _ => rw [he, he'] at h1; simp [ExRel] at h1
  | ok ents =>
    cases he' : b.entriesInOrder with
    | error e' => rw [he, he'] at h1; simp [ExRel] at h1
    | ok ents' =>
      rw [he, he'] at h1
      simp only [ExRel] at h1
      have h2 := mapM_rel _ (fun (x y : Nat × Entry) => x.1 = y.1 ∧ EntRel x.2 y.2)
        (fun x => (a.delayEntry d x.2).map (fun en => (x.1, en)))
        (fun x => (b.delayEntry d x.2).map (fun en => (x.1, en)))
        (by
          intro x y hxy
          have := delayEntry_rel a b hs d hxy.2
          cases hx : a.delayEntry d x.2 <;> cases hy : b.delayEntry d y.2 <;> rw [hx, hy] at this <;>
            simp_all [ExRel, Except.map]) h1
      cases hdl : ents.mapM (fun x => (a.delayEntry d x.2).map (fun en => (x.1, en))) with
      | error e =>
        cases hdl' : ents'.mapM (fun x => (b.delayEntry d x.2).map (fun en => (x.1, en))) with
        | error e' => rw [hdl, hdl'] at h2; simp only [ExRel] at h2; simp only [hdl, hdl', h2]
        | ok _ => rw [hdl, hdl'] at h2; simp [ExRel] at h2
      | ok del =>
        cases hdl' : ents'.mapM (fun x => (b.delayEntry d x.2).map (fun en => (x.1, en))) with
        | error e' => rw [hdl, hdl'] at h2; simp [ExRel] at h2
        | ok del' =>
          rw [hdl, hdl'] at h2
          simp only [ExRel] at h2
          have h3 : del.mapM (a.forgeEntry t) = del'.mapM (b.forgeEntry t) :=
            mapM_forall2_eq _ _ _ (fun x y hxy => forgeEntry_congr a b hq t hxy.1 hxy.2) h2
          simp only [hdl, hdl', h3]

end congr

end Sequence

/-! ### the order in which the positions were filled does not matter for a successful `forge` -/

namespace Dict
variable {κ α : Type} [DecidableEq κ]

omit [DecidableEq κ] in
theorem wf_of_perm {a b : Dict κ α} (ha : WF a) (h : a.Perm b) : WF b := by
  unfold WF keys at *
  exact (h.map _).nodup_iff.mp ha

theorem get?_perm {a b : Dict κ α} (ha : WF a) (h : a.Perm b) (k : κ) : get? a k = get? b k := by
  have hb := wf_of_perm ha h
  cases hk : get? a k with
  | some v => exact (get?_eq_some_of_mem hb k v (h.mem_iff.mp (mem_of_get?_eq_some k v hk))).symm
  | none =>
    symm
    rw [get?_eq_none_iff] at hk ⊢
    intro hm
    obtain ⟨p, hp, rfl⟩ := List.mem_map.mp hm
    exact hk (List.mem_map.mpr ⟨p, h.mem_iff.mpr hp, rfl⟩)

end Dict

theorem allSame_iff_forall {α : Type} [DecidableEq α] (l : List α) :
    Element.allSame l = true ↔ ∀ x ∈ l, ∀ y ∈ l, x = y := by
  cases l with
  | nil => simp [Element.allSame]
  | cons a t =>
    simp only [Element.allSame, List.all_eq_true, decide_eq_true_eq, List.mem_cons]
    constructor
    · intro h x hx y hy
      have hxa : x = a := by rcases hx with rfl | hx; rfl; exact h x hx
      have hya : y = a := by rcases hy with rfl | hy; rfl; exact h y hy
      rw [hxa, hya]
    · intro h x hx
      exact h x (Or.inr hx) a (Or.inl rfl)

theorem allSame_perm {α : Type} [DecidableEq α] {l l' : List α} (h : l.Perm l') :
    Element.allSame l = Element.allSame l' := by
  rw [Bool.eq_iff_iff, allSame_iff_forall, allSame_iff_forall]
  constructor
  · intro hh x hx y hy; exact hh x (h.mem_iff.mpr hx) y (h.mem_iff.mpr hy)
  · intro hh x hx y hy; exact hh x (h.mem_iff.mp hx) y (h.mem_iff.mp hy)

theorem allEqLast_iff_forall {α : Type} [DecidableEq α] (l : List α) :
    allEqLast l = true ↔ ∀ x ∈ l, ∀ y ∈ l, x = y := by
  unfold allEqLast
  cases hl : l.getLast? with
  | none =>
    rw [List.getLast?_eq_none_iff] at hl
    subst hl
    simp
  | some last =>
    have hmem : last ∈ l := List.mem_of_getLast? hl
    simp only [List.all_eq_true, decide_eq_true_eq]
    constructor
    · intro h x hx y hy; rw [h x hx, h y hy]
    · intro h x hx; exact h x hx last hmem

theorem allEqLast_perm {α : Type} [DecidableEq α] {l l' : List α} (h : l.Perm l') :
    allEqLast l = allEqLast l' := by
  rw [Bool.eq_iff_iff, allEqLast_iff_forall, allEqLast_iff_forall]
  constructor
  · intro hh x hx y hy; exact hh x (h.mem_iff.mpr hx) y (h.mem_iff.mpr hy)
  · intro hh x hx y hy; exact hh x (h.mem_iff.mp hx) y (h.mem_iff.mp hy)

namespace Sequence

theorem checkConsistency_true_iff (s : Sequence) :
    s.checkConsistency = .ok true ↔
      Dict.has s.awgspecs "SR" = true ∧ ∃ srs, (Dict.vals s.data).mapM Entry.getSR = .ok srs ∧
        Element.allSame srs = true ∧ ∃ chans, (Dict.vals s.data).mapM Entry.channels = .ok chans ∧
          allEqLast (chans.map channelListSorter) = true ∧ gapFree (Dict.keys s.data) = true := by
  unfold checkConsistency
  cases Dict.has s.awgspecs "SR" with
  | false => simp
  | true =>
    simp only [Bool.not_true, Bool.false_eq_true, if_false, true_and]
    cases (Dict.vals s.data).mapM Entry.getSR with
    | error e => simp
    | ok srs =>
      simp only [Except.ok.injEq, exists_eq_left']
      cases Element.allSame srs with
      | false => simp
      | true =>
        simp only [Bool.not_true, Bool.false_eq_true, if_false, true_and]
        cases (Dict.vals s.data).mapM Entry.channels with
        | error e => by_cases he : e = .consistency ∨ e = .key <;> simp [he]
        | ok chans =>
          simp only [Except.ok.injEq, exists_eq_left']
          cases allEqLast (chans.map channelListSorter) <;> simp

section perm
variable (a b : Sequence) (hp : a.data.Perm b.data) (hwf : Dict.WF a.data)
  (hs : a.awgspecs = b.awgspecs) (hq : a.sequencing = b.sequencing)

include hp hs in
/-- a consistent sequence stays consistent when its positions are listed in another order -/
theorem checkConsistency_perm_ok (h : a.checkConsistency = .ok true) : b.checkConsistency = .ok true := by
  rw [checkConsistency_true_iff] at h ⊢
  obtain ⟨h1, srs, h2, h3, chans, h4, h5, h6⟩ := h
  have hv : (Dict.vals a.data).Perm (Dict.vals b.data) := hp.map _
  obtain ⟨srs', hsrs', hps⟩ := mapM_perm_ok _ hv srs h2
  obtain ⟨chans', hchans', hpc⟩ := mapM_perm_ok _ hv chans h4
  refine ⟨by rw [← hs]; exact h1, srs', hsrs', by rw [← allSame_perm hps]; exact h3, chans', hchans', ?_, ?_⟩
  · rw [← allEqLast_perm (hpc.map channelListSorter)]; exact h5
  · have hk : (Dict.keys a.data).Perm (Dict.keys b.data) := hp.map _
    rw [← gapFree_of_perm hk]; exact h6

include hs in
theorem delayEntry_eq_of_specs (d : Bool) : a.delayEntry d = b.delayEntry d := by
  have hl : LookEq a.awgspecs b.awgspecs := fun k => by rw [hs]
  have : a.delayElement = b.delayElement := by
    funext e
    exact delayElement_congr a b hl rfl
  funext x
  unfold delayEntry
  rw [this]

include hq in
theorem forgeEntry_eq_of_sequencing (t : Bool) : a.forgeEntry t = b.forgeEntry t := by
  funext x
  unfold forgeEntry
  rw [hq]

include hp hwf hs hq in
/-- **a successful `forge` does not depend on the order in which the positions were filled** -/
theorem forge_perm_ok (d f t : Bool) (out : List (Nat × ForgedPos)) (h : a.forge d f t = .ok out) :
    b.forge d f t = .ok out := by
  have hl : LookEq a.awgspecs b.awgspecs := fun k => by rw [hs]
  have hent : a.entriesInOrder = b.entriesInOrder := by
    unfold entriesInOrder
    rw [hp.length_eq]
    apply mapM_congr_mem
    intro i _
    rw [Dict.get?_perm hwf hp]
  unfold forge at h ⊢
  cases hc : a.checkConsistency with
  | error e => rw [hc] at h; cases h
  | ok c =>
    cases c with
    | false => rw [hc] at h; cases h
    | true =>
      have hcb := checkConsistency_perm_ok a b hp hs hc
      have hch : a.channels = b.channels := by
        unfold channels
        rw [hc, hcb, Dict.get?_perm hwf hp]
      rw [hc] at h
      rw [hcb]
      simp only at h ⊢
      rw [← hch, ← hent, ← delayEntry_eq_of_specs a b hs, ← forgeEntry_eq_of_sequencing a b hq,
        ← filterEntry_congr a b hl]
      exact h

end perm

end Sequence
end BB
