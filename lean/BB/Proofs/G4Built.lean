/-
  BB.Proofs.G4Built — "no channel id twice" (`Dict.WF`) as a reachable invariant: every element
  the public element API builds has it, and so has every element stored in a sequence the public
  sequence API builds.  (A Python `dict` cannot hold a key twice; the model's association lists
  can, so theorems about them carry `Dict.WF` hypotheses — which this file discharges for
  everything reachable.)
-/
import BB.Proofs.G4Elem

namespace BB

theorem g4_mem_upsert_cases {κ α : Type} [DecidableEq κ] (d : Dict κ α) (k : κ) (v : α) (x : κ × α)
    (h : x ∈ Dict.upsert d k v) : x = (k, v) ∨ x ∈ d := by
  induction d with
  | nil => simp only [Dict.upsert, List.mem_singleton] at h; exact Or.inl h
  | cons y ys ih =>
    obtain ⟨k', v'⟩ := y
    unfold Dict.upsert at h
    split at h
    · simp only [List.mem_cons] at h
      rcases h with h | h
      · exact Or.inl h
      · exact Or.inr (by simp [h])
    · simp only [List.mem_cons] at h
      rcases h with h | h
      · exact Or.inr (by simp [h])
      · rcases ih h with h | h
        · exact Or.inl h
        · exact Or.inr (by simp [h])

namespace Element

/-- the elements the public API can build: the empty element, and whatever `addBluePrint`,
    `addArray`, `addFlags`, `changeArg`, `changeDuration`, `validateDurations`, `_applyDelays` and
    `copy` make of a built element (whether the call is accepted or raises) -/
inductive ApiBuilt : Element → Prop
  | empty : ApiBuilt {}
  | addBluePrint (e : Element) (ch : Chan) (b : BP) : ApiBuilt e → ApiBuilt (e.addBluePrint ch b).st
  | addArray (e : Element) (ch : Chan) (wfm : List Rat) (sr : Val) (kw : Dict String (List Rat)) :
      ApiBuilt e → ApiBuilt (e.addArray ch wfm sr kw).st
  | addFlags (e : Element) (ch : Chan) (fl : List Val) : ApiBuilt e → ApiBuilt (e.addFlags ch fl).st
  | changeArg (e : Element) (ch : Chan) (name : String) (arg value : Val) (all : Bool) :
      ApiBuilt e → ApiBuilt (e.changeArg ch name arg value all).st
  | changeDuration (e : Element) (ch : Chan) (name : String) (dur : Val) (all : Bool) :
      ApiBuilt e → ApiBuilt (e.changeDuration ch name dur all).st
  | validateDurations (e : Element) : ApiBuilt e → ApiBuilt e.validateDurations.st
  | applyDelays (e : Element) (ds : List Rat) : ApiBuilt e → ApiBuilt (e.applyDelays ds).st
  | copy (e : Element) : ApiBuilt e → ApiBuilt e.copy

theorem g4_withBP_wf (e : Element) (ch : Chan) (f : BP → Res BP) (h : Dict.WF e.chans) : Dict.WF (e.withBP ch f).st.chans := by
  unfold withBP
  split
  · exact h
  · split
    · exact Dict.wf_upsert h _ _
    · exact h

theorem g4_applyDelays_err_or_same (e : Element) (ds : List Rat) :
    (e.applyDelays ds).err = none ∨ (e.applyDelays ds).st.chans = e.chans := by
  unfold applyDelays
  split
  · right; rfl
  · split
    · right; rfl
    · split
      · right; rfl
      · split
        · split
          · left; rfl
          · right; rfl
        · right; rfl

theorem g4_applyDelays_keys (e : Element) (ds : List Rat) : Dict.keys (e.applyDelays ds).st.chans = Dict.keys e.chans := by
  rcases g4_applyDelays_err_or_same e ds with herr | hsame
  · obtain ⟨_, _, _, _, _, hl, hall⟩ := g4_applyDelays_getElem e ds herr
    apply List.ext_getElem
    · simp [Dict.keys, hl]
    · intro k h1 h2
      simp only [Dict.keys, List.length_map] at h1 h2
      simp only [Dict.keys, List.getElem_map]
      exact (hall k h2 h1 (by omega)).1
  · rw [hsame]

/-- **no channel id twice** in anything the element API builds -/
theorem ApiBuilt.wf {e : Element} (h : ApiBuilt e) : Dict.WF e.chans := by
  induction h with
  | empty => exact Dict.wf_nil
  | addBluePrint e ch b _ ih =>
    unfold Element.addBluePrint
    split
    · exact ih
    · exact Dict.wf_upsert ih _ _
  | addArray e ch wfm sr kw _ ih =>
    unfold Element.addArray
    split <;> exact Dict.wf_upsert ih _ _
  | addFlags e ch fl _ ih =>
    unfold Element.addFlags
    split
    · exact ih
    · split
      · exact ih
      · split
        · exact ih
        · exact Dict.wf_upsert ih _ _
  | changeArg e ch name arg value all _ ih => exact g4_withBP_wf e ch _ ih
  | changeDuration e ch name dur all _ ih => exact g4_withBP_wf e ch _ ih
  | validateDurations e _ ih =>
    unfold Element.validateDurations
    split <;> exact ih
  | applyDelays e ds _ ih =>
    unfold Dict.WF
    rw [g4_applyDelays_keys]
    exact ih
  | copy e _ ih => exact ih

end Element

namespace Sequence

/-- every element stored at the top level of the sequence has no channel id twice -/
def ElemsWF (s : Sequence) : Prop := ∀ x ∈ s.data, ∀ e, x.2 = .el e → Dict.WF e.chans

/-- the sequences the public API can build: the empty sequence, `addElement` of a built element,
    `addSubSequence`, every settings call (`setSR`, `setChannelAmplitude`, `setChannelOffset`,
    `setChannelDelay` are `setSpec`; `setChannelFilterCompensation`), the sequencing setters,
    `copy`, and `+` -/
inductive ApiBuilt : Sequence → Prop
  | empty : ApiBuilt {}
  | addElement (s : Sequence) (pos : Int) (e : Element) : ApiBuilt s → Element.ApiBuilt e → ApiBuilt (s.addElement pos e).st
  | addSubSequence (s : Sequence) (pos : Int) (sub : Sequence) : ApiBuilt s → ApiBuilt sub → ApiBuilt (s.addSubSequence pos sub).st
  | setSpec (s : Sequence) (k : String) (v : Spec) : ApiBuilt s → ApiBuilt (s.setSpec k v)
  | setFilter (s : Sequence) (ch : Chan) (kind : String) (order : Int) (isInt : Bool) (fc tau : Val) :
      ApiBuilt s → ApiBuilt (s.setChannelFilterCompensation ch kind order isInt fc tau).st
  | setSequencing (s : Sequence) (pos : Int) (f : SeqSet → SeqSet) : ApiBuilt s → ApiBuilt (s.setSequencing pos f).st
  | copy (s : Sequence) : ApiBuilt s → ApiBuilt s.copy
  | add (a b c : Sequence) : ApiBuilt a → ApiBuilt b → a.add b = .ok c → ApiBuilt c

theorem g4_foldl_upsert_mem (N : Int) (l : Dict Int Entry) (d0 : Dict Int Entry) (x : Int × Entry)
    (h : x ∈ l.foldl (fun d (p : Int × Entry) => Dict.upsert d (p.1 + N) (copyEntry p.2)) d0) :
    x ∈ d0 ∨ ∃ y ∈ l, x.2 = copyEntry y.2 := by
  induction l generalizing d0 with
  | nil => exact Or.inl h
  | cons y ys ih =>
    simp only [List.foldl_cons] at h
    rcases ih _ h with h | ⟨z, hz, hx⟩
    · rcases g4_mem_upsert_cases _ _ _ _ h with h | h
      · exact Or.inr ⟨y, by simp, by rw [h]⟩
      · exact Or.inl h
    · exact Or.inr ⟨z, by simp [hz], hx⟩

/-- **no stored element lists a channel twice** in anything the sequence API builds -/
theorem ApiBuilt.elemsWF {s : Sequence} (h : ApiBuilt s) : ElemsWF s := by
  induction h with
  | empty => intro x hx; cases hx
  | addElement s pos e _ he ih =>
    unfold Sequence.addElement
    split
    · exact ih
    · intro x hx e' hxe
      simp only at hx
      rcases g4_mem_upsert_cases _ _ _ _ hx with h | h
      · rw [h] at hxe
        simp only [Entry.el.injEq] at hxe
        rw [← hxe]
        exact he.wf
      · exact ih x h e' hxe
  | addSubSequence s pos sub _ _ ih _ =>
    unfold Sequence.addSubSequence
    split
    · exact ih
    · split
      · exact ih
      · intro x hx e' hxe
        simp only at hx
        rcases g4_mem_upsert_cases _ _ _ _ hx with h | h
        · rw [h] at hxe; cases hxe
        · exact ih x h e' hxe
  | setSpec s k v _ ih => exact ih
  | setFilter s ch kind order isInt fc tau _ ih =>
    unfold SeqCore.setChannelFilterCompensation
    split
    · exact ih
    · split
      · exact ih
      · split <;> exact ih
  | setSequencing s pos f _ ih =>
    unfold SeqCore.setSequencing
    split <;> exact ih
  | copy s _ ih => exact ih
  | add a b c _ _ hadd iha ihb =>
    unfold Sequence.add at hadd
    split at hadd
    · cases hadd
    · cases hadd
    · split at hadd
      · cases hadd
      · cases hadd
      · split at hadd
        · simp only [Except.ok.injEq] at hadd
          subst hadd
          intro x hx e hxe
          unfold addCore at hx
          simp only at hx
          have hx' : x ∈ b.data.foldl (fun d (p : Int × Entry) => Dict.upsert d (p.1 + (a.data.length : Int)) (copyEntry p.2))
              (a.data.map (fun (p : Int × Entry) => (p.1, copyEntry p.2))) := hx
          rcases g4_foldl_upsert_mem _ _ _ _ hx' with h | ⟨y, hy, hxy⟩
          · obtain ⟨z, hz, rfl⟩ := List.mem_map.mp h
            simp only at hxe
            cases hz2 : z.2 with
            | el e0 =>
              rw [hz2] at hxe
              simp only [copyEntry, Entry.el.injEq] at hxe
              rw [← hxe]
              exact iha z hz e0 hz2
            | sub s0 => rw [hz2] at hxe; simp [copyEntry] at hxe
          · cases hy2 : y.2 with
            | el e0 =>
              rw [hxe, hy2] at hxy
              simp only [copyEntry, Entry.el.injEq] at hxy
              rw [hxy]
              exact ihb y hy e0 hy2
            | sub s0 => rw [hxe, hy2] at hxy; simp [copyEntry] at hxy
        · cases hadd

theorem ElemsWF.get {s : Sequence} (h : ElemsWF s) (p : Int) (e : Element) (hg : Dict.get? s.data p = some (.el e)) :
    Dict.WF e.chans :=
  h (p, .el e) (Dict.mem_of_get?_eq_some p _ hg) e rfl

end Sequence
end BB
