/-
  BB.Proofs.Paths — the two implementations of "apply the channel delays to an element" agree:
  `Element._applyDelays` (used by `Sequence.forge`) and the delay loop of
  `Sequence._prepareForOutputting` (used by both AWG output methods).
-/
import Mathlib.Data.List.Perm.Basic
import BB.Proofs.Delay
import BB.Proofs.DictEq
import BB.Proofs.ForgeSeq

namespace BB
namespace Paths
open Element Sequence

/-- zero padding of every stored array of a raw-array channel -/
def padAll (pre post : Nat) (a : Dict String (List Rat)) : Dict String (List Rat) :=
  a.map (fun (k, xs) => (k, padArr pre post xs))

/-- forge path (`_applyDelays`): one channel entry delayed by `delay` out of `M` -/
def dEnt (sr M : Rat) (ent : ChEntry) (delay : Rat) : Except Err ChEntry :=
  match ent.data with
  | .bp b => .ok { ent with data := .bp (delayBP b delay M).st }
  | .arr a s => .ok { ent with data := .arr (padAll (rhe (delay * sr)).toNat (rhe ((M - delay) * sr)).toNat a) s }
  | .broken => .error .key

/-- output path (`_prepareForOutputting`): the blueprint is stored again with `addBluePrint`
    (a copy; an empty blueprint is refused), the flags are re-added -/
def pEnt (sr M : Rat) (ent : ChEntry) (delay : Rat) : Except Err ChEntry :=
  match ent.data with
  | .bp b =>
    if (delayBP b delay M).st.segs.isEmpty then .error .value
    else .ok { data := .bp (delayBP b delay M).st.copy, flags := ent.flags }
  | .arr a s => .ok { ent with data := .arr (padAll (rhe (delay * sr)).toNat (rhe ((M - delay) * sr)).toNat a) s }
  | .broken => .error .key

/-- **one channel**: whatever the two paths store for a channel delivers the same arrays -/
theorem chanOut_agree (sr M : Rat) (ent : ChEntry) (delay : Rat) (x y : ChEntry) (t : Bool)
    (hx : dEnt sr M ent delay = .ok x) (hy : pEnt sr M ent delay = .ok y) : chanOut t x = chanOut t y := by
  unfold dEnt at hx
  unfold pEnt at hy
  obtain ⟨d, fl⟩ := ent
  cases d with
  | bp b =>
    simp only at hx hy
    split at hy
    · cases hy
    · cases hx; cases hy
      simp only [chanOut, forge_copy]
  | arr a s =>
    simp only at hx hy
    cases hx; cases hy; rfl
  | broken => simp at hx

/-- the output path's step in terms of `pEnt` -/
theorem prepStep_eq (sr M : Rat) (cs : Dict Chan ChEntry) (x : Chan × Rat) :
    prepStep (.num sr) M cs x =
      match Dict.get? cs x.1 with
      | none => .error .key
      | some ent => (pEnt sr M ent x.2).map (fun y => Dict.upsert cs x.1 y) := by
  unfold prepStep pEnt
  cases Dict.get? cs x.1 with
  | none => rfl
  | some ent =>
    obtain ⟨d, fl⟩ := ent
    cases d with
    | bp b =>
      simp only
      have h := (delayBP_spec b x.2 M).1
      simp only [Res.toExcept, h]
      split <;> rfl
    | arr a s => rfl
    | broken => rfl

/-- the delay loop of the output path: every channel in the list (each once) is replaced by its
    delayed entry, computed from the entry the element held *before* the loop; the others and the
    order of the channels are untouched -/
theorem fold_prep (sr M : Rat) (l : List (Chan × Rat)) (hnd : (l.map (·.1)).Nodup)
    (cs0 cs : Dict Chan ChEntry) (hwf : Dict.WF cs0)
    (h : l.foldlM (prepStep (.num sr) M) cs0 = .ok cs) :
    Dict.keys cs = Dict.keys cs0 ∧
    (∀ p ∈ l, ∃ ent0 y, Dict.get? cs0 p.1 = some ent0 ∧ pEnt sr M ent0 p.2 = .ok y ∧ Dict.get? cs p.1 = some y) ∧
    (∀ ch, ch ∉ l.map (·.1) → Dict.get? cs ch = Dict.get? cs0 ch) := by
  induction l generalizing cs0 with
  | nil =>
    simp only [List.foldlM_nil, pure, Except.pure, Except.ok.injEq] at h
    subst h
    exact ⟨rfl, by intro p hp; simp at hp, fun _ _ => rfl⟩
  | cons x rest ih =>
    simp only [List.foldlM_cons, bind, Except.bind] at h
    cases hs : prepStep (.num sr) M cs0 x with
    | error er => rw [hs] at h; cases h
    | ok cs1 =>
      rw [hs] at h
      simp only at h
      rw [prepStep_eq] at hs
      cases hg : Dict.get? cs0 x.1 with
      | none => rw [hg] at hs; cases hs
      | some ent0 =>
        rw [hg] at hs
        simp only at hs
        cases hp : pEnt sr M ent0 x.2 with
        | error er => rw [hp] at hs; simp [Except.map] at hs
        | ok y =>
          rw [hp] at hs
          simp only [Except.map, Except.ok.injEq] at hs
          subst hs
          simp only [List.map_cons, List.nodup_cons] at hnd
          have hmem : x.1 ∈ Dict.keys cs0 := (Dict.get?_isSome_iff _ _).mp (by rw [hg]; rfl)
          have hk1 : Dict.keys (Dict.upsert cs0 x.1 y) = Dict.keys cs0 := Dict.keys_upsert_of_mem _ _ _ hmem
          have hwf1 : Dict.WF (Dict.upsert cs0 x.1 y) := Dict.wf_upsert hwf _ _
          obtain ⟨ik, ip, io⟩ := ih hnd.2 (Dict.upsert cs0 x.1 y) hwf1 h
          refine ⟨by rw [ik, hk1], ?_, ?_⟩
          · intro p hp'
            rcases List.mem_cons.mp hp' with rfl | hp'
            · refine ⟨ent0, y, hg, hp, ?_⟩
              rw [io p.1 hnd.1]
              exact Dict.get?_upsert_self _ _ _
            · obtain ⟨e0, y', h1, h2, h3⟩ := ip p hp'
              have hne : p.1 ≠ x.1 := by
                intro e
                exact hnd.1 (e ▸ List.mem_map.mpr ⟨p, hp', rfl⟩)
              rw [Dict.get?_upsert_other _ _ _ _ hne] at h1
              exact ⟨e0, y', h1, h2, h3⟩
          · intro ch hch
            simp only [List.map_cons, List.mem_cons, not_or] at hch
            rw [io ch hch.2]
            exact Dict.get?_upsert_other _ _ _ _ hch.1

/-! ### helper lemmas -/

theorem mapM_eq_map {α β : Type} (f : α → Except Err β) (l : List α) (r : List β) (h : l.mapM f = .ok r) (dflt : β) :
    r = l.map (fun a => (f a).toOption.getD dflt) := by
  apply List.ext_getElem
  · simp [mapM_ok_length f l r h]
  · intro i h1 h2
    have hi : i < l.length := by simpa using h2
    have := mapM_ok_getElem f l r h i hi h1
    simp [this, Except.toOption]

theorem mapM_zip_mem {α β : Type} (f : α → Except Err β) (l : List α) (r : List β) (h : l.mapM f = .ok r) :
    (l.zip r).map (·.1) = l ∧ ∀ p ∈ l.zip r, f p.1 = .ok p.2 := by
  have hl := mapM_ok_length f l r h
  refine ⟨by rw [List.map_fst_zip]; omega, fun p hp => ?_⟩
  obtain ⟨i, hi, rfl⟩ := List.getElem_of_mem hp
  have hi' : i < l.length ∧ i < r.length := by simpa using hi
  simp only [List.getElem_zip]
  exact mapM_ok_getElem f l r h i hi'.1 hi'.2

theorem le_maxR (xs : List Rat) (x : Rat) (h : x ∈ xs) : x ≤ maxR xs := by
  induction xs with
  | nil => simp at h
  | cons y ys ih =>
    cases ys with
    | nil => simp at h; subst h; simp [maxR]
    | cons z zs =>
      simp only [maxR]
      simp only [List.mem_cons] at h
      rcases h with rfl | h
      · split <;> rename_i hc
        · exact le_refl _
        · exact not_lt.mp hc
      · have := ih (by simpa using h)
        split <;> rename_i hc
        · exact le_of_lt (lt_of_le_of_lt this hc)
        · exact this

theorem maxR_mem (xs : List Rat) (hne : xs ≠ []) : maxR xs ∈ xs := by
  induction xs with
  | nil => exact absurd rfl hne
  | cons y ys ih =>
    cases ys with
    | nil => simp [maxR]
    | cons z zs =>
      simp only [maxR]
      split
      · simp
      · exact List.mem_cons_of_mem _ (ih (by simp))

/-- `max(delays)` does not depend on the order in which the channels are listed -/
theorem maxR_perm (a b : List Rat) (h : a.Perm b) : maxR a = maxR b := by
  by_cases ha : a = []
  · subst ha; rw [h.nil_eq]
  · have hb : b ≠ [] := fun e => ha (by subst e; exact h.eq_nil)
    apply le_antisymm
    · exact le_maxR b _ (h.subset (maxR_mem a ha))
    · exact le_maxR a _ (h.symm.subset (maxR_mem b hb))

/-! ### the forge path, channel by channel -/

theorem delayChan_eq (sr M : Rat) (ent : ChEntry) (delay : Rat) : delayChan sr M ent delay = dEnt sr M ent delay := by
  unfold delayChan dEnt
  obtain ⟨d, fl⟩ := ent
  cases d with
  | bp b => simp only [Res.toExcept, (delayBP_spec b delay M).1]
  | arr a s => rfl
  | broken => rfl

theorem applyDelays_ok (e : Element) (ds : List Rat) (h : (e.applyDelays ds).err = none) :
    ∃ m sr, e.validate = .ok m ∧ m.1 = .num sr ∧ ds.length = e.chans.length ∧
      (e.chans.zip ds).mapM (fun p => (dEnt sr (maxR ds) p.1.2 p.2).map (fun y => (p.1.1, y))) =
        .ok (e.applyDelays ds).st.chans := by
  unfold applyDelays at h ⊢
  split at h
  · simp at h
  · rename_i hlen
    split at h
    · simp at h
    · rename_i hneg
      cases hv : e.validate with
      | error er => simp [hv] at h
      | ok m =>
        simp only [hv] at h ⊢
        cases hm : m.1 with
        | num sr =>
          simp only [hm] at h ⊢
          have hfun : (fun (p : (Chan × ChEntry) × Rat) => (delayChan sr (maxR ds) p.1.2 p.2).map (fun y => (p.1.1, y))) =
              (fun p => (dEnt sr (maxR ds) p.1.2 p.2).map (fun y => (p.1.1, y))) := by
            funext p; rw [delayChan_eq]
          rw [hfun] at h ⊢
          cases hgo : (e.chans.zip ds).mapM (fun p => (dEnt sr (maxR ds) p.1.2 p.2).map (fun y => (p.1.1, y))) with
          | error er => rw [hgo] at h; simp at h
          | ok chans =>
            simp only [hlen, if_false]
            refine ⟨m, sr, rfl, hm, by simpa using hlen, ?_⟩
            split
            · rename_i hany; exact absurd hany hneg
            · exact hgo
        | str _ => simp [hm] at h
        | none => simp [hm] at h
        | opq _ => simp [hm] at h

/-! ### one element: both paths deliver the same arrays -/

theorem mapM_congr_map {α β : Type} (F : α → Except Err β) (l1 l2 : List α) (h : l1.map F = l2.map F) :
    l1.mapM F = l2.mapM F := by
  induction l1 generalizing l2 with
  | nil => cases l2 with
    | nil => rfl
    | cons _ _ => simp at h
  | cons a t ih =>
    cases l2 with
    | nil => simp at h
    | cons b u =>
      simp only [List.map_cons, List.cons.injEq] at h
      rw [List.mapM_cons, List.mapM_cons, h.1, ih u h.2]

theorem getElem_of_keys_eq {α : Type} (a b : Dict Chan α) (h : Dict.keys a = Dict.keys b) (k : Nat)
    (ha : k < a.length) (hb : k < b.length) : (a[k]).1 = (b[k]).1 := by
  have := congrArg (fun l => l[k]?) h
  simpa [Dict.keys, List.getElem?_map, List.getElem?_eq_getElem ha, List.getElem?_eq_getElem hb] using this

/-- the delay declared for a channel (0 when the lookup fails) -/
def delayFn (s : Sequence) (ch : Chan) : Rat := (s.delayOf ch).toOption.getD 0

/-- **the two delay implementations agree on an element**: `Element._applyDelays` with the delays
    looked up for the element's own channels (forge) and the loop of `_prepareForOutputting` with
    the delays looked up for the channels of element 1 (any permutation of this element's
    channels) leave elements that deliver exactly the same arrays -/
theorem element_paths_agree (s : Sequence) (e e' e'' : Element) (chans : List Chan) (delays : List Rat)
    (srv : Val) (t : Bool) (hwf : Dict.WF e.chans) (hperm : chans.Perm e.channels)
    (h1 : s.delayElement e = .ok e') (hd : chans.mapM s.delayOf = .ok delays)
    (hsr : e.getSR = .ok srv) (h2 : prepDelayElement srv e chans delays = .ok e'') :
    e'.getArrays t = e''.getArrays t ∧ e''.channels = e.channels := by
  -- the forge path
  unfold delayElement at h1
  simp only [bind, Except.bind, delaysFor] at h1
  cases hds : e.channels.mapM s.delayOf with
  | error er => rw [hds] at h1; cases h1
  | ok ds =>
    rw [hds] at h1
    simp only at h1
    cases herr : (e.applyDelays ds).err with
    | some er => rw [herr] at h1; simp [throw, throwThe, MonadExceptOf.throw] at h1
    | none =>
      rw [herr] at h1
      simp only [pure, Except.pure, Except.ok.injEq] at h1
      obtain ⟨m, sr, hv, hm, hlen, hmap⟩ := applyDelays_ok e ds herr
      rw [h1] at hmap
      -- the sample rate handed to the output path is the element's
      have hsrv : srv = .num sr := by
        unfold Element.getSR at hsr
        rw [hv] at hsr
        simp only [Except.map, Except.ok.injEq] at hsr
        rw [← hsr, hm]
      subst hsrv
      -- delays as a function of the channel
      have hds' : ds = e.channels.map (delayFn s) := mapM_eq_map _ _ _ hds 0
      have hdel' : delays = chans.map (delayFn s) := mapM_eq_map _ _ _ hd 0
      have hM : maxR delays = maxR ds := by
        rw [hds', hdel']; exact maxR_perm _ _ (hperm.map (delayFn s))
      -- the output path
      unfold prepDelayElement at h2
      cases hf : (chans.zip delays).foldlM (prepStep (.num sr) (maxR delays)) e.chans with
      | error er => rw [hf] at h2; simp [Except.map] at h2
      | ok c'' =>
        rw [hf] at h2
        simp only [Except.map, Except.ok.injEq] at h2
        subst h2
        obtain ⟨hz1, hz2⟩ := mapM_zip_mem _ _ _ hd
        have hnd : ((chans.zip delays).map (·.1)).Nodup := by
          rw [hz1]; exact (hperm.nodup_iff).mpr hwf
        obtain ⟨hk, hp, _⟩ := fold_prep sr (maxR delays) (chans.zip delays) hnd e.chans c'' hwf hf
        have hl1 := mapM_ok_length _ _ _ hmap
        have hlz : (e.chans.zip ds).length = e.chans.length := by simp [hlen]
        have hl2 : c''.length = e.chans.length := by
          have := congrArg List.length hk; simpa [Dict.keys] using this
        have hwf'' : Dict.WF c'' := by unfold Dict.WF; rw [hk]; exact hwf
        refine ⟨?_, hk⟩
        unfold Element.getArrays
        apply mapM_congr_map
        apply List.ext_getElem
        · simp; omega
        · intro k hk1 hk2
          simp only [List.getElem_map]
          have k0 : k < e.chans.length := by simp at hk1; omega
          have k1 : k < e'.chans.length := by simp at hk1; exact hk1
          have k2 : k < c''.length := by omega
          have kz : k < (e.chans.zip ds).length := by omega
          have kd : k < ds.length := by omega
          -- forge: entry k
          have ef := mapM_ok_getElem _ _ _ hmap k kz k1
          simp only [List.getElem_zip] at ef
          cases hx : dEnt sr (maxR ds) (e.chans[k]).2 ds[k] with
          | error er => rw [hx] at ef; simp [Except.map] at ef
          | ok x =>
            rw [hx] at ef
            simp only [Except.map, Except.ok.injEq] at ef
            -- output path: the same channel
            have hch : (c''[k]).1 = (e.chans[k]).1 := getElem_of_keys_eq c'' e.chans hk k k2 k0
            have hmemch : (e.chans[k]).1 ∈ chans := by
              apply hperm.symm.subset
              exact List.mem_map.mpr ⟨e.chans[k], List.getElem_mem k0, rfl⟩
            rw [← hz1] at hmemch
            obtain ⟨p, hpz, hp1⟩ := List.mem_map.mp hmemch
            obtain ⟨ent0, y, hg0, hpe, hgy⟩ := hp p hpz
            have hent0 : ent0 = (e.chans[k]).2 := by
              have := Dict.get?_eq_some_of_mem hwf (e.chans[k]).1 (e.chans[k]).2 (List.getElem_mem k0)
              rw [hp1, this] at hg0
              exact (Option.some.inj hg0).symm
            have hy : y = (c''[k]).2 := by
              have := Dict.get?_eq_some_of_mem hwf'' (c''[k]).1 (c''[k]).2 (List.getElem_mem k2)
              rw [hp1, ← hch, this] at hgy
              exact (Option.some.inj hgy).symm
            have hdk : p.2 = ds[k] := by
              have h3 := hz2 p hpz
              have : ds[k] = delayFn s (e.chans[k]).1 := by
                have := congrArg (fun l => l[k]?) hds'
                simp only [List.getElem?_eq_getElem kd, Element.channels, Dict.keys, List.getElem?_map,
                  List.getElem?_eq_getElem k0, Option.map_some, Option.some.injEq] at this
                exact this
              rw [this, ← hp1]
              simp only [delayFn, h3, Except.toOption, Option.getD_some]
            rw [hent0, hdk, hM] at hpe
            have hagree := chanOut_agree sr (maxR ds) (e.chans[k]).2 ds[k] x y t hx hpe
            rw [← ef]
            simp only
            rw [hagree, hy]
            have : c''[k] = ((c''[k]).1, (c''[k]).2) := rfl
            rw [this, hch]

theorem getArrays_keys (e : Element) (t : Bool) (arr : Dict Chan ChOut) (h : e.getArrays t = .ok arr) :
    Dict.keys arr = e.channels := by
  unfold Element.getArrays at h
  unfold Element.channels
  generalize e.chans = l at h
  induction l generalizing arr with
  | nil => simp [List.mapM_nil, pure, Except.pure] at h; subst h; rfl
  | cons x xs ih =>
    obtain ⟨ch, ent⟩ := x
    rw [mapM_cons_eq] at h
    simp only at h
    cases hxs : xs.mapM (fun (x : Chan × ChEntry) => match x with | (ch, ent) => (chanOut t ent).map (fun o => (ch, o))) with
    | error er =>
      rw [hxs] at h
      cases hc : chanOut t ent <;> rw [hc] at h <;> simp [Except.map] at h
    | ok ys =>
      rw [hxs] at h
      cases hc : chanOut t ent with
      | error er => rw [hc] at h; simp [Except.map] at h
      | ok o =>
        rw [hc] at h
        simp only [Except.map, Except.ok.injEq] at h
        subst h
        simp only [Dict.keys, List.map_cons, List.cons.injEq, true_and]
        exact ih ys hxs

theorem mapM_congr_fun {α β : Type} (F G : α → Except Err β) (l : List α) (h : ∀ x ∈ l, F x = G x) :
    l.mapM F = l.mapM G := by
  induction l with
  | nil => rfl
  | cons a t ih =>
    rw [List.mapM_cons, List.mapM_cons, h a (by simp), ih (fun x hx => h x (by simp [hx]))]

/-- the filter passes of the two paths coincide on the channels of element 1 -/
theorem filters_agree (s : Sequence) (chans : List Chan) (arr : Dict Chan ChOut)
    (hsub : ∀ x ∈ arr, x.1 ∈ chans) : s.withFilters true arr = s.prepFilters chans arr := by
  unfold withFilters prepFilters
  apply mapM_congr_fun
  intro x hx
  have hc : chans.contains x.1 = true := by simpa using hsub x hx
  simp only [attach, if_true, hc]
  cases s.filterOf x.1 <;> rfl

/-- **the output path and `forge` agree**: for a sequence of elements, `_prepareForOutputting`
    (behind `outputForAWGFile` and `outputForSEQXFile`) delivers at every position exactly the
    per-channel arrays — waveform with the same filter annotation, both markers, flags — that
    `forge(apply_delays=True, apply_filters=True)` delivers there.
    Hypotheses: every entry is an element whose channel store has no duplicate key (what
    `addBluePrint`/`addArray` build), and element 1's channel list is a permutation of every
    element's (what `checkConsistency` establishes). -/
theorem paths_agree (s : Sequence) (F : List (Nat × ForgedPos)) (P : List (Dict Chan ChOutF))
    (hF : s.forge true true false = .ok F) (hP : s.prepareForOutputting = .ok P)
    (hwf : ∀ p e, Dict.get? s.data p = some (.el e) → Dict.WF e.chans)
    (hch : ∀ e1 p e, Dict.get? s.data 1 = some (.el e1) → Dict.get? s.data p = some (.el e) → e1.channels.Perm e.channels) :
    P.length = F.length ∧
    ∀ i (h1 : i < F.length) (h2 : i < P.length), ∃ sq, Dict.get? s.sequencing ((i + 1 : Nat) : Int) = some sq ∧
      F[i] = (i + 1, { sequencing := sq, isSub := false, content := [(1, P[i], none)] }) := by
  unfold prepareForOutputting at hP
  split at hP
  · cases hP
  · cases hP
  · split at hP
    · cases hP
    · rename_i en hen
      split at hP
      · cases hP
      · rename_i chans hchans
        split at hP
        · cases hP
        · split at hP
          · cases hP
          · split at hP
            · cases hP
            · rename_i delays hdel
              split at hP
              · cases hP
              · rename_i els hels
                split at hP
                · cases hP
                · rename_i forged hforged
                  obtain ⟨hFl, hFpos⟩ := forge_pos s true true false F hF
                  unfold prepElements at hels
                  have l1 := mapM_ok_length _ _ _ hels
                  have l2 := mapM_ok_length _ _ _ hforged
                  have l3 := mapM_ok_length _ _ _ hP
                  simp only [List.length_range] at l1
                  refine ⟨by omega, fun i h1 h2 => ?_⟩
                  have i0 : i < (List.range s.data.length).length := by simp; omega
                  have i1 : i < els.length := by omega
                  have i2 : i < forged.length := by omega
                  have ee := mapM_ok_getElem _ _ _ hels i i0 i1
                  rw [List.getElem_range] at ee
                  have ef := mapM_ok_getElem _ _ _ hforged i i1 i2
                  have ep := mapM_ok_getElem _ _ _ hP i i2 h2
                  -- the entry at this position is an element
                  cases hg : Dict.get? s.data ((i + 1 : Nat) : Int) with
                  | none => rw [hg] at ee; cases ee
                  | some eni =>
                    rw [hg] at ee
                    cases eni with
                    | sub _ => cases ee
                    | el e =>
                      simp only at ee
                      cases hsr : e.getSR with
                      | error er => rw [hsr] at ee; cases ee
                      | ok srv =>
                        rw [hsr] at ee
                        simp only at ee
                        -- element 1
                        have hen1 : ∃ e1, en = .el e1 := by
                          cases en with
                          | el e1 => exact ⟨e1, rfl⟩
                          | sub sb =>
                            exfalso
                            -- position 1 would be a subsequence, but `prepElements` succeeded at index 0
                            have hpos : 0 < s.data.length := by omega
                            have i00 : 0 < (List.range s.data.length).length := by simp; exact hpos
                            have i01 : 0 < els.length := by omega
                            have e0 := mapM_ok_getElem _ _ _ hels 0 i00 i01
                            rw [List.getElem_range] at e0
                            have : ((0 + 1 : Nat) : Int) = 1 := by norm_num
                            rw [this, hen] at e0
                            cases e0
                        obtain ⟨e1, rfl⟩ := hen1
                        have hc1 : chans = e1.channels := by
                          simp only [Entry.channels, Except.ok.injEq] at hchans; exact hchans.symm
                        -- the forge side at this position
                        obtain ⟨e', arr, c, sq, hde, ha, hw, hsq, hFi⟩ :=
                          forge_element_position' s F hF i h1 e hg
                        have hde' : s.delayElement e = .ok e' := by simpa [delayedEl] using hde
                        have hperm : chans.Perm e.channels := hc1 ▸ hch e1 _ e hen hg
                        obtain ⟨hag, hkeys⟩ := element_paths_agree s e e' els[i] chans delays srv false
                          (hwf _ e hg) hperm hde' hdel hsr ee
                        rw [hag, ef] at ha
                        cases ha
                        have hkeysarr := getArrays_keys els[i] false forged[i] ef
                        have hsub : ∀ x ∈ forged[i], x.1 ∈ chans := by
                          intro x hx
                          apply hperm.symm.subset
                          rw [← hkeys, ← hkeysarr]
                          exact List.mem_map.mpr ⟨x, hx, rfl⟩
                        rw [filters_agree s chans forged[i] hsub, ep] at hw
                        cases hw
                        exact ⟨sq, hsq, hFi⟩

end Paths
end BB
