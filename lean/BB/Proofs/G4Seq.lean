/-
  BB.Proofs.G4Seq — `Sequence.forge` assembled from its positions (the converse of `forge_pos`),
  `forge` as a function of the few things it reads from the sequence (congruence), and what the
  consistency gate of a parent sequence says about a stored subsequence.
-/
import BB.Proofs.ForgeSeq
import BB.Proofs.Consistent

namespace BB

/-! ### generic `mapM` lemmas -/

theorem g4_mapM_ok_of_getElem {α β : Type} (f : α → Except Err β) (l : List α) (r : List β) (hl : r.length = l.length)
    (h : ∀ i (hi : i < l.length) (hr : i < r.length), f l[i] = .ok r[i]) : l.mapM f = .ok r := by
  induction l generalizing r with
  | nil =>
    have : r = [] := List.eq_nil_of_length_eq_zero (by simpa using hl)
    subst this; rfl
  | cons a t ih =>
    cases r with
    | nil => simp at hl
    | cons b bs =>
      rw [mapM_cons_eq]
      have h0 := h 0 (by simp) (by simp)
      simp only [List.getElem_cons_zero] at h0
      rw [h0]
      have := ih bs (by simpa using hl) (fun i hi hr => by
        have := h (i + 1) (by simpa using hi) (by simpa using hr)
        simpa using this)
      rw [this]

/-- a `mapM` over a composed step splits into two passes -/
theorem g4_mapM_bind_split {α β γ : Type} (f : α → Except Err β) (g : β → Except Err γ) (l : List α) (r : List γ)
    (h : l.mapM (fun x => f x >>= g) = .ok r) : ∃ m, l.mapM f = .ok m ∧ m.mapM g = .ok r := by
  induction l generalizing r with
  | nil =>
    simp only [List.mapM_nil, pure, Except.pure, Except.ok.injEq] at h
    subst h
    exact ⟨[], rfl, rfl⟩
  | cons a t ih =>
    rw [mapM_cons_eq] at h
    cases hfa : f a with
    | error e => simp [hfa, bind, Except.bind] at h
    | ok b =>
      cases hg : g b with
      | error e => simp [hfa, hg, bind, Except.bind] at h
      | ok c =>
        simp only [hfa, hg, bind, Except.bind] at h
        cases ht : t.mapM (fun x => f x >>= g) with
        | error e =>
          simp only [bind, Except.bind] at ht
          rw [ht] at h; cases h
        | ok cs =>
          simp only [bind, Except.bind] at ht
          rw [ht] at h
          simp only [Except.ok.injEq] at h
          subst h
          obtain ⟨m, hm1, hm2⟩ := ih cs (by simpa [bind, Except.bind] using ht)
          refine ⟨b :: m, ?_, ?_⟩
          · rw [mapM_cons_eq, hfa, hm1]
          · rw [mapM_cons_eq, hg, hm2]

theorem g4_mapM_map_eq {α β γ : Type} (g : α → β) (f : β → Except Err γ) (l : List α) :
    (l.map g).mapM f = l.mapM (fun x => f (g x)) := by
  induction l with
  | nil => rfl
  | cons a t ih => rw [List.map_cons, mapM_cons_eq, mapM_cons_eq, ih]

theorem mapM_congr_fun_g4 {α β : Type} (F G : α → Except Err β) (l : List α) (h : ∀ x ∈ l, F x = G x) :
    l.mapM F = l.mapM G := by
  induction l with
  | nil => rfl
  | cons a t ih =>
    rw [List.mapM_cons, List.mapM_cons, h a (by simp), ih (fun x hx => h x (by simp [hx]))]

namespace Sequence

/-! ### `forge` from its positions -/

/-- the three passes of `forge` at one position, fused -/
def g4_posStep (s : Sequence) (d f t : Bool) (i : Nat) : Except Err (Nat × ForgedPos) :=
  match Dict.get? s.data ((i + 1 : Nat) : Int) with
  | none => .error .key
  | some en => s.forgePos d f t (i + 1) en

theorem g4_posStep_eq (s : Sequence) (d f t : Bool) (i : Nat) :
    g4_posStep s d f t i =
      (((match Dict.get? s.data ((i + 1 : Nat) : Int) with
          | none => Except.error Err.key
          | some en => Except.ok (i + 1, en)) >>=
        (fun x => (s.delayEntry d x.2).map (fun en => (x.1, en)))) >>= s.forgeEntry t) >>= s.filterEntry f := by
  unfold g4_posStep forgePos
  cases Dict.get? s.data ((i + 1 : Nat) : Int) with
  | none => rfl
  | some en =>
    simp only [bind, Except.bind]
    cases s.delayEntry d en with
    | error e => rfl
    | ok en' =>
      simp only [Except.map]
      cases s.forgeEntry t (i + 1, en') <;> rfl

/-- **the converse of `forge_pos`**: a consistent sequence whose every position 1..N forges,
    forges — to the list of what the positions forge to -/
theorem g4_forge_intro (s : Sequence) (d f t : Bool) (out : List (Nat × ForgedPos))
    (hc : s.checkConsistency = .ok true) (hch : ∃ c, s.channels = .ok c)
    (hlen : out.length = s.data.length)
    (hpos : ∀ i (hi : i < out.length), ∃ en, Dict.get? s.data ((i + 1 : Nat) : Int) = some en ∧
      s.forgePos d f t (i + 1) en = .ok out[i]) :
    s.forge d f t = .ok out := by
  have hfused : (List.range s.data.length).mapM (g4_posStep s d f t) = .ok out := by
    apply g4_mapM_ok_of_getElem
    · simpa using hlen
    · intro i hi hr
      obtain ⟨en, hen, hp⟩ := hpos i hr
      rw [List.getElem_range]
      unfold g4_posStep
      rw [hen]; exact hp
  have hfun : g4_posStep s d f t = fun i =>
      (((match Dict.get? s.data ((i + 1 : Nat) : Int) with
          | none => Except.error Err.key
          | some en => Except.ok (i + 1, en)) >>=
        (fun x => (s.delayEntry d x.2).map (fun en => (x.1, en)))) >>= s.forgeEntry t) >>= s.filterEntry f := by
    funext i; exact g4_posStep_eq s d f t i
  rw [hfun] at hfused
  obtain ⟨forged, h3, h4⟩ := g4_mapM_bind_split _ _ _ _ hfused
  obtain ⟨delayed, h2, h3'⟩ := g4_mapM_bind_split _ _ _ _ h3
  obtain ⟨ents, h1, h2'⟩ := g4_mapM_bind_split _ _ _ _ h2
  obtain ⟨c, hc'⟩ := hch
  unfold forge
  simp only [hc, hc']
  have he : s.entriesInOrder = .ok ents := by
    unfold entriesInOrder
    exact h1
  rw [he]
  simp only
  rw [h2']
  simp only
  rw [h3']
  simp only
  exact h4

/-! ### what `forge` reads from the sequence -/

/-- **`forge` depends on the sequence only through** its store, its sequencing table, whether a
    sample rate is set, and the declared delay and filter of every channel -/
theorem g4_forge_congr (s s' : Sequence) (d f t : Bool) (hd : s.data = s'.data) (hq : s.sequencing = s'.sequencing)
    (hsr : Dict.has s.awgspecs "SR" = Dict.has s'.awgspecs "SR")
    (hdel : ∀ ch, s.delayOf ch = s'.delayOf ch) (hfil : ∀ ch, s.filterOf ch = s'.filterOf ch) :
    s.forge d f t = s'.forge d f t := by
  have hcc : s.checkConsistency = s'.checkConsistency := by
    unfold checkConsistency; rw [hsr, hd]
  have hch : s.channels = s'.channels := by
    unfold channels; rw [hcc, hd]
  have hent : s.entriesInOrder = s'.entriesInOrder := by
    unfold entriesInOrder; rw [hd]
  have hdelE : s.delayElement = s'.delayElement := by
    funext e
    unfold delayElement delaysFor
    have : s.delayOf = s'.delayOf := funext hdel
    rw [this]
  have hdelEn : s.delayEntry = s'.delayEntry := by
    funext a en
    unfold delayEntry
    rw [hdelE]
  have hfe : s.forgeEntry = s'.forgeEntry := by
    funext a x
    unfold forgeEntry
    rw [hq]
  have hfl : s.filterEntry = s'.filterEntry := by
    funext a x
    unfold filterEntry withFilters
    have : s.attach = s'.attach := by
      funext ap y
      unfold attach
      rw [hfil]
    rw [this]
  unfold forge
  rw [hcc, hch, hent, hdelEn, hfe, hfl]

/-! ### the consistency gate and a stored subsequence -/

/-- the gate of the parent checks every stored subsequence's own consistency -/
theorem g4_sub_consistent (s : Sequence) (hc : s.checkConsistency = .ok true) (p : Int) (sub : SubSeq)
    (hs : Dict.get? s.data p = some (.sub sub)) :
    Dict.has s.awgspecs "SR" = true ∧ sub.checkConsistency = .ok true ∧ ∃ e, Dict.get? sub.data 1 = some e := by
  unfold checkConsistency at hc
  split at hc
  · cases hc
  · rename_i hsr
    refine ⟨by simpa using hsr, ?_⟩
    split at hc
    · cases hc
    · split at hc
      · cases hc
      · split at hc
        · split at hc <;> cases hc
        · rename_i chans hchans
          have m : Entry.sub sub ∈ Dict.vals s.data :=
            List.mem_map.mpr ⟨(p, .sub sub), Dict.mem_of_get?_eq_some p _ hs, rfl⟩
          obtain ⟨c, _, hcs⟩ := mapM_mem _ _ _ hchans _ m
          simp only [Entry.channels] at hcs
          unfold SubSeq.channels at hcs
          cases hcc : sub.checkConsistency with
          | error e => simp [hcc, bind, Except.bind] at hcs
          | ok b =>
            cases b with
            | false => simp [hcc, bind, Except.bind, throw, throwThe, MonadExceptOf.throw] at hcs
            | true =>
              refine ⟨rfl, ?_⟩
              simp only [hcc, bind, Except.bind, Bool.not_true, Bool.false_eq_true, if_false, pure, Except.pure] at hcs
              cases hg : Dict.get? sub.data 1 with
              | none => simp [hg, throw, throwThe, MonadExceptOf.throw] at hcs
              | some e => exact ⟨e, rfl⟩

/-- a successful `forge` has passed the consistency gate -/
theorem g4_forge_ok_consistent (s : Sequence) (d f t : Bool) (out : List (Nat × ForgedPos)) (h : s.forge d f t = .ok out) :
    s.checkConsistency = .ok true ∧ ∃ c, s.channels = .ok c := by
  unfold forge at h
  split at h
  · cases h
  · cases h
  · rename_i hc
    refine ⟨hc, ?_⟩
    split at h
    · cases h
    · rename_i c hch
      exact ⟨c, hch⟩

/-- the gate validates every stored element -/
theorem g4_consistent_element_validates (s : Sequence) (hc : s.checkConsistency = .ok true) (p : Int) (e : Element)
    (he : Dict.get? s.data p = some (.el e)) : ∃ m, e.validate = .ok m := by
  unfold checkConsistency at hc
  split at hc
  · cases hc
  · split at hc
    · cases hc
    · rename_i srs hsrs
      have m : Entry.el e ∈ Dict.vals s.data :=
        List.mem_map.mpr ⟨(p, .el e), Dict.mem_of_get?_eq_some p _ he, rfl⟩
      obtain ⟨v, _, hv⟩ := mapM_mem _ _ _ hsrs _ m
      simp only [Entry.getSR, Element.getSR] at hv
      cases hval : e.validate with
      | error er => rw [hval] at hv; simp [Except.map] at hv
      | ok m => exact ⟨m, rfl⟩

/-- ... and a consistent subsequence has validated every one of its elements -/
theorem g4_subseq_element_validates (sub : SubSeq) (hc : sub.checkConsistency = .ok true) (p : Int) (e : Element)
    (he : Dict.get? sub.data p = some e) : ∃ m, e.validate = .ok m := by
  unfold SubSeq.checkConsistency at hc
  split at hc
  · cases hc
  · split at hc
    · cases hc
    · rename_i srs hsrs
      have m : e ∈ Dict.vals sub.data :=
        List.mem_map.mpr ⟨(p, e), Dict.mem_of_get?_eq_some p _ he, rfl⟩
      obtain ⟨v, _, hv⟩ := mapM_mem _ _ _ hsrs _ m
      simp only [Element.getSR] at hv
      cases hval : e.validate with
      | error er => rw [hval] at hv; simp [Except.map] at hv
      | ok m => exact ⟨m, rfl⟩

theorem g4_validate_chans_ne_nil (e : Element) (m : Val × Rat) (h : e.validate = .ok m) : e.chans ≠ [] := by
  intro h0
  unfold Element.validate at h
  simp [h0, Dict.vals] at h


theorem g4_keys_map_el (d : Dict Int Element) :
    Dict.keys (d.map (fun pe => (pe.1, Entry.el pe.2))) = Dict.keys d := by
  simp [Dict.keys, List.map_map, Function.comp_def]

theorem g4_vals_map_el (d : Dict Int Element) :
    Dict.vals (d.map (fun pe => (pe.1, Entry.el pe.2))) = (Dict.vals d).map Entry.el := by
  simp [Dict.vals, List.map_map, Function.comp_def]

theorem get_map_el_g4 (d : Dict Int Element) (k : Int) :
    Dict.get? (d.map (fun pe => (pe.1, Entry.el pe.2))) k = (Dict.get? d k).map Entry.el := by
  induction d with
  | nil => rfl
  | cons x xs ih =>
    unfold Dict.get? at *
    simp only [List.map_cons, List.find?_cons]
    by_cases hk : x.1 = k
    · simp [hk]
    · simp only [hk, decide_false]
      exact ih

/-- a consistent subsequence, taken as a sequence of its own under settings that carry a sample
    rate, is consistent -/
theorem asSequence_consistent (s : Sequence) (sub : SubSeq) (hsr : Dict.has s.awgspecs "SR" = true)
    (hc : sub.checkConsistency = .ok true) : (asSequence s sub).checkConsistency = .ok true := by
  unfold SubSeq.checkConsistency at hc
  unfold checkConsistency asSequence
  simp only [hsr, Bool.not_true, Bool.false_eq_true, if_false, g4_vals_map_el, g4_keys_map_el]
  split at hc
  · cases hc
  · split at hc
    · cases hc
    · rename_i srs hsrs
      rw [g4_mapM_map_eq]
      simp only [Entry.getSR]
      rw [hsrs]
      simp only
      split at hc
      · cases hc
      · rename_i hall
        simp only [hall]
        rw [g4_mapM_map_eq]
        simp only [Entry.channels]
        rw [mapM_ok_of_forall (fun (e : Element) => Except.ok e.channels) (fun e => e.channels) _ (fun _ _ => rfl)]
        simp only [List.map_map, Function.comp_def]
        split at hc
        · cases hc
        · rename_i hal
          simp only [hal]
          exact hc

end Sequence
end BB
