/-
  BB.Proofs.Sweep — what the loops of `broadbean.tools` leave at every position.
-/
import BB.Proofs.DictEq
import BB.Model.Tools

namespace BB
namespace Tools

/-- one value applied to one element (the state after the call, raised or not) -/
def changed (e : Element) (v : Variation) (val : Val) : Element := (applyChange e v.chan v.name v.arg val).st

theorem modifyElement_ok (s s' : Sequence) (pos : Int) (f : Element → Res Element)
    (h : (modifyElement s pos f).toExcept = .ok s') :
    ∃ e, Dict.get? s.data pos = some (.el e) ∧ (f e).err = none ∧
      s' = { s with data := Dict.upsert s.data pos (.el (f e).st) } := by
  unfold modifyElement at h
  split at h
  · rename_i e he
    refine ⟨e, he, ?_, ?_⟩
    · unfold Res.toExcept at h
      simp only at h
      split at h
      · cases h
      · assumption
    · unfold Res.toExcept at h
      simp only at h
      split at h
      · cases h
      · cases h; rfl
  · simp [Res.toExcept] at h
  · simp [Res.toExcept] at h

/-- the inner loop: the value with index `j` lands on the element at position `m + j + 1`,
    every other position is untouched; settings and sequencing are untouched -/
theorem applyVals_spec (v : Variation) (vals : List Val) (m : Nat) (s s' : Sequence)
    (h : applyVals v vals m s = .ok s') :
    (∀ j (hj : j < vals.length), ∃ e, Dict.get? s.data ((m + j + 1 : Nat) : Int) = some (.el e) ∧
        Dict.get? s'.data ((m + j + 1 : Nat) : Int) = some (.el (changed e v vals[j]))) ∧
    (∀ p : Int, (∀ j, j < vals.length → p ≠ ((m + j + 1 : Nat) : Int)) → Dict.get? s'.data p = Dict.get? s.data p) ∧
    s'.awgspecs = s.awgspecs ∧ s'.sequencing = s.sequencing := by
  induction vals generalizing m s with
  | nil =>
    simp only [applyVals, Except.ok.injEq] at h
    subst h
    exact ⟨by intro j hj; simp at hj, fun _ _ => rfl, rfl, rfl⟩
  | cons val rest ih =>
    unfold applyVals at h
    cases hm : (modifyElement s ((m + 1 : Nat) : Int) (fun e => applyChange e v.chan v.name v.arg val)).toExcept with
    | error er => rw [hm] at h; cases h
    | ok s1 =>
      rw [hm] at h
      simp only at h
      obtain ⟨e, he, _, hs1⟩ := modifyElement_ok s s1 _ _ hm
      obtain ⟨ih1, ih2, ih3, ih4⟩ := ih (m + 1) s1 h
      have hget1 : ∀ p : Int, p ≠ ((m + 1 : Nat) : Int) → Dict.get? s1.data p = Dict.get? s.data p := by
        intro p hp; rw [hs1]; exact Dict.get?_upsert_other _ _ _ _ hp
      have hself : Dict.get? s1.data ((m + 1 : Nat) : Int) = some (.el (changed e v val)) := by
        rw [hs1]; exact Dict.get?_upsert_self _ _ _
      refine ⟨?_, ?_, ?_, ?_⟩
      · intro j hj
        cases j with
        | zero =>
          refine ⟨e, by simpa using he, ?_⟩
          have := ih2 ((m + 1 : Nat) : Int) (by intro j _; push_cast; omega)
          simp only [Nat.add_zero, List.getElem_cons_zero]
          rw [this]; exact hself
        | succ j =>
          obtain ⟨e', he', hres⟩ := ih1 j (by simpa using hj)
          have hidx : m + 1 + j + 1 = m + (j + 1) + 1 := by omega
          rw [hidx] at he' hres
          refine ⟨e', ?_, by simpa using hres⟩
          rw [← hget1 _ (by push_cast; omega)]; exact he'
      · intro p hp
        rw [ih2 p (by intro j hj; have := hp (j + 1) (by simpa using hj); intro e; apply this; rw [e]; congr 1; omega)]
        exact hget1 p (by have := hp 0 (by simp); simpa using this)
      · rw [ih3, hs1]
      · rw [ih4, hs1]

/-- the element the outer loop leaves at index `j`: all variations applied in order, each with
    its own `j`-th value -/
def varied (e : Element) (vars : List Variation) (j : Nat) : Element :=
  vars.foldl (fun e v => changed e v (v.vals.getD j .none)) e

theorem applyVars_spec (vars : List Variation) (n0 : Nat) (hlen : ∀ v ∈ vars, v.vals.length = n0) (s s' : Sequence)
    (h : applyVars vars s = .ok s') (j : Nat) (hj : j < n0) (e : Element)
    (he : Dict.get? s.data ((j + 1 : Nat) : Int) = some (.el e)) :
    Dict.get? s'.data ((j + 1 : Nat) : Int) = some (.el (varied e vars j)) ∧
    s'.awgspecs = s.awgspecs ∧ s'.sequencing = s.sequencing := by
  induction vars generalizing s e with
  | nil =>
    simp only [applyVars, Except.ok.injEq] at h
    subst h; exact ⟨he, rfl, rfl⟩
  | cons v vs ih =>
    unfold applyVars at h
    cases hv : applyVals v v.vals 0 s with
    | error er => rw [hv] at h; cases h
    | ok s1 =>
      rw [hv] at h
      simp only at h
      obtain ⟨h1, _, h3, h4⟩ := applyVals_spec v v.vals 0 s s1 hv
      have hl : v.vals.length = n0 := hlen v (by simp)
      obtain ⟨e', he', hres⟩ := h1 j (by omega)
      simp only [Nat.zero_add] at he' hres
      rw [he] at he'
      cases he'
      obtain ⟨r1, r2, r3⟩ := ih (fun w hw => hlen w (by simp [hw])) s1 h (changed e v v.vals[j]) hres
      refine ⟨?_, by rw [r2, h3], by rw [r3, h4]⟩
      rw [r1]
      simp only [varied, List.foldl_cons]
      have : v.vals.getD j .none = v.vals[j] := by simp [List.getD, List.getElem?_eq_getElem (show j < v.vals.length by omega)]
      rw [this]

end Tools
end BB
