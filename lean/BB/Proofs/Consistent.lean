/-
  BB.Proofs.Consistent — what `checkConsistency() == True` gives: any two entries have the same
  channels up to order.
-/
import Mathlib.Data.List.Perm.Basic
import BB.Proofs.Basic
import BB.Proofs.DictEq
import BB.Model.Sequence

namespace BB

theorem insertSorted_perm {α} (lt : α → α → Bool) (x : α) (l : List α) : (insertSorted lt x l).Perm (x :: l) := by
  induction l with
  | nil => exact List.Perm.refl _
  | cons y ys ih =>
    unfold insertSorted
    split
    · exact List.Perm.refl _
    · exact (List.Perm.cons y ih).trans (List.Perm.swap x y ys)

theorem sortBy_perm' {α} (lt : α → α → Bool) (l : List α) : (sortBy lt l).Perm l := by
  induction l with
  | nil => exact List.Perm.refl _
  | cons x xs ih =>
    unfold sortBy
    simp only [List.foldr_cons]
    exact (insertSorted_perm lt x _).trans (List.Perm.cons x ih)

theorem partition_perm (l : List Chan) :
    ((l.filterMap (fun c => match c with | .int n => some n | _ => none)).map Chan.int ++
     (l.filterMap (fun c => match c with | .str s => some s | _ => none)).map Chan.str).Perm l := by
  induction l with
  | nil => exact List.Perm.refl _
  | cons c cs ih =>
    cases c with
    | int n =>
      simp only [List.filterMap_cons, List.map_cons, List.cons_append]
      exact List.Perm.cons _ ih
    | str s =>
      simp only [List.filterMap_cons, List.map_cons]
      exact (List.perm_middle).trans (List.Perm.cons _ ih)

/-- `_channelListSorter` only reorders -/
theorem channelListSorter_perm (l : List Chan) : (channelListSorter l).Perm l := by
  unfold channelListSorter
  refine List.Perm.trans ?_ (partition_perm l)
  exact List.Perm.append ((sortBy_perm' _ _).map _) ((sortBy_perm' _ _).map _)

theorem allEqLast_any_two {α} [DecidableEq α] (l : List α) (h : allEqLast l = true) (x y : α) (hx : x ∈ l) (hy : y ∈ l) :
    x = y := by
  unfold allEqLast at h
  cases hl : l.getLast? with
  | none =>
    have : l = [] := by simpa using hl
    subst this; simp at hx
  | some last =>
    rw [hl] at h
    simp only [List.all_eq_true, decide_eq_true_eq] at h
    rw [h x hx, h y hy]

theorem mapM_mem {α β} (f : α → Except Err β) (l : List α) (r : List β) (h : l.mapM f = .ok r) (a : α) (ha : a ∈ l) :
    ∃ b ∈ r, f a = .ok b := by
  obtain ⟨i, hi, rfl⟩ := List.getElem_of_mem ha
  have hl := mapM_ok_length f l r h
  exact ⟨r[i]'(by omega), List.getElem_mem _, mapM_ok_getElem f l r h i hi (by omega)⟩

/-- **a consistent sequence**: the channel lists of any two of its elements are permutations of
    each other -/
theorem consistent_channels_perm (s : Sequence) (h : s.checkConsistency = .ok true) (p q : Int) (e1 e2 : Element)
    (h1 : Dict.get? s.data p = some (.el e1)) (h2 : Dict.get? s.data q = some (.el e2)) :
    e1.channels.Perm e2.channels := by
  unfold Sequence.checkConsistency at h
  split at h
  · cases h
  · split at h
    · cases h
    · split at h
      · cases h
      · split at h
        · split at h <;> cases h
        · rename_i chans hchans
          split at h
          · cases h
          · rename_i hall
            have hall' : allEqLast (chans.map channelListSorter) = true := by simpa using hall
            have m1 : Entry.el e1 ∈ Dict.vals s.data :=
              List.mem_map.mpr ⟨(p, .el e1), Dict.mem_of_get?_eq_some p _ h1, rfl⟩
            have m2 : Entry.el e2 ∈ Dict.vals s.data :=
              List.mem_map.mpr ⟨(q, .el e2), Dict.mem_of_get?_eq_some q _ h2, rfl⟩
            obtain ⟨c1, hc1, e1c⟩ := mapM_mem _ _ _ hchans _ m1
            obtain ⟨c2, hc2, e2c⟩ := mapM_mem _ _ _ hchans _ m2
            simp only [Entry.channels, Except.ok.injEq] at e1c e2c
            subst e1c e2c
            have := allEqLast_any_two _ hall' (channelListSorter e1.channels) (channelListSorter e2.channels)
              (List.mem_map.mpr ⟨_, hc1, rfl⟩) (List.mem_map.mpr ⟨_, hc2, rfl⟩)
            exact (channelListSorter_perm e1.channels).symm.trans (this ▸ channelListSorter_perm e2.channels)

end BB
