/-
  BB.Proofs.G2Describe — helper lemmas for property C05 about `BluePrint.description`:
  the keys `segment_01, segment_02, ...` are pairwise distinct.
-/
import BB.Model.Describe

namespace BB.G2
open BB

theorem digits_zero_cons (n m : Nat) (h : '0' :: Nat.toDigits 10 n = Nat.toDigits 10 m) : n = m := by
  have h1 := congrArg (fun l => Nat.ofDigitChars 10 l 0) h
  simp only [Nat.ofDigitChars_toDigits (by decide : 1 < 10) (by decide : 10 ≤ 10)] at h1
  have this := Nat.ofDigitChars_toDigits (b := 10) (n := n) (by decide) (by decide)
  have h0 : Nat.ofDigitChars 10 ('0' :: Nat.toDigits 10 n) 0 = Nat.ofDigitChars 10 (Nat.toDigits 10 n) 0 := by
    simp [Nat.ofDigitChars]
  rw [h0, this] at h1; exact h1

theorem digits_inj (n m : Nat) (h : Nat.toDigits 10 n = Nat.toDigits 10 m) : n = m := by
  have h1 := congrArg (fun l => Nat.ofDigitChars 10 l 0) h
  simpa only [Nat.ofDigitChars_toDigits (by decide : 1 < 10) (by decide : 10 ≤ 10)] using h1

/-- `f"segment_{n:02d}"` is injective in `n` -/
theorem segKey_injective (n m : Nat) (h : segKey n = segKey m) : n = m := by
  unfold segKey at h
  have h' := congrArg String.toList h
  simp only [String.toList_append] at h'
  rw [List.append_assoc, List.append_assoc] at h'
  have h2 := List.append_cancel_left h'
  have hr : ∀ k : Nat, (toString k).toList = Nat.toDigits 10 k := fun k => Nat.toList_repr
  rw [hr, hr] at h2
  by_cases hn : n < 10 <;> by_cases hm : m < 10
  · simp only [hn, hm, if_true] at h2
    exact digits_inj n m (List.append_cancel_left h2)
  · simp only [hn, hm, if_true, if_false] at h2
    exact digits_zero_cons n m (by simpa using h2)
  · simp only [hn, hm, if_true, if_false] at h2
    exact (digits_zero_cons m n (by simpa using h2.symm)).symm
  · simp only [hn, hm, if_false] at h2
    exact digits_inj n m (by simpa using h2)

end BB.G2
